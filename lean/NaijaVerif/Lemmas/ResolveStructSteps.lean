import NaijaVerif.Lemmas.ResolveFactsOwn
/-
The facts of the resolver model as a HISTORY of bookkeeping primitives.

Every function of `Model/Resolve.lean` changes the facts only through the primitives of its section
"Facts bookkeeping".  `StepsE f g` says `g` arises from `f` by a sequence of the MODIFY-ONLY
primitives (what `checkExpr` uses: `recStmtRead … recUserCall`, `joinClass`), `StepsS f g` by a sequence
of all primitives (adding `pushStmt`, `pushLocal`, `pushScope`, `pushFunction`, `setRootScope`,
`setDefStmt`).  One walk over `checkExpr … checkOptBlock` proves it; after that, every property of the
facts that each primitive preserves (`Steps.inv`) or every reflexive-transitive relation each primitive
satisfies (`Steps.rel`) holds of the whole resolver without another walk:
* `LenE`: the modify-only primitives keep all list lengths;
* `Pre`: the IMMUTABLE part of the facts (owner and scope of a statement entry; owner, declaring
  scope, declaration statement and kind of a local; parent and owner of a scope; parent of a function)
  only ever grows by appending.
-/
namespace NaijaVerif.ResolveStruct
open NaijaVerif NaijaVerif.Resolve NaijaVerif.ResolveFacts

/-! ### The primitives -/

inductive PrimE : Facts → Facts → Prop
  | recStmtRead (f : Facts) (o s i : Nat) : PrimE f (recStmtRead f o s i)
  | recStmtWrite (f : Facts) (o s i : Nat) : PrimE f (recStmtWrite f o s i)
  | recStmtCallee (f : Facts) (s g : Nat) : PrimE f (recStmtCallee f s g)
  | joinClass (f : Facts) (s : Nat) (c : ExprClass) : PrimE f (joinClass f s c)
  | recCapRead (f : Facts) (o i : Nat) : PrimE f (recCapRead f o i)
  | recCapWrite (f : Facts) (o i : Nat) : PrimE f (recCapWrite f o i)
  | recDirectCallee (f : Facts) (a b : Nat) : PrimE f (recDirectCallee f a b)
  | recUserCall (f : Facts) (a b : Nat) : PrimE f (recUserCall f a b)

inductive PrimS : Facts → Facts → Prop
  | e {f g : Facts} : PrimE f g → PrimS f g
  | pushStmt (f : Facts) (o s : Nat) : PrimS f (pushStmt f o s)
  | pushLocal (f : Facts) (sl : Bool) (name : Bytes) (o s : Nat) (d : Option Nat) (k : LocalKind) :
      PrimS f (pushLocal f sl name o s d k)
  | pushScope (f : Facts) (p : Option Nat) (o : Nat) : PrimS f (pushScope f p o)
  | pushFunction (f : Facts) (name : Bytes) (np parent scope : Nat) : PrimS f (pushFunction f name np parent scope)
  | setRootScope (f : Facts) (s : Nat) : PrimS f (setRootScope f s)
  | setDefStmt (f : Facts) (fn sid : Nat) : PrimS f (setDefStmt f fn sid)

inductive Steps (P : Facts → Facts → Prop) : Facts → Facts → Prop
  | refl (f : Facts) : Steps P f f
  | step {f g h : Facts} : P f g → Steps P g h → Steps P f h

abbrev StepsE := Steps PrimE
abbrev StepsS := Steps PrimS

theorem Steps.trans {P : Facts → Facts → Prop} {a b c : Facts} (h1 : Steps P a b) (h2 : Steps P b c) : Steps P a c := by
  induction h1 with
  | refl => exact h2
  | step hp _ ih => exact .step hp (ih h2)

theorem Steps.one {P : Facts → Facts → Prop} {a b : Facts} (h : P a b) : Steps P a b := .step h (.refl _)

theorem Steps.of_eq {P : Facts → Facts → Prop} {a b : Facts} (h : a = b) : Steps P a b := h ▸ .refl _

theorem Steps.mono {P Q : Facts → Facts → Prop} (hpq : ∀ a b, P a b → Q a b) {a b : Facts} (h : Steps P a b) :
    Steps Q a b := by
  induction h with
  | refl => exact .refl _
  | step hp _ ih => exact .step (hpq _ _ hp) ih

theorem Steps.toS {a b : Facts} (h : Steps PrimE a b) : Steps PrimS a b := Steps.mono (fun _ _ => PrimS.e) h

/-- A property every primitive preserves is preserved by the history. -/
theorem Steps.inv {P : Facts → Facts → Prop} {I : Facts → Prop} (hI : ∀ a b, P a b → I a → I b) {a b : Facts}
    (h : Steps P a b) : I a → I b := by
  induction h with
  | refl => exact id
  | step hp _ ih => exact fun ha => ih (hI _ _ hp ha)

/-- A reflexive-transitive relation every primitive satisfies holds along the history. -/
theorem Steps.rel {P : Facts → Facts → Prop} {R : Facts → Facts → Prop} (hr : ∀ a, R a a)
    (ht : ∀ a b c, R a b → R b c → R a c) (hP : ∀ a b, P a b → R a b) {a b : Facts} (h : Steps P a b) : R a b := by
  induction h with
  | refl => exact hr _
  | step hp _ ih => exact ht _ _ _ (hP _ _ hp) ih

/-! ### Composite primitives -/

theorem recUse_steps (f : Facts) (o s i : Nat) : StepsE f (recUse f o s i) :=
  .step (.recStmtRead f o s i) (.one (.recCapRead _ o i))

theorem recReadWrite_steps (f : Facts) (o s i : Nat) : StepsE f (recReadWrite f o s i) :=
  .step (.recStmtRead f o s i) (.step (.recStmtWrite _ o s i) (.step (.recCapRead _ o i) (.one (.recCapWrite _ o i))))

/-! ### Expressions -/

theorem checkSegs_steps (env : Env) (cur : Scope) (sid : Nat) (span : Span) :
    ∀ (segs : List Seg) (f : Facts), StepsE f (checkSegs env cur sid span segs f).facts
  | [], f => .refl f
  | .lit _ :: rest, f => by simp only [checkSegs]; exact checkSegs_steps env cur sid span rest f
  | .var n _ :: rest, f => by
      simp only [checkSegs]
      split
      · exact (recUse_steps f _ _ _).trans (checkSegs_steps env cur sid span rest _)
      · exact checkSegs_steps env cur sid span rest f

theorem checkMethod_steps (env : Env) (cur : Scope) (sid : Nat) (rt : VType) (obj : Expr) (field : Bytes)
    (args : List Expr) (ms : Span) (f : Facts) :
    StepsE f (checkMethod env cur sid rt obj field args ms f).2 := by
  unfold checkMethod
  split
  · simp only
    split
    · split
      · exact recReadWrite_steps f _ _ _
      · exact .refl f
    · exact .refl f
  · exact .refl f

mutual
  theorem checkExpr_steps (env : Env) (cur : Scope) (sid : Nat) :
      ∀ (e : Expr) (f : Facts), StepsE f (checkExpr env cur sid e f).facts
    | .num _ _, f => by simp only [checkExpr]; exact .refl f
    | .bool _ _, f => by simp only [checkExpr]; exact .refl f
    | .null _, f => by simp only [checkExpr]; exact .refl f
    | .str (.static _) _, f => by simp only [checkExpr]; exact .refl f
    | .str (.interp segs) s, f => by simp only [checkExpr]; exact checkSegs_steps env cur sid s segs f
    | .array es _, f => by simp only [checkExpr]; exact checkExprs_steps env cur sid es f
    | .index a i _ _, f => by
        simp only [checkExpr]
        exact (checkExpr_steps env cur sid a f).trans (checkExpr_steps env cur sid i _)
    | .var v _ s, f => by
        simp only [checkExpr]
        split
        · exact recUse_steps f _ _ _
        · exact .refl f
    | .binary _ l r _, f => by
        simp only [checkExpr]
        exact (checkExpr_steps env cur sid l f).trans (checkExpr_steps env cur sid r _)
    | .unary _ e _, f => by simp only [checkExpr]; exact checkExpr_steps env cur sid e f
    | .member o _ _ _, f => by simp only [checkExpr]; exact checkExpr_steps env cur sid o f
    | .call callee args fn s, f => by
        have hc := checkExpr_steps env cur sid callee
        cases callee with
        | var fname vb vs =>
          simp only [checkExpr]
          split
          · exact checkExprs_steps env cur sid args f
          · split
            · refine Steps.trans ?_ (checkExprs_steps env cur sid args _)
              exact .step (.recDirectCallee f _ _) (.step (.recUserCall _ _ _) (.one (.recStmtCallee _ _ _)))
            · exact checkExprs_steps env cur sid args f
        | member obj field fs ms =>
          simp only [checkExpr]
          refine Steps.trans ?_ (checkExprs_steps env cur sid args _)
          split
          · exact (checkExpr_steps env cur sid obj f).trans (checkMethod_steps ..)
          · exact checkExpr_steps env cur sid obj f
        | num _ _ => rw [checkExpr_call_other _ _ _ _ _ _ _ _ rfl]; exact (hc f).trans (checkExprs_steps env cur sid args _)
        | bool _ _ => rw [checkExpr_call_other _ _ _ _ _ _ _ _ rfl]; exact (hc f).trans (checkExprs_steps env cur sid args _)
        | null _ => rw [checkExpr_call_other _ _ _ _ _ _ _ _ rfl]; exact (hc f).trans (checkExprs_steps env cur sid args _)
        | str _ _ => rw [checkExpr_call_other _ _ _ _ _ _ _ _ rfl]; exact (hc f).trans (checkExprs_steps env cur sid args _)
        | array _ _ => rw [checkExpr_call_other _ _ _ _ _ _ _ _ rfl]; exact (hc f).trans (checkExprs_steps env cur sid args _)
        | index _ _ _ _ => rw [checkExpr_call_other _ _ _ _ _ _ _ _ rfl]; exact (hc f).trans (checkExprs_steps env cur sid args _)
        | binary _ _ _ _ => rw [checkExpr_call_other _ _ _ _ _ _ _ _ rfl]; exact (hc f).trans (checkExprs_steps env cur sid args _)
        | unary _ _ _ => rw [checkExpr_call_other _ _ _ _ _ _ _ _ rfl]; exact (hc f).trans (checkExprs_steps env cur sid args _)
        | call _ _ _ _ => rw [checkExpr_call_other _ _ _ _ _ _ _ _ rfl]; exact (hc f).trans (checkExprs_steps env cur sid args _)
  theorem checkExprs_steps (env : Env) (cur : Scope) (sid : Nat) :
      ∀ (es : List Expr) (f : Facts), StepsE f (checkExprs env cur sid es f).facts
    | [], f => .refl f
    | e :: es, f => by
        simp only [checkExprs]
        exact (checkExpr_steps env cur sid e f).trans (checkExprs_steps env cur sid es _)
end

/-! ### `declareParams`, `predeclare` -/

theorem declareParams_steps (sl : Bool) (owner scope : Nat) : ∀ (ps : List Param) (sc : Scope) (f : Facts),
    StepsS f (declareParams sl owner scope ps sc f).2.2
  | [], _, f => .refl f
  | p :: ps, sc, f => by
      simp only [declareParams]
      exact .step (.pushLocal f sl p.name owner scope none .parameter) (declareParams_steps sl owner scope ps _ _)

theorem predeclare_steps (env : Env) : ∀ (ss : List Stmt) (sigs : List FnSig) (f : Facts),
    StepsS f (predeclare env ss sigs f).facts
  | [], _, f => .refl f
  | .fnDef name nsp ps body _ _ _ :: rest, sigs, f => by
      simp only [predeclare]
      split
      · exact predeclare_steps env rest sigs f
      · exact .step (.pushFunction f name ps.length env.owner env.scope) (predeclare_steps env rest _ _)
  | .assign .. :: rest, sigs, f => by simp only [predeclare]; exact predeclare_steps env rest sigs f
  | .assignExisting .. :: rest, sigs, f => by simp only [predeclare]; exact predeclare_steps env rest sigs f
  | .assignIndex .. :: rest, sigs, f => by simp only [predeclare]; exact predeclare_steps env rest sigs f
  | .ifS .. :: rest, sigs, f => by simp only [predeclare]; exact predeclare_steps env rest sigs f
  | .loop .. :: rest, sigs, f => by simp only [predeclare]; exact predeclare_steps env rest sigs f
  | .block .. :: rest, sigs, f => by simp only [predeclare]; exact predeclare_steps env rest sigs f
  | .ret .. :: rest, sigs, f => by simp only [predeclare]; exact predeclare_steps env rest sigs f
  | .brk .. :: rest, sigs, f => by simp only [predeclare]; exact predeclare_steps env rest sigs f
  | .cont .. :: rest, sigs, f => by simp only [predeclare]; exact predeclare_steps env rest sigs f
  | .expr .. :: rest, sigs, f => by simp only [predeclare]; exact predeclare_steps env rest sigs f

/-! ### Statements and blocks -/

theorem push_steps (f : Facts) (o s : Nat) : StepsS f (pushStmt f o s) := .one (.pushStmt f o s)

theorem joinClass_steps (f : Facts) (s : Nat) (c : ExprClass) : StepsS f (joinClass f s c) := .one (.e (.joinClass f s c))

mutual
  /-- Every statement first pushes its own entry; what follows is a history from there. -/
  theorem checkStmt_steps' (env : Env) (cur : Cur) :
      ∀ (s : Stmt) (f : Facts), StepsS (pushStmt f env.owner env.scope) (checkStmt env cur s f).facts
    | .assign x xs e _ _ sp, f => by
        simp only [checkStmt]
        have h1 := (checkExpr_steps env cur.vars f.stmtEffects.length e (pushStmt f env.owner env.scope)).toS.trans
          (joinClass_steps _ f.stmtEffects.length
            (classifyExpr env cur.vars (checkExpr env cur.vars f.stmtEffects.length e (pushStmt f env.owner env.scope)).facts e))
        split
        · exact h1.trans (.one (.e (.recStmtWrite _ _ _ _)))
        · exact h1.trans (.step (.pushLocal _ _ _ _ _ _ _) (.one (.e (.recStmtWrite _ _ _ _))))
    | .assignExisting x xs e _ _ sp, f => by
        simp only [checkStmt]
        split
        · exact (Steps.step (.e (.recStmtWrite _ _ _ _)) (.one (.e (.recCapWrite _ _ _)))).trans
              ((checkExpr_steps env cur.vars f.stmtEffects.length e _).toS.trans (joinClass_steps _ _ _))
        · exact (checkExpr_steps env cur.vars f.stmtEffects.length e _).toS.trans (joinClass_steps _ _ _)
    | .assignIndex t e _ sp, f => by
        simp only [checkStmt]
        refine ((checkExpr_steps env cur.vars f.stmtEffects.length t _).trans
            (checkExpr_steps env cur.vars f.stmtEffects.length e _)).toS.trans ?_
        split
        · exact (recReadWrite_steps _ _ _ _).toS.trans (joinClass_steps _ _ _)
        · exact joinClass_steps _ _ _
    | .ifS c t e _ sp, f => by
        simp only [checkStmt]
        exact (checkExpr_steps env cur.vars f.stmtEffects.length c _).toS.trans
            ((joinClass_steps _ _ _).trans ((checkBlock_steps _ _ t _).trans (checkOptBlock_steps _ _ e _)))
    | .loop c b _ sp, f => by
        simp only [checkStmt]
        exact (checkExpr_steps env cur.vars f.stmtEffects.length c _).toS.trans
            ((joinClass_steps _ _ _).trans (checkBlock_steps _ _ b _))
    | .block b _ sp, f => by
        simp only [checkStmt]
        exact checkBlock_steps _ _ b _
    | .fnDef name nsp ps body _ _ sp, f => by
        simp only [checkStmt]
        have h1 := joinClass_steps (pushStmt f env.owner env.scope) f.stmtEffects.length .impure
        split
        · exact h1
        · exact h1.trans (.step (.setDefStmt _ _ _) (.step (.pushScope _ _ _)
            ((declareParams_steps _ _ _ _ _ _).trans (checkBlock_steps _ _ body _))))
    | .ret e _ sp, f => by
        simp only [checkStmt]
        split
        · next e =>
          exact (checkExpr_steps env cur.vars f.stmtEffects.length e _).toS.trans (joinClass_steps _ _ _)
        · exact joinClass_steps _ _ _
    | .brk _ sp, f => by simp only [checkStmt]; exact .refl _
    | .cont _ sp, f => by simp only [checkStmt]; exact .refl _
    | .expr e _ sp, f => by
        simp only [checkStmt]
        exact (checkExpr_steps env cur.vars f.stmtEffects.length e _).toS.trans (joinClass_steps _ _ _)
  theorem checkStmts_steps (env : Env) :
      ∀ (ss : List Stmt) (cur : Cur) (f : Facts), StepsS f (checkStmts env cur ss f).facts
    | [], cur, f => by simp only [checkStmts]; exact .refl f
    | s :: ss, cur, f => by
        simp only [checkStmts]
        exact ((push_steps f _ _).trans (checkStmt_steps' env cur s f)).trans (checkStmts_steps env ss _ _)
  theorem checkBlock_steps (env : Env) (parent : Option Nat) :
      ∀ (b : Block) (f : Facts), StepsS f (checkBlock env parent b f).facts
    | .mk ss sp, f => by
        simp only [checkBlock]
        refine Steps.trans ?_ (checkStmts_steps _ ss _ _)
        refine Steps.trans ?_ (predeclare_steps _ ss _ _)
        split
        · exact .step (.pushScope f parent env.owner) (.one (.setRootScope _ _))
        · exact .one (.pushScope f parent env.owner)
  theorem checkOptBlock_steps (env : Env) (parent : Option Nat) :
      ∀ (b : Option Block) (f : Facts), StepsS f (checkOptBlock env parent b f).facts
    | none, f => by simp only [checkOptBlock]; exact .refl f
    | some b, f => by simp only [checkOptBlock]; exact checkBlock_steps env parent b f
end

theorem checkStmt_steps (env : Env) (cur : Cur) (s : Stmt) (f : Facts) : StepsS f (checkStmt env cur s f).facts :=
  (push_steps f _ _).trans (checkStmt_steps' env cur s f)

theorem resolveWith_steps (spanLen : Bool) (q : Block) : StepsS rootFacts (resolveWith spanLen q).facts :=
  checkBlock_steps (rootEnv spanLen) none q rootFacts


/-! ### The shape of `checkStmt` on a definition -/

/-- `predeclared_function_id(body)`: the signature pushed for this very definition. -/
def sigOf (env : Env) (cur : Cur) (name : Bytes) : Option FnSig :=
  if cur.seenFns.contains name then none else
    match env.fns with
    | own :: _ => findFn own name
    | [] => none

/-- The facts after the definition statement pushed its entry. -/
def fnF1 (env : Env) (f : Facts) : Facts := joinClass (pushStmt f env.owner env.scope) f.stmtEffects.length .impure
/-- The parameter scope. -/
def fnPscope (f : Facts) : Nat := f.scopes.length
/-- … and after the parameter scope was pushed. -/
def fnF3 (env : Env) (f : Facts) (g : FnSig) : Facts :=
  pushScope (setDefStmt (fnF1 env f) g.id f.stmtEffects.length) (some env.scope) g.id
def fnPr (env : Env) (f : Facts) (g : FnSig) (ps : List Param) : List Param × Scope × Facts :=
  declareParams env.spanLen g.id (fnPscope f) ps [] (fnF3 env f g)
/-- The environment of the body. -/
def fnEnvB (env : Env) (cur : Cur) (f : Facts) (g : FnSig) (ps : List Param) : Env :=
  { env with vars := (fnPr env f g ps).2.1 :: cur.vars :: env.vars, curFn := some g.id, owner := g.id, inLoop := 0,
             scope := fnPscope f }

theorem checkStmt_fnDef (env : Env) (cur : Cur) (name : Bytes) (nsp : Span) (ps : List Param) (body : Block)
    (a b : Option Nat) (sp : Span) (f : Facts) :
    checkStmt env cur (.fnDef name nsp ps body a b sp) f =
      match sigOf env cur name with
      | none => ⟨.fnDef name nsp ps body none (some f.stmtEffects.length) sp, [], fnF1 env f, cur⟩
      | some g =>
          ⟨.fnDef name nsp (fnPr env f g ps).1 (checkBlock (fnEnvB env cur f g ps) (some (fnPscope f)) body (fnPr env f g ps).2.2).val
              (some g.id) (some f.stmtEffects.length) sp,
           (checkBlock (fnEnvB env cur f g ps) (some (fnPscope f)) body (fnPr env f g ps).2.2).ds,
           (checkBlock (fnEnvB env cur f g ps) (some (fnPscope f)) body (fnPr env f g ps).2.2).facts,
           { cur with seenFns := name :: cur.seenFns }⟩ := by
  simp only [checkStmt, sigOf]
  rfl

/-! ### The shape of `checkBlock` -/

def blkF2 (env : Env) (parent : Option Nat) (f : Facts) : Facts :=
  if parent.isNone && env.owner == 0 then setRootScope (pushScope f parent env.owner) f.scopes.length
  else pushScope f parent env.owner
def blkEnv1 (env : Env) (f : Facts) : Env := { env with scope := f.scopes.length }
def blkPre (env : Env) (parent : Option Nat) (ss : List Stmt) (f : Facts) : Resolve.Pre :=
  predeclare (blkEnv1 env f) ss [] (blkF2 env parent f)
def blkSigs (env : Env) (parent : Option Nat) (ss : List Stmt) (f : Facts) : List FnSig :=
  retIter (blkEnv1 env f) (ownMakes ss) (blkPre env parent ss f).bodies (blkPre env parent ss f).bodies.length
    (blkPre env parent ss f).sigs
def blkEnv2 (env : Env) (parent : Option Nat) (ss : List Stmt) (f : Facts) : Env :=
  { blkEnv1 env f with fns := blkSigs env parent ss f :: env.fns }

theorem checkBlock_mk (env : Env) (parent : Option Nat) (ss : List Stmt) (sp : Span) (f : Facts) :
    checkBlock env parent (.mk ss sp) f =
      ⟨.mk (checkStmts (blkEnv2 env parent ss f) {} ss (blkPre env parent ss f).facts).val sp,
       (blkPre env parent ss f).ds ++ (checkStmts (blkEnv2 env parent ss f) {} ss (blkPre env parent ss f).facts).ds,
       (checkStmts (blkEnv2 env parent ss f) {} ss (blkPre env parent ss f).facts).facts⟩ := by
  simp only [checkBlock]
  rfl

/-! ### The modify-only primitives keep every length -/

structure LenE (f g : Facts) : Prop where
  stmts : g.stmtEffects.length = f.stmtEffects.length
  locals : g.locals = f.locals
  scopes : g.scopes = f.scopes
  scopeLocals : g.scopeLocals = f.scopeLocals
  functions : g.functions = f.functions
  directs : g.functionDirects.length = f.functionDirects.length

theorem LenE.refl (f : Facts) : LenE f f := ⟨rfl, rfl, rfl, rfl, rfl, rfl⟩

theorem LenE.trans {a b c : Facts} (h1 : LenE a b) (h2 : LenE b c) : LenE a c :=
  ⟨h2.stmts.trans h1.stmts, h2.locals.trans h1.locals, h2.scopes.trans h1.scopes,
   h2.scopeLocals.trans h1.scopeLocals, h2.functions.trans h1.functions, h2.directs.trans h1.directs⟩

theorem primE_lenE {f g : Facts} (h : PrimE f g) : LenE f g := by
  cases h with
  | recStmtRead o s i => unfold recStmtRead; split <;> exact ⟨by simp [modifyAt_length], rfl, rfl, rfl, rfl, rfl⟩
  | recStmtWrite o s i => unfold recStmtWrite; split <;> exact ⟨by simp [modifyAt_length], rfl, rfl, rfl, rfl, rfl⟩
  | recStmtCallee s g => exact ⟨by simp [recStmtCallee, modifyAt_length], rfl, rfl, rfl, rfl, rfl⟩
  | joinClass s c => exact ⟨by simp [Resolve.joinClass, modifyAt_length], rfl, rfl, rfl, rfl, rfl⟩
  | recCapRead o i =>
    unfold recCapRead
    split
    · exact LenE.refl f
    · split
      · exact LenE.refl f
      · exact ⟨rfl, rfl, rfl, rfl, rfl, by simp [modifyAt_length]⟩
  | recCapWrite o i =>
    unfold recCapWrite
    split
    · exact LenE.refl f
    · split
      · exact LenE.refl f
      · exact ⟨rfl, rfl, rfl, rfl, rfl, by simp [modifyAt_length]⟩
  | recDirectCallee a b => exact ⟨rfl, rfl, rfl, rfl, rfl, by simp [Resolve.recDirectCallee, modifyAt_length]⟩
  | recUserCall a b => exact ⟨rfl, rfl, rfl, rfl, rfl, rfl⟩

theorem Steps.lenE {f g : Facts} (h : Steps PrimE f g) : LenE f g :=
  Steps.rel LenE.refl (fun _ _ _ => LenE.trans) (fun _ _ => primE_lenE) h

theorem checkExpr_lenE (env : Env) (cur : Scope) (sid : Nat) (e : Expr) (f : Facts) :
    LenE f (checkExpr env cur sid e f).facts := (checkExpr_steps env cur sid e f).lenE

/-! ### The immutable part of the facts only grows by appending -/

/-- Owner and scope of every statement entry. -/
def sImm (f : Facts) : List (Nat × Nat) := f.stmtEffects.map (fun e => (e.function, e.scope))

theorem sImm_modify (f : Facts) (sid : Nat) (g : StmtEffect → StmtEffect)
    (hg : ∀ e, ((g e).function, (g e).scope) = (e.function, e.scope)) :
    (modifyAt f.stmtEffects sid g).map (fun e => (e.function, e.scope)) = sImm f :=
  modifyAt_map_key _ g hg _ _

structure Pre (f g : Facts) : Prop where
  stmts : sImm f <+: sImm g
  locals : f.locals <+: g.locals
  scopes : f.scopes <+: g.scopes
  nfun : f.functions.length ≤ g.functions.length
  nsl : f.scopeLocals.length ≤ g.scopeLocals.length
  ndir : f.functionDirects.length ≤ g.functionDirects.length

theorem Pre.refl (f : Facts) : Pre f f :=
  ⟨List.prefix_refl _, List.prefix_refl _, List.prefix_refl _, Nat.le_refl _, Nat.le_refl _, Nat.le_refl _⟩

theorem Pre.trans {a b c : Facts} (h1 : Pre a b) (h2 : Pre b c) : Pre a c :=
  ⟨h1.stmts.trans h2.stmts, h1.locals.trans h2.locals, h1.scopes.trans h2.scopes, Nat.le_trans h1.nfun h2.nfun,
   Nat.le_trans h1.nsl h2.nsl, Nat.le_trans h1.ndir h2.ndir⟩

theorem Pre.of_eq {f g : Facts} (h1 : sImm g = sImm f) (h2 : g.locals = f.locals) (h3 : g.scopes = f.scopes)
    (h4 : g.functions.length = f.functions.length) (h5 : g.scopeLocals.length = f.scopeLocals.length)
    (h6 : g.functionDirects.length = f.functionDirects.length) : Pre f g :=
  ⟨h1 ▸ List.prefix_refl _, h2 ▸ List.prefix_refl _, h3 ▸ List.prefix_refl _, Nat.le_of_eq h4.symm,
   Nat.le_of_eq h5.symm, Nat.le_of_eq h6.symm⟩

theorem primE_sImm {f g : Facts} (h : PrimE f g) : sImm g = sImm f := by
  cases h with
  | recStmtRead o s i =>
    unfold recStmtRead; split
    · simp only [sImm]; exact sImm_modify f s _ (fun _ => rfl)
    · rfl
  | recStmtWrite o s i =>
    unfold recStmtWrite; split
    · simp only [sImm]; exact sImm_modify f s _ (fun _ => rfl)
    · rfl
  | recStmtCallee s g => simp only [sImm, recStmtCallee]; exact sImm_modify f s _ (fun _ => rfl)
  | joinClass s c => simp only [sImm, Resolve.joinClass]; exact sImm_modify f s _ (fun _ => rfl)
  | recCapRead o i => unfold recCapRead; split; · rfl
                      · split <;> rfl
  | recCapWrite o i => unfold recCapWrite; split; · rfl
                       · split <;> rfl
  | recDirectCallee a b => rfl
  | recUserCall a b => rfl

theorem primS_pre {f g : Facts} (h : PrimS f g) : Pre f g := by
  cases h with
  | e he =>
    have hl := primE_lenE he
    exact Pre.of_eq (primE_sImm he) hl.locals hl.scopes (by rw [hl.functions]) (by rw [hl.scopeLocals]) hl.directs
  | pushStmt o s =>
    exact ⟨by simp [sImm, pushStmt], List.prefix_refl _, List.prefix_refl _, Nat.le_refl _, Nat.le_refl _, Nat.le_refl _⟩
  | pushLocal sl name o s d k =>
    exact ⟨List.prefix_refl _, by simp [pushLocal], List.prefix_refl _, by simp [pushLocal, modifyAt_length],
      by simp [pushLocal, modifyAt_length], Nat.le_refl _⟩
  | pushScope p o =>
    exact ⟨List.prefix_refl _, List.prefix_refl _, by simp [pushScope], Nat.le_refl _, by simp [pushScope], Nat.le_refl _⟩
  | pushFunction name np parent scope =>
    exact ⟨List.prefix_refl _, List.prefix_refl _, List.prefix_refl _, by simp [pushFunction], Nat.le_refl _,
      by simp [pushFunction]⟩
  | setRootScope s =>
    exact ⟨List.prefix_refl _, List.prefix_refl _, List.prefix_refl _, by simp [setRootScope, modifyAt_length],
      Nat.le_refl _, Nat.le_refl _⟩
  | setDefStmt fn sid =>
    exact ⟨List.prefix_refl _, List.prefix_refl _, List.prefix_refl _, by simp [setDefStmt, modifyAt_length],
      Nat.le_refl _, Nat.le_refl _⟩

theorem Steps.pre {f g : Facts} (h : Steps PrimS f g) : Pre f g :=
  Steps.rel Pre.refl (fun _ _ _ => Pre.trans) (fun _ _ => primS_pre) h

theorem prefix_getElem? {α : Type} {l l' : List α} (h : l <+: l') {i : Nat} {a : α} (hi : l[i]? = some a) :
    l'[i]? = some a := by
  obtain ⟨t, rfl⟩ := h
  rw [List.getElem?_append_left (List.getElem?_eq_some_iff.1 hi).1]
  exact hi

theorem Pre.local {f g : Facts} (h : Pre f g) {l : Nat} {li : LocalInfo} (hl : f.locals[l]? = some li) :
    g.locals[l]? = some li := prefix_getElem? h.locals hl

theorem Pre.scope {f g : Facts} (h : Pre f g) {s : Nat} {si : ScopeInfo} (hs : f.scopes[s]? = some si) :
    g.scopes[s]? = some si := prefix_getElem? h.scopes hs

theorem Pre.stmt {f g : Facts} (h : Pre f g) {i : Nat} {p : Nat × Nat} (hi : (sImm f)[i]? = some p) :
    (sImm g)[i]? = some p := prefix_getElem? h.stmts hi

theorem Pre.nl {f g : Facts} (h : Pre f g) : f.locals.length ≤ g.locals.length := h.locals.length_le
theorem Pre.nsc {f g : Facts} (h : Pre f g) : f.scopes.length ≤ g.scopes.length := h.scopes.length_le
theorem Pre.ns {f g : Facts} (h : Pre f g) : f.stmtEffects.length ≤ g.stmtEffects.length := by
  have := h.stmts.length_le
  simpa [sImm] using this

end NaijaVerif.ResolveStruct
