import NaijaVerif.Model.Eval
/-
Fuel monotonicity of the evaluator: more fuel never changes a result other than `fuel`.
`Res.le r r'` ("`r` is `fuel` or equals `r'`") is compositional over `Res.bind`, so the proof is one
induction on the fuel with the eight mutually recursive functions side by side.
-/
namespace NaijaVerif.Eval
open NaijaVerif

variable {N : Type}

/-- `r` is fuel exhaustion or the same result as `r'`. -/
def Res.le {α : Type} (r r' : Res N α) : Prop := r = .fuel ∨ r = r'

theorem Res.le_refl {α : Type} (r : Res N α) : r.le r := Or.inr rfl

theorem Res.fuel_le {α : Type} (r : Res N α) : (Res.fuel : Res N α).le r := Or.inl rfl

theorem Res.bind_le {α β : Type} {r r' : Res N α} {k k' : α → State N → Res N β}
    (h : r.le r') (hk : ∀ a st, (k a st).le (k' a st)) : (r.bind k).le (r'.bind k') := by
  rcases h with h | h
  · subst h; exact Or.inl rfl
  · subst h
    cases r with
    | ok a st => exact hk a st
    | err => exact Or.inr rfl
    | panic => exact Or.inr rfl
    | fuel => exact Or.inl rfl

theorem Res.le_of_ne_fuel {α : Type} {r r' : Res N α} (h : r.le r') (hne : r ≠ .fuel) : r' = r := by
  rcases h with h | h
  · exact absurd h hne
  · exact h.symm

variable [NumOps N]

/-- All eight functions at fuel `f` are below those at fuel `g`. -/
structure Mono (cfg : RunCfg) (f g : Nat) : Prop where
  expr : ∀ (e : Expr) (st : State N), (evalExpr cfg f e st).le (evalExpr cfg g e st)
  sel : ∀ es (st : State N), (evalSel cfg f es st).le (evalSel cfg g es st)
  idxs : ∀ is (st : State N), (evalIdxs cfg f is st).le (evalIdxs cfg g is st)
  mutOp : ∀ m args sp (st : State N), (evalMutOp cfg f m args sp st).le (evalMutOp cfg g m args sp st)
  stmt : ∀ s (st : State N), (execStmt cfg f s st).le (execStmt cfg g s st)
  stmts : ∀ ss (st : State N), (execStmts cfg f ss st).le (execStmts cfg g ss st)
  block : ∀ b (st : State N), (execBlock cfg f b st).le (execBlock cfg g b st)
  loop : ∀ c b sp (st : State N), (loopW cfg f c b sp st).le (loopW cfg g c b sp st)

/-- Close a goal `A.le B` where `A` and `B` are the same term up to the fuel of sub-calls. -/
macro "mono_close" h:ident : tactic => `(tactic| (
  repeat (first
    | exact Res.le_refl _
    | exact Mono.expr $h _ _
    | exact Mono.sel $h _ _
    | exact Mono.idxs $h _ _
    | exact Mono.mutOp $h _ _ _ _
    | exact Mono.stmt $h _ _
    | exact Mono.stmts $h _ _
    | exact Mono.block $h _ _
    | exact Mono.loop $h _ _ _ _
    | (apply Res.bind_le)
    | (intro _ _)
    | split)))

theorem mono_sel_step {cfg : RunCfg} {f g : Nat} (h : Mono (N := N) cfg f g) (es) (st : State N) :
    (evalSel cfg (f + 1) es st).le (evalSel cfg (g + 1) es st) := by
  cases es with
  | nil => simp only [evalSel]; exact Res.le_refl _
  | cons e rest =>
    cases e with
    | error s => simp only [evalSel]; exact Res.le_refl _
    | ok e => simp only [evalSel]; mono_close h

theorem mono_idxs_step {cfg : RunCfg} {f g : Nat} (h : Mono (N := N) cfg f g) (is) (st : State N) :
    (evalIdxs cfg (f + 1) is st).le (evalIdxs cfg (g + 1) is st) := by
  cases is with
  | nil => simp only [evalIdxs]; exact Res.le_refl _
  | cons e rest => obtain ⟨e, isp⟩ := e; simp only [evalIdxs]; mono_close h

theorem mono_mutOp_step {cfg : RunCfg} {f g : Nat} (h : Mono (N := N) cfg f g) (m args sp) (st : State N) :
    (evalMutOp cfg (f + 1) m args sp st).le (evalMutOp cfg (g + 1) m args sp st) := by
  cases m with
  | push => simp only [evalMutOp]; mono_close h
  | pop => simp only [evalMutOp]; mono_close h
  | reverse => simp only [evalMutOp]; mono_close h
  | cmd c => cases c <;> simp only [evalMutOp] <;> mono_close h

theorem mono_stmts_step {cfg : RunCfg} {f g : Nat} (h : Mono (N := N) cfg f g) (ss) (st : State N) :
    (execStmts cfg (f + 1) ss st).le (execStmts cfg (g + 1) ss st) := by
  cases ss with
  | nil => simp only [execStmts]; exact Res.le_refl _
  | cons s rest => simp only [execStmts]; mono_close h

theorem mono_block_step {cfg : RunCfg} {f g : Nat} (h : Mono (N := N) cfg f g) (b) (st : State N) :
    (execBlock cfg (f + 1) b st).le (execBlock cfg (g + 1) b st) := by
  simp only [execBlock]; mono_close h

theorem mono_loop_step {cfg : RunCfg} {f g : Nat} (h : Mono (N := N) cfg f g) (c b sp) (st : State N) :
    (loopW cfg (f + 1) c b sp st).le (loopW cfg (g + 1) c b sp st) := by
  simp only [loopW]; mono_close h

theorem mono_stmt_step {cfg : RunCfg} {f g : Nat} (h : Mono (N := N) cfg f g) (s) (st : State N) :
    (execStmt cfg (f + 1) s st).le (execStmt cfg (g + 1) s st) := by
  cases s with
  | ret e _ _ => cases e <;> simp only [execStmt] <;> mono_close h
  | _ => simp only [execStmt] <;> mono_close h

theorem mono_expr_step {cfg : RunCfg} {f g : Nat} (h : Mono (N := N) cfg f g) (e) (st : State N) :
    (evalExpr cfg (f + 1) e st).le (evalExpr cfg (g + 1) e st) := by
  cases e with
  | str parts sp => cases parts <;> simp only [evalExpr] <;> mono_close h
  | call callee args fn sp => cases callee <;> simp only [evalExpr] <;> mono_close h
  | _ => simp only [evalExpr] <;> mono_close h

theorem mono_step {cfg : RunCfg} {f g : Nat} (h : Mono (N := N) cfg f g) : Mono (N := N) cfg (f + 1) (g + 1) :=
  ⟨mono_expr_step h, mono_sel_step h, mono_idxs_step h, mono_mutOp_step h, mono_stmt_step h,
   mono_stmts_step h, mono_block_step h, mono_loop_step h⟩

theorem mono_zero (cfg : RunCfg) (g : Nat) : Mono (N := N) cfg 0 g :=
  ⟨fun _ _ => by simp only [evalExpr]; exact Res.fuel_le _,
   fun _ _ => by simp only [evalSel]; exact Res.fuel_le _,
   fun _ _ => by simp only [evalIdxs]; exact Res.fuel_le _,
   fun _ _ _ _ => by simp only [evalMutOp]; exact Res.fuel_le _,
   fun _ _ => by simp only [execStmt]; exact Res.fuel_le _,
   fun _ _ => by simp only [execStmts]; exact Res.fuel_le _,
   fun _ _ => by simp only [execBlock]; exact Res.fuel_le _,
   fun _ _ _ _ => by simp only [loopW]; exact Res.fuel_le _⟩

/-- More fuel: every function at fuel `f` is below the same function at fuel `f + d`. -/
theorem mono_add (cfg : RunCfg) : ∀ f d : Nat, Mono (N := N) cfg f (f + d)
  | 0, d => by simpa using mono_zero cfg d
  | f + 1, d => by
    have := mono_step (mono_add cfg f d)
    simpa [Nat.add_right_comm] using this

theorem mono_le (cfg : RunCfg) {f g : Nat} (hfg : f ≤ g) : Mono (N := N) cfg f g := by
  obtain ⟨d, rfl⟩ := Nat.exists_eq_add_of_le hfg
  exact mono_add cfg f d

/-- `run` is monotone in the fuel. -/
theorem run_mono (cfg : RunCfg) {f g : Nat} (hfg : f ≤ g) (prog : Block) (r : Outcome N)
    (h : run cfg f prog = r) (hne : r ≠ .fuelOut) : run cfg g prog = r := by
  unfold run at h ⊢
  have hle := (mono_le (N := N) cfg hfg).block prog (State.init cfg)
  rcases hle with hf | heq
  · rw [hf] at h; exact absurd h.symm hne
  · rw [← heq]; exact h

end NaijaVerif.Eval
