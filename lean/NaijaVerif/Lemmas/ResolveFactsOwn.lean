import NaijaVerif.Lemmas.ResolveFacts
import NaijaVerif.Lemmas.AnalysisLiveModel
/-
What the resolver model records about CALLS in the per-statement facts, part 2: `ownOkB`.

`C03.ownOkB root facts` (`Lemmas/AnalysisCheck.lean`; the first half of `FactsCoverCalls`,
`Props/C06Accepted.lean`) says of an annotated program and its facts: walking the program with the
current function (`0` at top level, the `FunctionId` written on a definition inside its body), the
facts of every numbered statement name that function as its owner, and list every `FunctionId`
written on a user call in the statement's OWN expressions among its direct callees.

It holds of the output of the resolver model for EVERY input program (accepted or not): `check_stmt`
pushes the entry of the statement with `current_owner` before anything else, `check_expr` records the
callee (`record_stmt_callee`) at the very place where it writes the binding on the call, for the
`StmtId` of the statement being checked, and nothing ever removes a callee or changes an owner
(`SLe`, `Lemmas/ResolveFacts.lean`).  The walk is stated against the FINAL facts `F`: whatever the
checker produced at some point is below `F`.
-/
namespace NaijaVerif.ResolveFacts
open NaijaVerif NaijaVerif.Resolve NaijaVerif.C03

theorem lt_of_sle {f f' : Facts} {sid : Nat} (hs : sid < f.stmtEffects.length) (h : SLe f f') :
    sid < f'.stmtEffects.length := Nat.lt_of_lt_of_le hs h.len

/-! ### Expressions -/

theorem segsOk_noD : ∀ segs : List Seg, segsOk (fun _ => false) segs = true
  | [] => rfl
  | .lit _ :: ss => by simp only [segsOk]; exact segsOk_noD ss
  | .var _ (some _) :: ss => by simp [segsOk, segsOk_noD ss]
  | .var _ none :: ss => by simp only [segsOk]; exact segsOk_noD ss

theorem eOk_call_other (X D : Nat → Bool) (c : Expr) (args : List Expr) (fn : Option Nat) (sp : Span)
    (hc : otherCallee c = true) : eOk X D (.call c args fn sp) = eOkList X D args := by
  cases c with
  | var => cases hc
  | member => cases hc
  | _ => simp only [eOk]

/-- The checker keeps the shape of a callee. -/
theorem otherCallee_check (env : Env) (cur : Scope) (sid : Nat) (c : Expr) (f : Facts) :
    otherCallee (checkExpr env cur sid c f).val = otherCallee c := by
  cases c with
  | var v b s => simp only [checkExpr]; split <;> rfl
  | member o fl fs s => simp [checkExpr, otherCallee]
  | num _ _ => simp [checkExpr, otherCallee]
  | bool _ _ => simp [checkExpr, otherCallee]
  | null _ => simp [checkExpr, otherCallee]
  | str parts _ => cases parts <;> simp [checkExpr, otherCallee]
  | array _ _ => simp [checkExpr, otherCallee]
  | index _ _ _ _ => simp [checkExpr, otherCallee]
  | binary _ _ _ _ => simp [checkExpr, otherCallee]
  | unary _ _ _ => simp [checkExpr, otherCallee]
  | call callee args fn s =>
    cases callee with
    | var fname vb vs =>
      simp only [checkExpr]
      split
      · rfl
      · split <;> rfl
    | member obj field fs ms => simp only [checkExpr]; rfl
    | num _ _ => rw [checkExpr_call_other _ _ _ _ _ _ _ _ rfl]; rfl
    | bool _ _ => rw [checkExpr_call_other _ _ _ _ _ _ _ _ rfl]; rfl
    | null _ => rw [checkExpr_call_other _ _ _ _ _ _ _ _ rfl]; rfl
    | str _ _ => rw [checkExpr_call_other _ _ _ _ _ _ _ _ rfl]; rfl
    | array _ _ => rw [checkExpr_call_other _ _ _ _ _ _ _ _ rfl]; rfl
    | index _ _ _ _ => rw [checkExpr_call_other _ _ _ _ _ _ _ _ rfl]; rfl
    | binary _ _ _ _ => rw [checkExpr_call_other _ _ _ _ _ _ _ _ rfl]; rfl
    | unary _ _ _ => rw [checkExpr_call_other _ _ _ _ _ _ _ _ rfl]; rfl
    | call _ _ _ _ => rw [checkExpr_call_other _ _ _ _ _ _ _ _ rfl]; rfl

section expr
variable (env : Env) (cur : Scope) (sid : Nat) {F : Facts} {p : Nat × List Nat} (hp : (skey F)[sid]? = some p)
include hp

set_option linter.unusedSectionVars false in
mutual
  /-- Every `FunctionId` the checker writes on a user call of an expression of statement `sid` is among
  the direct callees the final facts record for `sid`. -/
  theorem checkExpr_own : ∀ (e : Expr) (f : Facts), sid < f.stmtEffects.length →
      SLe (checkExpr env cur sid e f).facts F →
      eOk (fun g => p.2.contains g) (fun _ => false) (checkExpr env cur sid e f).val = true
    | .num _ _, f, _, _ => by simp [checkExpr, eOk]
    | .bool _ _, f, _, _ => by simp [checkExpr, eOk]
    | .null _, f, _, _ => by simp [checkExpr, eOk]
    | .str (.static _) _, f, _, _ => by simp [checkExpr, eOk]
    | .str (.interp segs) s, f, _, _ => by simp only [checkExpr, eOk]; exact segsOk_noD _
    | .array es _, f, hs, h => by
        simp only [checkExpr] at h ⊢
        simp only [eOk]
        exact checkExprs_own es f hs h
    | .index a i _ _, f, hs, h => by
        simp only [checkExpr] at h ⊢
        simp only [eOk, Bool.and_eq_true]
        exact ⟨checkExpr_own a f hs ((checkExpr_sle env cur sid i _).trans h),
          checkExpr_own i _ (lt_of_sle hs (checkExpr_sle env cur sid a f)) h⟩
    | .var v _ s, f, _, _ => by
        simp only [checkExpr]
        split <;> simp [eOk]
    | .binary _ l r _, f, hs, h => by
        simp only [checkExpr] at h ⊢
        simp only [eOk, Bool.and_eq_true]
        exact ⟨checkExpr_own l f hs ((checkExpr_sle env cur sid r _).trans h),
          checkExpr_own r _ (lt_of_sle hs (checkExpr_sle env cur sid l f)) h⟩
    | .unary _ e _, f, hs, h => by
        simp only [checkExpr] at h ⊢
        simp only [eOk]
        exact checkExpr_own e f hs h
    | .member o _ _ _, f, hs, h => by
        simp only [checkExpr] at h ⊢
        simp only [eOk]
        exact checkExpr_own o f hs h
    | .call callee args fn s, f, hs, h => by
        have hc := checkExpr_own callee
        cases callee with
        | var fname vb vs =>
          cases hg : GlobalB.ofName fname with
          | some g =>
            simp only [checkExpr, hg] at h ⊢
            simp only [eOk, Bool.true_and]
            exact checkExprs_own args f hs h
          | none =>
            cases hl : lookupFn env fname with
            | some g =>
              simp only [checkExpr, hg, hl] at h ⊢
              simp only [eOk, Bool.and_eq_true]
              have hs1 : sid < (recUserCall (recDirectCallee f env.owner g.id) env.owner g.id).stmtEffects.length := hs
              refine ⟨?_, checkExprs_own args _ (lt_of_sle hs1 (SLe.addCallee _ _ _)) h⟩
              have := SLe.callee hs1 ((checkExprs_sle env cur sid args _).trans h) hp
              simpa using this
            | none =>
              simp only [checkExpr, hg, hl] at h ⊢
              simp only [eOk, Bool.true_and]
              exact checkExprs_own args f hs h
        | member obj field fs ms =>
          have ho := checkExpr_sle env cur sid obj f
          cases hi : inferExpr env cur obj with
          | none =>
            simp only [checkExpr, hi] at h ⊢
            simp only [eOk, Bool.and_eq_true]
            exact ⟨checkExpr_own obj f hs ((checkExprs_sle env cur sid args _).trans h),
              checkExprs_own args _ (lt_of_sle hs ho) h⟩
          | some rt =>
            simp only [checkExpr, hi] at h ⊢
            simp only [eOk, Bool.and_eq_true]
            have hm : SLe (checkExpr env cur sid obj f).facts
                (checkMethod env cur sid rt obj field args ms (checkExpr env cur sid obj f).facts).2 :=
              SLe.of_eq (checkMethod_skey _ _ _ _ _ _ _ _ _)
            exact ⟨checkExpr_own obj f hs ((hm.trans (checkExprs_sle env cur sid args _)).trans h),
              checkExprs_own args _ (lt_of_sle hs (ho.trans hm)) h⟩
        | num _ _ =>
          rw [checkExpr_call_other _ _ _ _ _ _ _ _ rfl] at h ⊢
          rw [eOk_call_other _ _ _ _ _ _ (by rw [otherCallee_check]; rfl)]
          exact checkExprs_own args _ (lt_of_sle hs (checkExpr_sle _ _ _ _ _)) h
        | bool _ _ =>
          rw [checkExpr_call_other _ _ _ _ _ _ _ _ rfl] at h ⊢
          rw [eOk_call_other _ _ _ _ _ _ (by rw [otherCallee_check]; rfl)]
          exact checkExprs_own args _ (lt_of_sle hs (checkExpr_sle _ _ _ _ _)) h
        | null _ =>
          rw [checkExpr_call_other _ _ _ _ _ _ _ _ rfl] at h ⊢
          rw [eOk_call_other _ _ _ _ _ _ (by rw [otherCallee_check]; rfl)]
          exact checkExprs_own args _ (lt_of_sle hs (checkExpr_sle _ _ _ _ _)) h
        | str _ _ =>
          rw [checkExpr_call_other _ _ _ _ _ _ _ _ rfl] at h ⊢
          rw [eOk_call_other _ _ _ _ _ _ (by rw [otherCallee_check]; rfl)]
          exact checkExprs_own args _ (lt_of_sle hs (checkExpr_sle _ _ _ _ _)) h
        | array _ _ =>
          rw [checkExpr_call_other _ _ _ _ _ _ _ _ rfl] at h ⊢
          rw [eOk_call_other _ _ _ _ _ _ (by rw [otherCallee_check]; rfl)]
          exact checkExprs_own args _ (lt_of_sle hs (checkExpr_sle _ _ _ _ _)) h
        | index _ _ _ _ =>
          rw [checkExpr_call_other _ _ _ _ _ _ _ _ rfl] at h ⊢
          rw [eOk_call_other _ _ _ _ _ _ (by rw [otherCallee_check]; rfl)]
          exact checkExprs_own args _ (lt_of_sle hs (checkExpr_sle _ _ _ _ _)) h
        | binary _ _ _ _ =>
          rw [checkExpr_call_other _ _ _ _ _ _ _ _ rfl] at h ⊢
          rw [eOk_call_other _ _ _ _ _ _ (by rw [otherCallee_check]; rfl)]
          exact checkExprs_own args _ (lt_of_sle hs (checkExpr_sle _ _ _ _ _)) h
        | unary _ _ _ =>
          rw [checkExpr_call_other _ _ _ _ _ _ _ _ rfl] at h ⊢
          rw [eOk_call_other _ _ _ _ _ _ (by rw [otherCallee_check]; rfl)]
          exact checkExprs_own args _ (lt_of_sle hs (checkExpr_sle _ _ _ _ _)) h
        | call _ _ _ _ =>
          rw [checkExpr_call_other _ _ _ _ _ _ _ _ rfl] at h ⊢
          rw [eOk_call_other _ _ _ _ _ _ (by rw [otherCallee_check]; rfl)]
          exact checkExprs_own args _ (lt_of_sle hs (checkExpr_sle _ _ _ _ _)) h
  theorem checkExprs_own : ∀ (es : List Expr) (f : Facts), sid < f.stmtEffects.length →
      SLe (checkExprs env cur sid es f).facts F →
      eOkList (fun g => p.2.contains g) (fun _ => false) (checkExprs env cur sid es f).val = true
    | [], f, _, _ => by simp [checkExprs, eOkList]
    | e :: es, f, hs, h => by
        simp only [checkExprs] at h ⊢
        simp only [eOkList, Bool.and_eq_true]
        exact ⟨checkExpr_own e f hs ((checkExprs_sle env cur sid es _).trans h),
          checkExprs_own es _ (lt_of_sle hs (checkExpr_sle env cur sid e f)) h⟩
end

end expr

/-! ### The setting of `ownOkB` -/

/-- What `ownOkB` fixes of the setting of C03's simulation: no plan, no removed local, and the owner
and callee tables read off the facts `F`. -/
structure OwnSetup (S : Setup) (F : Facts) : Prop where
  skip : ∀ i, S.cfg.skip i = false
  d1 : ∀ l, S.D1 l = false
  d2 : ∀ l, S.D2 l = false
  fnOf : ∀ i p, (skey F)[i]? = some p → S.fnOf i = p.1
  callees : ∀ i p, (skey F)[i]? = some p → S.callees i = p.2

theorem ownSetup_of (root : Block) (F : Facts) :
    OwnSetup (setupOf root F none (fun _ => false) (fun _ => false)) F := by
  refine ⟨fun _ => rfl, fun _ => rfl, fun _ => rfl, ?_, ?_⟩
  · intro i p h
    simp only [skey, List.getElem?_map, Option.map_eq_some_iff] at h
    obtain ⟨e, he, rfl⟩ := h
    simp [setupOf, Analysis.mkCtx, Analysis.Ctx.fnOf, Analysis.Ctx.eff?, he]
  · intro i p h
    simp only [skey, List.getElem?_map, Option.map_eq_some_iff] at h
    obtain ⟨e, he, rfl⟩ := h
    simp [setupOf, Analysis.mkCtx, Analysis.Ctx.callees, Analysis.Ctx.eff?, he]

theorem eOkList_one {X D : Nat → Bool} {e : Expr} (h : eOk X D e = true) : eOkList X D [e] = true := by
  simp [eOkList, h]

section stmt
variable {S : Setup} {F : Facts} (hS : OwnSetup S F) (q : Nat → Expr → Bool)
include hS

theorem other_ok (i : Nat) : S.otherRuleB i = true := by simp [Setup.otherRuleB, hS.skip]

theorem store_ok (q' : Expr → Bool) (i : Nat) (isDecl : Bool) (b : Option Nat) (e : Expr) :
    S.storeRuleB q' i isDecl b e = true := by
  simp only [Setup.storeRuleB, hS.skip]
  cases b <;> simp [hS.d1]

theorem base_ok {i f : Nat} {p : Nat × List Nat} {es : List Expr} (hp : (skey F)[i]? = some p) (hpo : p.1 = f)
    (he : eOkList (fun g => p.2.contains g) (fun _ => false) es = true) : S.baseB f i es = true := by
  simp only [Setup.baseB, Bool.and_eq_true, beq_iff_eq]
  refine ⟨by rw [hS.fnOf i p hp]; exact hpo, ?_⟩
  refine eOkList_mono2 (fun g hg => ?_) (fun x hx => ?_) es he
  · rw [hS.callees i p hp]; exact hg
  · rw [hS.d2 x] at hx; cases hx

/-- A statement with one expression of its own. -/
theorem own_expr {env : Env} {cur : Scope} {sid : Nat} {p : Nat × List Nat} (hp : (skey F)[sid]? = some p)
    (hpo : p.1 = env.owner) (e : Expr) (f0 : Facts) (hlen : sid < f0.stmtEffects.length)
    (h : SLe (checkExpr env cur sid e f0).facts F) :
    S.baseB env.owner sid [(checkExpr env cur sid e f0).val] = true :=
  base_ok hS hp hpo (eOkList_one (checkExpr_own env cur sid hp e f0 hlen h))

/-- The statement list of a block. -/
def ownB (S : Setup) (q : Nat → Expr → Bool) (f : Nat) (b : Block) : Bool := sokListB S q f b.stmts

def ownO (S : Setup) (q : Nat → Expr → Bool) (f : Nat) : Option Block → Bool
  | none => true
  | some b => ownB S q f b

omit hS in
theorem sok_ifS (f : Nat) (c : Expr) (t : Block) (e : Option Block) (i : Nat) (sp : Span) :
    sokB S q f (.ifS c t e (some i) sp) = (S.baseB f i [c] && S.otherRuleB i && ownB S q f t && ownO S q f e) := by
  cases t with
  | mk ts tsp =>
    cases e with
    | none => simp [sokB, ownB, ownO, Block.stmts]
    | some b => cases b; simp [sokB, ownB, ownO, Block.stmts]

omit hS in
theorem sok_loop (f : Nat) (c : Expr) (b : Block) (i : Nat) (sp : Span) :
    sokB S q f (.loop c b (some i) sp) = (S.baseB f i [c] && S.otherRuleB i && ownB S q f b) := by
  cases b; simp [sokB, ownB, Block.stmts]

omit hS in
theorem sok_block (f : Nat) (b : Block) (i : Nat) (sp : Span) :
    sokB S q f (.block b (some i) sp) = (S.baseB f i [] && S.otherRuleB i && ownB S q f b) := by
  cases b; simp [sokB, ownB, Block.stmts]

omit hS in
theorem sok_fnDef_some (f : Nat) (n : Bytes) (ns : Span) (ps : List Param) (b : Block) (g i : Nat) (sp : Span) :
    sokB S q f (.fnDef n ns ps b (some g) (some i) sp) = (S.baseB f i [] && S.otherRuleB i && ownB S q g b) := by
  cases b; simp [sokB, ownB, Block.stmts]

omit hS in
theorem sok_fnDef_none (f : Nat) (n : Bytes) (ns : Span) (ps : List Param) (b : Block) (i : Nat) (sp : Span) :
    sokB S q f (.fnDef n ns ps b none (some i) sp) = (S.baseB f i [] && S.otherRuleB i) := by
  cases b; simp [sokB]

set_option linter.unusedSectionVars false in
mutual
  theorem checkStmt_own (env : Env) (cur : Cur) : ∀ (s : Stmt) (f : Facts),
      SLe (checkStmt env cur s f).facts F → sokB S q env.owner (checkStmt env cur s f).val = true
    | .assign x xs e _ _ sp, f, h => by
        obtain ⟨p, hp, hpo⟩ := SLe.head ((checkStmt_sle env cur _ f).trans h)
        cases hfv : findVar cur.vars x with
        | some ent =>
          simp only [checkStmt, hfv] at h ⊢
          simp only [sokB, Bool.and_eq_true]
          exact ⟨own_expr hS hp hpo e (pushStmt f env.owner env.scope) (by simp) ((SLe.of_eq (by simp)).trans h),
            store_ok hS _ _ _ _ _⟩
        | none =>
          simp only [checkStmt, hfv] at h ⊢
          simp only [sokB, Bool.and_eq_true]
          exact ⟨own_expr hS hp hpo e (pushStmt f env.owner env.scope) (by simp) ((SLe.of_eq (by simp)).trans h),
            store_ok hS _ _ _ _ _⟩
    | .assignExisting x xs e _ _ sp, f, h => by
        obtain ⟨p, hp, hpo⟩ := SLe.head ((checkStmt_sle env cur _ f).trans h)
        cases hl : lookupVar env cur.vars x with
        | some ent =>
          simp only [checkStmt, hl] at h ⊢
          simp only [sokB, Bool.and_eq_true]
          have h0 : SLe (pushStmt f env.owner env.scope)
              (recCapWrite (recStmtWrite (pushStmt f env.owner env.scope) env.owner f.stmtEffects.length ent.id)
                env.owner ent.id) := SLe.of_eq (by simp)
          exact ⟨own_expr hS hp hpo e
              (recCapWrite (recStmtWrite (pushStmt f env.owner env.scope) env.owner f.stmtEffects.length ent.id)
                env.owner ent.id) (lt_of_sle (by simp) h0) ((SLe.of_eq (by simp)).trans h),
            store_ok hS _ _ _ _ _⟩
        | none =>
          simp only [checkStmt, hl] at h ⊢
          simp only [sokB, Bool.and_eq_true]
          exact ⟨own_expr hS hp hpo e (pushStmt f env.owner env.scope) (by simp) ((SLe.of_eq (by simp)).trans h),
            store_ok hS _ _ _ _ _⟩
    | .assignIndex t e _ sp, f, h => by
        obtain ⟨p, hp, hpo⟩ := SLe.head ((checkStmt_sle env cur _ f).trans h)
        simp only [checkStmt] at h ⊢
        simp only [sokB, Bool.and_eq_true]
        refine ⟨base_ok hS hp hpo ?_, other_ok hS _⟩
        have h2 : SLe (checkExpr env cur.vars f.stmtEffects.length e
            (checkExpr env cur.vars f.stmtEffects.length t (pushStmt f env.owner env.scope)).facts).facts F := by
          refine SLe.trans (SLe.of_eq ?_) h
          split <;> simp
        have hst := checkExpr_sle env cur.vars f.stmtEffects.length t (pushStmt f env.owner env.scope)
        simp only [eOkList, Bool.and_eq_true, and_true]
        exact ⟨checkExpr_own env cur.vars _ hp t (pushStmt f env.owner env.scope) (by simp)
            ((checkExpr_sle env cur.vars _ e _).trans h2),
          checkExpr_own env cur.vars _ hp e _ (lt_of_sle (by simp) hst) h2⟩
    | .ifS c t e _ sp, f, h => by
        obtain ⟨p, hp, hpo⟩ := SLe.head ((checkStmt_sle env cur _ f).trans h)
        simp only [checkStmt] at h ⊢
        rw [sok_ifS]
        simp only [Bool.and_eq_true]
        have hre := checkOptBlock_sle { env with vars := cur.vars :: env.vars } (some env.scope) e
        have hrt := checkBlock_sle { env with vars := cur.vars :: env.vars } (some env.scope) t
        refine ⟨⟨⟨own_expr hS hp hpo c (pushStmt f env.owner env.scope) (by simp) ?_, other_ok hS _⟩, ?_⟩, ?_⟩
        · exact (((SLe.of_eq (by simp)).trans (hrt _)).trans (hre _)).trans h
        · exact checkBlock_own { env with vars := cur.vars :: env.vars } (some env.scope) t _ ((hre _).trans h)
        · exact checkOptBlock_own { env with vars := cur.vars :: env.vars } (some env.scope) e _ h
    | .loop c b _ sp, f, h => by
        obtain ⟨p, hp, hpo⟩ := SLe.head ((checkStmt_sle env cur _ f).trans h)
        simp only [checkStmt] at h ⊢
        rw [sok_loop]
        simp only [Bool.and_eq_true]
        have hrb := checkBlock_sle { env with vars := cur.vars :: env.vars, inLoop := env.inLoop + 1 } (some env.scope) b
        refine ⟨⟨own_expr hS hp hpo c (pushStmt f env.owner env.scope) (by simp) ?_, other_ok hS _⟩, ?_⟩
        · exact ((SLe.of_eq (by simp)).trans (hrb _)).trans h
        · exact checkBlock_own { env with vars := cur.vars :: env.vars, inLoop := env.inLoop + 1 } (some env.scope) b _ h
    | .block b _ sp, f, h => by
        obtain ⟨p, hp, hpo⟩ := SLe.head ((checkStmt_sle env cur _ f).trans h)
        simp only [checkStmt] at h ⊢
        rw [sok_block]
        simp only [Bool.and_eq_true]
        exact ⟨⟨base_ok hS hp hpo rfl, other_ok hS _⟩,
          checkBlock_own { env with vars := cur.vars :: env.vars } (some env.scope) b _ h⟩
    | .fnDef name nsp ps body _ _ sp, f, h => by
        obtain ⟨p, hp, hpo⟩ := SLe.head ((checkStmt_sle env cur _ f).trans h)
        simp only [checkStmt] at h ⊢
        split
        · rw [sok_fnDef_none]
          simp only [Bool.and_eq_true]
          exact ⟨base_ok hS hp hpo rfl, other_ok hS _⟩
        · next g hsig =>
          simp only [hsig] at h
          rw [sok_fnDef_some]
          simp only [Bool.and_eq_true]
          exact ⟨⟨base_ok hS hp hpo rfl, other_ok hS _⟩, checkBlock_own _ _ body _ h⟩
    | .ret e _ sp, f, h => by
        obtain ⟨p, hp, hpo⟩ := SLe.head ((checkStmt_sle env cur _ f).trans h)
        cases e with
        | some e =>
          simp only [checkStmt] at h ⊢
          simp only [sokB, Bool.and_eq_true]
          exact ⟨own_expr hS hp hpo e (pushStmt f env.owner env.scope) (by simp) ((SLe.of_eq (by simp)).trans h),
            other_ok hS _⟩
        | none =>
          simp only [checkStmt] at h ⊢
          simp only [sokB, Bool.and_eq_true]
          exact ⟨base_ok hS hp hpo rfl, other_ok hS _⟩
    | .brk _ sp, f, h => by
        obtain ⟨p, hp, hpo⟩ := SLe.head ((checkStmt_sle env cur _ f).trans h)
        simp only [checkStmt] at h ⊢
        simp only [sokB, Bool.and_eq_true]
        exact ⟨base_ok hS hp hpo rfl, other_ok hS _⟩
    | .cont _ sp, f, h => by
        obtain ⟨p, hp, hpo⟩ := SLe.head ((checkStmt_sle env cur _ f).trans h)
        simp only [checkStmt] at h ⊢
        simp only [sokB, Bool.and_eq_true]
        exact ⟨base_ok hS hp hpo rfl, other_ok hS _⟩
    | .expr e _ sp, f, h => by
        obtain ⟨p, hp, hpo⟩ := SLe.head ((checkStmt_sle env cur _ f).trans h)
        simp only [checkStmt] at h ⊢
        simp only [sokB, Bool.and_eq_true]
        exact ⟨own_expr hS hp hpo e (pushStmt f env.owner env.scope) (by simp) ((SLe.of_eq (by simp)).trans h),
          other_ok hS _⟩
  theorem checkStmts_own (env : Env) : ∀ (ss : List Stmt) (cur : Cur) (f : Facts),
      SLe (checkStmts env cur ss f).facts F → sokListB S q env.owner (checkStmts env cur ss f).val = true
    | [], cur, f, _ => by simp [checkStmts, sokListB]
    | s :: ss, cur, f, h => by
        simp only [checkStmts] at h ⊢
        simp only [sokListB, Bool.and_eq_true]
        exact ⟨checkStmt_own env cur s f ((checkStmts_sle env ss _ _).trans h), checkStmts_own env ss _ _ h⟩
  theorem checkBlock_own (env : Env) (parent : Option Nat) : ∀ (b : Block) (f : Facts),
      SLe (checkBlock env parent b f).facts F → ownB S q env.owner (checkBlock env parent b f).val = true
    | .mk ss sp, f, h => by
        simp only [checkBlock] at h ⊢
        simp only [ownB, Block.stmts]
        exact checkStmts_own _ ss _ _ h
  theorem checkOptBlock_own (env : Env) (parent : Option Nat) : ∀ (b : Option Block) (f : Facts),
      SLe (checkOptBlock env parent b f).facts F → ownO S q env.owner (checkOptBlock env parent b f).val = true
    | none, f, _ => by simp [checkOptBlock, ownO]
    | some b, f, h => by
        simp only [checkOptBlock] at h ⊢
        simp only [ownO]
        exact checkBlock_own env parent b f h
end

end stmt

/-- **The facts of the resolver model cover the calls of its output**: for EVERY input program the
per-statement facts name the function each statement belongs to and list the `FunctionId` written on
every user call of the statement's own expressions among its direct callees. -/
theorem resolveWith_ownOk (spanLen : Bool) (q : Block) :
    ownOkB (resolveWith spanLen q).root (resolveWith spanLen q).facts = true := by
  have := checkBlock_own (ownSetup_of (resolveWith spanLen q).root (resolveWith spanLen q).facts) (fun _ _ => false)
    (rootEnv spanLen) none q rootFacts (SLe.refl _)
  exact this

end NaijaVerif.ResolveFacts
