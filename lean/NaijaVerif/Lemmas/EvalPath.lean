import NaijaVerif.Model.Eval
/-
Path and slot algebra behind C05: `getPath` / `updatePath` on values, `getAt` / `updateAt` on the
scope stack, and the link between the walks of the Rust code (`walkMut`, `walkAssign`) and paths.
-/
namespace NaijaVerif.Eval
open NaijaVerif

variable {N : Type}

/-- Two index paths diverge: at some depth they pick different elements (neither is a prefix of
the other). -/
inductive Diverge : List Nat → List Nat → Prop where
  | head {i j : Nat} {p q : List Nat} : i ≠ j → Diverge (i :: p) (j :: q)
  | tail {i : Nat} {p q : List Nat} : Diverge p q → Diverge (i :: p) (i :: q)

theorem Diverge.symm {p q : List Nat} (h : Diverge p q) : Diverge q p := by
  induction h with
  | head hne => exact .head (Ne.symm hne)
  | tail _ ih => exact .tail ih

theorem getPath_nil (v : Value N) : getPath v [] = some v := by
  cases v <;> rfl

theorem updatePath_nil (v : Value N) (f : Value N → Value N) : updatePath v [] f = f v := by
  cases v <;> rfl

/-- Reading back the cell that was written. -/
theorem getPath_updatePath_same (v : Value N) (p : List Nat) (f : Value N → Value N) (c : Value N)
    (h : getPath v p = some c) : getPath (updatePath v p f) p = some (f c) := by
  induction p generalizing v with
  | nil => rw [getPath_nil] at h; cases h; rw [updatePath_nil, getPath_nil]
  | cons i p ih =>
    cases v with
    | arr xs =>
      simp only [getPath] at h
      cases hx : xs[i]? with
      | none => simp [hx] at h
      | some x =>
        simp only [hx] at h
        simp only [updatePath, getPath, List.getElem?_modify_eq, hx, Option.map_some]
        exact ih x h
    | _ => simp [getPath] at h

/-- Every cell on a diverging path is unchanged. -/
theorem getPath_updatePath_diverge (v : Value N) (p q : List Nat) (f : Value N → Value N)
    (h : Diverge p q) : getPath (updatePath v p f) q = getPath v q := by
  induction h generalizing v with
  | @head i j p q hne =>
    cases v with
    | arr xs =>
      simp only [updatePath, getPath]
      rw [List.getElem?_modify_ne _ _ hne]
    | _ => simp [updatePath]
  | @tail i p q _ ih =>
    cases v with
    | arr xs =>
      simp only [updatePath, getPath, List.getElem?_modify_eq]
      cases hx : xs[i]? with
      | none => simp
      | some x => simp only [Option.map_some]; exact ih x
    | _ => simp [updatePath]

/-- A write below an array keeps the array's length at every level above the written cell. -/
theorem updatePath_arr_length (xs : List (Value N)) (i : Nat) (p : List Nat) (f : Value N → Value N) :
    ∃ ys, updatePath (.arr xs) (i :: p) f = .arr ys ∧ ys.length = xs.length := by
  exact ⟨_, rfl, by simp⟩

/-- `walkMut` follows the path. -/
theorem walkMut_getPath (v : Value N) (path : List (Nat × Span)) (c : Value N)
    (h : walkMut v path = .ok c) : getPath v (path.map (·.1)) = some c := by
  induction path generalizing v with
  | nil => simp only [walkMut] at h; cases h; simp [getPath_nil]
  | cons q path ih =>
    obtain ⟨i, sp⟩ := q
    cases v with
    | arr xs =>
      simp only [walkMut] at h
      cases hx : xs[i]? with
      | none => simp [hx] at h
      | some x =>
        simp only [hx] at h
        simp only [List.map_cons, getPath, hx]
        exact ih x h
    | _ => simp [walkMut] at h

/-- `walkAssign` succeeds only on a path that ends inside an array. -/
theorem walkAssign_getPath (sp : Span) (v : Value N) (path : List (Nat × Span))
    (h : walkAssign sp v path = .ok ()) : ∃ c, getPath v (path.map (·.1)) = some c := by
  induction path generalizing v with
  | nil => simp [walkAssign] at h
  | cons q path ih =>
    obtain ⟨i, isp⟩ := q
    cases path with
    | nil =>
      cases v with
      | arr xs =>
        simp only [walkAssign] at h
        split at h
        · rename_i hlt
          refine ⟨xs[i], ?_⟩
          simp [getPath, List.getElem?_eq_getElem hlt, getPath_nil]
        · simp at h
      | _ => simp [walkAssign] at h
    | cons q2 rest =>
      cases v with
      | arr xs =>
        simp only [walkAssign] at h
        cases hx : xs[i]? with
        | none => simp [hx] at h
        | some x =>
          simp only [hx] at h
          obtain ⟨c, hc⟩ := ih x h
          exact ⟨c, by simpa [getPath, hx] using hc⟩
      | _ => simp [walkAssign] at h

/-! ### Slots -/

theorem getAt_updateAt_same (env : List (Scope N)) (pos : Nat × Nat) (f : Value N → Value N) :
    getAt (updateAt env pos f) pos = (getAt env pos).map f := by
  unfold getAt updateAt
  rw [List.getElem?_modify_eq]
  cases h : env[pos.1]? with
  | none => rfl
  | some s =>
    show Option.map (·.val) ((s.slots.modify pos.2 _)[pos.2]?) = Option.map f (Option.map (·.val) s.slots[pos.2]?)
    rw [List.getElem?_modify_eq]
    cases hs : s.slots[pos.2]? <;> rfl

/-- Every other slot keeps its value. -/
theorem getAt_updateAt_ne (env : List (Scope N)) (pos pos' : Nat × Nat) (f : Value N → Value N)
    (hne : pos' ≠ pos) : getAt (updateAt env pos f) pos' = getAt env pos' := by
  unfold getAt updateAt
  by_cases h1 : pos.1 = pos'.1
  · have h2 : pos.2 ≠ pos'.2 := by
      intro h2; apply hne; exact Prod.ext h1.symm h2.symm
    rw [← h1, List.getElem?_modify_eq]
    cases h : env[pos.1]? with
    | none => rfl
    | some s =>
      show Option.map (·.val) ((s.slots.modify pos.2 _)[pos'.2]?) = Option.map (·.val) s.slots[pos'.2]?
      rw [List.getElem?_modify_ne _ _ h2]
  · rw [List.getElem?_modify_ne _ _ h1]

/-- An update changes neither the shape of the stack nor any name, id, function or ghost field. -/
theorem updateAt_length (env : List (Scope N)) (pos : Nat × Nat) (f : Value N → Value N) :
    (updateAt env pos f).length = env.length := by
  simp [updateAt]

end NaijaVerif.Eval
