import NaijaVerif.Lemmas.AnalysisLiveStep
/-
Loops (the analysis' fixpoint is the loop invariant) and the simulation for every amount of fuel.
-/
namespace NaijaVerif.C03
open NaijaVerif NaijaVerif.Analysis NaijaVerif.AEval

variable {V : Type}

section lstep
variable {P : Prims V} {L : LSetup} {n : Nat}

theorem lstep_loop (hs : LSetupOk L) (ih : LSim P L n)
    (c : Expr) (bd : List Stmt) (sp1 sp : Span) (rest : List Stmt) (a b : St V) (f i : Nat) (σ : SigM) (Γr : List Frame)
    (lc : LoopCtx) (post : LS) (A : Nat → Prop)
    (hc : ConsStmt L.T true (.loop c (.mk bd sp1) (some i) sp))
    (hok : lokB L f (tagsOf σ) lc (.loop c (.mk bd sp1) (some i) sp) post rest = true)
    (hf : L.BR f = true) (ha : ActOk L f σ Γr) (hm : MOkStmt L σ (.loop c (.mk bd sp1) (some i) sp))
    (hn : Need L (lvStmt L.c f L.nl lc (.loop c (.mk bd sp1) (some i) sp) post).1.live A)
    (hr : LRel L (mkTop A σ ++ Γr) a b) (hi : LInv L b) :
    LOutF L σ Γr lc post.live (fun _ => False) (execLoop P L.cfg (n + 1) c bd a) (execLoop P plain (n + 1) c bd b) ∧
      LInv L (execLoop P plain (n + 1) c bd b).2 := by
  have hiT : (i, true) ∈ L.T := consStmt_inTbl hc i rfl
  have hok0 := hok
  simp only [lokB, Bool.and_eq_true] at hok
  obtain ⟨⟨⟨⟨⟨hbase, hw⟩, _⟩, hblk⟩, hconv⟩, hlok⟩ := hok
  obtain ⟨hfn, hfit⟩ := base_parts hbase
  have hn0 := hn
  rw [lvStmt_loop] at hn
  simp only [boundary] at hn
  -- the fixpoint
  generalize hx : lfp (loopHead L.c f L.nl i bd post.live) (L.nl + 1) [] = x at hn
  have hconv' : ∀ y ∈ loopHead L.c f L.nl i bd post.live x, y ∈ x := by
    have := subset_iff.mp hconv
    rw [← hx]
    exact this
  simp only [loopHead] at hconv'
  have hnT : Need L (L.c.transfer f i (boundary (uni
      (lvStmts L.c f L.nl { brk := some post.live, cont := some x, kills := L.c.scopeLocalsOf bd } bd
        (boundary (dif x (L.c.scopeLocalsOf bd)))).1.live post.live))).live A :=
    need_mono hconv' hn
  simp only [ConsStmt] at hc
  have hmm : ∀ p ∈ σ, ∀ l, p.2 l → (!L.c.live i || L.c.refFreeB l i) = true ∧ noRefListB L.c l bd = true := by
    intro p hp l hl
    have := hm p hp l hl
    simpa [noRefB] using this
  have hctx := exprCtx_of hs hiT hfn hf hnT (fun p hp l hl => (hmm p hp l hl).1)
  have hn2 := need_after hw hnT
  simp only [boundary] at hn2
  simp only [execLoop]
  obtain ⟨ho, hq⟩ := ih.expr c a b f i σ Γr A hfit ha hctx hr hi
  chainF (evalExpr P L.cfg n c a), (evalExpr P plain n c b), ho, hq
  cases P.cond v with
  | error er => exact ⟨Or.inr ⟨rfl, A, hrel', trivial⟩, hq⟩
  | ok bv =>
    cases bv with
    | false =>
      refine ⟨Or.inr ⟨rfl, A, hrel', ?_⟩, hq⟩
      intro y hy hdy
      rcases hy with hy | hy
      · exact hn2 y (mem_uni_iff.mpr (Or.inr hy)) hdy
      · exact absurd hy id
    | true =>
      simp only []
      have hlok' : lokListB L f (blockTag L.ss bd :: tagsOf σ)
          { brk := some post.live, cont := some x, kills := L.c.scopeLocalsOf bd } bd (boundary (dif x (L.c.scopeLocalsOf bd))) = true := by
        rw [← hx]; exact hlok
      obtain ⟨ho2, hq2⟩ := ih.block bd s1 s2 f σ Γr { brk := some post.live, cont := some x, kills := L.c.scopeLocalsOf bd }
        (boundary (dif x (L.c.scopeLocalsOf bd))) A hc.2 hlok' hblk hf ha (fun p hp l hl => (hmm p hp l hl).2)
        (need_mono (fun y hy => mem_uni_iff.mpr (Or.inl hy)) hn2) hrel' hq
      generalize execBlock P plain n bd s2 = r2 at ho2 hq2 ⊢
      generalize execBlock P L.cfg n bd s1 = r1 at ho2 ⊢
      obtain ⟨x2, t2⟩ := r2
      obtain ⟨x1, t1⟩ := r1
      rcases ho2 with hbad | ⟨heq, A', hrel2, hfn2⟩
      · rcases hbad with hb | hb | hb <;> (simp only at hb; subst hb)
        · exact ⟨Or.inl bad_fuel, hq2⟩
        · exact ⟨Or.inl bad_unbound, hq2⟩
        · exact ⟨Or.inl bad_panic, hq2⟩
      · simp only at heq
        subst heq
        have hsl : ∀ y ∈ L.c.scopeLocalsOf bd, blockLocals L bd y := fun y hy => hs.slOk bd y hy
        -- what is needed at the loop head again
        have again : (∀ y, y ∈ dif x (L.c.scopeLocalsOf bd) ∨ blockLocals L bd y → L.D2 y = false → A' y) →
            Need L (lvStmt L.c f L.nl lc (.loop c (.mk bd sp1) (some i) sp) post).1.live A' := by
          intro h
          rw [lvStmt_loop]
          simp only [boundary, hx]
          intro y hy hdy
          by_cases hys : y ∈ L.c.scopeLocalsOf bd
          · exact h y (Or.inr (hsl y hys)) hdy
          · exact h y (Or.inl (mem_dif_iff.mpr ⟨hy, hys⟩)) hdy
        rcases x1 with er | fl
        · exact ⟨Or.inr ⟨rfl, A', hrel2, trivial⟩, hq2⟩
        · cases fl with
          | brk =>
            refine ⟨Or.inr ⟨rfl, A', hrel2, ?_⟩, hq2⟩
            simp only [FlowNeed] at hfn2
            intro y hy hdy
            rcases hy with hy | hy
            · by_cases hys : y ∈ L.c.scopeLocalsOf bd
              · exact hfn2 y (Or.inr (hsl y hys)) hdy
              · exact hfn2 y (Or.inl (mem_dif_iff.mpr ⟨hy, hys⟩)) hdy
            · exact absurd hy id
          | ret w => exact ⟨Or.inr ⟨rfl, A', hrel2, trivial⟩, hq2⟩
          | normal =>
            exact ih.loop c bd sp1 sp rest t1 t2 f i σ Γr lc post A' ⟨hc.1, hc.2⟩ hok0 hf ha hm (again hfn2) hrel2 hq2
          | cont =>
            simp only [FlowNeed] at hfn2
            exact ih.loop c bd sp1 sp rest t1 t2 f i σ Γr lc post A' ⟨hc.1, hc.2⟩ hok0 hf ha hm (again hfn2) hrel2 hq2

end lstep

/-- The liveness simulation for every amount of fuel. -/
theorem lsim_all (P : Prims V) {L : LSetup} (hd : P.dscope = L.ds) (hss : P.sscope = L.ss) (hs : LSetupOk L)
    (hqt : QuietIn P L) : ∀ n, LSim P L n
  | 0 => lsim_zero P L
  | n + 1 =>
      have ih := lsim_all P hd hss hs hqt n
      { expr := lstep_expr hd hs ih
        list := lstep_list ih
        block := lstep_block hss ih
        stmts := lstep_stmts hd hs hqt ih
        stmt := lstep_stmt hd hs ih
        loop := lstep_loop hs ih }

end NaijaVerif.C03
