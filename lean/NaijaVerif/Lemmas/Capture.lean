/-
The inductive invariant of the capture transition system (`Model/Capture.lean`) and its
preservation by every step. The property theorems that use it are in `Props/C16.lean`.
-/
import NaijaVerif.Model.Capture

namespace NaijaVerif.Capture

/-! ## Small facts about the model -/

def Rd.inHand : Rd → Bytes
  | .got c => c
  | _ => []

def Child.cause? : Child → Option Cause
  | .alive => none
  | .zombie _ c => some c
  | .reaped _ c => some c

def Child.st? : Child → Option (Option Nat)
  | .alive => none
  | .zombie st _ => some st
  | .reaped st _ => some st

def Child.isReaped : Child → Bool
  | .reaped _ _ => true
  | _ => false

def Child.isZombie : Child → Bool
  | .zombie _ _ => true
  | _ => false

/-! ## The invariant -/

/-- What holds of one stream, whatever the other threads do. `pb` = the bytes the child was told to
write to it. -/
structure SideInv (cap : Nat) (cpt : Bool) (pb : Bytes) (d : Side) : Prop where
  /-- a reader exists exactly for captured streams -/
  absentIff : d.rd = .absent ↔ cpt = false
  /-- nothing lost, nothing invented: buffer ++ chunk in hand ++ pipe = everything written so far -/
  conserve : d.rd ≠ .absent → d.rd ≠ .ovf → d.acc ++ d.rd.inHand ++ d.pipe = d.written
  /-- … and written ++ still to write = the plan (until the reader gives up and bytes are dropped) -/
  planned : d.rd ≠ .ovf → d.rd ≠ .failed → d.written ++ d.pending = pb
  /-- the buffer never exceeds the cap -/
  accCap : d.acc.length ≤ cap
  /-- a reader that stopped on the size check holds a prefix of the plan, and the plan is over the cap -/
  ovfPrefix : d.rd = .ovf → (∃ rest, d.acc ++ rest = pb) ∧ cap < pb.length
  /-- EOF is only seen on an empty pipe -/
  eofEmpty : d.rd = .eof → d.pipe = []
  /-- uncaptured: nothing in the (non-existent) pipe or buffer -/
  absentEmpty : d.rd = .absent → d.pipe = [] ∧ d.acc = []
  /-- the child closes its end of a stream only after its last byte to it -/
  closedDone : d.wopen = false → d.pending = []

/-- Why the main thread is on the error path with `e`. -/
def ErrOk (cfg : Cfg) (s : State) : Err → Prop
  | .ole x => s.flag = code x
  | .timeout => cfg.timeout ≤ s.now
  | .badUtf8 _ => False
  | .readFailed _ => False
  | .writeFailed => False

/-- The value `join_capture(stdout)` produced. -/
def OutRes (s : State) (ro : Option Bytes) : Prop :=
  (s.o.rd = .absent ∧ ro = none) ∨ (s.o.rd ≠ .absent ∧ ro = some s.o.acc ∧ validUtf8 s.o.acc = true)

/-- What is known once the result `r` has been produced (only facts no later step can change:
the detached stderr reader may still run after an early `?` return). -/
def Good (cfg : Cfg) (plan : Plan) (s : State) (r : Outcome) : Prop :=
  allowedIn cfg plan s r = true ∧
  (r = .error .timeout → cfg.timeout ≤ s.now) ∧
  (∀ st o e, r = .ok st o e → s.child = .reaped st .plan) ∧
  (r = .error (.badUtf8 .out) →
      validUtf8 s.o.written = false ∨
        (cfg.fixedJoin = false ∧ over cfg plan .out = true ∧ over cfg plan .err = true)) ∧
  (r = .error (.badUtf8 .err) → validUtf8 s.e.written = false)

/-- The child ended by itself and was reaped by `try_wait` with status `st`. -/
def SelfEnded (s : State) (st : Option Nat) : Prop :=
  s.child.isReaped = true ∧ s.child.cause? ≠ some .killed ∧ s.child.st? = some st

def PcInv (cfg : Cfg) (plan : Plan) (s : State) : Prop :=
  match s.pc with
  | .load | .tryWait | .deadline | .sleep _ =>
      s.child.isReaped = false ∧ s.child.cause? ≠ some .killed
  | .kill e => s.child.isReaped = false ∧ ErrOk cfg s e
  | .reap e => s.child.isZombie = true ∧ ErrOk cfg s e
  | .eJoinWr e | .eJoinOut e | .eJoinErr e => s.child.isReaped = true ∧ ErrOk cfg s e
  | .joinWr st => SelfEnded s st
  | .preJoinWr | .drainFlag _ | .blockWait => False
  | .joinOut st => SelfEnded s st
  | .flagOut st => SelfEnded s st ∧ s.o.joined = true ∧ s.o.rd ≠ .absent
  | .joinErr st ro => SelfEnded s st ∧ s.o.joined = true ∧ s.flag ≠ 1 ∧ OutRes s ro
  | .flagErr st ro =>
      SelfEnded s st ∧ s.o.joined = true ∧ s.flag ≠ 1 ∧ OutRes s ro ∧ s.e.joined = true ∧ s.e.rd ≠ .absent
  | .done r => s.child.isReaped = true ∧ Good cfg plan s r

structure Inv (cfg : Cfg) (plan : Plan) (s : State) : Prop where
  so : SideInv cfg.cap (cfg.captured .out) plan.out s.o
  se : SideInv cfg.cap (cfg.captured .err) plan.err s.e
  flagRange : s.flag = 0 ∨ s.flag = 1 ∨ s.flag = 2
  flag1 : s.flag = 1 → s.o.rd = .ovf
  flag2 : s.flag = 2 → s.e.rd = .ovf
  ovfFlag : s.o.rd = .ovf ∨ s.e.rd = .ovf → s.flag ≠ 0
  /-- a reader has seen EOF only after the child was gone **or had closed its end of that stream** -/
  eofDead : ∀ x, (s.side x).rd = .eof → s.child.isAlive = false ∨ (s.side x).wopen = false
  /-- a child that ended as planned had written everything -/
  causePlan : s.child.cause? = some .plan →
      s.o.pending = [] ∧ s.e.pending = [] ∧ plan.ending.status = s.child.st?
  /-- death by SIGPIPE needs a closed read end, i.e. an overflow -/
  causeSig : s.child.cause? = some .sigpipe →
      (s.flag ≠ 0 ∨ s.o.rd = .failed ∨ s.e.rd = .failed) ∧ plan.sigpipeDies = true
  pcInv : PcInv cfg plan s

/-! ## Steps of one side preserve the side invariant -/

theorem SideInv.init (cap : Nat) (pol : Policy) (pb : Bytes) :
    SideInv cap (pol == .capture) pb (Side.init pol pb) := by
  cases pol <;> constructor <;> simp [Side.init, Rd.inHand]

macro "side_close" : tactic =>
  `(tactic| (first | done | (subst_vars; simp [List.append_assoc]) | (subst_vars; simp_all [List.append_assoc]; done) | omega))

theorem SideInv.write {cap cpt pb d d' pipeCap n} (h : SideInv cap cpt pb d)
    (hs : Side.write pipeCap d n = some d') :
    SideInv cap cpt pb d' ∧ d'.rd = d.rd ∧ d'.acc = d.acc ∧ d'.wopen = d.wopen ∧ d.rd ≠ .eof := by
  obtain ⟨pending, written, pipe, acc, rd, wopen⟩ := d
  obtain ⟨h1, h2, h3, h4, h5, h6, h7, h8⟩ := h
  simp only [Side.write] at hs
  split at hs
  · cases hs
  · next hn =>
    have hn' : n ≤ pending.length ∧ wopen = true := by
      simp at hn; exact ⟨by omega, hn.2.2⟩
    cases rd <;> simp at hs
    · subst hs
      refine ⟨⟨?_, ?_, ?_, ?_, ?_, ?_, ?_, ?_⟩, rfl, rfl, rfl, by simp⟩ <;> simp_all [Rd.inHand]
    · obtain ⟨_, rfl⟩ := hs
      refine ⟨⟨?_, ?_, ?_, ?_, ?_, ?_, ?_, ?_⟩, rfl, rfl, rfl, by simp⟩ <;> simp_all [Rd.inHand] <;> side_close
    · obtain ⟨_, rfl⟩ := hs
      refine ⟨⟨?_, ?_, ?_, ?_, ?_, ?_, ?_, ?_⟩, rfl, rfl, rfl, by simp⟩ <;> simp_all [Rd.inHand] <;> side_close

theorem SideInv.drop {cap cpt pb d d' n} (h : SideInv cap cpt pb d)
    (hs : Side.drop d n = some d') :
    SideInv cap cpt pb d' ∧ d'.rd = d.rd ∧ d'.acc = d.acc ∧ d'.written = d.written ∧ d.closed = true := by
  obtain ⟨pending, written, pipe, acc, rd, wopen⟩ := d
  obtain ⟨h1, h2, h3, h4, h5, h6, h7, h8⟩ := h
  simp only [Side.drop] at hs
  split at hs
  · cases hs
  · cases rd <;> simp at hs
    all_goals
      subst hs
      refine ⟨⟨?_, ?_, ?_, ?_, ?_, ?_, ?_, ?_⟩, rfl, rfl, rfl, rfl⟩ <;> simp_all [Rd.inHand]

theorem SideInv.read {cap cpt pb d d' chunk} (h : SideInv cap cpt pb d)
    (hs : Side.read chunk d = some d') :
    SideInv cap cpt pb d' ∧ d.rd = .idle ∧ (∃ c, d'.rd = .got c) ∧ d'.acc = d.acc ∧
      d'.written = d.written ∧ d'.pending = d.pending := by
  obtain ⟨pending, written, pipe, acc, rd, wopen⟩ := d
  obtain ⟨h1, h2, h3, h4, h5, h6, h7, h8⟩ := h
  simp only [Side.read] at hs
  cases rd <;> simp at hs
  obtain ⟨_, rfl⟩ := hs
  refine ⟨⟨?_, ?_, ?_, ?_, ?_, ?_, ?_, ?_⟩, rfl, ⟨_, rfl⟩, rfl, rfl, rfl⟩ <;> simp_all [Rd.inHand]

theorem SideInv.eof {cap cpt pb d d' alive} (h : SideInv cap cpt pb d)
    (hs : Side.eof alive d = some d') :
    SideInv cap cpt pb d' ∧ d.rd = .idle ∧ d'.rd = .eof ∧ (alive = false ∨ d'.wopen = false) ∧
      d'.acc = d.acc ∧ d'.written = d.written ∧ d'.pending = d.pending := by
  obtain ⟨pending, written, pipe, acc, rd, wopen⟩ := d
  obtain ⟨h1, h2, h3, h4, h5, h6, h7, h8⟩ := h
  simp only [Side.eof] at hs
  cases rd <;> simp at hs
  obtain ⟨⟨hp, ha⟩, rfl⟩ := hs
  refine ⟨⟨?_, ?_, ?_, ?_, ?_, ?_, ?_, ?_⟩, rfl, rfl, ha, rfl, rfl, rfl⟩ <;> simp_all [Rd.inHand]

theorem SideInv.fail {cap cpt pb d d'} (h : SideInv cap cpt pb d)
    (hs : Side.fail d = some d') :
    SideInv cap cpt pb d' ∧ d.rd = .idle ∧ d'.rd = .failed ∧ d'.acc = d.acc ∧
      d'.written = d.written ∧ d'.pending = d.pending := by
  obtain ⟨pending, written, pipe, acc, rd, wopen⟩ := d
  obtain ⟨h1, h2, h3, h4, h5, h6, h7, h8⟩ := h
  simp only [Side.fail] at hs
  cases rd <;> simp at hs
  subst hs
  refine ⟨⟨?_, ?_, ?_, ?_, ?_, ?_, ?_, ?_⟩, rfl, rfl, rfl, rfl, rfl⟩ <;> simp_all [Rd.inHand]

/-- The child closes its end of the stream: nothing but `wopen` changes. -/
theorem SideInv.close {cap cpt pb d d'} (h : SideInv cap cpt pb d)
    (hs : Side.close d = some d') :
    SideInv cap cpt pb d' ∧ d'.rd = d.rd ∧ d'.acc = d.acc ∧ d'.written = d.written ∧
      d'.pending = d.pending ∧ d'.pipe = d.pipe ∧ d'.wopen = false := by
  obtain ⟨pending, written, pipe, acc, rd, wopen⟩ := d
  obtain ⟨h1, h2, h3, h4, h5, h6, h7, h8⟩ := h
  simp only [Side.close] at hs
  split at hs
  · next hc =>
    cases hs
    exact ⟨⟨h1, h2, h3, h4, h5, h6, h7, fun _ => hc.2⟩, rfl, rfl, rfl, rfl, rfl, rfl⟩
  · cases hs

theorem SideInv.check {cap cpt pb d d' my flag flag'} (h : SideInv cap cpt pb d)
    (hs : Side.check cap my flag d = some (d', flag')) :
    SideInv cap cpt pb d' ∧ (∃ c, d.rd = .got c) ∧ d'.written = d.written ∧ d'.pending = d.pending ∧
      ((d'.rd = .ovf ∧ flag' = (if flag = 0 then my else flag) ∧ d'.acc = d.acc) ∨
       (d'.rd = .idle ∧ flag' = flag)) := by
  obtain ⟨pending, written, pipe, acc, rd, wopen⟩ := d
  obtain ⟨h1, h2, h3, h4, h5, h6, h7, h8⟩ := h
  simp only [Side.check] at hs
  cases rd <;> simp at hs
  next c =>
  split at hs
  · next hov =>
    simp at hs
    obtain ⟨rfl, rfl⟩ := hs
    refine ⟨⟨?_, ?_, ?_, ?_, ?_, ?_, ?_, ?_⟩, ⟨_, rfl⟩, rfl, rfl, Or.inl ⟨rfl, rfl, rfl⟩⟩ <;> simp_all [Rd.inHand]
    subst_vars
    refine ⟨⟨c ++ (pipe ++ pending), by simp [List.append_assoc]⟩, ?_⟩
    simp; omega
  · next hov =>
    simp at hs
    obtain ⟨rfl, rfl⟩ := hs
    refine ⟨⟨?_, ?_, ?_, ?_, ?_, ?_, ?_, ?_⟩, ⟨_, rfl⟩, rfl, rfl, Or.inr ⟨rfl, rfl⟩⟩ <;> simp_all [Rd.inHand] <;> side_close

/-! ## Frame lemmas for the main thread's invariant -/

@[simp] theorem setSide_out (s : State) (d : Side) : s.setSide .out d = { s with o := d } := rfl
@[simp] theorem setSide_err (s : State) (d : Side) : s.setSide .err d = { s with e := d } := rfl
@[simp] theorem side_out (s : State) : s.side .out = s.o := rfl
@[simp] theorem side_err (s : State) : s.side .err = s.e := rfl

theorem Side.joined_iff (d : Side) : d.joined = true ↔ d.rd = .absent ∨ d.rd = .eof ∨ d.rd = .ovf := by
  unfold Side.joined; cases d.rd <;> simp

theorem ErrOk.mono {cfg} {s s' : State} {e : Err} (h : ErrOk cfg s e) (hnow : s.now ≤ s'.now)
    (hflag : s.flag ≠ 0 → s'.flag = s.flag) : ErrOk cfg s' e := by
  cases e with
  | ole x => simp only [ErrOk] at h ⊢; rw [hflag (by rw [h]; cases x <;> simp [code])]; exact h
  | timeout => simp only [ErrOk] at h ⊢; omega
  | badUtf8 x => exact h.elim
  | readFailed x => exact h.elim
  | writeFailed => exact h.elim

theorem Side.finished_of_joined {d : Side} (h : d.joined = true) : d.finished = true := by
  unfold Side.joined at h; unfold Side.finished; cases hd : d.rd <;> simp_all

theorem Side.finished_iff (d : Side) :
    d.finished = true ↔ d.rd = .absent ∨ d.rd = .eof ∨ d.rd = .ovf ∨ d.rd = .failed := by
  unfold Side.finished; cases d.rd <;> simp

/-- Fault marks are permanent, so what is allowed in a state stays allowed later. -/
theorem allowedIn_mono {cfg plan} {s s' : State} {r : Outcome} (h : allowedIn cfg plan s r = true)
    (hfo : s.o.rd = .failed → s'.o.rd = .failed) (hfe : s.e.rd = .failed → s'.e.rd = .failed)
    (hfw : s.i.wr = .failed → s'.i.wr = .failed) : allowedIn cfg plan s' r = true := by
  simp only [allowedIn, Bool.or_eq_true] at h ⊢
  rcases h with h | h
  · exact Or.inl h
  · right
    cases r with
    | ok st o e => simp [faultAllowed] at h
    | error e =>
      cases e with
      | ole x => simp [faultAllowed] at h
      | timeout => simp [faultAllowed] at h
      | writeFailed => simp only [faultAllowed, beq_iff_eq] at h ⊢; exact hfw h
      | readFailed x =>
        cases x
        · simp only [faultAllowed, beq_iff_eq] at h ⊢; exact hfo h
        · simp only [faultAllowed, beq_iff_eq] at h ⊢; exact hfe h
      | badUtf8 x =>
        cases x with
        | err => simp [faultAllowed] at h
        | out =>
          simp only [faultAllowed, Bool.and_eq_true, beq_iff_eq] at h ⊢
          exact ⟨⟨⟨hfe h.1.1.1, h.1.1.2⟩, h.1.2⟩, h.2⟩

theorem Good.frame {cfg plan} {s s' : State} {r : Outcome} (h : Good cfg plan s r)
    (hc : s'.child = s.child) (hnow : s.now ≤ s'.now) (ho : s'.o.written = s.o.written)
    (he : s'.e.written = s.e.written)
    (hfo : s.o.rd = .failed → s'.o.rd = .failed) (hfe : s.e.rd = .failed → s'.e.rd = .failed)
    (hfw : s.i.wr = .failed → s'.i.wr = .failed) : Good cfg plan s' r := by
  obtain ⟨h1, h2, h3, h4, h5⟩ := h
  refine ⟨allowedIn_mono h1 hfo hfe hfw, fun hr => Nat.le_trans (h2 hr) hnow, ?_, ?_, ?_⟩
  · intro st o e hr; rw [hc]; exact h3 st o e hr
  · rw [ho]; exact h4
  · rw [he]; exact h5

/-- Reader steps and ticks: the main thread's invariant survives when the child is untouched, time
does not go back, the flag only moves `0 → code` of a stream whose reader was still running, the
`written` ghosts are untouched, and a joined reader's side is untouched. -/
theorem PcInv.frame {cfg plan} {s s' : State} (h : PcInv cfg plan s)
    (hpc : s'.pc = s.pc) (hc : s'.child = s.child) (hnow : s.now ≤ s'.now)
    (hflag : s'.flag = s.flag ∨ (s.flag = 0 ∧ ((s'.flag = 1 ∧ s.o.joined = false) ∨ (s'.flag = 2 ∧ s.e.joined = false))))
    (ho : s'.o = s.o ∨ (s.o.finished = false ∧ s'.o.written = s.o.written))
    (he : s'.e = s.e ∨ (s.e.finished = false ∧ s'.e.written = s.e.written))
    (hw : s.i.wr = .failed → s'.i.wr = .failed) :
    PcInv cfg plan s' := by
  have hfo : s.o.rd = .failed → s'.o.rd = .failed := by
    intro hf; rcases ho with h | ⟨h, _⟩
    · rw [h]; exact hf
    · simp [Side.finished, hf] at h
  have hfe : s.e.rd = .failed → s'.e.rd = .failed := by
    intro hf; rcases he with h | ⟨h, _⟩
    · rw [h]; exact hf
    · simp [Side.finished, hf] at h
  have hf0 : s.flag ≠ 0 → s'.flag = s.flag := by
    intro h0; rcases hflag with h | ⟨h, _⟩
    · exact h
    · exact absurd h h0
  have how : s'.o.written = s.o.written := by rcases ho with h | ⟨_, h⟩; rw [h]; exact h
  have hew : s'.e.written = s.e.written := by rcases he with h | ⟨_, h⟩; rw [h]; exact h
  unfold PcInv at h ⊢
  rw [hpc]
  cases hp : s.pc <;> simp only [hp] at h ⊢
  case load | tryWait | deadline | sleep => rw [hc]; exact h
  case kill | reap | eJoinWr | eJoinOut | eJoinErr => rw [hc]; exact ⟨h.1, h.2.mono hnow hf0⟩
  case joinOut | joinWr => simpa [SelfEnded, hc] using h
  case flagOut =>
    obtain ⟨h1, h2, h3⟩ := h
    have : s'.o = s.o := by rcases ho with h | ⟨h, _⟩; exact h; simp [Side.finished_of_joined h2] at h
    rw [this]; exact ⟨by simpa [SelfEnded, hc] using h1, h2, h3⟩
  case joinErr =>
    obtain ⟨h1, h2, h3, h4⟩ := h
    have : s'.o = s.o := by rcases ho with h | ⟨h, _⟩; exact h; simp [Side.finished_of_joined h2] at h
    refine ⟨by simpa [SelfEnded, hc] using h1, by rw [this]; exact h2, ?_, by simpa [OutRes, this] using h4⟩
    rcases hflag with h | ⟨h0, ⟨h, hj⟩ | ⟨h, _⟩⟩
    · rw [h]; exact h3
    · simp [h2] at hj
    · omega
  case flagErr =>
    obtain ⟨h1, h2, h3, h4, h5, h6⟩ := h
    have h' : s'.o = s.o := by rcases ho with h | ⟨h, _⟩; exact h; simp [Side.finished_of_joined h2] at h
    have h'' : s'.e = s.e := by rcases he with h | ⟨h, _⟩; exact h; simp [Side.finished_of_joined h5] at h
    refine ⟨by simpa [SelfEnded, hc] using h1, by rw [h']; exact h2, ?_, by simpa [OutRes, h'] using h4,
      by rw [h'']; exact h5, by rw [h'']; exact h6⟩
    rcases hflag with h | ⟨h0, ⟨h, hj⟩ | ⟨h, hj⟩⟩
    · rw [h]; exact h3
    · simp [h2] at hj
    · simp [h5] at hj
  case done => rw [hc]; exact ⟨h.1, h.2.frame hc hnow how hew hfo hfe hw⟩


set_option linter.unusedSimpArgs false

theorem PcInv.childStep {cfg plan} {s s' : State} (h : PcInv cfg plan s) (ha : s.child = .alive)
    (hpc : s'.pc = s.pc) (hflag : s'.flag = s.flag) (hnow : s'.now = s.now)
    (hc : s'.child.isReaped = false ∧ s'.child.cause? ≠ some .killed) : PcInv cfg plan s' := by
  unfold PcInv at h ⊢
  rw [hpc]
  cases hp : s.pc <;> simp only [hp] at h ⊢ <;> simp_all [Child.isReaped, Child.isZombie, SelfEnded]
  case kill => exact h.mono (by omega) (fun _ => hflag)

theorem Child.isAlive_iff (c : Child) : c.isAlive = true ↔ c = .alive := by
  cases c <;> simp [Child.isAlive]

/-! ## Reader steps -/

/-- `causeSig` survives any step that leaves the child alone and keeps the flag and the fault marks. -/
theorem Inv.causeSig' {cfg plan} {s s' : State} (h : Inv cfg plan s)
    (hc : s'.child = s.child) (hf : s.flag ≠ 0 → s'.flag ≠ 0)
    (ho : s.o.rd = .failed → s'.o.rd = .failed) (he : s.e.rd = .failed → s'.e.rd = .failed) :
    s'.child.cause? = some .sigpipe →
      (s'.flag ≠ 0 ∨ s'.o.rd = .failed ∨ s'.e.rd = .failed) ∧ plan.sigpipeDies = true := by
  intro hcs
  rw [hc] at hcs
  obtain ⟨h1, h2⟩ := h.causeSig hcs
  refine ⟨?_, h2⟩
  rcases h1 with h1 | h1 | h1
  · exact Or.inl (hf h1)
  · exact Or.inr (Or.inl (ho h1))
  · exact Or.inr (Or.inr (he h1))

theorem Inv.rdRead_out {cfg plan} {s s' : State} (h : Inv cfg plan s)
    (hs : step cfg plan s (.rdRead .out) = some s') : Inv cfg plan s' := by
  simp only [step, side_out, Option.map_eq_some_iff] at hs
  obtain ⟨d', hd, rfl⟩ := hs
  obtain ⟨hi, hidle, ⟨c, hgot⟩, hacc, hw, hp⟩ := h.so.read hd
  have hnj : s.o.finished = false := by simp [Side.finished, hidle]
  refine ⟨hi, h.se, h.flagRange, ?_, h.flag2, ?_, ?_, ?_, h.causeSig' rfl (fun h => h) (by intro hf; simp_all) (by intro hf; simp_all), ?_⟩
  · intro h1; have := h.flag1 h1; simp_all
  · have := h.ovfFlag; simp_all
  · intro x hx; have := h.eofDead x; cases x <;> simp_all
  · have := h.causePlan; simp_all
  · exact h.pcInv.frame rfl rfl (Nat.le_refl _) (Or.inl rfl) (Or.inr ⟨hnj, hw⟩) (Or.inl rfl) (fun h => h)

theorem Inv.rdRead_err {cfg plan} {s s' : State} (h : Inv cfg plan s)
    (hs : step cfg plan s (.rdRead .err) = some s') : Inv cfg plan s' := by
  simp only [step, side_err, Option.map_eq_some_iff] at hs
  obtain ⟨d', hd, rfl⟩ := hs
  obtain ⟨hi, hidle, ⟨c, hgot⟩, hacc, hw, hp⟩ := h.se.read hd
  have hnj : s.e.finished = false := by simp [Side.finished, hidle]
  refine ⟨h.so, hi, h.flagRange, h.flag1, ?_, ?_, ?_, ?_, h.causeSig' rfl (fun h => h) (by intro hf; simp_all) (by intro hf; simp_all), ?_⟩
  · intro h1; have := h.flag2 h1; simp_all
  · have := h.ovfFlag; simp_all
  · intro x hx; have := h.eofDead x; cases x <;> simp_all
  · have := h.causePlan; simp_all
  · exact h.pcInv.frame rfl rfl (Nat.le_refl _) (Or.inl rfl) (Or.inl rfl) (Or.inr ⟨hnj, hw⟩) (fun h => h)

theorem Inv.rdEof_out {cfg plan} {s s' : State} (h : Inv cfg plan s)
    (hs : step cfg plan s (.rdEof .out) = some s') : Inv cfg plan s' := by
  simp only [step, side_out, Option.map_eq_some_iff] at hs
  obtain ⟨d', hd, rfl⟩ := hs
  obtain ⟨hi, hidle, heof, hal, hacc, hw, hp⟩ := h.so.eof hd
  have hnj : s.o.finished = false := by simp [Side.finished, hidle]
  refine ⟨hi, h.se, h.flagRange, ?_, h.flag2, ?_, ?_, ?_, h.causeSig' rfl (fun h => h) (by intro hf; simp_all) (by intro hf; simp_all), ?_⟩
  · intro h1; have := h.flag1 h1; simp_all
  · have := h.ovfFlag; simp_all
  · intro x hx; have := h.eofDead x; cases x <;> simp_all
  · have := h.causePlan; simp_all
  · exact h.pcInv.frame rfl rfl (Nat.le_refl _) (Or.inl rfl) (Or.inr ⟨hnj, hw⟩) (Or.inl rfl) (fun h => h)

theorem Inv.rdEof_err {cfg plan} {s s' : State} (h : Inv cfg plan s)
    (hs : step cfg plan s (.rdEof .err) = some s') : Inv cfg plan s' := by
  simp only [step, side_err, Option.map_eq_some_iff] at hs
  obtain ⟨d', hd, rfl⟩ := hs
  obtain ⟨hi, hidle, heof, hal, hacc, hw, hp⟩ := h.se.eof hd
  have hnj : s.e.finished = false := by simp [Side.finished, hidle]
  refine ⟨h.so, hi, h.flagRange, h.flag1, ?_, ?_, ?_, ?_, h.causeSig' rfl (fun h => h) (by intro hf; simp_all) (by intro hf; simp_all), ?_⟩
  · intro h1; have := h.flag2 h1; simp_all
  · have := h.ovfFlag; simp_all
  · intro x hx; have := h.eofDead x; cases x <;> simp_all
  · have := h.causePlan; simp_all
  · exact h.pcInv.frame rfl rfl (Nat.le_refl _) (Or.inl rfl) (Or.inl rfl) (Or.inr ⟨hnj, hw⟩) (fun h => h)

theorem Inv.rdFail_out {cfg plan} {s s' : State} (h : Inv cfg plan s)
    (hs : step cfg plan s (.rdFail .out) = some s') : Inv cfg plan s' := by
  simp only [step, side_out, Option.map_eq_some_iff] at hs
  obtain ⟨d', hd, rfl⟩ := hs
  obtain ⟨hi, hidle, hfail, hacc, hw, hp⟩ := h.so.fail hd
  have hnj : s.o.finished = false := by simp [Side.finished, hidle]
  refine ⟨hi, h.se, h.flagRange, ?_, h.flag2, ?_, ?_, ?_, h.causeSig' rfl (fun h => h) (by intro hf; simp_all) (by intro hf; simp_all), ?_⟩
  · intro h1; have := h.flag1 h1; simp_all
  · have := h.ovfFlag; simp_all
  · intro x hx; have := h.eofDead x; cases x <;> simp_all
  · have := h.causePlan; simp_all
  · exact h.pcInv.frame rfl rfl (Nat.le_refl _) (Or.inl rfl) (Or.inr ⟨hnj, hw⟩) (Or.inl rfl) (fun h => h)

theorem Inv.rdFail_err {cfg plan} {s s' : State} (h : Inv cfg plan s)
    (hs : step cfg plan s (.rdFail .err) = some s') : Inv cfg plan s' := by
  simp only [step, side_err, Option.map_eq_some_iff] at hs
  obtain ⟨d', hd, rfl⟩ := hs
  obtain ⟨hi, hidle, hfail, hacc, hw, hp⟩ := h.se.fail hd
  have hnj : s.e.finished = false := by simp [Side.finished, hidle]
  refine ⟨h.so, hi, h.flagRange, h.flag1, ?_, ?_, ?_, ?_, h.causeSig' rfl (fun h => h) (by intro hf; simp_all) (by intro hf; simp_all), ?_⟩
  · intro h1; have := h.flag2 h1; simp_all
  · have := h.ovfFlag; simp_all
  · intro x hx; have := h.eofDead x; cases x <;> simp_all
  · have := h.causePlan; simp_all
  · exact h.pcInv.frame rfl rfl (Nat.le_refl _) (Or.inl rfl) (Or.inl rfl) (Or.inr ⟨hnj, hw⟩) (fun h => h)

theorem Inv.rdCheck_out {cfg plan} {s s' : State} (h : Inv cfg plan s)
    (hs : step cfg plan s (.rdCheck .out) = some s') : Inv cfg plan s' := by
  simp only [step, side_out, Option.map_eq_some_iff] at hs
  obtain ⟨⟨d', flag'⟩, hd, rfl⟩ := hs
  obtain ⟨hi, ⟨c, hgot⟩, hw, hp, hcase⟩ := h.so.check hd
  have hnj : s.o.finished = false := by simp [Side.finished, hgot]
  have hnj' : s.o.joined = false := by simp [Side.joined, hgot]
  have hfr := h.flagRange
  have hf1 := h.flag1
  have hf2 := h.flag2
  have hof := h.ovfFlag
  have hed := h.eofDead
  have hcp := h.causePlan
  have hcs := h.causeSig
  rcases hcase with ⟨hovf, hfl, hacc⟩ | ⟨hidle, hfl⟩
  · refine ⟨hi, h.se, ?_, ?_, ?_, ?_, ?_, ?_, ?_, ?_⟩
    · simp only [setSide_out]; rw [hfl]; split <;> simp_all [code]
    · intro _; exact hovf
    · simp only [setSide_out]; rw [hfl]; split <;> simp_all [code]
    · simp only [setSide_out]; rw [hfl]; intro _; split <;> simp_all [code]
    · intro x hx; have := hed x; cases x <;> simp_all
    · simp_all
    · simp only [setSide_out]; rw [hfl]; intro hc; have := hcs hc; split <;> simp_all [code]
    · refine h.pcInv.frame rfl rfl (Nat.le_refl _) ?_ (Or.inr ⟨hnj, hw⟩) (Or.inl rfl) (fun h => h)
      simp only [setSide_out]; rw [hfl]
      by_cases h0 : s.flag = 0
      · right; simp [h0, code, hnj']
      · left; simp [h0]
  · subst hfl
    refine ⟨hi, h.se, hfr, ?_, hf2, ?_, ?_, ?_, h.causeSig' rfl (fun h => h) (by intro hf; simp_all) (by intro hf; simp_all), ?_⟩
    · intro h1; have := hf1 h1; simp_all
    · simp_all
    · intro x hx; have := hed x; cases x <;> simp_all
    · simp_all
    · exact h.pcInv.frame rfl rfl (Nat.le_refl _) (Or.inl rfl) (Or.inr ⟨hnj, hw⟩) (Or.inl rfl) (fun h => h)

theorem Inv.rdCheck_err {cfg plan} {s s' : State} (h : Inv cfg plan s)
    (hs : step cfg plan s (.rdCheck .err) = some s') : Inv cfg plan s' := by
  simp only [step, side_err, Option.map_eq_some_iff] at hs
  obtain ⟨⟨d', flag'⟩, hd, rfl⟩ := hs
  obtain ⟨hi, ⟨c, hgot⟩, hw, hp, hcase⟩ := h.se.check hd
  have hnj : s.e.finished = false := by simp [Side.finished, hgot]
  have hnj' : s.e.joined = false := by simp [Side.joined, hgot]
  have hfr := h.flagRange
  have hf1 := h.flag1
  have hf2 := h.flag2
  have hof := h.ovfFlag
  have hed := h.eofDead
  have hcp := h.causePlan
  have hcs := h.causeSig
  rcases hcase with ⟨hovf, hfl, hacc⟩ | ⟨hidle, hfl⟩
  · refine ⟨h.so, hi, ?_, ?_, ?_, ?_, ?_, ?_, ?_, ?_⟩
    · simp only [setSide_err]; rw [hfl]; split <;> simp_all [code]
    · simp only [setSide_err]; rw [hfl]; split <;> simp_all [code]
    · intro _; exact hovf
    · simp only [setSide_err]; rw [hfl]; intro _; split <;> simp_all [code]
    · intro x hx; have := hed x; cases x <;> simp_all
    · simp_all
    · simp only [setSide_err]; rw [hfl]; intro hc; have := hcs hc; split <;> simp_all [code]
    · refine h.pcInv.frame rfl rfl (Nat.le_refl _) ?_ (Or.inl rfl) (Or.inr ⟨hnj, hw⟩) (fun h => h)
      simp only [setSide_err]; rw [hfl]
      by_cases h0 : s.flag = 0
      · right; simp [h0, code, hnj']
      · left; simp [h0]
  · subst hfl
    refine ⟨h.so, hi, hfr, hf1, ?_, ?_, ?_, ?_, h.causeSig' rfl (fun h => h) (by intro hf; simp_all) (by intro hf; simp_all), ?_⟩
    · intro h1; have := hf2 h1; simp_all
    · simp_all
    · intro x hx; have := hed x; cases x <;> simp_all
    · simp_all
    · exact h.pcInv.frame rfl rfl (Nat.le_refl _) (Or.inl rfl) (Or.inl rfl) (Or.inr ⟨hnj, hw⟩) (fun h => h)


/-! ## Child steps -/

theorem Inv.childWrite_out {cfg plan n} {s s' : State} (h : Inv cfg plan s)
    (hs : step cfg plan s (.childWrite .out n) = some s') : Inv cfg plan s' := by
  simp only [step, side_out] at hs
  split at hs
  · next ha =>
    rw [Child.isAlive_iff] at ha
    simp only [Option.map_eq_some_iff] at hs
    obtain ⟨d', hd, rfl⟩ := hs
    obtain ⟨hi, hrd, hacc, hwo, hneof⟩ := h.so.write hd
    have hf1 := h.flag1
    have hof := h.ovfFlag
    have hed := h.eofDead
    refine ⟨hi, h.se, h.flagRange, ?_, h.flag2, ?_, ?_, ?_, ?_, ?_⟩
    · simp_all
    · simp_all
    · intro x hx; have := hed x; cases x <;> simp_all [Side.closed]
    · simp [ha, Child.cause?]
    · simp [ha, Child.cause?]
    · exact h.pcInv.childStep ha rfl rfl rfl (by simp [ha, Child.isReaped, Child.cause?])
  · cases hs

theorem Inv.childWrite_err {cfg plan n} {s s' : State} (h : Inv cfg plan s)
    (hs : step cfg plan s (.childWrite .err n) = some s') : Inv cfg plan s' := by
  simp only [step, side_err] at hs
  split at hs
  · next ha =>
    rw [Child.isAlive_iff] at ha
    simp only [Option.map_eq_some_iff] at hs
    obtain ⟨d', hd, rfl⟩ := hs
    obtain ⟨hi, hrd, hacc, hwo, hneof⟩ := h.se.write hd
    have hf2 := h.flag2
    have hof := h.ovfFlag
    have hed := h.eofDead
    refine ⟨h.so, hi, h.flagRange, h.flag1, ?_, ?_, ?_, ?_, ?_, ?_⟩
    · simp_all
    · simp_all
    · intro x hx; have := hed x; cases x <;> simp_all [Side.closed]
    · simp [ha, Child.cause?]
    · simp [ha, Child.cause?]
    · exact h.pcInv.childStep ha rfl rfl rfl (by simp [ha, Child.isReaped, Child.cause?])
  · cases hs

theorem Inv.childDrop_out {cfg plan n} {s s' : State} (h : Inv cfg plan s)
    (hs : step cfg plan s (.childDrop .out n) = some s') : Inv cfg plan s' := by
  simp only [step, side_out] at hs
  split at hs
  · next ha =>
    rw [Child.isAlive_iff] at ha
    simp only [Option.map_eq_some_iff] at hs
    obtain ⟨d', hd, rfl⟩ := hs
    obtain ⟨hi, hrd, hacc, hw, hovf⟩ := h.so.drop hd
    have hf1 := h.flag1
    have hof := h.ovfFlag
    have hed := h.eofDead
    refine ⟨hi, h.se, h.flagRange, ?_, h.flag2, ?_, ?_, ?_, ?_, ?_⟩
    · simp_all
    · simp_all
    · intro x hx; have := hed x; cases x <;> simp_all [Side.closed]
    · simp [ha, Child.cause?]
    · simp [ha, Child.cause?]
    · exact h.pcInv.childStep ha rfl rfl rfl (by simp [ha, Child.isReaped, Child.cause?])
  · cases hs

theorem Inv.childDrop_err {cfg plan n} {s s' : State} (h : Inv cfg plan s)
    (hs : step cfg plan s (.childDrop .err n) = some s') : Inv cfg plan s' := by
  simp only [step, side_err] at hs
  split at hs
  · next ha =>
    rw [Child.isAlive_iff] at ha
    simp only [Option.map_eq_some_iff] at hs
    obtain ⟨d', hd, rfl⟩ := hs
    obtain ⟨hi, hrd, hacc, hw, hovf⟩ := h.se.drop hd
    have hf2 := h.flag2
    have hof := h.ovfFlag
    have hed := h.eofDead
    refine ⟨h.so, hi, h.flagRange, h.flag1, ?_, ?_, ?_, ?_, ?_, ?_⟩
    · simp_all
    · simp_all
    · intro x hx; have := hed x; cases x <;> simp_all [Side.closed]
    · simp [ha, Child.cause?]
    · simp [ha, Child.cause?]
    · exact h.pcInv.childStep ha rfl rfl rfl (by simp [ha, Child.isReaped, Child.cause?])
  · cases hs

theorem Inv.childSigpipe {cfg plan x} {s s' : State} (h : Inv cfg plan s)
    (hs : step cfg plan s (.childSigpipe x) = some s') : Inv cfg plan s' := by
  simp only [step] at hs
  split at hs
  · next hc =>
    obtain ⟨ha, hdies, hovf, hpend⟩ := hc
    rw [Child.isAlive_iff] at ha
    cases hs
    have hflag : s.flag ≠ 0 ∨ s.o.rd = .failed ∨ s.e.rd = .failed := by
      have hof := h.ovfFlag
      cases x
      · simp only [side_out, Side.closed] at hovf
        cases hrd : s.o.rd <;> simp_all
      · simp only [side_err, Side.closed] at hovf
        cases hrd : s.e.rd <;> simp_all
    refine ⟨h.so, h.se, h.flagRange, h.flag1, h.flag2, h.ovfFlag, ?_, ?_, ?_, ?_⟩
    · intro _ _; exact Or.inl rfl
    · simp [Child.cause?]
    · intro _; exact ⟨hflag, hdies⟩
    · exact h.pcInv.childStep ha rfl rfl rfl (by simp [Child.isReaped, Child.cause?])
  · cases hs

theorem Inv.childEnd {cfg plan} {s s' : State} (h : Inv cfg plan s)
    (hs : step cfg plan s .childEnd = some s') : Inv cfg plan s' := by
  simp only [step] at hs
  split at hs
  · next hc =>
    obtain ⟨ha, hpo, hpe, _⟩ := hc
    rw [Child.isAlive_iff] at ha
    split at hs
    · next st hst =>
      cases hs
      refine ⟨h.so, h.se, h.flagRange, h.flag1, h.flag2, h.ovfFlag, ?_, ?_, ?_, ?_⟩
      · intro _ _; exact Or.inl rfl
      · intro _; exact ⟨hpo, hpe, by simp [Child.st?, hst]⟩
      · simp [Child.cause?]
      · exact h.pcInv.childStep ha rfl rfl rfl (by simp [Child.isReaped, Child.cause?])
    · cases hs
  · cases hs

/-- The child closes its end of a stream and lives on: only `wopen` of that side changes. -/
theorem Inv.childClose {cfg plan x} {s s' : State} (h : Inv cfg plan s)
    (hs : step cfg plan s (.childClose x) = some s') : Inv cfg plan s' := by
  simp only [step] at hs
  split at hs
  · next ha =>
    rw [Child.isAlive_iff] at ha
    simp only [Option.map_eq_some_iff] at hs
    obtain ⟨d', hd, rfl⟩ := hs
    have hf1 := h.flag1
    have hf2 := h.flag2
    have hof := h.ovfFlag
    have hed := h.eofDead
    cases x with
    | out =>
      obtain ⟨hi, hrd, hacc, hw, hp, hpipe, hwo⟩ := h.so.close hd
      refine ⟨hi, h.se, h.flagRange, ?_, h.flag2, ?_, ?_, ?_, ?_, ?_⟩
      · simp_all
      · simp_all
      · intro y hy
        cases y
        · exact Or.inr hwo
        · exact hed .err hy
      · simp [ha, Child.cause?]
      · simp [ha, Child.cause?]
      · exact h.pcInv.childStep ha rfl rfl rfl (by simp [ha, Child.isReaped, Child.cause?])
    | err =>
      obtain ⟨hi, hrd, hacc, hw, hp, hpipe, hwo⟩ := h.se.close hd
      refine ⟨h.so, hi, h.flagRange, h.flag1, ?_, ?_, ?_, ?_, ?_, ?_⟩
      · simp_all
      · simp_all
      · intro y hy
        cases y
        · exact hed .out hy
        · exact Or.inr hwo
      · simp [ha, Child.cause?]
      · simp [ha, Child.cause?]
      · exact h.pcInv.childStep ha rfl rfl rfl (by simp [ha, Child.isReaped, Child.cause?])
  · cases hs

theorem Inv.tick {cfg plan} {s s' : State} (h : Inv cfg plan s)
    (hs : step cfg plan s .tick = some s') : Inv cfg plan s' := by
  simp only [step] at hs
  split at hs
  · cases hs
  · cases hs
    exact ⟨h.so, h.se, h.flagRange, h.flag1, h.flag2, h.ovfFlag, h.eofDead, h.causePlan, h.causeSig,
      h.pcInv.frame rfl rfl (Nat.le_succ _) (Or.inl rfl) (Or.inl rfl) (Or.inl rfl) (fun h => h)⟩


/-! ## UTF-8 prefix scan -/

theorem prefixInvalidFrom_of_take (bs : Bytes) :
    ∀ (st : Option U8) (fuel k : Nat), k ≤ fuel → k ≤ bs.length →
      U8.accepting ((bs.take k).foldl u8step st) = false → prefixInvalidFrom st fuel bs = true := by
  induction bs with
  | nil =>
    intro st fuel k _ hk h
    have : k = 0 := by simpa using hk
    subst this
    unfold prefixInvalidFrom
    simp at h; simp [h]
  | cons b r ih =>
    intro st fuel k hf hk h
    cases k with
    | zero => unfold prefixInvalidFrom; simp at h; simp [h]
    | succ k' =>
      cases fuel with
      | zero => omega
      | succ f =>
        unfold prefixInvalidFrom
        simp only [List.take_succ_cons, List.foldl_cons] at h
        have := ih (u8step st b) f k' (by omega) (by simpa using hk) h
        simp [this]

theorem prefixInvalid_of_prefix {cap : Nat} {acc rest pb : Bytes} (hp : acc ++ rest = pb)
    (hl : acc.length ≤ cap) (hv : validUtf8 acc = false) : prefixInvalid cap pb = true := by
  unfold prefixInvalid
  apply prefixInvalidFrom_of_take pb _ cap acc.length hl (by rw [← hp]; simp)
  rw [← hp]; simpa [validUtf8] using hv

theorem over_iff (cfg : Cfg) (plan : Plan) (x : Strm) :
    over cfg plan x = true ↔ cfg.captured x = true ∧ cfg.cap < (plan.bytes x).length := by
  simp [over]


/-! ## The main thread -/

theorem Inv.withPc {cfg plan} {s : State} (h : Inv cfg plan s) (p : Pc)
    (hp : PcInv cfg plan { s with pc := p }) : Inv cfg plan { s with pc := p } :=
  ⟨h.so, h.se, h.flagRange, h.flag1, h.flag2, h.ovfFlag, h.eofDead, h.causePlan, h.causeSig, hp⟩

theorem Inv.withChildPc {cfg plan} {s : State} (h : Inv cfg plan s) (c' : Child) (p : Pc)
    (hal : c'.isAlive = false)
    (hcause : (c'.cause? = s.child.cause? ∧ c'.st? = s.child.st?) ∨ c'.cause? = some .killed)
    (hp : PcInv cfg plan { s with child := c', pc := p }) :
    Inv cfg plan { s with child := c', pc := p } := by
  refine ⟨h.so, h.se, h.flagRange, h.flag1, h.flag2, h.ovfFlag, fun _ _ => Or.inl hal, ?_, ?_, hp⟩
  · intro hc
    rcases hcause with ⟨h1, h2⟩ | h1
    · simp only at hc ⊢; rw [h2]; exact h.causePlan (h1 ▸ hc)
    · simp only at hc; rw [h1] at hc; cases hc
  · intro hc
    rcases hcause with ⟨h1, _⟩ | h1
    · exact h.causeSig (h1 ▸ hc)
    · simp only at hc; rw [h1] at hc; cases hc

theorem code_fromCode {f : Nat} (hr : f = 0 ∨ f = 1 ∨ f = 2) (h0 : f ≠ 0) : code (fromCode f) = f := by
  rcases hr with h | h | h <;> simp_all [code, fromCode]

/-- A stream whose code is in the flag is captured and its plan is over the cap. -/
theorem Inv.over_of_flag {cfg plan} {s : State} (h : Inv cfg plan s) {x : Strm}
    (hf : s.flag = code x) : over cfg plan x = true := by
  rw [over_iff]
  cases x with
  | out =>
    have hovf := h.flag1 hf
    refine ⟨?_, (h.so.ovfPrefix hovf).2⟩
    have := h.so.absentIff
    cases hc : cfg.captured .out <;> simp_all
  | err =>
    have hovf := h.flag2 hf
    refine ⟨?_, (h.se.ovfPrefix hovf).2⟩
    have := h.se.absentIff
    cases hc : cfg.captured .err <;> simp_all

theorem SelfEnded.child {s : State} {st : Option Nat} (h : SelfEnded s st) :
    ∃ c, s.child = .reaped st c ∧ c ≠ .killed := by
  obtain ⟨h1, h2, h3⟩ := h
  cases hc : s.child <;> simp_all [Child.isReaped, Child.cause?, Child.st?]

/-- With the flag still clear, a child that ended by itself ended as planned. -/
theorem Inv.plan_of_flag0 {cfg plan} {s : State} {st : Option Nat} (h : Inv cfg plan s)
    (he : SelfEnded s st) (h0 : s.flag = 0) (hno : s.o.rd ≠ .failed) (hne : s.e.rd ≠ .failed) :
    s.child = .reaped st .plan ∧ s.o.pending = [] ∧ s.e.pending = [] ∧ plan.ending.status = some st := by
  obtain ⟨c, hc, hk⟩ := he.child
  cases c with
  | killed => exact absurd rfl hk
  | sigpipe =>
    rcases (h.causeSig (by simp [hc, Child.cause?])).1 with h1 | h1 | h1
    · exact absurd h0 h1
    · exact absurd h1 hno
    · exact absurd h1 hne
  | plan =>
    have := h.causePlan (by simp [hc, Child.cause?])
    simp [hc, Child.st?] at this
    exact ⟨hc, this.1, this.2.1, this.2.2⟩

/-- A reader that finished on EOF holds everything that was written. -/
theorem SideInv.eof_acc {cap cpt pb d} (h : SideInv cap cpt pb d) (he : d.rd = .eof) :
    d.acc = d.written ∧ d.written ++ d.pending = pb := by
  have h1 := h.conserve (by simp [he]) (by simp [he])
  have h2 := h.eofEmpty he
  have h3 := h.planned (by simp [he]) (by simp [he])
  simp [he, Rd.inHand, h2] at h1
  exact ⟨h1, h3⟩

theorem SideInv.captured_of {cap cpt pb d} (h : SideInv cap cpt pb d) (he : d.rd ≠ .absent) :
    cpt = true := by
  have := h.absentIff
  cases cpt <;> simp_all

theorem SideInv.not_captured_of {cap cpt pb d} (h : SideInv cap cpt pb d) (he : d.rd = .absent) :
    cpt = false := h.absentIff.mp he

theorem Side.joined_cases {d : Side} (hj : d.joined = true) (ha : d.rd ≠ .absent) :
    d.rd = .eof ∨ d.rd = .ovf := by
  rw [Side.joined_iff] at hj; simp_all

theorem Side.not_failed_of_joined {d : Side} (hj : d.joined = true) : d.rd ≠ .failed := by
  rw [Side.joined_iff] at hj; intro hf; simp [hf] at hj


theorem Inv.main_wait {cfg plan} {s s' : State} (h : Inv cfg plan s)
    (hs : stepMain cfg s = some s')
    (hpc : s.pc = .load ∨ s.pc = .tryWait ∨ s.pc = .deadline ∨ (∃ w, s.pc = .sleep w) ∨
      (∃ e, s.pc = .kill e) ∨ (∃ e, s.pc = .reap e) ∨ (∃ e, s.pc = .eJoinOut e) ∨
      (∃ e, s.pc = .eJoinWr e)) :
    Inv cfg plan s' := by
  have hp := h.pcInv
  unfold PcInv at hp
  rcases hpc with hpc | hpc | hpc | ⟨w, hpc⟩ | ⟨e, hpc⟩ | ⟨e, hpc⟩ | ⟨e, hpc⟩ | ⟨e, hpc⟩ <;>
    simp only [stepMain, hpc] at hs hp
  · -- load
    split at hs <;> cases hs
    · next hf =>
      apply h.withPc
      simp only [PcInv, ErrOk]
      exact ⟨hp.1, (code_fromCode h.flagRange hf).symm⟩
    · apply h.withPc; simpa [PcInv] using hp
  · -- tryWait
    split at hs
    · next st c hc =>
      cases hs
      apply h.withChildPc _ _ rfl (Or.inl (by simp [hc, Child.cause?, Child.st?]))
      simp only [PcInv, SelfEnded]
      simp [hc, Child.cause?] at hp
      simp [Child.isReaped, Child.cause?, Child.st?, hp]
    · cases hs; apply h.withPc; simpa [PcInv] using hp
    · cases hs
  · -- deadline
    split at hs <;> cases hs
    · next ht => apply h.withPc; simp only [PcInv, ErrOk]; exact ⟨hp.1, ht⟩
    · apply h.withPc; simpa [PcInv] using hp
  · -- sleep
    split at hs <;> cases hs
    apply h.withPc; simpa [PcInv] using hp
  · -- kill
    split at hs
    · next hc =>
      cases hs
      apply h.withChildPc _ _ rfl (Or.inr rfl)
      simp only [PcInv]
      exact ⟨rfl, hp.2.mono (Nat.le_refl _) (fun _ => rfl)⟩
    · next hc =>
      cases hs
      apply h.withPc
      simp only [PcInv]
      refine ⟨?_, hp.2.mono (Nat.le_refl _) (fun _ => rfl)⟩
      have := hp.1
      cases hch : s.child <;> simp_all [Child.isReaped, Child.isZombie]
  · -- reap
    split at hs
    · next st c hc =>
      cases hs
      apply h.withChildPc _ _ rfl (Or.inl (by simp [hc, Child.cause?, Child.st?]))
      simp only [PcInv]
      exact ⟨rfl, hp.2.mono (Nat.le_refl _) (fun _ => rfl)⟩
    · cases hs
  · -- eJoinOut
    split at hs <;> cases hs
    apply h.withPc
    simp only [PcInv]
    exact ⟨hp.1, hp.2.mono (Nat.le_refl _) (fun _ => rfl)⟩
  · -- eJoinWr
    split at hs <;> cases hs
    apply h.withPc
    simp only [PcInv]
    exact ⟨hp.1, hp.2.mono (Nat.le_refl _) (fun _ => rfl)⟩

theorem allowedIn_of_allowed {cfg plan} {s : State} {r : Outcome} (h : allowed cfg plan r = true) :
    allowedIn cfg plan s r = true := by simp [allowedIn, h]

/-- `join_writer` on the success path: an `Err` of the writer thread becomes the run's error. -/
theorem Inv.main_joinWr {cfg plan} {s s' : State} {st : Option Nat} (h : Inv cfg plan s)
    (hs : stepMain cfg s = some s') (hpc : s.pc = .joinWr st) : Inv cfg plan s' := by
  have hp := h.pcInv
  unfold PcInv at hp
  simp only [stepMain, hpc] at hs hp
  split at hs
  · cases hs
  · next hwr =>
    cases hs
    apply h.withPc
    simp only [PcInv]
    refine ⟨hp.1, ?_, by simp, by simp, by simp, by simp⟩
    simp [allowedIn, faultAllowed, hwr]
  · cases hs; apply h.withPc; simp only [PcInv]; exact hp
  · cases hs; apply h.withPc; simp only [PcInv]; exact hp


theorem Good.ole {cfg plan} {s : State} {x : Strm} (h : Inv cfg plan s) (hf : s.flag = code x) :
    Good cfg plan s (.error (.ole x)) := by
  refine ⟨?_, ?_, ?_, ?_, ?_⟩
  · exact allowedIn_of_allowed (by simpa [allowed] using h.over_of_flag hf)
  all_goals simp

theorem Inv.main_eJoinErr {cfg plan} {s s' : State} {e : Err} (h : Inv cfg plan s)
    (hs : stepMain cfg s = some s') (hpc : s.pc = .eJoinErr e) : Inv cfg plan s' := by
  have hp := h.pcInv
  unfold PcInv at hp
  simp only [stepMain, hpc] at hs hp
  split at hs <;> cases hs
  apply h.withPc
  simp only [PcInv]
  refine ⟨hp.1, ?_⟩
  cases e with
  | ole x => exact (Good.ole h hp.2).frame rfl (Nat.le_refl _) rfl rfl (fun h => h) (fun h => h) (fun h => h)
  | timeout =>
    have : cfg.timeout ≤ s.now := hp.2
    refine ⟨by simp [allowedIn, allowed], fun _ => this, ?_, ?_, ?_⟩ <;> simp
  | badUtf8 x => exact hp.2.elim
  | readFailed x => exact hp.2.elim
  | writeFailed => exact hp.2.elim

theorem Inv.main_joinOut {cfg plan} {s s' : State} {st : Option Nat} (h : Inv cfg plan s)
    (hs : stepMain cfg s = some s') (hpc : s.pc = .joinOut st) : Inv cfg plan s' := by
  have hp := h.pcInv
  unfold PcInv at hp
  simp only [stepMain, hpc] at hs hp
  split at hs
  · next hrd =>
    cases hs
    apply h.withPc
    simp only [PcInv]
    refine ⟨hp, by simp [Side.joined, hrd], ?_, Or.inl ⟨hrd, rfl⟩⟩
    intro h1; have := h.flag1 h1; simp_all
  · next hrd =>
    cases hs; apply h.withPc; simp only [PcInv]
    exact ⟨hp, by simp [Side.joined, hrd], by simp [hrd]⟩
  · next hrd =>
    cases hs; apply h.withPc; simp only [PcInv]
    exact ⟨hp, by simp [Side.joined, hrd], by simp [hrd]⟩
  · next hrd =>
    -- the reader thread ended with `Err`: `join_capture` reports it, whatever the flag says
    cases hs; apply h.withPc; simp only [PcInv]
    refine ⟨hp.1, ?_, by simp, by simp, by simp, by simp⟩
    simp [allowedIn, faultAllowed, hrd]
  · cases hs

/-- What `joinOverflow … = some y` means on reachable states: `y`'s code is in the flag. -/
theorem Inv.joinOverflow_some {cfg plan} {s : State} {x y : Strm} (h : Inv cfg plan s)
    (hj : joinOverflow cfg.fixedJoin s.flag x = some y) : s.flag = code y := by
  unfold joinOverflow at hj
  split at hj
  · split at hj
    · next h0 => cases hj; exact (code_fromCode h.flagRange h0).symm
    · cases hj
  · split at hj
    · next hc => cases hj; exact hc
    · cases hj

theorem joinOverflow_none {fixed : Bool} {flag : Nat} {x : Strm}
    (hj : joinOverflow fixed flag x = none) : (fixed = true ∧ flag = 0) ∨ (fixed = false ∧ flag ≠ code x) := by
  unfold joinOverflow at hj
  cases fixed <;> simp_all


theorem flag_eq_two {f : Nat} (hr : f = 0 ∨ f = 1 ∨ f = 2) (h0 : f ≠ 0) (h1 : f ≠ 1) : f = 2 := by
  omega

theorem over_false_of_le {cfg : Cfg} {plan : Plan} {x : Strm} (h : (plan.bytes x).length ≤ cfg.cap) :
    over cfg plan x = false := by
  unfold over; cases cfg.captured x <;> simp; omega

theorem Inv.main_flagOut {cfg plan} {s s' : State} {st : Option Nat} (h : Inv cfg plan s)
    (hs : stepMain cfg s = some s') (hpc : s.pc = .flagOut st) : Inv cfg plan s' := by
  have hp := h.pcInv
  unfold PcInv at hp
  simp only [stepMain, hpc] at hs hp
  obtain ⟨hse, hjo, hna⟩ := hp
  have hcap : cfg.captured .out = true := h.so.captured_of hna
  obtain ⟨c, hchild, hck⟩ := hse.child
  have hreaped : s.child.isReaped = true := hse.1
  split at hs
  · next y hy =>
    cases hs
    apply h.withPc
    simp only [PcInv]
    exact ⟨hreaped, (Good.ole h (h.joinOverflow_some hy)).frame rfl (Nat.le_refl _) rfl rfl (fun h => h) (fun h => h) (fun h => h)⟩
  · next hnone =>
    have hmode := joinOverflow_none hnone
    have hf1 : s.flag ≠ 1 := by
      rcases hmode with ⟨_, h0⟩ | ⟨_, h1⟩
      · omega
      · simpa [code] using h1
    split at hs <;> cases hs
    · next hv =>
      apply h.withPc
      simp only [PcInv]
      exact ⟨hse, hjo, hf1, Or.inr ⟨hna, rfl, hv⟩⟩
    · next hv =>
      have hv : validUtf8 s.o.acc = false := by simpa using hv
      apply h.withPc
      simp only [PcInv]
      refine ⟨hreaped, ?_⟩
      rcases Side.joined_cases hjo hna with heof | hovf
      · -- the reader saw EOF: its buffer is everything the child wrote
        obtain ⟨hacc, hplanned⟩ := h.so.eof_acc heof
        have hwv : validUtf8 s.o.written = false := hacc ▸ hv
        by_cases h0 : s.flag = 0
        · refine ⟨?_, by simp, by simp, fun _ => Or.inl hwv, by simp⟩
          cases c with
          | killed => exact absurd rfl hck
          | sigpipe =>
            -- no overflow, yet a closed pipe killed the child: stderr's reader had failed
            obtain ⟨hwhy, hdies⟩ := h.causeSig (by simp [hchild, Child.cause?])
            have hfe : s.e.rd = .failed := by
              rcases hwhy with h1 | h1 | h1
              · exact absurd h0 h1
              · rw [heof] at h1; cases h1
              · exact h1
            have hpi : prefixInvalid cfg.cap plan.out = true :=
              prefixInvalid_of_prefix hplanned (hacc ▸ h.so.accCap) hwv
            simp [allowedIn, faultAllowed, hfe, hdies, hcap, hpi]
          | plan =>
            have hpo := (h.causePlan (by simp [hchild, Child.cause?])).1
            have hfull : s.o.acc = plan.out := by rw [hacc, ← hplanned, hpo]; simp
            have hlen : plan.out.length ≤ cfg.cap := by rw [← hfull]; exact h.so.accCap
            have hno : over cfg plan .out = false := over_false_of_le (x := .out) hlen
            simp [allowedIn, allowed, hcap, hno, ← hfull, hv]
        · -- some reader overflowed; it was not stdout's, so it was stderr's
          have h2 : s.flag = 2 := flag_eq_two h.flagRange h0 hf1
          have hfix : cfg.fixedJoin = false := by
            rcases hmode with ⟨_, hz⟩ | ⟨hm, _⟩
            · exact absurd hz h0
            · exact hm
          have hoe : over cfg plan .err = true := h.over_of_flag (x := .err) (by simp [code, h2])
          have hpi : prefixInvalid cfg.cap plan.out = true :=
            prefixInvalid_of_prefix hplanned (hacc ▸ h.so.accCap) hwv
          refine ⟨?_, by simp, by simp, fun _ => Or.inl hwv, by simp⟩
          -- either stdout is within the cap (then the child died of SIGPIPE, or the plan itself is invalid)
          cases c with
          | killed => exact absurd rfl hck
          | sigpipe =>
            have := (h.causeSig (by simp [hchild, Child.cause?])).2
            simp [allowedIn, allowed, hcap, hfix, hoe, hpi, this]
          | plan =>
            have hpo := (h.causePlan (by simp [hchild, Child.cause?])).1
            have hfull : s.o.acc = plan.out := by rw [hacc, ← hplanned, hpo]; simp
            have hlen : plan.out.length ≤ cfg.cap := by rw [← hfull]; exact h.so.accCap
            have hno : over cfg plan .out = false := over_false_of_le (x := .out) hlen
            simp [allowedIn, allowed, hcap, hno, ← hfull, hv]
      · -- the reader stopped on the size check but lost the CAS: D-16 (pinned `join_capture` only)
        have h0 : s.flag ≠ 0 := h.ovfFlag (Or.inl hovf)
        have h2 : s.flag = 2 := flag_eq_two h.flagRange h0 hf1
        have hfix : cfg.fixedJoin = false := by
          rcases hmode with ⟨_, hz⟩ | ⟨hm, _⟩
          · exact absurd hz h0
          · exact hm
        have hoe : over cfg plan .err = true := h.over_of_flag (x := .err) (by simp [code, h2])
        obtain ⟨⟨rest, hrest⟩, hlen⟩ := h.so.ovfPrefix hovf
        have hoo : over cfg plan .out = true := by rw [over_iff]; exact ⟨hcap, hlen⟩
        have hpi : prefixInvalid cfg.cap plan.out = true := prefixInvalid_of_prefix hrest h.so.accCap hv
        refine ⟨?_, by simp, by simp, fun _ => Or.inr ⟨hfix, hoo, hoe⟩, by simp⟩
        simp [allowedIn, allowed, hcap, hfix, hoe, hoo, hpi]


/-- With the flag clear after the child ended by itself, a joined reader holds the whole plan. -/
theorem Inv.out_complete {cfg plan} {s : State} {st : Option Nat} (h : Inv cfg plan s)
    (hse : SelfEnded s st) (h0 : s.flag = 0) (hj : s.o.joined = true) (hna : s.o.rd ≠ .absent)
    (hne : s.e.rd ≠ .failed) :
    s.o.acc = plan.out ∧ s.o.written = plan.out ∧ plan.out.length ≤ cfg.cap ∧ cfg.captured .out = true := by
  rcases Side.joined_cases hj hna with heof | hovf
  · obtain ⟨hacc, hplanned⟩ := h.so.eof_acc heof
    obtain ⟨_, hpo, _, _⟩ := h.plan_of_flag0 hse h0 (Side.not_failed_of_joined hj) hne
    have hw : s.o.written = plan.out := by rw [← hplanned, hpo]; simp
    have hfull : s.o.acc = plan.out := by rw [hacc, hw]
    exact ⟨hfull, hw, by rw [← hfull]; exact h.so.accCap, h.so.captured_of hna⟩
  · exact absurd h0 (h.ovfFlag (Or.inl hovf))

theorem Inv.err_complete {cfg plan} {s : State} {st : Option Nat} (h : Inv cfg plan s)
    (hse : SelfEnded s st) (h0 : s.flag = 0) (hj : s.e.joined = true) (hna : s.e.rd ≠ .absent)
    (hno : s.o.rd ≠ .failed) :
    s.e.acc = plan.err ∧ s.e.written = plan.err ∧ plan.err.length ≤ cfg.cap ∧ cfg.captured .err = true := by
  rcases Side.joined_cases hj hna with heof | hovf
  · obtain ⟨hacc, hplanned⟩ := h.se.eof_acc heof
    obtain ⟨_, _, hpe, _⟩ := h.plan_of_flag0 hse h0 hno (Side.not_failed_of_joined hj)
    have hw : s.e.written = plan.err := by rw [← hplanned, hpe]; simp
    have hfull : s.e.acc = plan.err := by rw [hacc, hw]
    exact ⟨hfull, hw, by rw [← hfull]; exact h.se.accCap, h.se.captured_of hna⟩
  · exact absurd h0 (h.ovfFlag (Or.inr hovf))

theorem over_eq_false_iff (cfg : Cfg) (plan : Plan) (x : Strm) :
    over cfg plan x = false ↔ cfg.captured x = false ∨ (plan.bytes x).length ≤ cfg.cap := by
  unfold over; cases cfg.captured x <;> simp

theorem over_false_of_not_captured {cfg : Cfg} {plan : Plan} {x : Strm} (h : cfg.captured x = false) :
    over cfg plan x = false := by simp [over, h]

/-- The stdout half of a complete result. -/
theorem Inv.outRes_complete {cfg plan} {s : State} {st : Option Nat} {ro : Option Bytes}
    (h : Inv cfg plan s) (hse : SelfEnded s st) (h0 : s.flag = 0) (hj : s.o.joined = true)
    (hr : OutRes s ro) (hne : s.e.rd ≠ .failed) :
    ro = expect cfg plan .out ∧ over cfg plan .out = false ∧
      (cfg.captured .out = false ∨ validUtf8 plan.out = true) := by
  rcases hr with ⟨habs, rfl⟩ | ⟨hna, rfl, hv⟩
  · have hc := h.so.not_captured_of habs
    exact ⟨by simp [expect, hc], over_false_of_not_captured hc, Or.inl hc⟩
  · obtain ⟨hacc, _, hlen, hc⟩ := h.out_complete hse h0 hj hna hne
    exact ⟨by simp [expect, hc, hacc, Plan.bytes], over_false_of_le (x := .out) hlen, Or.inr (hacc ▸ hv)⟩

theorem Inv.main_joinErr {cfg plan} {s s' : State} {st : Option Nat} {ro : Option Bytes}
    (h : Inv cfg plan s) (hs : stepMain cfg s = some s') (hpc : s.pc = .joinErr st ro) :
    Inv cfg plan s' := by
  have hp := h.pcInv
  unfold PcInv at hp
  simp only [stepMain, hpc] at hs hp
  obtain ⟨hse, hjo, hf1, hres⟩ := hp
  split at hs
  · next hrd =>
    cases hs
    apply h.withPc
    simp only [PcInv]
    refine ⟨hse.1, ?_⟩
    have hf2 : s.flag ≠ 2 := by intro h2; have := h.flag2 h2; simp_all
    have h0 : s.flag = 0 := by have := h.flagRange; omega
    have hne : s.e.rd ≠ .failed := by simp [hrd]
    obtain ⟨hchild, _, _, hstatus⟩ := h.plan_of_flag0 hse h0 (Side.not_failed_of_joined hjo) hne
    obtain ⟨hro, hoo, hvo⟩ := h.outRes_complete hse h0 hjo hres hne
    have hce := h.se.not_captured_of hrd
    refine ⟨?_, by simp, ?_, by simp, by simp⟩
    · apply allowedIn_of_allowed
      simp [allowed, hstatus, hoo, over_false_of_not_captured hce, hro, expect, hce]
      rcases hvo with hvo | hvo <;> simp [hvo]
    · intro st' o e hr; cases hr; exact hchild
  · next hrd =>
    cases hs; apply h.withPc; simp only [PcInv]
    exact ⟨hse, hjo, hf1, hres, by simp [Side.joined, hrd], by simp [hrd]⟩
  · next hrd =>
    cases hs; apply h.withPc; simp only [PcInv]
    exact ⟨hse, hjo, hf1, hres, by simp [Side.joined, hrd], by simp [hrd]⟩
  · next hrd =>
    -- stderr's reader thread ended with `Err`
    cases hs; apply h.withPc; simp only [PcInv]
    refine ⟨hse.1, ?_, by simp, by simp, by simp, by simp⟩
    simp [allowedIn, faultAllowed, hrd]
  · cases hs

theorem Inv.main_flagErr {cfg plan} {s s' : State} {st : Option Nat} {ro : Option Bytes}
    (h : Inv cfg plan s) (hs : stepMain cfg s = some s') (hpc : s.pc = .flagErr st ro) :
    Inv cfg plan s' := by
  have hp := h.pcInv
  unfold PcInv at hp
  simp only [stepMain, hpc] at hs hp
  obtain ⟨hse, hjo, hf1, hres, hje, hnae⟩ := hp
  split at hs
  · next y hy =>
    cases hs
    apply h.withPc
    simp only [PcInv]
    exact ⟨hse.1, (Good.ole h (h.joinOverflow_some hy)).frame rfl (Nat.le_refl _) rfl rfl (fun h => h) (fun h => h) (fun h => h)⟩
  · next hnone =>
    have h0 : s.flag = 0 := by
      rcases joinOverflow_none hnone with ⟨_, h0⟩ | ⟨_, h2⟩
      · exact h0
      · have := h.flagRange; simp [code] at h2; omega
    have hno : s.o.rd ≠ .failed := Side.not_failed_of_joined hjo
    have hne : s.e.rd ≠ .failed := Side.not_failed_of_joined hje
    obtain ⟨hchild, _, _, hstatus⟩ := h.plan_of_flag0 hse h0 hno hne
    obtain ⟨hro, hoo, hvo⟩ := h.outRes_complete hse h0 hjo hres hne
    obtain ⟨hacc, hw, hlen, hce⟩ := h.err_complete hse h0 hje hnae hno
    have hoe : over cfg plan .err = false := over_false_of_le (x := .err) hlen
    split at hs <;> cases hs
    · next hv =>
      apply h.withPc
      simp only [PcInv]
      refine ⟨hse.1, ?_, by simp, ?_, by simp, by simp⟩
      · rw [hacc] at hv
        apply allowedIn_of_allowed
        simp [allowed, hstatus, hoo, hoe, hro, expect, hce, hacc, Plan.bytes, hv]
        rcases hvo with hvo | hvo <;> simp [hvo]
      · intro st' o e hr; cases hr; exact hchild
    · next hv =>
      have hv : validUtf8 s.e.acc = false := by simpa using hv
      apply h.withPc
      simp only [PcInv]
      refine ⟨hse.1, ?_, by simp, by simp, by simp, fun _ => by rw [hw, ← hacc]; exact hv⟩
      rw [hacc] at hv
      apply allowedIn_of_allowed
      simp [allowed, hoo, hoe, hce, hv]
      rcases hvo with hvo | hvo <;> simp [hvo]

/-- Every step of the main thread preserves the invariant. -/
theorem Inv.main {cfg plan} {s s' : State} (h : Inv cfg plan s)
    (hs : step cfg plan s .main = some s') : Inv cfg plan s' := by
  simp only [step] at hs
  cases hpc : s.pc with
  | load => exact h.main_wait hs (by simp [hpc])
  | tryWait => exact h.main_wait hs (by simp [hpc])
  | deadline => exact h.main_wait hs (by simp [hpc])
  | sleep w => exact h.main_wait hs (by simp [hpc])
  | kill e => exact h.main_wait hs (by simp [hpc])
  | reap e => exact h.main_wait hs (by simp [hpc])
  | eJoinOut e => exact h.main_wait hs (by simp [hpc])
  | eJoinWr e => exact h.main_wait hs (by simp [hpc])
  | eJoinErr e => exact h.main_eJoinErr hs hpc
  | joinWr st => exact h.main_joinWr hs hpc
  | preJoinWr => simp [stepMain, hpc] at hs
  | drainFlag w => simp [stepMain, hpc] at hs
  | blockWait => simp [stepMain, hpc] at hs
  | joinOut st => exact h.main_joinOut hs hpc
  | flagOut st => exact h.main_flagOut hs hpc
  | joinErr st ro => exact h.main_joinErr hs hpc
  | flagErr st ro => exact h.main_flagErr hs hpc
  | done r => simp [stepMain, hpc] at hs


/-! ## Steps of the stdin pipe (writer thread, child reading or closing its stdin)

The invariant does not look at the stdin side except for one permanent mark: a writer that has
failed stays failed. -/

theorem Inv.inpStep {cfg plan} {s : State} (h : Inv cfg plan s) (i' : Inp)
    (hw : s.i.wr = .failed → i'.wr = .failed) : Inv cfg plan { s with i := i' } :=
  ⟨h.so, h.se, h.flagRange, h.flag1, h.flag2, h.ovfFlag, h.eofDead, h.causePlan, h.causeSig,
    h.pcInv.frame rfl rfl (Nat.le_refl _) (Or.inl rfl) (Or.inl rfl) (Or.inl rfl) hw⟩

theorem Inp.write_wr {pipeCap al n} {i i' : Inp} (h : Inp.write pipeCap al i n = some i') :
    i.wr = .busy ∧ i'.wr = .busy := by
  unfold Inp.write at h
  cases hw : i.wr <;> simp [hw] at h
  obtain ⟨_, rfl⟩ := h
  exact ⟨rfl, rfl⟩

theorem Inp.finish_wr {i i' : Inp} (h : Inp.finish i = some i') : i.wr = .busy ∧ i'.wr = .fin := by
  unfold Inp.finish at h
  cases hw : i.wr <;> simp [hw] at h
  obtain ⟨_, rfl⟩ := h
  exact ⟨rfl, rfl⟩

theorem Inp.epipe_wr {al} {i i' : Inp} (h : Inp.epipe al i = some i') : i.wr = .busy ∧ i'.wr = .fin := by
  unfold Inp.epipe at h
  cases hw : i.wr <;> simp [hw] at h
  obtain ⟨_, rfl⟩ := h
  exact ⟨rfl, rfl⟩

theorem Inp.fail_wr {i i' : Inp} (h : Inp.fail i = some i') : i.wr = .busy ∧ i'.wr = .failed := by
  unfold Inp.fail at h
  cases hw : i.wr <;> simp [hw] at h
  obtain ⟨_, rfl⟩ := h
  exact ⟨rfl, rfl⟩

theorem Inp.childRead_wr {n} {i i' : Inp} (h : Inp.childRead i n = some i') : i'.wr = i.wr := by
  unfold Inp.childRead at h
  split at h <;> cases h; rfl

theorem Inp.childClose_wr {i i' : Inp} (h : Inp.childClose i = some i') : i'.wr = i.wr := by
  unfold Inp.childClose at h
  split at h <;> cases h; rfl

/-! ## Initial state, every step, every execution -/

theorem Inv.init (cfg : Cfg) (plan : Plan) : Inv cfg plan (init cfg plan) := by
  refine ⟨SideInv.init _ _ _, SideInv.init _ _ _, Or.inl rfl, ?_, ?_, ?_, ?_, ?_, ?_, ?_⟩
  · simp [Capture.init]
  · simp [Capture.init]
  · simp only [Capture.init, Side.init]; intro h; rcases h with h | h <;> split at h <;> cases h
  · intro x h; cases x <;> simp only [Capture.init, Side.init, State.side] at h <;> split at h <;> cases h
  · simp [Capture.init, Child.cause?]
  · simp [Capture.init, Child.cause?]
  · simp [PcInv, Capture.init, Child.isReaped, Child.cause?]

theorem Inv.step {cfg plan} {s s' : State} {l : Label} (h : Inv cfg plan s)
    (hs : step cfg plan s l = some s') : Inv cfg plan s' := by
  cases l with
  | childWrite x n => cases x; exact h.childWrite_out hs; exact h.childWrite_err hs
  | childDrop x n => cases x; exact h.childDrop_out hs; exact h.childDrop_err hs
  | childSigpipe x => exact h.childSigpipe hs
  | childEnd => exact h.childEnd hs
  | childClose x => exact h.childClose hs
  | rdRead x => cases x; exact h.rdRead_out hs; exact h.rdRead_err hs
  | rdCheck x => cases x; exact h.rdCheck_out hs; exact h.rdCheck_err hs
  | rdEof x => cases x; exact h.rdEof_out hs; exact h.rdEof_err hs
  | rdFail x => cases x; exact h.rdFail_out hs; exact h.rdFail_err hs
  | wrWrite n =>
    simp only [Capture.step, Option.map_eq_some_iff] at hs
    obtain ⟨i', hi, rfl⟩ := hs
    exact h.inpStep i' (fun hf => by rw [(Inp.write_wr hi).1] at hf; cases hf)
  | wrEnd =>
    simp only [Capture.step, Option.map_eq_some_iff] at hs
    obtain ⟨i', hi, rfl⟩ := hs
    exact h.inpStep i' (fun hf => by rw [(Inp.finish_wr hi).1] at hf; cases hf)
  | wrEpipe =>
    simp only [Capture.step, Option.map_eq_some_iff] at hs
    obtain ⟨i', hi, rfl⟩ := hs
    exact h.inpStep i' (fun hf => by rw [(Inp.epipe_wr hi).1] at hf; cases hf)
  | wrFail =>
    simp only [Capture.step, Option.map_eq_some_iff] at hs
    obtain ⟨i', hi, rfl⟩ := hs
    exact h.inpStep i' (fun _ => (Inp.fail_wr hi).2)
  | childRead n =>
    simp only [Capture.step] at hs
    split at hs
    · simp only [Option.map_eq_some_iff] at hs
      obtain ⟨i', hi, rfl⟩ := hs
      exact h.inpStep i' (fun hf => by rw [Inp.childRead_wr hi]; exact hf)
    · cases hs
  | childCloseIn =>
    simp only [Capture.step] at hs
    split at hs
    · simp only [Option.map_eq_some_iff] at hs
      obtain ⟨i', hi, rfl⟩ := hs
      exact h.inpStep i' (fun hf => by rw [Inp.childClose_wr hi]; exact hf)
    · cases hs
  | main => exact h.main hs
  | tick => exact h.tick hs

theorem Inv.run {cfg plan} {s s' : State} {ls : List Label} (h : Inv cfg plan s)
    (hr : run cfg plan s ls = some s') : Inv cfg plan s' := by
  induction ls generalizing s with
  | nil => simp [Capture.run] at hr; exact hr ▸ h
  | cons l ls ih =>
    simp only [Capture.run] at hr
    split at hr
    · next s₁ hs => exact ih (h.step hs) hr
    · cases hr

end NaijaVerif.Capture
