import NaijaVerif.Lemmas.ParseDefs
import NaijaVerif.Model.Resolve
/-
C10, downstream of the parser (1): the resolver commutes with span erasure.

`checkBlock` run on the span-erased program (in an environment whose function signatures have their
`nameSpan` erased) returns the span-erased annotated program, the same diagnostics with every span
erased, and THE SAME facts (`Facts` holds no span at all).  Hence no decision of the resolver reads a
span: the only spans it touches are copied into diagnostics (`RDiag.at … span`, the two labels of a
duplicate definition) or carried along in a signature to become such a label.
-/
namespace NaijaVerif.SpanErase
open NaijaVerif NaijaVerif.Parse NaijaVerif.Resolve

/-! ### Erasure of the resolver's own data -/

def eraseSig (g : FnSig) : FnSig := { g with nameSpan := zspan }

def eraseFnScopes (fns : List (List FnSig)) : List (List FnSig) := fns.map (·.map eraseSig)

def eraseEnv (env : Env) : Env := { env with fns := eraseFnScopes env.fns }

@[simp] theorem eraseFnScopes_cons (sigs : List FnSig) (fns : List (List FnSig)) :
    sigs.map eraseSig :: eraseFnScopes fns = eraseFnScopes (sigs :: fns) := rfl

/-- Every environment the resolver builds from an erased one is the erasure of the environment it
builds from the original. -/
@[simp] theorem eraseEnv_mk (vars : List Scope) (fns : List (List FnSig)) (curFn : Option Nat)
    (owner inLoop scope : Nat) (spanLen shadowRet recovery : Bool) :
    (⟨vars, eraseFnScopes fns, curFn, owner, inLoop, scope, spanLen, shadowRet, recovery⟩ : Env)
      = eraseEnv ⟨vars, fns, curFn, owner, inLoop, scope, spanLen, shadowRet, recovery⟩ := rfl

def eraseRD (d : RDiag) : RDiag := ⟨d.rule, zspan, d.labels.map fun _ => zspan⟩

theorem eraseRD_toDiag (d : RDiag) : (eraseRD d).toDiag = eraseDiag d.toDiag := rfl

@[simp] theorem eraseRD_at (r : Rule) (s : Span) : eraseRD (RDiag.at r s) = RDiag.at r zspan := rfl

@[simp] theorem map_eraseRD_errIf (b : Bool) (d : RDiag) :
    (errIf b d).map eraseRD = errIf b (eraseRD d) := by
  cases b <;> rfl

@[simp] theorem eraseEnv_vars (env : Env) : (eraseEnv env).vars = env.vars := rfl
@[simp] theorem eraseEnv_owner (env : Env) : (eraseEnv env).owner = env.owner := rfl
@[simp] theorem eraseEnv_scope (env : Env) : (eraseEnv env).scope = env.scope := rfl
@[simp] theorem eraseEnv_curFn (env : Env) : (eraseEnv env).curFn = env.curFn := rfl
@[simp] theorem eraseEnv_inLoop (env : Env) : (eraseEnv env).inLoop = env.inLoop := rfl
@[simp] theorem eraseEnv_spanLen (env : Env) : (eraseEnv env).spanLen = env.spanLen := rfl
@[simp] theorem eraseEnv_shadowRet (env : Env) : (eraseEnv env).shadowRet = env.shadowRet := rfl
@[simp] theorem eraseEnv_recovery (env : Env) : (eraseEnv env).recovery = env.recovery := rfl
@[simp] theorem eraseEnv_fns (env : Env) : (eraseEnv env).fns = eraseFnScopes env.fns := rfl

@[simp] theorem lookupVar_eraseEnv (env : Env) (cur : Scope) (x : Bytes) :
    lookupVar (eraseEnv env) cur x = lookupVar env cur x := rfl

theorem findFn_map (s : List FnSig) (x : Bytes) :
    findFn (s.map eraseSig) x = (findFn s x).map eraseSig := by
  induction s with
  | nil => rfl
  | cons g gs ih =>
    simp only [List.map_cons, findFn, List.find?_cons] at ih ⊢
    have : (eraseSig g).name = g.name := rfl
    rw [this]
    cases h : (g.name == x) with
    | true => simp
    | false => simpa using ih

theorem lookupFns_map (ss : List (List FnSig)) (x : Bytes) :
    lookupFns (ss.map (·.map eraseSig)) x = (lookupFns ss x).map eraseSig := by
  induction ss with
  | nil => rfl
  | cons s ss ih =>
    simp only [List.map_cons, lookupFns, findFn_map]
    cases h : findFn s x with
    | none => simpa using ih
    | some g => simp

@[simp] theorem lookupFn_eraseEnv (env : Env) (x : Bytes) :
    lookupFn (eraseEnv env) x = (lookupFn env x).map eraseSig := by
  simp [lookupFn, eraseFnScopes, lookupFns_map]

@[simp] theorem inferBin_eraseEnv (env : Env) (op : BinOp) (a b : VType) :
    inferBin (eraseEnv env) op a b = inferBin env op a b := rfl

@[simp] theorem eraseExpr_span (e : Expr) : (eraseExpr e).span = zspan := by
  cases e <;> simp [eraseExpr, Expr.span]

@[simp] theorem eraseExprs_length (es : List Expr) : (eraseExprs es).length = es.length := by
  induction es with
  | nil => rfl
  | cons e es ih => simp [eraseExprs, ih]

theorem eraseExprs_eq_map (es : List Expr) : eraseExprs es = es.map eraseExpr := by
  induction es with
  | nil => rfl
  | cons e es ih => simp [eraseExprs, ih]

/-! ### The pure functions of the expression level -/

theorem inferExpr_erase (env : Env) (cur : Scope) :
    ∀ e : Expr, inferExpr (eraseEnv env) cur (eraseExpr e) = inferExpr env cur e
  | .num _ _ => by simp [eraseExpr, inferExpr]
  | .str _ _ => by simp [eraseExpr, inferExpr]
  | .bool _ _ => by simp [eraseExpr, inferExpr]
  | .null _ => by simp [eraseExpr, inferExpr]
  | .array _ _ => by simp [eraseExpr, inferExpr]
  | .index _ _ _ _ => by simp [eraseExpr, inferExpr]
  | .member _ _ _ _ => by simp [eraseExpr, inferExpr]
  | .var _ _ _ => by simp [eraseExpr, inferExpr]
  | .unary op e _ => by simp [eraseExpr, inferExpr, inferExpr_erase env cur e]
  | .binary op l r _ => by
    simp [eraseExpr, inferExpr, inferExpr_erase env cur l, inferExpr_erase env cur r]
  | .call (.var fname _ _) _ _ _ => by
    simp only [eraseExpr, inferExpr, lookupFn_eraseEnv]
    cases GlobalB.ofName fname with
    | some g => rfl
    | none => cases lookupFn env fname <;> rfl
  | .call (.member obj field _ _) _ _ _ => by
    simp only [eraseExpr, inferExpr, inferExpr_erase env cur obj]
  | .call (.num _ _) _ _ _ => by simp [eraseExpr, inferExpr]
  | .call (.str _ _) _ _ _ => by simp [eraseExpr, inferExpr]
  | .call (.bool _ _) _ _ _ => by simp [eraseExpr, inferExpr]
  | .call (.null _) _ _ _ => by simp [eraseExpr, inferExpr]
  | .call (.array _ _) _ _ _ => by simp [eraseExpr, inferExpr]
  | .call (.index _ _ _ _) _ _ _ => by simp [eraseExpr, inferExpr]
  | .call (.unary _ _ _) _ _ _ => by simp [eraseExpr, inferExpr]
  | .call (.binary _ _ _ _) _ _ _ => by simp [eraseExpr, inferExpr]
  | .call (.call _ _ _ _) _ _ _ => by simp [eraseExpr, inferExpr]

theorem inferExprSh_erase (sh : Shadow) (env : Env) (cur : Scope) :
    ∀ e : Expr, inferExprSh sh (eraseEnv env) cur (eraseExpr e) = inferExprSh sh env cur e
  | .num _ _ => by simp [eraseExpr, inferExprSh]
  | .str _ _ => by simp [eraseExpr, inferExprSh]
  | .bool _ _ => by simp [eraseExpr, inferExprSh]
  | .null _ => by simp [eraseExpr, inferExprSh]
  | .array _ _ => by simp [eraseExpr, inferExprSh]
  | .index _ _ _ _ => by simp [eraseExpr, inferExprSh]
  | .member _ _ _ _ => by simp [eraseExpr, inferExprSh]
  | .var _ _ _ => by simp [eraseExpr, inferExprSh]
  | .unary op e _ => by simp [eraseExpr, inferExprSh, inferExprSh_erase sh env cur e]
  | .binary op l r _ => by
    simp [eraseExpr, inferExprSh, inferExprSh_erase sh env cur l, inferExprSh_erase sh env cur r]
  | .call (.var fname _ _) _ _ _ => by
    simp only [eraseExpr, inferExprSh, lookupFn_eraseEnv]
    cases GlobalB.ofName fname with
    | some g => rfl
    | none =>
      simp only []
      split
      · rfl
      · cases lookupFn env fname <;> rfl
  | .call (.member obj field _ _) _ _ _ => by
    simp only [eraseExpr, inferExprSh, inferExprSh_erase sh env cur obj]
  | .call (.num _ _) _ _ _ => by simp [eraseExpr, inferExprSh]
  | .call (.str _ _) _ _ _ => by simp [eraseExpr, inferExprSh]
  | .call (.bool _ _) _ _ _ => by simp [eraseExpr, inferExprSh]
  | .call (.null _) _ _ _ => by simp [eraseExpr, inferExprSh]
  | .call (.array _ _) _ _ _ => by simp [eraseExpr, inferExprSh]
  | .call (.index _ _ _ _) _ _ _ => by simp [eraseExpr, inferExprSh]
  | .call (.unary _ _ _) _ _ _ => by simp [eraseExpr, inferExprSh]
  | .call (.binary _ _ _ _) _ _ _ => by simp [eraseExpr, inferExprSh]
  | .call (.call _ _ _ _) _ _ _ => by simp [eraseExpr, inferExprSh]

theorem literalType_erase : ∀ e : Expr, literalType (eraseExpr e) = literalType e
  | .num _ _ => by simp [eraseExpr, literalType]
  | .str _ _ => by simp [eraseExpr, literalType]
  | .bool _ _ => by simp [eraseExpr, literalType]
  | .null _ => by simp [eraseExpr, literalType]
  | .unary op e _ => by simp [eraseExpr, literalType, literalType_erase e]
  | .binary op l r _ => by simp [eraseExpr, literalType, literalType_erase l, literalType_erase r]
  | .index _ _ _ _ => by simp [eraseExpr, literalType]
  | .var _ _ _ => by simp [eraseExpr, literalType]
  | .call _ _ _ _ => by simp [eraseExpr, literalType]
  | .array _ _ => by simp [eraseExpr, literalType]
  | .member _ _ _ _ => by simp [eraseExpr, literalType]

@[simp] theorem varReadClass_eraseEnv (env : Env) (cur : Scope) (fx : Facts) (v : Bytes) :
    varReadClass (eraseEnv env) cur fx v = varReadClass env cur fx v := rfl

@[simp] theorem segsClass_eraseEnv (env : Env) (cur : Scope) (fx : Facts) (segs : List Seg) :
    Resolve.segsClass (eraseEnv env) cur fx segs = Resolve.segsClass env cur fx segs := by
  induction segs with
  | nil => rfl
  | cons s ss ih => cases s <;> simp [Resolve.segsClass, ih]

theorem head?_eraseExprs (es : List Expr) :
    (eraseExprs es).head?.bind literalType = es.head?.bind literalType := by
  cases es with
  | nil => rfl
  | cons e es => simp [eraseExprs, literalType_erase]

mutual
theorem classifyExpr_erase (env : Env) (cur : Scope) (fx : Facts) :
    ∀ e : Expr, classifyExpr (eraseEnv env) cur fx (eraseExpr e) = classifyExpr env cur fx e
  | .num _ _ => by simp [eraseExpr, classifyExpr]
  | .bool _ _ => by simp [eraseExpr, classifyExpr]
  | .null _ => by simp [eraseExpr, classifyExpr]
  | .str (.static _) _ => by simp [eraseExpr, classifyExpr]
  | .str (.interp _) _ => by simp [eraseExpr, classifyExpr]
  | .var _ _ _ => by simp [eraseExpr, classifyExpr]
  | .array es _ => by simp [eraseExpr, classifyExpr, classifyExprs_erase env cur fx es]
  | .index a i _ _ => by
    simp [eraseExpr, classifyExpr, classifyExpr_erase env cur fx a, classifyExpr_erase env cur fx i]
  | .binary op l r s => by
    have h := literalType_erase (.binary op l r s)
    simp only [eraseExpr] at h
    simp only [eraseExpr, classifyExpr, classifyExpr_erase env cur fx l, classifyExpr_erase env cur fx r, h]
  | .unary op e s => by
    have h := literalType_erase (.unary op e s)
    simp only [eraseExpr] at h
    simp only [eraseExpr, classifyExpr, classifyExpr_erase env cur fx e, h]
  | .member o _ _ _ => by simp [eraseExpr, classifyExpr, classifyExpr_erase env cur fx o]
  | .call (.var fname _ _) args _ _ => by
    simp only [eraseExpr, classifyExpr, classifyExprs_erase env cur fx args, head?_eraseExprs,
      lookupFn_eraseEnv, Option.isNone_map]
  | .call (.member obj field _ _) args _ _ => by
    simp only [eraseExpr, classifyExpr, classifyExprs_erase env cur fx args,
      classifyExpr_erase env cur fx obj]
  | .call (.num _ _) args _ _ => by simp [eraseExpr, classifyExpr, classifyExprs_erase env cur fx args]
  | .call (.str _ _) args _ _ => by simp [eraseExpr, classifyExpr, classifyExprs_erase env cur fx args]
  | .call (.bool _ _) args _ _ => by simp [eraseExpr, classifyExpr, classifyExprs_erase env cur fx args]
  | .call (.null _) args _ _ => by simp [eraseExpr, classifyExpr, classifyExprs_erase env cur fx args]
  | .call (.array _ _) args _ _ => by simp [eraseExpr, classifyExpr, classifyExprs_erase env cur fx args]
  | .call (.index _ _ _ _) args _ _ => by simp [eraseExpr, classifyExpr, classifyExprs_erase env cur fx args]
  | .call (.unary _ _ _) args _ _ => by simp [eraseExpr, classifyExpr, classifyExprs_erase env cur fx args]
  | .call (.binary _ _ _ _) args _ _ => by simp [eraseExpr, classifyExpr, classifyExprs_erase env cur fx args]
  | .call (.call _ _ _ _) args _ _ => by simp [eraseExpr, classifyExpr, classifyExprs_erase env cur fx args]
theorem classifyExprs_erase (env : Env) (cur : Scope) (fx : Facts) :
    ∀ es : List Expr, classifyExprs (eraseEnv env) cur fx (eraseExprs es) = classifyExprs env cur fx es
  | [] => by simp [eraseExprs, classifyExprs]
  | e :: es => by
    simp [eraseExprs, classifyExprs, classifyExpr_erase env cur fx e, classifyExprs_erase env cur fx es]
end

theorem condClass_erase (env : Env) (cur : Scope) (fx : Facts) (c : Expr) :
    Resolve.condClass (eraseEnv env) cur fx (eraseExpr c) = Resolve.condClass env cur fx c := by
  simp only [Resolve.condClass, classifyExpr_erase, literalType_erase]

theorem exprRootLocal_erase (env : Env) (cur : Scope) :
    ∀ e : Expr, exprRootLocal (eraseEnv env) cur (eraseExpr e) = exprRootLocal env cur e
  | .var _ _ _ => by simp [eraseExpr, exprRootLocal]
  | .index a _ _ _ => by simp [eraseExpr, exprRootLocal, exprRootLocal_erase env cur a]
  | .member o _ _ _ => by simp [eraseExpr, exprRootLocal, exprRootLocal_erase env cur o]
  | .num _ _ => by simp [eraseExpr, exprRootLocal]
  | .str _ _ => by simp [eraseExpr, exprRootLocal]
  | .bool _ _ => by simp [eraseExpr, exprRootLocal]
  | .null _ => by simp [eraseExpr, exprRootLocal]
  | .array _ _ => by simp [eraseExpr, exprRootLocal]
  | .unary _ _ _ => by simp [eraseExpr, exprRootLocal]
  | .binary _ _ _ _ => by simp [eraseExpr, exprRootLocal]
  | .call _ _ _ _ => by simp [eraseExpr, exprRootLocal]

theorem isVarRooted_erase : ∀ e : Expr, isVarRooted (eraseExpr e) = isVarRooted e
  | .var _ _ _ => by simp [eraseExpr, isVarRooted]
  | .index a _ _ _ => by simp [eraseExpr, isVarRooted, isVarRooted_erase a]
  | .member o _ _ _ => by simp [eraseExpr, isVarRooted, isVarRooted_erase o]
  | .num _ _ => by simp [eraseExpr, isVarRooted]
  | .str _ _ => by simp [eraseExpr, isVarRooted]
  | .bool _ _ => by simp [eraseExpr, isVarRooted]
  | .null _ => by simp [eraseExpr, isVarRooted]
  | .array _ _ => by simp [eraseExpr, isVarRooted]
  | .unary _ _ _ => by simp [eraseExpr, isVarRooted]
  | .binary _ _ _ _ => by simp [eraseExpr, isVarRooted]
  | .call _ _ _ _ => by simp [eraseExpr, isVarRooted]


/-! ### `check_expr` -/

def eraseOutE (r : Out Expr) : Out Expr := ⟨eraseExpr r.val, r.ds.map eraseRD, r.facts⟩
def eraseOutEs (r : Out (List Expr)) : Out (List Expr) := ⟨eraseExprs r.val, r.ds.map eraseRD, r.facts⟩

theorem checkSegs_erase (env : Env) (cur : Scope) (sid : Nat) (sp : Span) :
    ∀ (segs : List Seg) (f : Facts),
      checkSegs (eraseEnv env) cur sid zspan segs f
        = ⟨(checkSegs env cur sid sp segs f).val, (checkSegs env cur sid sp segs f).ds.map eraseRD,
           (checkSegs env cur sid sp segs f).facts⟩
  | [], f => by simp [checkSegs]
  | .lit s :: rest, f => by
    simp only [checkSegs, checkSegs_erase env cur sid sp rest f]
  | .var n b :: rest, f => by
    simp only [checkSegs, lookupVar_eraseEnv, eraseEnv_owner]
    cases lookupVar env cur n with
    | some e => simp only [checkSegs_erase env cur sid sp rest]
    | none => simp only [checkSegs_erase env cur sid sp rest f, List.map_cons, eraseRD_at]

theorem argLoop_erase (env : Env) (cur : Scope) (P : Option VType → Bool) (r : Rule) (ms : Span)
    (n : Nat) (args : List Expr) :
    (((eraseExprs args).take n).map fun a =>
        errIf (P (inferExpr (eraseEnv env) cur a)) (RDiag.at r zspan)).flatten
      = (((args.take n).map fun a => errIf (P (inferExpr env cur a)) (RDiag.at r ms)).flatten).map eraseRD := by
  simp [eraseExprs_eq_map, ← List.map_take, List.map_flatten, List.map_map, Function.comp_def,
    inferExpr_erase]

theorem argDiags_erase (env : Env) (cur : Scope) (ck : ArgCheck) (args : List Expr) (ms : Span) :
    argDiags (eraseEnv env) cur ck (eraseExprs args) zspan
      = (argDiags env cur ck args ms).map eraseRD := by
  cases ck <;> simp only [argDiags, eraseExprs_length, List.map_nil]
  · exact argLoop_erase env cur (fun t => !stringArgOk t) _ ms 1 args
  · split
    · exact argLoop_erase env cur (fun t => !stringArgOk t) _ ms 1 args
    · rfl
  · exact argLoop_erase env cur (fun t => !numberArgOk t) _ ms 1 args
  · exact argLoop_erase env cur (fun t => !stringArgOk t) _ ms 2 args
  · exact argLoop_erase env cur (fun t => !numberArgOk t) _ ms 2 args

theorem checkMethod_erase (env : Env) (cur : Scope) (sid : Nat) (rt : VType) (obj : Expr)
    (field : Bytes) (args : List Expr) (ms : Span) (f : Facts) :
    checkMethod (eraseEnv env) cur sid rt (eraseExpr obj) field (eraseExprs args) zspan f
      = ((checkMethod env cur sid rt obj field args ms f).1.map eraseRD,
         (checkMethod env cur sid rt obj field args ms f).2) := by
  simp only [checkMethod, exprRootLocal_erase, eraseEnv_owner, eraseExprs_length, argDiags_erase env cur _ args ms]
  cases (MemberKind.ofType rt).bind (fun k => memberOf k field) with
  | none => simp
  | some m => simp



/-- A callee that is neither a name nor a method. -/
def calleeOther : Expr → Bool
  | .var _ _ _ => false
  | .member _ _ _ _ => false
  | _ => true

theorem calleeOther_erase (c : Expr) : calleeOther (eraseExpr c) = calleeOther c := by
  cases c <;> simp [eraseExpr, calleeOther]

theorem eraseExpr_call (c : Expr) (args : List Expr) (fn : Option Nat) (s : Span) :
    eraseExpr (.call c args fn s) = .call (eraseExpr c) (eraseExprs args) fn zspan := by
  simp [eraseExpr]

theorem checkExpr_call_other (env : Env) (cur : Scope) (sid : Nat) (c : Expr) (args : List Expr)
    (fn : Option Nat) (s : Span) (f : Facts) (h : calleeOther c = true) :
    checkExpr env cur sid (.call c args fn s) f =
      ⟨.call (checkExpr env cur sid c f).val
          (checkExprs env cur sid args (checkExpr env cur sid c f).facts).val none s,
        (checkExpr env cur sid c f).ds ++ [RDiag.at .badCallee s]
          ++ (checkExprs env cur sid args (checkExpr env cur sid c f).facts).ds,
        (checkExprs env cur sid args (checkExpr env cur sid c f).facts).facts⟩ := by
  cases c <;> first | (simp [calleeOther] at h; done) | simp only [checkExpr]

theorem checkExpr_erase_call_other (env : Env) (cur : Scope) (sid : Nat) (c : Expr) (args : List Expr)
    (fn : Option Nat) (s : Span) (h : calleeOther c = true)
    (ihc : ∀ f, checkExpr (eraseEnv env) cur sid (eraseExpr c) f = eraseOutE (checkExpr env cur sid c f))
    (iha : ∀ f, checkExprs (eraseEnv env) cur sid (eraseExprs args) f
      = eraseOutEs (checkExprs env cur sid args f)) (f : Facts) :
    checkExpr (eraseEnv env) cur sid (eraseExpr (.call c args fn s)) f
      = eraseOutE (checkExpr env cur sid (.call c args fn s) f) := by
  rw [eraseExpr_call, checkExpr_call_other _ _ _ _ _ _ _ _ ((calleeOther_erase c).trans h),
    checkExpr_call_other _ _ _ _ _ _ _ _ h]
  simp only [ihc, iha, eraseOutE, eraseOutEs, eraseExpr_call, List.map_append, List.map_cons, List.map_nil,
    eraseRD_at]

mutual
theorem checkExpr_erase (env : Env) (cur : Scope) (sid : Nat) : ∀ (e : Expr) (f : Facts),
    checkExpr (eraseEnv env) cur sid (eraseExpr e) f = eraseOutE (checkExpr env cur sid e f)
  | .num _ _, f => by simp [eraseExpr, checkExpr, eraseOutE]
  | .bool _ _, f => by simp [eraseExpr, checkExpr, eraseOutE]
  | .null _, f => by simp [eraseExpr, checkExpr, eraseOutE]
  | .str (.static _) _, f => by simp [eraseExpr, checkExpr, eraseOutE]
  | .str (.interp segs) s, f => by
    simp only [eraseExpr, checkExpr, eraseOutE, checkSegs_erase env cur sid s segs f]
  | .array es s, f => by
    simp only [eraseExpr, checkExpr, eraseOutE, checkExprs_erase env cur sid es f, eraseOutEs]
  | .index a i isp s, f => by
    simp only [eraseExpr, checkExpr, eraseOutE, checkExpr_erase env cur sid a f,
      checkExpr_erase env cur sid i, inferExpr_erase, List.map_append, map_eraseRD_errIf, eraseRD_at]
  | .var v _ s, f => by
    simp only [eraseExpr, checkExpr, eraseOutE, lookupVar_eraseEnv, eraseEnv_owner]
    cases lookupVar env cur v <;> simp [eraseExpr]
  | .binary op l r s, f => by
    simp only [eraseExpr, checkExpr, eraseOutE, checkExpr_erase env cur sid l f,
      checkExpr_erase env cur sid r, inferExpr_erase, List.map_append, map_eraseRD_errIf, eraseRD_at]
  | .unary op e s, f => by
    simp only [eraseExpr, checkExpr, eraseOutE, checkExpr_erase env cur sid e f,
      inferExpr_erase, List.map_append, map_eraseRD_errIf, eraseRD_at]
  | .member o fld fs s, f => by
    simp only [eraseExpr, checkExpr, eraseOutE, checkExpr_erase env cur sid o f,
      List.map_append, List.map_cons, List.map_nil, eraseRD_at]
  | .call (.var fname vb vs) args fn s, f => by
    simp only [eraseExpr, checkExpr, lookupFn_eraseEnv, eraseEnv_owner, eraseExprs_length]
    cases hg : GlobalB.ofName fname with
    | some g =>
      simp only [eraseOutE, checkExprs_erase env cur sid args f, eraseOutEs, eraseExpr,
        List.map_append, map_eraseRD_errIf, eraseRD_at]
      congr 2
      cases g <;> cases args <;> simp [eraseExprs, inferExpr_erase]
    | none =>
      cases hl : lookupFn env fname with
      | some g =>
        simp only [Option.map_some, eraseOutE, eraseExpr, List.map_append, map_eraseRD_errIf, eraseRD_at]
        have : (eraseSig g).id = g.id := rfl
        have h2 : (eraseSig g).arity = g.arity := rfl
        simp only [this, h2, checkExprs_erase env cur sid args, eraseOutEs]
      | none =>
        simp only [Option.map_none, eraseOutE, eraseExpr, checkExprs_erase env cur sid args f, eraseOutEs,
          List.map_cons, eraseRD_at]
  | .call (.member obj field fs ms) args fn s, f => by
    simp only [eraseExpr, checkExpr, checkExpr_erase env cur sid obj f, inferExpr_erase, eraseOutE]
    cases inferExpr env cur obj with
    | none =>
      simp only [checkExprs_erase env cur sid args, eraseOutEs, List.map_append, List.map_nil]
    | some rt =>
      simp only [checkMethod_erase env cur sid rt obj field args ms, checkExprs_erase env cur sid args,
        eraseOutEs, List.map_append]
  | .call (.num l cs) args fn s, f =>
    checkExpr_erase_call_other env cur sid (.num l cs) args fn s rfl
      (checkExpr_erase env cur sid (.num l cs)) (checkExprs_erase env cur sid args) f
  | .call (.str p cs) args fn s, f =>
    checkExpr_erase_call_other env cur sid (.str p cs) args fn s rfl
      (checkExpr_erase env cur sid (.str p cs)) (checkExprs_erase env cur sid args) f
  | .call (.bool b cs) args fn s, f =>
    checkExpr_erase_call_other env cur sid (.bool b cs) args fn s rfl
      (checkExpr_erase env cur sid (.bool b cs)) (checkExprs_erase env cur sid args) f
  | .call (.null cs) args fn s, f =>
    checkExpr_erase_call_other env cur sid (.null cs) args fn s rfl
      (checkExpr_erase env cur sid (.null cs)) (checkExprs_erase env cur sid args) f
  | .call (.array es cs) args fn s, f =>
    checkExpr_erase_call_other env cur sid (.array es cs) args fn s rfl
      (checkExpr_erase env cur sid (.array es cs)) (checkExprs_erase env cur sid args) f
  | .call (.index a i isp cs) args fn s, f =>
    checkExpr_erase_call_other env cur sid (.index a i isp cs) args fn s rfl
      (checkExpr_erase env cur sid (.index a i isp cs)) (checkExprs_erase env cur sid args) f
  | .call (.unary op x cs) args fn s, f =>
    checkExpr_erase_call_other env cur sid (.unary op x cs) args fn s rfl
      (checkExpr_erase env cur sid (.unary op x cs)) (checkExprs_erase env cur sid args) f
  | .call (.binary op l r cs) args fn s, f =>
    checkExpr_erase_call_other env cur sid (.binary op l r cs) args fn s rfl
      (checkExpr_erase env cur sid (.binary op l r cs)) (checkExprs_erase env cur sid args) f
  | .call (.call c as fn' cs) args fn s, f =>
    checkExpr_erase_call_other env cur sid (.call c as fn' cs) args fn s rfl
      (checkExpr_erase env cur sid (.call c as fn' cs)) (checkExprs_erase env cur sid args) f
theorem checkExprs_erase (env : Env) (cur : Scope) (sid : Nat) : ∀ (es : List Expr) (f : Facts),
    checkExprs (eraseEnv env) cur sid (eraseExprs es) f = eraseOutEs (checkExprs env cur sid es f)
  | [], f => by simp [eraseExprs, checkExprs, eraseOutEs]
  | e :: es, f => by
    simp only [eraseExprs, checkExprs, eraseOutEs, checkExpr_erase env cur sid e f, eraseOutE,
      checkExprs_erase env cur sid es, List.map_append]
end


/-! ### Pre-declaration and return types -/

theorem eraseStmts_eq_map (ss : List Stmt) : eraseStmts ss = ss.map eraseStmt := by
  induction ss with
  | nil => rfl
  | cons s ss ih => simp [eraseStmts, ih]

mutual
theorem collectRets_erase (sh : Shadow) (env : Env) (cur : Scope) :
    ∀ s : Stmt, collectRets sh (eraseEnv env) cur (eraseStmt s) = collectRets sh env cur s
  | .ret (some e) _ _ => by simp [eraseStmt, collectRets, inferExprSh_erase]
  | .ret none _ _ => by simp [eraseStmt, collectRets]
  | .ifS _ t none _ _ => by
    simp [eraseStmt, collectRets, collectRetsO, collectRetsB_erase sh env cur t]
  | .ifS _ t (some e) _ _ => by
    simp [eraseStmt, collectRets, collectRetsO, collectRetsB_erase sh env cur t, collectRetsB_erase sh env cur e]
  | .loop _ b _ _ => by simp [eraseStmt, collectRets, collectRetsB_erase sh env cur b]
  | .block b _ _ => by simp [eraseStmt, collectRets, collectRetsB_erase sh env cur b]
  | .fnDef _ _ _ _ _ _ _ => by simp [eraseStmt, collectRets]
  | .assign _ _ _ _ _ _ => by simp [eraseStmt, collectRets]
  | .assignExisting _ _ _ _ _ _ => by simp [eraseStmt, collectRets]
  | .assignIndex _ _ _ _ => by simp [eraseStmt, collectRets]
  | .brk _ _ => by simp [eraseStmt, collectRets]
  | .cont _ _ => by simp [eraseStmt, collectRets]
  | .expr _ _ _ => by simp [eraseStmt, collectRets]
theorem collectRetsL_erase (sh : Shadow) (env : Env) (cur : Scope) :
    ∀ ss : List Stmt, collectRetsL sh (eraseEnv env) cur (eraseStmts ss) = collectRetsL sh env cur ss
  | [] => by simp [eraseStmts, collectRetsL]
  | s :: ss => by
    simp [eraseStmts, collectRetsL, collectRets_erase sh env cur s, collectRetsL_erase sh env cur ss]
theorem collectRetsB_erase (sh : Shadow) (env : Env) (cur : Scope) :
    ∀ b : Block, collectRetsB sh (eraseEnv env) cur (eraseBlock b) = collectRetsB sh env cur b
  | .mk ss _ => by simp [eraseBlock, collectRetsB, collectRetsL_erase sh env cur ss]
end

mutual
theorem bodyNames_erase (fns : Bool) : ∀ s : Stmt, bodyNames fns (eraseStmt s) = bodyNames fns s
  | .ifS _ t none _ _ => by simp [eraseStmt, bodyNames, bodyNamesO, bodyNamesB_erase fns t]
  | .ifS _ t (some e) _ _ => by
    simp [eraseStmt, bodyNames, bodyNamesO, bodyNamesB_erase fns t, bodyNamesB_erase fns e]
  | .loop _ b _ _ => by simp [eraseStmt, bodyNames, bodyNamesB_erase fns b]
  | .block b _ _ => by simp [eraseStmt, bodyNames, bodyNamesB_erase fns b]
  | .fnDef _ _ _ _ _ _ _ => by simp [eraseStmt, bodyNames]
  | .assign _ _ _ _ _ _ => by simp [eraseStmt, bodyNames]
  | .assignExisting _ _ _ _ _ _ => by simp [eraseStmt, bodyNames]
  | .assignIndex _ _ _ _ => by simp [eraseStmt, bodyNames]
  | .ret none _ _ => by simp [eraseStmt, bodyNames]
  | .ret (some _) _ _ => by simp [eraseStmt, bodyNames]
  | .brk _ _ => by simp [eraseStmt, bodyNames]
  | .cont _ _ => by simp [eraseStmt, bodyNames]
  | .expr _ _ _ => by simp [eraseStmt, bodyNames]
theorem bodyNamesL_erase (fns : Bool) : ∀ ss : List Stmt, bodyNamesL fns (eraseStmts ss) = bodyNamesL fns ss
  | [] => by simp [eraseStmts, bodyNamesL]
  | s :: ss => by simp [eraseStmts, bodyNamesL, bodyNames_erase fns s, bodyNamesL_erase fns ss]
theorem bodyNamesB_erase (fns : Bool) : ∀ b : Block, bodyNamesB fns (eraseBlock b) = bodyNamesB fns b
  | .mk ss _ => by simp [eraseBlock, bodyNamesB, bodyNamesL_erase fns ss]
end

theorem ownMakes_erase : ∀ ss : List Stmt, ownMakes (eraseStmts ss) = ownMakes ss
  | [] => rfl
  | .fnDef _ _ _ _ _ _ _ :: ss => by simp [eraseStmts, eraseStmt, ownMakes, ownMakes_erase ss]
  | .assign _ _ _ _ _ _ :: ss => by simp [eraseStmts, eraseStmt, ownMakes, ownMakes_erase ss]
  | .assignExisting _ _ _ _ _ _ :: ss => by simp [eraseStmts, eraseStmt, ownMakes, ownMakes_erase ss]
  | .assignIndex _ _ _ _ :: ss => by simp [eraseStmts, eraseStmt, ownMakes, ownMakes_erase ss]
  | .ifS _ _ none _ _ :: ss => by simp [eraseStmts, eraseStmt, ownMakes, ownMakes_erase ss]
  | .ifS _ _ (some _) _ _ :: ss => by simp [eraseStmts, eraseStmt, ownMakes, ownMakes_erase ss]
  | .loop _ _ _ _ :: ss => by simp [eraseStmts, eraseStmt, ownMakes, ownMakes_erase ss]
  | .block _ _ _ :: ss => by simp [eraseStmts, eraseStmt, ownMakes, ownMakes_erase ss]
  | .ret none _ _ :: ss => by simp [eraseStmts, eraseStmt, ownMakes, ownMakes_erase ss]
  | .ret (some _) _ _ :: ss => by simp [eraseStmts, eraseStmt, ownMakes, ownMakes_erase ss]
  | .brk _ _ :: ss => by simp [eraseStmts, eraseStmt, ownMakes, ownMakes_erase ss]
  | .cont _ _ :: ss => by simp [eraseStmts, eraseStmt, ownMakes, ownMakes_erase ss]
  | .expr _ _ _ :: ss => by simp [eraseStmts, eraseStmt, ownMakes, ownMakes_erase ss]

theorem shadowOf_erase (env : Env) (makes : List Bytes) (ps : List Param) (body : Block) :
    shadowOf (eraseEnv env) makes (ps.map eraseParam) (eraseBlock body) = shadowOf env makes ps body := by
  simp [shadowOf, bodyNamesB_erase, List.map_map, Function.comp_def, eraseParam]

theorem inferRet_erase (env : Env) (sh : Shadow) (body : Block) :
    inferRet (eraseEnv env) sh (eraseBlock body) = inferRet env sh body := by
  simp [inferRet, collectRetsB_erase]

theorem paramDiags_erase : ∀ (seen : List Bytes) (ps : List Param),
    paramDiags seen (ps.map eraseParam) = (paramDiags seen ps).map eraseRD
  | _, [] => rfl
  | seen, p :: ps => by
    simp [paramDiags, paramDiags_erase _ ps, eraseParam]

def erasePB (b : List Param × Block) : List Param × Block := (b.1.map eraseParam, eraseBlock b.2)

def erasePre (r : Pre) : Pre := ⟨r.sigs.map eraseSig, r.bodies.map erasePB, r.ds.map eraseRD, r.facts⟩

theorem predeclare_erase (env : Env) : ∀ (ss : List Stmt) (sigs : List FnSig) (f : Facts),
    predeclare (eraseEnv env) (eraseStmts ss) (sigs.map eraseSig) f = erasePre (predeclare env ss sigs f)
  | [], sigs, f => by simp [eraseStmts, predeclare, erasePre]
  | .fnDef name nsp ps body _ _ _ :: rest, sigs, f => by
    simp only [eraseStmts, eraseStmt, predeclare, findFn_map, eraseEnv_owner, eraseEnv_scope,
      List.length_map]
    cases hf : findFn sigs name with
    | some ex =>
      simp only [Option.map_some, predeclare_erase env rest sigs f, erasePre, List.map_append,
        map_eraseRD_errIf, eraseRD_at, List.map_cons, List.map_nil]
      rfl
    | none =>
      have := predeclare_erase env rest (sigs ++ [⟨name, f.functions.length, ps.length, nsp, .dynamic⟩])
        (pushFunction f name ps.length env.owner env.scope)
      simp only [List.map_append, List.map_cons, List.map_nil] at this
      simp only [Option.map_none, erasePre, List.map_append, map_eraseRD_errIf, eraseRD_at,
        List.map_cons, paramDiags_erase]
      have e : eraseSig ⟨name, f.functions.length, ps.length, nsp, .dynamic⟩
          = ⟨name, f.functions.length, ps.length, zspan, .dynamic⟩ := rfl
      rw [e] at this
      simp only [this, erasePre, erasePB]
  | .assign _ _ _ _ _ _ :: rest, sigs, f => by
    simp only [eraseStmts, eraseStmt, predeclare, predeclare_erase env rest sigs f]
  | .assignExisting _ _ _ _ _ _ :: rest, sigs, f => by
    simp only [eraseStmts, eraseStmt, predeclare, predeclare_erase env rest sigs f]
  | .assignIndex _ _ _ _ :: rest, sigs, f => by
    simp only [eraseStmts, eraseStmt, predeclare, predeclare_erase env rest sigs f]
  | .ifS _ _ none _ _ :: rest, sigs, f => by
    simp only [eraseStmts, eraseStmt, predeclare, predeclare_erase env rest sigs f]
  | .ifS _ _ (some _) _ _ :: rest, sigs, f => by
    simp only [eraseStmts, eraseStmt, predeclare, predeclare_erase env rest sigs f]
  | .loop _ _ _ _ :: rest, sigs, f => by
    simp only [eraseStmts, eraseStmt, predeclare, predeclare_erase env rest sigs f]
  | .block _ _ _ :: rest, sigs, f => by
    simp only [eraseStmts, eraseStmt, predeclare, predeclare_erase env rest sigs f]
  | .ret none _ _ :: rest, sigs, f => by
    simp only [eraseStmts, eraseStmt, predeclare, predeclare_erase env rest sigs f]
  | .ret (some _) _ _ :: rest, sigs, f => by
    simp only [eraseStmts, eraseStmt, predeclare, predeclare_erase env rest sigs f]
  | .brk _ _ :: rest, sigs, f => by
    simp only [eraseStmts, eraseStmt, predeclare, predeclare_erase env rest sigs f]
  | .cont _ _ :: rest, sigs, f => by
    simp only [eraseStmts, eraseStmt, predeclare, predeclare_erase env rest sigs f]
  | .expr _ _ _ :: rest, sigs, f => by
    simp only [eraseStmts, eraseStmt, predeclare, predeclare_erase env rest sigs f]

theorem modifyAt_map {α β : Type} (g : α → β) (h : α → α) (h' : β → β) (hc : ∀ a, g (h a) = h' (g a)) :
    ∀ (l : List α) (i : Nat), modifyAt (l.map g) i h' = (modifyAt l i h).map g
  | [], _ => rfl
  | a :: as, 0 => by simp [modifyAt, hc]
  | a :: as, i + 1 => by simp [modifyAt, modifyAt_map g h h' hc as i]

theorem retPass_erase (env : Env) (makes : List Bytes) :
    ∀ (bs : List (List Param × Block)) (i : Nat) (sigs : List FnSig) (ch : Bool),
      retPass (eraseEnv env) makes (bs.map erasePB) i (sigs.map eraseSig) ch
        = ((retPass env makes bs i sigs ch).1.map eraseSig, (retPass env makes bs i sigs ch).2)
  | [], _, sigs, ch => by simp [retPass]
  | (ps, body) :: bs, i, sigs, ch => by
    simp only [List.map_cons, erasePB, retPass, eraseEnv_vars, eraseEnv_owner, eraseEnv_scope, eraseEnv_curFn,
      eraseEnv_inLoop, eraseEnv_spanLen, eraseEnv_shadowRet, eraseEnv_recovery, eraseEnv_fns,
      eraseFnScopes_cons, eraseEnv_mk, shadowOf_erase, inferRet_erase, List.getElem?_map]
    cases hs : sigs[i]? with
    | none => simp only [Option.map_none, retPass_erase env makes bs (i + 1) sigs ch]
    | some g =>
      have : (eraseSig g).ret = g.ret := rfl
      simp only [Option.map_some, this]
      split
      · exact retPass_erase env makes bs (i + 1) sigs ch
      · rw [modifyAt_map eraseSig (fun g => { g with ret := _ }) (fun g => { g with ret := _ }) (fun _ => rfl)]
        exact retPass_erase env makes bs (i + 1) _ true

theorem retIter_erase (env : Env) (makes : List Bytes) (bs : List (List Param × Block)) :
    ∀ (n : Nat) (sigs : List FnSig),
      retIter (eraseEnv env) makes (bs.map erasePB) n (sigs.map eraseSig)
        = (retIter env makes bs n sigs).map eraseSig
  | 0, sigs => rfl
  | n + 1, sigs => by
    simp only [retIter, retPass_erase]
    split
    · exact retIter_erase env makes bs n _
    · rfl


/-! ### `check_stmt`, `check_block` -/

def eraseSOut (r : SOut) : SOut := ⟨eraseStmt r.val, r.ds.map eraseRD, r.facts, r.cur⟩
def eraseSsOut (r : SsOut) : SsOut := ⟨eraseStmts r.val, r.ds.map eraseRD, r.facts, r.cur⟩
def eraseOutB (r : Out Block) : Out Block := ⟨eraseBlock r.val, r.ds.map eraseRD, r.facts⟩
def eraseOB : Option Block → Option Block
  | none => none
  | some b => some (eraseBlock b)
def eraseOutOB (r : Out (Option Block)) : Out (Option Block) := ⟨eraseOB r.val, r.ds.map eraseRD, r.facts⟩

theorem declareParams_erase (spanLen : Bool) (owner scope : Nat) :
    ∀ (ps : List Param) (sc : Scope) (f : Facts),
      declareParams spanLen owner scope (ps.map eraseParam) sc f
        = ((declareParams spanLen owner scope ps sc f).1.map eraseParam,
           (declareParams spanLen owner scope ps sc f).2.1, (declareParams spanLen owner scope ps sc f).2.2)
  | [], sc, f => rfl
  | p :: ps, sc, f => by
    simp only [List.map_cons, declareParams, declareParams_erase spanLen owner scope ps]
    rfl

theorem eraseStmt_ifS (c : Expr) (t : Block) (e : Option Block) (sid : Option Nat) (sp : Span) :
    eraseStmt (.ifS c t e sid sp) = .ifS (eraseExpr c) (eraseBlock t) (eraseOB e) sid zspan := by
  cases e <;> simp [eraseStmt, eraseOB]

theorem eraseStmt_ret (e : Option Expr) (sid : Option Nat) (sp : Span) :
    eraseStmt (.ret e sid sp) = .ret (e.map eraseExpr) sid zspan := by
  cases e <;> simp [eraseStmt]



mutual
theorem checkStmt_erase (env : Env) (cur : Cur) : ∀ (s : Stmt) (f0 : Facts),
    checkStmt (eraseEnv env) cur (eraseStmt s) f0 = eraseSOut (checkStmt env cur s f0)
  | .assign x xs e b sid sp, f0 => by
    simp only [eraseStmt, checkStmt, eraseSOut, checkExpr_erase, eraseOutE, classifyExpr_erase,
      inferExpr_erase, eraseEnv_owner, eraseEnv_scope, eraseEnv_spanLen]
    cases findVar cur.vars x <;>
      simp only [eraseStmt, List.map_append, map_eraseRD_errIf, eraseRD_at]
  | .assignExisting x xs e b sid sp, f0 => by
    simp only [eraseStmt, checkStmt, eraseSOut, lookupVar_eraseEnv, eraseEnv_owner, eraseEnv_scope]
    cases lookupVar env cur.vars x <;>
      simp only [eraseStmt, checkExpr_erase, eraseOutE, classifyExpr_erase, List.map_cons, eraseRD_at]
  | .assignIndex t e sid sp, f0 => by
    simp only [eraseStmt, checkStmt, eraseSOut, checkExpr_erase, eraseOutE, exprRootLocal_erase,
      isVarRooted_erase, eraseEnv_owner, eraseEnv_scope, List.map_append, map_eraseRD_errIf, eraseRD_at]
  | .ifS c t e sid sp, f0 => by
    rw [eraseStmt_ifS]
    simp only [checkStmt, eraseSOut, checkExpr_erase, eraseOutE, inferExpr_erase, condClass_erase,
      eraseExpr_span, eraseEnv_vars, eraseEnv_owner, eraseEnv_scope, eraseEnv_curFn,
      eraseEnv_inLoop, eraseEnv_spanLen, eraseEnv_shadowRet, eraseEnv_recovery, eraseEnv_fns, eraseEnv_mk,
      checkBlock_erase _ _ t, eraseOutB,
      checkOptBlock_erase _ _ e, eraseOutOB, eraseStmt_ifS, List.map_append, map_eraseRD_errIf, eraseRD_at]
  | .loop c b sid sp, f0 => by
    simp only [eraseStmt, checkStmt, eraseSOut, checkExpr_erase, eraseOutE, inferExpr_erase, condClass_erase,
      eraseExpr_span, eraseEnv_vars, eraseEnv_owner, eraseEnv_scope, eraseEnv_curFn,
      eraseEnv_inLoop, eraseEnv_spanLen, eraseEnv_shadowRet, eraseEnv_recovery, eraseEnv_fns, eraseEnv_mk,
      checkBlock_erase _ _ b, eraseOutB,
      List.map_append, map_eraseRD_errIf, eraseRD_at]
  | .block b sid sp, f0 => by
    simp only [eraseStmt, checkStmt, eraseSOut, eraseEnv_vars, eraseEnv_owner, eraseEnv_scope, eraseEnv_curFn,
      eraseEnv_inLoop, eraseEnv_spanLen, eraseEnv_shadowRet, eraseEnv_recovery, eraseEnv_fns, eraseEnv_mk,
      checkBlock_erase _ _ b, eraseOutB]
  | .fnDef name nsp ps body fn sid sp, f0 => by
    simp only [eraseStmt, checkStmt, eraseEnv_owner, eraseEnv_scope, eraseEnv_fns, eraseEnv_spanLen,
      declareParams_erase]
    cases hc : cur.seenFns.contains name with
    | true => simp only [if_true, eraseSOut, eraseStmt, List.map_nil]
    | false =>
      simp only [Bool.false_eq_true, if_false]
      cases hfn : env.fns with
      | nil => simp only [eraseFnScopes, List.map_nil, eraseSOut, eraseStmt]
      | cons own rest =>
        simp only [show eraseFnScopes (own :: rest) = own.map eraseSig :: eraseFnScopes rest from rfl,
          findFn_map]
        cases findFn own name with
        | none => simp only [Option.map_none, eraseSOut, eraseStmt, List.map_nil]
        | some g =>
          have hid : (eraseSig g).id = g.id := rfl
          simp only [Option.map_some, hid, eraseSOut, eraseStmt, eraseEnv_vars, eraseEnv_shadowRet,
            eraseEnv_recovery, eraseFnScopes_cons, eraseEnv_mk, checkBlock_erase _ _ body, eraseOutB, ← hfn]
  | .ret e sid sp, f0 => by
    rw [eraseStmt_ret]
    cases e with
    | none => simp only [Option.map_none, checkStmt, eraseSOut, eraseStmt, eraseEnv_owner, eraseEnv_scope,
        eraseEnv_curFn, map_eraseRD_errIf, eraseRD_at]
    | some e =>
      simp only [Option.map_some, checkStmt, eraseSOut, eraseStmt, eraseEnv_owner, eraseEnv_scope,
        eraseEnv_curFn, checkExpr_erase, eraseOutE, classifyExpr_erase, List.map_append,
        map_eraseRD_errIf, eraseRD_at]
  | .brk sid sp, f0 => by
    simp only [eraseStmt, checkStmt, eraseSOut, eraseEnv_owner, eraseEnv_scope, eraseEnv_inLoop,
      map_eraseRD_errIf, eraseRD_at]
  | .cont sid sp, f0 => by
    simp only [eraseStmt, checkStmt, eraseSOut, eraseEnv_owner, eraseEnv_scope, eraseEnv_inLoop,
      map_eraseRD_errIf, eraseRD_at]
  | .expr e sid sp, f0 => by
    simp only [eraseStmt, checkStmt, eraseSOut, eraseEnv_owner, eraseEnv_scope, checkExpr_erase, eraseOutE,
      classifyExpr_erase]
theorem checkStmts_erase (env : Env) (cur : Cur) : ∀ (ss : List Stmt) (f : Facts),
    checkStmts (eraseEnv env) cur (eraseStmts ss) f = eraseSsOut (checkStmts env cur ss f)
  | [], f => by simp [eraseStmts, checkStmts, eraseSsOut]
  | s :: ss, f => by
    simp only [eraseStmts, checkStmts, eraseSsOut, checkStmt_erase env cur s f, eraseSOut,
      checkStmts_erase env _ ss, List.map_append]
theorem checkBlock_erase (env : Env) (parent : Option Nat) : ∀ (b : Block) (f : Facts),
    checkBlock (eraseEnv env) parent (eraseBlock b) f = eraseOutB (checkBlock env parent b f)
  | .mk ss sp, f => by
    have hpre : ∀ (env : Env) (f : Facts),
        predeclare (eraseEnv env) (eraseStmts ss) [] f = erasePre (predeclare env ss [] f) :=
      fun env f => predeclare_erase env ss [] f
    simp only [eraseBlock, checkBlock, eraseOutB, eraseEnv_vars, eraseEnv_owner, eraseEnv_curFn,
      eraseEnv_inLoop, eraseEnv_spanLen, eraseEnv_shadowRet, eraseEnv_recovery, eraseEnv_fns, eraseEnv_mk,
      hpre, erasePre, List.length_map, ownMakes_erase, retIter_erase, eraseFnScopes_cons,
      checkStmts_erase _ _ ss, eraseSsOut, List.map_append]
    rfl
theorem checkOptBlock_erase (env : Env) (parent : Option Nat) : ∀ (b : Option Block) (f : Facts),
    checkOptBlock (eraseEnv env) parent (eraseOB b) f = eraseOutOB (checkOptBlock env parent b f)
  | none, f => by simp [eraseOB, checkOptBlock, eraseOutOB]
  | some b, f => by
    simp only [eraseOB, checkOptBlock, eraseOutOB, checkBlock_erase env parent b f, eraseOutB]
end


/-! ### The entry point -/

theorem eraseEnv_rootEnv (spanLen : Bool) : eraseEnv (rootEnv spanLen) = rootEnv spanLen := rfl

/-- The resolver on the span-erased program: the span-erased annotated program, the same
diagnostics with their spans erased (same rules, same order, same number of labels), the same facts. -/
theorem resolveWith_erase (spanLen : Bool) (p : Block) :
    (resolveWith spanLen (eraseSpans p)).root = eraseSpans (resolveWith spanLen p).root ∧
    (resolveWith spanLen (eraseSpans p)).diags = (resolveWith spanLen p).diags.map eraseDiag ∧
    (resolveWith spanLen (eraseSpans p)).facts = (resolveWith spanLen p).facts ∧
    (resolveWith spanLen (eraseSpans p)).rdiags = (resolveWith spanLen p).rdiags.map eraseRD := by
  have h := checkBlock_erase (rootEnv spanLen) none p rootFacts
  rw [eraseEnv_rootEnv] at h
  simp only [resolveWith, eraseSpans, h, eraseOutB, List.map_map]
  refine ⟨trivial, ?_, trivial, trivial⟩
  apply List.map_congr_left
  intro d _
  exact eraseRD_toDiag d

theorem hasErrors_eraseDiag (ds : List Diag) : hasErrors (ds.map eraseDiag) = hasErrors ds := by
  simp [hasErrors, List.any_map, Function.comp_def, eraseDiag]

end NaijaVerif.SpanErase
