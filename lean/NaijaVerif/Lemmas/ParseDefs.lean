import NaijaVerif.Model.Parse
/-
Definitions shared by the parser theorems: span erasure of the AST / tokens / diagnostics, and the
list of all spans occurring in an AST.
-/
namespace NaijaVerif.Parse
open NaijaVerif

def zspan : Span := ⟨0, 0⟩

/-! ### Span erasure -/

mutual
  def eraseExpr : Expr → Expr
    | .index a i _ _ => .index (eraseExpr a) (eraseExpr i) zspan zspan
    | .str p _ => .str p zspan
    | .num l _ => .num l zspan
    | .var n b _ => .var n b zspan
    | .binary op l r _ => .binary op (eraseExpr l) (eraseExpr r) zspan
    | .call c args f _ => .call (eraseExpr c) (eraseExprs args) f zspan
    | .array es _ => .array (eraseExprs es) zspan
    | .unary op e _ => .unary op (eraseExpr e) zspan
    | .bool b _ => .bool b zspan
    | .member o f _ _ => .member (eraseExpr o) f zspan zspan
    | .null _ => .null zspan
  def eraseExprs : List Expr → List Expr
    | [] => []
    | e :: es => eraseExpr e :: eraseExprs es
end

def eraseParam (p : Param) : Param := { p with span := zspan }

mutual
  def eraseStmt : Stmt → Stmt
    | .fnDef n _ ps b f sid _ => .fnDef n zspan (ps.map eraseParam) (eraseBlock b) f sid zspan
    | .assign v _ e b sid _ => .assign v zspan (eraseExpr e) b sid zspan
    | .assignExisting v _ e b sid _ => .assignExisting v zspan (eraseExpr e) b sid zspan
    | .assignIndex t e sid _ => .assignIndex (eraseExpr t) (eraseExpr e) sid zspan
    | .ifS c t none sid _ => .ifS (eraseExpr c) (eraseBlock t) none sid zspan
    | .ifS c t (some e) sid _ => .ifS (eraseExpr c) (eraseBlock t) (some (eraseBlock e)) sid zspan
    | .loop c b sid _ => .loop (eraseExpr c) (eraseBlock b) sid zspan
    | .block b sid _ => .block (eraseBlock b) sid zspan
    | .ret none sid _ => .ret none sid zspan
    | .ret (some e) sid _ => .ret (some (eraseExpr e)) sid zspan
    | .brk sid _ => .brk sid zspan
    | .cont sid _ => .cont sid zspan
    | .expr e sid _ => .expr (eraseExpr e) sid zspan
  def eraseStmts : List Stmt → List Stmt
    | [] => []
    | s :: ss => eraseStmt s :: eraseStmts ss
  def eraseBlock : Block → Block
    | .mk ss _ => .mk (eraseStmts ss) zspan
end

/-- `eraseSpans` of a program. -/
abbrev eraseSpans (b : Block) : Block := eraseBlock b

def eraseTok (t : SpTok) : SpTok := ⟨t.tok, zspan⟩

/-- A diagnostic without positions: kind and severity, and the *number* of labels. -/
def eraseDiag (d : Diag) : Diag := { d with span := zspan, labels := d.labels.map fun _ => zspan }

def eraseSt (st : PState) : PState :=
  ⟨eraseTok st.cur, st.rest.map eraseTok, st.errs.map eraseDiag⟩

/-! ### All spans of an AST -/

mutual
  def exprSpans : Expr → List Span
    | .index a i s1 s2 => s1 :: s2 :: (exprSpans a ++ exprSpans i)
    | .str _ s => [s]
    | .num _ s => [s]
    | .var _ _ s => [s]
    | .binary _ l r s => s :: (exprSpans l ++ exprSpans r)
    | .call c args _ s => s :: (exprSpans c ++ exprsSpans args)
    | .array es s => s :: exprsSpans es
    | .unary _ e s => s :: exprSpans e
    | .bool _ s => [s]
    | .member o _ s1 s2 => s1 :: s2 :: exprSpans o
    | .null s => [s]
  def exprsSpans : List Expr → List Span
    | [] => []
    | e :: es => exprSpans e ++ exprsSpans es
end

mutual
  def stmtSpans : Stmt → List Span
    | .fnDef _ ns ps b _ _ s => ns :: s :: (ps.map (·.span) ++ blockSpans b)
    | .assign _ vs e _ _ s => vs :: s :: exprSpans e
    | .assignExisting _ vs e _ _ s => vs :: s :: exprSpans e
    | .assignIndex t e _ s => s :: (exprSpans t ++ exprSpans e)
    | .ifS c t none _ s => s :: (exprSpans c ++ blockSpans t)
    | .ifS c t (some e) _ s => s :: (exprSpans c ++ blockSpans t ++ blockSpans e)
    | .loop c b _ s => s :: (exprSpans c ++ blockSpans b)
    | .block b _ s => s :: blockSpans b
    | .ret none _ s => [s]
    | .ret (some e) _ s => s :: exprSpans e
    | .brk _ s => [s]
    | .cont _ s => [s]
    | .expr e _ s => s :: exprSpans e
  def stmtsSpans : List Stmt → List Span
    | [] => []
    | s :: ss => stmtSpans s ++ stmtsSpans ss
  def blockSpans : Block → List Span
    | .mk ss s => s :: stmtsSpans ss
end

/-- Every span attached to a diagnostic: its own and those of its labels. -/
def diagSpans (d : Diag) : List Span := d.span :: d.labels

end NaijaVerif.Parse
