import NaijaVerif.Lemmas.AnalysisRefineRevMember
/-
BRIDGE, converse direction, part 7: member calls and index assignments.
-/
namespace NaijaVerif.C03
open NaijaVerif NaijaVerif.Analysis

variable {N : Type} [NumOps N] {B : Brg}

theorem rev_index_assign (hB : B.Ok N) {f : Nat} (IH : ∀ m, m ≤ f → SimAt' (N := N) B m) (tg e : Expr)
    (sid : Option Nat) (sp : Span) (s : Eval.State N) (t : AEval.St (VE N))
    (hok : okStmt B.o (.assignIndex tg e sid sp) = true) (hs : B.Sim s t)
    (hne : Eval.execStmt B.rc (f + 1) (.assignIndex tg e sid sp) s ≠ .fuel) :
    Ev' B FlowSim (Eval.execStmt B.rc (f + 1) (.assignIndex tg e sid sp) s)
      (fun n => AEval.execStmt B.P B.ac n (.assignIndex tg e sid sp) t) := by
  apply Ev'.shift
  simp only [okStmt, Bool.and_eq_true] at hok
  generalize hr : Eval.execStmt B.rc (f + 1) (.assignIndex tg e sid sp) s = res at hne ⊢
  simp only [Eval.execStmt] at hr
  simp only [AEval.execStmt, P_lvErr, P_argMissing, P_idx, P_dscope, P_setPath]
  have ih1 := (IH f (Nat.le_refl f)).expr e s t hok.1.2 hs
  ev'_sub (Eval.evalExpr B.rc f e s) as v s1 t1 hs1 with ih1 hr hne
  have hlv := lv_sim B.o tg hok.1.1.2
  cases hl : AEval.lvalue tg with
  | none =>
    simp only [hl] at hlv
    have := trap_sim (β := Eval.Flow N) hB hs1.out .indexTargetRoot sp
    rcases hlv with h | h <;> simp only [h] at hr <;> subst hr <;> exact Ev'.const (RSim.err this)
  | some rp =>
    obtain ⟨root, path⟩ := rp
    simp only [hl] at hlv
    obtain ⟨name, idxs, hlo, hmap, hq⟩ := hlv
    simp only [hlo] at hr
    subst hmap
    dsimp only
    cases f with
    | zero => simp only [Eval.evalIdxs, Res.fuel_bind] at hr; exact absurd hr.symm hne
    | succ f' =>
      have ih2 := rev_idxs hB idxs hq f' (fun m hm => IH m (by omega)) s1 t1 hs1
      ev'_subr (Eval.evalIdxs B.rc (f' + 1) idxs s1) as pvs pth s2 t2 hpth hs2 with ih2 hr hne
      have h := assignIndex_sim hB hs2 name root pvs v pth hpth sp (FlowSim (N := N)) .normal .cont trivial
      rw [hr] at h
      refine Ev'.const ?_
      revert h
      cases AEval.lookupEnv B.ds root t2.env with
      | none => exact id
      | some old =>
        dsimp only
        cases setPathE old pvs v with
        | error er => exact id
        | ok new => dsimp only; cases AEval.assignEnv B.ds root new t2.env <;> exact id

/-- A method that does not mutate its receiver. -/
theorem rev_member_pure (hB : B.Ok N) {f : Nat} (IH : ∀ m, m ≤ f → SimAt' (N := N) B m) (obj : Expr) (field : Bytes)
    (fs sp : Span) (args : List Expr) (fn : Option Nat) (sp2 : Span) (s : Eval.State N) (t : AEval.St (VE N))
    (hobj : okExpr B.o obj = true) (hargs : okExprs B.o args = true) (hs : B.Sim s t)
    (hm : Eval.MutM.ofName field = none)
    (hne : Eval.evalExpr B.rc (f + 1) (.call (.member obj field fs sp) args fn sp2) s ≠ .fuel) :
    Ev' B Eq (Eval.evalExpr B.rc (f + 1) (.call (.member obj field fs sp) args fn sp2) s)
      (fun n => AEval.evalExpr B.P B.ac n (.call (.member obj field fs sp) args fn sp2) t) := by
  apply Ev'.shift
  generalize hr : Eval.evalExpr B.rc (f + 1) (.call (.member obj field fs sp) args fn sp2) s = res at hne ⊢
  simp only [Eval.evalExpr, hm] at hr
  simp only [AEval.evalExpr, P_isMut, hm, Option.isSome_none, Bool.false_eq_true, ↓reduceIte, P_argMissing,
    P_memberSel, P_member]
  have ih1 := (IH f (Nat.le_refl f)).expr obj s t hobj hs
  ev'_sub (Eval.evalExpr B.rc f obj s) as recv s1 t1 hs1 with ih1 hr hne
  -- selected arguments: needs one more level of fuel on the side of `Eval`
  have hsel : ∀ (idxs : List (Nat × Eval.PanicSite)), (∀ q ∈ idxs, siteErr q.2 = tmErr) →
      Eval.evalSel B.rc f (Eval.pick args idxs sp2) s1 ≠ .fuel →
      Ev' B Eq (Eval.evalSel B.rc f (Eval.pick args idxs sp2) s1)
        (fun n => AEval.evalChecked (AEval.evalExpr B.P B.ac n) tmErr (AEval.selArgs args (idxs.map (·.1))) t1) := by
    intro idxs hsite hnf
    cases f with
    | zero => exact absurd (by simp only [Eval.evalSel]) hnf
    | succ f' => exact rev_selpick hB args hargs sp2 idxs hsite f' (fun m hm => IH m (by omega)) s1 t1 hs1 hnf
  cases recv with
  | str x =>
    simp only [memberSelE] at hr ⊢
    cases hsm : Eval.StrM.ofName field with
    | none => simp only [hsm] at hr; subst hr; exact Ev'.const (tm_err hs1 sp2)
    | some sm =>
      simp only [hsm] at hr ⊢
      have ih2 := hsel sm.argIdx (strM_sites sm)
      ev'_sub (Eval.evalSel B.rc f (Eval.pick args sm.argIdx sp2) s1) as vs s2 t2 hs2 with ih2 hr hne
      subst hr
      simp only [memberE, hsm]
      exact Ev'.const (ofExcept_sim hB hs2 _ _)
  | num x =>
    simp only [memberSelE] at hr ⊢
    cases hnm : Eval.NumM.ofName field with
    | none => simp only [hnm] at hr; subst hr; exact Ev'.const (tm_err hs1 sp2)
    | some nm =>
      simp only [hnm] at hr
      subst hr
      simp only [evalChecked_nil, memberE, hnm]
      exact Ev'.const (RSim.ok rfl hs1)
  | bool b =>
    simp only [memberSelE] at hr ⊢
    subst hr
    exact Ev'.const (RSim.err (trap_sim hB hs1.out .boolReceiver sp2))
  | null => simp only at hr; subst hr; exact Ev'.const (tm_err hs1 sp2)
  | host h =>
    cases h with
    | command c =>
      simp only [memberSelE] at hr ⊢
      cases hcm : Eval.CmdM.ofName field with
      | none => simp only [hcm] at hr; subst hr; exact Ev'.const (tm_err hs1 sp2)
      | some cm =>
        simp only [hcm] at hr
        cases cm <;> simp only at hr <;> subst hr <;> first
          | (simp only [evalChecked_nil, memberE, hcm]; exact Ev'.const (runCommand_sim hs1 c sp2))
          | exact Ev'.const (tm_err hs1 sp2)
    | result r =>
      simp only [memberSelE] at hr ⊢
      cases hrm : Eval.ResM.ofName field with
      | none => simp only [hrm] at hr; subst hr; exact Ev'.const (tm_err hs1 sp2)
      | some rm =>
        simp only [hrm] at hr
        subst hr
        simp only [evalChecked_nil, memberE, hrm]
        exact Ev'.const (RSim.ok rfl hs1)
  | arr xs =>
    simp only [memberSelE] at hr ⊢
    cases ham : Eval.ArrM.ofName field with
    | none => simp only [ham] at hr; subst hr; exact Ev'.const (tm_err hs1 sp2)
    | some am =>
      simp only [ham] at hr
      cases am with
      | push => simp only at hr; subst hr; exact Ev'.const (tm_err hs1 sp2)
      | pop => simp only at hr; subst hr; exact Ev'.const (tm_err hs1 sp2)
      | reverse => simp only at hr; subst hr; exact Ev'.const (tm_err hs1 sp2)
      | len =>
        simp only at hr
        subst hr
        simp only [evalChecked_nil, memberE, ham]
        exact Ev'.const (RSim.ok rfl hs1)
      | join =>
        simp only at hr ⊢
        have ih2 := hsel [(0, .joinArg0)] (by simp; rfl)
        simp only [List.map_cons, List.map_nil] at ih2
        ev'_sub (Eval.evalSel B.rc f (Eval.pick args [(0, Eval.PanicSite.joinArg0)] sp2) s1) as vs s2 t2 hs2
          with ih2 hr hne
        subst hr
        simp only [memberE, ham]
        have hj : ∀ {β : Type}, ErrSim (β := β) (siteErr .joinSep) t2 (Eval.trap B.rc .joinSep sp2 s2) :=
          trap_sim hB hs2.out .joinSep sp2
        rcases vs with _ | ⟨v, _ | ⟨w, r⟩⟩
        · exact Ev'.const (RSim.err hj)
        · cases v with
          | str sep => exact Ev'.const (RSim.ok rfl hs2)
          | num _ => exact Ev'.const (RSim.err hj)
          | bool _ => exact Ev'.const (RSim.err hj)
          | arr _ => exact Ev'.const (RSim.err hj)
          | host _ => exact Ev'.const (RSim.err hj)
          | null => exact Ev'.const (RSim.err hj)
        · cases v <;> exact Ev'.const (RSim.err hj)

/-- A method that mutates its receiver through an l-value. -/
theorem rev_member_mut (hB : B.Ok N) {f : Nat} (IH : ∀ m, m ≤ f → SimAt' (N := N) B m) (obj : Expr) (field : Bytes)
    (fs sp : Span) (args : List Expr) (fn : Option Nat) (sp2 : Span) (s : Eval.State N) (t : AEval.St (VE N))
    (hobj : okExpr B.o obj = true) (hargs : okExprs B.o args = true) (hs : B.Sim s t)
    (m : Eval.MutM) (hm : Eval.MutM.ofName field = some m)
    (hne : Eval.evalExpr B.rc (f + 1) (.call (.member obj field fs sp) args fn sp2) s ≠ .fuel) :
    Ev' B Eq (Eval.evalExpr B.rc (f + 1) (.call (.member obj field fs sp) args fn sp2) s)
      (fun n => AEval.evalExpr B.P B.ac n (.call (.member obj field fs sp) args fn sp2) t) := by
  apply Ev'.shift
  generalize hr : Eval.evalExpr B.rc (f + 1) (.call (.member obj field fs sp) args fn sp2) s = res at hne ⊢
  simp only [Eval.evalExpr, hm] at hr
  simp only [AEval.evalExpr, P_isMut, hm, Option.isSome_some, ↓reduceIte, P_argMissing, P_mutSteps, P_lvErr, P_idx,
    P_dscope, P_mutMember]
  cases f with
  | zero => simp only [Eval.evalMutOp, Res.fuel_bind] at hr; exact absurd hr.symm hne
  | succ f' =>
    have ih1 := rev_mutop hB (f := f') (fun m hm => IH m (by omega)) m args hargs sp2 s t hs
    ev'_subr (Eval.evalMutOp B.rc (f' + 1) m args sp2 s) as vs op s1 t1 hop hs1 with ih1 hr hne
    have hlv := lv_sim B.o obj hobj
    cases hl : AEval.lvalue obj with
    | none =>
      simp only [hl] at hlv
      rcases hlv with h | h <;> simp only [h] at hr <;> subst hr
      · exact Ev'.const (RSim.err (trap_sim hB hs1.out .indexTargetRoot sp2))
      · exact Ev'.const (tm_err hs1 sp2)
    | some rp =>
      obtain ⟨root, path⟩ := rp
      simp only [hl] at hlv
      obtain ⟨name, idxs, hlo, hmap, hq⟩ := hlv
      simp only [hlo] at hr
      subst hmap
      dsimp only
      have ih2 := rev_idxs hB idxs hq f' (fun m hm => IH m (by omega)) s1 t1 hs1
      ev'_subr (Eval.evalIdxs B.rc (f' + 1) idxs s1) as pvs pth s2 t2 hpth hs2 with ih2 hr hne
      have h := applyMut_sim hB hs2 field name m hm root pvs vs pth hpth sp2
      rw [show mutOpOf m vs = op from hop, hr] at h
      refine Ev'.const ?_
      revert h
      cases AEval.lookupEnv B.ds root t2.env with
      | none => exact id
      | some old =>
        dsimp only
        cases mutMemberE field old pvs vs with
        | error er => exact id
        | ok nr =>
          obtain ⟨new, res'⟩ := nr
          dsimp only
          cases AEval.assignEnv B.ds root new t2.env <;> exact id

/-! ### The induction -/

theorem rsim_zero : SimAt' (N := N) B 0 where
  expr := fun _ _ _ _ _ h => absurd rfl h
  sel := fun _ _ _ _ _ h => absurd rfl h
  block := fun _ _ _ _ _ h => absurd rfl h
  stmts := fun _ _ _ _ _ h => absurd rfl h
  stmt := fun _ _ _ _ _ h => absurd rfl h
  loop := fun _ _ _ _ _ _ _ _ h => absurd rfl h

theorem rev_calleeShape (hB : B.Ok N) (callee : Expr) (args : List Expr) (fn : Option Nat) (sp : Span)
    (s : Eval.State N) (t : AEval.St (VE N)) (f : Nat) (hs : B.Sim s t)
    (hv : ∀ name b vsp, callee ≠ .var name b vsp) (hm : ∀ o f fs msp, callee ≠ .member o f fs msp) :
    Ev' B Eq (Eval.evalExpr B.rc (f + 1) (.call callee args fn sp) s)
      (fun n => AEval.evalExpr B.P B.ac n (.call callee args fn sp) t) := by
  have hr : RSim B Eq ((nodeE (.call callee args fn sp) [], t) : AEval.R (VE N) (VE N))
      (Eval.trap B.rc .calleeShape sp s) := RSim.err (trap_sim hB hs.out .calleeShape sp)
  cases callee with
  | var name b vsp => exact absurd rfl (hv name b vsp)
  | member o f fs msp => exact absurd rfl (hm o f fs msp)
  | index _ _ _ _ =>
    exact rev_leaf _ s t f rfl (fun n => by simp only [AEval.evalExpr, AEval.children]) _ hr
      (by simp only [Eval.evalExpr])
  | str _ _ =>
    exact rev_leaf _ s t f rfl (fun n => by simp only [AEval.evalExpr, AEval.children]) _ hr
      (by simp only [Eval.evalExpr])
  | num _ _ =>
    exact rev_leaf _ s t f rfl (fun n => by simp only [AEval.evalExpr, AEval.children]) _ hr
      (by simp only [Eval.evalExpr])
  | binary _ _ _ _ =>
    exact rev_leaf _ s t f rfl (fun n => by simp only [AEval.evalExpr, AEval.children]) _ hr
      (by simp only [Eval.evalExpr])
  | call _ _ _ _ =>
    exact rev_leaf _ s t f rfl (fun n => by simp only [AEval.evalExpr, AEval.children]) _ hr
      (by simp only [Eval.evalExpr])
  | array _ _ =>
    exact rev_leaf _ s t f rfl (fun n => by simp only [AEval.evalExpr, AEval.children]) _ hr
      (by simp only [Eval.evalExpr])
  | unary _ _ _ =>
    exact rev_leaf _ s t f rfl (fun n => by simp only [AEval.evalExpr, AEval.children]) _ hr
      (by simp only [Eval.evalExpr])
  | bool _ _ =>
    exact rev_leaf _ s t f rfl (fun n => by simp only [AEval.evalExpr, AEval.children]) _ hr
      (by simp only [Eval.evalExpr])
  | null _ =>
    exact rev_leaf _ s t f rfl (fun n => by simp only [AEval.evalExpr, AEval.children]) _ hr
      (by simp only [Eval.evalExpr])

theorem rsim_expr (hB : B.Ok N) {f : Nat} (IH : ∀ m, m ≤ f → SimAt' (N := N) B m) (e : Expr)
    (s : Eval.State N) (t : AEval.St (VE N)) (hok : okExpr B.o e = true) (hs : B.Sim s t)
    (hne : Eval.evalExpr B.rc (f + 1) e s ≠ .fuel) :
    Ev' B Eq (Eval.evalExpr B.rc (f + 1) e s) (fun n => AEval.evalExpr B.P B.ac n e t) := by
  have IHf := IH f (Nat.le_refl f)
  cases e with
  | num lex sp =>
    simp only [okExpr] at hok
    obtain ⟨x, hx⟩ := hB.orc.num lex hok
    exact rev_leaf _ s t f rfl (fun n => by simp only [AEval.evalExpr, AEval.children]) (.ok (.num x) s)
      (by simp only [nodeE, hx, Option.getD_some]; exact RSim.ok rfl hs) (by simp only [Eval.evalExpr, hx])
  | str parts sp =>
    cases parts with
    | static x =>
      exact rev_leaf _ s t f rfl (fun n => by simp only [AEval.evalExpr, AEval.children]) (.ok (.str x) s)
        (RSim.ok rfl hs) (by simp only [Eval.evalExpr])
    | interp segs => exact rev_interp hB segs sp s t f hok hs
  | bool b sp =>
    exact rev_leaf _ s t f rfl (fun n => by simp only [AEval.evalExpr, AEval.children]) (.ok (.bool b) s)
      (RSim.ok rfl hs) (by simp only [Eval.evalExpr])
  | null sp =>
    exact rev_leaf _ s t f rfl (fun n => by simp only [AEval.evalExpr, AEval.children]) (.ok .null s)
      (RSim.ok rfl hs) (by simp only [Eval.evalExpr])
  | var name b sp => exact rev_var hB name b sp s t hok hs f
  | binary op l r sp =>
    cases hop : Eval.ArithOp.ofBin op with
    | some ao => exact rev_arith hB IHf hop l r sp s t hok hs hne
    | none =>
      cases op with
      | and => exact rev_and hB IHf l r sp s t hok hs hne
      | or => exact rev_or hB IHf l r sp s t hok hs hne
      | add => cases hop
      | minus => cases hop
      | times => cases hop
      | divide => cases hop
      | mod => cases hop
      | eq => cases hop
      | gt => cases hop
      | lt => cases hop
  | unary op x sp => exact rev_unary hB IHf op x sp s t hok hs hne
  | array es sp => exact rev_array IHf es sp s t hok hs hne
  | index a i isp sp => exact rev_index hB IHf a i isp sp s t hok hs hne
  | member o fld fs sp =>
    exact rev_leaf _ s t f rfl (fun n => by simp only [AEval.evalExpr, AEval.children])
      (Eval.trap B.rc .bareMember sp s) (RSim.err (trap_sim hB hs.out .bareMember sp))
      (by simp only [Eval.evalExpr])
  | call callee args fn sp =>
    by_cases hv : ∃ name b vsp, callee = .var name b vsp
    · obtain ⟨name, b, vsp, rfl⟩ := hv
      simp only [okExpr, Bool.and_eq_true, Bool.or_eq_true] at hok
      cases hg : Eval.GlobalB.ofName name with
      | some g => exact rev_global hB IHf name b vsp args fn sp g hg s t hok.1 hs hne
      | none =>
        have hfn : fn.isSome = true := by
          rcases hok.2 with h | h
          · simp [hg] at h
          · exact h
        obtain ⟨g, rfl⟩ := Option.isSome_iff_exists.mp hfn
        exact rev_userCall hB IHf name b vsp args g sp hg s t hok.1 hs hne
    · by_cases hm : ∃ o fld fs msp, callee = .member o fld fs msp
      · obtain ⟨o, fld, fs, msp, rfl⟩ := hm
        have hok' := hok
        simp only [okExpr, Bool.and_eq_true] at hok'
        cases hmm : Eval.MutM.ofName fld with
        | none => exact rev_member_pure hB IH o fld fs msp args fn sp s t hok'.1.2 hok'.2 hs hmm hne
        | some m => exact rev_member_mut hB IH o fld fs msp args fn sp s t hok'.1.2 hok'.2 hs m hmm hne
      · exact rev_calleeShape hB callee args fn sp s t f hs
          (fun name b vsp h => hv ⟨name, b, vsp, h⟩) (fun o fld fs msp h => hm ⟨o, fld, fs, msp, h⟩)

theorem rsim_step (hB : B.Ok N) {f : Nat} (IH : ∀ m, m ≤ f → SimAt' (N := N) B m) : SimAt' (N := N) B (f + 1) where
  expr := fun e s t hok hs hne => rsim_expr hB IH e s t hok hs hne
  sel := fun es s t hok hs hne => rev_sel (IH f (Nat.le_refl f)) es s t hok hs hne
  block := fun b s t hok hs hne => rev_block hB (IH f (Nat.le_refl f)) b s t hok hs hne
  stmts := fun ss s t hok hs hne => rev_stmts hB (IH f (Nat.le_refl f)) ss s t hok hs hne
  stmt := fun st s t hok hs hne => rev_stmt hB (IH f (Nat.le_refl f)) st s t hok hs hne
    (fun tg e sid sp h => by subst h; exact rev_index_assign hB IH tg e sid sp s t hok hs hne)
  loop := fun c b sp s t hokc hokb hs hne => rev_loop hB (IH f (Nat.le_refl f)) c b sp s t hokc hokb hs hne

/-- **The converse simulation**, for every amount of fuel of `Eval`. -/
theorem rsim (hB : B.Ok N) : ∀ f, SimAt' (N := N) B f := by
  intro f
  induction f using Nat.strongRecOn with
  | _ f ih =>
    cases f with
    | zero => exact rsim_zero
    | succ f => exact rsim_step hB (fun m hm => ih m (by omega))

end NaijaVerif.C03
