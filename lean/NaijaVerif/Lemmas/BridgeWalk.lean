import NaijaVerif.Lemmas.BridgeRange
/-
Bridge resolver → evaluator, part 3: the statement walk only extends the facts, and the binding
annotations it writes on `make` statements and definitions come from where they should.
-/
namespace NaijaVerif.Resolve
open NaijaVerif

theorem nl_eq {f f' : Facts} (h : fkey f' = fkey f) : f'.locals.length = f.locals.length :=
  congrArg Prod.fst h

theorem nf_eq {f f' : Facts} (h : fkey f' = fkey f) : f'.functions.length = f.functions.length := by
  have := congrArg (fun k => k.2.length) h
  simpa [fkey_nf] using this

theorem declIds_cons (s : Stmt) (ss : List Stmt) :
    Eval.declIds (s :: ss) = Eval.declIds [s] ++ Eval.declIds ss := by
  cases s with
  | assign _ _ _ b _ _ => cases b <;> simp [Eval.declIds]
  | _ => simp [Eval.declIds]

theorem fnIdsOf_cons (s : Stmt) (ss : List Stmt) :
    Eval.fnIdsOf (s :: ss) = Eval.fnIdsOf [s] ++ Eval.fnIdsOf ss := by
  cases s with
  | fnDef _ _ _ _ fn _ _ => cases fn <;> simp [Eval.fnIdsOf]
  | _ => simp [Eval.fnIdsOf]

theorem fnNames_cons (s : Stmt) (ss : List Stmt) : fnNames (s :: ss) = fnNames [s] ++ fnNames ss := by
  cases s <;> simp [fnNames]

/-! ### The facts only grow -/

mutual
  theorem checkStmt_grow (env : Env) (cur : Cur) :
      ∀ (s : Stmt) (f : Facts), FLe f (checkStmt env cur s f).facts
    | .assign x xs e _ _ sp, f => by
        simp only [checkStmt]
        split
        · apply FLe.of_eq; simp [checkExpr_fkey]
        · unfold FLe
          simp only [fkey_recStmtWrite, fkey_pushLocal, fkey_joinClass, checkExpr_fkey, fkey_pushStmt]
          exact ⟨Nat.le_succ _, List.prefix_refl _⟩
    | .assignExisting x xs e _ _ sp, f => by
        simp only [checkStmt]
        split <;> (apply FLe.of_eq; simp [checkExpr_fkey])
    | .assignIndex t e _ sp, f => by
        simp only [checkStmt]
        apply FLe.of_eq
        split <;> simp [checkExpr_fkey]
    | .ifS c t e _ sp, f => by
        simp only [checkStmt]
        refine FLe.trans (FLe.trans (FLe.of_eq ?_) (checkBlock_grow _ _ t _)) (checkOptBlock_grow _ _ e _)
        simp [checkExpr_fkey]
    | .loop c b _ sp, f => by
        simp only [checkStmt]
        refine FLe.trans (FLe.of_eq ?_) (checkBlock_grow _ _ b _)
        simp [checkExpr_fkey]
    | .block b _ sp, f => by
        simp only [checkStmt]
        refine FLe.trans (FLe.of_eq ?_) (checkBlock_grow _ _ b _)
        simp
    | .fnDef name nsp ps body _ _ sp, f => by
        simp only [checkStmt]
        split
        · apply FLe.of_eq; simp
        · refine FLe.trans ?_ (checkBlock_grow _ _ body _)
          unfold FLe
          rw [(declareParams_spec _ _ _ ps [] _).1]
          simp only [fkey_pushScope, fkey_setDefStmt, fkey_joinClass, fkey_pushStmt]
          exact ⟨Nat.le_add_right _ _, List.prefix_refl _⟩
    | .ret e _ sp, f => by
        simp only [checkStmt]
        split <;> (apply FLe.of_eq; simp [checkExpr_fkey])
    | .brk _ sp, f => by simp only [checkStmt]; apply FLe.of_eq; simp
    | .cont _ sp, f => by simp only [checkStmt]; apply FLe.of_eq; simp
    | .expr e _ sp, f => by simp only [checkStmt]; apply FLe.of_eq; simp [checkExpr_fkey]
  theorem checkStmts_grow (env : Env) :
      ∀ (ss : List Stmt) (cur : Cur) (f : Facts), FLe f (checkStmts env cur ss f).facts
    | [], cur, f => by simp only [checkStmts]; exact FLe.refl f
    | s :: ss, cur, f => by
        simp only [checkStmts]
        exact FLe.trans (checkStmt_grow env cur s f) (checkStmts_grow env ss _ _)
  theorem checkBlock_grow (env : Env) (parent : Option Nat) :
      ∀ (b : Block) (f : Facts), FLe f (checkBlock env parent b f).facts
    | .mk ss sp, f => by
        simp only [checkBlock]
        refine FLe.trans (FLe.trans (FLe.of_eq ?_) (predeclare_grow _ ss [] _).1) (checkStmts_grow _ ss _ _)
        split <;> simp
  theorem checkOptBlock_grow (env : Env) (parent : Option Nat) :
      ∀ (b : Option Block) (f : Facts), FLe f (checkOptBlock env parent b f).facts
    | none, f => by simp only [checkOptBlock]; exact FLe.refl f
    | some b, f => by simp only [checkOptBlock]; exact checkBlock_grow env parent b f
end

/-! ### Where the annotation of a `make` comes from -/

/-- A `make` is annotated with an entry of the block's own scope (re-declaration) or with the
`LocalId` the statement allocates; the block's scope afterwards holds the old entries' ids and
that new one. -/
theorem checkStmt_decl (env : Env) (cur : Cur) (s : Stmt) (f : Facts) :
    (∀ l ∈ Eval.declIds [(checkStmt env cur s f).val], (∃ e ∈ cur.vars, e.id = l) ∨
        (f.locals.length ≤ l ∧ l < (checkStmt env cur s f).facts.locals.length)) ∧
    (∀ e ∈ (checkStmt env cur s f).cur.vars, (∃ e' ∈ cur.vars, e'.id = e.id) ∨
        (e.id ∈ Eval.declIds [(checkStmt env cur s f).val] ∧ f.locals.length ≤ e.id ∧
          e.id < (checkStmt env cur s f).facts.locals.length)) := by
  cases s with
  | assign x xs e b sid sp =>
    simp only [checkStmt]
    cases hf : findVar cur.vars x with
    | some ent =>
      simp only [Eval.declIds, List.mem_singleton]
      refine ⟨?_, ?_⟩
      · rintro l rfl; exact Or.inl ⟨ent, findVar_mem hf, rfl⟩
      · intro e he
        obtain ⟨e', h1, h2⟩ := updateTy_mem_id he
        exact Or.inl ⟨e', h1, h2⟩
    | none =>
      have hk : fkey (joinClass (checkExpr env cur.vars f.stmtEffects.length e (pushStmt f env.owner env.scope)).facts
          f.stmtEffects.length (classifyExpr env cur.vars
            (checkExpr env cur.vars f.stmtEffects.length e (pushStmt f env.owner env.scope)).facts e)) = fkey f := by
        simp [checkExpr_fkey]
      have hn := nl_eq hk
      simp only [Eval.declIds, List.mem_singleton]
      have hlen : ∀ F : Facts, (recStmtWrite (pushLocal F env.spanLen x env.owner env.scope (some f.stmtEffects.length)
          .variable) env.owner f.stmtEffects.length F.locals.length).locals.length = F.locals.length + 1 := by
        intro F
        have := nl_eq (fkey_recStmtWrite (pushLocal F env.spanLen x env.owner env.scope (some f.stmtEffects.length)
          .variable) env.owner f.stmtEffects.length F.locals.length)
        rw [this]; simp [pushLocal]
      refine ⟨?_, ?_⟩
      · rintro l rfl
        right
        rw [hlen, hn]; omega
      · intro e he
        rcases List.mem_cons.1 he with rfl | he
        · right
          refine ⟨rfl, ?_⟩
          simp only
          rw [hlen, hn]; omega
        · exact Or.inl ⟨e, he, rfl⟩
  | assignExisting x xs e b sid sp =>
    simp only [checkStmt]
    split <;> exact ⟨by simp [Eval.declIds], fun e he => Or.inl ⟨e, he, rfl⟩⟩
  | fnDef name nsp ps body fn sid sp =>
    simp only [checkStmt]
    split <;> exact ⟨by simp [Eval.declIds], fun e he => Or.inl ⟨e, he, rfl⟩⟩
  | ret e sid sp =>
    simp only [checkStmt]
    split <;> exact ⟨by simp [Eval.declIds], fun e he => Or.inl ⟨e, he, rfl⟩⟩
  | assignIndex _ _ _ _ =>
    simp only [checkStmt]; exact ⟨by simp [Eval.declIds], fun e he => Or.inl ⟨e, he, rfl⟩⟩
  | ifS _ _ _ _ _ =>
    simp only [checkStmt]; exact ⟨by simp [Eval.declIds], fun e he => Or.inl ⟨e, he, rfl⟩⟩
  | loop _ _ _ _ =>
    simp only [checkStmt]; exact ⟨by simp [Eval.declIds], fun e he => Or.inl ⟨e, he, rfl⟩⟩
  | block _ _ _ =>
    simp only [checkStmt]; exact ⟨by simp [Eval.declIds], fun e he => Or.inl ⟨e, he, rfl⟩⟩
  | brk _ _ =>
    simp only [checkStmt]; exact ⟨by simp [Eval.declIds], fun e he => Or.inl ⟨e, he, rfl⟩⟩
  | cont _ _ =>
    simp only [checkStmt]; exact ⟨by simp [Eval.declIds], fun e he => Or.inl ⟨e, he, rfl⟩⟩
  | expr _ _ _ =>
    simp only [checkStmt]; exact ⟨by simp [Eval.declIds], fun e he => Or.inl ⟨e, he, rfl⟩⟩

theorem checkStmts_decl (env : Env) : ∀ (ss : List Stmt) (cur : Cur) (f : Facts),
    ∀ l ∈ Eval.declIds (checkStmts env cur ss f).val, (∃ e ∈ cur.vars, e.id = l) ∨
      (f.locals.length ≤ l ∧ l < (checkStmts env cur ss f).facts.locals.length)
  | [], cur, f => by simp [checkStmts, Eval.declIds]
  | s :: ss, cur, f => by
      intro l hl
      simp only [checkStmts] at hl ⊢
      rw [declIds_cons] at hl
      have hd := checkStmt_decl env cur s f
      have hg1 := (checkStmt_grow env cur s f).nl
      have hg2 := (checkStmts_grow env ss (checkStmt env cur s f).cur (checkStmt env cur s f).facts).nl
      rcases List.mem_append.1 hl with hl | hl
      · rcases hd.1 l hl with h | h
        · exact Or.inl h
        · right; omega
      · rcases checkStmts_decl env ss _ _ l hl with ⟨e, he, rfl⟩ | h
        · rcases hd.2 e he with h | h
          · exact Or.inl h
          · right; omega
        · right; omega

/-! ### Where the annotation of a definition comes from -/

/-- A definition is annotated with the id of a signature of the block's own function scope. -/
theorem checkStmt_fnIds (env : Env) (cur : Cur) (s : Stmt) (f : Facts) :
    ∀ i ∈ Eval.fnIdsOf [(checkStmt env cur s f).val],
      ∃ own rest g, env.fns = own :: rest ∧ g ∈ own ∧ g.id = i := by
  cases s with
  | fnDef name nsp ps body fn sid sp =>
    simp only [checkStmt]
    split
    · simp [Eval.fnIdsOf]
    · next g hsig =>
      simp only [Eval.fnIdsOf, List.mem_singleton]
      rintro i rfl
      split at hsig
      · cases hsig
      · split at hsig
        · next own rest heq => exact ⟨own, rest, g, heq, findFn_mem hsig, rfl⟩
        · cases hsig
  | assign x xs e b sid sp => simp only [checkStmt]; split <;> simp [Eval.fnIdsOf]
  | assignExisting x xs e b sid sp => simp only [checkStmt]; split <;> simp [Eval.fnIdsOf]
  | ret e sid sp => simp only [checkStmt]; split <;> simp [Eval.fnIdsOf]
  | assignIndex _ _ _ _ => simp [checkStmt, Eval.fnIdsOf]
  | ifS _ _ _ _ _ => simp [checkStmt, Eval.fnIdsOf]
  | loop _ _ _ _ => simp [checkStmt, Eval.fnIdsOf]
  | block _ _ _ => simp [checkStmt, Eval.fnIdsOf]
  | brk _ _ => simp [checkStmt, Eval.fnIdsOf]
  | cont _ _ => simp [checkStmt, Eval.fnIdsOf]
  | expr _ _ _ => simp [checkStmt, Eval.fnIdsOf]

theorem checkStmts_fnIds (env : Env) : ∀ (ss : List Stmt) (cur : Cur) (f : Facts),
    ∀ i ∈ Eval.fnIdsOf (checkStmts env cur ss f).val,
      ∃ own rest g, env.fns = own :: rest ∧ g ∈ own ∧ g.id = i
  | [], cur, f => by simp [checkStmts, Eval.fnIdsOf]
  | s :: ss, cur, f => by
      intro i hi
      simp only [checkStmts] at hi
      rw [fnIdsOf_cons] at hi
      rcases List.mem_append.1 hi with hi | hi
      · exact checkStmt_fnIds env cur s f i hi
      · exact checkStmts_fnIds env ss _ _ i hi

/-! ### The names of the definitions already passed -/

theorem checkStmt_seen (env : Env) (cur : Cur) (s : Stmt) (f : Facts) :
    ∀ x ∈ (checkStmt env cur s f).cur.seenFns, x ∈ cur.seenFns ∨ x ∈ fnNames [s] := by
  cases s with
  | fnDef name nsp ps body fn sid sp =>
    simp only [checkStmt]
    split
    · exact fun x hx => Or.inl hx
    · intro x hx
      rcases List.mem_cons.1 hx with rfl | hx
      · right; simp [fnNames]
      · exact Or.inl hx
  | assign x xs e b sid sp => simp only [checkStmt]; split <;> exact fun x hx => Or.inl hx
  | assignExisting x xs e b sid sp => simp only [checkStmt]; split <;> exact fun x hx => Or.inl hx
  | ret e sid sp => simp only [checkStmt]; split <;> exact fun x hx => Or.inl hx
  | assignIndex _ _ _ _ => simp only [checkStmt]; exact fun x hx => Or.inl hx
  | ifS _ _ _ _ _ => simp only [checkStmt]; exact fun x hx => Or.inl hx
  | loop _ _ _ _ => simp only [checkStmt]; exact fun x hx => Or.inl hx
  | block _ _ _ => simp only [checkStmt]; exact fun x hx => Or.inl hx
  | brk _ _ => simp only [checkStmt]; exact fun x hx => Or.inl hx
  | cont _ _ => simp only [checkStmt]; exact fun x hx => Or.inl hx
  | expr _ _ _ => simp only [checkStmt]; exact fun x hx => Or.inl hx

/-- The side conditions under which every definition of a statement list gets its annotation:
no name was passed before, the names are pairwise different, the own function scope knows them. -/
structure DefsOK (env : Env) (seen : List Bytes) (ss : List Stmt) : Prop where
  unseen : ∀ name ∈ fnNames ss, name ∉ seen
  nodup : (fnNames ss).Nodup
  own : ∀ name ∈ fnNames ss, ownHas env name = true

theorem DefsOK.head {env : Env} {seen : List Bytes} {s : Stmt} {ss : List Stmt} (h : DefsOK env seen (s :: ss)) :
    DefsOK env seen [s] := by
  have hsub : ∀ n ∈ fnNames [s], n ∈ fnNames (s :: ss) := fun n hn => fnNames_cons_sub s ss n hn
  refine ⟨fun n hn => h.unseen n (hsub n hn), ?_, fun n hn => h.own n (hsub n hn)⟩
  have := h.nodup
  rw [fnNames_cons] at this
  exact (List.nodup_append.1 this).1

theorem DefsOK.tail {env : Env} {cur : Cur} {s : Stmt} {ss : List Stmt} (f : Facts)
    (h : DefsOK env cur.seenFns (s :: ss)) : DefsOK env (checkStmt env cur s f).cur.seenFns ss := by
  have hsub : ∀ n ∈ fnNames ss, n ∈ fnNames (s :: ss) := fun n hn => fnNames_tail_sub s ss n hn
  have hnd := h.nodup
  rw [fnNames_cons] at hnd
  obtain ⟨_, h2, h3⟩ := List.nodup_append.1 hnd
  refine ⟨?_, h2, fun n hn => h.own n (hsub n hn)⟩
  intro n hn hmem
  rcases checkStmt_seen env cur s f n hmem with hm | hm
  · exact h.unseen n (hsub n hn) hm
  · exact h3 n hm n hn rfl

/-- Every name the own function scope knows and the statement list defines is written on its
definition. -/
theorem checkStmts_annotates (env : Env) (own : List FnSig) (rest : List (List FnSig))
    (henv : env.fns = own :: rest) : ∀ (ss : List Stmt) (cur : Cur) (f : Facts),
    DefsOK env cur.seenFns ss → ∀ name ∈ fnNames ss, ∀ g, findFn own name = some g →
      g.id ∈ Eval.fnIdsOf (checkStmts env cur ss f).val
  | [], cur, f, _ => by simp [fnNames]
  | s :: ss, cur, f, h => by
      intro name hn g hg
      simp only [checkStmts]
      rw [fnIdsOf_cons]
      rw [fnNames_cons] at hn
      rcases List.mem_append.1 hn with hn | hn
      · apply List.mem_append_left
        cases s with
        | fnDef nm nsp ps body fn sid sp =>
          simp only [fnNames, List.mem_singleton] at hn
          subst hn
          have hu : name ∉ cur.seenFns := h.unseen name (by simp [fnNames])
          simp only [checkStmt, henv, hg]
          simp [hu, Eval.fnIdsOf]
        | _ => simp [fnNames] at hn
      · apply List.mem_append_right
        exact checkStmts_annotates env own rest henv ss _ _ (h.tail f) name hn g hg

end NaijaVerif.Resolve
