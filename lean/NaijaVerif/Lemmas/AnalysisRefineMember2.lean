import NaijaVerif.Lemmas.AnalysisRefineMember
/-
BRIDGE, part 14: member calls (`MemberCase`), and the refinement theorem without the two hypotheses.
-/
namespace NaijaVerif.C03
open NaijaVerif NaijaVerif.Analysis

variable {N : Type} [NumOps N] {B : Brg}

theorem runCommand_sim {s : Eval.State N} {t : AEval.St (VE N)} (hs : B.Sim s t) (c : Proc.Cmd) (sp : Span) :
    RSim B Eq ((runCommandE B.rc c, t) : AEval.R (VE N) (VE N)) (Eval.runCommand B.rc c sp s) := by
  simp only [runCommandE, Eval.runCommand]
  split
  · exact RSim.err ⟨Or.inl rfl, hs.out⟩
  · cases Proc.validate c B.rc.policy.caps with
    | error _ => exact RSim.err ⟨Or.inl rfl, hs.out⟩
    | ok spec =>
      dsimp only
      cases B.rc.runProc spec with
      | error k => exact RSim.err ⟨Or.inl rfl, hs.out⟩
      | ok r => exact RSim.ok rfl hs

theorem strM_sites (sm : Eval.StrM) : ∀ q ∈ sm.argIdx, siteErr q.2 = tmErr := by
  cases sm <;> simp [Eval.StrM.argIdx] <;> (try constructor) <;> rfl

theorem tm_err {s : Eval.State N} {t : AEval.St (VE N)} (hs : B.Sim s t) (sp : Span) :
    RSim B Eq ((.error tmErr, t) : AEval.R (VE N) (VE N)) (Eval.Res.err .typeMismatch sp s) :=
  RSim.err ⟨Or.inl rfl, hs.out⟩

theorem evalChecked_nil (ev : Expr → AEval.St (VE N) → AEval.R (VE N) (VE N)) (miss : AEval.Err) (args : List Expr)
    (t : AEval.St (VE N)) : AEval.evalChecked ev miss (AEval.selArgs args []) t = (.ok [], t) := by
  simp [AEval.selArgs, AEval.evalChecked]

/-- A method that does not mutate its receiver. -/
theorem member_pure (hB : B.Ok N) {n : Nat} (IH : SimAt (N := N) B n) (obj : Expr) (field : Bytes) (fs sp : Span)
    (args : List Expr) (fn : Option Nat) (sp2 : Span) (s : Eval.State N) (t : AEval.St (VE N))
    (hobj : okExpr B.o obj = true) (hargs : okExprs B.o args = true) (hs : B.Sim s t)
    (hm : Eval.MutM.ofName field = none)
    (hnf : NF (AEval.evalExpr B.P B.ac (n + 1) (.call (.member obj field fs sp) args fn sp2) t)) :
    Ev B Eq (AEval.evalExpr B.P B.ac (n + 1) (.call (.member obj field fs sp) args fn sp2) t)
      (fun f => Eval.evalExpr B.rc f (.call (.member obj field fs sp) args fn sp2) s) := by
  apply Ev.shift
  simp only [AEval.evalExpr, P_isMut, hm, Option.isSome_none, Bool.false_eq_true, ↓reduceIte, P_argMissing,
    P_memberSel, P_member] at hnf ⊢
  simp only [Eval.evalExpr, hm]
  have h1 := IH.expr obj s t hobj hs
  ev_sub (AEval.evalExpr B.P B.ac n obj t) as recv t1 s1 hs1 with h1 hnf
  cases recv with
  | str x =>
    simp only [memberSelE] at hnf ⊢
    cases hsm : Eval.StrM.ofName field with
    | none => exact Ev.const (tm_err hs1 sp2)
    | some sm =>
      simp only [hsm] at hnf ⊢
      have h2 := sel_sim hB IH args hargs sp2 sm.argIdx (strM_sites sm) s1 t1 hs1
      ev_sub (AEval.evalChecked (AEval.evalExpr B.P B.ac n) tmErr
        (AEval.selArgs args (sm.argIdx.map (·.1))) t1) as vs t2 s2 hs2 with h2 hnf
      simp only [memberE, hsm]
      exact Ev.const (ofExcept_sim hB hs2 _ _)
  | num x =>
    simp only [memberSelE] at hnf ⊢
    cases hnm : Eval.NumM.ofName field with
    | none => exact Ev.const (tm_err hs1 sp2)
    | some nm =>
      simp only [evalChecked_nil, memberE, hnm]
      exact Ev.const (RSim.ok rfl hs1)
  | bool b =>
    simp only [memberSelE]
    exact Ev.const (RSim.err (trap_sim hB hs1.out .boolReceiver sp2))
  | null => exact Ev.const (tm_err hs1 sp2)
  | host h =>
    cases h with
    | command c =>
      simp only [memberSelE] at hnf ⊢
      cases hcm : Eval.CmdM.ofName field with
      | none => exact Ev.const (tm_err hs1 sp2)
      | some cm =>
        cases cm <;> first
          | (simp only [evalChecked_nil, memberE, hcm]; exact Ev.const (runCommand_sim hs1 c sp2))
          | exact Ev.const (tm_err hs1 sp2)
    | result r =>
      simp only [memberSelE] at hnf ⊢
      cases hrm : Eval.ResM.ofName field with
      | none => exact Ev.const (tm_err hs1 sp2)
      | some rm =>
        simp only [evalChecked_nil, memberE, hrm]
        exact Ev.const (RSim.ok rfl hs1)
  | arr xs =>
    simp only [memberSelE] at hnf ⊢
    cases ham : Eval.ArrM.ofName field with
    | none => exact Ev.const (tm_err hs1 sp2)
    | some am =>
      cases am with
      | push => exact Ev.const (tm_err hs1 sp2)
      | pop => exact Ev.const (tm_err hs1 sp2)
      | reverse => exact Ev.const (tm_err hs1 sp2)
      | len =>
        simp only [evalChecked_nil, memberE, ham]
        exact Ev.const (RSim.ok rfl hs1)
      | join =>
        simp only [ham] at hnf ⊢
        have h2 := sel_sim hB IH args hargs sp2 [(0, .joinArg0)] (by simp; rfl) s1 t1 hs1
        simp only [List.map_cons, List.map_nil] at h2
        ev_sub (AEval.evalChecked (AEval.evalExpr B.P B.ac n) tmErr
          (AEval.selArgs args [0]) t1) as vs t2 s2 hs2 with h2 hnf
        simp only [memberE, ham]
        have hj : ∀ {β : Type}, ErrSim (β := β) (siteErr .joinSep) t2 (Eval.trap B.rc .joinSep sp2 s2) :=
          trap_sim hB hs2.out .joinSep sp2
        rcases vs with _ | ⟨v, _ | ⟨w, r⟩⟩
        · exact Ev.const (RSim.err hj)
        · cases v with
          | str sep => exact Ev.const (RSim.ok rfl hs2)
          | num _ => exact Ev.const (RSim.err hj)
          | bool _ => exact Ev.const (RSim.err hj)
          | arr _ => exact Ev.const (RSim.err hj)
          | host _ => exact Ev.const (RSim.err hj)
          | null => exact Ev.const (RSim.err hj)
        · cases v <;> exact Ev.const (RSim.err hj)

/-- A method that mutates its receiver through an l-value. -/
theorem member_mut (hB : B.Ok N) {n : Nat} (IH : SimAt (N := N) B n) (obj : Expr) (field : Bytes) (fs sp : Span)
    (args : List Expr) (fn : Option Nat) (sp2 : Span) (s : Eval.State N) (t : AEval.St (VE N))
    (hobj : okExpr B.o obj = true) (hargs : okExprs B.o args = true) (hs : B.Sim s t)
    (m : Eval.MutM) (hm : Eval.MutM.ofName field = some m)
    (hnf : NF (AEval.evalExpr B.P B.ac (n + 1) (.call (.member obj field fs sp) args fn sp2) t)) :
    Ev B Eq (AEval.evalExpr B.P B.ac (n + 1) (.call (.member obj field fs sp) args fn sp2) t)
      (fun f => Eval.evalExpr B.rc f (.call (.member obj field fs sp) args fn sp2) s) := by
  apply Ev.shift
  simp only [AEval.evalExpr, P_isMut, hm, Option.isSome_some, ↓reduceIte, P_argMissing, P_mutSteps, P_lvErr, P_idx,
    P_dscope, P_mutMember] at hnf ⊢
  simp only [Eval.evalExpr, hm]
  have h1 := mutop_sim hB IH m args hargs sp2 s t hs
  ev_subr (AEval.evalChecked (AEval.evalExpr B.P B.ac n) tmErr (AEval.stepArgs args (mutStepsM m)) t)
    as vs t1 op s1 hop hs1 with h1 hnf
  have hlv := lv_sim B.o obj hobj
  cases hl : AEval.lvalue obj with
  | none =>
    simp only [hl] at hlv ⊢
    rcases hlv with h | h <;> simp only [h]
    · exact Ev.const (RSim.err (trap_sim hB hs1.out .indexTargetRoot sp2))
    · exact Ev.const (tm_err hs1 sp2)
  | some rp =>
    obtain ⟨root, path⟩ := rp
    simp only [hl] at hlv hnf ⊢
    obtain ⟨name, idxs, hlo, hmap, hq⟩ := hlv
    simp only [hlo]
    subst hmap
    have h2 := idxs_sim hB IH idxs hq s1 t1 hs1
    generalize AEval.evalChecked (AEval.evalExpr (V := VE N) B.P B.ac n) tmErr
      (AEval.pathItems idxChk (idxs.map (·.1))) t1 = a2 at hnf h2 ⊢
    rcases a2 with ⟨er | pvs, t2⟩
    · exact Ev.bind_err (h2 (nf_err hnf))
    refine Ev.bind_ok (h2 (nf_ok _ _)) (fun pth s2 hpth hs2 => ?_)
    dsimp only
    have h := applyMut_sim hB hs2 field name m hm root pvs vs pth hpth sp2
    rw [show mutOpOf m vs = op from hop] at h
    refine Ev.const ?_
    revert h
    cases AEval.lookupEnv B.ds root t2.env with
    | none => exact id
    | some old =>
      dsimp only
      cases mutMemberE field old pvs vs with
      | error er => exact id
      | ok nr =>
        obtain ⟨new, res⟩ := nr
        dsimp only
        cases AEval.assignEnv B.ds root new t2.env <;> exact id

/-- **Member calls.** -/
theorem memberCase (hB : B.Ok N) : MemberCase N B := by
  intro n IH obj field fs sp args fn sp2 s t hok hs hnf
  have hok' := hok
  simp only [okExpr, Bool.and_eq_true] at hok'
  cases hm : Eval.MutM.ofName field with
  | none => exact member_pure hB (IH n (Nat.le_refl n)) obj field fs sp args fn sp2 s t hok'.1.2 hok'.2 hs hm hnf
  | some m => exact member_mut hB (IH n (Nat.le_refl n)) obj field fs sp args fn sp2 s t hok'.1.2 hok'.2 hs m hm hnf

/-! ### The refinement, without side hypotheses about member calls -/

/-- **The simulation** between the fragment instantiated with `Eval`'s primitive steps and `Eval`. -/
theorem bsim (hB : B.Ok N) : ∀ n, SimAt (N := N) B n := bsim_all hB (memberCase hB) (indexCase hB)

/-- **Refinement of runs** (see `bridge_run`). -/
theorem bridge_run_full (hB : B.Ok N) (root : Block) (hok : okBlock B.o root = true) (hin : B.rc.input = [])
    (n : Nat) (hnf : fragObs (AEval.run (B.P (N := N)) B.plan n root) ≠ none) :
    ∃ f, evalObs (Eval.run (N := N) B.rc f root) = fragObs (AEval.run (B.P (N := N)) B.plan n root) :=
  bridge_run hB (memberCase hB) (indexCase hB) root hok hin n hnf

end NaijaVerif.C03
