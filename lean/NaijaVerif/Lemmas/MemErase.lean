import NaijaVerif.Model.Mem
/-
Erasure (T3 of C02): the evaluator with reclamation (`Cfg.fixed`) and the evaluator with one arena
and nothing ever reset or reused (`Cfg.noReclaim`) run in lock step on the same control oracle: they
hold values of the same shape and the same CONTENT ids in corresponding places, print values with
the same contents and observe the same contents at every read of the program — until one of them
stops for a reason that is not a runtime error (fuel, an oracle that does not fit, or — excluded
for the fixed discipline by T1/T2 — a poisoned read / illegal free).  Relational Hoare logic over
pairs of runs; the heaps of the two runs are not related at all.
-/
namespace NaijaVerif.Mem
open NaijaVerif NaijaVerif.Pool

/-! ### Values of the same shape and contents -/

mutual
  def VRel : MVal → MVal → Prop
    | .scalar, .scalar => True
    | .leaf h₁, .leaf h₂ => h₁.ct = h₂.ct ∧ h₁.isStr = h₂.isStr
    | .arr b₁ xs₁, .arr b₂ xs₂ => b₁.ct = b₂.ct ∧ VRelL xs₁ xs₂
    | _, _ => False
  def VRelL : List MVal → List MVal → Prop
    | [], [] => True
    | a :: as, b :: bs => VRel a b ∧ VRelL as bs
    | _, _ => False
end

mutual
  theorem VRel.refl : ∀ v : MVal, VRel v v
    | .scalar => by simp [VRel]
    | .leaf _ => by simp [VRel]
    | .arr _ xs => by simp only [VRel, true_and]; exact VRelL.refl xs
  theorem VRelL.refl : ∀ vs : List MVal, VRelL vs vs
    | [] => by simp [VRelL]
    | v :: vs => by simp only [VRelL]; exact ⟨VRel.refl v, VRelL.refl vs⟩
end

mutual
  theorem VRel.symm : ∀ {a b : MVal}, VRel a b → VRel b a
    | .scalar, .scalar, _ => by simp [VRel]
    | .leaf _, .leaf _, h => by simp only [VRel] at h ⊢; exact ⟨h.1.symm, h.2.symm⟩
    | .arr _ xs, .arr _ ys, h => by
      simp only [VRel] at h ⊢; exact ⟨h.1.symm, VRelL.symm h.2⟩
    | .scalar, .leaf _, h => by simp [VRel] at h
    | .scalar, .arr _ _, h => by simp [VRel] at h
    | .leaf _, .scalar, h => by simp [VRel] at h
    | .leaf _, .arr _ _, h => by simp [VRel] at h
    | .arr _ _, .scalar, h => by simp [VRel] at h
    | .arr _ _, .leaf _, h => by simp [VRel] at h
  theorem VRelL.symm : ∀ {as bs : List MVal}, VRelL as bs → VRelL bs as
    | [], [], _ => by simp [VRelL]
    | a :: as, b :: bs, h => by simp only [VRelL] at h ⊢; exact ⟨VRel.symm h.1, VRelL.symm h.2⟩
    | [], _ :: _, h => by simp [VRelL] at h
    | _ :: _, [], h => by simp [VRelL] at h
end

mutual
  theorem VRel.trans : ∀ {a b c : MVal}, VRel a b → VRel b c → VRel a c
    | .scalar, .scalar, .scalar, _, _ => by simp [VRel]
    | .leaf _, .leaf _, .leaf _, h₁, h₂ => by
      simp only [VRel] at h₁ h₂ ⊢; exact ⟨h₁.1.trans h₂.1, h₁.2.trans h₂.2⟩
    | .arr _ xs, .arr _ ys, .arr _ zs, h₁, h₂ => by
      simp only [VRel] at h₁ h₂ ⊢; exact ⟨h₁.1.trans h₂.1, VRelL.trans h₁.2 h₂.2⟩
    | .scalar, .leaf _, _, h, _ => by simp [VRel] at h
    | .scalar, .arr _ _, _, h, _ => by simp [VRel] at h
    | .leaf _, .scalar, _, h, _ => by simp [VRel] at h
    | .leaf _, .arr _ _, _, h, _ => by simp [VRel] at h
    | .arr _ _, .scalar, _, h, _ => by simp [VRel] at h
    | .arr _ _, .leaf _, _, h, _ => by simp [VRel] at h
    | .scalar, .scalar, .leaf _, _, h => by simp [VRel] at h
    | .scalar, .scalar, .arr _ _, _, h => by simp [VRel] at h
    | .leaf _, .leaf _, .scalar, _, h => by simp [VRel] at h
    | .leaf _, .leaf _, .arr _ _, _, h => by simp [VRel] at h
    | .arr _ _, .arr _ _, .scalar, _, h => by simp [VRel] at h
    | .arr _ _, .arr _ _, .leaf _, _, h => by simp [VRel] at h
  theorem VRelL.trans : ∀ {as bs cs : List MVal}, VRelL as bs → VRelL bs cs → VRelL as cs
    | [], [], [], _, _ => by simp [VRelL]
    | a :: as, b :: bs, c :: cs, h₁, h₂ => by
      simp only [VRelL] at h₁ h₂ ⊢; exact ⟨VRel.trans h₁.1 h₂.1, VRelL.trans h₁.2 h₂.2⟩
    | [], _ :: _, _, h, _ => by simp [VRelL] at h
    | _ :: _, [], _, h, _ => by simp [VRelL] at h
    | [], [], _ :: _, _, h => by simp [VRelL] at h
    | _ :: _, _ :: _, [], _, h => by simp [VRelL] at h
end

/-- The content ids of all handles of a value, in reading order. -/
def cts (hs : List Handle) : List Nat := hs.map (·.ct)

mutual
  theorem VRel.cts : ∀ {a b : MVal}, VRel a b → cts a.handles = cts b.handles
    | .scalar, .scalar, _ => rfl
    | .leaf _, .leaf _, h => by simp only [VRel] at h; simp [Mem.cts, MVal.handles, h.1]
    | .arr _ xs, .arr _ ys, h => by
      simp only [VRel] at h
      have := VRelL.cts h.2
      simp only [Mem.cts, MVal.handles, List.map_cons] at this ⊢
      rw [h.1, this]
    | .scalar, .leaf _, h => by simp [VRel] at h
    | .scalar, .arr _ _, h => by simp [VRel] at h
    | .leaf _, .scalar, h => by simp [VRel] at h
    | .leaf _, .arr _ _, h => by simp [VRel] at h
    | .arr _ _, .scalar, h => by simp [VRel] at h
    | .arr _ _, .leaf _, h => by simp [VRel] at h
  theorem VRelL.cts : ∀ {as bs : List MVal}, VRelL as bs →
      cts (MVal.handlesL as) = cts (MVal.handlesL bs)
    | [], [], _ => rfl
    | a :: as, b :: bs, h => by
      simp only [VRelL] at h
      have h1 := VRel.cts h.1
      have h2 := VRelL.cts h.2
      simp only [Mem.cts, MVal.handlesL, List.map_append] at h1 h2 ⊢
      rw [h1, h2]
    | [], _ :: _, h => by simp [VRelL] at h
    | _ :: _, [], h => by simp [VRelL] at h
end

theorem VRelL.length : ∀ {as bs : List MVal}, VRelL as bs → as.length = bs.length
  | [], [], _ => rfl
  | _ :: as, _ :: bs, h => by simp only [VRelL] at h; simp [VRelL.length h.2]
  | [], _ :: _, h => by simp [VRelL] at h
  | _ :: _, [], h => by simp [VRelL] at h

theorem VRelL.getElem? : ∀ {as bs : List MVal} (k : Nat), VRelL as bs →
    match as[k]?, bs[k]? with
    | some a, some b => VRel a b
    | none, none => True
    | _, _ => False
  | [], [], _, _ => by simp
  | a :: as, b :: bs, 0, h => by simp only [VRelL] at h; simpa using h.1
  | a :: as, b :: bs, k + 1, h => by
    simp only [VRelL] at h
    simpa using VRelL.getElem? k h.2
  | [], _ :: _, _, h => by simp [VRelL] at h
  | _ :: _, [], _, h => by simp [VRelL] at h

theorem VRelL.set : ∀ {as bs : List MVal} (k : Nat) {a b : MVal}, VRelL as bs → VRel a b →
    VRelL (as.set k a) (bs.set k b)
  | [], [], _, _, _, _, _ => by simp [VRelL]
  | x :: as, y :: bs, 0, a, b, h, hab => by
    simp only [VRelL] at h; simp only [List.set_cons_zero, VRelL]; exact ⟨hab, h.2⟩
  | x :: as, y :: bs, k + 1, a, b, h, hab => by
    simp only [VRelL] at h; simp only [List.set_cons_succ, VRelL]; exact ⟨h.1, VRelL.set k h.2 hab⟩
  | [], _ :: _, _, _, _, h, _ => by simp [VRelL] at h
  | _ :: _, [], _, _, _, h, _ => by simp [VRelL] at h

theorem VRelL.append : ∀ {as bs cs ds : List MVal}, VRelL as bs → VRelL cs ds →
    VRelL (as ++ cs) (bs ++ ds)
  | [], [], _, _, _, h => by simpa using h
  | a :: as, b :: bs, _, _, h₁, h₂ => by
    simp only [VRelL] at h₁; simp only [List.cons_append, VRelL]; exact ⟨h₁.1, VRelL.append h₁.2 h₂⟩
  | [], _ :: _, _, _, h, _ => by simp [VRelL] at h
  | _ :: _, [], _, _, h, _ => by simp [VRelL] at h

theorem VRelL.reverse {as bs : List MVal} (h : VRelL as bs) : VRelL as.reverse bs.reverse := by
  induction as generalizing bs with
  | nil => cases bs with
    | nil => simp [VRelL]
    | cons _ _ => simp [VRelL] at h
  | cons a as ih => cases bs with
    | nil => simp [VRelL] at h
    | cons b bs =>
      simp only [VRelL] at h
      simp only [List.reverse_cons]
      exact VRelL.append (ih h.2) (by simp only [VRelL]; exact ⟨h.1, trivial⟩)

theorem VRelL.dropLast {as bs : List MVal} (h : VRelL as bs) : VRelL as.dropLast bs.dropLast := by
  induction as generalizing bs with
  | nil => cases bs with
    | nil => simp [VRelL]
    | cons _ _ => simp [VRelL] at h
  | cons a as ih => cases bs with
    | nil => simp [VRelL] at h
    | cons b bs =>
      simp only [VRelL] at h
      cases as with
      | nil => cases bs with
        | nil => simp [VRelL]
        | cons _ _ => simp [VRelL] at h
      | cons a' as' => cases bs with
        | nil => simp [VRelL] at h
        | cons b' bs' =>
          simp only [List.dropLast_cons_cons, VRelL]
          exact ⟨h.1, ih h.2⟩

theorem VRelL.getLast {as bs : List MVal} (h : VRelL as bs) :
    VRel ((as.getLast?).getD .scalar) ((bs.getLast?).getD .scalar) := by
  induction as generalizing bs with
  | nil => cases bs with
    | nil => simp [VRel]
    | cons _ _ => simp [VRelL] at h
  | cons a as ih => cases bs with
    | nil => simp [VRelL] at h
    | cons b bs =>
      simp only [VRelL] at h
      cases as with
      | nil => cases bs with
        | nil => simpa using h.1
        | cons _ _ => simp [VRelL] at h
      | cons a' as' => cases bs with
        | nil => simp [VRelL] at h
        | cons b' bs' =>
          simp only [List.getLast?_cons_cons]
          exact ih h.2

/-! ### States in lock step -/

def SlotsRel : List Slot → List Slot → Prop
  | [], [] => True
  | a :: as, b :: bs => a.id = b.id ∧ VRel a.val b.val ∧ SlotsRel as bs
  | _, _ => False

def EnvRel : List (List Slot) → List (List Slot) → Prop
  | [], [] => True
  | a :: as, b :: bs => SlotsRel a b ∧ EnvRel as bs
  | _, _ => False

def TempsRel : List TE → List TE → Prop
  | [], [] => True
  | .val a :: as, .val b :: bs => VRel a b ∧ TempsRel as bs
  | .mark _ _ :: as, .mark _ _ :: bs => TempsRel as bs
  | _, _ => False

/-- The logical (heap-independent) parts of the two states correspond. -/
structure R (s₁ s₂ : St) : Prop where
  ctl : s₁.ctl = s₂.ctl
  env : EnvRel s₁.env s₂.env
  fns : s₁.fns = s₂.fns
  out : VRelL s₁.out s₂.out
  temps : TempsRel s₁.temps s₂.temps
  obs : s₁.obs = s₂.obs
  nextCt : s₁.nextCt = s₂.nextCt

/-- The logical part of a state is unchanged. -/
structure SameL (s s' : St) : Prop where
  ctl : s'.ctl = s.ctl
  env : s'.env = s.env
  fns : s'.fns = s.fns
  out : s'.out = s.out
  temps : s'.temps = s.temps
  obs : s'.obs = s.obs
  nextCt : s'.nextCt = s.nextCt

theorem SameL.refl (s : St) : SameL s s := ⟨rfl, rfl, rfl, rfl, rfl, rfl, rfl⟩

theorem SameL.trans {a b c : St} (h₁ : SameL a b) (h₂ : SameL b c) : SameL a c :=
  ⟨h₂.ctl.trans h₁.ctl, h₂.env.trans h₁.env, h₂.fns.trans h₁.fns, h₂.out.trans h₁.out,
   h₂.temps.trans h₁.temps, h₂.obs.trans h₁.obs, h₂.nextCt.trans h₁.nextCt⟩

theorem R.left {s₁ s₁' s₂ : St} (h : R s₁ s₂) (e : SameL s₁ s₁') : R s₁' s₂ :=
  ⟨e.ctl ▸ h.ctl, e.env ▸ h.env, e.fns ▸ h.fns, e.out ▸ h.out, e.temps ▸ h.temps, e.obs ▸ h.obs,
   e.nextCt ▸ h.nextCt⟩

theorem R.right {s₁ s₂ s₂' : St} (h : R s₁ s₂) (e : SameL s₂ s₂') : R s₁ s₂' :=
  ⟨e.ctl ▸ h.ctl, e.env ▸ h.env, e.fns ▸ h.fns, e.out ▸ h.out, e.temps ▸ h.temps, e.obs ▸ h.obs,
   e.nextCt ▸ h.nextCt⟩

/-- What both runs agree on when they end. -/
def Fin (t₁ t₂ : St) : Prop := t₁.obs = t₂.obs ∧ VRelL t₁.out t₂.out

theorem R.fin {s₁ s₂ : St} (h : R s₁ s₂) : Fin s₁ s₂ := ⟨h.obs, h.out⟩

/-! ### Relational triples -/

def RTriple (P : St → St → Prop) (m₁ m₂ : M α) (Q : α → α → St → St → Prop) : Prop :=
  ∀ s₁ s₂, P s₁ s₂ →
    match m₁ s₁, m₂ s₂ with
    | .ok a₁ t₁, .ok a₂ t₂ => Q a₁ a₂ t₁ t₂
    | .stop o₁ t₁, .stop o₂ t₂ => o₁ = .rtError → o₂ = .rtError → Fin t₁ t₂
    | .stop o₁ _, .ok _ _ => o₁ ≠ .rtError
    | .ok _ _, .stop o₂ _ => o₂ ≠ .rtError

theorem RTriple.bind {P : St → St → Prop} {m₁ m₂ : M α} {Q : α → α → St → St → Prop}
    {k₁ k₂ : α → M β} {S : β → β → St → St → Prop}
    (h₁ : RTriple P m₁ m₂ Q) (h₂ : ∀ a₁ a₂, RTriple (Q a₁ a₂) (k₁ a₁) (k₂ a₂) S) :
    RTriple P (m₁ >>= k₁) (m₂ >>= k₂) S := by
  intro s₁ s₂ hp
  have h := h₁ s₁ s₂ hp
  show match M.bind m₁ k₁ s₁, M.bind m₂ k₂ s₂ with
    | .ok a₁ t₁, .ok a₂ t₂ => S a₁ a₂ t₁ t₂
    | .stop o₁ t₁, .stop o₂ t₂ => o₁ = .rtError → o₂ = .rtError → Fin t₁ t₂
    | .stop o₁ _, .ok _ _ => o₁ ≠ .rtError
    | .ok _ _, .stop o₂ _ => o₂ ≠ .rtError
  unfold M.bind
  cases hm₁ : m₁ s₁ with
  | ok a₁ t₁ =>
    cases hm₂ : m₂ s₂ with
    | ok a₂ t₂ =>
      rw [hm₁, hm₂] at h
      exact h₂ a₁ a₂ t₁ t₂ h
    | stop o₂ t₂ =>
      rw [hm₁, hm₂] at h
      simp only at h ⊢
      cases hk : k₁ a₁ t₁ with
      | ok b t => simpa [hk] using h
      | stop o t => simp only [hk]; intro _ ho; exact absurd ho h
  | stop o₁ t₁ =>
    cases hm₂ : m₂ s₂ with
    | ok a₂ t₂ =>
      rw [hm₁, hm₂] at h
      simp only at h ⊢
      cases hk : k₂ a₂ t₂ with
      | ok b t => simpa [hk] using h
      | stop o t => simp only [hk]; intro ho _; exact absurd ho h
    | stop o₂ t₂ =>
      rw [hm₁, hm₂] at h
      exact h

theorem RTriple.pure {P : St → St → Prop} {Q : α → α → St → St → Prop} (a₁ a₂ : α)
    (h : ∀ s₁ s₂, P s₁ s₂ → Q a₁ a₂ s₁ s₂) : RTriple P (pure a₁ : M α) (pure a₂) Q :=
  fun s₁ s₂ hp => h s₁ s₂ hp

theorem RTriple.pre {P P' : St → St → Prop} {m₁ m₂ : M α} {Q : α → α → St → St → Prop}
    (h : RTriple P m₁ m₂ Q) (hp : ∀ s₁ s₂, P' s₁ s₂ → P s₁ s₂) : RTriple P' m₁ m₂ Q :=
  fun s₁ s₂ hs => h s₁ s₂ (hp s₁ s₂ hs)

theorem RTriple.post {P : St → St → Prop} {m₁ m₂ : M α} {Q Q' : α → α → St → St → Prop}
    (h : RTriple P m₁ m₂ Q) (hq : ∀ a₁ a₂ t₁ t₂, Q a₁ a₂ t₁ t₂ → Q' a₁ a₂ t₁ t₂) :
    RTriple P m₁ m₂ Q' := by
  intro s₁ s₂ hp
  have := h s₁ s₂ hp
  cases hm₁ : m₁ s₁ <;> cases hm₂ : m₂ s₂ <;> rw [hm₁, hm₂] at this <;> simp only at this ⊢
  · exact hq _ _ _ _ this
  · exact this
  · exact this
  · exact this

theorem RTriple.assume {P : St → St → Prop} {φ : Prop} {m₁ m₂ : M α}
    {Q : α → α → St → St → Prop} (h : φ → RTriple P m₁ m₂ Q) :
    RTriple (fun s₁ s₂ => P s₁ s₂ ∧ φ) m₁ m₂ Q :=
  fun s₁ s₂ hs => h hs.2 s₁ s₂ hs.1

/-- Both sides stop (for whatever reason) from related states. -/
theorem RTriple.stops {Q : α → α → St → St → Prop} {m₁ m₂ : M α}
    (h₁ : ∀ s, ∃ o, m₁ s = .stop o s) (h₂ : ∀ s, ∃ o, m₂ s = .stop o s) : RTriple R m₁ m₂ Q := by
  intro s₁ s₂ hr
  obtain ⟨o₁, e₁⟩ := h₁ s₁
  obtain ⟨o₂, e₂⟩ := h₂ s₂
  rw [e₁, e₂]
  exact fun _ _ => hr.fin

theorem RTriple.halt {Q : α → α → St → St → Prop} (o₁ o₂ : Stop) :
    RTriple R (halt o₁ : M α) (halt o₂) Q :=
  RTriple.stops (fun _ => ⟨o₁, rfl⟩) (fun _ => ⟨o₂, rfl⟩)

/-- A step that touches the heap, the layout oracle and the event log only, and never ends the run
with a runtime error. -/
def HeapOnly (m : M α) (Qv : α → Prop) : Prop :=
  ∀ s, (∀ a s', m s = .ok a s' → SameL s s' ∧ Qv a) ∧ (∀ o s', m s = .stop o s' → o ≠ .rtError)

theorem HeapOnly.bind {m : M α} {Qv : α → Prop} {k : α → M β} {Qw : β → Prop}
    (h₁ : HeapOnly m Qv) (h₂ : ∀ a, Qv a → HeapOnly (k a) Qw) : HeapOnly (m >>= k) Qw := by
  intro s
  have hm := h₁ s
  show (∀ a s', M.bind m k s = .ok a s' → _) ∧ (∀ o s', M.bind m k s = .stop o s' → _)
  unfold M.bind
  cases hms : m s with
  | ok a s1 =>
    obtain ⟨hs, hq⟩ := hm.1 a s1 hms
    have hk := h₂ a hq s1
    exact ⟨fun b s' hb => ⟨hs.trans (hk.1 b s' hb).1, (hk.1 b s' hb).2⟩, hk.2⟩
  | stop o s1 =>
    refine ⟨fun a s' h => (by cases h), fun o' s' h => ?_⟩
    cases h
    exact hm.2 o s1 hms

theorem HeapOnly.pure (a : α) {Qv : α → Prop} (h : Qv a) : HeapOnly (pure a : M α) Qv := by
  intro s
  refine ⟨fun a' s' hm => ?_, fun o s' hm => (by cases hm)⟩
  cases hm; exact ⟨SameL.refl s, h⟩

theorem HeapOnly.post {m : M α} {Qv Qw : α → Prop} (h : HeapOnly m Qv) (hq : ∀ a, Qv a → Qw a) :
    HeapOnly m Qw := fun s =>
  ⟨fun a s' hm => ⟨((h s).1 a s' hm).1, hq a ((h s).1 a s' hm).2⟩, (h s).2⟩

/-- A heap-only step on the left, then in lock step. -/
theorem RTriple.left {m : M α} {Qv : α → Prop} {k : α → M β} {m₂ : M β}
    {S : β → β → St → St → Prop} (h₁ : HeapOnly m Qv) (h₂ : ∀ a, Qv a → RTriple R (k a) m₂ S) :
    RTriple R (m >>= k) m₂ S := by
  intro s₁ s₂ hr
  have hm := h₁ s₁
  show match M.bind m k s₁, m₂ s₂ with
    | .ok a₁ t₁, .ok a₂ t₂ => S a₁ a₂ t₁ t₂
    | .stop o₁ t₁, .stop o₂ t₂ => o₁ = .rtError → o₂ = .rtError → Fin t₁ t₂
    | .stop o₁ _, .ok _ _ => o₁ ≠ .rtError
    | .ok _ _, .stop o₂ _ => o₂ ≠ .rtError
  unfold M.bind
  cases hms : m s₁ with
  | ok a s1 =>
    obtain ⟨hs, hq⟩ := hm.1 a s1 hms
    exact h₂ a hq s1 s₂ (hr.left hs)
  | stop o s1 =>
    have hne := hm.2 o s1 hms
    cases hm₂ : m₂ s₂ with
    | ok b t => exact hne
    | stop o₂ t => intro ho; exact absurd ho hne

/-- A heap-only step on the right, then in lock step. -/
theorem RTriple.right {m : M α} {Qv : α → Prop} {k : α → M β} {m₁ : M β}
    {S : β → β → St → St → Prop} (h₁ : HeapOnly m Qv) (h₂ : ∀ a, Qv a → RTriple R m₁ (k a) S) :
    RTriple R m₁ (m >>= k) S := by
  intro s₁ s₂ hr
  have hm := h₁ s₂
  show match m₁ s₁, M.bind m k s₂ with
    | .ok a₁ t₁, .ok a₂ t₂ => S a₁ a₂ t₁ t₂
    | .stop o₁ t₁, .stop o₂ t₂ => o₁ = .rtError → o₂ = .rtError → Fin t₁ t₂
    | .stop o₁ _, .ok _ _ => o₁ ≠ .rtError
    | .ok _ _, .stop o₂ _ => o₂ ≠ .rtError
  unfold M.bind
  cases hms : m s₂ with
  | ok a s1 =>
    obtain ⟨hs, hq⟩ := hm.1 a s1 hms
    exact h₂ a hq s₁ s1 (hr.right hs)
  | stop o s1 =>
    have hne := hm.2 o s1 hms
    cases hm₁ : m₁ s₁ with
    | ok b t => exact hne
    | stop o₁ t => intro _ ho; exact absurd ho hne

/-- Heap-only steps on both sides. -/
theorem RTriple.both {m₁ m₂ : M α} {Q₁ Q₂ : α → Prop} (h₁ : HeapOnly m₁ Q₁) (h₂ : HeapOnly m₂ Q₂) :
    RTriple R m₁ m₂ (fun a₁ a₂ t₁ t₂ => R t₁ t₂ ∧ Q₁ a₁ ∧ Q₂ a₂) := by
  intro s₁ s₂ hr
  have hm₁ := h₁ s₁
  have hm₂ := h₂ s₂
  cases e₁ : m₁ s₁ with
  | ok a₁ t₁ =>
    cases e₂ : m₂ s₂ with
    | ok a₂ t₂ =>
      obtain ⟨hs₁, hq₁⟩ := hm₁.1 a₁ t₁ e₁
      obtain ⟨hs₂, hq₂⟩ := hm₂.1 a₂ t₂ e₂
      exact ⟨(hr.left hs₁).right hs₂, hq₁, hq₂⟩
    | stop o₂ t₂ => exact hm₂.2 o₂ t₂ e₂
  | stop o₁ t₁ =>
    cases e₂ : m₂ s₂ with
    | ok a₂ t₂ => exact hm₁.2 o₁ t₁ e₁
    | stop o₂ t₂ => intro ho; exact absurd ho (hm₁.2 o₁ t₁ e₁)

/-! ### Heap-only primitives -/

theorem emit_heapOnly (e : Ev) : HeapOnly (emit e) (fun _ => True) := by
  intro s
  refine ⟨fun a s' hm => ?_, fun o s' hm => (by cases hm)⟩
  cases hm; exact ⟨⟨rfl, rfl, rfl, rfl, rfl, rfl, rfl⟩, trivial⟩

theorem readH_heapOnly (site : Nat) (h : Handle) (hs : site < 50) :
    HeapOnly (readH site h) (fun _ => True) := by
  intro s
  refine ⟨fun a s' hm => ?_, fun o s' hm => ?_⟩ <;> unfold readH at hm <;> split at hm <;> cases hm
  · refine ⟨⟨rfl, rfl, rfl, rfl, rfl, ?_, rfl⟩, trivial⟩
    simp [observed, Nat.not_le.mpr hs]
  · simp

theorem allocFrame_heapOnly (b : Bool) (ct : Nat) :
    HeapOnly (allocFrame b ct) (fun h => h.ct = ct ∧ h.isStr = b) := by
  intro s
  refine ⟨fun a s' hm => ?_, fun o s' hm => (by cases hm)⟩
  cases hm; exact ⟨⟨rfl, rfl, rfl, rfl, rfl, rfl, rfl⟩, rfl, rfl⟩

theorem allocPersist_heapOnly (b : Bool) (ct : Nat) :
    HeapOnly (allocPersist b ct) (fun h => h.ct = ct ∧ h.isStr = b) := by
  intro s
  refine ⟨fun a s' hm => ?_, fun o s' hm => (by cases hm)⟩
  cases hm; exact ⟨⟨rfl, rfl, rfl, rfl, rfl, rfl, rfl⟩, rfl, rfl⟩

theorem allocPool_heapOnly (ct : Nat) :
    HeapOnly (allocPool ct) (fun h => h.ct = ct ∧ h.isStr = true) := by
  intro s
  refine ⟨fun a s' hm => ?_, fun o s' hm => ?_⟩
  · unfold allocPool at hm
    split at hm
    · cases hm
    · simp only at hm
      split at hm
      · cases hm; exact ⟨⟨rfl, rfl, rfl, rfl, rfl, rfl, rfl⟩, rfl, rfl⟩
      · split at hm
        · cases hm; exact ⟨⟨rfl, rfl, rfl, rfl, rfl, rfl, rfl⟩, rfl, rfl⟩
        · split at hm
          · cases hm; exact ⟨⟨rfl, rfl, rfl, rfl, rfl, rfl, rfl⟩, rfl, rfl⟩
          · cases hm; exact ⟨⟨rfl, rfl, rfl, rfl, rfl, rfl, rfl⟩, rfl, rfl⟩
  · unfold allocPool at hm
    split at hm
    · cases hm; simp
    · simp only at hm
      split at hm
      · cases hm
      · split at hm
        · cases hm
        · split at hm <;> cases hm

theorem freeH_heapOnly (h : Handle) : HeapOnly (freeH h) (fun _ => True) := by
  intro s
  refine ⟨fun a s' hm => ?_, fun o s' hm => ?_⟩
  · unfold freeH at hm
    split at hm
    · split at hm
      · split at hm
        · split at hm
          · split at hm
            · cases hm; exact ⟨⟨rfl, rfl, rfl, rfl, rfl, rfl, rfl⟩, trivial⟩
            · cases hm
          · cases hm
        · cases hm
      · cases hm; exact ⟨SameL.refl s, trivial⟩
    · cases hm; exact ⟨SameL.refl s, trivial⟩
  · unfold freeH at hm
    split at hm
    · split at hm
      · split at hm
        · split at hm
          · split at hm
            · cases hm
            · cases hm; simp
          · cases hm; simp
        · cases hm; simp
      · cases hm
    · cases hm

theorem freeTop_heapOnly (v : MVal) : HeapOnly (freeTop v) (fun _ => True) := by
  cases v with
  | scalar => exact HeapOnly.pure () trivial
  | leaf h => exact freeH_heapOnly h
  | arr _ _ => exact HeapOnly.pure () trivial

theorem freeSlots_heapOnly : ∀ sl : List Slot, HeapOnly (freeSlots sl) (fun _ => True)
  | [] => HeapOnly.pure () trivial
  | a :: sl => by
    unfold freeSlots
    exact HeapOnly.bind (freeTop_heapOnly a.val) (fun _ _ => freeSlots_heapOnly sl)

theorem promoteCopy_heapOnly (site : Nat) (hs : site < 50) (a : Handle) (hstr : a.isStr = true) :
    HeapOnly (do readH site a; let h' ← allocPool a.ct; pure (MVal.leaf h'))
      (fun v' => VRel v' (.leaf a)) := by
  refine HeapOnly.bind (readH_heapOnly site a hs) (fun _ _ => ?_)
  refine HeapOnly.bind (allocPool_heapOnly a.ct) (fun h' hq => ?_)
  exact HeapOnly.pure _ (by simp only [VRel]; exact ⟨hq.1, hq.2.trans hstr.symm⟩)

mutual
  theorem promote_heapOnly : ∀ v : MVal, HeapOnly (promote v) (fun v' => VRel v' v)
    | .scalar => by simp only [promote]; exact HeapOnly.pure _ (by simp [VRel])
    | .leaf a => by
      simp only [promote]
      split
      · rename_i hstr
        split
        · split
          · exact promoteCopy_heapOnly 30 (by decide) a hstr
          · exact HeapOnly.pure _ (VRel.refl _)
        · split
          · exact promoteCopy_heapOnly 31 (by decide) a hstr
          · exact HeapOnly.pure _ (VRel.refl _)
      · rename_i hstr
        have hf : a.isStr = false := by simpa using hstr
        refine HeapOnly.bind (emit_heapOnly _) (fun _ _ => ?_)
        split
        · refine HeapOnly.bind (readH_heapOnly 32 a (by decide)) (fun _ _ => ?_)
          refine HeapOnly.bind (allocPersist_heapOnly false a.ct) (fun h' hq => ?_)
          exact HeapOnly.pure _ (by simp only [VRel]; exact ⟨hq.1, hq.2.trans hf.symm⟩)
        · exact HeapOnly.pure _ (VRel.refl _)
    | .arr b xs => by
      simp only [promote]
      refine HeapOnly.bind (emit_heapOnly _) (fun _ _ => ?_)
      refine HeapOnly.bind (readH_heapOnly 33 b (by decide)) (fun _ _ => ?_)
      refine HeapOnly.bind (allocPersist_heapOnly false b.ct) (fun b' hq => ?_)
      refine HeapOnly.bind (promoteL_heapOnly xs) (fun xs' hx => ?_)
      exact HeapOnly.pure _ (by simp only [VRel]; exact ⟨hq.1, hx⟩)
  theorem promoteL_heapOnly : ∀ vs : List MVal, HeapOnly (promoteL vs) (fun vs' => VRelL vs' vs)
    | [] => by simp only [promoteL]; exact HeapOnly.pure _ (by simp [VRelL])
    | v :: vs => by
      simp only [promoteL]
      refine HeapOnly.bind (promote_heapOnly v) (fun v' hv => ?_)
      refine HeapOnly.bind (promoteL_heapOnly vs) (fun vs' hvs => ?_)
      exact HeapOnly.pure _ (by simp only [VRelL]; exact ⟨hv, hvs⟩)
end

/-! ### Primitives in lock step -/

/-- Post-condition "still related, equal results". -/
abbrev REq {α : Type} : α → α → St → St → Prop := fun a₁ a₂ t₁ t₂ => R t₁ t₂ ∧ a₁ = a₂

/-- Post-condition "still related, related values". -/
abbrev RVal : MVal → MVal → St → St → Prop := fun v₁ v₂ t₁ t₂ => R t₁ t₂ ∧ VRel v₁ v₂

theorem tokWith_rel (pick : CTok → Option α) (ev₁ ev₂ : α → Ev) (why : Nat) :
    RTriple R (tokWith pick ev₁ why) (tokWith pick ev₂ why) REq := by
  intro s₁ s₂ hr
  unfold tokWith
  have hc := hr.ctl
  cases h₁ : s₁.ctl with
  | nil =>
    rw [h₁] at hc; rw [← hc]
    exact fun _ _ => hr.fin
  | cons t r =>
    rw [h₁] at hc; rw [← hc]
    simp only
    cases pick t with
    | none => exact fun _ _ => hr.fin
    | some a =>
      simp only
      exact ⟨⟨rfl, hr.env, hr.fns, hr.out, hr.temps, hr.obs, hr.nextCt⟩, rfl⟩

theorem tokBr_rel : RTriple R tokBr tokBr REq := tokWith_rel _ _ _ _
theorem tokLp_rel : RTriple R tokLp tokLp REq := tokWith_rel _ _ _ _
theorem tokSc_rel : RTriple R tokSc tokSc REq := tokWith_rel _ _ _ _
theorem tokIx_rel : RTriple R tokIx tokIx REq := tokWith_rel _ _ _ _
theorem tokSplit_rel : RTriple R tokSplit tokSplit REq := tokWith_rel _ _ _ _
theorem tokCall_rel (n : Nat) : RTriple R (tokCall n) (tokCall n) REq := tokWith_rel _ _ _ _

theorem errAt_rel (k : Nat) (sp : Span) : RTriple R (errAt k sp) (errAt k sp) REq := by
  intro s₁ s₂ hr
  unfold errAt
  have hc := hr.ctl
  cases h₁ : s₁.ctl with
  | nil => rw [h₁] at hc; rw [← hc]; exact ⟨hr, rfl⟩
  | cons t r =>
    rw [h₁] at hc; rw [← hc]
    cases t with
    | err k' lo hi =>
      simp only
      by_cases hk : k' = k ∧ lo = sp.lo ∧ hi = sp.hi
      · rw [if_pos hk, if_pos hk]; exact fun _ _ => hr.fin
      · rw [if_neg hk, if_neg hk]; exact ⟨hr, rfl⟩
    | br _ => exact ⟨hr, rfl⟩
    | lp _ => exact ⟨hr, rfl⟩
    | sc _ => exact ⟨hr, rfl⟩
    | ix _ => exact ⟨hr, rfl⟩
    | split _ => exact ⟨hr, rfl⟩
    | call => exact ⟨hr, rfl⟩

theorem shapeError_rel {Q : α → α → St → St → Prop} :
    RTriple R (shapeError : M α) (shapeError : M α) Q := by
  intro s₁ s₂ hr
  unfold shapeError
  have hc := hr.ctl
  cases h₁ : s₁.ctl with
  | nil => rw [h₁] at hc; rw [← hc]; exact fun _ _ => hr.fin
  | cons t r =>
    rw [h₁] at hc; rw [← hc]
    cases t <;> exact fun _ _ => hr.fin

theorem freshCt_rel : RTriple R freshCt freshCt REq := by
  intro s₁ s₂ hr
  exact ⟨⟨hr.ctl, hr.env, hr.fns, hr.out, hr.temps, hr.obs, by simp [hr.nextCt]⟩, hr.nextCt⟩

theorem readH_rel (site : Nat) {h₁ h₂ : Handle} (hct : h₁.ct = h₂.ct) :
    RTriple R (readH site h₁) (readH site h₂) (fun _ _ => R) := by
  intro s₁ s₂ hr
  unfold readH
  by_cases hv₁ : s₁.valid h₁ = true <;> by_cases hv₂ : s₂.valid h₂ = true
  · rw [if_pos hv₁, if_pos hv₂]
    exact ⟨hr.ctl, hr.env, hr.fns, hr.out, hr.temps, by simp [observed, hct, hr.obs], hr.nextCt⟩
  · rw [if_pos hv₁, if_neg hv₂]; simp
  · rw [if_neg hv₁, if_pos hv₂]; simp
  · rw [if_neg hv₁, if_neg hv₂]; intro h; cases h

theorem readHs_rel (site : Nat) : ∀ {hs₁ hs₂ : List Handle}, cts hs₁ = cts hs₂ →
    RTriple R (readHs site hs₁) (readHs site hs₂) (fun _ _ => R)
  | [], [], _ => RTriple.pure _ _ (fun _ _ h => h)
  | a :: as, b :: bs, h => by
    simp only [cts, List.map_cons, List.cons.injEq] at h
    unfold readHs
    exact RTriple.bind (readH_rel site h.1) (fun _ _ => readHs_rel site h.2)
  | [], _ :: _, h => by simp [cts] at h
  | _ :: _, [], h => by simp [cts] at h

theorem readV_rel (site : Nat) {v₁ v₂ : MVal} (h : VRel v₁ v₂) :
    RTriple R (readV site v₁) (readV site v₂) (fun _ _ => R) := readHs_rel site h.cts

/-- The same heap-only allocation on both sides. -/
theorem allocFrame_rel (b : Bool) (ct : Nat) :
    RTriple R (allocFrame b ct) (allocFrame b ct)
      (fun h₁ h₂ t₁ t₂ => R t₁ t₂ ∧ h₁.ct = h₂.ct ∧ h₁.isStr = h₂.isStr) :=
  (RTriple.both (allocFrame_heapOnly b ct) (allocFrame_heapOnly b ct)).post
    (fun _ _ _ _ h => ⟨h.1, h.2.1.1.trans h.2.2.1.symm, h.2.1.2.trans h.2.2.2.symm⟩)

theorem allocPersist_rel (b : Bool) (ct : Nat) :
    RTriple R (allocPersist b ct) (allocPersist b ct)
      (fun h₁ h₂ t₁ t₂ => R t₁ t₂ ∧ h₁.ct = h₂.ct ∧ h₁.isStr = h₂.isStr) :=
  (RTriple.both (allocPersist_heapOnly b ct) (allocPersist_heapOnly b ct)).post
    (fun _ _ _ _ h => ⟨h.1, h.2.1.1.trans h.2.2.1.symm, h.2.1.2.trans h.2.2.2.symm⟩)

theorem pushT_rel {v₁ v₂ : MVal} (h : VRel v₁ v₂) :
    RTriple R (pushT v₁) (pushT v₂) (fun _ _ => R) := by
  intro s₁ s₂ hr
  exact ⟨hr.ctl, hr.env, hr.fns, hr.out, by simp only [TempsRel]; exact ⟨h, hr.temps⟩, hr.obs, hr.nextCt⟩

theorem popT_rel : RTriple R popT popT RVal := by
  intro s₁ s₂ hr
  unfold popT
  have ht := hr.temps
  cases h₁ : s₁.temps with
  | nil =>
    cases h₂ : s₂.temps with
    | nil => exact fun _ _ => hr.fin
    | cons t r => rw [h₁, h₂] at ht; cases t <;> simp [TempsRel] at ht
  | cons t₁ r₁ =>
    cases h₂ : s₂.temps with
    | nil => rw [h₁, h₂] at ht; cases t₁ <;> simp [TempsRel] at ht
    | cons t₂ r₂ =>
      rw [h₁, h₂] at ht
      cases t₁ with
      | val v₁ =>
        cases t₂ with
        | val v₂ =>
          simp only [TempsRel] at ht
          exact ⟨⟨hr.ctl, hr.env, hr.fns, hr.out, ht.2, hr.obs, hr.nextCt⟩, ht.1⟩
        | mark _ _ => simp [TempsRel] at ht
      | mark _ _ =>
        cases t₂ with
        | val _ => simp [TempsRel] at ht
        | mark _ _ => exact fun _ _ => hr.fin

theorem popClean_rel : RTriple R (popClean Cfg.fixed) (popClean Cfg.noReclaim) RVal := by
  simp only [popClean, Cfg.fixed, Cfg.noReclaim, if_true, Bool.false_eq_true, if_false]
  intro s₁ s₂ hr
  have hp := popT_rel s₁ s₂ hr
  unfold popCleanChecked
  unfold popT at hp
  cases h₁ : s₁.temps with
  | nil => rw [h₁] at hp; exact hp
  | cons t₁ r₁ =>
    rw [h₁] at hp
    cases t₁ with
    | mark _ _ => exact hp
    | val v₁ =>
      simp only at hp ⊢
      by_cases hall : (v₁.handles.all fun h => !h.region.isFrame) = true
      · rw [if_pos hall]; exact hp
      · rw [if_neg hall]
        generalize popT s₂ = res
        cases res with
        | ok a t => simp
        | stop o t => intro h; cases h

theorem popN_rel : ∀ (n : Nat) {acc₁ acc₂ : List MVal}, VRelL acc₁ acc₂ →
    RTriple R (popN n acc₁) (popN n acc₂) (fun vs₁ vs₂ t₁ t₂ => R t₁ t₂ ∧ VRelL vs₁ vs₂)
  | 0, _, _, h => RTriple.pure _ _ (fun _ _ hr => ⟨hr, h⟩)
  | n + 1, _, _, h => by
    unfold popN
    refine RTriple.bind popT_rel (fun v₁ v₂ => ?_)
    refine RTriple.pre (P := fun s₁ s₂ => R s₁ s₂ ∧ VRel v₁ v₂) (RTriple.assume (fun hv => ?_))
      (fun _ _ h => h)
    exact popN_rel n (by simp only [VRelL]; exact ⟨hv, h⟩)

/-! ### Marks -/

theorem pushMark_rel (kind : Nat) :
    RTriple R (pushMark Cfg.fixed kind) (pushMark Cfg.noReclaim kind) (fun _ _ => R) := by
  intro s₁ s₂ hr
  unfold pushMark
  simp only [Cfg.fixed, Cfg.noReclaim, if_true, Bool.false_eq_true, if_false]
  cases s₁.lay with
  | nil => simp
  | cons l lay =>
    exact ⟨hr.ctl, hr.env, hr.fns, hr.out, by simp only [TempsRel]; exact hr.temps, hr.obs, hr.nextCt⟩

theorem dropToMark_rel : ∀ {ts₁ ts₂ : List TE}, TempsRel ts₁ ts₂ →
    match dropToMark ts₁, dropToMark ts₂ with
    | some (_, _, r₁), some (_, _, r₂) => TempsRel r₁ r₂
    | none, none => True
    | _, _ => False
  | [], [], _ => by simp [dropToMark]
  | .val _ :: r₁, .val _ :: r₂, h => by
    simp only [TempsRel] at h
    simpa only [dropToMark] using dropToMark_rel h.2
  | .mark _ _ :: r₁, .mark _ _ :: r₂, h => by
    simp only [TempsRel] at h
    simpa only [dropToMark] using h
  | [], _ :: _, h => by simp [TempsRel] at h
  | _ :: _, [], h => by simp [TempsRel] at h
  | .val _ :: _, .mark _ _ :: _, h => by simp [TempsRel] at h
  | .mark _ _ :: _, .val _ :: _, h => by simp [TempsRel] at h

theorem resetToMark_rel (kind : Nat) :
    RTriple R (resetToMark Cfg.fixed kind) (resetToMark Cfg.noReclaim kind) (fun _ _ => R) := by
  intro s₁ s₂ hr
  have hd := dropToMark_rel hr.temps
  unfold resetToMark
  simp only [Cfg.fixed, Cfg.noReclaim, if_true, Bool.false_eq_true, if_false]
  cases h₁ : dropToMark s₁.temps with
  | none =>
    cases h₂ : dropToMark s₂.temps with
    | none => exact fun _ _ => hr.fin
    | some x => rw [h₁, h₂] at hd; exact hd.elim
  | some x =>
    cases h₂ : dropToMark s₂.temps with
    | none => rw [h₁, h₂] at hd; exact hd.elim
    | some y =>
      rw [h₁, h₂] at hd
      obtain ⟨m₁, l₁, r₁⟩ := x
      obtain ⟨m₂, l₂, r₂⟩ := y
      exact ⟨hr.ctl, hr.env, hr.fns, hr.out, hd, hr.obs, hr.nextCt⟩

theorem dropMark_rel : RTriple R dropMark dropMark (fun _ _ => R) := by
  intro s₁ s₂ hr
  have hd := dropToMark_rel hr.temps
  unfold dropMark
  cases h₁ : dropToMark s₁.temps with
  | none =>
    cases h₂ : dropToMark s₂.temps with
    | none => exact fun _ _ => hr.fin
    | some x => rw [h₁, h₂] at hd; exact hd.elim
  | some x =>
    cases h₂ : dropToMark s₂.temps with
    | none => rw [h₁, h₂] at hd; exact hd.elim
    | some y =>
      rw [h₁, h₂] at hd
      obtain ⟨m₁, l₁, r₁⟩ := x
      obtain ⟨m₂, l₂, r₂⟩ := y
      exact ⟨hr.ctl, hr.env, hr.fns, hr.out, hd, hr.obs, hr.nextCt⟩

/-- The mark of a call is reset by the reclaiming run and merely forgotten by the other. -/
theorem resetDrop_rel (kind : Nat) :
    RTriple R (resetToMark Cfg.fixed kind) dropMark (fun _ _ => R) := by
  intro s₁ s₂ hr
  have hd := dropToMark_rel hr.temps
  unfold resetToMark dropMark
  simp only [Cfg.fixed, if_true]
  cases h₁ : dropToMark s₁.temps with
  | none =>
    cases h₂ : dropToMark s₂.temps with
    | none => exact fun _ _ => hr.fin
    | some x => rw [h₁, h₂] at hd; exact hd.elim
  | some x =>
    cases h₂ : dropToMark s₂.temps with
    | none => rw [h₁, h₂] at hd; exact hd.elim
    | some y =>
      rw [h₁, h₂] at hd
      obtain ⟨m₁, l₁, r₁⟩ := x
      obtain ⟨m₂, l₂, r₂⟩ := y
      exact ⟨hr.ctl, hr.env, hr.fns, hr.out, hd, hr.obs, hr.nextCt⟩

theorem valOverMark_rel : ∀ {ts₁ ts₂ : List TE}, TempsRel ts₁ ts₂ →
    match valOverMark ts₁, valOverMark ts₂ with
    | some (v₁, r₁), some (v₂, r₂) => VRel v₁ v₂ ∧ TempsRel r₁ r₂
    | none, none => True
    | _, _ => False
  | [], [], _ => by simp [valOverMark]
  | [.val _], [.val _], _ => by simp [valOverMark]
  | .val _ :: .val _ :: _, .val _ :: .val _ :: _, _ => by simp [valOverMark]
  | .val _ :: .mark _ _ :: _, .val _ :: .mark _ _ :: _, h => by
    simp only [TempsRel] at h
    simpa [valOverMark] using h
  | .mark _ _ :: _, .mark _ _ :: _, _ => by simp [valOverMark]
  | [], _ :: _, h => by simp [TempsRel] at h
  | _ :: _, [], h => by simp [TempsRel] at h
  | .val _ :: _, .mark _ _ :: _, h => by simp [TempsRel] at h
  | .mark _ _ :: _, .val _ :: _, h => by simp [TempsRel] at h
  | [.val _], .val _ :: _ :: _, h => by simp [TempsRel] at h
  | .val _ :: _ :: _, [.val _], h => by simp [TempsRel] at h
  | .val _ :: .val _ :: _, .val _ :: .mark _ _ :: _, h => by simp [TempsRel] at h
  | .val _ :: .mark _ _ :: _, .val _ :: .val _ :: _, h => by simp [TempsRel] at h

theorem dropMarkUnderTop_rel : RTriple R dropMarkUnderTop dropMarkUnderTop (fun _ _ => R) := by
  intro s₁ s₂ hr
  have hd := valOverMark_rel hr.temps
  unfold dropMarkUnderTop
  cases h₁ : valOverMark s₁.temps with
  | none =>
    cases h₂ : valOverMark s₂.temps with
    | none => exact fun _ _ => hr.fin
    | some x => rw [h₁, h₂] at hd; exact hd.elim
  | some x =>
    cases h₂ : valOverMark s₂.temps with
    | none => rw [h₁, h₂] at hd; exact hd.elim
    | some y =>
      rw [h₁, h₂] at hd
      obtain ⟨v₁, r₁⟩ := x
      obtain ⟨v₂, r₂⟩ := y
      exact ⟨hr.ctl, hr.env, hr.fns, hr.out, by simp only [TempsRel]; exact hd, hr.obs, hr.nextCt⟩

/-! ### Environment in lock step -/

theorem findSlot_rel : ∀ {a b : List Slot} (id : Nat), SlotsRel a b →
    match findSlot id a, findSlot id b with
    | some v₁, some v₂ => VRel v₁ v₂
    | none, none => True
    | _, _ => False
  | [], [], _, _ => by simp [findSlot]
  | x :: a, y :: b, id, h => by
    simp only [SlotsRel] at h
    simp only [findSlot, ← h.1]
    by_cases hid : x.id = id
    · simp only [hid, if_true]; exact h.2.1
    · simp only [hid, if_false]; exact findSlot_rel id h.2.2
  | [], _ :: _, _, h => by simp [SlotsRel] at h
  | _ :: _, [], _, h => by simp [SlotsRel] at h

theorem lookupEnv_rel : ∀ {a b : List (List Slot)} (id : Nat), EnvRel a b →
    match lookupEnv id a, lookupEnv id b with
    | some v₁, some v₂ => VRel v₁ v₂
    | none, none => True
    | _, _ => False
  | [], [], _, _ => by simp [lookupEnv]
  | x :: a, y :: b, id, h => by
    simp only [EnvRel] at h
    have hf := findSlot_rel id h.1
    simp only [lookupEnv]
    cases h₁ : findSlot id x <;> cases h₂ : findSlot id y <;> rw [h₁, h₂] at hf
    · exact lookupEnv_rel id h.2
    · exact hf.elim
    · exact hf.elim
    · exact hf
  | [], _ :: _, _, h => by simp [EnvRel] at h
  | _ :: _, [], _, h => by simp [EnvRel] at h

theorem setSlot_rel : ∀ {a b : List Slot} (id : Nat) {v₁ v₂ : MVal}, SlotsRel a b → VRel v₁ v₂ →
    SlotsRel (setSlot id v₁ a) (setSlot id v₂ b)
  | [], [], _, _, _, _, _ => by simp [setSlot, SlotsRel]
  | x :: a, y :: b, id, _, _, h, hv => by
    simp only [SlotsRel] at h
    simp only [setSlot, ← h.1]
    by_cases hid : x.id = id
    · simp only [hid, if_true, SlotsRel]; exact ⟨by simpa using h.1, hv, h.2.2⟩
    · simp only [hid, if_false, SlotsRel]; exact ⟨by simpa using h.1, h.2.1, setSlot_rel id h.2.2 hv⟩
  | [], _ :: _, _, _, _, h, _ => by simp [SlotsRel] at h
  | _ :: _, [], _, _, _, h, _ => by simp [SlotsRel] at h

theorem setEnv_rel : ∀ {a b : List (List Slot)} (id : Nat) {v₁ v₂ : MVal}, EnvRel a b → VRel v₁ v₂ →
    EnvRel (setEnv id v₁ a) (setEnv id v₂ b)
  | [], [], _, _, _, _, _ => by simp [setEnv, EnvRel]
  | x :: a, y :: b, id, _, _, h, hv => by
    simp only [EnvRel] at h
    have hf := findSlot_rel id h.1
    simp only [setEnv]
    cases h₁ : findSlot id x <;> cases h₂ : findSlot id y <;> rw [h₁, h₂] at hf
    · simp only [EnvRel]; exact ⟨h.1, setEnv_rel id h.2 hv⟩
    · exact hf.elim
    · exact hf.elim
    · simp only [EnvRel]; exact ⟨setSlot_rel id h.1 hv, h.2⟩
  | [], _ :: _, _, _, _, h, _ => by simp [EnvRel] at h
  | _ :: _, [], _, _, _, h, _ => by simp [EnvRel] at h

theorem getVar_rel (id : Nat) : RTriple R (getVar id) (getVar id) RVal := by
  intro s₁ s₂ hr
  have hl := lookupEnv_rel id hr.env
  unfold getVar
  cases h₁ : lookupEnv id s₁.env <;> cases h₂ : lookupEnv id s₂.env <;> rw [h₁, h₂] at hl
  · exact fun _ _ => hr.fin
  · exact hl.elim
  · exact hl.elim
  · exact ⟨hr, hl⟩

theorem swapVar_rel (id : Nat) {v₁ v₂ : MVal} (hv : VRel v₁ v₂) :
    RTriple R (swapVar id v₁) (swapVar id v₂) RVal := by
  intro s₁ s₂ hr
  have hl := lookupEnv_rel id hr.env
  unfold swapVar
  cases h₁ : lookupEnv id s₁.env <;> cases h₂ : lookupEnv id s₂.env <;> rw [h₁, h₂] at hl
  · exact fun _ _ => hr.fin
  · exact hl.elim
  · exact hl.elim
  · exact ⟨⟨hr.ctl, setEnv_rel id hr.env hv, hr.fns, hr.out, hr.temps, hr.obs, hr.nextCt⟩, hl⟩

theorem addSlot_rel (id : Nat) {v₁ v₂ : MVal} (hv : VRel v₁ v₂) :
    RTriple R (addSlot id v₁) (addSlot id v₂) (fun _ _ => R) := by
  intro s₁ s₂ hr
  have he := hr.env
  unfold addSlot
  cases h₁ : s₁.env <;> cases h₂ : s₂.env <;> rw [h₁, h₂] at he
  · exact fun _ _ => hr.fin
  · simp [EnvRel] at he
  · simp [EnvRel] at he
  · simp only [EnvRel] at he
    exact ⟨hr.ctl, by simp only [EnvRel, SlotsRel]; exact ⟨⟨trivial, hv, he.1⟩, he.2⟩, hr.fns, hr.out,
      hr.temps, hr.obs, hr.nextCt⟩

theorem storeOut_rel {v₁ v₂ : MVal} (hv : VRel v₁ v₂) :
    RTriple R (storeOut v₁) (storeOut v₂) (fun _ _ => R) := by
  intro s₁ s₂ hr
  exact ⟨hr.ctl, hr.env, hr.fns, by simp only [VRelL]; exact ⟨hv, hr.out⟩, hr.temps, hr.obs, hr.nextCt⟩

theorem pushScope_rel : RTriple R pushScope pushScope (fun _ _ => R) := by
  intro s₁ s₂ hr
  exact ⟨hr.ctl, by simp only [EnvRel, SlotsRel]; exact ⟨trivial, hr.env⟩, by simp [hr.fns], hr.out,
    hr.temps, hr.obs, hr.nextCt⟩

theorem addFns_rel (ds : List FnDef) : RTriple R (addFns ds) (addFns ds) (fun _ _ => R) := by
  intro s₁ s₂ hr
  unfold addFns
  rw [hr.fns]
  cases s₂.fns with
  | nil => exact hr
  | cons sc r => exact ⟨hr.ctl, hr.env, by simp, hr.out, hr.temps, hr.obs, hr.nextCt⟩

theorem getFn_rel (fid : Nat) : RTriple R (getFn fid) (getFn fid) REq := by
  intro s₁ s₂ hr
  unfold getFn
  rw [hr.fns]
  cases lookupFn fid s₂.fns with
  | none => exact fun _ _ => hr.fin
  | some d => exact ⟨hr, rfl⟩

theorem inCurrentScope_rel (id : Nat) : RTriple R (inCurrentScope id) (inCurrentScope id) REq := by
  intro s₁ s₂ hr
  have he := hr.env
  unfold inCurrentScope
  cases h₁ : s₁.env <;> cases h₂ : s₂.env <;> rw [h₁, h₂] at he
  · exact fun _ _ => hr.fin
  · simp [EnvRel] at he
  · simp [EnvRel] at he
  · simp only [EnvRel] at he
    have hf := findSlot_rel id he.1
    refine ⟨hr, ?_⟩
    cases h₃ : findSlot id _ <;> cases h₄ : findSlot id _ <;> rw [h₃, h₄] at hf <;>
      first | rfl | exact hf.elim

theorem popScope_rel : RTriple R popScope popScope (fun _ _ => R) := by
  intro s₁ s₂ hr
  have he := hr.env
  unfold popScope
  cases h₁ : s₁.env <;> cases h₂ : s₂.env <;> rw [h₁, h₂] at he
  · exact ⟨hr.ctl, by simp [EnvRel], by simp [hr.fns], hr.out, hr.temps, hr.obs, hr.nextCt⟩
  · simp [EnvRel] at he
  · simp [EnvRel] at he
  · rename_i sc₁ r₁ sc₂ r₂
    simp only [EnvRel] at he
    simp only
    -- the states after dropping the scope are related; the frees touch the heaps only
    have hr' : R { s₁ with env := r₁, fns := s₁.fns.tail, events := .pop sc₁.length :: s₁.events }
        { s₂ with env := r₂, fns := s₂.fns.tail, events := .pop sc₂.length :: s₂.events } :=
      ⟨hr.ctl, he.2, by simp [hr.fns], hr.out, hr.temps, hr.obs, hr.nextCt⟩
    have := RTriple.both (freeSlots_heapOnly sc₁.reverse) (freeSlots_heapOnly sc₂.reverse) _ _ hr'
    revert this
    cases freeSlots sc₁.reverse _ <;> cases freeSlots sc₂.reverse _ <;> simp only
    · exact fun h => h.1
    · exact fun h => h
    · exact fun h => h
    · exact fun h => h

/-! ### l-value paths in lock step -/

/-- Two update functions that act alike on related values. -/
def GRel (g₁ g₂ : MVal → Option (MVal × MVal)) : Prop :=
  ∀ a₁ a₂, VRel a₁ a₂ →
    match g₁ a₁, g₂ a₂ with
    | some (a₁', r₁), some (a₂', r₂) => VRel a₁' a₂' ∧ VRel r₁ r₂
    | none, none => True
    | _, _ => False

theorem modifyAt_rel {g₁ g₂ : MVal → Option (MVal × MVal)} (hg : GRel g₁ g₂) :
    ∀ (path : List Nat) {v₁ v₂ : MVal}, VRel v₁ v₂ →
      match modifyAt path v₁ g₁, modifyAt path v₂ g₂ with
      | some (a₁, r₁, _), some (a₂, r₂, _) => VRel a₁ a₂ ∧ VRel r₁ r₂
      | none, none => True
      | _, _ => False
  | [], v₁, v₂, hv => by
    have := hg v₁ v₂ hv
    simp only [modifyAt]
    cases h₁ : g₁ v₁ <;> cases h₂ : g₂ v₂ <;> rw [h₁, h₂] at this <;> simp only [Option.map] <;> exact this
  | k :: ks, .arr b₁ xs₁, .arr b₂ xs₂, hv => by
    simp only [VRel] at hv
    have hk := VRelL.getElem? k hv.2
    simp only [modifyAt]
    cases h₁ : xs₁[k]? <;> cases h₂ : xs₂[k]? <;> rw [h₁, h₂] at hk
    · trivial
    · exact hk.elim
    · exact hk.elim
    · rename_i x₁ x₂
      have ih := modifyAt_rel hg ks hk
      simp only
      cases h₃ : modifyAt ks x₁ g₁ <;> cases h₄ : modifyAt ks x₂ g₂ <;> rw [h₃, h₄] at ih
      · trivial
      · exact ih.elim
      · exact ih.elim
      · rename_i y₁ y₂
        obtain ⟨a₁, r₁, hs₁⟩ := y₁
        obtain ⟨a₂, r₂, hs₂⟩ := y₂
        simp only at ih ⊢
        exact ⟨by simp only [VRel]; exact ⟨hv.1, VRelL.set k hv.2 ih.1⟩, ih.2⟩
  | _ :: _, .scalar, .scalar, _ => by simp [modifyAt]
  | _ :: _, .leaf _, .leaf _, _ => by simp [modifyAt]
  | _ :: _, .scalar, .leaf _, h => by simp [VRel] at h
  | _ :: _, .scalar, .arr _ _, h => by simp [VRel] at h
  | _ :: _, .leaf _, .scalar, h => by simp [VRel] at h
  | _ :: _, .leaf _, .arr _ _, h => by simp [VRel] at h
  | _ :: _, .arr _ _, .scalar, h => by simp [VRel] at h
  | _ :: _, .arr _ _, .leaf _, h => by simp [VRel] at h

theorem readHs_heapOnly (site : Nat) (hs : site < 50) : ∀ l : List Handle,
    HeapOnly (readHs site l) (fun _ => True)
  | [] => HeapOnly.pure () trivial
  | a :: l => by
    unfold readHs
    exact HeapOnly.bind (readH_heapOnly site a hs) (fun _ _ => readHs_heapOnly site hs l)

theorem modifyVar_rel (id : Nat) (path : List Nat) {g₁ g₂ : MVal → Option (MVal × MVal)}
    (hg : GRel g₁ g₂) : RTriple R (modifyVar id path g₁) (modifyVar id path g₂) RVal := by
  intro s₁ s₂ hr
  have hl := lookupEnv_rel id hr.env
  unfold modifyVar
  cases h₁ : lookupEnv id s₁.env <;> cases h₂ : lookupEnv id s₂.env <;> rw [h₁, h₂] at hl
  · exact fun _ _ => hr.fin
  · exact hl.elim
  · exact hl.elim
  · rename_i root₁ root₂
    have hm := modifyAt_rel hg path hl
    simp only
    cases h₃ : modifyAt path root₁ g₁ <;> cases h₄ : modifyAt path root₂ g₂ <;> rw [h₃, h₄] at hm
    · exact shapeError_rel s₁ s₂ hr
    · exact hm.elim
    · exact hm.elim
    · rename_i y₁ y₂
      obtain ⟨a₁, r₁, hs₁⟩ := y₁
      obtain ⟨a₂, r₂, hs₂⟩ := y₂
      simp only at hm ⊢
      have hb := RTriple.both (readHs_heapOnly 40 (by decide) hs₁) (readHs_heapOnly 40 (by decide) hs₂)
        s₁ s₂ hr
      revert hb
      cases readHs 40 hs₁ s₁ <;> cases readHs 40 hs₂ s₂ <;> simp only
      · intro hb
        rename_i t₁ _ t₂
        exact ⟨⟨hb.1.ctl, setEnv_rel id hb.1.env hm.1, hb.1.fns, hb.1.out, hb.1.temps, hb.1.obs,
          hb.1.nextCt⟩, hm.2⟩
      · exact fun h => h
      · exact fun h => h
      · exact fun h => h

/-! ### Clone on read in lock step (the same code on both sides) -/

mutual
  theorem copyRead_rel : ∀ {v₁ v₂ : MVal}, VRel v₁ v₂ →
      RTriple R (copyRead Cfg.fixed v₁) (copyRead Cfg.noReclaim v₂) RVal
    | .scalar, .scalar, _ => by
      simp only [copyRead]; exact RTriple.pure _ _ (fun _ _ h => ⟨h, by simp [VRel]⟩)
    | .leaf a₁, .leaf a₂, hv => by
      simp only [VRel] at hv
      simp only [copyRead, Cfg.fixed, Cfg.noReclaim, hv.2]
      by_cases hstr : a₂.isStr = true
      · simp only [hstr, if_true, Bool.false_eq_true, if_false]
        -- owned / borrowed may differ between the two runs: four cases
        by_cases ho₁ : a₁.owned = true <;> by_cases ho₂ : a₂.owned = true <;>
          simp only [ho₁, ho₂, if_true, if_false]
        · refine RTriple.bind (RTriple.both (emit_heapOnly _) (emit_heapOnly _)) (fun _ _ => ?_)
          refine RTriple.pre (P := R) ?_ (fun _ _ h => h.1)
          refine RTriple.bind (RTriple.both (readH_heapOnly 20 a₁ (by decide))
            (readH_heapOnly 20 a₂ (by decide))) (fun _ _ => ?_)
          refine RTriple.pre (P := R) ?_ (fun _ _ h => h.1)
          rw [hv.1]
          refine RTriple.bind (allocFrame_rel true a₂.ct) (fun h₁ h₂ => ?_)
          exact RTriple.pure _ _ (fun _ _ h => ⟨h.1, by simp only [VRel]; exact h.2⟩)
        · refine RTriple.left (emit_heapOnly _) (fun _ _ => ?_)
          refine RTriple.left (readH_heapOnly 20 a₁ (by decide)) (fun _ _ => ?_)
          refine RTriple.left (allocFrame_heapOnly true a₁.ct) (fun h₁ hq => ?_)
          exact RTriple.pure _ _ (fun _ _ h => ⟨h, by
            simp only [VRel]; exact ⟨hq.1.trans hv.1, hq.2.trans hstr.symm⟩⟩)
        · -- borrowed on the left, owned on the right: the right side copies
          refine RTriple.right (emit_heapOnly _) (fun _ _ => ?_)
          refine RTriple.right (readH_heapOnly 20 a₂ (by decide)) (fun _ _ => ?_)
          refine RTriple.right (allocFrame_heapOnly true a₂.ct) (fun h₂ hq => ?_)
          exact RTriple.pure _ _ (fun _ _ h => ⟨h, by
            simp only [VRel]; exact ⟨hv.1.trans hq.1.symm, (hv.2.trans hstr).trans hq.2.symm⟩⟩)
        · exact RTriple.pure _ _ (fun _ _ h => ⟨h, by simp only [VRel]; exact hv⟩)
      · have hf : a₂.isStr = false := by simpa using hstr
        simp only [hf, Bool.false_eq_true, if_false]
        refine RTriple.bind (RTriple.both (emit_heapOnly _) (emit_heapOnly _)) (fun _ _ => ?_)
        refine RTriple.pre (P := R) ?_ (fun _ _ h => h.1)
        refine RTriple.bind (RTriple.both (readH_heapOnly 21 a₁ (by decide))
          (readH_heapOnly 21 a₂ (by decide))) (fun _ _ => ?_)
        refine RTriple.pre (P := R) ?_ (fun _ _ h => h.1)
        rw [hv.1]
        refine RTriple.bind (allocFrame_rel false a₂.ct) (fun h₁ h₂ => ?_)
        exact RTriple.pure _ _ (fun _ _ h => ⟨h.1, by simp only [VRel]; exact h.2⟩)
    | .arr b₁ xs₁, .arr b₂ xs₂, hv => by
      simp only [VRel] at hv
      simp only [copyRead]
      refine RTriple.bind (RTriple.both (emit_heapOnly _) (emit_heapOnly _)) (fun _ _ => ?_)
      refine RTriple.pre (P := R) ?_ (fun _ _ h => h.1)
      refine RTriple.bind (RTriple.both (readH_heapOnly 22 b₁ (by decide))
        (readH_heapOnly 22 b₂ (by decide))) (fun _ _ => ?_)
      refine RTriple.pre (P := R) ?_ (fun _ _ h => h.1)
      rw [hv.1]
      refine RTriple.bind (allocFrame_rel false b₂.ct) (fun h₁ h₂ => ?_)
      refine RTriple.pre (P := fun s₁ s₂ => R s₁ s₂ ∧ h₁.ct = h₂.ct)
        (RTriple.assume (fun hb => ?_)) (fun _ _ h => ⟨h.1, h.2.1⟩)
      refine RTriple.bind (copyReadL_rel hv.2) (fun ys₁ ys₂ => ?_)
      exact RTriple.pure _ _ (fun _ _ h => ⟨h.1, by simp only [VRel]; exact ⟨hb, h.2⟩⟩)
    | .scalar, .leaf _, h => by simp [VRel] at h
    | .scalar, .arr _ _, h => by simp [VRel] at h
    | .leaf _, .scalar, h => by simp [VRel] at h
    | .leaf _, .arr _ _, h => by simp [VRel] at h
    | .arr _ _, .scalar, h => by simp [VRel] at h
    | .arr _ _, .leaf _, h => by simp [VRel] at h
  theorem copyReadL_rel : ∀ {vs₁ vs₂ : List MVal}, VRelL vs₁ vs₂ →
      RTriple R (copyReadL Cfg.fixed vs₁) (copyReadL Cfg.noReclaim vs₂)
        (fun ys₁ ys₂ t₁ t₂ => R t₁ t₂ ∧ VRelL ys₁ ys₂)
    | [], [], _ => by
      simp only [copyReadL]; exact RTriple.pure _ _ (fun _ _ h => ⟨h, by simp [VRelL]⟩)
    | v₁ :: vs₁, v₂ :: vs₂, h => by
      simp only [VRelL] at h
      simp only [copyReadL]
      refine RTriple.bind (copyRead_rel h.1) (fun y₁ y₂ => ?_)
      refine RTriple.pre (P := fun s₁ s₂ => R s₁ s₂ ∧ VRel y₁ y₂)
        (RTriple.assume (fun hy => ?_)) (fun _ _ h => h)
      refine RTriple.bind (copyReadL_rel h.2) (fun ys₁ ys₂ => ?_)
      exact RTriple.pure _ _ (fun _ _ h => ⟨h.1, by simp only [VRelL]; exact ⟨hy, h.2⟩⟩)
    | [], _ :: _, h => by simp [VRelL] at h
    | _ :: _, [], h => by simp [VRelL] at h
end

/-! ### Composite steps in lock step -/

abbrev REval (m₁ m₂ : M MVal) : Prop := RTriple R m₁ m₂ RVal
abbrev RStep {α : Type} (m₁ m₂ : M α) : Prop := RTriple R m₁ m₂ REq

/-- Carry a pure fact from a post-condition into the next step. -/
theorem RTriple.bindV {m₁ m₂ : M MVal} {k₁ k₂ : MVal → M β} {S : β → β → St → St → Prop}
    (h₁ : REval m₁ m₂) (h₂ : ∀ a₁ a₂, VRel a₁ a₂ → RTriple R (k₁ a₁) (k₂ a₂) S) :
    RTriple R (m₁ >>= k₁) (m₂ >>= k₂) S :=
  RTriple.bind h₁ (fun a₁ a₂ => RTriple.assume (fun hv => h₂ a₁ a₂ hv))

theorem RTriple.bindE {m₁ m₂ : M α} {k₁ k₂ : α → M β} {S : β → β → St → St → Prop}
    (h₁ : RStep m₁ m₂) (h₂ : ∀ a, RTriple R (k₁ a) (k₂ a) S) :
    RTriple R (m₁ >>= k₁) (m₂ >>= k₂) S :=
  RTriple.bind h₁ (fun a₁ a₂ => RTriple.assume (fun he => by subst he; exact h₂ a₁))

theorem RTriple.bindU {m₁ m₂ : M α} {k₁ k₂ : α → M β} {S : β → β → St → St → Prop}
    (h₁ : RTriple R m₁ m₂ (fun _ _ => R)) (h₂ : ∀ a₁ a₂, RTriple R (k₁ a₁) (k₂ a₂) S) :
    RTriple R (m₁ >>= k₁) (m₂ >>= k₂) S :=
  RTriple.bind h₁ h₂

/-- A heap-only step on the left against doing nothing on the right. -/
theorem RTriple.leftPure {m : M α} {Qv : α → Prop} (h : HeapOnly m Qv) (b : α) :
    RTriple R m (Pure.pure b : M α) (fun a₁ a₂ t₁ t₂ => R t₁ t₂ ∧ Qv a₁ ∧ a₂ = b) :=
  (RTriple.both h (HeapOnly.pure (Qv := fun a => a = b) b rfl)).post (fun _ _ _ _ h => h)

theorem promoteIf_rel {v₁ v₂ : MVal} (hv : VRel v₁ v₂) :
    REval (promoteIf Cfg.fixed v₁) (promoteIf Cfg.noReclaim v₂) := by
  simp only [promoteIf, Cfg.fixed, Cfg.noReclaim, if_true, Bool.false_eq_true, if_false]
  exact (RTriple.leftPure (promote_heapOnly v₁) v₂).post
    (fun a₁ a₂ _ _ h => ⟨h.1, by rw [h.2.2]; exact VRel.trans h.2.1 hv⟩)

theorem overwrite_rel (id : Nat) {v₁ v₂ : MVal} (hv : VRel v₁ v₂) :
    RTriple R (overwrite Cfg.fixed id v₁) (overwrite Cfg.noReclaim id v₂) (fun _ _ => R) := by
  simp only [overwrite, Cfg.fixed, Cfg.noReclaim, if_true, Bool.false_eq_true, if_false]
  refine RTriple.left (promote_heapOnly v₁) (fun v' hv' => ?_)
  refine RTriple.bindV (swapVar_rel id (VRel.trans hv' hv)) (fun old₁ old₂ _ => ?_)
  exact (RTriple.leftPure (freeTop_heapOnly old₁) ()).post (fun _ _ _ _ h => h.1)

theorem define_rel (id : Nat) {v₁ v₂ : MVal} (hv : VRel v₁ v₂) :
    RTriple R (define Cfg.fixed id v₁) (define Cfg.noReclaim id v₂) (fun _ _ => R) := by
  unfold define
  refine RTriple.bindE (inCurrentScope_rel id) (fun there => ?_)
  cases there with
  | true => simp only [if_true]; exact overwrite_rel id hv
  | false =>
    simp only [Bool.false_eq_true, if_false]
    exact RTriple.bindV (promoteIf_rel hv) (fun a₁ a₂ ha => addSlot_rel id ha)

theorem isStrLeaf_rel {v₁ v₂ : MVal} (h : VRel v₁ v₂) : isStrLeaf v₁ = isStrLeaf v₂ := by
  cases v₁ <;> cases v₂ <;> simp only [VRel] at h <;> simp [isStrLeaf, h]

theorem divCheck_rel (op : BinOp) (sp : Span) :
    RTriple R (divCheck op sp) (divCheck op sp) (fun _ _ => R) := by
  unfold divCheck
  split
  · exact (errAt_rel 2 sp).post (fun _ _ _ _ h => h.1)
  · exact RTriple.pure _ _ (fun _ _ h => h)

theorem newStr_rel : REval (do let ct ← freshCt; let h ← allocFrame true ct; pure (MVal.leaf h))
    (do let ct ← freshCt; let h ← allocFrame true ct; pure (MVal.leaf h)) := by
  refine RTriple.bindE freshCt_rel (fun ct => ?_)
  refine RTriple.bind (allocFrame_rel true ct) (fun h₁ h₂ => ?_)
  exact RTriple.pure _ _ (fun _ _ h => ⟨h.1, by simp only [VRel]; exact h.2⟩)

theorem scalar_rel : REval (pure .scalar) (pure .scalar) :=
  RTriple.pure _ _ (fun _ _ h => ⟨h, by simp [VRel]⟩)

theorem binop_rel (op : BinOp) (sp : Span) {l₁ l₂ r₁ r₂ : MVal} (hl : VRel l₁ l₂) (hr : VRel r₁ r₂) :
    REval (binop op l₁ r₁ sp) (binop op l₂ r₂ sp) := by
  unfold binop
  refine RTriple.bindU (readV_rel 50 hl) (fun _ _ => ?_)
  refine RTriple.bindU (readV_rel 51 hr) (fun _ _ => ?_)
  refine RTriple.bindU (divCheck_rel op sp) (fun _ _ => ?_)
  rw [isStrLeaf_rel hl, isStrLeaf_rel hr]
  split
  · exact newStr_rel
  · exact scalar_rel

theorem readSegs_rel : ∀ segs : List Seg, RTriple R (readSegs segs) (readSegs segs) (fun _ _ => R)
  | [] => RTriple.pure _ _ (fun _ _ h => h)
  | .lit _ :: r => by simp only [readSegs]; exact readSegs_rel r
  | .var _ (some id) :: r => by
    simp only [readSegs]
    refine RTriple.bindV (getVar_rel id) (fun v₁ v₂ hv => ?_)
    exact RTriple.bindU (readV_rel 52 hv) (fun _ _ => readSegs_rel r)
  | .var _ none :: _ => by simp only [readSegs]; exact RTriple.halt _ _

theorem allocStrs_rel : ∀ n : Nat, RTriple R (allocStrs n) (allocStrs n)
    (fun vs₁ vs₂ t₁ t₂ => R t₁ t₂ ∧ VRelL vs₁ vs₂)
  | 0 => RTriple.pure _ _ (fun _ _ h => ⟨h, by simp [VRelL]⟩)
  | n + 1 => by
    simp only [allocStrs]
    refine RTriple.bindE freshCt_rel (fun ct => ?_)
    refine RTriple.bind (allocFrame_rel true ct) (fun h₁ h₂ => ?_)
    refine RTriple.pre (P := fun s₁ s₂ => R s₁ s₂ ∧ (h₁.ct = h₂.ct ∧ h₁.isStr = h₂.isStr))
      (RTriple.assume (fun hh => ?_)) (fun _ _ h => h)
    refine RTriple.bind (allocStrs_rel n) (fun vs₁ vs₂ => ?_)
    exact RTriple.pure _ _ (fun _ _ h => ⟨h.1, by simp only [VRelL, VRel]; exact ⟨hh, h.2⟩⟩)

theorem bindArg_rel {v₁ v₂ : MVal} (hv : VRel v₁ v₂) :
    REval (bindArg Cfg.fixed v₁) (bindArg Cfg.noReclaim v₂) := by
  simp only [bindArg, Cfg.fixed, Cfg.noReclaim, if_true, Bool.false_eq_true, if_false]
  exact (RTriple.leftPure (promote_heapOnly v₁) v₂).post
    (fun a₁ a₂ _ _ h => ⟨h.1, by rw [h.2.2]; exact VRel.trans h.2.1 hv⟩)

theorem bindParams_rel : ∀ (ps : List (Option Nat)) {vs₁ vs₂ : List MVal}, VRelL vs₁ vs₂ →
    RTriple R (bindParams Cfg.fixed ps vs₁) (bindParams Cfg.noReclaim ps vs₂) (fun _ _ => R)
  | some id :: ps, v₁ :: vs₁, v₂ :: vs₂, h => by
    simp only [VRelL] at h
    simp only [bindParams]
    refine RTriple.bindV (bindArg_rel h.1) (fun a₁ a₂ ha => ?_)
    exact RTriple.bindU (addSlot_rel id ha) (fun _ _ => bindParams_rel ps h.2)
  | [], [], [], _ => RTriple.pure _ _ (fun _ _ h => h)
  | none :: _, _, _, _ => by simp only [bindParams]; exact RTriple.halt _ _
  | some _ :: _, [], [], _ => by simp only [bindParams]; exact RTriple.halt _ _
  | [], _ :: _, _ :: _, _ => by simp only [bindParams]; exact RTriple.halt _ _
  | _, [], _ :: _, h => by simp [VRelL] at h
  | _, _ :: _, [], h => by simp [VRelL] at h

/-- `relocate_return_value` against simply forgetting the call's mark. -/
theorem relocate_rel {v₁ v₂ : MVal} (hv : VRel v₁ v₂) :
    REval (relocate Cfg.fixed v₁) (do dropMark; pure v₂) := by
  have hprom : ∀ v : MVal, VRel v v₂ →
      REval (do let v' ← promote v; resetToMark Cfg.fixed 2; pure v') (do dropMark; pure v₂) := by
    intro v hvv
    refine RTriple.left (promote_heapOnly v) (fun v' hv' => ?_)
    refine RTriple.bindU (resetDrop_rel 2) (fun _ _ => ?_)
    exact RTriple.pure _ _ (fun _ _ h => ⟨h, VRel.trans hv' hvv⟩)
  have hplain : ∀ v : MVal, VRel v v₂ →
      REval (do resetToMark Cfg.fixed 3; pure v) (do dropMark; pure v₂) := by
    intro v hvv
    refine RTriple.bindU (resetDrop_rel 3) (fun _ _ => ?_)
    exact RTriple.pure _ _ (fun _ _ h => ⟨h, hvv⟩)
  cases v₁ with
  | scalar => simp only [relocate]; exact hplain _ hv
  | arr b els => simp only [relocate]; exact hprom _ hv
  | leaf a =>
    simp only [relocate, Cfg.fixed, Bool.or_true, Bool.and_true, if_true]
    split
    · rename_i hstr
      split
      · refine RTriple.left (readH_heapOnly 35 a (by decide)) (fun _ _ => ?_)
        refine RTriple.left (emit_heapOnly _) (fun _ _ => ?_)
        refine RTriple.bindU (resetDrop_rel 1) (fun _ _ => ?_)
        refine RTriple.left (allocFrame_heapOnly true a.ct) (fun h' hq => ?_)
        refine RTriple.left (emit_heapOnly _) (fun _ _ => ?_)
        refine RTriple.pure _ _ (fun _ _ h => ⟨h, ?_⟩)
        cases v₂ with
        | leaf a₂ =>
          simp only [VRel] at hv ⊢
          exact ⟨hq.1.trans hv.1, (hq.2.trans hstr.symm).trans hv.2⟩
        | scalar => simp [VRel] at hv
        | arr _ _ => simp [VRel] at hv
      · exact hplain _ hv
    · exact hprom _ hv

end NaijaVerif.Mem
