import NaijaVerif.Lemmas.BridgeWS
/-
Bridge resolver → evaluator, part 5: the static guarantees the evaluator's RESIDUAL panic sites rely
on, as one decidable predicate `okBlock C d` on the annotated program, and the proof that the output
of the checker has it whenever the checker reports nothing.

* arity (`callArity`, `builtinArity`): a call of a global builtin has exactly one argument; a call
  of a user function carries a `FunctionId` whose recorded parameter count (`C.arity`, the table
  `facts.functions.map paramCount`) is the number of arguments; a definition carries a `FunctionId`
  whose recorded parameter count is the length of its parameter list;
* flow (`flowEscape`): `comot` / `next` only occur inside a loop of the same function body (`d`);
* shape (`assignIndexEmpty`): the target of an index assignment is an index expression;
* literals (`numLit`): every number lexeme satisfies `C.numOk`.
The last two are properties of the PARSER's output that the checker preserves: they are assumed of
the checker's input (`srcBlock`; proved of the lexer + parser models in `Lemmas/BridgeSource.lean`).
Both are switchable (`numOk := fun _ => true`, `strictIdx := false`: nothing assumed, `src_lax`), so
that the sites they close can be left open instead.
* plan (`fnById`): a call outside the bodies of functions the optimisation plan removes is bound to
  a function the plan keeps.  `resolve_ok` is about `plan := none`; `ok_plan_block` adds a plan under
  the decidable side condition `keptBlock plan` (EVERY kept function calls kept functions only).
  That condition is stronger than what the plan of the real analyses delivers (a definition in dead
  code is kept, what only it calls is removed); `Lemmas/BridgeReach.lean` generalises it to a
  call-closed set of functions (`KeptReach`, `ok_reach_block`), of which `keptBlock` is an instance.
-/
namespace NaijaVerif.Bridge
open NaijaVerif NaijaVerif.Resolve

structure SCfg where
  /-- parameter count by `FunctionId` -/
  arity : List Nat
  /-- the number lexemes that `NumOps.ofLit` accepts -/
  numOk : Bytes → Bool
  /-- whether the target of an index assignment is required to be an index expression -/
  strictIdx : Bool
  /-- the optimisation plan the program is run with: calls in code that is kept go to kept functions -/
  plan : Option Eval.Plan := none

def SCfg.fnOk (C : SCfg) (fn : Option Nat) (n : Nat) : Bool :=
  match fn with
  | some i => C.arity[i]? == some n
  | none => false

def isIndexExpr : Expr → Bool
  | .index _ _ _ _ => true
  | _ => false

mutual
  def okExpr (C : SCfg) : Expr → Bool
    | .num lex _ => C.numOk lex
    | .bool _ _ | .null _ | .str _ _ | .var _ _ _ => true
    | .binary _ l r _ => okExpr C l && okExpr C r
    | .unary _ x _ => okExpr C x
    | .array es _ => okExprs C es
    | .index a i _ _ => okExpr C a && okExpr C i
    | .member o _ _ _ => okExpr C o
    | .call (.member obj _ _ _) args _ _ => okExpr C obj && okExprs C args
    | .call (.var name _ _) args fn _ =>
        okExprs C args &&
          (if (Eval.GlobalB.ofName name).isSome then args.length == 1
           else C.fnOk fn args.length && !Eval.Plan.prunesFn C.plan fn)
    | .call _ args _ _ => okExprs C args
  def okExprs (C : SCfg) : List Expr → Bool
    | [] => true
    | e :: es => okExpr C e && okExprs C es
end

/-- The evaluator's own skip test (`execStmts`: `if Plan.prunesStmt cfg.plan s.sid then` skip): a
statement whose `StmtId` the plan removes executes nothing.  A statement without `sid` is never
skipped.  A DEFINITION is not exempt: `hoist` registers it whatever `plan.stmts` says (only
`plan.fns` decides), so its body can run. -/
def stmtSkipped (plan : Option Eval.Plan) : Stmt → Bool
  | .fnDef _ _ _ _ _ _ _ => false
  | s => Eval.Plan.prunesStmt plan s.sid

theorem stmtSkipped_none (s : Stmt) : stmtSkipped none s = false := by
  cases s <;> simp [stmtSkipped, Eval.Plan.prunesStmt]

theorem stmtSkipped_prunes {plan : Option Eval.Plan} {s : Stmt} (h : stmtSkipped plan s = true) :
    Eval.Plan.prunesStmt plan s.sid = true := by
  cases s <;> first | exact h | (simp [stmtSkipped] at h)

mutual
  /-- `d`: the statement is inside a loop of the function body it belongs to. -/
  def okStmt (C : SCfg) (d : Bool) : Stmt → Bool
    | .assign _ _ e _ _ _ => okExpr C e
    | .assignExisting _ _ e _ _ _ => okExpr C e
    | .assignIndex t e _ _ => okExpr C t && okExpr C e && (!C.strictIdx || isIndexExpr t)
    | .ifS c t e _ _ => okExpr C c && okBlock C d t && okOptBlock C d e
    | .loop c b _ _ => okExpr C c && okBlock C true b
    | .block b _ _ => okBlock C d b
    | .fnDef _ _ ps body fn _ _ => C.fnOk fn ps.length && (Eval.Plan.prunesFn C.plan fn || okBlock C false body)
    | .ret (some e) _ _ => okExpr C e
    | .ret none _ _ => true
    | .brk _ _ => d
    | .cont _ _ => d
    | .expr e _ _ => okExpr C e
  def okStmts (C : SCfg) (d : Bool) : List Stmt → Bool
    | [] => true
    | s :: rest => (stmtSkipped C.plan s || okStmt C d s) && okStmts C d rest
  def okBlock (C : SCfg) (d : Bool) : Block → Bool
    | .mk ss _ => okStmts C d ss
  def okOptBlock (C : SCfg) (d : Bool) : Option Block → Bool
    | none => true
    | some b => okBlock C d b
end

/-! ### What is assumed of the checker's input (guarantees of scanner and parser) -/

mutual
  def srcExpr (C : SCfg) : Expr → Bool
    | .num lex _ => C.numOk lex
    | .bool _ _ | .null _ | .str _ _ | .var _ _ _ => true
    | .binary _ l r _ => srcExpr C l && srcExpr C r
    | .unary _ x _ => srcExpr C x
    | .array es _ => srcExprs C es
    | .index a i _ _ => srcExpr C a && srcExpr C i
    | .member o _ _ _ => srcExpr C o
    | .call c args _ _ => srcExpr C c && srcExprs C args
  def srcExprs (C : SCfg) : List Expr → Bool
    | [] => true
    | e :: es => srcExpr C e && srcExprs C es
end

mutual
  def srcStmt (C : SCfg) : Stmt → Bool
    | .assign _ _ e _ _ _ => srcExpr C e
    | .assignExisting _ _ e _ _ _ => srcExpr C e
    | .assignIndex t e _ _ => srcExpr C t && srcExpr C e && (!C.strictIdx || isIndexExpr t)
    | .ifS c t e _ _ => srcExpr C c && srcBlock C t && srcOptBlock C e
    | .loop c b _ _ => srcExpr C c && srcBlock C b
    | .block b _ _ => srcBlock C b
    | .fnDef _ _ _ body _ _ _ => srcBlock C body
    | .ret (some e) _ _ => srcExpr C e
    | .ret none _ _ => true
    | .brk _ _ => true
    | .cont _ _ => true
    | .expr e _ _ => srcExpr C e
  def srcStmts (C : SCfg) : List Stmt → Bool
    | [] => true
    | s :: rest => srcStmt C s && srcStmts C rest
  def srcBlock (C : SCfg) : Block → Bool
    | .mk ss _ => srcStmts C ss
  def srcOptBlock (C : SCfg) : Option Block → Bool
    | none => true
    | some b => srcBlock C b
end

/-- The source predicates do not read the arity table. -/
def SCfg.same (C C' : SCfg) : Prop := C.numOk = C'.numOk ∧ C.strictIdx = C'.strictIdx

mutual
  theorem srcExpr_congr (C C' : SCfg) (h : C.same C') : ∀ e : Expr, srcExpr C e = srcExpr C' e
    | .num lex _ => by simp [srcExpr, h.1]
    | .bool _ _ => by simp [srcExpr]
    | .null _ => by simp [srcExpr]
    | .str _ _ => by simp [srcExpr]
    | .var _ _ _ => by simp [srcExpr]
    | .binary _ l r _ => by simp [srcExpr, srcExpr_congr C C' h l, srcExpr_congr C C' h r]
    | .unary _ x _ => by simp [srcExpr, srcExpr_congr C C' h x]
    | .array es _ => by simp [srcExpr, srcExprs_congr C C' h es]
    | .index a i _ _ => by simp [srcExpr, srcExpr_congr C C' h a, srcExpr_congr C C' h i]
    | .member o _ _ _ => by simp [srcExpr, srcExpr_congr C C' h o]
    | .call c args _ _ => by simp [srcExpr, srcExpr_congr C C' h c, srcExprs_congr C C' h args]
  theorem srcExprs_congr (C C' : SCfg) (h : C.same C') : ∀ es : List Expr, srcExprs C es = srcExprs C' es
    | [] => by simp [srcExprs]
    | e :: es => by simp [srcExprs, srcExpr_congr C C' h e, srcExprs_congr C C' h es]
end

mutual
  theorem srcStmt_congr (C C' : SCfg) (h : C.same C') : ∀ s : Stmt, srcStmt C s = srcStmt C' s
    | .assign _ _ e _ _ _ => by simp [srcStmt, srcExpr_congr C C' h e]
    | .assignExisting _ _ e _ _ _ => by simp [srcStmt, srcExpr_congr C C' h e]
    | .assignIndex t e _ _ => by simp [srcStmt, srcExpr_congr C C' h t, srcExpr_congr C C' h e, h.2]
    | .ifS c t e _ _ => by
        simp [srcStmt, srcExpr_congr C C' h c, srcBlock_congr C C' h t, srcOptBlock_congr C C' h e]
    | .loop c b _ _ => by simp [srcStmt, srcExpr_congr C C' h c, srcBlock_congr C C' h b]
    | .block b _ _ => by simp [srcStmt, srcBlock_congr C C' h b]
    | .fnDef _ _ _ body _ _ _ => by simp [srcStmt, srcBlock_congr C C' h body]
    | .ret (some e) _ _ => by simp [srcStmt, srcExpr_congr C C' h e]
    | .ret none _ _ => by simp [srcStmt]
    | .brk _ _ => by simp [srcStmt]
    | .cont _ _ => by simp [srcStmt]
    | .expr e _ _ => by simp [srcStmt, srcExpr_congr C C' h e]
  theorem srcStmts_congr (C C' : SCfg) (h : C.same C') : ∀ ss : List Stmt, srcStmts C ss = srcStmts C' ss
    | [] => by simp [srcStmts]
    | s :: ss => by simp [srcStmts, srcStmt_congr C C' h s, srcStmts_congr C C' h ss]
  theorem srcBlock_congr (C C' : SCfg) (h : C.same C') : ∀ b : Block, srcBlock C b = srcBlock C' b
    | .mk ss _ => by simp [srcBlock, srcStmts_congr C C' h ss]
  theorem srcOptBlock_congr (C C' : SCfg) (h : C.same C') : ∀ b : Option Block, srcOptBlock C b = srcOptBlock C' b
    | none => by simp [srcOptBlock]
    | some b => by simp [srcOptBlock, srcBlock_congr C C' h b]
end

theorem srcBlock_arity (C : SCfg) (T : List Nat) (q : Block) :
    srcBlock ⟨[], C.numOk, C.strictIdx, none⟩ q = true ↔ srcBlock ⟨T, C.numOk, C.strictIdx, none⟩ q = true := by
  rw [srcBlock_congr ⟨[], C.numOk, C.strictIdx, none⟩ ⟨T, C.numOk, C.strictIdx, none⟩ ⟨rfl, rfl⟩]

/-- Nothing is required of the source when every lexeme is accepted and index targets are free. -/
theorem src_lax (T : List Nat) :
    (∀ e, srcExpr ⟨T, fun _ => true, false, none⟩ e = true) ∧ (∀ b, srcBlock ⟨T, fun _ => true, false, none⟩ b = true) := by
  have hE : ∀ e : Expr, srcExpr ⟨T, fun _ => true, false, none⟩ e = true ∧ True := by
    intro e
    induction e using Expr.rec (motive_2 := fun es => srcExprs ⟨T, fun _ => true, false, none⟩ es = true ∧ True) with
    | nil => exact ⟨by simp [srcExprs], trivial⟩
    | cons e es ih1 ih2 => exact ⟨by simp [srcExprs, ih1.1, ih2.1], trivial⟩
    | num => exact ⟨by simp [srcExpr], trivial⟩
    | bool => exact ⟨by simp [srcExpr], trivial⟩
    | null => exact ⟨by simp [srcExpr], trivial⟩
    | str => exact ⟨by simp [srcExpr], trivial⟩
    | var => exact ⟨by simp [srcExpr], trivial⟩
    | binary _ _ _ _ ih1 ih2 => exact ⟨by simp [srcExpr, ih1.1, ih2.1], trivial⟩
    | unary _ _ _ ih => exact ⟨by simp [srcExpr, ih.1], trivial⟩
    | array _ _ ih => exact ⟨by simp [srcExpr, ih.1], trivial⟩
    | index _ _ _ _ ih1 ih2 => exact ⟨by simp [srcExpr, ih1.1, ih2.1], trivial⟩
    | member _ _ _ _ ih => exact ⟨by simp [srcExpr, ih.1], trivial⟩
    | call _ _ _ _ ih1 ih2 => exact ⟨by simp [srcExpr, ih1.1, ih2.1], trivial⟩
  refine ⟨fun e => (hE e).1, ?_⟩
  intro b
  induction b using Block.rec (motive_1 := fun s => srcStmt ⟨T, fun _ => true, false, none⟩ s = true)
    (motive_4 := fun ss => srcStmts ⟨T, fun _ => true, false, none⟩ ss = true)
    (motive_3 := fun ob => srcOptBlock ⟨T, fun _ => true, false, none⟩ ob = true) with
  | fnDef _ _ _ _ _ _ _ ih => simp [srcStmt, ih]
  | assign _ _ e => simp [srcStmt, (hE e).1]
  | assignExisting _ _ e => simp [srcStmt, (hE e).1]
  | assignIndex t e => simp [srcStmt, (hE t).1, (hE e).1]
  | ifS c _ _ _ _ ih1 ih2 => simp [srcStmt, (hE c).1, ih1, ih2]
  | loop c _ _ _ ih => simp [srcStmt, (hE c).1, ih]
  | block _ _ _ ih => simp [srcStmt, ih]
  | ret e => cases e with
    | none => simp [srcStmt]
    | some e => simp [srcStmt, (hE e).1]
  | brk => simp [srcStmt]
  | cont => simp [srcStmt]
  | expr e => simp [srcStmt, (hE e).1]
  | mk _ _ ih => simp [srcBlock, ih]
  | nil => simp [srcStmts]
  | cons _ _ ih1 ih2 => simp [srcStmts, ih1, ih2]
  | none => simp [srcOptBlock]
  | some _ ih => simp [srcOptBlock, ih]

/-! ### The parameter-count table -/

/-- The table `T` extends the parameter counts recorded in `f`. -/
def TLe (f : Facts) (T : List Nat) : Prop := ∀ (i n : Nat), (fkey f).2[i]? = some n → T[i]? = some n

theorem TLe.mono {f f' : Facts} {T : List Nat} (h : FLe f f') (ht : TLe f' T) : TLe f T :=
  fun i n hi => ht i n (h.get hi)

/-- Every signature in scope has the parameter count the table records for its id. -/
def SigsOK (T : List Nat) (fs : List (List FnSig)) : Prop := ∀ s ∈ fs, ∀ g ∈ s, T[g.id]? = some g.arity

theorem SigsOK.lookup {T : List Nat} {env : Env} (h : SigsOK T env.fns) {x : Bytes} {g : FnSig}
    (hl : lookupFn env x = some g) : T[g.id]? = some g.arity := by
  obtain ⟨s, hs, hg⟩ := lookupFns_mem hl
  exact h s hs g hg

theorem pairs_unique {α β : Type} : ∀ {l : List (α × β)} {a : α} {b c : β}, (l.map (·.1)).Nodup →
    (a, b) ∈ l → (a, c) ∈ l → b = c
  | [], _, _, _, _, h, _ => by cases h
  | p :: l, a, b, c, hn, h1, h2 => by
      simp only [List.map_cons, List.nodup_cons] at hn
      rcases List.mem_cons.1 h1 with h1 | h1 <;> rcases List.mem_cons.1 h2 with h2 | h2
      · rw [← h1] at h2; exact (Prod.mk.inj h2).2.symm
      · exact absurd (by rw [← h1]; exact List.mem_map_of_mem (f := (·.1)) h2) hn.1
      · exact absurd (by rw [← h2]; exact List.mem_map_of_mem (f := (·.1)) h1) hn.1
      · exact pairs_unique hn.2 h1 h2

/-! ### Expressions -/

theorem checkExprs_length (env : Env) (cur : Scope) (sid : Nat) : ∀ (es : List Expr) (f : Facts),
    (checkExprs env cur sid es f).val.length = es.length
  | [], f => by simp [checkExprs]
  | e :: es, f => by simp [checkExprs, checkExprs_length env cur sid es]

theorem isIndexExpr_check (env : Env) (cur : Scope) (sid : Nat) (t : Expr) (f : Facts)
    (h : isIndexExpr t = true) : isIndexExpr (checkExpr env cur sid t f).val = true := by
  cases t <;> simp [isIndexExpr] at h
  simp [checkExpr, isIndexExpr]

mutual
  theorem checkExpr_ok (C : SCfg) (hpl : C.plan = none) (env : Env) (cur : Scope) (sid : Nat) (hs : SigsOK C.arity env.fns) :
      ∀ (e : Expr) (f : Facts), srcExpr C e = true → (checkExpr env cur sid e f).ds = [] →
        okExpr C (checkExpr env cur sid e f).val = true
    | .num _ _, f, hsrc, _ => by simpa [checkExpr, okExpr, srcExpr] using hsrc
    | .bool _ _, f, _, _ => by simp [checkExpr, okExpr]
    | .null _, f, _, _ => by simp [checkExpr, okExpr]
    | .str (.static _) _, f, _, _ => by simp [checkExpr, okExpr]
    | .str (.interp segs) s, f, _, _ => by simp [checkExpr, okExpr]
    | .array es _, f, hsrc, h => by
        simp only [checkExpr] at h ⊢
        simp only [okExpr]
        exact checkExprs_ok C hpl env cur sid hs es f (by simpa [srcExpr] using hsrc) h
    | .index a i _ _, f, hsrc, h => by
        simp only [srcExpr, Bool.and_eq_true] at hsrc
        simp only [checkExpr, List.append_eq_nil_iff] at h ⊢
        simp only [okExpr, Bool.and_eq_true]
        exact ⟨checkExpr_ok C hpl env cur sid hs a f hsrc.1 h.1.1.1, checkExpr_ok C hpl env cur sid hs i _ hsrc.2 h.1.1.2⟩
    | .var v _ s, f, _, h => by
        simp only [checkExpr]
        split <;> simp [okExpr]
    | .binary _ l r _, f, hsrc, h => by
        simp only [srcExpr, Bool.and_eq_true] at hsrc
        simp only [checkExpr, List.append_eq_nil_iff] at h ⊢
        simp only [okExpr, Bool.and_eq_true]
        exact ⟨checkExpr_ok C hpl env cur sid hs l f hsrc.1 h.1.1, checkExpr_ok C hpl env cur sid hs r _ hsrc.2 h.1.2⟩
    | .unary _ e _, f, hsrc, h => by
        simp only [srcExpr] at hsrc
        simp only [checkExpr, List.append_eq_nil_iff] at h ⊢
        simp only [okExpr]
        exact checkExpr_ok C hpl env cur sid hs e f hsrc h.1
    | .member o _ _ _, f, _, h => by simp [checkExpr] at h
    | .call callee args _ s, f, hsrc, h => by
        simp only [srcExpr, Bool.and_eq_true] at hsrc
        cases callee with
        | var fname vb vs =>
          cases hg : GlobalB.ofName fname with
          | some g =>
            simp only [checkExpr, hg, List.append_eq_nil_iff] at h ⊢
            have hg' : (Eval.GlobalB.ofName fname).isSome = true := by
              rw [← global_tables_agree, hg]; rfl
            have hlen : args.length = 1 := by
              have h1 := h.1.1
              cases hc : (args.length != g.arity) with
              | true => simp [errIf, hc] at h1
              | false => simpa [GlobalB.arity] using hc
            simp only [okExpr, hg', if_true, Bool.and_eq_true, checkExprs_length, hlen, beq_self_eq_true, and_true]
            exact checkExprs_ok C hpl env cur sid hs args f hsrc.2 h.2
          | none =>
            have hg' : (Eval.GlobalB.ofName fname).isSome = false := by
              rw [← global_tables_agree, hg]; rfl
            cases hl : lookupFn env fname with
            | some g =>
              simp only [checkExpr, hg, hl, List.append_eq_nil_iff] at h ⊢
              have hlen : args.length = g.arity := by
                have h1 := h.1
                cases hc : (args.length != g.arity) with
                | true => simp [errIf, hc] at h1
                | false => simpa using hc
              have hnp : Eval.Plan.prunesFn C.plan (some g.id) = false := by rw [hpl]; rfl
              simp only [okExpr, hg', Bool.false_eq_true, if_false, Bool.and_eq_true, SCfg.fnOk,
                checkExprs_length, hlen, hs.lookup hl, beq_self_eq_true, and_true, hnp, Bool.not_false]
              exact checkExprs_ok C hpl env cur sid hs args _ hsrc.2 h.2
            | none => simp [checkExpr, hg, hl] at h
        | member obj field fs ms =>
          simp only [srcExpr] at hsrc
          simp only [checkExpr, List.append_eq_nil_iff] at h ⊢
          simp only [okExpr, Bool.and_eq_true]
          exact ⟨checkExpr_ok C hpl env cur sid hs obj f hsrc.1 h.1.1, checkExprs_ok C hpl env cur sid hs args _ hsrc.2 h.2⟩
        | num _ _ => simp [checkExpr] at h
        | bool _ _ => simp [checkExpr] at h
        | null _ => simp [checkExpr] at h
        | str _ _ => rw [checkExpr.eq_def] at h; simp at h
        | array _ _ => rw [checkExpr.eq_def] at h; simp at h
        | index _ _ _ _ => rw [checkExpr.eq_def] at h; simp at h
        | binary _ _ _ _ => rw [checkExpr.eq_def] at h; simp at h
        | unary _ _ _ => rw [checkExpr.eq_def] at h; simp at h
        | call _ _ _ _ => rw [checkExpr.eq_def] at h; simp at h
  theorem checkExprs_ok (C : SCfg) (hpl : C.plan = none) (env : Env) (cur : Scope) (sid : Nat) (hs : SigsOK C.arity env.fns) :
      ∀ (es : List Expr) (f : Facts), srcExprs C es = true → (checkExprs env cur sid es f).ds = [] →
        okExprs C (checkExprs env cur sid es f).val = true
    | [], f, _, _ => by simp [checkExprs, okExprs]
    | e :: es, f, hsrc, h => by
        simp only [srcExprs, Bool.and_eq_true] at hsrc
        simp only [checkExprs, List.append_eq_nil_iff] at h ⊢
        simp only [okExprs, Bool.and_eq_true]
        exact ⟨checkExpr_ok C hpl env cur sid hs e f hsrc.1 h.1, checkExprs_ok C hpl env cur sid hs es _ hsrc.2 h.2⟩
end

/-! ### Statements and blocks -/

theorem fnDefs_cons (s : Stmt) (ss : List Stmt) : fnDefs (s :: ss) = fnDefs [s] ++ fnDefs ss := by
  cases s <;> simp [fnDefs]

/-- The own function scope gives every definition of the statement list the parameter count of
that very definition. -/
def DefsArity (env : Env) (ss : List Stmt) : Prop :=
  ∀ name n, (name, n) ∈ fnDefs ss → ∀ own rest g, env.fns = own :: rest → findFn own name = some g → g.arity = n

theorem keys3_keys {l l' : List FnSig} (h : l'.map sigKey3 = l.map sigKey3) : l'.map sigKey = l.map sigKey := by
  have := congrArg (List.map (fun k : Bytes × Nat × Nat => (k.1, k.2.2))) h
  have e : (fun k : Bytes × Nat × Nat => (k.1, k.2.2)) ∘ sigKey3 = sigKey := rfl
  rwa [List.map_map, List.map_map, e] at this

theorem defsArity_block {env2 : Env} {sigs : List FnSig} {rest : List (List FnSig)} (henv : env2.fns = sigs :: rest)
    {ss : List Stmt} (hk : sigs.map sigKey = fnDefs ss) (hnd : (fnNames ss).Nodup) : DefsArity env2 ss := by
  intro name n hmem own rest' g he hg
  rw [henv] at he
  cases he
  have h1 : (g.name, g.arity) ∈ fnDefs ss := by
    rw [← hk]; exact List.mem_map_of_mem (f := sigKey) (findFn_mem hg)
  rw [findFn_name hg] at h1
  exact pairs_unique (by rw [fnDefs_names]; exact hnd) h1 hmem

mutual
  theorem checkStmt_ok (C : SCfg) (hpl : C.plan = none) (env : Env) (cur : Cur) (hs : SigsOK C.arity env.fns) :
      ∀ (s : Stmt) (f : Facts), srcStmt C s = true → DefsOK env cur.seenFns [s] → DefsArity env [s] →
        TLe (checkStmt env cur s f).facts C.arity →
        (checkStmt env cur s f).ds = [] → okStmt C (env.inLoop != 0) (checkStmt env cur s f).val = true
    | .assign x xs e _ _ sp, f, hsrc, _, _, _, h => by
        simp only [srcStmt] at hsrc
        have hx := checkExpr_ok C hpl env cur.vars f.stmtEffects.length hs e (pushStmt f env.owner env.scope) hsrc
        simp only [checkStmt] at h ⊢
        split at h <;> simp only [List.append_eq_nil_iff] at h <;> simp only [okStmt] <;> exact hx h.2
    | .assignExisting x xs e _ _ sp, f, hsrc, _, _, _, h => by
        simp only [srcStmt] at hsrc
        cases hl : lookupVar env cur.vars x with
        | some ent =>
          simp only [checkStmt, hl] at h ⊢
          simp only [okStmt]
          exact checkExpr_ok C hpl env cur.vars _ hs e _ hsrc h
        | none => simp [checkStmt, hl] at h
    | .assignIndex t e _ sp, f, hsrc, _, _, _, h => by
        simp only [srcStmt, Bool.and_eq_true] at hsrc
        simp only [checkStmt, List.append_eq_nil_iff] at h ⊢
        simp only [okStmt, Bool.and_eq_true]
        refine ⟨⟨checkExpr_ok C hpl env cur.vars _ hs t _ hsrc.1.1 h.1.1, checkExpr_ok C hpl env cur.vars _ hs e _ hsrc.1.2 h.1.2⟩, ?_⟩
        cases hstrict : C.strictIdx with
        | false => rfl
        | true =>
          have : isIndexExpr t = true := by simpa [hstrict] using hsrc.2
          simp [isIndexExpr_check _ _ _ _ _ this]
    | .ifS c t e _ sp, f, hsrc, _, _, ht, h => by
        simp only [srcStmt, Bool.and_eq_true] at hsrc
        simp only [checkStmt, List.append_eq_nil_iff] at h ht ⊢
        simp only [okStmt, Bool.and_eq_true]
        refine ⟨⟨checkExpr_ok C hpl env cur.vars _ hs c _ hsrc.1.1 h.1.1.1, ?_⟩, ?_⟩
        · exact checkBlock_ok C hpl { env with vars := cur.vars :: env.vars } _ hs _ rfl t _ hsrc.1.2
            (TLe.mono (checkOptBlock_grow _ _ _ _) ht) h.1.2
        · exact checkOptBlock_ok C hpl { env with vars := cur.vars :: env.vars } _ hs _ rfl e _ hsrc.2 ht h.2
    | .loop c b _ sp, f, hsrc, _, _, ht, h => by
        simp only [srcStmt, Bool.and_eq_true] at hsrc
        simp only [checkStmt, List.append_eq_nil_iff] at h ht ⊢
        simp only [okStmt, Bool.and_eq_true]
        refine ⟨checkExpr_ok C hpl env cur.vars _ hs c _ hsrc.1 h.1.1, ?_⟩
        exact checkBlock_ok C hpl { env with vars := cur.vars :: env.vars, inLoop := env.inLoop + 1 } _ hs true
          (by simp) b _ hsrc.2 ht h.2
    | .block b _ sp, f, hsrc, _, _, ht, h => by
        simp only [srcStmt] at hsrc
        simp only [checkStmt] at h ht ⊢
        simp only [okStmt]
        exact checkBlock_ok C hpl { env with vars := cur.vars :: env.vars } _ hs _ rfl b _ hsrc ht h
    | .fnDef name nsp ps body a b sp, f, hsrc, hd, hda, ht, h => by
        simp only [srcStmt] at hsrc
        have hu : name ∉ cur.seenFns := hd.unseen name (by simp [fnNames])
        have ho := hd.own name (by simp [fnNames])
        unfold ownHas at ho
        split at ho
        · next own rest heq =>
          cases hg : findFn own name with
          | none => simp [hg] at ho
          | some g =>
            obtain ⟨f3, pscope, envB, _, _, hfB, hlB, _, hshape⟩ :=
              checkStmt_fnDef_eq env cur name nsp ps body a b sp f heq hg hu
            rw [hshape] at h ht ⊢
            simp only at h ht
            have har : g.arity = ps.length := hda name ps.length (by simp [fnDefs]) own rest g heq hg
            have hT : C.arity[g.id]? = some g.arity :=
              hs own (by rw [heq]; exact List.mem_cons_self) g (findFn_mem hg)
            have hlen := (declareParams_spec env.spanLen g.id pscope ps [] f3).2.2.1
            simp only [okStmt, Bool.and_eq_true, SCfg.fnOk, hlen, hT, har, beq_self_eq_true, true_and,
              Bool.or_eq_true]
            right
            exact checkBlock_ok C hpl envB (some pscope) (by rw [hfB]; exact hs) false (by rw [hlB]; rfl) body _ hsrc ht h
        · simp at ho
    | .ret e _ sp, f, hsrc, _, _, _, h => by
        cases e with
        | some e =>
          simp only [srcStmt] at hsrc
          simp only [checkStmt, List.append_eq_nil_iff] at h ⊢
          simp only [okStmt]
          exact checkExpr_ok C hpl env cur.vars _ hs e _ hsrc h.2
        | none => simp [checkStmt, okStmt]
    | .brk _ sp, f, _, _, _, _, h => by
        simp only [checkStmt] at h ⊢
        simp only [okStmt]
        cases hc : (env.inLoop == 0) with
        | true => simp [errIf, hc] at h
        | false => simpa [bne] using hc
    | .cont _ sp, f, _, _, _, _, h => by
        simp only [checkStmt] at h ⊢
        simp only [okStmt]
        cases hc : (env.inLoop == 0) with
        | true => simp [errIf, hc] at h
        | false => simpa [bne] using hc
    | .expr e _ sp, f, hsrc, _, _, _, h => by
        simp only [srcStmt] at hsrc
        simp only [checkStmt] at h ⊢
        simp only [okStmt]
        exact checkExpr_ok C hpl env cur.vars _ hs e _ hsrc h
  theorem checkStmts_ok (C : SCfg) (hpl : C.plan = none) (env : Env) (hs : SigsOK C.arity env.fns) :
      ∀ (ss : List Stmt) (cur : Cur) (f : Facts), srcStmts C ss = true → DefsOK env cur.seenFns ss →
        DefsArity env ss → TLe (checkStmts env cur ss f).facts C.arity →
        (checkStmts env cur ss f).ds = [] → okStmts C (env.inLoop != 0) (checkStmts env cur ss f).val = true
    | [], cur, f, _, _, _, _, _ => by simp [checkStmts, okStmts]
    | s :: ss, cur, f, hsrc, hd, hda, ht, h => by
        simp only [srcStmts, Bool.and_eq_true] at hsrc
        simp only [checkStmts, List.append_eq_nil_iff] at h ht ⊢
        simp only [okStmts, Bool.and_eq_true, Bool.or_eq_true]
        refine ⟨Or.inr ?_, ?_⟩
        · refine checkStmt_ok C hpl env cur hs s f hsrc.1 hd.head ?_ (TLe.mono (checkStmts_grow _ _ _ _) ht) h.1
          intro name n hmem
          exact hda name n (by rw [fnDefs_cons]; exact List.mem_append_left _ hmem)
        · refine checkStmts_ok C hpl env hs ss _ _ hsrc.2 (hd.tail f) ?_ ht h.2
          intro name n hmem
          exact hda name n (by rw [fnDefs_cons]; exact List.mem_append_right _ hmem)
  theorem checkBlock_ok (C : SCfg) (hpl : C.plan = none) (env : Env) (parent : Option Nat) (hs : SigsOK C.arity env.fns)
      (d : Bool) (hd : d = (env.inLoop != 0)) :
      ∀ (b : Block) (f : Facts), srcBlock C b = true → TLe (checkBlock env parent b f).facts C.arity →
        (checkBlock env parent b f).ds = [] → okBlock C d (checkBlock env parent b f).val = true
    | .mk ss sp, f, hsrc, ht, h => by
        simp only [srcBlock] at hsrc
        obtain ⟨f2, sigs, env1, _, _, hloop, _, hsig, heq⟩ := checkBlock_eq env parent ss sp f
        rw [heq] at h ht ⊢
        simp only [List.append_eq_nil_iff] at h ht
        obtain ⟨_, _, hpsig⟩ := predeclare_grow env1 ss [] f2
        obtain ⟨hn, hnd⟩ := own_names hsig h.1
        have hkeys : sigs.map sigKey = fnDefs ss := by
          rw [keys3_keys hsig, (predeclare_clean env1 ss [] f2 h.1).1]; rfl
        have hsgrow := checkStmts_grow { env1 with fns := sigs :: env.fns } ss {} (predeclare env1 ss [] f2).facts
        have hs2 : SigsOK C.arity (sigs :: env.fns) := by
          intro s hs' g hg
          rcases List.mem_cons.1 hs' with hs' | hs'
          · rw [hs'] at hg
            obtain ⟨g0, hg0, hkey⟩ := keys3_mem hsig hg
            have hid : g0.id = g.id := by
              have := congrArg (fun k => k.2.1) hkey; simpa [sigKey3] using this
            have har : g0.arity = g.arity := by
              have := congrArg (fun k => k.2.2) hkey; simpa [sigKey3] using this
            rcases hpsig g0 hg0 with hm | ⟨_, _, c⟩
            · cases hm
            · rw [← hid, ← har]
              exact ht _ _ (hsgrow.get c)
          · exact hs s hs' g hg
        simp only [okBlock]
        have := checkStmts_ok C hpl { env1 with fns := sigs :: env.fns } hs2 ss {} (predeclare env1 ss [] f2).facts hsrc
          (defsOK_block rfl hn hnd) (defsArity_block rfl hkeys hnd) ht h.2
        rw [hd, ← hloop]
        exact this
  theorem checkOptBlock_ok (C : SCfg) (hpl : C.plan = none) (env : Env) (parent : Option Nat) (hs : SigsOK C.arity env.fns)
      (d : Bool) (hd : d = (env.inLoop != 0)) :
      ∀ (b : Option Block) (f : Facts), srcOptBlock C b = true →
        TLe (checkOptBlock env parent b f).facts C.arity →
        (checkOptBlock env parent b f).ds = [] → okOptBlock C d (checkOptBlock env parent b f).val = true
    | none, f, _, _, _ => by simp [checkOptBlock, okOptBlock]
    | some b, f, hsrc, ht, h => by
        simp only [srcOptBlock] at hsrc
        simp only [checkOptBlock] at h ht ⊢
        simp only [okOptBlock]
        exact checkBlock_ok C hpl env parent hs d hd b f hsrc ht h
end

/-- The table of the facts the resolver ends with. -/
def arityTable (r : Resolved) : List Nat := (fkey r.facts).2

/-- **An accepted program has the static guarantees** the evaluator's residual sites rely on, for
the table of parameter counts the resolver ends with — provided its number lexemes are accepted by
`numOk` and (if `strictIdx`) its index assignments have an index (guarantees of scanner and parser,
`srcBlock`). -/
theorem resolve_ok (spanLen : Bool) (numOk : Bytes → Bool) (strictIdx : Bool) (q : Block)
    (hsrc : srcBlock ⟨[], numOk, strictIdx, none⟩ q = true) (h : (resolveWith spanLen q).rdiags = []) :
    okBlock ⟨arityTable (resolveWith spanLen q), numOk, strictIdx, none⟩ false (resolveWith spanLen q).root = true := by
  refine checkBlock_ok ⟨arityTable (resolveWith spanLen q), numOk, strictIdx, none⟩ rfl (rootEnv spanLen) none ?_ false
    rfl q rootFacts ?_ ?_ h
  · intro s hs; cases hs
  · exact (srcBlock_arity ⟨[], numOk, strictIdx, none⟩ _ q).1 hsrc
  · intro i n hi; exact hi

/-! ### The optimisation plan

`resolve_ok` is about the program as such (`plan := none`).  A run with a plan that removes
functions needs, in addition, that the code that is KEPT calls kept functions only: `keptBlock`, a
decidable check of the annotated program against the plan (the body of a removed function is
exempt: it is never hoisted; so is a statement the plan removes: the evaluator skips it —
`stmtSkipped`, the evaluator's own test). -/

mutual
  def keptExpr (plan : Option Eval.Plan) : Expr → Bool
    | .num _ _ | .bool _ _ | .null _ | .str _ _ | .var _ _ _ => true
    | .binary _ l r _ => keptExpr plan l && keptExpr plan r
    | .unary _ x _ => keptExpr plan x
    | .array es _ => keptExprs plan es
    | .index a i _ _ => keptExpr plan a && keptExpr plan i
    | .member o _ _ _ => keptExpr plan o
    | .call (.member obj _ _ _) args _ _ => keptExpr plan obj && keptExprs plan args
    | .call (.var name _ _) args fn _ =>
        keptExprs plan args && ((Eval.GlobalB.ofName name).isSome || !Eval.Plan.prunesFn plan fn)
    | .call _ args _ _ => keptExprs plan args
  def keptExprs (plan : Option Eval.Plan) : List Expr → Bool
    | [] => true
    | e :: es => keptExpr plan e && keptExprs plan es
end

mutual
  def keptStmt (plan : Option Eval.Plan) : Stmt → Bool
    | .assign _ _ e _ _ _ => keptExpr plan e
    | .assignExisting _ _ e _ _ _ => keptExpr plan e
    | .assignIndex t e _ _ => keptExpr plan t && keptExpr plan e
    | .ifS c t e _ _ => keptExpr plan c && keptBlock plan t && keptOptBlock plan e
    | .loop c b _ _ => keptExpr plan c && keptBlock plan b
    | .block b _ _ => keptBlock plan b
    | .fnDef _ _ _ body fn _ _ => Eval.Plan.prunesFn plan fn || keptBlock plan body
    | .ret (some e) _ _ => keptExpr plan e
    | .ret none _ _ => true
    | .brk _ _ => true
    | .cont _ _ => true
    | .expr e _ _ => keptExpr plan e
  def keptStmts (plan : Option Eval.Plan) : List Stmt → Bool
    | [] => true
    | s :: rest => (stmtSkipped plan s || keptStmt plan s) && keptStmts plan rest
  def keptBlock (plan : Option Eval.Plan) : Block → Bool
    | .mk ss _ => keptStmts plan ss
  def keptOptBlock (plan : Option Eval.Plan) : Option Block → Bool
    | none => true
    | some b => keptBlock plan b
end

/-- The configuration with another plan. -/
def SCfg.withPlan (C : SCfg) (plan : Option Eval.Plan) : SCfg := ⟨C.arity, C.numOk, C.strictIdx, plan⟩

theorem ok_plan_expr (C : SCfg) (plan : Option Eval.Plan) (e : Expr) :
    okExpr (C.withPlan none) e = true → keptExpr plan e = true → okExpr (C.withPlan plan) e = true := by
  induction e using Expr.rec (motive_2 := fun es =>
      okExprs (C.withPlan none) es = true → keptExprs plan es = true → okExprs (C.withPlan plan) es = true) with
  | nil => simp [okExprs]
  | cons e es ih1 ih2 =>
    rename_i h1 h2
    simp only [okExprs, keptExprs, Bool.and_eq_true] at h1 h2 ⊢
    exact ⟨ih1 h1.1 h2.1, ih2 h1.2 h2.2⟩
  | num => intro h _; simpa [okExpr, SCfg.withPlan] using h
  | bool => intro _ _; simp [okExpr]
  | null => intro _ _; simp [okExpr]
  | str => intro _ _; simp [okExpr]
  | var => intro _ _; simp [okExpr]
  | binary _ _ _ _ ih1 ih2 =>
    intro h1 h2
    simp only [okExpr, keptExpr, Bool.and_eq_true] at h1 h2 ⊢
    exact ⟨ih1 h1.1 h2.1, ih2 h1.2 h2.2⟩
  | unary _ _ _ ih =>
    intro h1 h2
    simp only [okExpr, keptExpr] at h1 h2 ⊢
    exact ih h1 h2
  | array _ _ ih =>
    intro h1 h2
    simp only [okExpr, keptExpr] at h1 h2 ⊢
    exact ih h1 h2
  | index _ _ _ _ ih1 ih2 =>
    intro h1 h2
    simp only [okExpr, keptExpr, Bool.and_eq_true] at h1 h2 ⊢
    exact ⟨ih1 h1.1 h2.1, ih2 h1.2 h2.2⟩
  | member _ _ _ _ ih =>
    intro h1 h2
    simp only [okExpr, keptExpr] at h1 h2 ⊢
    exact ih h1 h2
  | call callee args fn sp ih1 ih2 =>
    intro h1 h2
    cases callee with
    | var name b vsp =>
      simp only [okExpr, keptExpr, Bool.and_eq_true] at h1 h2 ⊢
      refine ⟨ih2 h1.1 h2.1, ?_⟩
      cases hg : (Eval.GlobalB.ofName name).isSome with
      | true => simpa [hg] using h1.2
      | false =>
        have a1 := h1.2
        have a2 := h2.2
        simp only [hg, Bool.false_eq_true, if_false, Bool.and_eq_true, Bool.false_or] at a1 a2 ⊢
        exact ⟨by simpa [SCfg.fnOk, SCfg.withPlan] using a1.1, by simpa [SCfg.withPlan] using a2⟩
    | member obj f fs ms =>
      simp only [okExpr, keptExpr, Bool.and_eq_true] at h1 h2 ih1 ⊢
      exact ⟨ih1 h1.1 h2.1, ih2 h1.2 h2.2⟩
    | num => simp only [okExpr, keptExpr] at h1 h2 ⊢; exact ih2 h1 h2
    | bool => simp only [okExpr, keptExpr] at h1 h2 ⊢; exact ih2 h1 h2
    | null => simp only [okExpr, keptExpr] at h1 h2 ⊢; exact ih2 h1 h2
    | str => simp only [okExpr, keptExpr] at h1 h2 ⊢; exact ih2 h1 h2
    | array => simp only [okExpr, keptExpr] at h1 h2 ⊢; exact ih2 h1 h2
    | index => simp only [okExpr, keptExpr] at h1 h2 ⊢; exact ih2 h1 h2
    | binary => simp only [okExpr, keptExpr] at h1 h2 ⊢; exact ih2 h1 h2
    | unary => simp only [okExpr, keptExpr] at h1 h2 ⊢; exact ih2 h1 h2
    | call => simp only [okExpr, keptExpr] at h1 h2 ⊢; exact ih2 h1 h2

theorem ok_plan_block (C : SCfg) (plan : Option Eval.Plan) (b : Block) : ∀ d,
    okBlock (C.withPlan none) d b = true → keptBlock plan b = true → okBlock (C.withPlan plan) d b = true := by
  have hE := ok_plan_expr C plan
  induction b using Block.rec
    (motive_1 := fun s => ∀ d, okStmt (C.withPlan none) d s = true → keptStmt plan s = true →
      okStmt (C.withPlan plan) d s = true)
    (motive_4 := fun ss => ∀ d, okStmts (C.withPlan none) d ss = true → keptStmts plan ss = true →
      okStmts (C.withPlan plan) d ss = true)
    (motive_3 := fun ob => ∀ d, okOptBlock (C.withPlan none) d ob = true → keptOptBlock plan ob = true →
      okOptBlock (C.withPlan plan) d ob = true) with
  | fnDef _ _ ps body fn _ _ ih =>
    rename_i d h1 h2
    simp only [okStmt, keptStmt, Bool.and_eq_true, Bool.or_eq_true] at h1 h2 ⊢
    refine ⟨by simpa [SCfg.fnOk, SCfg.withPlan] using h1.1, ?_⟩
    rcases h2 with h2 | h2
    · exact Or.inl (by simpa [SCfg.withPlan] using h2)
    · rcases h1.2 with h | h
      · have : Eval.Plan.prunesFn (C.withPlan none).plan fn = false := by cases fn <;> rfl
        rw [this] at h; cases h
      · exact Or.inr (ih false h h2)
  | assign _ _ e => rename_i d h1 h2; simp only [okStmt, keptStmt] at h1 h2 ⊢; exact hE e h1 h2
  | assignExisting _ _ e => rename_i d h1 h2; simp only [okStmt, keptStmt] at h1 h2 ⊢; exact hE e h1 h2
  | assignIndex t e =>
    rename_i d h1 h2
    simp only [okStmt, keptStmt, Bool.and_eq_true] at h1 h2 ⊢
    exact ⟨⟨hE t h1.1.1 h2.1, hE e h1.1.2 h2.2⟩, by simpa [SCfg.withPlan] using h1.2⟩
  | ifS c _ _ _ _ ih1 ih2 =>
    rename_i d h1 h2
    simp only [okStmt, keptStmt, Bool.and_eq_true] at h1 h2 ⊢
    exact ⟨⟨hE c h1.1.1 h2.1.1, ih1 d h1.1.2 h2.1.2⟩, ih2 d h1.2 h2.2⟩
  | loop c _ _ _ ih =>
    rename_i d h1 h2
    simp only [okStmt, keptStmt, Bool.and_eq_true] at h1 h2 ⊢
    exact ⟨hE c h1.1 h2.1, ih true h1.2 h2.2⟩
  | block _ _ _ ih => rename_i d h1 h2; simp only [okStmt, keptStmt] at h1 h2 ⊢; exact ih d h1 h2
  | ret e =>
    rename_i d h1 h2
    cases e with
    | none => simp [okStmt]
    | some e => simp only [okStmt, keptStmt] at h1 h2 ⊢; exact hE e h1 h2
  | brk => rename_i d h1 _; simpa [okStmt] using h1
  | cont => rename_i d h1 _; simpa [okStmt] using h1
  | expr e => rename_i d h1 h2; simp only [okStmt, keptStmt] at h1 h2 ⊢; exact hE e h1 h2
  | mk _ _ ih => intro d h1 h2; simp only [okBlock, keptBlock] at h1 h2 ⊢; exact ih d h1 h2
  | nil => simp [okStmts]
  | cons s _ ih1 ih2 =>
    rename_i d h1 h2
    simp only [okStmts, keptStmts, Bool.and_eq_true, Bool.or_eq_true] at h1 h2 ⊢
    refine ⟨?_, ih2 d h1.2 h2.2⟩
    rcases h2.1 with hk | hk
    · exact Or.inl hk
    · right
      rcases h1.1 with a | a
      · have e : (C.withPlan none).plan = none := rfl
        rw [e, stmtSkipped_none] at a; cases a
      · exact ih1 d a hk
  | none => simp [okOptBlock]
  | some _ ih => rename_i d h1 h2; simp only [okOptBlock, keptOptBlock] at h1 h2 ⊢; exact ih d h1 h2

/-- Without a plan nothing is removed. -/
theorem kept_none : (∀ e, keptExpr none e = true) ∧ (∀ b, keptBlock none b = true) := by
  have hp : ∀ fn, Eval.Plan.prunesFn none fn = false := by intro fn; cases fn <;> rfl
  have hE : ∀ e : Expr, keptExpr none e = true := by
    intro e
    induction e using Expr.rec (motive_2 := fun es => keptExprs none es = true) with
    | nil => simp [keptExprs]
    | cons e es ih1 ih2 => simp [keptExprs, ih1, ih2]
    | num => simp [keptExpr]
    | bool => simp [keptExpr]
    | null => simp [keptExpr]
    | str => simp [keptExpr]
    | var => simp [keptExpr]
    | binary _ _ _ _ ih1 ih2 => simp [keptExpr, ih1, ih2]
    | unary _ _ _ ih => simp [keptExpr, ih]
    | array _ _ ih => simp [keptExpr, ih]
    | index _ _ _ _ ih1 ih2 => simp [keptExpr, ih1, ih2]
    | member _ _ _ _ ih => simp [keptExpr, ih]
    | call callee args fn sp ih1 ih2 =>
      cases callee with
      | var => simp [keptExpr, ih2, hp]
      | member => simp only [keptExpr] at ih1 ⊢; simp [ih1, ih2]
      | _ => simp [keptExpr, ih2]
  refine ⟨hE, ?_⟩
  intro b
  induction b using Block.rec (motive_1 := fun s => keptStmt none s = true)
    (motive_4 := fun ss => keptStmts none ss = true)
    (motive_3 := fun ob => keptOptBlock none ob = true) with
  | fnDef _ _ _ _ _ _ _ ih => simp [keptStmt, ih]
  | assign _ _ e => simp [keptStmt, hE e]
  | assignExisting _ _ e => simp [keptStmt, hE e]
  | assignIndex t e => simp [keptStmt, hE t, hE e]
  | ifS c _ _ _ _ ih1 ih2 => simp [keptStmt, hE c, ih1, ih2]
  | loop c _ _ _ ih => simp [keptStmt, hE c, ih]
  | block _ _ _ ih => simp [keptStmt, ih]
  | ret e => cases e with
    | none => simp [keptStmt]
    | some e => simp [keptStmt, hE e]
  | brk => simp [keptStmt]
  | cont => simp [keptStmt]
  | expr e => simp [keptStmt, hE e]
  | mk _ _ ih => simp [keptBlock, ih]
  | nil => simp [keptStmts]
  | cons _ _ ih1 ih2 => simp [keptStmts, ih1, ih2]
  | none => simp [keptOptBlock]
  | some _ ih => simp [keptOptBlock, ih]

end NaijaVerif.Bridge
