import NaijaVerif.Lemmas.BridgeWS
/-
Bridge resolver → evaluator, part 5: the static guarantees the evaluator's RESIDUAL panic sites rely
on, as one decidable predicate `okBlock C d` on the annotated program, and the proof that the output
of the checker has it whenever the checker reports nothing.

* arity (`callArity`, `builtinArity`): a call of a global builtin has exactly one argument; a call
  of a user function carries a `FunctionId` whose recorded parameter count (`C.arity`, the table
  `facts.functions.map paramCount`) is the number of arguments; a definition carries a `FunctionId`
  whose recorded parameter count is the length of its parameter list;
* flow (`flowEscape`): `comot` / `next` only occur inside a loop of the same function body (`d`);
* shape (`assignIndexEmpty`): the target of an index assignment is an index expression;
* literals (`numLit`): every number lexeme satisfies `C.numOk`.
The last two are properties of the PARSER's output that the checker preserves: they are assumed of
the checker's input (`srcBlock`).
-/
namespace NaijaVerif.Bridge
open NaijaVerif NaijaVerif.Resolve

structure SCfg where
  /-- parameter count by `FunctionId` -/
  arity : List Nat
  /-- the number lexemes that `NumOps.ofLit` accepts -/
  numOk : Bytes → Bool

def SCfg.fnOk (C : SCfg) (fn : Option Nat) (n : Nat) : Bool :=
  match fn with
  | some i => C.arity[i]? == some n
  | none => false

def isIndexExpr : Expr → Bool
  | .index _ _ _ _ => true
  | _ => false

mutual
  def okExpr (C : SCfg) : Expr → Bool
    | .num lex _ => C.numOk lex
    | .bool _ _ | .null _ | .str _ _ | .var _ _ _ => true
    | .binary _ l r _ => okExpr C l && okExpr C r
    | .unary _ x _ => okExpr C x
    | .array es _ => okExprs C es
    | .index a i _ _ => okExpr C a && okExpr C i
    | .member o _ _ _ => okExpr C o
    | .call (.member obj _ _ _) args _ _ => okExpr C obj && okExprs C args
    | .call (.var name _ _) args fn _ =>
        okExprs C args &&
          (if (Eval.GlobalB.ofName name).isSome then args.length == 1 else C.fnOk fn args.length)
    | .call _ args _ _ => okExprs C args
  def okExprs (C : SCfg) : List Expr → Bool
    | [] => true
    | e :: es => okExpr C e && okExprs C es
end

mutual
  /-- `d`: the statement is inside a loop of the function body it belongs to. -/
  def okStmt (C : SCfg) (d : Bool) : Stmt → Bool
    | .assign _ _ e _ _ _ => okExpr C e
    | .assignExisting _ _ e _ _ _ => okExpr C e
    | .assignIndex t e _ _ => okExpr C t && okExpr C e && isIndexExpr t
    | .ifS c t e _ _ => okExpr C c && okBlock C d t && okOptBlock C d e
    | .loop c b _ _ => okExpr C c && okBlock C true b
    | .block b _ _ => okBlock C d b
    | .fnDef _ _ ps body fn _ _ => C.fnOk fn ps.length && okBlock C false body
    | .ret (some e) _ _ => okExpr C e
    | .ret none _ _ => true
    | .brk _ _ => d
    | .cont _ _ => d
    | .expr e _ _ => okExpr C e
  def okStmts (C : SCfg) (d : Bool) : List Stmt → Bool
    | [] => true
    | s :: rest => okStmt C d s && okStmts C d rest
  def okBlock (C : SCfg) (d : Bool) : Block → Bool
    | .mk ss _ => okStmts C d ss
  def okOptBlock (C : SCfg) (d : Bool) : Option Block → Bool
    | none => true
    | some b => okBlock C d b
end

/-! ### What is assumed of the checker's input (guarantees of scanner and parser) -/

mutual
  def srcExpr (numOk : Bytes → Bool) : Expr → Bool
    | .num lex _ => numOk lex
    | .bool _ _ | .null _ | .str _ _ | .var _ _ _ => true
    | .binary _ l r _ => srcExpr numOk l && srcExpr numOk r
    | .unary _ x _ => srcExpr numOk x
    | .array es _ => srcExprs numOk es
    | .index a i _ _ => srcExpr numOk a && srcExpr numOk i
    | .member o _ _ _ => srcExpr numOk o
    | .call c args _ _ => srcExpr numOk c && srcExprs numOk args
  def srcExprs (numOk : Bytes → Bool) : List Expr → Bool
    | [] => true
    | e :: es => srcExpr numOk e && srcExprs numOk es
end

mutual
  def srcStmt (numOk : Bytes → Bool) : Stmt → Bool
    | .assign _ _ e _ _ _ => srcExpr numOk e
    | .assignExisting _ _ e _ _ _ => srcExpr numOk e
    | .assignIndex t e _ _ => srcExpr numOk t && srcExpr numOk e && isIndexExpr t
    | .ifS c t e _ _ => srcExpr numOk c && srcBlock numOk t && srcOptBlock numOk e
    | .loop c b _ _ => srcExpr numOk c && srcBlock numOk b
    | .block b _ _ => srcBlock numOk b
    | .fnDef _ _ _ body _ _ _ => srcBlock numOk body
    | .ret (some e) _ _ => srcExpr numOk e
    | .ret none _ _ => true
    | .brk _ _ => true
    | .cont _ _ => true
    | .expr e _ _ => srcExpr numOk e
  def srcStmts (numOk : Bytes → Bool) : List Stmt → Bool
    | [] => true
    | s :: rest => srcStmt numOk s && srcStmts numOk rest
  def srcBlock (numOk : Bytes → Bool) : Block → Bool
    | .mk ss _ => srcStmts numOk ss
  def srcOptBlock (numOk : Bytes → Bool) : Option Block → Bool
    | none => true
    | some b => srcBlock numOk b
end

/-! ### The parameter-count table -/

/-- The table `T` extends the parameter counts recorded in `f`. -/
def TLe (f : Facts) (T : List Nat) : Prop := ∀ (i n : Nat), (fkey f).2[i]? = some n → T[i]? = some n

theorem TLe.mono {f f' : Facts} {T : List Nat} (h : FLe f f') (ht : TLe f' T) : TLe f T :=
  fun i n hi => ht i n (h.get hi)

/-- Every signature in scope has the parameter count the table records for its id. -/
def SigsOK (T : List Nat) (fs : List (List FnSig)) : Prop := ∀ s ∈ fs, ∀ g ∈ s, T[g.id]? = some g.arity

theorem SigsOK.lookup {T : List Nat} {env : Env} (h : SigsOK T env.fns) {x : Bytes} {g : FnSig}
    (hl : lookupFn env x = some g) : T[g.id]? = some g.arity := by
  obtain ⟨s, hs, hg⟩ := lookupFns_mem hl
  exact h s hs g hg

theorem pairs_unique {α β : Type} : ∀ {l : List (α × β)} {a : α} {b c : β}, (l.map (·.1)).Nodup →
    (a, b) ∈ l → (a, c) ∈ l → b = c
  | [], _, _, _, _, h, _ => by cases h
  | p :: l, a, b, c, hn, h1, h2 => by
      simp only [List.map_cons, List.nodup_cons] at hn
      rcases List.mem_cons.1 h1 with h1 | h1 <;> rcases List.mem_cons.1 h2 with h2 | h2
      · rw [← h1] at h2; exact (Prod.mk.inj h2).2.symm
      · exact absurd (by rw [← h1]; exact List.mem_map_of_mem (f := (·.1)) h2) hn.1
      · exact absurd (by rw [← h2]; exact List.mem_map_of_mem (f := (·.1)) h1) hn.1
      · exact pairs_unique hn.2 h1 h2

/-! ### Expressions -/

theorem checkExprs_length (env : Env) (cur : Scope) (sid : Nat) : ∀ (es : List Expr) (f : Facts),
    (checkExprs env cur sid es f).val.length = es.length
  | [], f => by simp [checkExprs]
  | e :: es, f => by simp [checkExprs, checkExprs_length env cur sid es]

theorem isIndexExpr_check (env : Env) (cur : Scope) (sid : Nat) (t : Expr) (f : Facts)
    (h : isIndexExpr t = true) : isIndexExpr (checkExpr env cur sid t f).val = true := by
  cases t <;> simp [isIndexExpr] at h
  simp [checkExpr, isIndexExpr]

mutual
  theorem checkExpr_ok (C : SCfg) (env : Env) (cur : Scope) (sid : Nat) (hs : SigsOK C.arity env.fns) :
      ∀ (e : Expr) (f : Facts), srcExpr C.numOk e = true → (checkExpr env cur sid e f).ds = [] →
        okExpr C (checkExpr env cur sid e f).val = true
    | .num _ _, f, hsrc, _ => by simpa [checkExpr, okExpr, srcExpr] using hsrc
    | .bool _ _, f, _, _ => by simp [checkExpr, okExpr]
    | .null _, f, _, _ => by simp [checkExpr, okExpr]
    | .str (.static _) _, f, _, _ => by simp [checkExpr, okExpr]
    | .str (.interp segs) s, f, _, _ => by simp [checkExpr, okExpr]
    | .array es _, f, hsrc, h => by
        simp only [checkExpr] at h ⊢
        simp only [okExpr]
        exact checkExprs_ok C env cur sid hs es f (by simpa [srcExpr] using hsrc) h
    | .index a i _ _, f, hsrc, h => by
        simp only [srcExpr, Bool.and_eq_true] at hsrc
        simp only [checkExpr, List.append_eq_nil_iff] at h ⊢
        simp only [okExpr, Bool.and_eq_true]
        exact ⟨checkExpr_ok C env cur sid hs a f hsrc.1 h.1.1.1, checkExpr_ok C env cur sid hs i _ hsrc.2 h.1.1.2⟩
    | .var v _ s, f, _, h => by
        simp only [checkExpr]
        split <;> simp [okExpr]
    | .binary _ l r _, f, hsrc, h => by
        simp only [srcExpr, Bool.and_eq_true] at hsrc
        simp only [checkExpr, List.append_eq_nil_iff] at h ⊢
        simp only [okExpr, Bool.and_eq_true]
        exact ⟨checkExpr_ok C env cur sid hs l f hsrc.1 h.1.1, checkExpr_ok C env cur sid hs r _ hsrc.2 h.1.2⟩
    | .unary _ e _, f, hsrc, h => by
        simp only [srcExpr] at hsrc
        simp only [checkExpr, List.append_eq_nil_iff] at h ⊢
        simp only [okExpr]
        exact checkExpr_ok C env cur sid hs e f hsrc h.1
    | .member o _ _ _, f, _, h => by simp [checkExpr] at h
    | .call callee args _ s, f, hsrc, h => by
        simp only [srcExpr, Bool.and_eq_true] at hsrc
        cases callee with
        | var fname vb vs =>
          cases hg : GlobalB.ofName fname with
          | some g =>
            simp only [checkExpr, hg, List.append_eq_nil_iff] at h ⊢
            have hg' : (Eval.GlobalB.ofName fname).isSome = true := by
              rw [← global_tables_agree, hg]; rfl
            have hlen : args.length = 1 := by
              have h1 := h.1.1
              cases hc : (args.length != g.arity) with
              | true => simp [errIf, hc] at h1
              | false => simpa [GlobalB.arity] using hc
            simp only [okExpr, hg', if_true, Bool.and_eq_true, checkExprs_length, hlen, beq_self_eq_true, and_true]
            exact checkExprs_ok C env cur sid hs args f hsrc.2 h.2
          | none =>
            have hg' : (Eval.GlobalB.ofName fname).isSome = false := by
              rw [← global_tables_agree, hg]; rfl
            cases hl : lookupFn env fname with
            | some g =>
              simp only [checkExpr, hg, hl, List.append_eq_nil_iff] at h ⊢
              have hlen : args.length = g.arity := by
                have h1 := h.1
                cases hc : (args.length != g.arity) with
                | true => simp [errIf, hc] at h1
                | false => simpa using hc
              simp only [okExpr, hg', Bool.false_eq_true, if_false, Bool.and_eq_true, SCfg.fnOk,
                checkExprs_length, hlen, hs.lookup hl, beq_self_eq_true, and_true]
              exact checkExprs_ok C env cur sid hs args _ hsrc.2 h.2
            | none => simp [checkExpr, hg, hl] at h
        | member obj field fs ms =>
          simp only [srcExpr] at hsrc
          simp only [checkExpr, List.append_eq_nil_iff] at h ⊢
          simp only [okExpr, Bool.and_eq_true]
          exact ⟨checkExpr_ok C env cur sid hs obj f hsrc.1 h.1.1, checkExprs_ok C env cur sid hs args _ hsrc.2 h.2⟩
        | num _ _ => simp [checkExpr] at h
        | bool _ _ => simp [checkExpr] at h
        | null _ => simp [checkExpr] at h
        | str _ _ => rw [checkExpr.eq_def] at h; simp at h
        | array _ _ => rw [checkExpr.eq_def] at h; simp at h
        | index _ _ _ _ => rw [checkExpr.eq_def] at h; simp at h
        | binary _ _ _ _ => rw [checkExpr.eq_def] at h; simp at h
        | unary _ _ _ => rw [checkExpr.eq_def] at h; simp at h
        | call _ _ _ _ => rw [checkExpr.eq_def] at h; simp at h
  theorem checkExprs_ok (C : SCfg) (env : Env) (cur : Scope) (sid : Nat) (hs : SigsOK C.arity env.fns) :
      ∀ (es : List Expr) (f : Facts), srcExprs C.numOk es = true → (checkExprs env cur sid es f).ds = [] →
        okExprs C (checkExprs env cur sid es f).val = true
    | [], f, _, _ => by simp [checkExprs, okExprs]
    | e :: es, f, hsrc, h => by
        simp only [srcExprs, Bool.and_eq_true] at hsrc
        simp only [checkExprs, List.append_eq_nil_iff] at h ⊢
        simp only [okExprs, Bool.and_eq_true]
        exact ⟨checkExpr_ok C env cur sid hs e f hsrc.1 h.1, checkExprs_ok C env cur sid hs es _ hsrc.2 h.2⟩
end

/-! ### Statements and blocks -/

theorem fnDefs_cons (s : Stmt) (ss : List Stmt) : fnDefs (s :: ss) = fnDefs [s] ++ fnDefs ss := by
  cases s <;> simp [fnDefs]

/-- The own function scope gives every definition of the statement list the parameter count of
that very definition. -/
def DefsArity (env : Env) (ss : List Stmt) : Prop :=
  ∀ name n, (name, n) ∈ fnDefs ss → ∀ own rest g, env.fns = own :: rest → findFn own name = some g → g.arity = n

theorem keys3_keys {l l' : List FnSig} (h : l'.map sigKey3 = l.map sigKey3) : l'.map sigKey = l.map sigKey := by
  have := congrArg (List.map (fun k : Bytes × Nat × Nat => (k.1, k.2.2))) h
  have e : (fun k : Bytes × Nat × Nat => (k.1, k.2.2)) ∘ sigKey3 = sigKey := rfl
  rwa [List.map_map, List.map_map, e] at this

theorem defsArity_block {env2 : Env} {sigs : List FnSig} {rest : List (List FnSig)} (henv : env2.fns = sigs :: rest)
    {ss : List Stmt} (hk : sigs.map sigKey = fnDefs ss) (hnd : (fnNames ss).Nodup) : DefsArity env2 ss := by
  intro name n hmem own rest' g he hg
  rw [henv] at he
  cases he
  have h1 : (g.name, g.arity) ∈ fnDefs ss := by
    rw [← hk]; exact List.mem_map_of_mem (f := sigKey) (findFn_mem hg)
  rw [findFn_name hg] at h1
  exact pairs_unique (by rw [fnDefs_names]; exact hnd) h1 hmem

mutual
  theorem checkStmt_ok (C : SCfg) (env : Env) (cur : Cur) (hs : SigsOK C.arity env.fns) :
      ∀ (s : Stmt) (f : Facts), srcStmt C.numOk s = true → DefsOK env cur.seenFns [s] → DefsArity env [s] →
        TLe (checkStmt env cur s f).facts C.arity →
        (checkStmt env cur s f).ds = [] → okStmt C (env.inLoop != 0) (checkStmt env cur s f).val = true
    | .assign x xs e _ _ sp, f, hsrc, _, _, _, h => by
        simp only [srcStmt] at hsrc
        have hx := checkExpr_ok C env cur.vars f.stmtEffects.length hs e (pushStmt f env.owner env.scope) hsrc
        simp only [checkStmt] at h ⊢
        split at h <;> simp only [List.append_eq_nil_iff] at h <;> simp only [okStmt] <;> exact hx h.2
    | .assignExisting x xs e _ _ sp, f, hsrc, _, _, _, h => by
        simp only [srcStmt] at hsrc
        cases hl : lookupVar env cur.vars x with
        | some ent =>
          simp only [checkStmt, hl] at h ⊢
          simp only [okStmt]
          exact checkExpr_ok C env cur.vars _ hs e _ hsrc h
        | none => simp [checkStmt, hl] at h
    | .assignIndex t e _ sp, f, hsrc, _, _, _, h => by
        simp only [srcStmt, Bool.and_eq_true] at hsrc
        simp only [checkStmt, List.append_eq_nil_iff] at h ⊢
        simp only [okStmt, Bool.and_eq_true]
        exact ⟨⟨checkExpr_ok C env cur.vars _ hs t _ hsrc.1.1 h.1.1, checkExpr_ok C env cur.vars _ hs e _ hsrc.1.2 h.1.2⟩,
          isIndexExpr_check _ _ _ _ _ hsrc.2⟩
    | .ifS c t e _ sp, f, hsrc, _, _, ht, h => by
        simp only [srcStmt, Bool.and_eq_true] at hsrc
        simp only [checkStmt, List.append_eq_nil_iff] at h ht ⊢
        simp only [okStmt, Bool.and_eq_true]
        refine ⟨⟨checkExpr_ok C env cur.vars _ hs c _ hsrc.1.1 h.1.1.1, ?_⟩, ?_⟩
        · exact checkBlock_ok C { env with vars := cur.vars :: env.vars } _ hs _ rfl t _ hsrc.1.2
            (TLe.mono (checkOptBlock_grow _ _ _ _) ht) h.1.2
        · exact checkOptBlock_ok C { env with vars := cur.vars :: env.vars } _ hs _ rfl e _ hsrc.2 ht h.2
    | .loop c b _ sp, f, hsrc, _, _, ht, h => by
        simp only [srcStmt, Bool.and_eq_true] at hsrc
        simp only [checkStmt, List.append_eq_nil_iff] at h ht ⊢
        simp only [okStmt, Bool.and_eq_true]
        refine ⟨checkExpr_ok C env cur.vars _ hs c _ hsrc.1 h.1.1, ?_⟩
        exact checkBlock_ok C { env with vars := cur.vars :: env.vars, inLoop := env.inLoop + 1 } _ hs true
          (by simp) b _ hsrc.2 ht h.2
    | .block b _ sp, f, hsrc, _, _, ht, h => by
        simp only [srcStmt] at hsrc
        simp only [checkStmt] at h ht ⊢
        simp only [okStmt]
        exact checkBlock_ok C { env with vars := cur.vars :: env.vars } _ hs _ rfl b _ hsrc ht h
    | .fnDef name nsp ps body a b sp, f, hsrc, hd, hda, ht, h => by
        simp only [srcStmt] at hsrc
        have hu : name ∉ cur.seenFns := hd.unseen name (by simp [fnNames])
        have ho := hd.own name (by simp [fnNames])
        unfold ownHas at ho
        split at ho
        · next own rest heq =>
          cases hg : findFn own name with
          | none => simp [hg] at ho
          | some g =>
            obtain ⟨f3, pscope, envB, _, _, hfB, hlB, _, hshape⟩ :=
              checkStmt_fnDef_eq env cur name nsp ps body a b sp f heq hg hu
            rw [hshape] at h ht ⊢
            simp only at h ht
            have har : g.arity = ps.length := hda name ps.length (by simp [fnDefs]) own rest g heq hg
            have hT : C.arity[g.id]? = some g.arity :=
              hs own (by rw [heq]; exact List.mem_cons_self) g (findFn_mem hg)
            have hlen := (declareParams_spec env.spanLen g.id pscope ps [] f3).2.2.1
            simp only [okStmt, Bool.and_eq_true, SCfg.fnOk, hlen, hT, har, beq_self_eq_true, true_and]
            exact checkBlock_ok C envB (some pscope) (by rw [hfB]; exact hs) false (by rw [hlB]; rfl) body _ hsrc ht h
        · simp at ho
    | .ret e _ sp, f, hsrc, _, _, _, h => by
        cases e with
        | some e =>
          simp only [srcStmt] at hsrc
          simp only [checkStmt, List.append_eq_nil_iff] at h ⊢
          simp only [okStmt]
          exact checkExpr_ok C env cur.vars _ hs e _ hsrc h.2
        | none => simp [checkStmt, okStmt]
    | .brk _ sp, f, _, _, _, _, h => by
        simp only [checkStmt] at h ⊢
        simp only [okStmt]
        cases hc : (env.inLoop == 0) with
        | true => simp [errIf, hc] at h
        | false => simpa [bne] using hc
    | .cont _ sp, f, _, _, _, _, h => by
        simp only [checkStmt] at h ⊢
        simp only [okStmt]
        cases hc : (env.inLoop == 0) with
        | true => simp [errIf, hc] at h
        | false => simpa [bne] using hc
    | .expr e _ sp, f, hsrc, _, _, _, h => by
        simp only [srcStmt] at hsrc
        simp only [checkStmt] at h ⊢
        simp only [okStmt]
        exact checkExpr_ok C env cur.vars _ hs e _ hsrc h
  theorem checkStmts_ok (C : SCfg) (env : Env) (hs : SigsOK C.arity env.fns) :
      ∀ (ss : List Stmt) (cur : Cur) (f : Facts), srcStmts C.numOk ss = true → DefsOK env cur.seenFns ss →
        DefsArity env ss → TLe (checkStmts env cur ss f).facts C.arity →
        (checkStmts env cur ss f).ds = [] → okStmts C (env.inLoop != 0) (checkStmts env cur ss f).val = true
    | [], cur, f, _, _, _, _, _ => by simp [checkStmts, okStmts]
    | s :: ss, cur, f, hsrc, hd, hda, ht, h => by
        simp only [srcStmts, Bool.and_eq_true] at hsrc
        simp only [checkStmts, List.append_eq_nil_iff] at h ht ⊢
        simp only [okStmts, Bool.and_eq_true]
        refine ⟨?_, ?_⟩
        · refine checkStmt_ok C env cur hs s f hsrc.1 hd.head ?_ (TLe.mono (checkStmts_grow _ _ _ _) ht) h.1
          intro name n hmem
          exact hda name n (by rw [fnDefs_cons]; exact List.mem_append_left _ hmem)
        · refine checkStmts_ok C env hs ss _ _ hsrc.2 (hd.tail f) ?_ ht h.2
          intro name n hmem
          exact hda name n (by rw [fnDefs_cons]; exact List.mem_append_right _ hmem)
  theorem checkBlock_ok (C : SCfg) (env : Env) (parent : Option Nat) (hs : SigsOK C.arity env.fns)
      (d : Bool) (hd : d = (env.inLoop != 0)) :
      ∀ (b : Block) (f : Facts), srcBlock C.numOk b = true → TLe (checkBlock env parent b f).facts C.arity →
        (checkBlock env parent b f).ds = [] → okBlock C d (checkBlock env parent b f).val = true
    | .mk ss sp, f, hsrc, ht, h => by
        simp only [srcBlock] at hsrc
        obtain ⟨f2, sigs, env1, _, _, hloop, _, hsig, heq⟩ := checkBlock_eq env parent ss sp f
        rw [heq] at h ht ⊢
        simp only [List.append_eq_nil_iff] at h ht
        obtain ⟨_, _, hpsig⟩ := predeclare_grow env1 ss [] f2
        obtain ⟨hn, hnd⟩ := own_names hsig h.1
        have hkeys : sigs.map sigKey = fnDefs ss := by
          rw [keys3_keys hsig, (predeclare_clean env1 ss [] f2 h.1).1]; rfl
        have hsgrow := checkStmts_grow { env1 with fns := sigs :: env.fns } ss {} (predeclare env1 ss [] f2).facts
        have hs2 : SigsOK C.arity (sigs :: env.fns) := by
          intro s hs' g hg
          rcases List.mem_cons.1 hs' with hs' | hs'
          · rw [hs'] at hg
            obtain ⟨g0, hg0, hkey⟩ := keys3_mem hsig hg
            have hid : g0.id = g.id := by
              have := congrArg (fun k => k.2.1) hkey; simpa [sigKey3] using this
            have har : g0.arity = g.arity := by
              have := congrArg (fun k => k.2.2) hkey; simpa [sigKey3] using this
            rcases hpsig g0 hg0 with hm | ⟨_, _, c⟩
            · cases hm
            · rw [← hid, ← har]
              exact ht _ _ (hsgrow.get c)
          · exact hs s hs' g hg
        simp only [okBlock]
        have := checkStmts_ok C { env1 with fns := sigs :: env.fns } hs2 ss {} (predeclare env1 ss [] f2).facts hsrc
          (defsOK_block rfl hn hnd) (defsArity_block rfl hkeys hnd) ht h.2
        rw [hd, ← hloop]
        exact this
  theorem checkOptBlock_ok (C : SCfg) (env : Env) (parent : Option Nat) (hs : SigsOK C.arity env.fns)
      (d : Bool) (hd : d = (env.inLoop != 0)) :
      ∀ (b : Option Block) (f : Facts), srcOptBlock C.numOk b = true →
        TLe (checkOptBlock env parent b f).facts C.arity →
        (checkOptBlock env parent b f).ds = [] → okOptBlock C d (checkOptBlock env parent b f).val = true
    | none, f, _, _, _ => by simp [checkOptBlock, okOptBlock]
    | some b, f, hsrc, ht, h => by
        simp only [srcOptBlock] at hsrc
        simp only [checkOptBlock] at h ht ⊢
        simp only [okOptBlock]
        exact checkBlock_ok C env parent hs d hd b f hsrc ht h
end

/-- The table of the facts the resolver ends with. -/
def arityTable (r : Resolved) : List Nat := (fkey r.facts).2

/-- **An accepted program has the static guarantees** the evaluator's residual sites rely on —
provided its number lexemes are accepted by `numOk` and its index assignments have an index (the
parser's and the scanner's guarantees, `srcBlock`). -/
theorem resolve_ok (spanLen : Bool) (numOk : Bytes → Bool) (q : Block) (hsrc : srcBlock numOk q = true)
    (h : (resolveWith spanLen q).rdiags = []) :
    okBlock ⟨arityTable (resolveWith spanLen q), numOk⟩ false (resolveWith spanLen q).root = true := by
  refine checkBlock_ok ⟨arityTable (resolveWith spanLen q), numOk⟩ (rootEnv spanLen) none ?_ false rfl q rootFacts
    hsrc ?_ h
  · intro s hs; cases hs
  · intro i n hi; exact hi

end NaijaVerif.Bridge
