import NaijaVerif.Lemmas.Render
import NaijaVerif.Lemmas.RenderUtf8
/-
The renderer does not panic on safe spans: every `slice?`, `sub1?` and index in `renderDiagnostic`,
`computeGutterWidth` and `renderAnsi` succeeds when the text is valid UTF-8 and every diagnostic span and
label span is ordered, inside the text and on character boundaries — and what it writes is valid UTF-8
when the file name, codes and messages are.
-/
set_option linter.unusedSimpArgs false
set_option linter.unusedVariables false

namespace NaijaVerif.Render
open NaijaVerif NaijaVerif.Utf8
open NaijaVerif.Bytes (isCont isBoundary)

/-- a span the renderer may slice with (the `SafeSpan` of `Props/C07Lex.lean`) -/
def Safe (src : Bytes) (s : Span) : Prop :=
  s.lo ≤ s.hi ∧ s.hi ≤ src.length ∧ isBoundary src s.lo = true ∧ isBoundary src s.hi = true

def RDiag.Safe (src : Bytes) (d : RDiag) : Prop :=
  Render.Safe src d.span ∧ ∀ l ∈ d.labels, Render.Safe src l.span

/-- code, message and label messages are valid UTF-8 (they are Rust `&str`s) -/
def RDiag.TextValid (d : RDiag) : Prop :=
  validUtf8 d.code = true ∧ validUtf8 d.msg = true ∧ ∀ l ∈ d.labels, validUtf8 l.msg = true

/-- validity of a concatenation of known-valid pieces -/
macro "valid_cat" : tactic =>
  `(tactic| repeat (with_reducible (first
      | assumption
      | exact valid_bold | exact valid_reset | exact valid_color _ | exact valid_sevLabel _
      | exact valid_natStr _ | exact valid_replicate _ _ (by decide) | exact valid_nil
      | exact valid_ascii [_] (by decide) | exact valid_ascii [_, _] (by decide)
      | exact valid_ascii [_, _, _] (by decide)
      | apply valid_padLeft
      | apply valid_append)))

theorem mapOpt_some' {α β : Type} (f : α → Option β) (P : β → Prop) :
    ∀ (l : List α), (∀ a ∈ l, ∃ b, f a = some b ∧ P b) → ∃ bs, mapOpt f l = some bs ∧ ∀ b ∈ bs, P b := by
  intro l
  induction l with
  | nil => intro _; exact ⟨[], rfl, by simp⟩
  | cons a as ih =>
    intro h
    obtain ⟨b, hb, hpb⟩ := h a (by simp)
    obtain ⟨bs, hbs, hm⟩ := ih (fun a' ha' => h a' (by simp [ha']))
    refine ⟨b :: bs, by simp [mapOpt, hb, hbs], ?_⟩
    intro b' hb'
    rcases List.mem_cons.mp hb' with rfl | hb'
    · exact hpb
    · exact hm b' hb'

theorem min_boundary {src : Bytes} {a b : Nat} (ha : isBoundary src a = true) (hb : isBoundary src b = true) :
    isBoundary src (min a b) = true := by
  rcases Nat.le_total a b with h | h
  · rw [Nat.min_eq_left h]; exact ha
  · rw [Nat.min_eq_right h]; exact hb

/-- the slice under a caret / dash run: `src[lo .. min(hi, line_end)]` -/
theorem body_slice_some {src : Bytes} {s : Span} (hs : Safe src s) {le : Nat} (h1 : s.lo ≤ le)
    (h2 : le ≤ src.length) (h3 : isBoundary src le = true) :
    ∃ t, slice? src s.lo (min s.hi le) = some t := by
  refine ⟨_, slice?_some ?_ ?_ hs.2.2.1 (min_boundary hs.2.2.2 h3)⟩
  · have := hs.1; omega
  · have := hs.2.1; omega

theorem valid_renderPlainGutter (s : Sev) (w : Nat) : validUtf8 (renderPlainGutter (color s) w) = true := by
  unfold renderPlainGutter; valid_cat

theorem valid_renderGutter (line : Nat) (s : Sev) (w : Nat) : validUtf8 (renderGutter line (color s) w) = true := by
  unfold renderGutter; valid_cat

theorem renderLabelLine_some (col dashes : Nat) (c msg plain : Bytes) (h : 1 ≤ col) :
    ∃ t, renderLabelLine col dashes c msg plain = some t ∧
      (validUtf8 c = true → validUtf8 msg = true → validUtf8 plain = true → validUtf8 t = true) := by
  simp only [renderLabelLine, sub1?_pos h]
  refine ⟨_, rfl, ?_⟩
  intro _ _ _; valid_cat

theorem renderCaretLine_some (col len : Nat) (c plain : Bytes) (h : 1 ≤ col) :
    ∃ t, renderCaretLine col len c plain = some t ∧
      (validUtf8 c = true → validUtf8 plain = true → validUtf8 t = true) := by
  simp only [renderCaretLine, sub1?_pos h]
  refine ⟨_, rfl, ?_⟩
  intro _ _; valid_cat

theorem sameLineLabel_some {src : Bytes} (hv : validUtf8 src = true) {l : RLabel} (hl : Safe src l.span)
    {ls le : Nat} (c plain : Bytes) (h1 : ls ≤ l.span.lo) (h2 : l.span.lo ≤ le) (h3 : le ≤ src.length)
    (h4 : isBoundary src ls = true) (h5 : isBoundary src le = true) :
    ∃ t, sameLineLabel src ls le c plain l = some t ∧
      (validUtf8 c = true → validUtf8 l.msg = true → validUtf8 plain = true → validUtf8 t = true) := by
  have hpre := slice?_some h1 (Nat.le_trans hl.1 hl.2.1) h4 hl.2.2.1
  obtain ⟨body, hbody⟩ := body_slice_some hl h2 h3 h5
  simp only [sameLineLabel, hpre, hbody]
  exact renderLabelLine_some _ _ _ _ _ (by omega)

theorem crossLineLabel_some {src : Bytes} (hv : validUtf8 src = true) {l : RLabel} (hl : Safe src l.span)
    (width : Nat) (s : Sev) :
    ∃ t, crossLineLabel src width (color s) (renderPlainGutter (color s) width) l = some t ∧
      (validUtf8 l.msg = true → validUtf8 t = true) := by
  obtain ⟨lc, hlc, ok⟩ := lineColFromSpan_ok hv (Nat.le_trans hl.1 hl.2.1) hl.2.2.1
  have hline := slice?_some (Nat.le_trans ok.ls_le ok.le_ge) ok.le_len ok.ls_bnd ok.le_bnd
  obtain ⟨body, hbody⟩ := body_slice_some hl ok.le_ge ok.le_len ok.le_bnd
  obtain ⟨ul, hul, hulv⟩ := renderLabelLine_some lc.col (max (visualCol body) 1) (color s) l.msg
    (renderPlainGutter (color s) width) ok.col_pos
  simp only [crossLineLabel, hlc, hline, hbody, hul]
  refine ⟨_, rfl, ?_⟩
  intro hm
  have h1 := valid_renderGutter lc.line s width
  have h2 := valid_expandTabs (valid_slice hv hline)
  have h3 := hulv (valid_color s) hm (valid_renderPlainGutter s width)
  have h4 := valid_renderPlainGutter s width
  valid_cat

/-- two positions on the same line have the same line bounds -/
theorem same_line_bounds {src : Bytes} {s t : Nat} {a b : LineCol} (ha : LineColOk src s a)
    (hb : LineColOk src t b) (h : a.line = b.line) : a.lineStart = b.lineStart ∧ a.lineEnd = b.lineEnd := by
  have h1 := ha.bounds
  have h2 := hb.bounds
  rw [h, h2] at h1
  simp at h1
  exact ⟨h1.1.symm, h1.2.symm⟩

theorem renderDiagnostic_some {src : Bytes} (hv : validUtf8 src = true) (file : Bytes) (width : Nat)
    {d : RDiag} (hd : d.Safe src) :
    ∃ out, renderDiagnostic src file width d = some out ∧
      (validUtf8 file = true → d.TextValid → validUtf8 out = true) := by
  obtain ⟨hsp, hlab⟩ := hd
  obtain ⟨lc, hlc, ok⟩ := lineColFromSpan_ok hv (Nat.le_trans hsp.1 hsp.2.1) hsp.2.2.1
  have hline := slice?_some (Nat.le_trans ok.ls_le ok.le_ge) ok.le_len ok.ls_bnd ok.le_bnd
  obtain ⟨caretTxt, hcaretTxt⟩ := body_slice_some hsp ok.le_ge ok.le_len ok.le_bnd
  obtain ⟨caretLine, hcaretLine, hcaretV⟩ := renderCaretLine_some lc.col (max (charCount caretTxt) 1)
    (color d.sev) (renderPlainGutter (color d.sev) width) ok.col_pos
  -- the partition
  obtain ⟨tagged, htagged, hmem⟩ := mapOpt_some
    (fun l => (lineColFromSpan src l.span.lo).map fun llc => (l, llc.line == lc.line)) d.labels
    (by
      intro l hl
      have hs := hlab l hl
      obtain ⟨llc, hllc, _⟩ := lineColFromSpan_ok hv (Nat.le_trans hs.1 hs.2.1) hs.2.2.1
      exact ⟨(l, llc.line == lc.line), by simp [hllc]⟩)
  -- what is known about a tagged label
  have htag : ∀ p ∈ tagged, p.1 ∈ d.labels ∧
      (p.2 = true → lc.lineStart ≤ p.1.span.lo ∧ p.1.span.lo ≤ lc.lineEnd) := by
    intro p hp
    obtain ⟨l, hl, hf⟩ := hmem p hp
    have hs := hlab l hl
    obtain ⟨llc, hllc, lok⟩ := lineColFromSpan_ok hv (Nat.le_trans hs.1 hs.2.1) hs.2.2.1
    simp [hllc] at hf
    subst hf
    refine ⟨hl, ?_⟩
    intro hsame
    have heq : llc.line = lc.line := by simpa using hsame
    obtain ⟨e1, e2⟩ := same_line_bounds lok ok heq
    exact ⟨by rw [← e1]; exact lok.ls_le, by rw [← e2]; exact lok.le_ge⟩
  obtain ⟨labelLines, hlabelLines, hlabelV⟩ := mapOpt_some'
    (sameLineLabel src lc.lineStart lc.lineEnd (color d.sev) (renderPlainGutter (color d.sev) width))
    (fun t => d.TextValid → validUtf8 t = true)
    ((tagged.filter (·.2)).map (·.1))
    (by
      intro l hl
      obtain ⟨p, hp, rfl⟩ := List.mem_map.mp hl
      obtain ⟨hp1, hp2⟩ := List.mem_filter.mp hp
      obtain ⟨hin, hb⟩ := htag p hp1
      obtain ⟨b1, b2⟩ := hb hp2
      obtain ⟨t, ht, htv⟩ := sameLineLabel_some hv (hlab _ hin) (color d.sev)
        (renderPlainGutter (color d.sev) width) b1 b2 ok.le_len ok.ls_bnd ok.le_bnd
      exact ⟨t, ht, fun htx => htv (valid_color _) (htx.2.2 _ hin) (valid_renderPlainGutter _ _)⟩)
  obtain ⟨crossBlocks, hcrossBlocks, hcrossV⟩ := mapOpt_some'
    (crossLineLabel src width (color d.sev) (renderPlainGutter (color d.sev) width))
    (fun t => d.TextValid → validUtf8 t = true)
    ((tagged.filter (!·.2)).map (·.1))
    (by
      intro l hl
      obtain ⟨p, hp, rfl⟩ := List.mem_map.mp hl
      obtain ⟨hp1, _⟩ := List.mem_filter.mp hp
      obtain ⟨t, ht, htv⟩ := crossLineLabel_some hv (hlab _ (htag p hp1).1) width d.sev
      exact ⟨t, ht, fun htx => htv (htx.2.2 _ (htag p hp1).1)⟩)
  simp only [renderDiagnostic, hlc, hline, hcaretTxt, hcaretLine, htagged, hlabelLines, hcrossBlocks]
  refine ⟨_, rfl, ?_⟩
  intro hfile htx
  have g1 : validUtf8 (renderHeader d.sev d.code d.msg) = true := by
    have := htx.1; have := htx.2.1
    unfold renderHeader; valid_cat
  have g2 : validUtf8 (renderLocation file lc.line lc.col (color d.sev)) = true := by
    unfold renderLocation; valid_cat
  have g3 := valid_renderPlainGutter d.sev width
  have g4 : validUtf8 crossBlocks.flatten = true := valid_flatten _ (fun x hx => hcrossV x hx htx)
  have g5 := valid_renderGutter lc.line d.sev width
  have g6 := valid_expandTabs (valid_slice hv hline)
  have g7 := hcaretV (valid_color _) g3
  have g8 : validUtf8 (labelLines.map (· ++ [nl])).flatten = true := by
    apply valid_flatten
    intro x hx
    obtain ⟨y, hy, rfl⟩ := List.mem_map.mp hx
    have := hlabelV y hy htx
    valid_cat
  valid_cat

theorem computeGutterWidth_some {src : Bytes} (hv : validUtf8 src = true) {ds : List RDiag}
    (hd : ∀ d ∈ ds, d.Safe src) : ∃ w, computeGutterWidth src ds = some w := by
  obtain ⟨lcs, hlcs, _⟩ := mapOpt_some (lineColFromSpan src) (spanStarts ds) (by
    intro p hp
    simp only [spanStarts, List.mem_flatMap, List.mem_cons, List.mem_map] at hp
    obtain ⟨d, hdm, hp⟩ := hp
    have hsafe := hd d hdm
    have hs : ∃ s, Safe src s ∧ p = s.lo := by
      rcases hp with rfl | ⟨l, hl, rfl⟩
      · exact ⟨_, hsafe.1, rfl⟩
      · exact ⟨_, hsafe.2 l hl, rfl⟩
    obtain ⟨s, hs, rfl⟩ := hs
    obtain ⟨lc, hlc, _⟩ := lineColFromSpan_ok hv (Nat.le_trans hs.1 hs.2.1) hs.2.2.1
    exact ⟨lc, hlc⟩)
  simp only [computeGutterWidth, hlcs, Option.map_some]
  exact ⟨_, rfl⟩

theorem renderAnsi_some {src : Bytes} (hv : validUtf8 src = true) (file : Bytes) {ds : List RDiag}
    (hd : ∀ d ∈ ds, d.Safe src) :
    ∃ out, renderAnsi src file ds = some out ∧
      (validUtf8 file = true → (∀ d ∈ ds, d.TextValid) → validUtf8 out = true) := by
  obtain ⟨w, hw⟩ := computeGutterWidth_some hv hd
  obtain ⟨outs, houts, hv'⟩ := mapOpt_some' (renderDiagnostic src file w)
    (fun t => validUtf8 file = true → (∀ d ∈ ds, d.TextValid) → validUtf8 t = true) ds
    (fun d hdm => by
      obtain ⟨t, ht, htv⟩ := renderDiagnostic_some hv file w (hd d hdm)
      exact ⟨t, ht, fun hf hall => htv hf (hall d hdm)⟩)
  simp only [renderAnsi, hw, houts, Option.map_some]
  exact ⟨_, rfl, fun hf hall => valid_flatten _ (fun x hx => hv' x hx hf hall)⟩

end NaijaVerif.Render
