import NaijaVerif.Spec.Utf8
import NaijaVerif.Model.Lex
/-
UTF-8 facts the lexer proofs need: ASCII bytes are whole characters, a valid text can be cut in
front of any byte that is not a continuation byte (self-synchronisation), valid texts concatenate,
and the first character of a valid text has the length its lead byte announces.
-/
namespace NaijaVerif.Utf8
open NaijaVerif
open NaijaVerif.Bytes (isCont)

theorem valid_nil : validUtf8 [] = true := by rw [validUtf8.eq_def]

theorem valid_cons_ascii {b : Nat} {r : Bytes} (hb : b < 128) : validUtf8 (b :: r) = validUtf8 r := by
  rw [validUtf8.eq_def]; simp [hb]

theorem valid_tail_ascii {b : Nat} {r : Bytes} (h : validUtf8 (b :: r) = true) (hb : b < 128) :
    validUtf8 r = true := by
  rwa [valid_cons_ascii hb] at h

theorem v2 {b0 b1 : Nat} {r : Bytes} (h1 : ¬ b0 < 128) (h2 : ¬ b0 < 194) (h3 : b0 < 224) :
    validUtf8 (b0 :: b1 :: r) = (isCont b1 && validUtf8 r) := by
  rw [validUtf8.eq_def]; simp [h1, h2, h3]

theorem v3 {b0 b1 b2 : Nat} {r : Bytes} (h1 : ¬ b0 < 128) (h2 : ¬ b0 < 194) (h3 : ¬ b0 < 224) (h4 : b0 < 240) :
    validUtf8 (b0 :: b1 :: b2 :: r) =
      (isCont b1 && isCont b2 && !(b0 == 224 && decide (b1 < 160)) && !(b0 == 237 && decide (160 ≤ b1)) && validUtf8 r) := by
  rw [validUtf8.eq_def]; simp [h1, h2, h3, h4]

theorem v4 {b0 b1 b2 b3 : Nat} {r : Bytes} (h1 : ¬ b0 < 128) (h2 : ¬ b0 < 194) (h3 : ¬ b0 < 224) (h4 : ¬ b0 < 240)
    (h5 : b0 < 245) :
    validUtf8 (b0 :: b1 :: b2 :: b3 :: r) =
      (isCont b1 && isCont b2 && isCont b3 && !(b0 == 240 && decide (b1 < 144)) && !(b0 == 244 && decide (144 ≤ b1))
        && validUtf8 r) := by
  rw [validUtf8.eq_def]; simp [h1, h2, h3, h4, h5]

/-- the first byte of a valid text is not a continuation byte -/
theorem valid_head_not_cont {b : Nat} {r : Bytes} (h : validUtf8 (b :: r) = true) : isCont b = false := by
  rw [validUtf8.eq_def] at h
  simp only [isCont]
  by_cases h1 : b < 128
  · simp; omega
  · by_cases h2 : b < 194
    · simp [h1, h2] at h
    · simp; omega

/-- Self-synchronisation: a valid text may be cut in front of any non-continuation byte. -/
theorem valid_split : ∀ (l : Bytes), validUtf8 l = true → ∀ (a r : Bytes), l = a ++ r →
    (∀ b r', r = b :: r' → isCont b = false) → validUtf8 a = true ∧ validUtf8 r = true := by
  intro l
  induction l using validUtf8.induct with
  | case1 => intro _ a r h _; simp at h; simp [h.1, h.2, valid_nil]
  | case2 b0 r0 hb ih =>
    intro hv a r h hr
    cases a with
    | nil => simp at h; subst h; exact ⟨valid_nil, hv⟩
    | cons x a' =>
      simp at h; obtain ⟨rfl, rfl⟩ := h
      rw [valid_cons_ascii hb] at hv ⊢
      exact ih hv a' r rfl hr
  | case3 b0 r0 h1 h2 => intro hv; rw [validUtf8.eq_def] at hv; simp [h1, h2] at hv
  | case4 b0 h1 h2 h3 b1 r' ih =>
    intro hv a r h hr
    have hv0 := hv
    rw [v2 h1 h2 h3] at hv; simp at hv
    cases a with
    | nil => simp at h; subst h; exact ⟨valid_nil, hv0⟩
    | cons x a' =>
      simp at h; obtain ⟨rfl, h⟩ := h
      cases a' with
      | nil => simp at h; have := hr b1 r' h.symm; simp [this] at hv
      | cons y a'' =>
        simp at h; obtain ⟨rfl, rfl⟩ := h
        have := ih hv.2 a'' r rfl hr
        exact ⟨by rw [v2 h1 h2 h3]; simp [hv.1, this.1], this.2⟩
  | case5 b0 r0 h1 h2 h3 hne =>
    intro hv
    rw [validUtf8.eq_def] at hv
    simp only [h1, h2, h3] at hv
    split at hv <;> first | contradiction | simp at hv
  | case6 b0 h1 h2 h3 h4 b1 b2 r' ih =>
    intro hv a r h hr
    have hv0 := hv
    rw [v3 h1 h2 h3 h4] at hv; simp only [Bool.and_eq_true] at hv
    cases a with
    | nil => simp at h; subst h; exact ⟨valid_nil, hv0⟩
    | cons x a' =>
      simp at h; obtain ⟨rfl, h⟩ := h
      cases a' with
      | nil => simp at h; have := hr b1 _ h.symm; simp [this] at hv
      | cons y a'' =>
        simp at h; obtain ⟨rfl, h⟩ := h
        cases a'' with
        | nil => simp at h; have := hr b2 _ h.symm; simp [this] at hv
        | cons z a3 =>
          simp at h; obtain ⟨rfl, rfl⟩ := h
          have := ih hv.2 a3 r rfl hr
          exact ⟨by rw [v3 h1 h2 h3 h4]; simp only [Bool.and_eq_true]; exact ⟨hv.1, this.1⟩, this.2⟩
  | case7 b0 r0 h1 h2 h3 h4 hne =>
    intro hv
    rw [validUtf8.eq_def] at hv
    simp only [h1, h2, h3, h4] at hv
    split at hv <;> first | contradiction | simp at hv
  | case8 b0 h1 h2 h3 h4 h5 b1 b2 b3 r' ih =>
    intro hv a r h hr
    have hv0 := hv
    rw [v4 h1 h2 h3 h4 h5] at hv; simp only [Bool.and_eq_true] at hv
    cases a with
    | nil => simp at h; subst h; exact ⟨valid_nil, hv0⟩
    | cons x a' =>
      simp at h; obtain ⟨rfl, h⟩ := h
      cases a' with
      | nil => simp at h; have := hr b1 _ h.symm; simp [this] at hv
      | cons y a'' =>
        simp at h; obtain ⟨rfl, h⟩ := h
        cases a'' with
        | nil => simp at h; have := hr b2 _ h.symm; simp [this] at hv
        | cons z a3 =>
          simp at h; obtain ⟨rfl, h⟩ := h
          cases a3 with
          | nil => simp at h; have := hr b3 _ h.symm; simp [this] at hv
          | cons w a4 =>
            simp at h; obtain ⟨rfl, rfl⟩ := h
            have := ih hv.2 a4 r rfl hr
            exact ⟨by rw [v4 h1 h2 h3 h4 h5]; simp only [Bool.and_eq_true]; exact ⟨hv.1, this.1⟩, this.2⟩
  | case9 b0 r0 h1 h2 h3 h4 h5 hne =>
    intro hv
    rw [validUtf8.eq_def] at hv
    simp only [h1, h2, h3, h4, h5] at hv
    split at hv <;> first | contradiction | simp at hv
  | case10 b0 r0 h1 h2 h3 h4 h5 => intro hv; rw [validUtf8.eq_def] at hv; simp [h1, h2, h3, h4, h5] at hv


theorem valid_append : ∀ (a : Bytes), validUtf8 a = true → ∀ b, validUtf8 b = true → validUtf8 (a ++ b) = true := by
  intro a
  induction a using validUtf8.induct with
  | case1 => intro _ b hb; simpa using hb
  | case2 b0 r0 hb ih =>
    intro hv b hvb
    rw [valid_cons_ascii hb] at hv
    rw [List.cons_append, valid_cons_ascii hb]; exact ih hv b hvb
  | case3 b0 r0 h1 h2 => intro hv; rw [validUtf8.eq_def] at hv; simp [h1, h2] at hv
  | case4 b0 h1 h2 h3 b1 r' ih =>
    intro hv b hvb
    rw [v2 h1 h2 h3] at hv; simp only [Bool.and_eq_true] at hv
    simp only [List.cons_append]; rw [v2 h1 h2 h3]; simp only [Bool.and_eq_true]
    exact ⟨hv.1, ih hv.2 b hvb⟩
  | case5 b0 r0 h1 h2 h3 hne =>
    intro hv
    rw [validUtf8.eq_def] at hv
    simp only [h1, h2, h3] at hv
    split at hv <;> first | contradiction | simp at hv
  | case6 b0 h1 h2 h3 h4 b1 b2 r' ih =>
    intro hv b hvb
    rw [v3 h1 h2 h3 h4] at hv; simp only [Bool.and_eq_true] at hv
    simp only [List.cons_append]; rw [v3 h1 h2 h3 h4]; simp only [Bool.and_eq_true]
    exact ⟨hv.1, ih hv.2 b hvb⟩
  | case7 b0 r0 h1 h2 h3 h4 hne =>
    intro hv
    rw [validUtf8.eq_def] at hv
    simp only [h1, h2, h3, h4] at hv
    split at hv <;> first | contradiction | simp at hv
  | case8 b0 h1 h2 h3 h4 h5 b1 b2 b3 r' ih =>
    intro hv b hvb
    rw [v4 h1 h2 h3 h4 h5] at hv; simp only [Bool.and_eq_true] at hv
    simp only [List.cons_append]; rw [v4 h1 h2 h3 h4 h5]; simp only [Bool.and_eq_true]
    exact ⟨hv.1, ih hv.2 b hvb⟩
  | case9 b0 r0 h1 h2 h3 h4 h5 hne =>
    intro hv
    rw [validUtf8.eq_def] at hv
    simp only [h1, h2, h3, h4, h5] at hv
    split at hv <;> first | contradiction | simp at hv
  | case10 b0 r0 h1 h2 h3 h4 h5 => intro hv; rw [validUtf8.eq_def] at hv; simp [h1, h2, h3, h4, h5] at hv

/-- The first character of a valid text is as long as its lead byte says; it is valid on its own and
so is what follows it. -/
theorem valid_char {b : Nat} {r : Bytes} (h : validUtf8 (b :: r) = true) :
    Lex.charLen b ≤ (b :: r).length ∧ validUtf8 ((b :: r).take (Lex.charLen b)) = true ∧
      validUtf8 ((b :: r).drop (Lex.charLen b)) = true := by
  by_cases h1 : b < 128
  · have : Lex.charLen b = 1 := by simp [Lex.charLen, h1]
    rw [this]
    refine ⟨by simp, ?_, ?_⟩
    · simp [valid_cons_ascii h1, valid_nil]
    · simpa using valid_tail_ascii h h1
  · by_cases h2 : b < 194
    · rw [validUtf8.eq_def] at h; simp [h1, h2] at h
    · by_cases h3 : b < 224
      · have : Lex.charLen b = 2 := by simp [Lex.charLen, h1, h3]
        rw [this]
        match r, h with
        | [], h => rw [validUtf8.eq_def] at h; simp [h1, h2, h3] at h
        | b1 :: r', h =>
          rw [v2 h1 h2 h3] at h; simp only [Bool.and_eq_true] at h
          refine ⟨by simp, ?_, by simpa using h.2⟩
          simp only [List.take_succ_cons, List.take_zero]
          rw [v2 h1 h2 h3]; simp [h.1, valid_nil]
      · by_cases h4 : b < 240
        · have : Lex.charLen b = 3 := by simp [Lex.charLen, h1, h3, h4]
          rw [this]
          match r, h with
          | [], h => rw [validUtf8.eq_def] at h; simp [h1, h2, h3, h4] at h
          | [_], h => rw [validUtf8.eq_def] at h; simp [h1, h2, h3, h4] at h
          | b1 :: b2 :: r', h =>
            rw [v3 h1 h2 h3 h4] at h; simp only [Bool.and_eq_true] at h
            refine ⟨by simp, ?_, by simpa using h.2⟩
            simp only [List.take_succ_cons, List.take_zero]
            rw [v3 h1 h2 h3 h4]; simp only [Bool.and_eq_true]; exact ⟨h.1, valid_nil⟩
        · by_cases h5 : b < 245
          · have : Lex.charLen b = 4 := by simp [Lex.charLen, h1, h3, h4]
            rw [this]
            match r, h with
            | [], h => rw [validUtf8.eq_def] at h; simp [h1, h2, h3, h4, h5] at h
            | [_], h => rw [validUtf8.eq_def] at h; simp [h1, h2, h3, h4, h5] at h
            | [_, _], h => rw [validUtf8.eq_def] at h; simp [h1, h2, h3, h4, h5] at h
            | b1 :: b2 :: b3 :: r', h =>
              rw [v4 h1 h2 h3 h4 h5] at h; simp only [Bool.and_eq_true] at h
              refine ⟨by simp, ?_, by simpa using h.2⟩
              simp only [List.take_succ_cons, List.take_zero]
              rw [v4 h1 h2 h3 h4 h5]; simp only [Bool.and_eq_true]; exact ⟨h.1, valid_nil⟩
          · rw [validUtf8.eq_def] at h; simp [h1, h2, h3, h4, h5] at h

theorem charLen_pos (b : Nat) : 0 < Lex.charLen b := by
  simp only [Lex.charLen]; split <;> (try split) <;> (try split) <;> omega

/-- cutting a valid text in front of a non-continuation byte: the `takeWhile` / `dropWhile` form -/
theorem valid_takeWhile_dropWhile {l : Bytes} (p : Nat → Bool) (h : validUtf8 l = true)
    (hp : ∀ b, p b = false → isCont b = false) :
    validUtf8 (l.takeWhile p) = true ∧ validUtf8 (l.dropWhile p) = true := by
  apply valid_split l h _ _ (List.takeWhile_append_dropWhile (p := p) (l := l)).symm
  intro b r' hb
  have : (l.dropWhile p).head? = some b := by rw [hb]; rfl
  have := List.head?_dropWhile_not p l
  simp_all

/-- dropping ASCII bytes from the front of a valid text -/
theorem valid_dropWhile_ascii {l : Bytes} (p : Nat → Bool) (h : validUtf8 l = true)
    (hp : ∀ b, p b = true → b < 128) : validUtf8 (l.dropWhile p) = true := by
  induction l with
  | nil => simpa using h
  | cons b r ih =>
    simp only [List.dropWhile_cons]
    split
    next hb => exact ih (valid_tail_ascii h (hp b hb))
    next => exact h

end NaijaVerif.Utf8
