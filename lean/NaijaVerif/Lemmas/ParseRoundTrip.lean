import NaijaVerif.Lemmas.ParseFuel
import NaijaVerif.Lemmas.ParseDefs
import NaijaVerif.Model.ParsePrint
/-
Print / parse round trip for expressions (C01 precedence and associativity, C10 redundant
parentheses): printing an expression with the parentheses the binding-power table requires — plus any
number of redundant pairs around any sub-expressions — and parsing the tokens gives the expression
back.  Structure as in `design-spikes/PrattRoundTrip.lean`: the key lemma says that parsing
`printAt c e ++ rest` at level `ctx ≤ c` equals *resuming the Pratt loop* with `lhs = e` on `rest`.
Everything is about the real `parseExpr` / `parseCont` / `parseElems` and the real (generated) table.
-/
namespace NaijaVerif.Parse
open NaijaVerif

/-- What the round trip needs of the tables (all rows; checked by `decide` in `table_ok`). -/
def tableOk : Bool :=
  [BinOp.add, .minus, .times, .divide, .mod, .and, .or, .eq, .gt, .lt].all (fun op =>
    let (t, l, r) := binRow op
    binInfo t == some (op, l, r) && l < r && r < postfixLevel && !isPostfixStart t &&
    [UnOp.not, .neg].all (fun u => l < (unRow u).2)) &&
  [UnOp.not, .neg].all (fun u =>
    let (t, bp) := unRow u
    unaryInfo t == some (u, bp) && bp < postfixLevel && t != .rparen && t != .rbracket &&
    !isPostfixStart t && (match t with | .num _ | .str _ _ | .ident _ | .tru | .fals | .null => false | _ => true)) &&
  [Tok.rparen, .rbracket, .comma, .dot, .lparen, .lbracket, .eof].all (fun t => binInfo t == none) &&
  [Tok.lparen, .lbracket, .rparen, .rbracket, .comma].all (fun t => unaryInfo t == none)

theorem table_ok : tableOk = true := by decide

theorem binRow_spec (op : BinOp) :
    binInfo (binRow op).1 = some (op, (binRow op).2.1, (binRow op).2.2) ∧
    (binRow op).2.1 < (binRow op).2.2 ∧ (binRow op).2.2 < postfixLevel ∧
    isPostfixStart (binRow op).1 = false ∧ ∀ u, (binRow op).2.1 < (unRow u).2 := by
  have h := table_ok
  cases op <;> refine ⟨by decide, by decide, by decide, by decide, fun u => by cases u <;> decide⟩

theorem unRow_spec (u : UnOp) :
    unaryInfo (unRow u).1 = some (u, (unRow u).2) ∧ (unRow u).2 < postfixLevel ∧
    (unRow u).1 ≠ .rparen ∧ (unRow u).1 ≠ .rbracket ∧ isPostfixStart (unRow u).1 = false ∧
    (∀ s, atomOf ⟨(unRow u).1, s⟩ = none) := by
  cases u <;> refine ⟨by decide, by decide, by decide, by decide, by decide, fun s => rfl⟩

@[simp] theorem pushToks_nil (st : PState) : pushToks [] st = st := rfl

@[simp] theorem pushToks_cur (t : Tok) (ts : List Tok) (st : PState) :
    (pushToks (t :: ts) st).cur = mkTok t := rfl

@[simp] theorem mkTok_tok (t : Tok) : (mkTok t).tok = t := rfl
@[simp] theorem mkTok_span (t : Tok) : (mkTok t).span = zspan := rfl
@[simp] theorem zspan_lo : zspan.lo = 0 := rfl
@[simp] theorem zspan_hi : zspan.hi = 0 := rfl

@[simp] theorem pushToks_bump (t : Tok) (ts : List Tok) (st : PState) :
    (pushToks (t :: ts) st).bump = pushToks ts st := by
  cases ts with
  | nil => simp [pushToks, PState.bump]
  | cons u us => simp [pushToks, PState.bump]

theorem pushToks_input (ts : List Tok) (st : PState) :
    (pushToks ts st).cur :: (pushToks ts st).rest = ts.map mkTok ++ st.cur :: st.rest ∧
    (pushToks ts st).errs = st.errs := by
  cases ts <;> simp [pushToks]

theorem pushToks_append (a b : List Tok) (st : PState) :
    pushToks (a ++ b) st = pushToks a (pushToks b st) := by
  cases a with
  | nil => simp
  | cons t as =>
    have h := pushToks_input b st
    show (⟨mkTok t, (as ++ b).map mkTok ++ st.cur :: st.rest, st.errs⟩ : PState) =
      ⟨mkTok t, as.map mkTok ++ (pushToks b st).cur :: (pushToks b st).rest, (pushToks b st).errs⟩
    rw [h.1, h.2, List.map_append, List.append_assoc]

/-! ### Well-formedness: the image of the parser, spans erased -/

def strOk : StrParts → Prop
  | .static _ => True
  | .interp segs => strParts (renderSegs segs) false = .interp segs

mutual
  /-- Spans erased, no binding annotations, string parts that scan back. (Callee, object, operand
      shapes are unrestricted: the parser accepts any expression there.) -/
  def WF : Expr → Prop
    | .num _ s => s = zspan
    | .str parts s => s = zspan ∧ strOk parts
    | .var _ b s => b = none ∧ s = zspan
    | .bool _ s => s = zspan
    | .null s => s = zspan
    | .unary _ e s => s = zspan ∧ WF e
    | .binary _ l r s => s = zspan ∧ WF l ∧ WF r
    | .member o _ fs s => fs = zspan ∧ s = zspan ∧ WF o
    | .call c args fn s => fn = none ∧ s = zspan ∧ WF c ∧ WFs args
    | .index a i is s => is = zspan ∧ s = zspan ∧ WF a ∧ WF i
    | .array es s => s = zspan ∧ WFs es
  def WFs : List Expr → Prop
    | [] => True
    | e :: es => WF e ∧ WFs es
end

mutual
  def esize : Expr → Nat
    | .unary _ e _ => esize e + 1
    | .binary _ l r _ => esize l + esize r + 1
    | .member o _ _ _ => esize o + 1
    | .call c args _ _ => esize c + esizes args + 1
    | .index a i _ _ => esize a + esize i + 1
    | .array es _ => esizes es + 1
    | _ => 1
  def esizes : List Expr → Nat
    | [] => 0
    | e :: es => esize e + esizes es + 1
end

/-! ### Stopping and resuming the Pratt loop -/

/-- The loop at level `k` stops in front of `t`: `t` does not start a postfix form (only required for
    levels up to `postfixLevel`) and is not an operator with `l_bp ≥ k`. -/
def StopsAt (k : Nat) (t : Tok) : Prop :=
  (k ≤ postfixLevel → isPostfixStart t = false) ∧ ∀ op l r, binInfo t = some (op, l, r) → l < k

theorem stops_mono {k k' : Nat} {t : Tok} (h : StopsAt k t) (hk : k ≤ k') : StopsAt k' t :=
  ⟨fun hp => h.1 (Nat.le_trans hk hp), fun op l r hb => Nat.lt_of_lt_of_le (h.2 op l r hb) hk⟩

theorem cont_stop {k : Nat} {st : PState} (e : Expr) (f : Nat)
    (hp : isPostfixStart st.cur.tok = false)
    (hb : ∀ op l r, binInfo st.cur.tok = some (op, l, r) → l < k) :
    parseCont (f + 1) k e st = some (e, st) := by
  rw [parseCont]
  simp only [isPostfixStart, Bool.or_eq_false_iff] at hp
  simp only [hp.1.1, hp.1.2, hp.2]
  cases hbi : binInfo st.cur.tok with
  | none => simp
  | some q =>
    obtain ⟨op, l, r⟩ := q
    simp [hb op l r hbi]

/-- A token list that always resumes the loop with `lhs = e`, whatever follows (parenthesised forms). -/
def Strong (e : Expr) (ts : List Tok) : Prop :=
  ∀ (ctx : Nat) (st : PState) (f : Nat) (res : Expr × PState),
    parseCont f ctx e st = some res → ∃ f', parseExpr f' ctx (pushToks ts st) = some res

theorem strong_paren (e : Expr) (ts : List Tok)
    (h : ∀ (st : PState), st.cur.tok = .rparen → st.cur.span = zspan →
      ∃ f', parseExpr f' 0 (pushToks ts st) = some (e, st)) :
    Strong e (paren ts) := by
  intro ctx st f res hc
  obtain ⟨f1, h1⟩ := h (pushToks [.rparen] st) rfl rfl
  refine ⟨max f1 f + 1, ?_⟩
  have h1' := parseExpr_mono_le (Nat.le_max_left f1 f) h1
  have hc' := parseCont_mono_le (Nat.le_max_right f1 f) hc
  unfold paren
  rw [parseExpr]
  simp only [pushToks_cur, List.cons_append, pushToks_bump]
  have e1 : atomOf (mkTok Tok.lparen) = none := rfl
  have e2 : unaryInfo Tok.lparen = none := by decide
  simp only [e1, e2, mkTok_tok, beq_self_eq_true, if_true]
  rw [pushToks_append, h1']
  simp only [PState.expect, pushToks_cur, mkTok_tok, beq_self_eq_true, if_true, pushToks_bump, pushToks_nil]
  exact hc'

theorem strong_wrapN (e : Expr) (n : Nat) : ∀ ts, Strong e ts → Strong e (wrapN n ts) := by
  induction n with
  | zero => intro ts h; exact h
  | succ n ih =>
    intro ts h
    apply ih
    apply strong_paren
    intro st ht hs
    have hstop : parseCont 1 0 e st = some (e, st) :=
      cont_stop e 0 (by rw [ht]; decide) (by rw [ht, show binInfo Tok.rparen = none by decide]; intro op l r hb; cases hb)
    exact h 0 st 1 (e, st) hstop

/-! ### The key lemma -/

/-- The un-parenthesised print `ts` of `e` resumes the loop wherever `e` needs no parentheses. -/
def Body (e : Expr) (ts : List Tok) : Prop :=
  ∀ (c ctx : Nat) (st : PState) (f : Nat) (res : Expr × PState),
    ctx ≤ c → c ≤ postfixLevel → needs c e = false → StopsAt (c + 1) st.cur.tok →
    st.cur.span = zspan → parseCont f ctx e st = some res →
    ∃ f', parseExpr f' ctx (pushToks ts st) = some res

/-- The key lemma for one expression: parsing its print resumes the loop with `lhs = e`. -/
def Key (p : Expr → Nat) (e : Expr) : Prop :=
  ∀ (c ctx : Nat) (st : PState) (f : Nat) (res : Expr × PState),
    ctx ≤ c → c ≤ postfixLevel → StopsAt (c + 1) st.cur.tok → st.cur.span = zspan →
    parseCont f ctx e st = some res →
    ∃ f', parseExpr f' ctx (pushToks (printAt p c e) st) = some res

theorem needs_zero (e : Expr) : needs 0 e = false := by
  cases e <;> simp [needs]

theorem stops_rparen (k : Nat) : StopsAt k .rparen :=
  ⟨fun _ => by decide, by rw [show binInfo Tok.rparen = none by decide]; intro op l r hb; cases hb⟩
theorem stops_rbracket (k : Nat) : StopsAt k .rbracket :=
  ⟨fun _ => by decide, by rw [show binInfo Tok.rbracket = none by decide]; intro op l r hb; cases hb⟩
theorem stops_comma (k : Nat) : StopsAt k .comma :=
  ⟨fun _ => by decide, by rw [show binInfo Tok.comma = none by decide]; intro op l r hb; cases hb⟩

theorem cont_stop' {k : Nat} {st : PState} (e : Expr) (h : StopsAt k st.cur.tok) (hk : k ≤ postfixLevel) :
    parseCont 1 k e st = some (e, st) := cont_stop e 0 (h.1 hk) h.2

theorem wrap_of_body (p : Expr → Nat) (e : Expr) (ts : List Tok) (hb : Body e ts) :
    ∀ (c ctx : Nat) (st : PState) (f : Nat) (res : Expr × PState),
    ctx ≤ c → c ≤ postfixLevel → StopsAt (c + 1) st.cur.tok → st.cur.span = zspan →
    parseCont f ctx e st = some res →
    ∃ f', parseExpr f' ctx (pushToks (wrap p c e ts) st) = some res := by
  intro c ctx st f res hctx hc hst hsp hcont
  have hstrong : Strong e (paren ts) := by
    apply strong_paren
    intro st' ht hs
    exact hb 0 0 st' 1 (e, st') (Nat.le_refl _) (Nat.zero_le _) (needs_zero e)
      (by rw [ht]; exact stops_rparen _) hs
      (cont_stop' e (by rw [ht]; exact stops_rparen _) (Nat.zero_le _))
  unfold wrap
  by_cases hn : needs c e = true
  · simp only [hn, if_true]
    exact strong_wrapN e (p e) _ hstrong ctx st f res hcont
  · simp only [hn]
    cases hp : p e with
    | zero => exact hb c ctx st f res hctx hc (by simpa using hn) hst hsp hcont
    | succ n => exact strong_wrapN e n _ hstrong ctx st f res hcont

/-! #### heads -/
def HeadOk (ts : List Tok) : Prop := ∃ t r, ts = t :: r ∧ t ≠ .rparen ∧ t ≠ .rbracket

theorem headOk_paren (ts) : HeadOk (paren ts) := ⟨.lparen, ts ++ [.rparen], rfl, by decide, by decide⟩
theorem headOk_wrapN (n : Nat) : ∀ ts, HeadOk ts → HeadOk (wrapN n ts) := by
  induction n with
  | zero => intro ts h; exact h
  | succ n ih => intro ts _; exact ih _ (headOk_paren ts)
theorem headOk_wrap (p c e ts) (h : HeadOk ts) : HeadOk (wrap p c e ts) := by
  unfold wrap; split
  · exact headOk_wrapN _ _ (headOk_paren ts)
  · exact headOk_wrapN _ _ h
theorem headOk_append {a : List Tok} (b : List Tok) (h : HeadOk a) : HeadOk (a ++ b) := by
  obtain ⟨t, r, rfl, h1, h2⟩ := h; exact ⟨t, r ++ b, rfl, h1, h2⟩
theorem headOk_cur {ts : List Tok} (h : HeadOk ts) (st : PState) :
    (pushToks ts st).cur.tok ≠ .rparen ∧ (pushToks ts st).cur.tok ≠ .rbracket := by
  obtain ⟨t, r, rfl, h1, h2⟩ := h; exact ⟨h1, h2⟩

/-! #### bodies -/

theorem body_atom (e : Expr) (t : Tok) (h : atomOf (mkTok t) = some e) : Body e [t] := by
  intro c ctx st f res _ _ _ _ _ hcont
  refine ⟨f + 1, ?_⟩
  rw [parseExpr]
  simp only [pushToks_cur, h, pushToks_bump, pushToks_nil]
  exact hcont

theorem binInfo_row {t : Tok} {o : BinOp} {l r : Nat} (h : binInfo t = some (o, l, r)) :
    binRow o = (t, l, r) := by
  cases t <;> simp [binInfo, Gen.Pratt.binTable, List.find?] at h
  all_goals (obtain ⟨rfl, rfl, rfl⟩ := h)
  all_goals decide

/-- Every operator's `l_bp` is below every prefix operand power. -/
theorem binInfo_lt_unary {t : Tok} {o : BinOp} {l r : Nat} (h : binInfo t = some (o, l, r)) (u : UnOp) :
    l < (unRow u).2 := by
  have := (binRow_spec o).2.2.2.2 u
  rw [binInfo_row h] at this
  exact this

theorem body_unary (p : Expr → Nat) (op : UnOp) (e1 : Expr) (hk : Key p e1) :
    Body (.unary op e1 zspan) ((unRow op).1 :: printAt p (unRow op).2 e1) := by
  intro c ctx st f res hctx hc hn hst hsp hcont
  obtain ⟨hu, hlt, _, _, hpf, hat⟩ := unRow_spec op
  simp only [needs, decide_eq_false_iff_not, Nat.not_lt] at hn
  -- the operand's loop stops in front of `st`
  have hpost : isPostfixStart st.cur.tok = false := hst.1 (by omega)
  have hcs : parseCont 1 (unRow op).2 e1 st = some (e1, st) :=
    cont_stop e1 0 hpost (fun o l r hb => binInfo_lt_unary hb op)
  obtain ⟨f1, h1⟩ := hk (unRow op).2 (unRow op).2 st 1 (e1, st) (Nat.le_refl _) (by omega)
    (stops_mono hst (by omega)) hsp hcs
  refine ⟨max f1 f + 1, ?_⟩
  have h1' := parseExpr_mono_le (Nat.le_max_left f1 f) h1
  have hc' := parseCont_mono_le (Nat.le_max_right f1 f) hcont
  rw [parseExpr]
  have hat' : atomOf (mkTok (unRow op).1) = none := hat zspan
  simp only [pushToks_cur, pushToks_bump, mkTok_tok, mkTok_span, hat', hu, h1', hsp, zspan_lo, zspan_hi]
  exact hc'

theorem body_binary (p : Expr → Nat) (op : BinOp) (l r : Expr) (hl : Key p l) (hr : Key p r)
    (hls : l.span = zspan) :
    Body (.binary op l r zspan)
      (printAt p (binRow op).2.1 l ++ (binRow op).1 :: printAt p (binRow op).2.2 r) := by
  intro c ctx st f res hctx hc hn hst hsp hcont
  obtain ⟨hbi, hlr, hrp, hpf, _⟩ := binRow_spec op
  simp only [needs, decide_eq_false_iff_not, Nat.not_lt] at hn
  have hpost : isPostfixStart st.cur.tok = false := hst.1 (by omega)
  -- right operand: its loop (level r_bp) stops in front of `st`
  have hcs : parseCont 1 (binRow op).2.2 r st = some (r, st) :=
    cont_stop r 0 hpost (fun o l' r' hb => by have := hst.2 o l' r' hb; omega)
  obtain ⟨f2, h2⟩ := hr (binRow op).2.2 (binRow op).2.2 st 1 (r, st) (Nat.le_refl _) (by omega)
    (stops_mono hst (by omega)) hsp hcs
  -- the loop with lhs = l in front of the operator
  let st' := pushToks ((binRow op).1 :: printAt p (binRow op).2.2 r) st
  have hpf' := hpf
  simp only [isPostfixStart, Bool.or_eq_false_iff, beq_eq_false_iff_ne] at hpf'
  have hcl : parseCont (max f2 f + 1) ctx l st' = some res := by
    rw [parseCont]
    simp only [st', pushToks_cur, pushToks_bump, mkTok_tok]
    have e1 : ((binRow op).1 == Tok.dot) = false := by simpa using hpf'.1.1
    have e2 : ((binRow op).1 == Tok.lparen) = false := by simpa using hpf'.1.2
    have e3 : ((binRow op).1 == Tok.lbracket) = false := by simpa using hpf'.2
    simp only [e1, e2, e3, hbi]
    have hnlt : ¬ (binRow op).2.1 < ctx := by omega
    simp only [hnlt, if_false, parseExpr_mono_le (Nat.le_max_left f2 f) h2, hls, hsp, zspan_lo, zspan_hi]
    exact parseCont_mono_le (Nat.le_max_right f2 f) hcont
  have hst' : StopsAt ((binRow op).2.1 + 1) st'.cur.tok := by
    refine ⟨fun _ => by simpa [st'] using hpf, fun o l' r' hb => ?_⟩
    simp only [st', pushToks_cur, mkTok_tok, hbi] at hb
    cases hb; omega
  obtain ⟨f', h'⟩ := hl (binRow op).2.1 ctx st' _ res (by omega) (by omega) hst' rfl hcl
  refine ⟨f', ?_⟩
  rw [pushToks_append]
  exact h'

theorem body_member (p : Expr → Nat) (o : Expr) (fld : Bytes) (ho : Key p o) (hos : o.span = zspan) :
    Body (.member o fld zspan zspan) (printAt p postfixLevel o ++ [.dot, .ident fld]) := by
  intro c ctx st f res hctx hc _ hst hsp hcont
  let st' := pushToks [.dot, .ident fld] st
  have hcl : parseCont (f + 1) ctx o st' = some res := by
    rw [parseCont]
    simp only [st', pushToks_cur, pushToks_bump, mkTok_tok, beq_self_eq_true, if_true, parseField,
      mkTok_span, pushToks_nil, hos, hsp, zspan_lo, zspan_hi]
    exact hcont
  have hst' : StopsAt (postfixLevel + 1) st'.cur.tok :=
    ⟨fun h => by omega, by
      simp only [st', pushToks_cur, mkTok_tok, show binInfo Tok.dot = none by decide]
      intro o l r hb; cases hb⟩
  obtain ⟨f', h'⟩ := ho postfixLevel ctx st' _ res (by omega) (Nat.le_refl _) hst' rfl hcl
  exact ⟨f', by rw [pushToks_append]; exact h'⟩

theorem body_index (p : Expr → Nat) (a i : Expr) (ha : Key p a) (hi : Key p i) (has : a.span = zspan) :
    Body (.index a i zspan zspan)
      (printAt p postfixLevel a ++ .lbracket :: (printAt p 0 i ++ [.rbracket])) := by
  intro c ctx st f res hctx hc _ hst hsp hcont
  -- the index expression, followed by `]`
  have hsr := stops_rbracket 1
  obtain ⟨f1, h1⟩ := hi 0 0 (pushToks [.rbracket] st) 1 (i, pushToks [.rbracket] st) (Nat.le_refl _)
    (Nat.zero_le _) hsr rfl (cont_stop' i (stops_rbracket 0) (Nat.zero_le _))
  let st' := pushToks (.lbracket :: (printAt p 0 i ++ [.rbracket])) st
  have hcl : parseCont (max f1 f + 1) ctx a st' = some res := by
    rw [parseCont]
    simp only [st', pushToks_cur, pushToks_bump, mkTok_tok, mkTok_span]
    have e1 : (Tok.lbracket == Tok.dot) = false := by decide
    have e2 : (Tok.lbracket == Tok.lparen) = false := by decide
    simp only [e1, e2, beq_self_eq_true, if_true, Bool.false_eq_true, if_false]
    rw [pushToks_append, parseExpr_mono_le (Nat.le_max_left f1 f) h1]
    simp only [closeBracket, pushToks_cur, mkTok_tok, beq_self_eq_true, if_true, pushToks_bump,
      pushToks_nil, mkTok_span, has, zspan_lo, zspan_hi]
    exact parseCont_mono_le (Nat.le_max_right f1 f) hcont
  have hst' : StopsAt (postfixLevel + 1) st'.cur.tok :=
    ⟨fun h => by omega, by
      simp only [st', pushToks_cur, mkTok_tok, show binInfo Tok.lbracket = none by decide]
      intro o l r hb; cases hb⟩
  obtain ⟨f', h'⟩ := ha postfixLevel ctx st' _ res (by omega) (Nat.le_refl _) hst' rfl hcl
  exact ⟨f', by rw [pushToks_append]; exact h'⟩

/-- The argument / element list `es` followed by the closer. -/
def KeyList (p : Expr → Nat) (es : List Expr) : Prop :=
  ∀ (close : Tok) (st : PState), (close = .rparen ∨ close = .rbracket) → st.cur.tok = close →
    st.cur.span = zspan → ∃ f', parseElems f' close (pushToks (printArgs p es) st) = some (es, st)

theorem close_ne_comma {close : Tok} (h : close = .rparen ∨ close = .rbracket) :
    (close == Tok.comma) = false := by
  rcases h with rfl | rfl <;> decide

theorem stops_close {close : Tok} (h : close = .rparen ∨ close = .rbracket) (k : Nat) : StopsAt k close := by
  rcases h with rfl | rfl
  · exact stops_rparen k
  · exact stops_rbracket k

theorem keyList_one (p : Expr → Nat) (e : Expr) (hk : Key p e) : KeyList p [e] := by
  intro close st hclose hcur hsp
  have hs : StopsAt 1 st.cur.tok := by rw [hcur]; exact stops_close hclose 1
  have hs0 : StopsAt 0 st.cur.tok := by rw [hcur]; exact stops_close hclose 0
  obtain ⟨f1, h1⟩ := hk 0 0 st 1 (e, st) (Nat.le_refl _) (Nat.zero_le _) hs hsp
    (cont_stop' e hs0 (Nat.zero_le _))
  refine ⟨f1 + 1, ?_⟩
  rw [parseElems]
  simp only [printArgs, h1, hcur, close_ne_comma hclose]
  simp

theorem keyList_cons (p : Expr → Nat) (e e' : Expr) (es : List Expr) (hk : Key p e)
    (hrest : KeyList p (e' :: es)) (hhead : HeadOk (printArgs p (e' :: es))) :
    KeyList p (e :: e' :: es) := by
  intro close st hclose hcur hsp
  obtain ⟨f2, h2⟩ := hrest close st hclose hcur hsp
  let st' := pushToks (.comma :: printArgs p (e' :: es)) st
  obtain ⟨f1, h1⟩ := hk 0 0 st' 1 (e, st') (Nat.le_refl _) (Nat.zero_le _) (stops_comma 1) rfl
    (cont_stop' e (stops_comma 0) (Nat.zero_le _))
  refine ⟨max f1 f2 + 1, ?_⟩
  rw [parseElems]
  simp only [printArgs]
  rw [pushToks_append, parseExpr_mono_le (Nat.le_max_left f1 f2) h1]
  have hne := headOk_cur hhead st
  have hne' : ((pushToks (printArgs p (e' :: es)) st).cur.tok == close) = false := by
    rcases hclose with rfl | rfl
    · simpa using hne.1
    · simpa using hne.2
  simp only [st', pushToks_cur, mkTok_tok, beq_self_eq_true, if_true, pushToks_bump, hne',
    parseElems_mono_le (Nat.le_max_right f1 f2) h2]
  simp

/-- `args )` / `elems ]` after the opening token has been consumed: the `if cur is the closer then []
    else parseElems` of the model. -/
theorem elems_close (p : Expr → Nat) (es : List Expr) (hk : es ≠ [] → KeyList p es)
    (hhead : es ≠ [] → HeadOk (printArgs p es)) (close : Tok)
    (hclose : close = .rparen ∨ close = .rbracket) (st : PState) :
    ∃ f', ∀ g, f' ≤ g →
      (if ((pushToks (printArgs p es ++ [close]) st).cur.tok == close) = true
        then some ([], pushToks (printArgs p es ++ [close]) st)
        else parseElems g close (pushToks (printArgs p es ++ [close]) st))
      = some (es, pushToks [close] st) := by
  cases es with
  | nil => exact ⟨0, fun g _ => by simp [printArgs]⟩
  | cons e es' =>
    obtain ⟨f', h'⟩ := hk (by simp) close (pushToks [close] st) hclose rfl rfl
    refine ⟨f', fun g hg => ?_⟩
    rw [pushToks_append]
    have hne := headOk_cur (hhead (by simp)) (pushToks [close] st)
    have hne' : ((pushToks (printArgs p (e :: es')) (pushToks [close] st)).cur.tok == close) = false := by
      rcases hclose with rfl | rfl
      · simpa using hne.1
      · simpa using hne.2
    simp only [hne', Bool.false_eq_true, if_false]
    exact parseElems_mono_le hg h'

theorem body_call (p : Expr → Nat) (cal : Expr) (args : List Expr) (hc : Key p cal)
    (hk : args ≠ [] → KeyList p args) (hhead : args ≠ [] → HeadOk (printArgs p args))
    (hcs : cal.span = zspan) :
    Body (.call cal args none zspan)
      (printAt p postfixLevel cal ++ .lparen :: (printArgs p args ++ [.rparen])) := by
  intro c ctx st f res hctx hcl _ hst hsp hcont
  obtain ⟨f1, h1⟩ := elems_close p args hk hhead .rparen (Or.inl rfl) st
  let st' := pushToks (.lparen :: (printArgs p args ++ [.rparen])) st
  have hcl' : parseCont (max f1 f + 1) ctx cal st' = some res := by
    rw [parseCont]
    simp only [st', pushToks_cur, pushToks_bump, mkTok_tok, mkTok_span]
    have e1 : (Tok.lparen == Tok.dot) = false := by decide
    simp only [e1, beq_self_eq_true, if_true, Bool.false_eq_true, if_false]
    rw [h1 _ (Nat.le_max_left f1 f)]
    simp only [PState.expect, pushToks_cur, mkTok_tok, beq_self_eq_true, if_true, pushToks_bump,
      pushToks_nil, hcs, hsp, zspan_lo, zspan_hi]
    exact parseCont_mono_le (Nat.le_max_right f1 f) hcont
  have hst' : StopsAt (postfixLevel + 1) st'.cur.tok :=
    ⟨fun h => by omega, by
      simp only [st', pushToks_cur, mkTok_tok, show binInfo Tok.lparen = none by decide]
      intro o l r hb; cases hb⟩
  obtain ⟨f', h'⟩ := hc postfixLevel ctx st' _ res (by omega) (Nat.le_refl _) hst' rfl hcl'
  exact ⟨f', by rw [pushToks_append]; exact h'⟩

theorem body_array (p : Expr → Nat) (es : List Expr)
    (hk : es ≠ [] → KeyList p es) (hhead : es ≠ [] → HeadOk (printArgs p es)) :
    Body (.array es zspan) (.lbracket :: (printArgs p es ++ [.rbracket])) := by
  intro c ctx st f res hctx hcl _ hst hsp hcont
  obtain ⟨f1, h1⟩ := elems_close p es hk hhead .rbracket (Or.inr rfl) st
  refine ⟨max f1 f + 1, ?_⟩
  rw [parseExpr]
  simp only [pushToks_cur, pushToks_bump, mkTok_tok, mkTok_span]
  have e0 : atomOf (mkTok Tok.lbracket) = none := rfl
  have e1 : unaryInfo Tok.lbracket = none := by decide
  have e2 : (Tok.lbracket == Tok.lparen) = false := by decide
  simp only [e0, e1, e2, beq_self_eq_true, if_true, Bool.false_eq_true, if_false]
  rw [h1 _ (Nat.le_max_left f1 f)]
  simp only [closeBracket, pushToks_cur, mkTok_tok, beq_self_eq_true, if_true, pushToks_bump,
    pushToks_nil, mkTok_span, zspan_lo, zspan_hi]
  exact parseCont_mono_le (Nat.le_max_right f1 f) hcont


theorem strParts_escaped (s : Bytes) : strParts s true = .static s := by
  unfold strParts; split <;> simp

theorem atomOf_strTok (parts : StrParts) (h : strOk parts) :
    atomOf (mkTok (strTok parts)) = some (.str parts zspan) := by
  cases parts with
  | static s => simp [strTok, atomOf, mkTok, strParts_escaped, zspan]
  | interp segs => simp only [strOk] at h; simp [strTok, atomOf, mkTok, h, zspan]

theorem strTok_ne (parts : StrParts) : strTok parts ≠ .rparen ∧ strTok parts ≠ .rbracket := by
  cases parts <;> simp [strTok]

theorem boolTok_ne (b : Bool) :
    (if b = true then Tok.tru else Tok.fals) ≠ .rparen ∧ (if b = true then Tok.tru else Tok.fals) ≠ .rbracket := by
  cases b <;> simp

theorem esize_pos (e : Expr) : 1 ≤ esize e := by
  cases e <;> simp [esize]

theorem key_all (p : Expr → Nat) : ∀ n,
    (∀ e, esize e ≤ n → WF e → Key p e ∧ ∀ c, HeadOk (printAt p c e)) ∧
    (∀ es, esizes es ≤ n → WFs es → es ≠ [] → KeyList p es ∧ HeadOk (printArgs p es)) := by
  intro n
  induction n with
  | zero =>
    refine ⟨fun e h => ?_, fun es h _ hne => ?_⟩
    · have := esize_pos e; omega
    · cases es with
      | nil => exact absurd rfl hne
      | cons e es => simp [esizes] at h
  | succ n ih =>
    obtain ⟨ihe, ihl⟩ := ih
    have hlist : ∀ es, esizes es ≤ n → WFs es →
        (es ≠ [] → KeyList p es) ∧ (es ≠ [] → HeadOk (printArgs p es)) :=
      fun es h hw => ⟨fun hne => (ihl es h hw hne).1, fun hne => (ihl es h hw hne).2⟩
    refine ⟨fun e hsz hwf => ?_, fun es hsz hwf hne => ?_⟩
    · cases e with
      | num l s =>
        simp only [WF] at hwf; subst hwf
        exact ⟨fun c => by rw [printAt]; exact wrap_of_body p _ _ (body_atom _ _ rfl) c,
          fun c => by rw [printAt]; exact headOk_wrap _ _ _ _ ⟨_, _, rfl, by simp, by simp⟩⟩
      | str parts s =>
        simp only [WF] at hwf; obtain ⟨rfl, hok⟩ := hwf
        exact ⟨fun c => by rw [printAt]; exact wrap_of_body p _ _ (body_atom _ _ (atomOf_strTok parts hok)) c,
          fun c => by rw [printAt]; exact headOk_wrap _ _ _ _ ⟨_, _, rfl, (strTok_ne parts).1, (strTok_ne parts).2⟩⟩
      | var nm b s =>
        simp only [WF] at hwf; obtain ⟨rfl, rfl⟩ := hwf
        exact ⟨fun c => by rw [printAt]; exact wrap_of_body p _ _ (body_atom _ _ rfl) c,
          fun c => by rw [printAt]; exact headOk_wrap _ _ _ _ ⟨_, _, rfl, by simp, by simp⟩⟩
      | bool b s =>
        simp only [WF] at hwf; subst hwf
        exact ⟨fun c => by rw [printAt]; exact wrap_of_body p _ _ (body_atom _ _ (by cases b <;> rfl)) c,
          fun c => by rw [printAt]; exact headOk_wrap _ _ _ _ ⟨_, _, rfl, (boolTok_ne b).1, (boolTok_ne b).2⟩⟩
      | null s =>
        simp only [WF] at hwf; subst hwf
        exact ⟨fun c => by rw [printAt]; exact wrap_of_body p _ _ (body_atom _ _ rfl) c,
          fun c => by rw [printAt]; exact headOk_wrap _ _ _ _ ⟨_, _, rfl, by simp, by simp⟩⟩
      | unary op e1 s =>
        simp only [WF] at hwf; obtain ⟨rfl, hw1⟩ := hwf
        simp only [esize] at hsz
        have h1 := ihe e1 (by omega) hw1
        obtain ⟨_, _, hne1, hne2, _, _⟩ := unRow_spec op
        exact ⟨fun c => by rw [printAt]; exact wrap_of_body p _ _ (body_unary p op e1 h1.1) c,
          fun c => by rw [printAt]; exact headOk_wrap _ _ _ _ ⟨_, _, rfl, hne1, hne2⟩⟩
      | binary op l r s =>
        simp only [WF] at hwf; obtain ⟨rfl, hwl, hwr⟩ := hwf
        simp only [esize] at hsz
        have hl := ihe l (by omega) hwl
        have hr := ihe r (by omega) hwr
        have hls : l.span = zspan := by cases l <;> simp_all [WF, Expr.span]
        exact ⟨fun c => by rw [printAt]; exact wrap_of_body p _ _ (body_binary p op l r hl.1 hr.1 hls) c,
          fun c => by rw [printAt]; exact headOk_wrap _ _ _ _ (headOk_append _ (hl.2 _))⟩
      | member o fld fs s =>
        simp only [WF] at hwf; obtain ⟨rfl, rfl, hwo⟩ := hwf
        simp only [esize] at hsz
        have ho := ihe o (by omega) hwo
        have hos : o.span = zspan := by cases o <;> simp_all [WF, Expr.span]
        exact ⟨fun c => by rw [printAt]; exact wrap_of_body p _ _ (body_member p o fld ho.1 hos) c,
          fun c => by rw [printAt]; exact headOk_wrap _ _ _ _ (headOk_append _ (ho.2 _))⟩
      | call cal args fn s =>
        simp only [WF] at hwf; obtain ⟨rfl, rfl, hwc, hwa⟩ := hwf
        simp only [esize] at hsz
        have hc := ihe cal (by omega) hwc
        have ha := hlist args (by omega) hwa
        have hcs : cal.span = zspan := by cases cal <;> simp_all [WF, Expr.span]
        exact ⟨fun c => by rw [printAt]; exact wrap_of_body p _ _ (body_call p cal args hc.1 ha.1 ha.2 hcs) c,
          fun c => by rw [printAt]; exact headOk_wrap _ _ _ _ (headOk_append _ (hc.2 _))⟩
      | index a i is s =>
        simp only [WF] at hwf; obtain ⟨rfl, rfl, hwa, hwi⟩ := hwf
        simp only [esize] at hsz
        have ha := ihe a (by omega) hwa
        have hi := ihe i (by omega) hwi
        have has : a.span = zspan := by cases a <;> simp_all [WF, Expr.span]
        exact ⟨fun c => by rw [printAt]; exact wrap_of_body p _ _ (body_index p a i ha.1 hi.1 has) c,
          fun c => by rw [printAt]; exact headOk_wrap _ _ _ _ (headOk_append _ (ha.2 _))⟩
      | array es s =>
        simp only [WF] at hwf; obtain ⟨rfl, hwes⟩ := hwf
        simp only [esize] at hsz
        have ha := hlist es (by omega) hwes
        exact ⟨fun c => by rw [printAt]; exact wrap_of_body p _ _ (body_array p es ha.1 ha.2) c,
          fun c => by rw [printAt]; exact headOk_wrap _ _ _ _ ⟨_, _, rfl, by simp, by simp⟩⟩
    · cases es with
      | nil => exact absurd rfl hne
      | cons e rest =>
        simp only [WFs] at hwf
        simp only [esizes] at hsz
        have he := ihe e (by omega) hwf.1
        cases rest with
        | nil => exact ⟨keyList_one p e he.1, by simp only [printArgs]; exact he.2 0⟩
        | cons e' es' =>
          have hr := ihl (e' :: es') (by omega) hwf.2 (by simp)
          exact ⟨keyList_cons p e e' es' he.1 hr.1 hr.2,
            by simp only [printArgs]; exact headOk_append _ (he.2 0)⟩

end NaijaVerif.Parse
