/-
Helper lemmas for C15 (`Props/C15.lean`): the generic "last call wins" fold, the environment
invariant of `set_env`, and the stage-by-stage characterisation of `validate`.
-/
import NaijaVerif.Model.Proc
import NaijaVerif.Spec.Proc

namespace NaijaVerif.Proc

/-! ### The builder: args, cwd, stdin, stdio, timeout -/

theorem foldl_program (ops : List Op) (c : Cmd) : (ops.foldl step c).program = c.program := by
  induction ops generalizing c with
  | nil => rfl
  | cons op rest ih => rw [List.foldl_cons, ih]; cases op <;> rfl

theorem foldl_args (ops : List Op) (c : Cmd) :
    (ops.foldl step c).args = c.args ++ argTexts ops := by
  induction ops generalizing c with
  | nil => simp [argTexts]
  | cons op rest ih =>
    rw [List.foldl_cons, ih]
    cases op <;> simp [step, argTexts, Op.argText, List.filterMap_cons]

/-- Generic "last set wins" for a field that each op either sets (`f op = some a`) or keeps. -/
theorem foldl_last {α : Type} (get : Cmd → α) (f : Op → Option α)
    (hstep : ∀ c op, get (step c op) = match f op with | some a => a | none => get c)
    (ops : List Op) (c : Cmd) :
    get (ops.foldl step c) = match lastOf f ops with | some a => a | none => get c := by
  induction ops generalizing c with
  | nil => rfl
  | cons op rest ih =>
    rw [List.foldl_cons, ih, lastOf]
    cases lastOf f rest with
    | some a => rfl
    | none => exact hstep c op

theorem lastOf_map {α β : Type} (f : Op → Option α) (g : α → β) (ops : List Op) :
    lastOf (fun op => (f op).map g) ops = (lastOf f ops).map g := by
  induction ops with
  | nil => rfl
  | cons op rest ih => simp only [lastOf, ih]; cases lastOf f rest <;> simp

/-! ### Environment: one pair per key, holding the last value, in first-insertion order -/

theorem mem_dedup (l : List Bytes) (k : Bytes) : k ∈ dedup l ↔ k ∈ l := by
  induction l with
  | nil => simp [dedup]
  | cons a rest ih =>
    simp only [dedup, List.mem_cons, List.mem_filter, ih, decide_eq_true_eq]
    by_cases h : k = a <;> simp [h]

theorem dedup_nodup (l : List Bytes) : (dedup l).Nodup := by
  induction l with
  | nil => simp [dedup]
  | cons a rest ih =>
    simp only [dedup, List.nodup_cons, List.mem_filter, decide_eq_true_eq]
    exact ⟨fun h => h.2 rfl, ih.filter _⟩

theorem dedup_append_singleton (l : List Bytes) (k : Bytes) :
    dedup (l ++ [k]) = if k ∈ l then dedup l else dedup l ++ [k] := by
  induction l with
  | nil => simp [dedup]
  | cons a rest ih =>
    simp only [List.cons_append, dedup, ih, List.mem_cons]
    by_cases hka : k = a
    · subst hka
      by_cases hr : k ∈ rest <;> simp [hr, List.filter_append]
    · by_cases hr : k ∈ rest <;> simp [hr, hka, List.filter_append]

theorem lastWrite_append_singleton (ws : List (Bytes × Bytes)) (k v k' : Bytes) :
    lastWrite (ws ++ [(k, v)]) k' = if k = k' then some v else lastWrite ws k' := by
  induction ws with
  | nil => simp [lastWrite]
  | cons p rest ih =>
    obtain ⟨a, b⟩ := p
    simp only [List.cons_append, lastWrite, ih]
    by_cases h : k = k' <;> simp [h]

theorem replaceFirst_none_iff (k v : Bytes) (l : List (Bytes × Bytes)) :
    replaceFirst k v l = none ↔ k ∉ l.map Prod.fst := by
  induction l with
  | nil => simp [replaceFirst]
  | cons p rest ih =>
    obtain ⟨a, b⟩ := p
    simp only [replaceFirst, List.map_cons, List.mem_cons]
    by_cases h : a = k
    · simp [h]
    · have h' : ¬ k = a := fun e => h e.symm
      simp only [h, if_false, h', false_or]
      rw [← ih]
      cases replaceFirst k v rest <;> simp

theorem replaceFirst_keys (k v : Bytes) (l r : List (Bytes × Bytes))
    (h : replaceFirst k v l = some r) : r.map Prod.fst = l.map Prod.fst := by
  induction l generalizing r with
  | nil => simp [replaceFirst] at h
  | cons p rest ih =>
    obtain ⟨a, b⟩ := p
    simp only [replaceFirst] at h
    by_cases hk : a = k
    · simp only [hk, if_true, Option.some.injEq] at h
      subst h; simp [hk]
    · simp only [hk, if_false] at h
      cases hr : replaceFirst k v rest with
      | none => simp [hr] at h
      | some r' =>
        simp only [hr, Option.some.injEq] at h
        subst h; simp [ih r' hr]

theorem replaceFirst_mem (k v : Bytes) (l r : List (Bytes × Bytes))
    (h : replaceFirst k v l = some r) (hn : (l.map Prod.fst).Nodup) (k' v' : Bytes) :
    (k', v') ∈ r ↔ (if k' = k then v' = v else (k', v') ∈ l) := by
  induction l generalizing r with
  | nil => simp [replaceFirst] at h
  | cons p rest ih =>
    obtain ⟨a, b⟩ := p
    simp only [List.map_cons, List.nodup_cons] at hn
    simp only [replaceFirst] at h
    by_cases hk : a = k
    · simp only [hk, if_true, Option.some.injEq] at h
      subst h; subst hk
      by_cases hk' : k' = a
      · subst hk'
        simp only [List.mem_cons, Prod.mk.injEq, true_and, if_true]
        constructor
        · rintro (h1 | h1)
          · exact h1
          · exact absurd (List.mem_map_of_mem (f := Prod.fst) h1) hn.1
        · exact Or.inl
      · simp [hk']
    · simp only [hk, if_false] at h
      cases hr : replaceFirst k v rest with
      | none => simp [hr] at h
      | some r' =>
        simp only [hr, Option.some.injEq] at h
        subst h
        have := ih r' hr hn.2
        simp only [List.mem_cons, Prod.mk.injEq, this]
        by_cases hk' : k' = k
        · have : ¬ k' = a := fun e => hk (e ▸ hk')
          simp [hk']
          intro e; exact absurd e.symm hk
        · simp [hk']

theorem nodup_reverse_of_nodup {α : Type} (l : List α) (h : l.Nodup) : l.reverse.Nodup := by
  unfold List.Nodup at *
  rw [List.pairwise_reverse]
  exact h.imp (fun hab e => hab e.symm)

theorem setEnv_keys (env : List (Bytes × Bytes)) (k v : Bytes) :
    (setEnv env k v).map Prod.fst =
      if k ∈ env.map Prod.fst then env.map Prod.fst else env.map Prod.fst ++ [k] := by
  unfold setEnv
  cases h : replaceFirst k v env.reverse with
  | none =>
    have := (replaceFirst_none_iff k v env.reverse).mp h
    simp only [List.map_reverse, List.mem_reverse] at this
    simp [this]
  | some r =>
    have hk := replaceFirst_keys k v _ r h
    have hin : k ∈ env.map Prod.fst := by
      have : ¬ replaceFirst k v env.reverse = none := by simp [h]
      rw [replaceFirst_none_iff] at this
      simpa using this
    simp only [hin, if_true, List.map_reverse, hk, List.reverse_reverse]

theorem setEnv_mem (env : List (Bytes × Bytes)) (k v : Bytes) (hn : (env.map Prod.fst).Nodup)
    (k' v' : Bytes) :
    (k', v') ∈ setEnv env k v ↔ (if k' = k then v' = v else (k', v') ∈ env) := by
  unfold setEnv
  cases h : replaceFirst k v env.reverse with
  | none =>
    have hnot := (replaceFirst_none_iff k v env.reverse).mp h
    simp only [List.map_reverse, List.mem_reverse] at hnot
    simp only [List.mem_append, List.mem_singleton, Prod.mk.injEq]
    by_cases hk' : k' = k
    · subst hk'
      simp only [true_and, if_true]
      constructor
      · rintro (h1 | h1)
        · exact absurd (List.mem_map_of_mem (f := Prod.fst) h1) hnot
        · exact h1
      · exact Or.inr
    · simp [hk']
  | some r =>
    have hn' : (env.reverse.map Prod.fst).Nodup := by
      rw [List.map_reverse]; exact nodup_reverse_of_nodup _ hn
    have := replaceFirst_mem k v _ r h hn' k' v'
    simp only [List.mem_reverse] at this ⊢
    exact this

theorem lastWrite_none_iff (l : List (Bytes × Bytes)) (k : Bytes) :
    lastWrite l k = none ↔ k ∉ l.map Prod.fst := by
  induction l with
  | nil => simp [lastWrite]
  | cons p rest ih =>
    obtain ⟨a, b⟩ := p
    cases h : lastWrite rest k with
    | some v =>
      have hin : k ∈ rest.map Prod.fst := by
        apply Classical.byContradiction
        intro hn
        rw [ih.mpr hn] at h
        cases h
      simp only [lastWrite, h, List.map_cons, List.mem_cons]
      constructor
      · intro h'; cases h'
      · intro h'; exact absurd (Or.inr hin) h'
    | none =>
      have hnin := ih.mp h
      simp only [lastWrite, h, List.map_cons, List.mem_cons]
      by_cases hak : a = k
      · simp [hak]
      · have : ¬ k = a := fun e => hak e.symm
        simp [hak, this, hnin]

/-- In a list without duplicate keys, "the last write to `k`" is simply "the pair with key `k`". -/
theorem lastWrite_some_iff_mem (l : List (Bytes × Bytes)) (hn : (l.map Prod.fst).Nodup) (k v : Bytes) :
    lastWrite l k = some v ↔ (k, v) ∈ l := by
  induction l generalizing v with
  | nil => simp [lastWrite]
  | cons p rest ih =>
    obtain ⟨a, b⟩ := p
    simp only [List.map_cons, List.nodup_cons] at hn
    cases h : lastWrite rest k with
    | some v' =>
      have hmem : (k, v') ∈ rest := (ih hn.2 v').mp h
      have hka : ¬ k = a := fun e => hn.1 (e ▸ List.mem_map_of_mem (f := Prod.fst) hmem)
      simp only [lastWrite, h, List.mem_cons, Prod.mk.injEq, Option.some.injEq, hka, false_and, false_or]
      rw [← ih hn.2 v, h, Option.some.injEq]
    | none =>
      have hnin := (lastWrite_none_iff rest k).mp h
      have hnm : (k, v) ∉ rest := fun hm => hnin (List.mem_map_of_mem (f := Prod.fst) hm)
      simp only [lastWrite, h, List.mem_cons, Prod.mk.injEq, hnm, or_false]
      by_cases hak : a = k
      · subst hak; simp [eq_comm]
      · have : ¬ k = a := fun e => hak e.symm
        simp [hak, this]

/-- What the `env` vector must look like after the writes `ws`. -/
structure EnvInv (env ws : List (Bytes × Bytes)) : Prop where
  keys : env.map Prod.fst = dedup (ws.map Prod.fst)
  vals : ∀ k v, (k, v) ∈ env ↔ lastWrite ws k = some v

theorem EnvInv.nodup {env ws : List (Bytes × Bytes)} (h : EnvInv env ws) :
    (env.map Prod.fst).Nodup := by rw [h.keys]; exact dedup_nodup _

theorem EnvInv.setEnv {env ws : List (Bytes × Bytes)} (h : EnvInv env ws) (k v : Bytes) :
    EnvInv (setEnv env k v) (ws ++ [(k, v)]) := by
  constructor
  · simp only [setEnv_keys, List.map_append, List.map_cons, List.map_nil, dedup_append_singleton,
      h.keys, mem_dedup]
  · intro k' v'
    rw [setEnv_mem env k v h.nodup, lastWrite_append_singleton]
    by_cases hk : k' = k
    · subst hk; simp; exact eq_comm
    · have : ¬ k = k' := fun e => hk e.symm
      simp [hk, this, h.vals]

theorem foldl_env (ops : List Op) (c : Cmd) (ws : List (Bytes × Bytes)) (h : EnvInv c.env ws) :
    EnvInv (ops.foldl step c).env (ws ++ envWrites ops) := by
  induction ops generalizing c ws with
  | nil => simpa [envWrites] using h
  | cons op rest ih =>
    rw [List.foldl_cons]
    by_cases hop : ∃ k v, op = .env k v
    · obtain ⟨k, v, rfl⟩ := hop
      have := ih (step c (.env k v)) (ws ++ [(k, v)]) (h.setEnv k v)
      simpa [envWrites, List.filterMap_cons, Op.envWrite] using this
    · have henv : (step c op).env = c.env := by cases op <;> simp_all [step]
      have hw : envWrites (op :: rest) = envWrites rest := by
        cases op <;> simp_all [envWrites, List.filterMap_cons, Op.envWrite]
      rw [hw]
      exact ih _ ws (henv ▸ h)

theorem build_envInv (p : Bytes) (ops : List Op) : EnvInv (build p ops).env (envWrites ops) := by
  have := foldl_env ops (Cmd.new p) [] ⟨by simp [Cmd.new, dedup], by simp [Cmd.new, lastWrite]⟩
  simpa [build] using this

/-! ### Validation: accepted exactly when every limit is respected -/

theorem andThen_ok_iff {α β : Type} (x : Except Err α) (f : α → Except Err β) (b : β) :
    andThen x f = .ok b ↔ ∃ a, x = .ok a ∧ f a = .ok b := by
  cases x <;> simp [andThen]

theorem andThen_error_iff {α β : Type} (x : Except Err α) (f : α → Except Err β) (e : Err) :
    andThen x f = .error e ↔ x = .error e ∨ ∃ a, x = .ok a ∧ f a = .error e := by
  cases x <;> simp [andThen]

theorem check_ok_iff (p : Prop) [Decidable p] (e : Err) (u : Unit) : check p e = .ok u ↔ p := by
  unfold check; split <;> simp_all

theorem check_error_iff (p : Prop) [Decidable p] (e e' : Err) :
    check p e = .error e' ↔ ¬ p ∧ e' = e := by
  unfold check; split <;> simp_all [eq_comm]

theorem validateText_ok_iff (e : Err) (v : Bytes) (max : Nat) (ae fe : Bool) (n : Nat)
    (hmax : max < u32Lim) :
    validateText e v max ae fe = .ok n ↔ TextOk v max ae fe ∧ n = v.length := by
  unfold validateText TextOk
  split
  · next h => simp; intro h1; exact absurd (h1 h.1) (by simp [h.2])
  · next h1 =>
    split
    · next h => simp [h]
    · next h2 =>
      split
      · next h => simp; intro _ _ h3; exact absurd h.2 (h3 h.1)
      · next h3 =>
        split
        · next h => simp; intro _ _ _; omega
        · next h4 =>
          split
          · next h => simp; intro _ _ _; omega
          · next h5 =>
            simp only [Except.ok.injEq]
            constructor
            · intro hn
              refine ⟨⟨?_, h2, ?_, by omega⟩, hn.symm⟩
              · intro ha hv; exact h1 ⟨ha, hv⟩
              · intro hf h61; exact h3 ⟨hf, h61⟩
            · intro h; exact h.2.symm

theorem validateText_error_iff (e e' : Err) (v : Bytes) (max : Nat) (ae fe : Bool)
    (hmax : max < u32Lim) :
    validateText e v max ae fe = .error e' ↔ ¬ TextOk v max ae fe ∧ e' = e := by
  have hok := validateText_ok_iff e v max ae fe v.length hmax
  by_cases ht : TextOk v max ae fe
  · have : validateText e v max ae fe = .ok v.length := hok.mpr ⟨ht, rfl⟩
    simp [this, ht]
  · have hcases : validateText e v max ae fe = .error e ∨
        validateText e v max ae fe = .ok v.length := by
      unfold validateText
      repeat' split
      all_goals simp
    rcases hcases with h | h
    · simp [h, ht, eq_comm]
    · exact absurd ((validateText_ok_iff e v max ae fe _ hmax).mp h).1 ht

theorem validateCount_ok_iff (len max : Nat) (e : Err) (u : Unit) (hmax : max < u32Lim) :
    validateCount len max e = .ok u ↔ len ≤ max := by
  unfold validateCount
  split
  · simp; omega
  · split <;> simp <;> omega

theorem validateCount_error_iff (len max : Nat) (e e' : Err) (hmax : max < u32Lim) :
    validateCount len max e = .error e' ↔ max < len ∧ e' = e := by
  unfold validateCount
  split
  · simp [eq_comm]; intro _; omega
  · split <;> simp [eq_comm] <;> omega

theorem argsLoop_ok_iff (caps : Caps) (hcap : caps.maxArg < u32Lim) (args : List Bytes) (t t' : Nat)
    (ht : t < u32Lim) :
    argsLoop caps args t = .ok t' ↔
      (∀ a ∈ args, TextOk a caps.maxArg true false) ∧ t + argBytes args < u32Lim ∧
        t' = t + argBytes args := by
  induction args generalizing t with
  | nil => simp [argsLoop, argBytes, eq_comm]; intro _; exact ht
  | cons a rest ih =>
    simp only [argsLoop, andThen_ok_iff, validateText_ok_iff _ _ _ _ _ _ hcap, List.mem_cons,
      forall_eq_or_imp]
    have hsum : argBytes (a :: rest) = a.length + argBytes rest := by simp [argBytes]
    constructor
    · rintro ⟨len, ⟨hok, rfl⟩, h⟩
      split at h
      · cases h
      · next hlt =>
        have := (ih (t + a.length) (by omega)).mp h
        exact ⟨⟨hok, this.1⟩, by omega, by omega⟩
    · rintro ⟨⟨hok, hrest⟩, hlt, rfl⟩
      refine ⟨a.length, ⟨hok, rfl⟩, ?_⟩
      rw [if_neg (by omega)]
      exact (ih (t + a.length) (by omega)).mpr ⟨hrest, by omega, by omega⟩

theorem argsLoop_error (caps : Caps) (hcap : caps.maxArg < u32Lim) (args : List Bytes) (t : Nat)
    (e : Err) (h : argsLoop caps args t = .error e) :
    (e = .argument ∧ ∃ a ∈ args, ¬ TextOk a caps.maxArg true false) ∨
      (e = .argBytes ∧ u32Lim ≤ t + argBytes args) := by
  induction args generalizing t with
  | nil => simp [argsLoop] at h
  | cons a rest ih =>
    have hsum : argBytes (a :: rest) = a.length + argBytes rest := by simp [argBytes]
    simp only [argsLoop, andThen_error_iff, validateText_error_iff _ _ _ _ _ _ hcap,
      validateText_ok_iff _ _ _ _ _ _ hcap] at h
    rcases h with ⟨hbad, rfl⟩ | ⟨len, ⟨_, rfl⟩, h⟩
    · exact Or.inl ⟨rfl, a, by simp, hbad⟩
    · split at h
      · cases h; exact Or.inr ⟨rfl, by omega⟩
      · rcases ih _ h with ⟨he, b, hb, hbad⟩ | ⟨he, hle⟩
        · exact Or.inl ⟨he, b, by simp [hb], hbad⟩
        · exact Or.inr ⟨he, by omega⟩

theorem envLoop_ok_iff (caps : Caps) (hk : caps.maxEnvKey < u32Lim) (hv : caps.maxEnvValue < u32Lim)
    (env : List (Bytes × Bytes)) (t t' : Nat) (ht : t < u32Lim) :
    envLoop caps env t = .ok t' ↔
      (∀ p ∈ env, TextOk p.1 caps.maxEnvKey false true ∧ TextOk p.2 caps.maxEnvValue true false) ∧
        t + envBytes env < u32Lim ∧ t' = t + envBytes env := by
  induction env generalizing t with
  | nil => simp [envLoop, envBytes, eq_comm]; intro _; exact ht
  | cons p rest ih =>
    obtain ⟨k, v⟩ := p
    simp only [envLoop, andThen_ok_iff, validateText_ok_iff _ _ _ _ _ _ hk,
      validateText_ok_iff _ _ _ _ _ _ hv, List.mem_cons, forall_eq_or_imp]
    have hsum : envBytes ((k, v) :: rest) = k.length + v.length + envBytes rest := by simp [envBytes]
    constructor
    · rintro ⟨kl, ⟨hkok, rfl⟩, vl, ⟨hvok, rfl⟩, h⟩
      split at h
      · cases h
      · next hlt =>
        have := (ih (t + k.length + v.length) (by omega)).mp h
        exact ⟨⟨⟨hkok, hvok⟩, this.1⟩, by omega, by omega⟩
    · rintro ⟨⟨⟨hkok, hvok⟩, hrest⟩, hlt, rfl⟩
      refine ⟨k.length, ⟨hkok, rfl⟩, v.length, ⟨hvok, rfl⟩, ?_⟩
      rw [if_neg (by omega)]
      exact (ih (t + k.length + v.length) (by omega)).mpr ⟨hrest, by omega, by omega⟩

theorem envLoop_error (caps : Caps) (hk : caps.maxEnvKey < u32Lim) (hv : caps.maxEnvValue < u32Lim)
    (env : List (Bytes × Bytes)) (t : Nat) (e : Err) (h : envLoop caps env t = .error e) :
    (e = .envKey ∧ ∃ p ∈ env, ¬ TextOk p.1 caps.maxEnvKey false true) ∨
      (e = .envValue ∧ ∃ p ∈ env, ¬ TextOk p.2 caps.maxEnvValue true false) ∨
      (e = .envBytes ∧ u32Lim ≤ t + envBytes env) := by
  induction env generalizing t with
  | nil => simp [envLoop] at h
  | cons p rest ih =>
    obtain ⟨k, v⟩ := p
    have hsum : envBytes ((k, v) :: rest) = k.length + v.length + envBytes rest := by simp [envBytes]
    simp only [envLoop, andThen_error_iff, validateText_error_iff _ _ _ _ _ _ hk,
      validateText_error_iff _ _ _ _ _ _ hv, validateText_ok_iff _ _ _ _ _ _ hk,
      validateText_ok_iff _ _ _ _ _ _ hv] at h
    rcases h with ⟨hbad, rfl⟩ | ⟨kl, ⟨_, rfl⟩, h⟩
    · exact Or.inl ⟨rfl, (k, v), by simp, hbad⟩
    · rcases h with ⟨hbad, rfl⟩ | ⟨vl, ⟨_, rfl⟩, h⟩
      · exact Or.inr (Or.inl ⟨rfl, (k, v), by simp, hbad⟩)
      · split at h
        · cases h; exact Or.inr (Or.inr ⟨rfl, by omega⟩)
        · rcases ih _ h with ⟨he, q, hq, hbad⟩ | ⟨he, q, hq, hbad⟩ | ⟨he, hle⟩
          · exact Or.inl ⟨he, q, by simp [hq], hbad⟩
          · exact Or.inr (Or.inl ⟨he, q, by simp [hq], hbad⟩)
          · exact Or.inr (Or.inr ⟨he, by omega⟩)

theorem validateCwd_ok_iff (cwd : Option Bytes) (caps : Caps) (u : Unit) (h : caps.maxCwd < u32Lim) :
    validateCwd cwd caps = .ok u ↔ ∀ d, cwd = some d → TextOk d caps.maxCwd false false := by
  cases cwd with
  | none => simp [validateCwd]
  | some d => simp [validateCwd, andThen_ok_iff, validateText_ok_iff _ _ _ _ _ _ h]

theorem validateStdin_ok_iff (s : StdinPol) (caps : Caps) (u : Unit) (h : caps.maxStdin < u32Lim) :
    validateStdin s caps = .ok u ↔ ∀ t, s = .text t → TextOk t caps.maxStdin true false := by
  cases s with
  | inherit => simp [validateStdin]
  | null => simp [validateStdin]
  | text t => simp [validateStdin, andThen_ok_iff, validateText_ok_iff _ _ _ _ _ _ h]

end NaijaVerif.Proc
