/-
The executable reader loop `Capture.readLoop` (what the `rd` requests of the `capture` protocol
compare with the real `read_captured_stream` on a scripted `Read`) is the transition system's own
reader: iterating `Side.read` / `Side.check` / `Side.eof` / `Side.fail` — the functions `Capture.step`
applies for the labels `rdRead` / `rdCheck` / `rdEof` / `rdFail` — over the same script gives the
same buffer, the same result kind and the same flag.  Likewise `Capture.joinCapture` (`join_capture`
as a function of the reader thread's result and the flag) is what the main thread's `joinOut` /
`flagOut` statements compute.
-/
import NaijaVerif.Model.Capture
namespace NaijaVerif.Capture
set_option linter.unusedSimpArgs false

/-- What `handle.join()` returns for a reader thread that has finished in side `d`. -/
def RdRes.ofSide (d : Side) : RdRes := if d.rd = .failed then .err else .ok d.acc

/-- The transition system's reader of one side, driven by a script: before each `read` the pipe
holds exactly what the event says `read` returns (nothing, and the child gone, for a zero-length
read and at the end of the script). -/
def Side.feed (chunk cap my : Nat) : Nat → Side → List RdEv → Side × Nat
  | flag, d, [] => ((Side.eof false { d with pipe := [] }).getD d, flag)
  | flag, d, .zero :: _ => ((Side.eof false { d with pipe := [] }).getD d, flag)
  | flag, d, .fail :: _ => ((Side.fail d).getD d, flag)
  | flag, d, .data c :: rest =>
      match Side.read chunk { d with pipe := c } with
      | none => ((Side.eof false { d with pipe := [] }).getD d, flag)
      | some d₁ =>
          match Side.check cap my flag d₁ with
          | none => (d₁, flag)
          | some (d₂, flag₂) =>
              if d₂.rd = .idle then Side.feed chunk cap my flag₂ d₂ rest else (d₂, flag₂)

theorem Side.read_script {chunk : Nat} {d : Side} {c : Bytes} (hchunk : 0 < chunk)
    (hd : d.rd = .idle) (hce : c ≠ []) (hc : c.length ≤ chunk) :
    Side.read chunk { d with pipe := c } = some { d with pipe := [], rd := .got c } := by
  have hc0 : chunk ≠ 0 := by omega
  simp [Side.read, hd, hc0, hce, List.take_of_length_le hc, List.drop_of_length_le hc]

theorem Side.feed_eq_readLoop (chunk cap my : Nat) (hchunk : 0 < chunk) :
    ∀ (evs : List RdEv) (flag : Nat) (d : Side), d.rd = .idle →
      (∀ c, RdEv.data c ∈ evs → c.length ≤ chunk) →
      RdRes.ofSide (Side.feed chunk cap my flag d evs).1 = (readLoop cap my flag d.acc evs).1 ∧
      (Side.feed chunk cap my flag d evs).2 = (readLoop cap my flag d.acc evs).2 ∧
      (Side.feed chunk cap my flag d evs).1.finished = true := by
  intro evs
  induction evs with
  | nil =>
    intro flag d hd _
    simp [Side.feed, readLoop, Side.eof, hd, RdRes.ofSide, Side.finished]
  | cons ev rest ih =>
    intro flag d hd hsz
    cases ev with
    | zero => simp [Side.feed, readLoop, Side.eof, hd, RdRes.ofSide, Side.finished]
    | fail => simp [Side.feed, readLoop, Side.fail, hd, RdRes.ofSide, Side.finished]
    | data c =>
      have hc : c.length ≤ chunk := hsz c (by simp)
      by_cases hce : c = []
      · subst hce
        simp [Side.feed, readLoop, Side.read, Side.eof, hd, RdRes.ofSide, Side.finished]
      · by_cases hov : d.acc.length + c.length > cap
        · simp [Side.feed, readLoop, Side.read_script hchunk hd hce hc, Side.check, hce, hov,
            RdRes.ofSide, Side.finished]
        · have hrest : ∀ c', RdEv.data c' ∈ rest → c'.length ≤ chunk :=
            fun c' hm => hsz c' (by simp [hm])
          have := ih flag { d with rd := .idle, acc := d.acc ++ c, pipe := [] } rfl hrest
          simp only [Side.feed, readLoop, Side.read_script hchunk hd hce hc, Side.check, hce, hov,
            if_false, if_true]
          simpa using this

/-! ### Splitting long pieces of data into reads of at most `chunk` bytes -/

theorem splitChunk_le {chunk : Nat} (hchunk : 0 < chunk) :
    ∀ (fuel : Nat) (c : Bytes), c.length ≤ fuel + chunk →
      ∀ c', RdEv.data c' ∈ splitChunk chunk fuel c → c'.length ≤ chunk := by
  intro fuel
  induction fuel with
  | zero =>
    intro c hl c' hm
    simp only [splitChunk, List.mem_singleton, RdEv.data.injEq] at hm
    subst hm; omega
  | succ f ih =>
    intro c hl c' hm
    simp only [splitChunk] at hm
    split at hm
    · next hsm =>
      simp only [List.mem_singleton, RdEv.data.injEq] at hm
      subst hm
      rcases hsm with h | h
      · omega
      · exact h
    · next hbig =>
      simp only [List.mem_cons, RdEv.data.injEq] at hm
      rcases hm with hm | hm
      · subst hm; simp; omega
      · refine ih (c.drop chunk) ?_ c' hm
        simp only [List.length_drop]
        omega

/-- After `expandEvents` no piece of data is longer than the reader's buffer. -/
theorem expandEvents_le {chunk : Nat} (hchunk : 0 < chunk) :
    ∀ (evs : List RdEv) c', RdEv.data c' ∈ expandEvents chunk evs → c'.length ≤ chunk := by
  intro evs
  induction evs with
  | nil => intro c' hm; simp [expandEvents] at hm
  | cons ev rest ih =>
    intro c' hm
    cases ev with
    | data c =>
      simp only [expandEvents, List.mem_append] at hm
      rcases hm with hm | hm
      · exact splitChunk_le hchunk c.length c (by omega) c' hm
      · exact ih c' hm
    | zero =>
      simp only [expandEvents, List.mem_cons] at hm
      rcases hm with hm | hm
      · cases hm
      · exact ih c' hm
    | fail =>
      simp only [expandEvents, List.mem_cons] at hm
      rcases hm with hm | hm
      · cases hm
      · exact ih c' hm

/-! ### What the loop's result means (the oracle of the `rd` requests, proved of the model) -/

/-- All data up to the first zero-length read; `none` if a failing read comes first. -/
def cleanData : List RdEv → Option Bytes
  | [] => some []
  | .zero :: _ => some []
  | .fail :: _ => none
  | .data c :: rest => if c = [] then some [] else (cleanData rest).map (c ++ ·)

/-- `Ok(buf)` with the flag still clear: no read failed before the end of the stream and `buf` is
every byte that was read — never a shortened stream. -/
theorem readLoop_clean (cap my : Nat) (hmy : my ≠ 0) :
    ∀ (evs : List RdEv) (buf out : Bytes), readLoop cap my 0 buf evs = (.ok out, 0) →
      ∃ rest, cleanData evs = some rest ∧ out = buf ++ rest := by
  intro evs
  induction evs with
  | nil => intro buf out h; simp [readLoop] at h; exact ⟨[], rfl, by simp [h]⟩
  | cons ev rest ih =>
    intro buf out h
    cases ev with
    | zero => simp [readLoop] at h; exact ⟨[], rfl, by simp [h]⟩
    | fail => simp [readLoop] at h
    | data c =>
      simp only [readLoop] at h
      split at h
      · next hc => simp at h; exact ⟨[], by simp [cleanData, hc], by simp [h]⟩
      · next hc =>
        split at h
        · simp at h; exact absurd h.2 hmy
        · obtain ⟨r, hr, ho⟩ := ih (buf ++ c) out h
          exact ⟨c ++ r, by simp [cleanData, hc, hr], by simp [ho]⟩

/-- Number of bytes an event delivers. -/
def RdEv.size : RdEv → Nat
  | .data c => c.length
  | _ => 0

/-- A failing read before the end of the stream and before any overflow is an `Err`, whatever was
read before it. -/
theorem readLoop_err_of_fail (cap my flag : Nat) :
    ∀ (pre : List RdEv) (buf : Bytes) (post : List RdEv),
      (∀ e ∈ pre, ∃ c, e = RdEv.data c ∧ c ≠ []) →
      buf.length + (pre.map RdEv.size).sum ≤ cap →
      readLoop cap my flag buf (pre ++ .fail :: post) = (.err, flag) := by
  intro pre
  induction pre with
  | nil => intro buf post _ _; simp [readLoop]
  | cons e pre ih =>
    intro buf post hall hsum
    obtain ⟨c, rfl, hc⟩ := hall e (by simp)
    simp only [List.map_cons, List.sum_cons, RdEv.size] at hsum
    simp only [List.cons_append, readLoop, hc, if_false]
    have : ¬ (buf.length + c.length > cap) := by omega
    simp only [this, if_false]
    refine ih (buf ++ c) post (fun e he => hall e (by simp [he])) ?_
    simp only [List.length_append]; omega

/-! ### `joinCapture` is the main thread's `join_capture(stdout)` -/

/-- `join_capture(stdout)` as the main thread executes it: the join, then (if the reader returned
`Ok`) the flag re-check and the validation. -/
def joinOutSteps (cfg : Cfg) (s : State) : Option State :=
  (stepMain cfg s).bind (fun s₁ =>
    match s₁.pc with
    | .flagOut _ => stepMain cfg s₁
    | _ => some s₁)

theorem joinCapture_is_lts_join (cfg : Cfg) (s : State) (st : Option Nat)
    (hpc : s.pc = .joinOut st) (hfin : s.o.finished = true) (hna : s.o.rd ≠ .absent) :
    (joinOutSteps cfg s).map State.pc = some
      (match joinCapture cfg.fixedJoin s.flag .out (RdRes.ofSide s.o) with
       | .error e => .done (.error e)
       | .text b => .joinErr st (some b)) := by
  rw [Side.finished] at hfin
  cases hrd : s.o.rd <;> simp [hrd] at hfin hna
  all_goals
    simp only [joinOutSteps, stepMain, hpc, hrd, RdRes.ofSide, joinCapture, Option.bind_some]
  · -- eof
    cases hj : joinOverflow cfg.fixedJoin s.flag .out <;> simp [hj]
    split <;> simp
  · -- ovf
    cases hj : joinOverflow cfg.fixedJoin s.flag .out <;> simp [hj]
    split <;> simp
  · simp

end NaijaVerif.Capture
