import NaijaVerif.Lemmas.AnalysisPure
import NaijaVerif.Lemmas.AnalysisRel
/-
T2, no-trap half: under the laws `Lawful` about the primitive operations (what the runtime's
operator / builtin match arms guarantee on the operand types the *fixed* classification insists on),
an expression classed `PureNoTrap` that calls no user function evaluates to a value, unless the fuel
runs out or a variable it reads has no slot (`Bad2`).  Together with the state half this is `Quiet`.
-/
namespace NaijaVerif.C03
open NaijaVerif NaijaVerif.Analysis NaijaVerif.AEval

variable {V : Type}

/-- What the runtime guarantees for the operations the classification calls `PureNoTrap`; `ty v t`
= the value `v` has the literal type `t`. -/
structure Lawful (P : Prims V) (ty : V → LTy → Prop) : Prop extends TablesAgree P where
  num : ∀ l sp, ∃ v, P.node (.num l sp) [] = .ok v ∧ ty v .num
  bool : ∀ b sp, ∃ v, P.node (.bool b sp) [] = .ok v ∧ ty v .bool
  null : ∀ sp, ∃ v, P.node (.null sp) [] = .ok v ∧ ty v .null
  str : ∀ p sp rs, ∃ v, P.node (.str p sp) rs = .ok v ∧ ty v .str
  array : ∀ es sp vs, ∃ v, P.node (.array es sp) vs = .ok v
  unary : ∀ op x sp a ta t, ty a ta → litUnary op ta = some t → ∃ v, P.node (.unary op x sp) [a] = .ok v ∧ ty v t
  binary : ∀ op l r sp a b ta tb t, Analysis.isLogic op = false → op ≠ .divide → op ≠ .mod → ty a ta → ty b tb →
    litBinary op ta tb = some t → ∃ v, P.node (.binary op l r sp) [a, b] = .ok v ∧ ty v t
  logicShort : ∀ op, ty (P.logicShort op) .bool
  logicRhs : ∀ b tb, ty b tb → (tb = .bool ∨ tb = .null) → ∃ v, P.logicRhs b = .ok v ∧ ty v .bool
  pureGlobal : ∀ name a, globalClass name = some .pureNoTrap → name ≠ commandName → ∃ v, P.global name [a] = .ok v
  command : ∀ a, ty a .str → ∃ v, P.global commandName [a] = .ok v
  /-- the `if` / `jasi` test accepts a boolean or null (fix D-03f: the only conditions classed `PureNoTrap`) -/
  cond : ∀ v, ty v .bool ∨ ty v .null → ∃ b, P.cond v = .ok b

mutual
  /-- Every call of a global builtin has exactly one argument (the resolver rejects anything else). -/
  def arityOk : Expr → Bool
    | .call (.var _ _ _) args _ _ => args.length == 1 && arityOkList args
    | .call (.member o _ _ _) args _ _ => arityOk o && arityOkList args
    | .call _ args _ _ => arityOkList args
    | .binary _ l r _ => arityOk l && arityOk r
    | .index a i _ _ => arityOk a && arityOk i
    | .array es _ => arityOkList es
    | .unary _ e _ => arityOk e
    | .member o _ _ _ => arityOk o
    | .str _ _ | .num _ _ | .var _ _ _ | .bool _ _ | .null _ => true
  def arityOkList : List Expr → Bool
    | [] => true
    | e :: es => arityOk e && arityOkList es
end

theorem join_eq_noTrap {a b : ExprClass} (h : a.join b = .pureNoTrap) : a = .pureNoTrap ∧ b = .pureNoTrap := by
  cases a <;> cases b <;> simp_all [ExprClass.join]

/-- The conditions under which the no-trap half is claimed. -/
def Safe (capt : Nat → Bool) (e : Expr) : Prop :=
  classify capt e = .pureNoTrap ∧ noUserCall e = true ∧ arityOk e = true

def SafeList (capt : Nat → Bool) (es : List Expr) : Prop :=
  classifyList capt es = .pureNoTrap ∧ noUserCallList es = true ∧ arityOkList es = true

/-- Pointwise typing of evaluated operands. -/
def TypedAll (ty : V → LTy → Prop) : List Expr → List V → Prop
  | [], [] => True
  | e :: es, v :: vs => (∀ t, literalTy e = some t → ty v t) ∧ TypedAll ty es vs
  | _, _ => False

structure NoTrap (P : Prims V) (ty : V → LTy → Prop) (capt : Nat → Bool) (cfg : Cfg) (n : Nat) : Prop where
  expr : ∀ (e : Expr) (st : St V), Safe capt e →
    (∃ v, (evalExpr P cfg n e st).1 = .ok v ∧ ∀ t, literalTy e = some t → ty v t) ∨ Bad2 (evalExpr P cfg n e st).1
  list : ∀ (es : List Expr) (st : St V), SafeList capt es →
    (∃ vs, (evalList P cfg n es st).1 = .ok vs ∧ TypedAll ty es vs) ∨ Bad2 (evalList P cfg n es st).1

section
variable {P : Prims V} {ty : V → LTy → Prop} {capt : Nat → Bool} {cfg : Cfg} {n : Nat}

theorem nt_list (ih : NoTrap P ty capt cfg n) : ∀ (es : List Expr) (st : St V), SafeList capt es →
    (∃ vs, (evalList P cfg (n + 1) es st).1 = .ok vs ∧ TypedAll ty es vs) ∨ Bad2 (evalList P cfg (n + 1) es st).1
  | [], st, _ => Or.inl ⟨[], by simp [evalList], trivial⟩
  | e :: es, st, ⟨hc, hn, ha⟩ => by
      simp only [classifyList] at hc
      simp only [noUserCallList, Bool.and_eq_true] at hn
      simp only [arityOkList, Bool.and_eq_true] at ha
      have hj := join_eq_noTrap hc
      simp only [evalList]
      rcases ih.expr e st ⟨hj.1, hn.1, ha.1⟩ with ⟨v, hv, ht⟩ | hb
      · generalize evalExpr P cfg n e st = r at hv ⊢
        obtain ⟨x, s1⟩ := r
        simp only at hv
        subst hv
        simp only []
        rcases ih.list es s1 ⟨hj.2, hn.2, ha.2⟩ with ⟨vs, hvs, hts⟩ | hb
        · generalize evalList P cfg n es s1 = r2 at hvs ⊢
          obtain ⟨x2, s2⟩ := r2
          simp only at hvs
          subst hvs
          exact Or.inl ⟨v :: vs, rfl, ht, hts⟩
        · generalize evalList P cfg n es s1 = r2 at hb ⊢
          obtain ⟨x2, s2⟩ := r2
          rcases hb with hb | hb <;> (simp only at hb; subst hb)
          · exact Or.inr (Or.inl rfl)
          · exact Or.inr (Or.inr rfl)
      · generalize evalExpr P cfg n e st = r at hb ⊢
        obtain ⟨x, s1⟩ := r
        rcases hb with hb | hb <;> (simp only at hb; subst hb)
        · exact Or.inr (Or.inl rfl)
        · exact Or.inr (Or.inr rfl)

theorem typedAll_nil {vs : List V} (h : TypedAll ty [] vs) : vs = [] := by
  cases vs with
  | nil => rfl
  | cons _ _ => cases h

theorem nt_generic (ih : NoTrap P ty capt cfg n) (e : Expr) (st : St V) (hs : SafeList capt (children e))
    (hnode : ∀ (vs rs : List V) (env : List (Scope V)), TypedAll ty (children e) vs →
      readAll P.dscope env (interpIds e) = some rs →
      ∃ v, P.node e (vs ++ rs) = .ok v ∧ ∀ t, literalTy e = some t → ty v t) :
    (∃ v, (finishNode P e (evalList P cfg n (children e) st)).1 = .ok v ∧ ∀ t, literalTy e = some t → ty v t) ∨
      Bad2 (finishNode P e (evalList P cfg n (children e) st)).1 := by
  rcases ih.list (children e) st hs with ⟨vs, hvs, hts⟩ | hb
  · generalize evalList P cfg n (children e) st = r at hvs ⊢
    obtain ⟨x, s1⟩ := r
    simp only at hvs
    subst hvs
    simp only [finishNode]
    cases hra : readAll P.dscope s1.env (interpIds e) with
    | none => exact Or.inr (Or.inr rfl)
    | some rs =>
      obtain ⟨v, hv, ht⟩ := hnode vs rs s1.env hts hra
      exact Or.inl ⟨v, by simp [hv], ht⟩
  · generalize evalList P cfg n (children e) st = r at hb ⊢
    obtain ⟨x, s1⟩ := r
    rcases hb with hb | hb <;> (simp only at hb; subst hb)
    · exact Or.inr (Or.inl rfl)
    · exact Or.inr (Or.inr rfl)

theorem safeList_nil : SafeList capt [] := ⟨rfl, rfl, rfl⟩

theorem nt_logic (L : Lawful P ty) (ih : NoTrap P ty capt cfg n) (op : BinOp) (l r : Expr) (st : St V)
    (hl : Safe capt l) (hr : Safe capt r) (ta tb : LTy) (hta : literalTy l = some ta) (htb : literalTy r = some tb)
    (hb2 : tb = .bool ∨ tb = .null) (stop : V → Bool) :
    (∃ v, (match evalExpr P cfg n l st with
            | (.error e, st1) => ((.error e, st1) : R V V)
            | (.ok lv, st1) =>
                if stop lv then (.ok (P.logicShort op), st1) else
                match evalExpr P cfg n r st1 with
                | (.error e, st2) => (.error e, st2)
                | (.ok rv, st2) => (P.logicRhs rv, st2)).1 = .ok v ∧ ty v .bool) ∨
    Bad2 (match evalExpr P cfg n l st with
            | (.error e, st1) => ((.error e, st1) : R V V)
            | (.ok lv, st1) =>
                if stop lv then (.ok (P.logicShort op), st1) else
                match evalExpr P cfg n r st1 with
                | (.error e, st2) => (.error e, st2)
                | (.ok rv, st2) => (P.logicRhs rv, st2)).1 := by
  have _ := hta
  rcases ih.expr l st hl with ⟨lv, hv, _⟩ | hb
  · generalize evalExpr P cfg n l st = r1 at hv ⊢
    obtain ⟨x, s1⟩ := r1
    simp only at hv
    subst hv
    simp only []
    cases stop lv with
    | true => exact Or.inl ⟨_, rfl, L.logicShort op⟩
    | false =>
      simp only [Bool.false_eq_true, ↓reduceIte]
      rcases ih.expr r s1 hr with ⟨rv, hrv, hrt⟩ | hb
      · generalize evalExpr P cfg n r s1 = r2 at hrv ⊢
        obtain ⟨x2, s2⟩ := r2
        simp only at hrv
        subst hrv
        obtain ⟨v, hv, hvt⟩ := L.logicRhs rv tb (hrt tb htb) hb2
        exact Or.inl ⟨v, by simp [hv], hvt⟩
      · generalize evalExpr P cfg n r s1 = r2 at hb ⊢
        obtain ⟨x2, s2⟩ := r2
        rcases hb with hb | hb <;> (simp only at hb; subst hb)
        · exact Or.inr (Or.inl rfl)
        · exact Or.inr (Or.inr rfl)
  · generalize evalExpr P cfg n l st = r1 at hb ⊢
    obtain ⟨x, s1⟩ := r1
    rcases hb with hb | hb <;> (simp only at hb; subst hb)
    · exact Or.inr (Or.inl rfl)
    · exact Or.inr (Or.inr rfl)

/-- What `classify … = PureNoTrap` says about a binary operator node. -/
theorem binary_noTrap {op : BinOp} {l r : Expr} {sp : Span} (h : classify capt (.binary op l r sp) = .pureNoTrap) :
    op ≠ .divide ∧ op ≠ .mod ∧ classify capt l = .pureNoTrap ∧ classify capt r = .pureNoTrap ∧
    ∃ ta tb t, literalTy l = some ta ∧ literalTy r = some tb ∧ litBinary op ta tb = some t ∧
      literalTy (.binary op l r sp) = some t := by
  simp only [classify] at h
  split at h
  · exact absurd (join_eq_noTrap h).2 (by simp)
  · next hc =>
    simp only [Bool.or_eq_true, beq_iff_eq, Option.isNone_iff_eq_none, not_or] at hc
    have hj := join_eq_noTrap h
    obtain ⟨⟨hd, hm⟩, hl⟩ := hc
    cases hlt : literalTy (.binary op l r sp) with
    | none => exact absurd hlt hl
    | some t =>
      have hlt' := hlt
      simp only [literalTy] at hlt'
      cases hla : literalTy l with
      | none => simp [hla] at hlt'
      | some ta =>
        cases hlb : literalTy r with
        | none => simp [hla, hlb] at hlt'
        | some tb =>
          simp only [hla, hlb] at hlt'
          exact ⟨hd, hm, hj.1, hj.2, ta, tb, t, rfl, rfl, hlt', rfl⟩

theorem logic_types {op : BinOp} {ta tb t : LTy} (hop : Analysis.isLogic op = true) (h : litBinary op ta tb = some t) :
    t = .bool ∧ (tb = .bool ∨ tb = .null) := by
  cases op <;> simp [Analysis.isLogic] at hop <;> cases ta <;> cases tb <;>
    simp [litBinary, isArith, isCmp, Analysis.isLogic] at h ⊢ <;> simp_all

theorem nt_binary_generic (L : Lawful P ty) (ih : NoTrap P ty capt cfg n) (op : BinOp) (l r : Expr) (sp : Span)
    (st : St V) (hlog : Analysis.isLogic op = false) (hs : Safe capt (.binary op l r sp)) :
    (∃ v, (finishNode P (.binary op l r sp) (evalList P cfg n (children (.binary op l r sp)) st)).1 = .ok v ∧
        ∀ t, literalTy (.binary op l r sp) = some t → ty v t) ∨
      Bad2 (finishNode P (.binary op l r sp) (evalList P cfg n (children (.binary op l r sp)) st)).1 := by
  obtain ⟨hc, hn, ha⟩ := hs
  obtain ⟨hd, hm, hcl, hcr, ta, tb, t, hta, htb, hlb, hlt⟩ := binary_noTrap hc
  simp only [noUserCall, Bool.and_eq_true] at hn
  simp only [arityOk, Bool.and_eq_true] at ha
  refine nt_generic ih (.binary op l r sp) st ⟨by simp [children, classifyList, hcl, hcr, ExprClass.join],
    by simp [children, noUserCallList, hn.1, hn.2], by simp [children, arityOkList, ha.1, ha.2]⟩ ?_
  intro vs rs env hty hra
  simp only [interpIds, readAll, Option.some.injEq] at hra
  subst hra
  simp only [children] at hty
  match vs, hty with
  | [a, b], hty =>
    obtain ⟨h1, h2, _⟩ := hty
    obtain ⟨v, hv, hvt⟩ := L.binary op l r sp a b ta tb t hlog hd hm (h1 ta hta) (h2 tb htb) hlb
    refine ⟨v, by simpa using hv, ?_⟩
    intro t' ht'
    rw [hlt] at ht'
    cases ht'
    exact hvt

theorem nt_expr (L : Lawful P ty) (ih : NoTrap P ty capt cfg n) : ∀ (e : Expr) (st : St V), Safe capt e →
    (∃ v, (evalExpr P cfg (n + 1) e st).1 = .ok v ∧ ∀ t, literalTy e = some t → ty v t) ∨
      Bad2 (evalExpr P cfg (n + 1) e st).1
  | .var _ bd _, st, _ => by
      simp only [evalExpr]
      cases bd.bind (fun id => lookupEnv P.dscope id st.env) with
      | some v => exact Or.inl ⟨v, rfl, by intro t ht; simp [literalTy] at ht⟩
      | none => exact Or.inr (Or.inr rfl)
  | .num l sp, st, _ => by
      simp only [evalExpr]
      refine nt_generic ih _ st safeList_nil ?_
      intro vs rs env hty hra
      simp only [interpIds, readAll, Option.some.injEq] at hra
      subst hra
      have := typedAll_nil (by simpa [children] using hty)
      subst this
      obtain ⟨v, hv, hvt⟩ := L.num l sp
      exact ⟨v, by simpa using hv, by intro t ht; simp only [literalTy, Option.some.injEq] at ht; subst ht; exact hvt⟩
  | .bool b sp, st, _ => by
      simp only [evalExpr]
      refine nt_generic ih _ st safeList_nil ?_
      intro vs rs env hty hra
      simp only [interpIds, readAll, Option.some.injEq] at hra
      subst hra
      have := typedAll_nil (by simpa [children] using hty)
      subst this
      obtain ⟨v, hv, hvt⟩ := L.bool b sp
      exact ⟨v, by simpa using hv, by intro t ht; simp only [literalTy, Option.some.injEq] at ht; subst ht; exact hvt⟩
  | .null sp, st, _ => by
      simp only [evalExpr]
      refine nt_generic ih _ st safeList_nil ?_
      intro vs rs env hty hra
      simp only [interpIds, readAll, Option.some.injEq] at hra
      subst hra
      have := typedAll_nil (by simpa [children] using hty)
      subst this
      obtain ⟨v, hv, hvt⟩ := L.null sp
      exact ⟨v, by simpa using hv, by intro t ht; simp only [literalTy, Option.some.injEq] at ht; subst ht; exact hvt⟩
  | .str p sp, st, _ => by
      simp only [evalExpr]
      refine nt_generic ih _ st safeList_nil ?_
      intro vs rs env hty _
      have := typedAll_nil (by simpa [children] using hty)
      subst this
      obtain ⟨v, hv, hvt⟩ := L.str p sp rs
      exact ⟨v, by simpa using hv, by intro t ht; simp only [literalTy, Option.some.injEq] at ht; subst ht; exact hvt⟩
  | .array es sp, st, ⟨hc, hn, ha⟩ => by
      simp only [classify] at hc
      simp only [noUserCall] at hn
      simp only [arityOk] at ha
      simp only [evalExpr]
      refine nt_generic ih (.array es sp) st ⟨by simpa [children] using hc, by simpa [children] using hn, by simpa [children] using ha⟩ ?_
      intro vs rs env _ hra
      simp only [interpIds, readAll, Option.some.injEq] at hra
      subst hra
      obtain ⟨v, hv⟩ := L.array es sp vs
      exact ⟨v, by simpa using hv, by intro t ht; simp [literalTy] at ht⟩
  | .unary op x sp, st, ⟨hc, hn, ha⟩ => by
      simp only [classify] at hc
      simp only [noUserCall] at hn
      simp only [arityOk] at ha
      simp only [evalExpr]
      split at hc
      · exact absurd (join_eq_noTrap hc).2 (by simp)
      · next hnone =>
        simp only [Option.isNone_iff_eq_none] at hnone
        obtain ⟨t, hlt⟩ := Option.ne_none_iff_exists'.mp hnone
        · have hlt' := hlt
          simp only [literalTy] at hlt'
          cases hlx : literalTy x with
          | none => simp [hlx] at hlt'
          | some ta =>
            simp only [hlx, Option.bind_some] at hlt'
            refine nt_generic ih (.unary op x sp) st ⟨by simp [children, classifyList, hc, ExprClass.join],
              by simp [children, noUserCallList, hn], by simp [children, arityOkList, ha]⟩ ?_
            intro vs rs env hty hra
            simp only [interpIds, readAll, Option.some.injEq] at hra
            subst hra
            simp only [children] at hty
            match vs, hty with
            | [a], hty =>
              obtain ⟨v, hv, hvt⟩ := L.unary op x sp a ta t (hty.1 ta hlx) hlt'
              refine ⟨v, by simpa using hv, ?_⟩
              intro t' ht'
              rw [hlt] at ht'
              cases ht'
              exact hvt
  | .binary .and l r sp, st, hs => by
      obtain ⟨hd, hm, hcl, hcr, ta, tb, t, hta, htb, hlb, hlt⟩ := binary_noTrap hs.1
      have hn := hs.2.1
      have ha := hs.2.2
      simp only [noUserCall, Bool.and_eq_true] at hn
      simp only [arityOk, Bool.and_eq_true] at ha
      have hlg := logic_types (op := .and) rfl hlb
      simp only [evalExpr]
      rcases nt_logic L ih .and l r st ⟨hcl, hn.1, ha.1⟩ ⟨hcr, hn.2, ha.2⟩ ta tb hta htb hlg.2 P.falsy with ⟨v, hv, hvt⟩ | hb
      · exact Or.inl ⟨v, hv, by intro t' ht'; rw [hlt] at ht'; cases ht'; rw [hlg.1]; exact hvt⟩
      · exact Or.inr hb
  | .binary .or l r sp, st, hs => by
      obtain ⟨hd, hm, hcl, hcr, ta, tb, t, hta, htb, hlb, hlt⟩ := binary_noTrap hs.1
      have hn := hs.2.1
      have ha := hs.2.2
      simp only [noUserCall, Bool.and_eq_true] at hn
      simp only [arityOk, Bool.and_eq_true] at ha
      have hlg := logic_types (op := .or) rfl hlb
      simp only [evalExpr]
      rcases nt_logic L ih .or l r st ⟨hcl, hn.1, ha.1⟩ ⟨hcr, hn.2, ha.2⟩ ta tb hta htb hlg.2 P.truthy with ⟨v, hv, hvt⟩ | hb
      · exact Or.inl ⟨v, hv, by intro t' ht'; rw [hlt] at ht'; cases ht'; rw [hlg.1]; exact hvt⟩
      · exact Or.inr hb
  | .binary .add l r sp, st, hs => by simp only [evalExpr]; exact nt_binary_generic L ih .add l r sp st rfl hs
  | .binary .minus l r sp, st, hs => by simp only [evalExpr]; exact nt_binary_generic L ih .minus l r sp st rfl hs
  | .binary .times l r sp, st, hs => by simp only [evalExpr]; exact nt_binary_generic L ih .times l r sp st rfl hs
  | .binary .divide l r sp, st, hs => by simp only [evalExpr]; exact nt_binary_generic L ih .divide l r sp st rfl hs
  | .binary .mod l r sp, st, hs => by simp only [evalExpr]; exact nt_binary_generic L ih .mod l r sp st rfl hs
  | .binary .eq l r sp, st, hs => by simp only [evalExpr]; exact nt_binary_generic L ih .eq l r sp st rfl hs
  | .binary .gt l r sp, st, hs => by simp only [evalExpr]; exact nt_binary_generic L ih .gt l r sp st rfl hs
  | .binary .lt l r sp, st, hs => by simp only [evalExpr]; exact nt_binary_generic L ih .lt l r sp st rfl hs
  | .index a i _ _, st, ⟨hc, _, _⟩ => by
      simp only [classify] at hc
      exact absurd (join_eq_noTrap hc).2 (by simp)
  | .member o _ _ _, st, ⟨hc, _, _⟩ => by
      simp only [classify] at hc
      exact absurd (join_eq_noTrap hc).2 (by simp)
  | .call (.member o field _ _) args _ _, st, ⟨hc, _, _⟩ => by
      simp only [classify] at hc
      split at hc
      · exact absurd (join_eq_noTrap (join_eq_noTrap hc).1).2 (by simp)
      · exact absurd (join_eq_noTrap hc).2 (by simp)
  | .call (.var name _ _) args fn _, st, ⟨hc, hn, ha⟩ => by
      simp only [classify] at hc
      simp only [noUserCall, Bool.and_eq_true] at hn
      simp only [arityOk, Bool.and_eq_true, beq_iff_eq] at ha
      cases hg : globalClass name with
      | none =>
        rw [hg] at hc
        cases fn with
        | none => simp only [Option.isSome] at hc; exact absurd (join_eq_noTrap hc).2 (by simp)
        | some f => simp at hn
      | some gc =>
        rw [hg] at hc
        simp only at hc
        have hgl : P.isGlobal name = true := by rw [L.global_iff, hg]; rfl
        -- exactly one argument
        match args, ha, hn, hc with
        | [x], ha, hn, hc =>
          simp only [noUserCallList, Bool.and_true] at hn
          simp only [arityOkList, Bool.and_true] at ha
          have hcx : (classifyList capt [x]).join gc = .pureNoTrap ∧
              ¬ (name == commandName && ([x].head?.bind literalTy != some LTy.str)) = true := by
            split at hc
            · exact absurd (join_eq_noTrap hc).2 (by simp)
            · next hcond => exact ⟨hc, hcond⟩
          have hj := join_eq_noTrap hcx.1
          have hgc : gc = .pureNoTrap := hj.2
          subst hgc
          have hsh : P.isShout name = false := by
            cases hs : P.isShout name with
            | false => rfl
            | true =>
              have := L.shout_impure name hs
              rw [hg] at this
              cases this
          have hx : classify capt x = .pureNoTrap := by
            have := hj.1
            simp only [classifyList] at this
            exact (join_eq_noTrap this).1
          simp only [evalExpr, hgl, ↓reduceIte, hsh, Bool.false_eq_true]
          rcases ih.list [x] st ⟨by simp [classifyList, hx, ExprClass.join], by simp [noUserCallList, hn.2], by simp [arityOkList, ha.2]⟩ with ⟨vs, hvs, hts⟩ | hb
          · generalize evalList P cfg n [x] st = r at hvs ⊢
            obtain ⟨y, s1⟩ := r
            simp only at hvs
            subst hvs
            match vs, hts with
            | [a], hts =>
              simp only []
              by_cases hcmd : name = commandName
              · subst hcmd
                have hstr : literalTy x = some .str := by
                  have := hcx.2
                  simp only [beq_self_eq_true, List.head?_cons, Option.bind_some, Bool.true_and, bne_iff_ne, ne_eq,
                    Decidable.not_not] at this
                  exact this
                obtain ⟨v, hv⟩ := L.command a (hts.1 .str hstr)
                exact Or.inl ⟨v, by simp [hv], by intro t ht; simp [literalTy] at ht⟩
              · obtain ⟨v, hv⟩ := L.pureGlobal name a hg hcmd
                exact Or.inl ⟨v, by simp [hv], by intro t ht; simp [literalTy] at ht⟩
          · generalize evalList P cfg n [x] st = r at hb ⊢
            obtain ⟨y, s1⟩ := r
            rcases hb with hb | hb <;> (simp only at hb; subst hb)
            · exact Or.inr (Or.inl rfl)
            · exact Or.inr (Or.inr rfl)
  | .call (.index _ _ _ _) args _ _, st, ⟨hc, _, _⟩ | .call (.str _ _) args _ _, st, ⟨hc, _, _⟩
  | .call (.num _ _) args _ _, st, ⟨hc, _, _⟩ | .call (.binary _ _ _ _) args _ _, st, ⟨hc, _, _⟩
  | .call (.call _ _ _ _) args _ _, st, ⟨hc, _, _⟩ | .call (.array _ _) args _ _, st, ⟨hc, _, _⟩
  | .call (.unary _ _ _) args _ _, st, ⟨hc, _, _⟩ | .call (.bool _ _) args _ _, st, ⟨hc, _, _⟩
  | .call (.null _) args _ _, st, ⟨hc, _, _⟩ => by
      simp only [classify] at hc
      exact absurd (join_eq_noTrap hc).2 (by simp)

end

theorem noTrap_all {P : Prims V} {ty : V → LTy → Prop} (L : Lawful P ty) (capt : Nat → Bool) (cfg : Cfg) :
    ∀ n, NoTrap P ty capt cfg n
  | 0 => ⟨fun e st _ => Or.inr (Or.inl (by simp [evalExpr])), fun es st _ => Or.inr (Or.inl (by simp [evalList]))⟩
  | n + 1 => ⟨nt_expr L (noTrap_all L capt cfg n), nt_list (noTrap_all L capt cfg n)⟩

/-- **T2 as `Quiet`.** A `PureNoTrap` expression without user calls neither changes the state nor
fails, except by fuel or an unbound variable. -/
theorem quiet_of_class {P : Prims V} {ty : V → LTy → Prop} (L : Lawful P ty) (capt : Nat → Bool) (e : Expr)
    (hs : Safe capt e) : Quiet P e := by
  intro cfg n st
  refine ⟨(pure_all P cfg n).expr e st (effectFree_of_class L.toTablesAgree capt e (by rw [hs.1]; simp) hs.2.1), ?_⟩
  rcases (noTrap_all L capt cfg n).expr e st hs with ⟨v, hv, _⟩ | hb
  · exact Or.inl ⟨v, hv⟩
  · exact Or.inr hb

end NaijaVerif.C03
