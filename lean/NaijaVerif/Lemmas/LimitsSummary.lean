/-
Helper lemmas for the summary-event section of `Props/C18.lean`: the event accounting of
`Model/Limits.lean`, namespace `Summary` (`push_unique_bounded`, `extend_unique`,
`summarize_component`, the component loop).

Every event (`note_event`) is paid for by growth: an element pushed onto a duplicate-free list of
ids below a known bound, or a strict increase of a class level that cannot pass 2.  `room` is what a
summary can still grow by; a budget that covers the total room can never run out.
-/
import NaijaVerif.Model.Limits

namespace NaijaVerif.Limits.Summary

/-! ### Lists of distinct ids below a bound -/

/-- Pigeonhole: a duplicate-free list of numbers below `n` has at most `n` elements. -/
theorem length_le_of_nodup_lt {l : List Nat} {n : Nat} (hn : l.Nodup) (hlt : ∀ x ∈ l, x < n) :
    l.length ≤ n := by
  have h := List.Nodup.length_le_of_subset (l₂ := List.range n) hn
    (fun x hx => List.mem_range.mpr (hlt x hx))
  simpa using h

/-! ### `push_unique_bounded` -/

theorem pushUnique_ok {dst : List Nat} {x b : Nat} {r : List Nat × Bool × Nat}
    (h : pushUnique dst x b = .ok r) (hn : dst.Nodup) :
    r.1.Nodup ∧ (∀ y, y ∈ r.1 ↔ y ∈ dst ∨ y = x) ∧ r.2.2 + r.1.length = b + dst.length ∧
      (r.2.1 = true → r.2.2 < b) ∧ r.2.2 ≤ b := by
  unfold pushUnique at h
  by_cases hx : x ∈ dst
  · simp only [hx, if_true, Except.ok.injEq] at h
    subst h
    refine ⟨hn, fun y => ⟨Or.inl, fun hy => hy.elim id (fun e => e ▸ hx)⟩, rfl, by simp, Nat.le_refl _⟩
  · simp only [hx, if_false] at h
    cases b with
    | zero => simp [noteEvent] at h
    | succ b =>
      simp only [noteEvent, Except.ok.injEq] at h
      subst h
      refine ⟨?_, ?_, ?_, ?_, ?_⟩
      · rw [List.nodup_append]
        refine ⟨hn, by simp, ?_⟩
        intro a ha b' hb'
        simp only [List.mem_singleton] at hb'
        subst hb'
        intro e; subst e; exact hx ha
      · intro y; simp
      · simp; omega
      · intro _; simp
      · simp

theorem pushUnique_error {dst : List Nat} {x b : Nat} {e : Fail} (h : pushUnique dst x b = .error e) :
    e = .budget ∧ b = 0 ∧ x ∉ dst := by
  unfold pushUnique at h
  by_cases hx : x ∈ dst
  · simp [hx] at h
  · simp only [hx, if_false] at h
    cases b with
    | zero => simp only [noteEvent, Except.error.injEq] at h; exact ⟨h.symm, rfl, hx⟩
    | succ b => simp [noteEvent] at h

/-! ### `extend_unique` -/

theorem extendUnique_ok {src dst : List Nat} {b : Nat} {r : List Nat × Bool × Nat}
    (h : extendUnique dst src b = .ok r) (hn : dst.Nodup) :
    r.1.Nodup ∧ (∀ y, y ∈ r.1 ↔ y ∈ dst ∨ y ∈ src) ∧ r.2.2 + r.1.length = b + dst.length ∧
      (r.2.1 = true → r.2.2 < b) ∧ r.2.2 ≤ b := by
  induction src generalizing dst b r with
  | nil =>
    simp only [extendUnique, Except.ok.injEq] at h
    subst h
    exact ⟨hn, by simp, rfl, by simp, Nat.le_refl _⟩
  | cons x xs ih =>
    simp only [extendUnique] at h
    cases hp : pushUnique dst x b with
    | error e => simp [hp] at h
    | ok r1 =>
      obtain ⟨d1, c1, b1⟩ := r1
      simp only [hp] at h
      obtain ⟨hn1, hm1, hc1, hch1, hle1⟩ := pushUnique_ok hp hn
      cases he : extendUnique d1 xs b1 with
      | error e => simp [he] at h
      | ok r2 =>
        obtain ⟨d2, c2, b2⟩ := r2
        simp only [he, Except.ok.injEq] at h
        subst h
        obtain ⟨hn2, hm2, hc2, hch2, hle2⟩ := ih he hn1
        simp only at hm1 hc1 hch1 hle1 hm2 hc2 hch2 hle2 ⊢
        refine ⟨hn2, ?_, by omega, ?_, by omega⟩
        · intro y
          rw [hm2 y, hm1 y]
          simp only [List.mem_cons]
          constructor
          · rintro ((h | h) | h)
            · exact Or.inl h
            · exact Or.inr (Or.inl h)
            · exact Or.inr (Or.inr h)
          · rintro (h | h | h)
            · exact Or.inl (Or.inl h)
            · exact Or.inl (Or.inr h)
            · exact Or.inr h
        · intro hch
          rcases Bool.or_eq_true _ _ ▸ hch with h | h
          · have := hch1 h; omega
          · have := hch2 h; omega

/-- `extend_unique` fails only by running out of budget, and only when the budget was smaller than
what the destination can still grow by. -/
theorem extendUnique_error {src dst : List Nat} {b n : Nat} {e : Fail}
    (h : extendUnique dst src b = .error e) (hn : dst.Nodup) (hd : ∀ y ∈ dst, y < n)
    (hs : ∀ y ∈ src, y < n) : e = .budget ∧ b + dst.length < n := by
  induction src generalizing dst b with
  | nil => simp [extendUnique] at h
  | cons x xs ih =>
    simp only [extendUnique] at h
    cases hp : pushUnique dst x b with
    | error e' =>
      simp only [hp, Except.error.injEq] at h
      subst h
      obtain ⟨he, hb, hx⟩ := pushUnique_error hp
      refine ⟨he, ?_⟩
      subst hb
      have hn' : (dst ++ [x]).Nodup := by
        rw [List.nodup_append]
        refine ⟨hn, by simp, ?_⟩
        intro a ha b' hb'
        simp only [List.mem_singleton] at hb'
        subst hb'
        intro e; subst e; exact hx ha
      have hlt' : ∀ y ∈ dst ++ [x], y < n := by
        intro y hy
        simp only [List.mem_append, List.mem_singleton] at hy
        rcases hy with hy | rfl
        · exact hd y hy
        · exact hs _ (by simp)
      have := length_le_of_nodup_lt hn' hlt'
      simp at this
      omega
    | ok r1 =>
      obtain ⟨d1, c1, b1⟩ := r1
      simp only [hp] at h
      obtain ⟨hn1, hm1, hc1, _, _⟩ := pushUnique_ok hp hn
      simp only at hm1 hc1
      cases he : extendUnique d1 xs b1 with
      | ok r2 => obtain ⟨d2, c2, b2⟩ := r2; simp [he] at h
      | error e' =>
        simp only [he, Except.error.injEq] at h
        subst h
        have hd1 : ∀ y ∈ d1, y < n := by
          intro y hy
          rcases (hm1 y).mp hy with hy | rfl
          · exact hd y hy
          · exact hs _ (by simp)
        obtain ⟨hb, hlt⟩ := ih he hn1 hd1 (fun y hy => hs y (by simp [hy]))
        exact ⟨hb, by omega⟩

end NaijaVerif.Limits.Summary
