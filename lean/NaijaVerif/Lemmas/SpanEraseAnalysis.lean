import NaijaVerif.Lemmas.ParseDefs
import NaijaVerif.Model.Analysis
import NaijaVerif.Model.CfgCount
/-
C10, downstream of the parser (2): the counting pass of the limit preflight and the static analyses
do not read spans.

* `CfgCount.countProgram` of the span-erased annotated program is the same `Counts`.
* `Analysis.analyse` of the span-erased annotated program (same facts) is the same result — same
  verdicts, same plan, same warnings in the same order — except that every warning's span is `0..0`.
  The only spans the analyses touch are the two they copy from the statement table into a warning.
-/
namespace NaijaVerif.SpanErase
open NaijaVerif NaijaVerif.Parse

/-! ### Statements up to spans -/

@[simp] theorem eraseStmt_sid : ∀ s : Stmt, (eraseStmt s).sid = s.sid
  | .fnDef _ _ _ _ _ _ _ => by simp [eraseStmt, Stmt.sid]
  | .assign _ _ _ _ _ _ => by simp [eraseStmt, Stmt.sid]
  | .assignExisting _ _ _ _ _ _ => by simp [eraseStmt, Stmt.sid]
  | .assignIndex _ _ _ _ => by simp [eraseStmt, Stmt.sid]
  | .ifS _ _ none _ _ => by simp [eraseStmt, Stmt.sid]
  | .ifS _ _ (some _) _ _ => by simp [eraseStmt, Stmt.sid]
  | .loop _ _ _ _ => by simp [eraseStmt, Stmt.sid]
  | .block _ _ _ => by simp [eraseStmt, Stmt.sid]
  | .ret none _ _ => by simp [eraseStmt, Stmt.sid]
  | .ret (some _) _ _ => by simp [eraseStmt, Stmt.sid]
  | .brk _ _ => by simp [eraseStmt, Stmt.sid]
  | .cont _ _ => by simp [eraseStmt, Stmt.sid]
  | .expr _ _ _ => by simp [eraseStmt, Stmt.sid]

@[simp] theorem eraseStmt_span : ∀ s : Stmt, (eraseStmt s).span = zspan
  | .fnDef _ _ _ _ _ _ _ => by simp [eraseStmt, Stmt.span]
  | .assign _ _ _ _ _ _ => by simp [eraseStmt, Stmt.span]
  | .assignExisting _ _ _ _ _ _ => by simp [eraseStmt, Stmt.span]
  | .assignIndex _ _ _ _ => by simp [eraseStmt, Stmt.span]
  | .ifS _ _ none _ _ => by simp [eraseStmt, Stmt.span]
  | .ifS _ _ (some _) _ _ => by simp [eraseStmt, Stmt.span]
  | .loop _ _ _ _ => by simp [eraseStmt, Stmt.span]
  | .block _ _ _ => by simp [eraseStmt, Stmt.span]
  | .ret none _ _ => by simp [eraseStmt, Stmt.span]
  | .ret (some _) _ _ => by simp [eraseStmt, Stmt.span]
  | .brk _ _ => by simp [eraseStmt, Stmt.span]
  | .cont _ _ => by simp [eraseStmt, Stmt.span]
  | .expr _ _ _ => by simp [eraseStmt, Stmt.span]

@[simp] theorem eraseBlock_stmts (b : Block) : (eraseBlock b).stmts = eraseStmts b.stmts := by
  cases b; simp [eraseBlock, Block.stmts]

@[simp] theorem eraseBlock_span (b : Block) : (eraseBlock b).span = zspan := by
  cases b; simp [eraseBlock, Block.span]

/-! ### The counting pass (`Model/CfgCount.lean`) -/

section Count
open NaijaVerif.CfgCount

mutual
theorem countStmt_erase : ∀ (s : Stmt) (fb : FB) (cur : Bool),
    countStmt (eraseStmt s) fb cur = countStmt s fb cur
  | .assign _ _ _ _ _ _, fb, cur => by simp [eraseStmt, countStmt]
  | .assignExisting _ _ _ _ _ _, fb, cur => by simp [eraseStmt, countStmt]
  | .assignIndex _ _ _ _, fb, cur => by simp [eraseStmt, countStmt]
  | .expr _ _ _, fb, cur => by simp [eraseStmt, countStmt]
  | .fnDef _ _ _ _ _ _ _, fb, cur => by simp [eraseStmt, countStmt]
  | .ret none _ _, fb, cur => by simp [eraseStmt, countStmt]
  | .ret (some _) _ _, fb, cur => by simp [eraseStmt, countStmt]
  | .brk _ _, fb, cur => by simp [eraseStmt, countStmt]
  | .cont _ _, fb, cur => by simp [eraseStmt, countStmt]
  | .block b _ _, fb, cur => by simp [eraseStmt, countStmt, countBlock_erase b]
  | .ifS _ t none _ _, fb, cur => by simp [eraseStmt, countStmt, countBlock_erase t, countElse]
  | .ifS _ t (some e) _ _, fb, cur => by
    simp [eraseStmt, countStmt, countBlock_erase t, countElse, countBlock_erase e]
  | .loop _ b _ _, fb, cur => by simp [eraseStmt, countStmt, countBlock_erase b]
theorem countStmts_erase : ∀ (ss : List Stmt) (fb : FB) (cur : Bool),
    countStmts (eraseStmts ss) fb cur = countStmts ss fb cur
  | [], fb, cur => by simp [eraseStmts, countStmts]
  | s :: ss, fb, cur => by
    simp [eraseStmts, countStmts, countStmt_erase s, countStmts_erase ss]
theorem countBlock_erase : ∀ (b : Block) (fb : FB) (cur : Bool),
    countBlock (eraseBlock b) fb cur = countBlock b fb cur
  | .mk ss _, fb, cur => by simp [eraseBlock, countBlock, countStmts_erase ss]
end

theorem countBody_erase (b : Block) : countBody (eraseBlock b) = countBody b := by
  simp [countBody, countBlock_erase]

theorem enter_erase (f : Nat) (b : Block) (pb : PB) : enter f (eraseBlock b) pb = enter f b pb := by
  simp [enter, countBody_erase]

mutual
theorem discoverStmt_erase : ∀ (s : Stmt) (pb : PB), discoverStmt (eraseStmt s) pb = discoverStmt s pb
  | .fnDef _ _ _ body (some f) _ _, pb => by
    simp only [eraseStmt, discoverStmt, enter_erase]
    cases enter f body pb with
    | none => rfl
    | some r =>
      obtain ⟨pb', b⟩ := r
      cases b
      · rfl
      · exact discoverBlock_erase body pb'
  | .fnDef _ _ _ _ none _ _, pb => by simp [eraseStmt, discoverStmt]
  | .ifS _ t none _ _, pb => by
    simp only [eraseStmt, discoverStmt, discoverBlock_erase t, discoverElse]
  | .ifS _ t (some e) _ _, pb => by
    simp only [eraseStmt, discoverStmt, discoverBlock_erase t, discoverElse, discoverBlock_erase e]
  | .loop _ b _ _, pb => by simp [eraseStmt, discoverStmt, discoverBlock_erase b]
  | .block b _ _, pb => by simp [eraseStmt, discoverStmt, discoverBlock_erase b]
  | .assign _ _ _ _ _ _, pb => by simp [eraseStmt, discoverStmt]
  | .assignExisting _ _ _ _ _ _, pb => by simp [eraseStmt, discoverStmt]
  | .assignIndex _ _ _ _, pb => by simp [eraseStmt, discoverStmt]
  | .ret none _ _, pb => by simp [eraseStmt, discoverStmt]
  | .ret (some _) _ _, pb => by simp [eraseStmt, discoverStmt]
  | .brk _ _, pb => by simp [eraseStmt, discoverStmt]
  | .cont _ _, pb => by simp [eraseStmt, discoverStmt]
  | .expr _ _ _, pb => by simp [eraseStmt, discoverStmt]
theorem discoverStmts_erase : ∀ (ss : List Stmt) (pb : PB),
    discoverStmts (eraseStmts ss) pb = discoverStmts ss pb
  | [], pb => by simp [eraseStmts, discoverStmts]
  | s :: ss, pb => by
    simp only [eraseStmts, discoverStmts, discoverStmt_erase s]
    cases discoverStmt s pb with
    | none => rfl
    | some pb' => exact discoverStmts_erase ss pb'
theorem discoverBlock_erase : ∀ (b : Block) (pb : PB), discoverBlock (eraseBlock b) pb = discoverBlock b pb
  | .mk ss _, pb => by simp [eraseBlock, discoverBlock, discoverStmts_erase ss]
end

/-- The counting pass of the limit preflight does not read spans. -/
theorem countProgram_erase (root : Block) (facts : Facts) :
    countProgram (eraseBlock root) facts = countProgram root facts := by
  simp [countProgram, countFunctions, enter_erase, discoverBlock_erase]

end Count


/-! ### Effect classes and the statement table (`Model/Analysis.lean`) -/

section Ana
open NaijaVerif.Analysis

theorem literalTy_erase : ∀ e : Expr, literalTy (eraseExpr e) = literalTy e
  | .num _ _ => by simp [eraseExpr, literalTy]
  | .str _ _ => by simp [eraseExpr, literalTy]
  | .bool _ _ => by simp [eraseExpr, literalTy]
  | .null _ => by simp [eraseExpr, literalTy]
  | .unary op e _ => by simp [eraseExpr, literalTy, literalTy_erase e]
  | .binary op l r _ => by simp [eraseExpr, literalTy, literalTy_erase l, literalTy_erase r]
  | .index _ _ _ _ => by simp [eraseExpr, literalTy]
  | .var _ _ _ => by simp [eraseExpr, literalTy]
  | .call _ _ _ _ => by simp [eraseExpr, literalTy]
  | .array _ _ => by simp [eraseExpr, literalTy]
  | .member _ _ _ _ => by simp [eraseExpr, literalTy]

theorem head?_eraseExprs_ty (es : List Expr) :
    (eraseExprs es).head?.bind literalTy = es.head?.bind literalTy := by
  cases es with
  | nil => rfl
  | cons e es => simp [eraseExprs, literalTy_erase]

/-- A callee that is neither a name nor a method. -/
def calleeOtherA : Expr → Bool
  | .var _ _ _ => false
  | .member _ _ _ _ => false
  | _ => true

theorem classify_call_other (capt : Nat → Bool) (c : Expr) (args : List Expr) (fn : Option Nat) (s : Span)
    (h : calleeOtherA c = true) :
    classify capt (.call c args fn s) = (classifyList capt args).join .impure := by
  cases c <;> first | (simp [calleeOtherA] at h; done) | simp only [classify]

theorem calleeOtherA_erase (c : Expr) : calleeOtherA (eraseExpr c) = calleeOtherA c := by
  cases c <;> simp [eraseExpr, calleeOtherA]

theorem eraseExpr_call' (c : Expr) (args : List Expr) (fn : Option Nat) (s : Span) :
    eraseExpr (.call c args fn s) = .call (eraseExpr c) (eraseExprs args) fn zspan := by
  simp [eraseExpr]

theorem classify_erase_call_other (capt : Nat → Bool) (c : Expr) (args : List Expr) (fn : Option Nat)
    (s : Span) (h : calleeOtherA c = true)
    (iha : classifyList capt (eraseExprs args) = classifyList capt args) :
    classify capt (eraseExpr (.call c args fn s)) = classify capt (.call c args fn s) := by
  rw [eraseExpr_call', classify_call_other _ _ _ _ _ ((calleeOtherA_erase c).trans h),
    classify_call_other _ _ _ _ _ h, iha]

mutual
theorem classify_erase (capt : Nat → Bool) : ∀ e : Expr, classify capt (eraseExpr e) = classify capt e
  | .num _ _ => by simp [eraseExpr, classify]
  | .bool _ _ => by simp [eraseExpr, classify]
  | .null _ => by simp [eraseExpr, classify]
  | .var _ _ _ => by simp [eraseExpr, classify]
  | .str (.static _) _ => by simp [eraseExpr, classify]
  | .str (.interp _) _ => by simp [eraseExpr, classify]
  | .array es _ => by simp [eraseExpr, classify, classifyList_erase capt es]
  | .index a i _ _ => by simp [eraseExpr, classify, classify_erase capt a, classify_erase capt i]
  | .binary op l r s => by
    have h := literalTy_erase (.binary op l r s)
    simp only [eraseExpr] at h
    simp only [eraseExpr, classify, classify_erase capt l, classify_erase capt r, h]
  | .unary op x s => by
    have h := literalTy_erase (.unary op x s)
    simp only [eraseExpr] at h
    simp only [eraseExpr, classify, classify_erase capt x, h]
  | .member o _ _ _ => by simp [eraseExpr, classify, classify_erase capt o]
  | .call (.var name _ _) args fn _ => by
    simp only [eraseExpr, classify, classifyList_erase capt args, head?_eraseExprs_ty]
  | .call (.member o field _ _) args _ _ => by
    simp only [eraseExpr, classify, classifyList_erase capt args, classify_erase capt o]
  | .call (.num l cs) args fn s =>
    classify_erase_call_other capt (.num l cs) args fn s rfl (classifyList_erase capt args)
  | .call (.str p cs) args fn s =>
    classify_erase_call_other capt (.str p cs) args fn s rfl (classifyList_erase capt args)
  | .call (.bool b cs) args fn s =>
    classify_erase_call_other capt (.bool b cs) args fn s rfl (classifyList_erase capt args)
  | .call (.null cs) args fn s =>
    classify_erase_call_other capt (.null cs) args fn s rfl (classifyList_erase capt args)
  | .call (.array es cs) args fn s =>
    classify_erase_call_other capt (.array es cs) args fn s rfl (classifyList_erase capt args)
  | .call (.index a i isp cs) args fn s =>
    classify_erase_call_other capt (.index a i isp cs) args fn s rfl (classifyList_erase capt args)
  | .call (.unary op x cs) args fn s =>
    classify_erase_call_other capt (.unary op x cs) args fn s rfl (classifyList_erase capt args)
  | .call (.binary op l r cs) args fn s =>
    classify_erase_call_other capt (.binary op l r cs) args fn s rfl (classifyList_erase capt args)
  | .call (.call c as fn' cs) args fn s =>
    classify_erase_call_other capt (.call c as fn' cs) args fn s rfl (classifyList_erase capt args)
theorem classifyList_erase (capt : Nat → Bool) :
    ∀ es : List Expr, classifyList capt (eraseExprs es) = classifyList capt es
  | [] => by simp [eraseExprs, classifyList]
  | e :: es => by simp [eraseExprs, classifyList, classify_erase capt e, classifyList_erase capt es]
end

theorem condClass_eraseA (capt : Nat → Bool) (c : Expr) :
    Analysis.condClass capt (eraseExpr c) = Analysis.condClass capt c := by
  simp only [Analysis.condClass, classify_erase, literalTy_erase]

theorem stmtClass_erase (capt : Nat → Bool) : ∀ s : Stmt, stmtClass capt (eraseStmt s) = stmtClass capt s
  | .fnDef _ _ _ _ _ _ _ => by simp [eraseStmt, stmtClass]
  | .assign _ _ _ _ _ _ => by simp [eraseStmt, stmtClass, classify_erase]
  | .assignExisting _ _ _ _ _ _ => by simp [eraseStmt, stmtClass, classify_erase]
  | .assignIndex _ _ _ _ => by simp [eraseStmt, stmtClass]
  | .ifS _ _ none _ _ => by simp [eraseStmt, stmtClass, condClass_eraseA]
  | .ifS _ _ (some _) _ _ => by simp [eraseStmt, stmtClass, condClass_eraseA]
  | .loop _ _ _ _ => by simp [eraseStmt, stmtClass, condClass_eraseA]
  | .block _ _ _ => by simp [eraseStmt, stmtClass]
  | .ret none _ _ => by simp [eraseStmt, stmtClass]
  | .ret (some _) _ _ => by simp [eraseStmt, stmtClass, classify_erase]
  | .brk _ _ => by simp [eraseStmt, stmtClass]
  | .cont _ _ => by simp [eraseStmt, stmtClass]
  | .expr _ _ _ => by simp [eraseStmt, stmtClass, classify_erase]

mutual
theorem clsStmt_erase (lo : Nat → Option Nat) :
    ∀ (s : Stmt) (cur : Nat), clsStmt lo cur (eraseStmt s) = clsStmt lo cur s
  | .fnDef n ns ps (.mk body bs) f sid sp, cur => by
    have h := stmtClass_erase (fun l => lo l != some cur) (.fnDef n ns ps (.mk body bs) f sid sp)
    simp only [eraseStmt, eraseBlock] at h
    simp only [eraseStmt, eraseBlock, clsStmt, h, clsStmts_erase lo body]
  | .ifS c (.mk t ts) none sid sp, cur => by
    have h := stmtClass_erase (fun l => lo l != some cur) (.ifS c (.mk t ts) none sid sp)
    simp only [eraseStmt, eraseBlock] at h
    simp only [eraseStmt, eraseBlock, clsStmt, h, clsStmts_erase lo t]
  | .ifS c (.mk t ts) (some (.mk e es)) sid sp, cur => by
    have h := stmtClass_erase (fun l => lo l != some cur) (.ifS c (.mk t ts) (some (.mk e es)) sid sp)
    simp only [eraseStmt, eraseBlock] at h
    simp only [eraseStmt, eraseBlock, clsStmt, h, clsStmts_erase lo t, clsStmts_erase lo e]
  | .loop c (.mk b bs) sid sp, cur => by
    have h := stmtClass_erase (fun l => lo l != some cur) (.loop c (.mk b bs) sid sp)
    simp only [eraseStmt, eraseBlock] at h
    simp only [eraseStmt, eraseBlock, clsStmt, h, clsStmts_erase lo b]
  | .block (.mk b bs) sid sp, cur => by
    simp only [eraseStmt, eraseBlock, clsStmt, clsStmts_erase lo b]
  | .assign v vs e b sid sp, cur => by
    have h := stmtClass_erase (fun l => lo l != some cur) (.assign v vs e b sid sp)
    simp only [eraseStmt] at h
    simp only [eraseStmt, clsStmt, Stmt.sid, h]
  | .assignExisting v vs e b sid sp, cur => by
    have h := stmtClass_erase (fun l => lo l != some cur) (.assignExisting v vs e b sid sp)
    simp only [eraseStmt] at h
    simp only [eraseStmt, clsStmt, Stmt.sid, h]
  | .assignIndex t e sid sp, cur => by
    have h := stmtClass_erase (fun l => lo l != some cur) (.assignIndex t e sid sp)
    simp only [eraseStmt] at h
    simp only [eraseStmt, clsStmt, Stmt.sid, h]
  | .ret none sid sp, cur => by
    simp only [eraseStmt, clsStmt, Stmt.sid, stmtClass]
  | .ret (some e) sid sp, cur => by
    have h := stmtClass_erase (fun l => lo l != some cur) (.ret (some e) sid sp)
    simp only [eraseStmt] at h
    simp only [eraseStmt, clsStmt, Stmt.sid, h]
  | .brk sid sp, cur => by simp only [eraseStmt, clsStmt, Stmt.sid, stmtClass]
  | .cont sid sp, cur => by simp only [eraseStmt, clsStmt, Stmt.sid, stmtClass]
  | .expr e sid sp, cur => by
    have h := stmtClass_erase (fun l => lo l != some cur) (.expr e sid sp)
    simp only [eraseStmt] at h
    simp only [eraseStmt, clsStmt, Stmt.sid, h]
theorem clsStmts_erase (lo : Nat → Option Nat) :
    ∀ (ss : List Stmt) (cur : Nat), clsStmts lo cur (eraseStmts ss) = clsStmts lo cur ss
  | [], cur => by simp [eraseStmts, clsStmts]
  | s :: ss, cur => by simp [eraseStmts, clsStmts, clsStmt_erase lo s, clsStmts_erase lo ss]
end


/-! ### Reachability and the statement table -/

def eraseRow (r : Row) : Row := { r with span := zspan, auxSpan := zspan }

@[simp] theorem eraseRow_sid (r : Row) : (eraseRow r).sid = r.sid := rfl
@[simp] theorem eraseRow_kind (r : Row) : (eraseRow r).kind = r.kind := rfl
@[simp] theorem eraseRow_live (r : Row) : (eraseRow r).live = r.live := rfl
@[simp] theorem eraseRow_parentLive (r : Row) : (eraseRow r).parentLive = r.parentLive := rfl
@[simp] theorem eraseRow_span (r : Row) : (eraseRow r).span = zspan := rfl
@[simp] theorem eraseRow_auxSpan (r : Row) : (eraseRow r).auxSpan = zspan := rfl

theorem stmtKind_erase : ∀ s : Stmt, stmtKind (eraseStmt s) = stmtKind s
  | .fnDef _ _ _ _ _ _ _ => by simp [eraseStmt, stmtKind]
  | .assign _ _ _ _ _ _ => by simp [eraseStmt, stmtKind]
  | .assignExisting _ _ _ _ _ _ => by simp [eraseStmt, stmtKind]
  | .assignIndex _ _ _ _ => by simp [eraseStmt, stmtKind]
  | .ifS _ _ none _ _ => by simp [eraseStmt, stmtKind]
  | .ifS _ _ (some _) _ _ => by simp [eraseStmt, stmtKind]
  | .loop _ _ _ _ => by simp [eraseStmt, stmtKind]
  | .block _ _ _ => by simp [eraseStmt, stmtKind]
  | .ret none _ _ => by simp [eraseStmt, stmtKind]
  | .ret (some _) _ _ => by simp [eraseStmt, stmtKind]
  | .brk _ _ => by simp [eraseStmt, stmtKind]
  | .cont _ _ => by simp [eraseStmt, stmtKind]
  | .expr _ _ _ => by simp [eraseStmt, stmtKind]

theorem stmtAux_erase : ∀ s : Stmt, stmtAux (eraseStmt s) = zspan
  | .fnDef _ _ _ _ _ _ _ => by simp [eraseStmt, stmtAux]
  | .assign _ _ _ _ _ _ => by simp [eraseStmt, stmtAux]
  | .assignExisting _ _ _ _ _ _ => by simp [eraseStmt, stmtAux]
  | .assignIndex _ _ _ _ => by simp [eraseStmt, stmtAux, Stmt.span]
  | .ifS _ _ none _ _ => by simp [eraseStmt, stmtAux, Stmt.span]
  | .ifS _ _ (some _) _ _ => by simp [eraseStmt, stmtAux, Stmt.span]
  | .loop _ _ _ _ => by simp [eraseStmt, stmtAux, Stmt.span]
  | .block _ _ _ => by simp [eraseStmt, stmtAux, Stmt.span]
  | .ret none _ _ => by simp [eraseStmt, stmtAux, Stmt.span]
  | .ret (some _) _ _ => by simp [eraseStmt, stmtAux, Stmt.span]
  | .brk _ _ => by simp [eraseStmt, stmtAux, Stmt.span]
  | .cont _ _ => by simp [eraseStmt, stmtAux, Stmt.span]
  | .expr _ _ _ => by simp [eraseStmt, stmtAux, Stmt.span]

theorem mkRow_erase (pl live : Bool) (s : Stmt) :
    mkRow pl live (eraseStmt s) = (mkRow pl live s).map eraseRow := by
  simp only [mkRow, eraseStmt_sid, stmtKind_erase, eraseStmt_span, stmtAux_erase]
  cases s.sid <;> simp [eraseRow]

mutual
theorem afterStmt_erase : ∀ (s : Stmt) (live : Bool), afterStmt live (eraseStmt s) = afterStmt live s
  | .ret none _ _, live => by simp [eraseStmt, afterStmt]
  | .ret (some _) _ _, live => by simp [eraseStmt, afterStmt]
  | .brk _ _, live => by simp [eraseStmt, afterStmt]
  | .cont _ _, live => by simp [eraseStmt, afterStmt]
  | .block (.mk b _) _ _, live => by simp [eraseStmt, eraseBlock, afterStmt, afterStmts_erase b]
  | .ifS _ (.mk t _) none _ _, live => by simp [eraseStmt, eraseBlock, afterStmt, afterStmts_erase t]
  | .ifS _ (.mk t _) (some (.mk e _)) _ _, live => by
    simp [eraseStmt, eraseBlock, afterStmt, afterStmts_erase t, afterStmts_erase e]
  | .fnDef _ _ _ _ _ _ _, live => by simp [eraseStmt, afterStmt]
  | .assign _ _ _ _ _ _, live => by simp [eraseStmt, afterStmt]
  | .assignExisting _ _ _ _ _ _, live => by simp [eraseStmt, afterStmt]
  | .assignIndex _ _ _ _, live => by simp [eraseStmt, afterStmt]
  | .loop _ _ _ _, live => by simp [eraseStmt, afterStmt]
  | .expr _ _ _, live => by simp [eraseStmt, afterStmt]
theorem afterStmts_erase : ∀ (ss : List Stmt) (live : Bool), afterStmts live (eraseStmts ss) = afterStmts live ss
  | [], live => by simp [eraseStmts, afterStmts]
  | s :: ss, live => by simp [eraseStmts, afterStmts, afterStmt_erase s, afterStmts_erase ss]
end

mutual
theorem rowsStmt_erase : ∀ (s : Stmt) (pl live : Bool),
    rowsStmt pl live (eraseStmt s) = (rowsStmt pl live s).map eraseRow
  | .fnDef n ns ps (.mk body bs) f sid sp, pl, live => by
    have h := mkRow_erase pl live (.fnDef n ns ps (.mk body bs) f sid sp)
    simp only [eraseStmt, eraseBlock] at h
    simp only [eraseStmt, eraseBlock, rowsStmt, h, rowsStmts_erase body, List.map_append]
  | .ifS c (.mk t ts) none sid sp, pl, live => by
    have h := mkRow_erase pl live (.ifS c (.mk t ts) none sid sp)
    simp only [eraseStmt, eraseBlock] at h
    simp only [eraseStmt, eraseBlock, rowsStmt, h, rowsStmts_erase t, List.map_append]
  | .ifS c (.mk t ts) (some (.mk e es)) sid sp, pl, live => by
    have h := mkRow_erase pl live (.ifS c (.mk t ts) (some (.mk e es)) sid sp)
    simp only [eraseStmt, eraseBlock] at h
    simp only [eraseStmt, eraseBlock, rowsStmt, h, rowsStmts_erase t, rowsStmts_erase e, List.map_append]
  | .loop c (.mk b bs) sid sp, pl, live => by
    have h := mkRow_erase pl live (.loop c (.mk b bs) sid sp)
    simp only [eraseStmt, eraseBlock] at h
    simp only [eraseStmt, eraseBlock, rowsStmt, h, rowsStmts_erase b, List.map_append]
  | .block (.mk b bs) sid sp, pl, live => by
    have h := mkRow_erase pl live (.block (.mk b bs) sid sp)
    simp only [eraseStmt, eraseBlock] at h
    simp only [eraseStmt, eraseBlock, rowsStmt, h, rowsStmts_erase b, List.map_append]
  | .assign v vs e b sid sp, pl, live => by
    have h := mkRow_erase pl live (.assign v vs e b sid sp)
    simp only [eraseStmt] at h
    simp only [eraseStmt, rowsStmt, h]
  | .assignExisting v vs e b sid sp, pl, live => by
    have h := mkRow_erase pl live (.assignExisting v vs e b sid sp)
    simp only [eraseStmt] at h
    simp only [eraseStmt, rowsStmt, h]
  | .assignIndex t e sid sp, pl, live => by
    have h := mkRow_erase pl live (.assignIndex t e sid sp)
    simp only [eraseStmt] at h
    simp only [eraseStmt, rowsStmt, h]
  | .ret none sid sp, pl, live => by
    have h := mkRow_erase pl live (.ret none sid sp)
    simp only [eraseStmt] at h
    simp only [eraseStmt, rowsStmt, h]
  | .ret (some e) sid sp, pl, live => by
    have h := mkRow_erase pl live (.ret (some e) sid sp)
    simp only [eraseStmt] at h
    simp only [eraseStmt, rowsStmt, h]
  | .brk sid sp, pl, live => by
    have h := mkRow_erase pl live (.brk sid sp)
    simp only [eraseStmt] at h
    simp only [eraseStmt, rowsStmt, h]
  | .cont sid sp, pl, live => by
    have h := mkRow_erase pl live (.cont sid sp)
    simp only [eraseStmt] at h
    simp only [eraseStmt, rowsStmt, h]
  | .expr e sid sp, pl, live => by
    have h := mkRow_erase pl live (.expr e sid sp)
    simp only [eraseStmt] at h
    simp only [eraseStmt, rowsStmt, h]
theorem rowsStmts_erase : ∀ (ss : List Stmt) (pl live : Bool),
    rowsStmts pl live (eraseStmts ss) = (rowsStmts pl live ss).map eraseRow
  | [], pl, live => by simp [eraseStmts, rowsStmts]
  | s :: ss, pl, live => by
    simp only [eraseStmts, rowsStmts, rowsStmt_erase s, afterStmt_erase, rowsStmts_erase ss, List.map_append]
end

theorem rows_erase (root : Block) : rows (eraseBlock root) = (rows root).map eraseRow := by
  simp [rows, rowsStmts_erase]

theorem unreachable_erase (root : Block) : unreachable (eraseBlock root) = unreachable root := by
  simp [unreachable, rows_erase, List.filter_map, List.map_map, Function.comp_def]


/-! ### The analysis context -/

def eraseCtx (c : Ctx) : Ctx := { c with rows := c.rows.map eraseRow }

theorem mkCtx_erase (root : Block) (facts : Facts) :
    mkCtx (eraseBlock root) facts = eraseCtx (mkCtx root facts) := by
  simp [mkCtx, eraseCtx, rows_erase, clsStmts_erase]

@[simp] theorem eraseCtx_facts (c : Ctx) : (eraseCtx c).facts = c.facts := rfl
@[simp] theorem eraseCtx_cls (c : Ctx) : (eraseCtx c).cls = c.cls := rfl
@[simp] theorem eraseCtx_rows (c : Ctx) : (eraseCtx c).rows = c.rows.map eraseRow := rfl
@[simp] theorem eraseCtx_clsOf (c : Ctx) (sid : Nat) : (eraseCtx c).clsOf sid = c.clsOf sid := rfl
@[simp] theorem eraseCtx_eff? (c : Ctx) (sid : Nat) : (eraseCtx c).eff? sid = c.eff? sid := rfl
@[simp] theorem eraseCtx_reads (c : Ctx) (sid : Nat) : (eraseCtx c).reads sid = c.reads sid := rfl
@[simp] theorem eraseCtx_writes (c : Ctx) (sid : Nat) : (eraseCtx c).writes sid = c.writes sid := rfl
@[simp] theorem eraseCtx_callees (c : Ctx) (sid : Nat) : (eraseCtx c).callees sid = c.callees sid := rfl
@[simp] theorem eraseCtx_fnOf (c : Ctx) (sid : Nat) : (eraseCtx c).fnOf sid = c.fnOf sid := rfl
@[simp] theorem eraseCtx_owner (c : Ctx) (l : Nat) : (eraseCtx c).owner l = c.owner l := rfl
@[simp] theorem eraseCtx_nFns (c : Ctx) : (eraseCtx c).nFns = c.nFns := rfl
@[simp] theorem eraseCtx_direct (c : Ctx) (f : Nat) : (eraseCtx c).direct f = c.direct f := rfl
@[simp] theorem eraseCtx_calleesStar (c : Ctx) (f : Nat) : (eraseCtx c).calleesStar f = c.calleesStar f := rfl
@[simp] theorem eraseCtx_transReads (c : Ctx) (f : Nat) : (eraseCtx c).transReads f = c.transReads f := rfl
@[simp] theorem eraseCtx_transWrites (c : Ctx) (f : Nat) : (eraseCtx c).transWrites f = c.transWrites f := rfl
@[simp] theorem eraseCtx_calleeReads (c : Ctx) (f sid : Nat) :
    (eraseCtx c).calleeReads f sid = c.calleeReads f sid := rfl
@[simp] theorem eraseCtx_transfer (c : Ctx) (f sid : Nat) (s : LS) :
    (eraseCtx c).transfer f sid s = c.transfer f sid s := rfl

@[simp] theorem eraseCtx_row? (c : Ctx) (sid : Nat) : (eraseCtx c).row? sid = (c.row? sid).map eraseRow := by
  simp [Ctx.row?, List.find?_map, Function.comp_def]

@[simp] theorem eraseCtx_live (c : Ctx) (sid : Nat) : (eraseCtx c).live sid = c.live sid := by
  simp only [Ctx.live, eraseCtx_row?]
  cases c.row? sid <;> rfl

@[simp] theorem eraseCtx_bodyClass (c : Ctx) (f : Nat) : (eraseCtx c).bodyClass f = c.bodyClass f := by
  simp only [Ctx.bodyClass, eraseCtx_rows, List.foldl_map, eraseRow_sid, eraseCtx_fnOf, eraseCtx_clsOf,
    eraseCtx_direct]
  rfl

@[simp] theorem eraseCtx_transClass (c : Ctx) (f : Nat) : (eraseCtx c).transClass f = c.transClass f := by
  simp [Ctx.transClass]

@[simp] theorem eraseCtx_effClass (c : Ctx) (sid : Nat) : (eraseCtx c).effClass sid = c.effClass sid := by
  simp [Ctx.effClass]

@[simp] theorem eraseCtx_bodyReachStep (c : Ctx) : (eraseCtx c).bodyReachStep = c.bodyReachStep := by
  funext s
  simp only [Ctx.bodyReachStep, eraseCtx_rows, List.foldl_map, eraseRow_sid, eraseRow_live, eraseCtx_fnOf,
    eraseCtx_callees]
  rfl

@[simp] theorem eraseCtx_bodyReachable (c : Ctx) : (eraseCtx c).bodyReachable = c.bodyReachable := by
  simp [Ctx.bodyReachable]

@[simp] theorem eraseCtx_defReachable (c : Ctx) (g : Nat) : (eraseCtx c).defReachable g = c.defReachable g := by
  simp [Ctx.defReachable]

@[simp] theorem eraseCtx_unusedFns (c : Ctx) : (eraseCtx c).unusedFns = c.unusedFns := by
  simp [Ctx.unusedFns]

@[simp] theorem eraseCtx_usedLocals (c : Ctx) : (eraseCtx c).usedLocals = c.usedLocals := by
  simp only [Ctx.usedLocals, eraseCtx_rows, List.foldl_map, eraseRow_sid, eraseRow_live, eraseCtx_fnOf,
    eraseCtx_callees, eraseCtx_bodyReachable, eraseCtx_transReads, eraseCtx_reads]
  rfl

@[simp] theorem eraseCtx_unusedVars (c : Ctx) : (eraseCtx c).unusedVars = c.unusedVars := by
  simp [Ctx.unusedVars]

@[simp] theorem eraseCtx_maxRef (c : Ctx) (l : Nat) : (eraseCtx c).maxRef l = c.maxRef l := by
  simp only [Ctx.maxRef, eraseCtx_rows, List.foldl_map, eraseRow_sid, eraseRow_live, eraseCtx_fnOf,
    eraseCtx_callees, eraseCtx_transReads, eraseCtx_transWrites, eraseCtx_reads, eraseCtx_writes, eraseCtx_owner]
  rfl

@[simp] theorem eraseCtx_declRemovable (c : Ctx) (l sid : Nat) :
    (eraseCtx c).declRemovable l sid = c.declRemovable l sid := by
  simp [Ctx.declRemovable]

@[simp] theorem eraseCtx_removableAsg (c : Ctx) (ua : List Nat) :
    (eraseCtx c).removableAsg ua = c.removableAsg ua := by
  simp only [Ctx.removableAsg, eraseCtx_effClass, eraseCtx_row?, eraseCtx_writes, eraseCtx_declRemovable]
  congr 1
  funext s
  cases c.row? s <;> simp

@[simp] theorem eraseCtx_removableDecls (c : Ctx) (uv : List (Nat × Nat)) :
    (eraseCtx c).removableDecls uv = c.removableDecls uv := by
  simp [Ctx.removableDecls]


/-! ### Liveness -/

@[simp] theorem scopeLocalsOf_erase (c : Ctx) (ss : List Stmt) :
    (eraseCtx c).scopeLocalsOf (eraseStmts ss) = c.scopeLocalsOf ss := by
  cases ss with
  | nil => rfl
  | cons s ss =>
    have : (eraseCtx c).eff? = c.eff? := rfl
    simp only [eraseStmts, Ctx.scopeLocalsOf, eraseStmt_sid, this, eraseCtx_facts]

mutual
theorem lvStmt_erase (c : Ctx) (f nl : Nat) : ∀ (s : Stmt) (lc : LoopCtx) (st : LS),
    lvStmt (eraseCtx c) f nl lc (eraseStmt s) st = lvStmt c f nl lc s st
  | .ret none (some sid) _, lc, st => by simp only [eraseStmt, lvStmt, eraseCtx_transfer]
  | .ret (some _) (some sid) _, lc, st => by simp only [eraseStmt, lvStmt, eraseCtx_transfer]
  | .ret none none _, lc, st => by simp only [eraseStmt, lvStmt]
  | .ret (some _) none _, lc, st => by simp only [eraseStmt, lvStmt]
  | .brk (some sid) _, lc, st => by simp only [eraseStmt, lvStmt, eraseCtx_transfer]
  | .brk none _, lc, st => by simp only [eraseStmt, lvStmt]
  | .cont (some sid) _, lc, st => by simp only [eraseStmt, lvStmt, eraseCtx_transfer]
  | .cont none _, lc, st => by simp only [eraseStmt, lvStmt]
  | .block (.mk b _) (some sid) _, lc, st => by
    simp only [eraseStmt, eraseBlock, lvStmt, eraseCtx_transfer, scopeLocalsOf_erase, lvStmts_erase c f nl b]
  | .block (.mk b _) none _, lc, st => by simp only [eraseStmt, eraseBlock, lvStmt]
  | .ifS _ (.mk t _) none (some sid) _, lc, st => by
    simp only [eraseStmt, eraseBlock, lvStmt, eraseCtx_transfer, scopeLocalsOf_erase, lvStmts_erase c f nl t]
  | .ifS _ (.mk t _) (some (.mk e _)) (some sid) _, lc, st => by
    simp only [eraseStmt, eraseBlock, lvStmt, eraseCtx_transfer, scopeLocalsOf_erase, lvStmts_erase c f nl t,
      lvStmts_erase c f nl e]
  | .ifS _ (.mk t _) none none _, lc, st => by simp only [eraseStmt, eraseBlock, lvStmt]
  | .ifS _ (.mk t _) (some (.mk e _)) none _, lc, st => by simp only [eraseStmt, eraseBlock, lvStmt]
  | .loop _ (.mk b _) (some sid) _, lc, st => by
    simp only [eraseStmt, eraseBlock, lvStmt, eraseCtx_transfer, scopeLocalsOf_erase, lvStmts_erase c f nl b]
  | .loop _ (.mk b _) none _, lc, st => by simp only [eraseStmt, eraseBlock, lvStmt]
  | .fnDef _ _ _ _ _ (some sid) _, lc, st => by simp only [eraseStmt, lvStmt, eraseCtx_transfer]
  | .fnDef _ _ _ _ _ none _, lc, st => by simp only [eraseStmt, lvStmt]
  | .assign _ _ _ _ (some sid) _, lc, st => by
    simp only [eraseStmt, lvStmt, eraseCtx_transfer, eraseCtx_writes, eraseCtx_live]
  | .assign _ _ _ _ none _, lc, st => by simp only [eraseStmt, lvStmt]
  | .assignExisting _ _ _ _ (some sid) _, lc, st => by
    simp only [eraseStmt, lvStmt, eraseCtx_transfer, eraseCtx_writes, eraseCtx_live]
  | .assignExisting _ _ _ _ none _, lc, st => by simp only [eraseStmt, lvStmt]
  | .assignIndex _ _ (some sid) _, lc, st => by simp only [eraseStmt, lvStmt, eraseCtx_transfer]
  | .assignIndex _ _ none _, lc, st => by simp only [eraseStmt, lvStmt]
  | .expr _ (some sid) _, lc, st => by simp only [eraseStmt, lvStmt, eraseCtx_transfer]
  | .expr _ none _, lc, st => by simp only [eraseStmt, lvStmt]
theorem lvStmts_erase (c : Ctx) (f nl : Nat) : ∀ (ss : List Stmt) (lc : LoopCtx) (st : LS),
    lvStmts (eraseCtx c) f nl lc (eraseStmts ss) st = lvStmts c f nl lc ss st
  | [], lc, st => by simp only [eraseStmts, lvStmts]
  | s :: ss, lc, st => by
    simp only [eraseStmts, lvStmts, lvStmts_erase c f nl ss, lvStmt_erase c f nl s]
end

theorem deadStoresIn_erase (c : Ctx) (f : Nat) (body : List Stmt) :
    (eraseCtx c).deadStoresIn f (eraseStmts body) = c.deadStoresIn f body := by
  simp only [Ctx.deadStoresIn, lvStmts_erase, eraseCtx_facts]

def eraseBody (fb : Nat × List Stmt) : Nat × List Stmt := (fb.1, eraseStmts fb.2)

mutual
theorem bodiesStmt_erase : ∀ s : Stmt, bodiesStmt (eraseStmt s) = (bodiesStmt s).map eraseBody
  | .fnDef _ _ _ (.mk body _) (some f) _ _ => by
    simp only [eraseStmt, eraseBlock, bodiesStmt, bodiesStmts_erase body, List.map_cons, eraseBody]
  | .fnDef _ _ _ (.mk body _) none _ _ => by
    simp only [eraseStmt, eraseBlock, bodiesStmt, bodiesStmts_erase body]
  | .ifS _ (.mk t _) none _ _ => by simp only [eraseStmt, eraseBlock, bodiesStmt, bodiesStmts_erase t]
  | .ifS _ (.mk t _) (some (.mk e _)) _ _ => by
    simp only [eraseStmt, eraseBlock, bodiesStmt, bodiesStmts_erase t, bodiesStmts_erase e, List.map_append]
  | .loop _ (.mk b _) _ _ => by simp only [eraseStmt, eraseBlock, bodiesStmt, bodiesStmts_erase b]
  | .block (.mk b _) _ _ => by simp only [eraseStmt, eraseBlock, bodiesStmt, bodiesStmts_erase b]
  | .assign _ _ _ _ _ _ => by simp only [eraseStmt, bodiesStmt, List.map_nil]
  | .assignExisting _ _ _ _ _ _ => by simp only [eraseStmt, bodiesStmt, List.map_nil]
  | .assignIndex _ _ _ _ => by simp only [eraseStmt, bodiesStmt, List.map_nil]
  | .ret none _ _ => by simp only [eraseStmt, bodiesStmt, List.map_nil]
  | .ret (some _) _ _ => by simp only [eraseStmt, bodiesStmt, List.map_nil]
  | .brk _ _ => by simp only [eraseStmt, bodiesStmt, List.map_nil]
  | .cont _ _ => by simp only [eraseStmt, bodiesStmt, List.map_nil]
  | .expr _ _ _ => by simp only [eraseStmt, bodiesStmt, List.map_nil]
theorem bodiesStmts_erase : ∀ ss : List Stmt, bodiesStmts (eraseStmts ss) = (bodiesStmts ss).map eraseBody
  | [] => by simp only [eraseStmts, bodiesStmts, List.map_nil]
  | s :: ss => by
    simp only [eraseStmts, bodiesStmts, bodiesStmt_erase s, bodiesStmts_erase ss, List.map_append]
end

theorem unusedAsg_erase (c : Ctx) (root : Block) :
    (eraseCtx c).unusedAsg (eraseBlock root) = c.unusedAsg root := by
  simp only [Ctx.unusedAsg, eraseBlock_stmts, bodiesStmts_erase]
  have : ((0, eraseStmts root.stmts) :: (bodiesStmts root.stmts).map eraseBody)
      = ((0, root.stmts) :: bodiesStmts root.stmts).map eraseBody := rfl
  rw [this, List.foldl_map]
  simp only [eraseBody, deadStoresIn_erase]


/-! ### `analyse` -/

def eraseWarn (w : Warn) : Warn := { w with span := zspan }

theorem insertWarn_erase (w : Warn) : ∀ ws : List Warn,
    insertWarn (eraseWarn w) (ws.map eraseWarn) = (insertWarn w ws).map eraseWarn
  | [] => rfl
  | x :: xs => by
    have h1 : (eraseWarn w).sid = w.sid := rfl
    have h2 : (eraseWarn x).sid = x.sid := rfl
    have h3 : (eraseWarn w).kind = w.kind := rfl
    have h4 : (eraseWarn x).kind = x.kind := rfl
    simp only [List.map_cons, insertWarn, h1, h2, h3, h4]
    split
    · rfl
    · simp only [List.map_cons, insertWarn_erase w xs]

theorem foldr_insertWarn_erase : ∀ ws : List Warn,
    (ws.map eraseWarn).foldr insertWarn [] = (ws.foldr insertWarn []).map eraseWarn
  | [] => rfl
  | w :: ws => by
    simp only [List.map_cons, List.foldr_cons, foldr_insertWarn_erase ws, insertWarn_erase]

/-- The analyses on the span-erased annotated program: the same verdicts, the same plan, the same
warnings in the same order, every warning span erased. -/
theorem analyse_erase (root : Block) (facts : Facts) :
    analyse (eraseBlock root) facts
      = { analyse root facts with warns := (analyse root facts).warns.map eraseWarn } := by
  simp only [analyse, mkCtx_erase, unreachable_erase, unusedAsg_erase, eraseCtx_unusedVars, eraseCtx_unusedFns,
    eraseCtx_removableAsg, eraseCtx_removableDecls, eraseCtx_row?, eraseCtx_rows,
    ← foldr_insertWarn_erase]
  congr 2
  simp only [List.map_append, List.map_map, List.filter_map, Function.comp_def, eraseWarn, eraseRow_live,
    eraseRow_parentLive, eraseRow_sid, eraseRow_span]
  have app : ∀ {a a' b b' : List Warn}, a = a' → b = b' → a ++ b = a' ++ b' := by
    intro a a' b b' h1 h2; rw [h1, h2]
  refine app (app (app rfl ?_) ?_) ?_
  · apply List.map_congr_left
    intro x _
    cases (mkCtx root facts).row? x <;> rfl
  · apply List.map_congr_left
    intro x _
    cases (mkCtx root facts).row? x.1 <;> rfl
  · apply List.map_congr_left
    intro x _
    cases (mkCtx root facts).row? x.1 <;> rfl

end Ana

end NaijaVerif.SpanErase
