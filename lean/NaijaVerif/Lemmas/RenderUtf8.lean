import NaijaVerif.Lemmas.Render
/-
Validity of what the renderer writes: ASCII pieces, slices of the source between character boundaries,
tab expansion.
-/
set_option linter.unusedSimpArgs false
set_option linter.unusedVariables false

namespace NaijaVerif.Render
open NaijaVerif NaijaVerif.Utf8
open NaijaVerif.Bytes (isCont isBoundary)

theorem valid_ascii : ∀ (l : Bytes), (∀ b ∈ l, b < 128) → validUtf8 l = true := by
  intro l
  induction l with
  | nil => intro _; exact valid_nil
  | cons b r ih =>
    intro h
    rw [valid_cons_ascii (h b (by simp))]
    exact ih (fun x hx => h x (by simp [hx]))

theorem valid_replicate (n b : Nat) (hb : b < 128) : validUtf8 (List.replicate n b) = true :=
  valid_ascii _ (fun x hx => by rw [(List.mem_replicate.mp hx).2]; exact hb)

theorem valid_bold : validUtf8 bold = true := by decide
theorem valid_reset : validUtf8 reset = true := by decide
theorem valid_color (s : Sev) : validUtf8 (color s) = true := by cases s <;> decide
theorem valid_sevLabel (s : Sev) : validUtf8 (sevLabel s) = true := by cases s <;> decide

theorem digitsGo_ascii : ∀ (fuel n : Nat) (acc : Bytes), (∀ b ∈ acc, b < 128) →
    ∀ b ∈ digitsGo fuel n acc, b < 128 := by
  intro fuel
  induction fuel with
  | zero => intro n acc h; simpa [digitsGo] using h
  | succ f ih =>
    intro n acc h
    unfold digitsGo
    split
    · intro b hb
      rcases List.mem_cons.mp hb with rfl | hb
      · omega
      · exact h b hb
    · apply ih
      intro b hb
      rcases List.mem_cons.mp hb with rfl | hb
      · omega
      · exact h b hb

theorem valid_natStr (n : Nat) : validUtf8 (natStr n) = true :=
  valid_ascii _ (digitsGo_ascii _ _ [] (by simp))

theorem valid_padLeft (w : Nat) {s : Bytes} (h : validUtf8 s = true) : validUtf8 (padLeft w s) = true :=
  valid_append _ (valid_replicate _ _ (by decide)) _ h

theorem valid_flatten : ∀ (ls : List Bytes), (∀ x ∈ ls, validUtf8 x = true) → validUtf8 ls.flatten = true := by
  intro ls
  induction ls with
  | nil => intro _; exact valid_nil
  | cons x r ih =>
    intro h
    rw [List.flatten_cons]
    exact valid_append _ (h x (by simp)) _ (ih (fun y hy => h y (by simp [hy])))

theorem notCont_of_ge {b : Nat} (h : ¬ b < 194) : isCont b = false := by simp [isCont]; omega

/-- `expand_tabs` keeps valid UTF-8 valid (a tab becomes spaces, every other character is copied) -/
theorem valid_expandTabsGo : ∀ (t : Bytes), validUtf8 t = true → ∀ c, validUtf8 (expandTabsGo c t) = true := by
  intro t
  induction t using validUtf8.induct with
  | case1 => intro _ c; simp [expandTabsGo, valid_nil]
  | case2 b0 r0 hb ih =>
    intro hv c
    rw [valid_cons_ascii hb] at hv
    have hnc : isCont b0 = false := by simp [isCont]; omega
    rw [expandTabsGo]
    simp only [hnc, Bool.false_eq_true, if_false]
    split
    · exact valid_append _ (valid_replicate _ _ (by decide)) _ (ih hv _)
    · rw [valid_cons_ascii hb]; exact ih hv _
  | case3 b0 r0 h1 h2 => intro hv; rw [validUtf8.eq_def] at hv; simp [h1, h2] at hv
  | case4 b0 h1 h2 h3 b1 r' ih =>
    intro hv c
    rw [v2 h1 h2 h3] at hv; simp only [Bool.and_eq_true] at hv
    have e : expandTabsGo c (b0 :: b1 :: r') = b0 :: b1 :: expandTabsGo (c + 1) r' := by
      have : b0 ≠ tab := by simp [tab]; omega
      simp [expandTabsGo, notCont_of_ge h2, this, hv.1]
    rw [e, v2 h1 h2 h3]; simp only [Bool.and_eq_true]
    exact ⟨hv.1, ih hv.2 _⟩
  | case5 b0 r0 h1 h2 h3 hne =>
    intro hv
    rw [validUtf8.eq_def] at hv
    simp only [h1, h2, h3] at hv
    split at hv <;> first | contradiction | simp at hv
  | case6 b0 h1 h2 h3 h4 b1 b2 r' ih =>
    intro hv c
    rw [v3 h1 h2 h3 h4] at hv; simp only [Bool.and_eq_true] at hv
    have e : expandTabsGo c (b0 :: b1 :: b2 :: r') = b0 :: b1 :: b2 :: expandTabsGo (c + 1) r' := by
      have : b0 ≠ tab := by simp [tab]; omega
      simp [expandTabsGo, notCont_of_ge h2, this, hv.1.1.1.1, hv.1.1.1.2]
    rw [e, v3 h1 h2 h3 h4]; simp only [Bool.and_eq_true]
    exact ⟨hv.1, ih hv.2 _⟩
  | case7 b0 r0 h1 h2 h3 h4 hne =>
    intro hv
    rw [validUtf8.eq_def] at hv
    simp only [h1, h2, h3, h4] at hv
    split at hv <;> first | contradiction | simp at hv
  | case8 b0 h1 h2 h3 h4 h5 b1 b2 b3 r' ih =>
    intro hv c
    rw [v4 h1 h2 h3 h4 h5] at hv; simp only [Bool.and_eq_true] at hv
    have e : expandTabsGo c (b0 :: b1 :: b2 :: b3 :: r') = b0 :: b1 :: b2 :: b3 :: expandTabsGo (c + 1) r' := by
      have : b0 ≠ tab := by simp [tab]; omega
      simp [expandTabsGo, notCont_of_ge h2, this, hv.1.1.1.1.1, hv.1.1.1.1.2, hv.1.1.1.2]
    rw [e, v4 h1 h2 h3 h4 h5]; simp only [Bool.and_eq_true]
    exact ⟨hv.1, ih hv.2 _⟩
  | case9 b0 r0 h1 h2 h3 h4 h5 hne =>
    intro hv
    rw [validUtf8.eq_def] at hv
    simp only [h1, h2, h3, h4, h5] at hv
    split at hv <;> first | contradiction | simp at hv
  | case10 b0 r0 h1 h2 h3 h4 h5 => intro hv; rw [validUtf8.eq_def] at hv; simp [h1, h2, h3, h4, h5] at hv

theorem valid_expandTabs {t : Bytes} (h : validUtf8 t = true) : validUtf8 (expandTabs t) = true :=
  valid_expandTabsGo t h 0

/-- the caret under a tab-expanded line: `expand_tabs` renders a text exactly `visual_col` columns wide
(so the column computed by `visual_col` points at the right character of the displayed line) -/
theorem charCount_expandTabsGo : ∀ (t : Bytes) (c : Nat),
    c + charCount (expandTabsGo c t) = visualColGo c t := by
  intro t
  induction t with
  | nil => intro c; simp [expandTabsGo, visualColGo, charCount]
  | cons b r ih =>
    intro c
    rw [expandTabsGo, visualColGo]
    by_cases h1 : isCont b = true
    · simp only [h1, if_true, charCount]; exact ih c
    · simp only [h1, Bool.false_eq_true, if_false]
      by_cases h2 : b = tab
      · simp only [h2, if_true]
        have hrep : ∀ (n : Nat) (l : Bytes), charCount (List.replicate n space ++ l) = n + charCount l := by
          intro n
          induction n with
          | zero => intro l; simp
          | succ n ihn =>
            intro l
            rw [List.replicate_succ, List.cons_append, charCount]
            have : isCont space = false := by decide
            simp only [this, Bool.false_eq_true, if_false, ihn]; omega
        rw [hrep, ← ih]; omega
      · simp only [h2, if_false, charCount, h1, Bool.false_eq_true]
        rw [← ih]; omega

theorem charCount_expandTabs (t : Bytes) : charCount (expandTabs t) = visualCol t := by
  have := charCount_expandTabsGo t 0
  simp only [Nat.zero_add] at this
  exact this

end NaijaVerif.Render
