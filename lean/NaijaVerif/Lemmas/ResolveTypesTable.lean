import NaijaVerif.Lemmas.ResolveTypes
/-
The typing half of C09, part 2: result types of the functions of a block.

`retIter` (the return-type loop of `predeclare_block_functions`, with the shadow lists of the D-09b
fix) computes the table `Spec.fnTable` of the specification, provided every `return` expression is well
typed in the environment in which it is typed (`Spec.tableOk`): then `infer_expr_type` and the
documented `typeOf` agree on it (`typeOf_eq_infer`), round by round.  Without that proviso they need not
(`Props/C09.lean: witnessRecoveryType`): for an operator application that the table rejects
`infer_expr_type` may still answer a type where the specification has none.
-/
namespace NaijaVerif.Resolve
open NaijaVerif NaijaVerif.Spec

def key2 (g : FnSig) : Bytes × VType := (g.name, g.ret)

theorem tFind_map_key2 (sigs : List FnSig) (x : Bytes) :
    tFind (sigs.map key2) x = (findFn sigs x).map (·.ret) := by
  induction sigs with
  | nil => simp [tFind, findFn]
  | cons g gs ih =>
    simp only [tFind, findFn, List.map_cons, List.find?_cons] at ih ⊢
    have hk : (key2 g).1 = g.name := rfl
    rw [hk]
    cases h : g.name == x
    · simpa using ih
    · simp [key2]

/-- A scope of dynamic entries. -/
theorem tFind_dyn (names : List Bytes) (x : Bytes) :
    tFind (names.map fun n => (n, VType.dynamic)) x = if names.contains x then some .dynamic else none := by
  induction names with
  | nil => simp [tFind]
  | cons n ns ih =>
    simp only [tFind, List.map_cons, List.find?_cons, List.contains_cons] at ih ⊢
    by_cases h : n = x
    · subst h; simp
    · have h1 : (n == x) = false := by simpa using h
      have h2 : (x == n) = false := by simpa using fun h' => h h'.symm
      simp only [h1, h2, Bool.false_or]
      exact ih

/-! ### The names a function body binds -/

mutual
  theorem bodyNames_made : ∀ s : Stmt, bodyNames false s = gather madeName s
    | .assign .. => by simp [bodyNames, gather, madeName]
    | .fnDef .. => by simp [bodyNames, gather, madeName]
    | .ifS _ t e _ _ => by simp only [bodyNames, gather, bodyNamesB_made t, bodyNamesO_made e]
    | .loop _ b _ _ => by simp only [bodyNames, gather, bodyNamesB_made b]
    | .block b _ _ => by simp only [bodyNames, gather, bodyNamesB_made b]
    | .assignExisting .. | .assignIndex .. | .ret .. | .brk .. | .cont .. | .expr .. => by
        simp [bodyNames, gather, madeName]
  theorem bodyNamesL_made : ∀ ss : List Stmt, bodyNamesL false ss = gatherL madeName ss
    | [] => by simp [bodyNamesL, gatherL]
    | s :: ss => by simp only [bodyNamesL, gatherL, bodyNames_made s, bodyNamesL_made ss]
  theorem bodyNamesB_made : ∀ b : Block, bodyNamesB false b = gatherB madeName b
    | .mk ss _ => by simp only [bodyNamesB, gatherB, bodyNamesL_made ss]
  theorem bodyNamesO_made : ∀ b : Option Block, bodyNamesO false b = gatherO madeName b
    | none => by simp [bodyNamesO, gatherO]
    | some b => by simp only [bodyNamesO, gatherO, bodyNamesB_made b]
end

mutual
  theorem bodyNames_defined : ∀ s : Stmt, bodyNames true s = gather definedName s
    | .assign .. => by simp [bodyNames, gather, definedName]
    | .fnDef .. => by simp [bodyNames, gather, definedName]
    | .ifS _ t e _ _ => by simp only [bodyNames, gather, bodyNamesB_defined t, bodyNamesO_defined e]
    | .loop _ b _ _ => by simp only [bodyNames, gather, bodyNamesB_defined b]
    | .block b _ _ => by simp only [bodyNames, gather, bodyNamesB_defined b]
    | .assignExisting .. | .assignIndex .. | .ret .. | .brk .. | .cont .. | .expr .. => by
        simp [bodyNames, gather, definedName]
  theorem bodyNamesL_defined : ∀ ss : List Stmt, bodyNamesL true ss = gatherL definedName ss
    | [] => by simp [bodyNamesL, gatherL]
    | s :: ss => by simp only [bodyNamesL, gatherL, bodyNames_defined s, bodyNamesL_defined ss]
  theorem bodyNamesB_defined : ∀ b : Block, bodyNamesB true b = gatherB definedName b
    | .mk ss _ => by simp only [bodyNamesB, gatherB, bodyNamesL_defined ss]
  theorem bodyNamesO_defined : ∀ b : Option Block, bodyNamesO true b = gatherO definedName b
    | none => by simp [bodyNamesO, gatherO]
    | some b => by simp only [bodyNamesO, gatherO, bodyNamesB_defined b]
end

theorem ownMakes_eq : ∀ ss : List Stmt, ownMakes ss = blockMakes ss
  | [] => rfl
  | .assign .. :: rest => by simp only [ownMakes, blockMakes, ownMakes_eq rest]
  | .fnDef .. :: rest | .assignExisting .. :: rest | .assignIndex .. :: rest | .ifS .. :: rest
  | .loop .. :: rest | .block .. :: rest | .ret .. :: rest | .brk .. :: rest | .cont .. :: rest
  | .expr .. :: rest => by simp only [ownMakes, blockMakes, ownMakes_eq rest]

/-! ### `return` expressions typed alike -/

mutual
  theorem collectRets_eq (sh : Shadow) (env : Env) (cur : Scope) (te : TEnv) (h : RelSh sh env cur te) :
      ∀ s : Stmt, retsOk te s = true → collectRets sh env cur s = retTypes te s
    | .ret (some e) _ _, hk => by
        simp only [retsOk, List.isEmpty_iff] at hk
        simp only [collectRets, retTypes, typeOf_eq_infer sh env cur te h e hk]
    | .ret none _ _, _ => by simp [collectRets, retTypes]
    | .ifS _ t e _ _, hk => by
        simp only [retsOk, Bool.and_eq_true] at hk
        simp only [collectRets, retTypes, collectRetsB_eq sh env cur te h t hk.1, collectRetsO_eq sh env cur te h e hk.2]
    | .loop _ b _ _, hk => by
        simp only [retsOk] at hk
        simp only [collectRets, retTypes, collectRetsB_eq sh env cur te h b hk]
    | .block b _ _, hk => by
        simp only [retsOk] at hk
        simp only [collectRets, retTypes, collectRetsB_eq sh env cur te h b hk]
    | .assign .., _ | .assignExisting .., _ | .assignIndex .., _ | .fnDef .., _ | .brk .., _ | .cont .., _
    | .expr .., _ => by simp [collectRets, retTypes]
  theorem collectRetsL_eq (sh : Shadow) (env : Env) (cur : Scope) (te : TEnv) (h : RelSh sh env cur te) :
      ∀ ss : List Stmt, retsOkL te ss = true → collectRetsL sh env cur ss = retTypesL te ss
    | [], _ => by simp [collectRetsL, retTypesL]
    | s :: ss, hk => by
        simp only [retsOkL, Bool.and_eq_true] at hk
        simp only [collectRetsL, retTypesL, collectRets_eq sh env cur te h s hk.1, collectRetsL_eq sh env cur te h ss hk.2]
  theorem collectRetsB_eq (sh : Shadow) (env : Env) (cur : Scope) (te : TEnv) (h : RelSh sh env cur te) :
      ∀ b : Block, retsOkB te b = true → collectRetsB sh env cur b = retTypesB te b
    | .mk ss _, hk => by
        simp only [retsOkB] at hk
        simp only [collectRetsB, retTypesB, collectRetsL_eq sh env cur te h ss hk]
  theorem collectRetsO_eq (sh : Shadow) (env : Env) (cur : Scope) (te : TEnv) (h : RelSh sh env cur te) :
      ∀ b : Option Block, retsOkO te b = true → collectRetsO sh env cur b = retTypesO te b
    | none, _ => by simp [collectRetsO, retTypesO]
    | some b, hk => by
        simp only [retsOkO] at hk
        simp only [collectRetsO, retTypesO, collectRetsB_eq sh env cur te h b hk]
end

theorem inferRet_eq (env : Env) (sh : Shadow) (body : Block) :
    inferRet env sh body = commonType (collectRetsB sh env [] body) := by
  unfold inferRet commonType
  cases collectRetsB sh env [] body <;> rfl

/-- The environment of return-type inference: the enclosing scopes at block entry (`hV`, `hF`), the
block's signatures as they stand, the shadow lists of the fix. -/
theorem relSh_retEnv (env : Env) (te : TEnv) (hsh : env.shadowRet = true)
    (hV : ∀ x, tLookup te.vars x = (lookupScopes env.vars x).map (·.ty))
    (hF : ∀ x, tLookup te.fns x = (lookupFns env.fns x).map (·.ret))
    (sigs : List FnSig) (makes : List Bytes) (ps : List Param) (body : Block) :
    RelSh (shadowOf env makes ps body) { env with fns := sigs :: env.fns } []
      (retEnv te (sigs.map key2) makes (ps.map (·.name)) body) := by
  have hs : shadowOf env makes ps body =
      { vars := ps.map (·.name) ++ makes ++ gatherB madeName body, fns := gatherB definedName body } := by
    simp [shadowOf, hsh, bodyNamesB_made, bodyNamesB_defined]
  rw [hs]
  constructor
  · intro x
    simp only [retEnv, tLookup, tFind_dyn, varTy, lookupVar, lookupScopes, findVar, List.find?_nil]
    cases hc : (ps.map (·.name) ++ makes ++ gatherB madeName body).contains x
    · simp only [Bool.false_eq_true, if_false]; exact hV x
    · simp only [if_true]
  · intro x
    simp only [retEnv, tLookup, tFind_dyn, fnTy, lookupFn, lookupFns, tFind_map_key2]
    cases hc : (gatherB definedName body).contains x
    · simp only [Bool.false_eq_true, if_false]
      cases findFn sigs x with
      | some g => rfl
      | none => exact hF x
    · simp only [if_true]

/-! ### One round -/

theorem retPass_true (env : Env) (makes : List Bytes) :
    ∀ (bodies : List (List Param × Block)) (i : Nat) (sigs : List FnSig),
      (retPass env makes bodies i sigs true).2 = true
  | [], _, _ => by simp [retPass]
  | (ps, body) :: bs, i, sigs => by
      simp only [retPass]
      split
      · split
        · exact retPass_true env makes bs _ _
        · exact retPass_true env makes bs _ _
      · exact retPass_true env makes bs _ _

/-- A round that reports no change changed nothing. -/
theorem retPass_false (env : Env) (makes : List Bytes) :
    ∀ (bodies : List (List Param × Block)) (i : Nat) (sigs : List FnSig) (ch : Bool),
      (retPass env makes bodies i sigs ch).2 = false → ch = false ∧ (retPass env makes bodies i sigs ch).1 = sigs
  | [], _, _, ch, h => by simpa [retPass] using h
  | (ps, body) :: bs, i, sigs, ch, h => by
      simp only [retPass] at h ⊢
      cases hg : sigs[i]? with
      | none =>
        simp only [hg] at h ⊢
        exact retPass_false env makes bs _ _ _ h
      | some g =>
        simp only [hg] at h ⊢
        cases heq : (g.ret == inferRet { env with fns := sigs :: env.fns } (shadowOf env makes ps body) body)
        · rw [heq] at h
          simp only [Bool.false_eq_true, if_false] at h
          rw [retPass_true] at h; exact absurd h (by simp)
        · rw [heq] at h
          simp only [if_true] at h ⊢
          exact retPass_false env makes bs _ _ _ h

theorem modifyAt_cons_succ {α : Type} (a : α) (as : List α) (n : Nat) (f : α → α) :
    modifyAt (a :: as) (n + 1) f = a :: modifyAt as n f := rfl

theorem modifyAt_names (sigs : List FnSig) (i : Nat) (rt : VType) :
    (modifyAt sigs i (fun g => { g with ret := rt })).map (·.name) = sigs.map (·.name) :=
  modifyAt_map_key (·.name) (fun g => { g with ret := rt }) (fun _ => rfl) sigs i

/-- One signature with the result type `rt`, as the return-type loop leaves it. -/
def setRet (sigs : List FnSig) (i : Nat) (g : FnSig) (rt : VType) : List FnSig :=
  if g.ret == rt then sigs else modifyAt sigs i (fun g => { g with ret := rt })

/-- The in-place update of one signature, on the table of (name, result type). -/
theorem update_key2 (rt : VType) (name : Bytes) : ∀ (sigs : List FnSig) (i : Nat),
    (sigs.map (·.name))[i]? = some name →
    ∃ g, sigs[i]? = some g ∧ (setRet sigs i g rt).map key2 = setAt (sigs.map key2) i (name, rt)
  | [], i, h => by simp at h
  | g :: gs, 0, h => by
      simp only [List.map_cons, List.getElem?_cons_zero, Option.some.injEq] at h
      refine ⟨g, rfl, ?_⟩
      unfold setRet
      by_cases hr : g.ret = rt
      · simp [hr, key2, setAt, ← h]
      · have : (g.ret == rt) = false := by simpa using hr
        simp [this, modifyAt, key2, setAt, h]
  | g :: gs, i + 1, h => by
      simp only [List.map_cons, List.getElem?_cons_succ] at h
      obtain ⟨g', hg', he⟩ := update_key2 rt name gs i h
      refine ⟨g', by simpa using hg', ?_⟩
      unfold setRet at he ⊢
      cases hr : (g'.ret == rt)
      · rw [hr] at he
        simp only [Bool.false_eq_true, if_false] at he ⊢
        simp only [modifyAt_cons_succ, List.map_cons, setAt]
        rw [he]
      · rw [hr] at he
        simp only [if_true] at he ⊢
        simp only [List.map_cons, setAt]
        rw [← he]

theorem drop_cons_getElem? {α : Type} {l : List α} {i : Nat} {a : α} {tl : List α} (h : l.drop i = a :: tl) :
    l[i]? = some a ∧ l.drop (i + 1) = tl := by
  constructor
  · have := congrArg List.head? h
    simpa [List.head?_drop] using this
  · have := congrArg List.tail h
    simpa [List.tail_drop] using this

theorem retPass_round (env : Env) (te : TEnv) (makes : List Bytes) (hsh : env.shadowRet = true)
    (hV : ∀ x, tLookup te.vars x = (lookupScopes env.vars x).map (·.ty))
    (hF : ∀ x, tLookup te.fns x = (lookupFns env.fns x).map (·.ret)) :
    ∀ (bodies : List (List Param × Block)) (defs : List (Bytes × List Bytes × Block)) (i : Nat)
      (sigs : List FnSig) (ch : Bool),
      bodies.map (fun pb => (pb.1.map (·.name), pb.2)) = defs.map (fun d => (d.2.1, d.2.2)) →
      (sigs.map (·.name)).drop i = defs.map (·.1) →
      roundOk te makes defs i (sigs.map key2) = true →
      (retPass env makes bodies i sigs ch).1.map key2 = tableRound te makes defs i (sigs.map key2) ∧
      (retPass env makes bodies i sigs ch).1.map (·.name) = sigs.map (·.name)
  | [], [], _, _, _, _, _, _ => by simp [retPass, tableRound]
  | [], _ :: _, _, _, _, hb, _, _ => by simp at hb
  | _ :: _, [], _, _, _, hb, _, _ => by simp at hb
  | (ps, body) :: bs, (name, pn, body') :: ds, i, sigs, ch, hb, hn, hok => by
      simp only [List.map_cons, List.cons.injEq, Prod.mk.injEq] at hb
      obtain ⟨⟨hps, hbody⟩, hbs⟩ := hb
      subst hbody
      subst hps
      simp only [List.map_cons] at hn
      obtain ⟨hni, hnt⟩ := drop_cons_getElem? hn
      simp only [roundOk, Bool.and_eq_true] at hok
      obtain ⟨hok1, hok2⟩ := hok
      -- the function's result type, on both sides
      have hrt : inferRet { env with fns := sigs :: env.fns } (shadowOf env makes ps body) body
          = commonType (retTypesB (retEnv te (sigs.map key2) makes (ps.map (·.name)) body) body) := by
        rw [inferRet_eq, collectRetsB_eq _ _ _ _ (relSh_retEnv env te hsh hV hF sigs makes ps body) body hok1]
      obtain ⟨g, hg, hup⟩ := update_key2
        (commonType (retTypesB (retEnv te (sigs.map key2) makes (ps.map (·.name)) body) body)) name sigs i hni
      simp only [retPass, tableRound, hrt, hg]
      unfold setRet at hup
      cases hr : (g.ret == commonType (retTypesB (retEnv te (sigs.map key2) makes (ps.map (·.name)) body) body))
      · rw [hr] at hup
        simp only [Bool.false_eq_true, if_false] at hup ⊢
        rw [← hup] at hok2 ⊢
        have := retPass_round env te makes hsh hV hF bs ds (i + 1)
          (modifyAt sigs i (fun g => { g with ret := commonType (retTypesB (retEnv te (sigs.map key2) makes (ps.map (·.name)) body) body) }))
          true hbs (by rw [modifyAt_names]; exact hnt) hok2
        rw [modifyAt_names] at this
        exact this
      · rw [hr] at hup
        simp only [if_true] at hup ⊢
        rw [← hup] at hok2 ⊢
        exact retPass_round env te makes hsh hV hF bs ds (i + 1) sigs ch hbs hnt hok2

/-! ### The rounds -/

theorem tableIter_fix (te : TEnv) (makes : List Bytes) (defs : List (Bytes × List Bytes × Block)) (tab : FnTable)
    (h : tableRound te makes defs 0 tab = tab) : ∀ n, tableIter te makes defs n tab = tab
  | 0 => rfl
  | n + 1 => by simp only [tableIter, h]; exact tableIter_fix te makes defs tab h n

theorem retIter_table (env : Env) (te : TEnv) (makes : List Bytes) (hsh : env.shadowRet = true)
    (hV : ∀ x, tLookup te.vars x = (lookupScopes env.vars x).map (·.ty))
    (hF : ∀ x, tLookup te.fns x = (lookupFns env.fns x).map (·.ret))
    (bodies : List (List Param × Block)) (defs : List (Bytes × List Bytes × Block))
    (hb : bodies.map (fun pb => (pb.1.map (·.name), pb.2)) = defs.map (fun d => (d.2.1, d.2.2))) :
    ∀ (n : Nat) (sigs : List FnSig), sigs.map (·.name) = defs.map (·.1) →
      iterOk te makes defs n (sigs.map key2) = true →
      (retIter env makes bodies n sigs).map key2 = tableIter te makes defs n (sigs.map key2)
  | 0, sigs, _, _ => by simp [retIter, tableIter]
  | n + 1, sigs, hn, hok => by
      simp only [iterOk, Bool.and_eq_true] at hok
      obtain ⟨hr, hnm⟩ := retPass_round env te makes hsh hV hF bodies defs 0 sigs false hb (by simpa using hn) hok.1
      simp only [retIter, tableIter]
      split
      · rw [retIter_table env te makes hsh hV hF bodies defs hb n _ (by rw [hnm]; exact hn) (by rw [hr]; exact hok.2), hr]
      · next hch =>
        have hsame := (retPass_false env makes bodies 0 sigs false (by simpa using hch)).2
        rw [hsame] at hr ⊢
        rw [← hr, tableIter_fix te makes defs _ hr.symm n]

/-! ### `predeclare` collects the block's first definitions -/

theorem findFn_append_none (sigs : List FnSig) (g : FnSig) (x : Bytes) (h : findFn sigs x = none) :
    findFn (sigs ++ [g]) x = if g.name == x then some g else none := by
  simp only [findFn, List.find?_append] at h ⊢
  simp [h, List.find?_cons]
  split <;> simp_all

theorem predeclare_defs (env : Env) : ∀ (ss : List Stmt) (sigs : List FnSig) (f : Facts) (seen : List Bytes),
    (∀ x, seen.contains x = (findFn sigs x).isSome) →
    (predeclare env ss sigs f).sigs.map key2
        = sigs.map key2 ++ (blockDefs ss seen).map (fun d => (d.1, VType.dynamic)) ∧
    (predeclare env ss sigs f).bodies.map (fun pb => (pb.1.map (·.name), pb.2))
        = (blockDefs ss seen).map (fun d => (d.2.1, d.2.2))
  | [], _, _, _, _ => by simp [predeclare, blockDefs]
  | .fnDef name nsp ps body _ _ _ :: rest, sigs, f, seen, hs => by
      simp only [predeclare, blockDefs]
      have hn := hs name
      cases h : findFn sigs name with
      | some ex =>
        simp only [h, Option.isSome_some] at hn
        simp only [hn, if_true]
        exact predeclare_defs env rest sigs f seen hs
      | none =>
        simp only [h, Option.isSome_none] at hn
        simp only [hn, Bool.false_eq_true, if_false]
        have hs' : ∀ x, (name :: seen).contains x = (findFn (sigs ++ [⟨name, f.functions.length, ps.length, nsp, .dynamic⟩]) x).isSome := by
          intro x
          rw [findFn_append_single, ← hs x]
          simp only [List.contains_cons]
          rw [Bool.or_comm]
          congr 1
          cases hx : x == name <;> cases hx' : name == x <;> simp_all
        obtain ⟨h1, h2⟩ := predeclare_defs env rest _ (pushFunction f name ps.length env.owner env.scope) (name :: seen) hs'
        constructor
        · rw [h1]; simp [key2]
        · simp only [List.map_cons, h2]
  | .assign .. :: rest, sigs, f, seen, hs => by simp only [predeclare, blockDefs]; exact predeclare_defs env rest sigs f seen hs
  | .assignExisting .. :: rest, sigs, f, seen, hs => by simp only [predeclare, blockDefs]; exact predeclare_defs env rest sigs f seen hs
  | .assignIndex .. :: rest, sigs, f, seen, hs => by simp only [predeclare, blockDefs]; exact predeclare_defs env rest sigs f seen hs
  | .ifS .. :: rest, sigs, f, seen, hs => by simp only [predeclare, blockDefs]; exact predeclare_defs env rest sigs f seen hs
  | .loop .. :: rest, sigs, f, seen, hs => by simp only [predeclare, blockDefs]; exact predeclare_defs env rest sigs f seen hs
  | .block .. :: rest, sigs, f, seen, hs => by simp only [predeclare, blockDefs]; exact predeclare_defs env rest sigs f seen hs
  | .ret .. :: rest, sigs, f, seen, hs => by simp only [predeclare, blockDefs]; exact predeclare_defs env rest sigs f seen hs
  | .brk .. :: rest, sigs, f, seen, hs => by simp only [predeclare, blockDefs]; exact predeclare_defs env rest sigs f seen hs
  | .cont .. :: rest, sigs, f, seen, hs => by simp only [predeclare, blockDefs]; exact predeclare_defs env rest sigs f seen hs
  | .expr .. :: rest, sigs, f, seen, hs => by simp only [predeclare, blockDefs]; exact predeclare_defs env rest sigs f seen hs

/-- **Result types**: the signatures `check_block` ends up with carry the result types of the
specification's table, when every `return` expression is well typed where it is typed. -/
theorem block_table (env : Env) (te : TEnv) (hsh : env.shadowRet = true)
    (hV : ∀ x, tLookup te.vars x = (lookupScopes env.vars x).map (·.ty))
    (hF : ∀ x, tLookup te.fns x = (lookupFns env.fns x).map (·.ret))
    (ss : List Stmt) (f : Facts) (hok : tableOk te ss = true) :
    (retIter env (ownMakes ss) (predeclare env ss [] f).bodies (predeclare env ss [] f).bodies.length
        (predeclare env ss [] f).sigs).map key2 = fnTable te ss := by
  obtain ⟨h1, h2⟩ := predeclare_defs env ss [] f [] (by intro x; simp [findFn])
  simp only [List.map_nil, List.nil_append] at h1
  have hlen : (predeclare env ss [] f).bodies.length = (blockDefs ss []).length := by
    have := congrArg List.length h2
    simpa using this
  have hnames : (predeclare env ss [] f).sigs.map (·.name) = (blockDefs ss []).map (·.1) := by
    have := congrArg (List.map Prod.fst) h1
    simpa [List.map_map, Function.comp_def, key2] using this
  unfold tableOk at hok
  unfold fnTable
  simp only [] at hok ⊢
  rw [hlen, ownMakes_eq]
  rw [← h1] at hok ⊢
  exact retIter_table env te (blockMakes ss) hsh hV hF _ _ h2 _ _ hnames hok

end NaijaVerif.Resolve
