import NaijaVerif.Lemmas.AnalysisRefineMember2
import NaijaVerif.Lemmas.AnalysisRefineRevMember2
import NaijaVerif.Lemmas.AnalysisLiveTop
/-
BRIDGE, part 15: the refinement theorem in closed form (`bridge_to_eval : BridgeToEval`) and the
executable oracle `orcOf` for its static side conditions, computed from the facts.
-/
namespace NaijaVerif.C03
open NaijaVerif NaijaVerif.Analysis

variable {N : Type} [NumOps N]

/-! ### The plan of the configuration does not matter to the primitive steps -/

theorem memberE_plan (cfg : Eval.RunCfg) (p : Option Eval.Plan) :
    memberE (N := N) { cfg with plan := p } = memberE cfg := by
  funext field recv vs
  cases recv with
  | host h => cases h <;> rfl
  | _ => rfl

theorem evalPrims_plan (cfg : Eval.RunCfg) (p : Option Eval.Plan) (ds ss : Nat → Option Nat) :
    evalPrims (N := N) { cfg with plan := p } ds ss = evalPrims cfg ds ss := by
  simp only [evalPrims, memberE_plan]

/-- **The bridge.**  `BridgeToEval` holds. -/
theorem bridge_to_eval : BridgeToEval := by
  intro N _ cfg ds ss o hl hp hin ho prog plan fuel hok hnf
  let B : Brg := { rc := { cfg with plan := plan.map toEvalPlan }, ds := ds, ss := ss, plan := plan, o := o }
  have hB : B.Ok N := ⟨hl, hp, rfl, ho⟩
  have hP : B.P (N := N) = evalPrims cfg ds ss := evalPrims_plan cfg _ ds ss
  have := bridge_run_full (N := N) hB prog hok hin fuel (by rw [hP]; exact hnf)
  rw [hP] at this
  exact this

/-! ### The converse: `Eval` is refined by the fragment -/

/-- A run of `Eval` that does not exhaust its fuel is matched by the run of the fragment with enough fuel. -/
theorem bridge_run_rev {B : Brg} (hB : B.Ok N) (root : Block) (hok : okBlock B.o root = true) (hin : B.rc.input = [])
    (f : Nat) (hne : evalObs (Eval.run (N := N) B.rc f root) ≠ none) :
    ∃ n, fragObs (AEval.run (B.P (N := N)) B.plan n root) = evalObs (Eval.run (N := N) B.rc f root) := by
  have hne' : Eval.execBlock (N := N) B.rc f root (Eval.State.init B.rc) ≠ .fuel := by
    intro h
    apply hne
    simp only [Eval.run, h, evalObs]
  obtain ⟨a, n0, ha, hG⟩ := (rsim hB f).block root _ _ hok (sim_init B hin) hne'
  refine ⟨n0, ?_⟩
  have hG0 := hG n0 (Nat.le_refl n0)
  simp only at hG0
  simp only [AEval.run, Eval.run]
  rw [show AEval.Cfg.ofPlan B.plan = B.ac from rfl, hG0]
  generalize Eval.execBlock (N := N) B.rc f root (Eval.State.init B.rc) = r at ha hne'
  rcases a with ⟨er | fl, t1⟩
  · have he : ErrSim er t1 r := ha
    cases r with
    | ok _ _ => cases he
    | fuel => cases he
    | err k sp s1 =>
      obtain ⟨hk, hout⟩ := he
      rcases hk with rfl | ⟨rfl, rfl⟩ <;> simp [evalObs, fragObs, hout]
    | panic site s1 =>
      obtain ⟨rfl, hout⟩ := he
      simp [evalObs, fragObs, hout]
  · obtain ⟨y, s1, rfl, _, hs1⟩ := (show ∃ y s', r = .ok y s' ∧ FlowSim fl y ∧ B.Sim s' t1 from ha)
    simp [evalObs, fragObs, hs1.out]

/-- The converse of `BridgeToEval`: every run of `Eval` (declaring-scope lookup, current code, no input)
on an annotated program that does not exhaust its fuel is the run of the fragment for some fuel. -/
theorem bridge_from_eval (cfg : Eval.RunCfg) (ds ss : Nat → Option Nat) (o : Orc)
    (hl : cfg.lookup = .dynamic) (hp : cfg.panics = false) (hin : cfg.input = []) (ho : OrcOk N ds ss o)
    (prog : Block) (plan : Option Analysis.Plan) (f : Nat) (hok : okBlock o prog = true)
    (hne : evalObs (Eval.run (N := N) { cfg with plan := plan.map toEvalPlan } f prog) ≠ none) :
    ∃ n, fragObs (AEval.run (evalPrims (N := N) cfg ds ss) plan n prog) =
      evalObs (Eval.run (N := N) { cfg with plan := plan.map toEvalPlan } f prog) := by
  let B : Brg := { rc := { cfg with plan := plan.map toEvalPlan }, ds := ds, ss := ss, plan := plan, o := o }
  have hB : B.Ok N := ⟨hl, hp, rfl, ho⟩
  have hP : B.P (N := N) = evalPrims cfg ds ss := evalPrims_plan cfg _ ds ss
  have := bridge_run_rev (N := N) hB prog hok hin f hne
  rw [hP] at this
  exact this

/-! ### The oracle, from the facts -/

/-- Executable form of `TagOk` when `ds` is `none` from `nloc` on. -/
def tagOkB (nloc : Nat) (ds : Nat → Option Nat) (tag : Option Nat) (decls : List Nat) : Bool :=
  decls.all (fun l => tag.isSome && ds l == tag) &&
    (List.range nloc).all (fun l => !(tag.isSome && ds l == tag) || decls.contains l)

theorem tagOkB_sound {nloc : Nat} {ds : Nat → Option Nat} (hds : ∀ l, nloc ≤ l → ds l = none) {tag : Option Nat}
    {decls : List Nat} (h : tagOkB nloc ds tag decls = true) : TagOk ds tag decls := by
  simp only [tagOkB, Bool.and_eq_true, List.all_eq_true, List.mem_range, Bool.or_eq_true, Bool.not_eq_true',
    beq_iff_eq] at h
  intro l
  constructor
  · intro hl
    have := h.1 l (by simpa using hl)
    cases tag with
    | none => simp at this
    | some tg => exact ⟨tg, by simpa using this, rfl⟩
  · rintro ⟨tg, hd, rfl⟩
    have hlt : l < nloc := by
      rcases Nat.lt_or_ge l nloc with hlt | hge
      · exact hlt
      · rw [hds l hge] at hd
        cases hd
    rcases h.2 l hlt with h' | h'
    · simp [hd] at h'
    · exact h'

/-- The oracle computed from the facts; `numOk` says which number lexemes parse. -/
def orcOf (numOk : Bytes → Bool) (facts : Facts) (members : Bool := true) : Orc where
  num := numOk
  blk := fun stmts =>
    tagOkB facts.locals.length (declScopeOf facts) (AEval.blockTag (stmtScopeOf facts) stmts) (Eval.declIds stmts) &&
      decide (Eval.fnIdsOf stmts).Nodup
  par := fun ps =>
    ps.all (fun p => p.bind.isSome) && decide (ps.filterMap (·.bind)).Nodup &&
      tagOkB facts.locals.length (declScopeOf facts) (AEval.paramTag (declScopeOf facts) ps) (ps.filterMap (·.bind))
  members := members

theorem declScopeOf_none (facts : Facts) (l : Nat) (h : facts.locals.length ≤ l) : declScopeOf facts l = none := by
  simp [declScopeOf, List.getElem?_eq_none h]

theorem orcOf_ok (numOk : Bytes → Bool) (facts : Facts) (members : Bool)
    (hnum : ∀ lex, numOk lex = true → ∃ n : N, NumOps.ofLit lex = some n) :
    OrcOk N (declScopeOf facts) (stmtScopeOf facts) (orcOf numOk facts members) where
  num := hnum
  blk := by
    intro stmts h
    simp only [orcOf, Bool.and_eq_true, decide_eq_true_eq] at h
    exact ⟨tagOkB_sound (declScopeOf_none facts) h.1, h.2⟩
  par := by
    intro ps h
    simp only [orcOf, Bool.and_eq_true, decide_eq_true_eq, List.all_eq_true] at h
    exact ⟨h.1.1, h.1.2, tagOkB_sound (declScopeOf_none facts) h.2⟩

end NaijaVerif.C03
