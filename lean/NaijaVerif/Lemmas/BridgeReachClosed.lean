import NaijaVerif.Lemmas.AnalysisLiveOk
import NaijaVerif.Lemmas.AnalysisBase
/-
Bridge resolver → evaluator, part 5e: the fixpoint iteration of `bodyReachable` CONVERGES.

`Ctx.bodyReachable = iter bodyReachStep nFns [0]` (diagnostics.rs `compute_function_reachability`)
runs `nFns` rounds.  A round only conses new ids onto the front of the list (`uni`/`ins`), the list
stays duplicate free, and every id it adds is a direct callee recorded in the facts of some statement.
When those are function ids (`calleesInRange`: below `nFns` — one conjunct of `Analysis.wf`), a round
that adds something makes a duplicate-free list of numbers below `nFns` strictly longer, which can
happen at most `nFns - 1` times from `[0]`; a round that adds nothing leaves the list as it is, for
ever.  So after `nFns` rounds the set is closed: `Ctx.brClosed` — the second half of
`FactsCoverCalls` (`Props/C06Accepted.lean`) — is a THEOREM about the analysis model, for all facts
with callee ids in range.
-/
namespace NaijaVerif.Bridge
open NaijaVerif NaijaVerif.Analysis NaijaVerif.C03

/-- Every direct callee recorded in the facts of a statement is a function id.  (A conjunct of
`Analysis.wf`.) -/
def calleesInRange (facts : Facts) : Bool :=
  facts.stmtEffects.all (fun e => e.directCallees.all (· < facts.functions.length))

/-! ### `ins` / `uni` on duplicate-free lists -/

theorem ins_suffix (x : Nat) (s : List Nat) : ∃ l, ins x s = l ++ s := by
  simp only [ins]
  split
  · exact ⟨[], rfl⟩
  · exact ⟨[x], rfl⟩

theorem ins_nodup {x : Nat} {s : List Nat} (h : s.Nodup) : (ins x s).Nodup := by
  simp only [ins]
  split
  · exact h
  · next hx => exact List.nodup_cons.2 ⟨by simpa using hx, h⟩

theorem uni_suffix (a b : List Nat) : ∃ l, uni a b = l ++ b := by
  induction a with
  | nil => exact ⟨[], rfl⟩
  | cons x xs ih =>
    obtain ⟨l, hl⟩ := ih
    have e : uni (x :: xs) b = ins x (uni xs b) := rfl
    obtain ⟨l', hl'⟩ := ins_suffix x (uni xs b)
    exact ⟨l' ++ l, by rw [e, hl', hl, List.append_assoc]⟩

theorem uni_nodup (a : List Nat) {b : List Nat} (h : b.Nodup) : (uni a b).Nodup := by
  induction a with
  | nil => exact h
  | cons x xs ih =>
    have e : uni (x :: xs) b = ins x (uni xs b) := rfl
    rw [e]; exact ins_nodup ih

theorem uni_eq_self {a b : List Nat} (h : ∀ x ∈ a, x ∈ b) : uni a b = b := by
  induction a with
  | nil => rfl
  | cons x xs ih =>
    have e : uni (x :: xs) b = ins x (uni xs b) := rfl
    rw [e, ih (fun y hy => h y (List.mem_cons_of_mem _ hy))]
    have : b.contains x = true := by simpa using h x List.mem_cons_self
    simp only [ins, this, if_true]

/-! ### One fold over the rows -/

section fold
variable {α : Type} (P : α → Bool) (A : α → List Nat)

/-- The fold of `bodyReachStep` with the test `P` and the callee lists `A` made abstract. -/
def addAll (rows : List α) (s : List Nat) : List Nat :=
  rows.foldl (fun acc r => if P r then uni (A r) acc else acc) s

theorem addAll_suffix : ∀ (rows : List α) (s : List Nat), ∃ l, addAll P A rows s = l ++ s
  | [], s => ⟨[], rfl⟩
  | r :: rows, s => by
      simp only [addAll, List.foldl_cons]
      split
      · obtain ⟨l1, h1⟩ := uni_suffix (A r) s
        obtain ⟨l2, h2⟩ := addAll_suffix rows (uni (A r) s)
        refine ⟨l2 ++ l1, ?_⟩
        simp only [addAll] at h2
        rw [h2, h1, List.append_assoc]
      · exact addAll_suffix rows s

theorem addAll_nodup : ∀ (rows : List α) (s : List Nat), s.Nodup → (addAll P A rows s).Nodup
  | [], _, h => h
  | r :: rows, s, h => by
      simp only [addAll, List.foldl_cons]
      split
      · exact addAll_nodup rows _ (uni_nodup _ h)
      · exact addAll_nodup rows _ h

theorem mem_addAll {x : Nat} : ∀ (rows : List α) (s : List Nat),
    x ∈ addAll P A rows s ↔ x ∈ s ∨ ∃ r ∈ rows, P r = true ∧ x ∈ A r
  | [], s => by simp [addAll]
  | r :: rows, s => by
      simp only [addAll, List.foldl_cons]
      have ih := fun s' => mem_addAll (x := x) rows s'
      simp only [addAll] at ih
      split
      · next hp =>
        rw [ih, mem_uni_iff]
        constructor
        · rintro ((h | h) | ⟨r', hr', h⟩)
          · exact Or.inr ⟨r, List.mem_cons_self, hp, h⟩
          · exact Or.inl h
          · exact Or.inr ⟨r', List.mem_cons_of_mem _ hr', h⟩
        · rintro (h | ⟨r', hr', h⟩)
          · exact Or.inl (Or.inr h)
          · rcases List.mem_cons.1 hr' with rfl | hr'
            · exact Or.inl (Or.inl h.2)
            · exact Or.inr ⟨r', hr', h⟩
      · next hp =>
        rw [ih]
        constructor
        · rintro (h | ⟨r', hr', h⟩)
          · exact Or.inl h
          · exact Or.inr ⟨r', List.mem_cons_of_mem _ hr', h⟩
        · rintro (h | ⟨r', hr', h⟩)
          · exact Or.inl h
          · rcases List.mem_cons.1 hr' with rfl | hr'
            · rw [h.1] at hp; exact absurd rfl hp
            · exact Or.inr ⟨r', hr', h⟩

theorem addAll_eq_self : ∀ (rows : List α) (s : List Nat),
    (∀ r ∈ rows, P r = true → ∀ x ∈ A r, x ∈ s) → addAll P A rows s = s
  | [], _, _ => rfl
  | r :: rows, s, h => by
      simp only [addAll, List.foldl_cons]
      have ih := addAll_eq_self rows s (fun r' hr' => h r' (List.mem_cons_of_mem _ hr'))
      simp only [addAll] at ih
      split
      · next hp => rw [uni_eq_self (h r List.mem_cons_self hp)]; exact ih
      · exact ih

end fold

/-! ### The iteration -/

theorem iter_fixed {α : Type} (f : α → α) {x : α} (h : f x = x) : ∀ n, iter f n x = x
  | 0 => rfl
  | n + 1 => by simp only [iter, h]; exact iter_fixed f h n

/-- Pigeonhole: a duplicate-free list of numbers below `n` has at most `n` elements. -/
theorem length_le_of_nodup_lt {l : List Nat} {n : Nat} (hn : l.Nodup) (hlt : ∀ x ∈ l, x < n) :
    l.length ≤ n := by
  have h := List.Nodup.length_le_of_subset (l₂ := List.range n) hn
    (fun x hx => List.mem_range.mpr (hlt x hx))
  simpa using h

section iteration
variable (c : Ctx)

theorem bodyReachStep_eq (s : List Nat) :
    c.bodyReachStep s = addAll (fun r => r.live && s.contains (c.fnOf r.sid)) (fun r => c.callees r.sid) c.rows s := rfl

/-- `s` is closed under the calls of the reachable statements of its functions. -/
def ClosedAt (s : List Nat) : Prop :=
  ∀ r ∈ c.rows, (r.live && s.contains (c.fnOf r.sid)) = true → ∀ g ∈ c.callees r.sid, g ∈ s

theorem closedAt_of_fixed {s : List Nat} (h : c.bodyReachStep s = s) : ClosedAt c s := by
  intro r hr hp g hg
  rw [← h, bodyReachStep_eq, mem_addAll]
  exact Or.inr ⟨r, hr, hp, hg⟩

theorem fixed_of_closedAt {s : List Nat} (h : ClosedAt c s) : c.bodyReachStep s = s := by
  rw [bodyReachStep_eq]; exact addAll_eq_self _ _ _ _ h

/-- A round either changes nothing or makes the list longer. -/
theorem bodyReachStep_grows (s : List Nat) :
    c.bodyReachStep s = s ∨ s.length < (c.bodyReachStep s).length := by
  obtain ⟨l, hl⟩ := addAll_suffix (fun r => r.live && s.contains (c.fnOf r.sid)) (fun r => c.callees r.sid) c.rows s
  rw [← bodyReachStep_eq] at hl
  cases l with
  | nil => exact Or.inl hl
  | cons a l => right; rw [hl]; simp only [List.cons_append, List.length_cons, List.length_append]; omega

variable {c} (N : Nat) (hA : ∀ sid, ∀ g ∈ c.callees sid, g < N)
include hA

theorem bodyReachStep_lt {s : List Nat} (hs : ∀ x ∈ s, x < N) : ∀ x ∈ c.bodyReachStep s, x < N := by
  intro x hx
  rw [bodyReachStep_eq, mem_addAll] at hx
  rcases hx with hx | ⟨r, _, _, hx⟩
  · exact hs x hx
  · exact hA _ x hx

/-- After `n` rounds from a duplicate-free list of ids below `N` with at least `N - n` elements the
iteration has reached a fixed point. -/
theorem iter_bodyReachStep_fixed : ∀ (n : Nat) (s : List Nat), s.Nodup → (∀ x ∈ s, x < N) → N ≤ s.length + n →
    c.bodyReachStep (iter c.bodyReachStep n s) = iter c.bodyReachStep n s
  | 0, s, hn, hlt, hlen => by
      simp only [iter]
      rcases bodyReachStep_grows c s with h | h
      · exact h
      · have h1 : (c.bodyReachStep s).Nodup := by rw [bodyReachStep_eq]; exact addAll_nodup _ _ _ _ hn
        have := length_le_of_nodup_lt h1 (bodyReachStep_lt N hA hlt)
        omega
  | n + 1, s, hn, hlt, hlen => by
      simp only [iter]
      rcases bodyReachStep_grows c s with h | h
      · rw [h, iter_fixed _ h n]; exact h
      · have h1 : (c.bodyReachStep s).Nodup := by rw [bodyReachStep_eq]; exact addAll_nodup _ _ _ _ hn
        exact iter_bodyReachStep_fixed n _ h1 (bodyReachStep_lt N hA hlt) (by omega)

end iteration

theorem callees_lt {root : Block} {facts : Facts} (h : calleesInRange facts = true) :
    ∀ sid, ∀ g ∈ (mkCtx root facts).callees sid, g < facts.functions.length := by
  intro sid g hg
  simp only [Ctx.callees, Ctx.eff?, mkCtx] at hg
  cases he : facts.stmtEffects[sid]? with
  | none => simp [he] at hg
  | some e =>
    simp only [he] at hg
    simp only [calleesInRange, List.all_eq_true, decide_eq_true_eq] at h
    exact h e (List.mem_of_getElem? he) g hg

/-- **The fixpoint iteration of `bodyReachable` has converged after `nFns` rounds** — for every
program and all facts whose recorded callees are function ids. -/
theorem bodyReachable_closed_of_range (root : Block) (facts : Facts) (h : calleesInRange facts = true) :
    (mkCtx root facts).brClosed = true := by
  have hA := callees_lt (root := root) h
  have hcl : ClosedAt (mkCtx root facts) (mkCtx root facts).bodyReachable := by
    cases hN : facts.functions.length with
    | zero =>
      -- no function id at all: every callee list is empty
      intro r _ _ g hg
      have := hA _ g hg
      omega
    | succ m =>
      apply closedAt_of_fixed
      have hn : (mkCtx root facts).nFns = facts.functions.length := rfl
      simp only [Ctx.bodyReachable, hn]
      exact iter_bodyReachStep_fixed facts.functions.length hA _ [0] (by simp) (by simp; omega) (by simp)
  simp only [Ctx.brClosed, List.all_eq_true, Bool.or_eq_true, Bool.not_eq_true']
  intro r hr
  cases hp : (r.live && (mkCtx root facts).bodyReachable.contains ((mkCtx root facts).fnOf r.sid)) with
  | false => exact Or.inl rfl
  | true =>
    right
    intro g hg
    simpa using hcl r hr hp g hg

theorem calleesInRange_of_wf {root : Block} {facts : Facts} (h : wf root facts = true) :
    calleesInRange facts = true := by
  simp only [wf, Bool.and_eq_true, List.all_eq_true, decide_eq_true_eq] at h
  simp only [calleesInRange, List.all_eq_true, decide_eq_true_eq]
  intro e he g hg
  exact (h.1.1.1.1.2 e he).2 g hg

/-- **`brClosed` for well-formed facts** (`Analysis.wf`: what the driver checks before anything
else; the part used is `calleesInRange`). -/
theorem bodyReachable_closed (root : Block) (facts : Facts) (h : wf root facts = true) :
    (mkCtx root facts).brClosed = true :=
  bodyReachable_closed_of_range root facts (calleesInRange_of_wf h)

end NaijaVerif.Bridge
