import NaijaVerif.Lemmas.AnalysisLive
import NaijaVerif.Lemmas.AnalysisNoTrap
/-
Static side of the liveness simulation: the (decidable, executable) conditions `lokListB` under
which a plan is covered by `c03_live`.  They say, statement by statement along the very walk the
liveness model `lvStmts` makes,

* the facts of the statement cover what its expressions do (`efitList`: own variables read are in
  `reads` and declared by a scope of the lexical chain `σ`, captured variables are in the function's
  transitive capture reads and declared outside the chain, user calls are among the callees),
* `writes` is the target of a store to an own variable, nothing for a store to a captured one, and
  only adds read variables for every other statement,
* a skipped statement is unreachable, or a store whose initialiser is quiet (`q`) and whose target
  is not live afterwards (in the model's own live set) or never read at all (`D2`); a skipped
  declaration moreover has no reference to its variable in the rest of its scope (`noRefB`),
* every loop fixpoint converged (`subset (head x) x`), no scope is instantiated twice along a
  lexical chain and every scope of the chain belongs to the function.
-/
namespace NaijaVerif.C03
open NaijaVerif NaijaVerif.Analysis NaijaVerif.AEval

/-! ### Finite sets as lists -/

theorem mem_ins_iff {x i : Nat} {s : List Nat} : i ∈ ins x s ↔ i = x ∨ i ∈ s := by
  simp only [ins]
  split
  · next h =>
    have : x ∈ s := by simpa using h
    constructor
    · exact Or.inr
    · rintro (rfl | h') <;> assumption
  · simp

theorem mem_uni_iff {i : Nat} {a b : List Nat} : i ∈ uni a b ↔ i ∈ a ∨ i ∈ b := by
  induction a with
  | nil => simp [uni]
  | cons x xs ih =>
    have : uni (x :: xs) b = ins x (uni xs b) := rfl
    rw [this, mem_ins_iff, ih]
    simp only [List.mem_cons]
    constructor
    · rintro (h | h | h)
      · exact Or.inl (Or.inl h)
      · exact Or.inl (Or.inr h)
      · exact Or.inr h
    · rintro ((h | h) | h)
      · exact Or.inl h
      · exact Or.inr (Or.inl h)
      · exact Or.inr (Or.inr h)

theorem mem_dif_iff {i : Nat} {a b : List Nat} : i ∈ dif a b ↔ i ∈ a ∧ i ∉ b := by
  simp [dif]

theorem mem_inter_iff {i : Nat} {a b : List Nat} : i ∈ inter a b ↔ i ∈ a ∧ i ∈ b := by
  simp [inter]

theorem subset_iff {a b : List Nat} : subset a b = true ↔ ∀ i ∈ a, i ∈ b := by
  simp [subset]

/-! ### The static setting -/

structure LSetup where
  c : Ctx
  T : List (Nat × Bool)
  cfg : Cfg
  /-- locals no reachable statement of a body-reachable function reads, directly or through a callee -/
  D2 : Nat → Bool
  /-- declaring scope of a local (`Prims.dscope`) -/
  ds : Nat → Option Nat
  /-- scope of a statement (`Prims.sscope`) -/
  ss : Nat → Option Nat
  /-- sound test for a quiet initialiser of a statement of function `f` -/
  q : Nat → Expr → Bool
  /-- the model's unused-assignment verdicts (`Ctx.unusedAsg`) -/
  ua : List Nat
  /-- the model's unused-variable verdicts (`Ctx.unusedVars`: declaration statement, local) -/
  uv : List (Nat × Nat)

def LSetup.nl (L : LSetup) : Nat := L.c.facts.locals.length
def LSetup.BR (L : LSetup) (g : Nat) : Bool := L.c.bodyReachable.contains g
def LSetup.deadB (L : LSetup) (i : Nat) : Bool := L.T.contains (i, false)

/-- The declaring scope of `x` is instantiated by the chain `σ`. -/
def LSetup.inTags (L : LSetup) (σ : List (Option Nat)) (x : Nat) : Bool :=
  match L.ds x with
  | some tg => σ.contains (some tg)
  | none => false

/-- What the facts must say about a variable a statement `i` of function `f` refers to. -/
def LSetup.varFit (L : LSetup) (f : Nat) (σ : List (Option Nat)) (i x : Nat) : Bool :=
  if L.c.owner x == some f then (L.c.reads i).contains x && L.inTags σ x
  else (L.c.transReads f).contains x && !L.inTags σ x

def LSetup.efitList (L : LSetup) (f : Nat) (σ : List (Option Nat)) (i : Nat) (es : List Expr) : Bool :=
  eOkList (fun g => (L.c.callees i).contains g) (fun x => !L.varFit f σ i x) es

def LSetup.baseB (L : LSetup) (f : Nat) (σ : List (Option Nat)) (i : Nat) (es : List Expr) : Bool :=
  L.c.fnOf i == f && L.efitList f σ i es

/-- `writes` of a statement that is not a store only repeats variables it reads. -/
def LSetup.writesOkB (L : LSetup) (i : Nat) : Bool := subset (L.c.writes i) (L.c.reads i)

/-- A statement that is not a store to an own variable: only skipped when unreachable; and (plan
independent: consistency of the model's verdicts with the program) no unused-assignment or
unused-variable verdict points at it. -/
def LSetup.otherB (L : LSetup) (i : Nat) : Bool :=
  (!L.cfg.skip i || L.deadB i) && !L.ua.contains i && L.uv.all (fun p => p.1 != i)

/-- Statement `j` does not refer to local `l`, directly or through a callee. -/
def _root_.NaijaVerif.Analysis.Ctx.refFreeB (c : Ctx) (l j : Nat) : Bool :=
  !(c.reads j).contains l && !(c.writes j).contains l &&
  (c.callees j).all (fun g => !(c.transReads g).contains l && !(c.transWrites g).contains l)

mutual
  /-- No reachable statement of the list (nested blocks included, nested function bodies not)
  refers to `l`. -/
  def noRefB (c : Ctx) (l : Nat) : Stmt → Bool
    | .ifS _ (.mk t _) none sid _ => (match sid with | some j => !c.live j || c.refFreeB l j | none => true) && noRefListB c l t
    | .ifS _ (.mk t _) (some (.mk e _)) sid _ =>
        (match sid with | some j => !c.live j || c.refFreeB l j | none => true) && noRefListB c l t && noRefListB c l e
    | .loop _ (.mk b _) sid _ => (match sid with | some j => !c.live j || c.refFreeB l j | none => true) && noRefListB c l b
    | .block (.mk b _) sid _ => (match sid with | some j => !c.live j || c.refFreeB l j | none => true) && noRefListB c l b
    | .fnDef _ _ _ _ _ sid _ | .assign _ _ _ _ sid _ | .assignExisting _ _ _ _ sid _ | .assignIndex _ _ sid _
    | .ret _ sid _ | .brk sid _ | .cont sid _ | .expr _ sid _ =>
        (match sid with | some j => !c.live j || c.refFreeB l j | none => true)
  def noRefListB (c : Ctx) (l : Nat) : List Stmt → Bool
    | [] => true
    | s :: ss => noRefB c l s && noRefListB c l ss
end

def LSetup.scopeOwner (L : LSetup) (tg : Nat) : Option Nat := (L.c.facts.scopes[tg]?).map (·.owner)

/-- A block entered under the chain `σ` in function `f`: its scope is new in the chain and belongs to `f`. -/
def LSetup.blockOkB (L : LSetup) (f : Nat) (σ : List (Option Nat)) (b : List Stmt) : Bool :=
  match blockTag L.ss b with
  | none => true
  | some tg => !σ.contains (some tg) && L.scopeOwner tg == some f

/-! ### Pure functions (interprocedural `PureNoTrap`) -/

/-- The summary of `g` is `PureNoTrap`. -/
def _root_.NaijaVerif.Analysis.Ctx.pureB (c : Ctx) (g : Nat) : Bool := c.transClass g == .pureNoTrap

mutual
  /-- `arityOk` with user calls allowed: only calls of global builtins must have exactly one argument. -/
  def arityOk2 : Expr → Bool
    | .call (.var name _ _) args fn _ => ((fn.isSome && (globalClass name).isNone) || args.length == 1) && arityOk2List args
    | .call (.member o _ _ _) args _ _ => arityOk2 o && arityOk2List args
    | .call _ args _ _ => arityOk2List args
    | .binary _ l r _ => arityOk2 l && arityOk2 r
    | .index a i _ _ => arityOk2 a && arityOk2 i
    | .array es _ => arityOk2List es
    | .unary _ e _ => arityOk2 e
    | .member o _ _ _ => arityOk2 o
    | .str _ _ | .num _ _ | .var _ _ _ | .bool _ _ | .null _ => true
  def arityOk2List : List Expr → Bool
    | [] => true
    | e :: es => arityOk2 e && arityOk2List es
end

/-- The quiet-initialiser test with calls of pure user functions allowed: the fixed classification of
a statement of function `g` says `PureNoTrap`, builtin arities are respected, and every user function
called has a `PureNoTrap` summary. -/
def safe2B (c : Ctx) (g : Nat) (e : Expr) : Bool :=
  decide (classify (fun l => c.owner l != some g) e = .pureNoTrap) && arityOk2 e &&
  eOk (fun h => c.pureB h) (fun _ => false) e

/-- A condition that cannot trap: safe and of literal type bool or null. -/
def condSafeB (c : Ctx) (g : Nat) (e : Expr) : Bool :=
  safe2B c g e && (literalTy e == some .bool || literalTy e == some .null)

mutual
  /-- The body of a function with a `PureNoTrap` summary, as the purity argument needs it: every
  expression is safe, conditions are literally boolean, stores go to the function's own variables
  inside the scopes of the activation (`σ`), no nested definitions, no index assignment. -/
  def pureStmtB (cx : Ctx) (ds sc : Nat → Option Nat) (g : Nat) (σ : List (Option Nat)) : Stmt → Bool
    | .assign _ _ e (some _) (some _) _ => safe2B cx g e
    | .assignExisting _ _ e (some l) (some _) _ => safe2B cx g e && cx.owner l == some g && (match ds l with | some tg => σ.contains (some tg) | none => false)
    | .ifS c (.mk t _) none (some _) _ => condSafeB cx g c && pureBodyB cx ds sc g (blockTag sc t :: σ) t
    | .ifS c (.mk t _) (some (.mk e _)) (some _) _ =>
        condSafeB cx g c && pureBodyB cx ds sc g (blockTag sc t :: σ) t && pureBodyB cx ds sc g (blockTag sc e :: σ) e
    | .loop c (.mk b _) (some _) _ => condSafeB cx g c && pureBodyB cx ds sc g (blockTag sc b :: σ) b
    | .block (.mk b _) (some _) _ => pureBodyB cx ds sc g (blockTag sc b :: σ) b
    | .ret (some e) (some _) _ => safe2B cx g e
    | .ret none (some _) _ | .brk (some _) _ | .cont (some _) _ => true
    | .expr e (some _) _ => safe2B cx g e
    | .assign _ _ _ none _ _ | .assign _ _ _ (some _) none _ | .assignExisting _ _ _ none _ _
    | .assignExisting _ _ _ (some _) none _ | .assignIndex _ _ _ _ | .fnDef _ _ _ _ _ _ _
    | .ifS _ (.mk _ _) none none _ | .ifS _ (.mk _ _) (some (.mk _ _)) none _ | .loop _ (.mk _ _) none _
    | .block (.mk _ _) none _ | .ret (some _) none _ | .ret none none _ | .brk none _ | .cont none _ | .expr _ none _ => false
  def pureBodyB (cx : Ctx) (ds sc : Nat → Option Nat) (g : Nat) (σ : List (Option Nat)) : List Stmt → Bool
    | [] => true
    | s :: ss => pureStmtB cx ds sc g σ s && pureBodyB cx ds sc g σ ss
end

/-- A registered function with a `PureNoTrap` summary has a pure body. -/
def LSetup.pureFnB (L : LSetup) (g : Nat) (ps : List Param) (body : List Stmt) : Bool :=
  !L.c.pureB g || pureBodyB L.c L.ds L.ss g [blockTag L.ss body, paramTag L.ds ps] body

/-- Consistency of the model's tables and verdicts with THIS occurrence of the store `i` (plan
independent): the row kind and the recorded class are the statement's, the builtin arities of the
initialiser are respected, an unused-assignment verdict for `i` means the target is not live after
this occurrence, an unused-variable verdict for `i` concerns this target, and a declaration the
model calls removable has no reference to its variable in the rest of its scope. -/
def LSetup.storeTabB (L : LSetup) (f i : Nat) (isDecl : Bool) (l : Nat) (e : Expr) (st : LS) (rest : List Stmt) : Bool :=
  ((L.c.row? i).map (·.kind) == some (if isDecl then Kind.assign else Kind.assignExisting)) &&
  (L.c.clsOf i == classify (fun x => L.c.owner x != some f) e) &&
  arityOk2 e &&
  (!L.ua.contains i || !st.live.contains l) &&
  L.uv.all (fun p => p.1 != i || p.2 == l) &&
  (!isDecl || !L.c.declRemovable l i || noRefListB L.c l rest)

/-- Rule for `make l get e` (`isDecl`) / `l get e` to an own variable `l`, `st` = liveness state after it. -/
def LSetup.ownStoreB (L : LSetup) (f : Nat) (σ : List (Option Nat)) (i : Nat) (isDecl : Bool) (l : Nat) (e : Expr)
    (st : LS) (rest : List Stmt) : Bool :=
  L.c.writes i == [l] &&
  (if isDecl then (match L.ds l with | some tg => σ.head? == some (some tg) | none => false) else L.inTags σ l) &&
  L.storeTabB f i isDecl l e st rest &&
  (!L.cfg.skip i || L.deadB i ||
    (L.q f e && (!st.live.contains l || L.D2 l) && (!isDecl || noRefListB L.c l rest)))

mutual
  /-- `s` is a statement of function `f` under the lexical chain `σ` and loop context `lc`; `st` is
  the liveness state after it and `rest` the statements that follow it in its block. -/
  def lokB (L : LSetup) (f : Nat) (σ : List (Option Nat)) (lc : LoopCtx) : Stmt → LS → List Stmt → Bool
    | .assign _ _ e b (some i) _, st, rest =>
        L.baseB f σ i [e] &&
        (match b with
         | some l => L.c.owner l == some f && L.ownStoreB f σ i true l e st rest
         | none => L.otherB i)
    | .assignExisting _ _ e b (some i) _, st, rest =>
        L.baseB f σ i [e] &&
        (match b with
         | some l =>
            if L.c.owner l == some f then L.ownStoreB f σ i false l e st rest
            else (L.c.writes i).isEmpty && (L.c.transWrites f).contains l && !L.inTags σ l && L.otherB i
         | none => L.otherB i)
    | .assignIndex t e (some i) _, _, _ => L.baseB f σ i [t, e] && L.writesOkB i && L.otherB i
    | .ifS c (.mk t _) none (some i) _, st, _ =>
        L.baseB f σ i [c] && L.writesOkB i && L.otherB i && L.blockOkB f σ t &&
        lokListB L f (blockTag L.ss t :: σ) { lc with kills := uni (L.c.scopeLocalsOf t) lc.kills } t
          (boundary (dif st.live (L.c.scopeLocalsOf t)))
    | .ifS c (.mk t _) (some (.mk e _)) (some i) _, st, _ =>
        L.baseB f σ i [c] && L.writesOkB i && L.otherB i && L.blockOkB f σ t && L.blockOkB f σ e &&
        lokListB L f (blockTag L.ss t :: σ) { lc with kills := uni (L.c.scopeLocalsOf t) lc.kills } t
          (boundary (dif st.live (L.c.scopeLocalsOf t))) &&
        lokListB L f (blockTag L.ss e :: σ) { lc with kills := uni (L.c.scopeLocalsOf e) lc.kills } e
          (boundary (dif st.live (L.c.scopeLocalsOf e)))
    | .loop c (.mk b _) (some i) _, st, _ =>
        let bl := L.c.scopeLocalsOf b
        let a := st.live
        let head (x : List Nat) : List Nat :=
          (L.c.transfer f i (boundary (uni
            (lvStmts L.c f L.nl { brk := some a, cont := some x, kills := bl } b (boundary (dif x bl))).1.live a))).live
        let x := lfp head (L.nl + 1) []
        L.baseB f σ i [c] && L.writesOkB i && L.otherB i && L.blockOkB f σ b && subset (head x) x &&
        lokListB L f (blockTag L.ss b :: σ) { brk := some a, cont := some x, kills := bl } b (boundary (dif x bl))
    | .block (.mk b _) (some i) _, st, _ =>
        let sl := L.c.scopeLocalsOf b
        L.baseB f σ i [] && L.writesOkB i && L.otherB i && L.blockOkB f σ b &&
        lokListB L f (blockTag L.ss b :: σ) { lc with kills := uni sl lc.kills } b
          { live := uni (inter st.gen sl) (dif st.live sl), gen := st.gen }
    | .fnDef _ _ ps (.mk body _) (some g) (some i) _, _, _ =>
        L.baseB f σ i [] && L.writesOkB i && L.otherB i &&
        L.blockOkB g [paramTag L.ds ps] body && (match paramTag L.ds ps with | some tg => L.scopeOwner tg == some g | none => true) &&
        L.pureFnB g ps body &&
        lokListB L g [blockTag L.ss body, paramTag L.ds ps] { brk := none, cont := none, kills := [] } body (boundary [])
    | .fnDef _ _ _ (.mk _ _) none (some i) _, _, _ => L.baseB f σ i [] && L.writesOkB i && L.otherB i
    | .ret (some e) (some i) _, _, _ => L.baseB f σ i [e] && L.writesOkB i && L.otherB i
    | .ret none (some i) _, _, _ => L.baseB f σ i [] && L.writesOkB i && L.otherB i
    | .brk (some i) _, _, _ => L.baseB f σ i [] && L.writesOkB i && L.otherB i
    | .cont (some i) _, _, _ => L.baseB f σ i [] && L.writesOkB i && L.otherB i
    | .expr e (some i) _, _, _ => L.baseB f σ i [e] && L.writesOkB i && L.otherB i
    | .fnDef _ _ ps (.mk body _) (some g) none _, _, _ =>
        L.blockOkB g [paramTag L.ds ps] body && (match paramTag L.ds ps with | some tg => L.scopeOwner tg == some g | none => true) &&
        L.pureFnB g ps body &&
        lokListB L g [blockTag L.ss body, paramTag L.ds ps] { brk := none, cont := none, kills := [] } body (boundary [])
    | .assign _ _ _ _ none _, _, _ | .assignExisting _ _ _ _ none _, _, _ | .assignIndex _ _ none _, _, _
    | .ifS _ (.mk _ _) none none _, _, _ | .ifS _ (.mk _ _) (some (.mk _ _)) none _, _, _ | .loop _ (.mk _ _) none _, _, _
    | .block (.mk _ _) none _, _, _ | .fnDef _ _ _ (.mk _ _) none none _, _, _ | .ret _ none _, _, _ | .brk none _, _, _
    | .cont none _, _, _ | .expr _ none _, _, _ => true
  def lokListB (L : LSetup) (f : Nat) (σ : List (Option Nat)) (lc : LoopCtx) : List Stmt → LS → Bool
    | [], _ => true
    | s :: ss, post => lokB L f σ lc s (lvStmts L.c f L.nl lc ss post).1 ss && lokListB L f σ lc ss post
end

/-- A function definition (as registered by `hoist`) is well-formed for the simulation. -/
def fnOkB (L : LSetup) (g : Nat) (ps : List Param) (body : List Stmt) : Bool :=
  L.blockOkB g [paramTag L.ds ps] body && (match paramTag L.ds ps with | some tg => L.scopeOwner tg == some g | none => true) &&
  L.pureFnB g ps body &&
  lokListB L g [blockTag L.ss body, paramTag L.ds ps] { brk := none, cont := none, kills := [] } body (boundary [])

end NaijaVerif.C03
