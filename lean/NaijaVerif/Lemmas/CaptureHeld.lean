/-
Foreign holders of the runner's pipes (C16, finding D-21): what the steps do to `State.held`, that the
main thread's wait loop and error path do not look at it, and that the error path — `kill`, `wait`,
return the error, no join — is two statements long in every execution, whoever holds what.
-/
import NaijaVerif.Lemmas.Capture
import NaijaVerif.Lemmas.CaptureFault
import NaijaVerif.Lemmas.CaptureTime
namespace NaijaVerif.Capture
set_option linter.unusedSimpArgs false

/-! ## The steps and the `held` flags -/

theorem stepMain_held {cfg : Cfg} {s s' : State} (h : stepMain cfg s = some s') : s'.held = s.held := by
  cases hpc : s.pc <;> simp only [stepMain, hpc] at h
  all_goals (repeat' split at h)
  all_goals (first | (cases h; rfl) | cases h)

/-- The flags only ever go from set to clear: a step leaves them alone, or it is the holder of one
pipe end letting go of it. -/
theorem step_held {cfg : Cfg} {plan : Plan} {s s' : State} {l : Label}
    (hs : step cfg plan s l = some s') :
    s'.held = s.held ∨ (∃ x, l = .holderClose x ∧ s.held.release x = some s'.held) ∨
      (l = .holderCloseIn ∧ s.held.releaseIn = some s'.held) := by
  cases l with
  | main => exact Or.inl (stepMain_held (by simpa [step] using hs))
  | tick =>
    simp only [step] at hs
    split at hs <;> cases hs
    exact Or.inl rfl
  | childEnd =>
    simp only [step] at hs
    split at hs
    · split at hs <;> cases hs
      exact Or.inl rfl
    · cases hs
  | childSigpipe x =>
    simp only [step] at hs
    split at hs <;> cases hs
    exact Or.inl rfl
  | childWrite x n =>
    simp only [step] at hs
    split at hs
    · simp only [Option.map_eq_some_iff] at hs
      obtain ⟨d, _, rfl⟩ := hs
      cases x <;> exact Or.inl rfl
    · cases hs
  | childDrop x n =>
    simp only [step] at hs
    split at hs
    · simp only [Option.map_eq_some_iff] at hs
      obtain ⟨d, _, rfl⟩ := hs
      cases x <;> exact Or.inl rfl
    · cases hs
  | childClose x =>
    simp only [step] at hs
    split at hs
    · simp only [Option.map_eq_some_iff] at hs
      obtain ⟨d, _, rfl⟩ := hs
      cases x <;> exact Or.inl rfl
    · cases hs
  | rdRead x =>
    simp only [step, Option.map_eq_some_iff] at hs
    obtain ⟨d, _, rfl⟩ := hs
    cases x <;> exact Or.inl rfl
  | rdEof x =>
    simp only [step, Option.map_eq_some_iff] at hs
    obtain ⟨d, _, rfl⟩ := hs
    cases x <;> exact Or.inl rfl
  | rdFail x =>
    simp only [step, Option.map_eq_some_iff] at hs
    obtain ⟨d, _, rfl⟩ := hs
    cases x <;> exact Or.inl rfl
  | rdCheck x =>
    simp only [step, Option.map_eq_some_iff] at hs
    obtain ⟨d, _, rfl⟩ := hs
    cases x <;> exact Or.inl rfl
  | wrWrite n =>
    simp only [step, Option.map_eq_some_iff] at hs
    obtain ⟨i, _, rfl⟩ := hs
    exact Or.inl rfl
  | wrEnd =>
    simp only [step, Option.map_eq_some_iff] at hs
    obtain ⟨i, _, rfl⟩ := hs
    exact Or.inl rfl
  | wrEpipe =>
    simp only [step, Option.map_eq_some_iff] at hs
    obtain ⟨i, _, rfl⟩ := hs
    exact Or.inl rfl
  | wrFail =>
    simp only [step, Option.map_eq_some_iff] at hs
    obtain ⟨i, _, rfl⟩ := hs
    exact Or.inl rfl
  | childRead n =>
    simp only [step] at hs
    split at hs
    · simp only [Option.map_eq_some_iff] at hs
      obtain ⟨i, _, rfl⟩ := hs
      exact Or.inl rfl
    · cases hs
  | childCloseIn =>
    simp only [step] at hs
    split at hs
    · simp only [Option.map_eq_some_iff] at hs
      obtain ⟨i, _, rfl⟩ := hs
      exact Or.inl rfl
    · cases hs
  | holderClose x =>
    simp only [step, Option.map_eq_some_iff] at hs
    obtain ⟨hd, hrel, rfl⟩ := hs
    exact Or.inr (Or.inl ⟨x, rfl, hrel⟩)
  | holderCloseIn =>
    simp only [step, Option.map_eq_some_iff] at hs
    obtain ⟨hd, hrel, rfl⟩ := hs
    exact Or.inr (Or.inr ⟨rfl, hrel⟩)

theorem Held.release_le {h h' : Held} {x : Strm} (hr : h.release x = some h') :
    (h'.out = true → h.out = true) ∧ (h'.err = true → h.err = true) ∧ (h'.inp = true → h.inp = true) := by
  cases x <;> simp only [Held.release] at hr <;> split at hr <;> cases hr <;> simp_all

theorem Held.releaseIn_le {h h' : Held} (hr : h.releaseIn = some h') :
    (h'.out = true → h.out = true) ∧ (h'.err = true → h.err = true) ∧ (h'.inp = true → h.inp = true) := by
  simp only [Held.releaseIn] at hr
  split at hr <;> cases hr
  simp_all

/-- A pipe end that is held after a step was held before it. -/
theorem step_held_le {cfg : Cfg} {plan : Plan} {s s' : State} {l : Label}
    (hs : step cfg plan s l = some s') :
    (s'.held.out = true → s.held.out = true) ∧ (s'.held.err = true → s.held.err = true) ∧
      (s'.held.inp = true → s.held.inp = true) := by
  rcases step_held hs with h | ⟨x, _, h⟩ | ⟨_, h⟩
  · rw [h]; exact ⟨id, id, id⟩
  · exact Held.release_le h
  · exact Held.releaseIn_le h

theorem run_held_le {cfg : Cfg} {plan : Plan} {s s' : State} {ls : List Label}
    (hr : run cfg plan s ls = some s') :
    (s'.held.out = true → s.held.out = true) ∧ (s'.held.err = true → s.held.err = true) ∧
      (s'.held.inp = true → s.held.inp = true) := by
  induction ls generalizing s with
  | nil => simp [run] at hr; subst hr; exact ⟨id, id, id⟩
  | cons l ls ih =>
    simp only [run] at hr
    split at hr
    · next s₁ hs =>
      obtain ⟨a, b, c⟩ := ih hr
      obtain ⟨a', b', c'⟩ := step_held_le hs
      exact ⟨fun h => a' (a h), fun h => b' (b h), fun h => c' (c h)⟩
    · cases hr

theorem Held.free_iff (h : Held) : h.free = true ↔ h.out = false ∧ h.err = false ∧ h.inp = false := by
  unfold Held.free; cases h.out <;> cases h.err <;> cases h.inp <;> simp

/-- Once nobody else holds a pipe end, nobody ever does again. -/
theorem run_free {cfg : Cfg} {plan : Plan} {s s' : State} {ls : List Label}
    (hr : run cfg plan s ls = some s') (hf : s.held.free = true) : s'.held.free = true := by
  rw [Held.free_iff] at hf ⊢
  obtain ⟨a, b, c⟩ := run_held_le hr
  obtain ⟨h1, h2, h3⟩ := hf
  refine ⟨?_, ?_, ?_⟩
  · cases h : s'.held.out
    · rfl
    · have := a h; simp_all
  · cases h : s'.held.err
    · rfl
    · have := b h; simp_all
  · cases h : s'.held.inp
    · rfl
    · have := c h; simp_all

/-- In the wait loop and on the error path the main thread's step is the same whoever else holds an
end of the pipes. -/
theorem stepMain_inWait_indep_held (cfg : Cfg) (s : State) (h' : Held) (hw : s.pc.inWait = true) :
    stepMain cfg { s with held := h' } = (stepMain cfg s).map (fun t => { t with held := h' }) := by
  cases hpc : s.pc <;> simp only [hpc, Pc.inWait] at hw <;> try (cases hw)
  all_goals simp only [stepMain, hpc]
  all_goals (repeat' split) <;> simp_all

/-! ## The error path is two statements long -/

/-- Only the main thread moves its program counter. -/
theorem step_pc {cfg : Cfg} {plan : Plan} {s s' : State} {l : Label}
    (hs : step cfg plan s l = some s') (hm : l ≠ .main) : s'.pc = s.pc := by
  cases l with
  | main => exact absurd rfl hm
  | tick =>
    simp only [step] at hs
    split at hs <;> cases hs
    rfl
  | childEnd =>
    simp only [step] at hs
    split at hs
    · split at hs <;> cases hs
      rfl
    · cases hs
  | childSigpipe x =>
    simp only [step] at hs
    split at hs <;> cases hs
    rfl
  | childWrite x n => exact (step_frame hs hm (by simp) (by simp) (by simp)).1
  | childDrop x n => exact (step_frame hs hm (by simp) (by simp) (by simp)).1
  | childClose x => exact (step_frame hs hm (by simp) (by simp) (by simp)).1
  | rdRead x => exact (step_frame hs hm (by simp) (by simp) (by simp)).1
  | rdEof x => exact (step_frame hs hm (by simp) (by simp) (by simp)).1
  | rdFail x => exact (step_frame hs hm (by simp) (by simp) (by simp)).1
  | rdCheck x => exact (step_frame hs hm (by simp) (by simp) (by simp)).1
  | wrWrite n => exact (step_frame hs hm (by simp) (by simp) (by simp)).1
  | wrEnd => exact (step_frame hs hm (by simp) (by simp) (by simp)).1
  | wrEpipe => exact (step_frame hs hm (by simp) (by simp) (by simp)).1
  | wrFail => exact (step_frame hs hm (by simp) (by simp) (by simp)).1
  | childRead n => exact (step_frame hs hm (by simp) (by simp) (by simp)).1
  | childCloseIn => exact (step_frame hs hm (by simp) (by simp) (by simp)).1
  | holderClose x => exact (step_frame hs hm (by simp) (by simp) (by simp)).1
  | holderCloseIn => exact (step_frame hs hm (by simp) (by simp) (by simp)).1

/-- The number of statements the main thread executes in a list of labels. -/
def mains (ls : List Label) : Nat := (ls.filter (· = .main)).length

@[simp] theorem mains_nil : mains [] = 0 := rfl

theorem mains_cons_main (ls : List Label) : mains (.main :: ls) = mains ls + 1 := by simp [mains]

theorem mains_cons_other {l : Label} (ls : List Label) (h : l ≠ .main) : mains (l :: ls) = mains ls := by
  simp [mains, h]

/-- Where the main thread is on the error path with error `e`, counted in statements still to go:
`2` = before `child.kill()`, `1` = before `child.wait()`, `0` = the error has been returned. -/
def Pc.errLeft (e : Err) : Pc → Option Nat
  | .kill e' => if e' = e then some 2 else none
  | .reap e' => if e' = e then some 1 else none
  | .done (.error e') => if e' = e then some 0 else none
  | _ => none

theorem stepMain_errLeft {cfg : Cfg} {s s' : State} {e : Err} {k : Nat}
    (hk : s.pc.errLeft e = some k) (hs : stepMain cfg s = some s') :
    ∃ k', k = k' + 1 ∧ s'.pc.errLeft e = some k' := by
  cases hpc : s.pc <;> simp only [hpc, Pc.errLeft] at hk <;> try (cases hk)
  case kill e' =>
    split at hk <;> cases hk
    subst_vars
    simp only [stepMain, hpc] at hs
    split at hs <;> cases hs <;> exact ⟨1, rfl, by simp [Pc.errLeft]⟩
  case reap e' =>
    split at hk <;> cases hk
    subst_vars
    simp only [stepMain, hpc] at hs
    split at hs <;> cases hs
    exact ⟨0, rfl, by simp [Pc.errLeft]⟩
  case done r =>
    simp [stepMain, hpc] at hs

/-- From a state on the error path with `k` statements to go, an execution that contains `m` statements
of the main thread leaves it with `k - m` to go — whatever else happens in between — and cannot
contain more than `k`. -/
theorem run_errLeft {cfg : Cfg} {plan : Plan} {e : Err} {ls : List Label} :
    ∀ {s s' : State} {k : Nat}, s.pc.errLeft e = some k → run cfg plan s ls = some s' →
      mains ls ≤ k ∧ s'.pc.errLeft e = some (k - mains ls) := by
  induction ls with
  | nil => intro s s' k hk hr; simp [run] at hr; subst hr; simpa using hk
  | cons l ls ih =>
    intro s s' k hk hr
    simp only [run] at hr
    split at hr
    · next s₁ hs =>
      by_cases hm : l = .main
      · subst hm
        obtain ⟨k', rfl, hk'⟩ := stepMain_errLeft hk (by simpa [step] using hs)
        obtain ⟨h1, h2⟩ := ih hk' hr
        rw [mains_cons_main]
        exact ⟨by omega, by rw [h2]; congr 1; omega⟩
      · have hpc := step_pc hs hm
        obtain ⟨h1, h2⟩ := ih (by rw [hpc]; exact hk) hr
        rw [mains_cons_other ls hm]
        exact ⟨h1, h2⟩
    · cases hr

theorem Pc.errLeft_zero {e : Err} {p : Pc} (h : p.errLeft e = some 0) : p = .done (.error e) := by
  cases p <;> simp only [Pc.errLeft] at h <;> try (cases h)
  case kill e' => split at h <;> cases h
  case reap e' => split at h <;> cases h
  case done r =>
    cases r with
    | ok st o e' => simp at h
    | error e' =>
      simp only at h
      split at h <;> cases h
      subst_vars; rfl

theorem Pc.errLeft_pos {e : Err} {p : Pc} {k : Nat} (h : p.errLeft e = some (k + 1)) :
    p = .kill e ∨ p = .reap e := by
  cases p <;> simp only [Pc.errLeft] at h <;> try (cases h)
  case kill e' => split at h <;> cases h; subst_vars; exact Or.inl rfl
  case reap e' => split at h <;> cases h; subst_vars; exact Or.inr rfl
  case done r =>
    cases r with
    | ok st o e' => simp at h
    | error e' => simp only at h; split at h <;> cases h

theorem run_append {cfg : Cfg} {plan : Plan} {s : State} (ls ls' : List Label) :
    run cfg plan s (ls ++ ls') = (run cfg plan s ls).bind (fun t => run cfg plan t ls') := by
  induction ls generalizing s with
  | nil => simp [run]
  | cons l ls ih =>
    simp only [List.cons_append, run]
    split
    · exact ih
    · rfl

end NaijaVerif.Capture
