import NaijaVerif.Lemmas.BridgeFacts
/-
Bridge resolver → evaluator, part 2: where the ids written into the AST come from.

* `FLe f f'`: the facts only grow (`locals.length` increases, the parameter-count table is extended
  at the end) — through `predeclare`, `declareParams`, `checkStmt … checkOptBlock`.
* `predeclare`: the signatures it adds carry the `FunctionId`s allocated on the way and the pushed
  parameter counts; when it reports nothing, the block's definitions have pairwise different names,
  none known before, and the signatures are exactly those definitions, in order.
* `declareParams`: every parameter is annotated, with the `LocalId`s allocated on the way.
* `checkStmt` / `checkStmts` / `checkBlock`: a `make` is annotated with an entry of the block's own
  scope or with a `LocalId` allocated by that statement; a definition with the id of a signature of
  the block's own function scope.
-/
namespace NaijaVerif.Resolve
open NaijaVerif

/-- The facts only grow. -/
def FLe (f f' : Facts) : Prop := (fkey f).1 ≤ (fkey f').1 ∧ (fkey f).2 <+: (fkey f').2

theorem FLe.refl (f : Facts) : FLe f f := ⟨Nat.le_refl _, List.prefix_refl _⟩
theorem FLe.of_eq {f f' : Facts} (h : fkey f' = fkey f) : FLe f f' := by
  unfold FLe; rw [h]; exact ⟨Nat.le_refl _, List.prefix_refl _⟩
theorem FLe.trans {a b c : Facts} (h1 : FLe a b) (h2 : FLe b c) : FLe a c :=
  ⟨Nat.le_trans h1.1 h2.1, List.IsPrefix.trans h1.2 h2.2⟩
theorem FLe.nl {f f' : Facts} (h : FLe f f') : f.locals.length ≤ f'.locals.length := h.1
theorem FLe.nf {f f' : Facts} (h : FLe f f') : f.functions.length ≤ f'.functions.length := by
  have := h.2.length_le
  rwa [fkey_nf, fkey_nf] at this
/-- An entry of the parameter-count table, once written, stays. -/
theorem FLe.get {f f' : Facts} (h : FLe f f') {i n : Nat} (hi : (fkey f).2[i]? = some n) :
    (fkey f').2[i]? = some n := by
  obtain ⟨t, ht⟩ := h.2
  rw [← ht, List.getElem?_append_left]
  · exact hi
  · exact (List.getElem?_eq_some_iff.1 hi).1

theorem FLe.pushLocal (f : Facts) (sl : Bool) (name : Bytes) (o s : Nat) (d : Option Nat) (k : LocalKind) :
    FLe f (pushLocal f sl name o s d k) := by
  unfold FLe; rw [fkey_pushLocal]; exact ⟨Nat.le_succ _, List.prefix_refl _⟩

theorem FLe.pushFunction (f : Facts) (name : Bytes) (np parent scope : Nat) :
    FLe f (pushFunction f name np parent scope) := by
  unfold FLe; rw [fkey_pushFunction]; exact ⟨Nat.le_refl _, List.prefix_append _ _⟩

/-! ### `retIter` changes return types only -/

def sigKey3 (g : FnSig) : Bytes × Nat × Nat := (g.name, g.id, g.arity)

theorem retPass_keys3 (env : Env) (makes : List Bytes) :
    ∀ (bodies : List (List Param × Block)) (i : Nat) (sigs : List FnSig) (ch : Bool),
    (retPass env makes bodies i sigs ch).1.map sigKey3 = sigs.map sigKey3
  | [], _, _, _ => by simp [retPass]
  | (ps, body) :: bs, i, sigs, ch => by
      simp only [retPass]
      split
      · split
        · exact retPass_keys3 env makes bs _ _ _
        · rw [retPass_keys3 env makes bs]
          apply modifyAt_map_key; intro a; rfl
      · exact retPass_keys3 env makes bs _ _ _

theorem retIter_keys3 (env : Env) (makes : List Bytes) (bodies : List (List Param × Block)) :
    ∀ (n : Nat) (sigs : List FnSig), (retIter env makes bodies n sigs).map sigKey3 = sigs.map sigKey3
  | 0, _ => by simp [retIter]
  | n + 1, sigs => by
      simp only [retIter]
      split
      · rw [retIter_keys3 env makes bodies n, retPass_keys3]
      · rw [retPass_keys3]

theorem keys3_names {l l' : List FnSig} (h : l'.map sigKey3 = l.map sigKey3) :
    l'.map (·.name) = l.map (·.name) := by
  have := congrArg (List.map Prod.fst) h
  simpa [List.map_map, Function.comp_def, sigKey3] using this

theorem keys3_mem {l l' : List FnSig} (h : l'.map sigKey3 = l.map sigKey3) {g' : FnSig} (hg : g' ∈ l') :
    ∃ g ∈ l, sigKey3 g = sigKey3 g' := by
  have : sigKey3 g' ∈ l.map sigKey3 := by rw [← h]; exact List.mem_map_of_mem hg
  obtain ⟨g, hg1, hg2⟩ := List.mem_map.1 this
  exact ⟨g, hg1, hg2⟩

/-! ### Lookups find members -/

theorem findVar_mem {s : Scope} {x : Bytes} {e : VarEntry} (h : findVar s x = some e) : e ∈ s :=
  List.mem_of_find?_eq_some h

theorem lookupScopes_mem : ∀ {ss : List Scope} {x : Bytes} {e : VarEntry},
    lookupScopes ss x = some e → ∃ s ∈ ss, e ∈ s
  | [], _, _, h => by simp [lookupScopes] at h
  | s :: ss, x, e, h => by
      simp only [lookupScopes] at h
      split at h
      · next e' he' => cases h; exact ⟨s, List.mem_cons_self, findVar_mem he'⟩
      · obtain ⟨s', hs', he⟩ := lookupScopes_mem h
        exact ⟨s', List.mem_cons_of_mem _ hs', he⟩

theorem findFn_mem {s : List FnSig} {x : Bytes} {g : FnSig} (h : findFn s x = some g) : g ∈ s :=
  List.mem_of_find?_eq_some h

theorem findFn_name {s : List FnSig} {x : Bytes} {g : FnSig} (h : findFn s x = some g) : g.name = x := by
  have := List.find?_some h
  simpa using this

theorem lookupFns_mem : ∀ {fs : List (List FnSig)} {x : Bytes} {g : FnSig},
    lookupFns fs x = some g → ∃ s ∈ fs, g ∈ s
  | [], _, _, h => by simp [lookupFns] at h
  | s :: ss, x, g, h => by
      simp only [lookupFns] at h
      split at h
      · next g' hg' => cases h; exact ⟨s, List.mem_cons_self, findFn_mem hg'⟩
      · obtain ⟨s', hs', he⟩ := lookupFns_mem h
        exact ⟨s', List.mem_cons_of_mem _ hs', he⟩

/-- In a list of signatures with pairwise different names, a member is what its name finds. -/
theorem findFn_of_mem_nodup : ∀ {l : List FnSig} {g : FnSig}, (l.map (·.name)).Nodup → g ∈ l →
    findFn l g.name = some g
  | [], _, _, h => by cases h
  | a :: l, g, hn, hg => by
      simp only [List.map_cons, List.nodup_cons] at hn
      simp only [findFn, List.find?_cons]
      rcases List.mem_cons.1 hg with rfl | hg
      · simp
      · have : (a.name == g.name) = false := by
          apply Bool.eq_false_iff.2
          intro h
          have : a.name = g.name := by simpa using h
          exact hn.1 (by rw [this]; exact List.mem_map_of_mem hg)
        simp only [this]
        exact findFn_of_mem_nodup hn.2 hg

theorem findFn_none_of_append {sigs : List FnSig} {g : FnSig} {x : Bytes}
    (h : findFn (sigs ++ [g]) x = none) : findFn sigs x = none ∧ g.name ≠ x := by
  have := findFn_append_single sigs g x
  rw [h] at this
  simp only [Option.isSome_none, Bool.false_eq, Bool.or_eq_false_iff] at this
  refine ⟨by simpa using this.1, ?_⟩
  intro e; rw [e] at this; simp at this

/-! ### `predeclare` -/

/-- A signature's arity is the parameter count pushed for its id. -/
def SigOK (f : Facts) (g : FnSig) : Prop := (fkey f).2[g.id]? = some g.arity

theorem SigOK.mono {f f' : Facts} (h : FLe f f') {g : FnSig} (hg : SigOK f g) : SigOK f' g := h.get hg

/-- The definitions among the statements: name and parameter count, in order. -/
def fnDefs : List Stmt → List (Bytes × Nat)
  | [] => []
  | .fnDef name _ ps _ _ _ _ :: rest => (name, ps.length) :: fnDefs rest
  | _ :: rest => fnDefs rest

theorem fnDefs_names : ∀ ss : List Stmt, (fnDefs ss).map (·.1) = fnNames ss
  | [] => rfl
  | s :: ss => by cases s <;> simp [fnDefs, fnNames, fnDefs_names ss]

/-- Skip a statement that is no definition. -/
macro "pre_skip" ih:term : tactic => `(tactic| (simp only [predeclare, fnNames, fnDefs]; exact $ih))

theorem predeclare_grow (env : Env) : ∀ (ss : List Stmt) (sigs : List FnSig) (f : Facts),
    FLe f (predeclare env ss sigs f).facts ∧ (predeclare env ss sigs f).facts.locals.length = f.locals.length ∧
    ∀ g ∈ (predeclare env ss sigs f).sigs, g ∈ sigs ∨
      (f.functions.length ≤ g.id ∧ g.id < (predeclare env ss sigs f).facts.functions.length ∧
        SigOK (predeclare env ss sigs f).facts g)
  | [], sigs, f => by
      exact ⟨FLe.refl f, rfl, fun g hg => Or.inl hg⟩
  | .fnDef name nsp ps body _ _ _ :: rest, sigs, f => by
      simp only [predeclare]
      split
      · exact predeclare_grow env rest sigs f
      · obtain ⟨h1, h2, h3⟩ := predeclare_grow env rest
          (sigs ++ [⟨name, f.functions.length, ps.length, nsp, .dynamic⟩])
          (pushFunction f name ps.length env.owner env.scope)
        have hp := FLe.pushFunction f name ps.length env.owner env.scope
        refine ⟨hp.trans h1, ?_, ?_⟩
        · simp only; rw [h2]; rfl
        · intro g hg
          rcases h3 g hg with hm | ⟨a, b, c⟩
          · rcases List.mem_append.1 hm with hm | hm
            · exact Or.inl hm
            · right
              simp only [List.mem_singleton] at hm
              subst hm
              refine ⟨Nat.le_refl _, Nat.lt_of_lt_of_le ?_ h1.nf, ?_⟩
              · simp [pushFunction]
              · apply SigOK.mono h1
                simp only [SigOK]
                rw [fkey_pushFunction, List.getElem?_append_right (by rw [fkey_nf]; exact Nat.le_refl _)]
                simp [fkey_nf]
          · exact Or.inr ⟨Nat.le_trans hp.nf a, b, c⟩
  | .assign .. :: rest, sigs, f => by simp only [predeclare]; exact predeclare_grow env rest sigs f
  | .assignExisting .. :: rest, sigs, f => by simp only [predeclare]; exact predeclare_grow env rest sigs f
  | .assignIndex .. :: rest, sigs, f => by simp only [predeclare]; exact predeclare_grow env rest sigs f
  | .ifS .. :: rest, sigs, f => by simp only [predeclare]; exact predeclare_grow env rest sigs f
  | .loop .. :: rest, sigs, f => by simp only [predeclare]; exact predeclare_grow env rest sigs f
  | .block .. :: rest, sigs, f => by simp only [predeclare]; exact predeclare_grow env rest sigs f
  | .ret .. :: rest, sigs, f => by simp only [predeclare]; exact predeclare_grow env rest sigs f
  | .brk .. :: rest, sigs, f => by simp only [predeclare]; exact predeclare_grow env rest sigs f
  | .cont .. :: rest, sigs, f => by simp only [predeclare]; exact predeclare_grow env rest sigs f
  | .expr .. :: rest, sigs, f => by simp only [predeclare]; exact predeclare_grow env rest sigs f

/-- When `predeclare` reports nothing: the signatures it adds are exactly the block's definitions
(name, parameter count), in order; their names are pairwise different and none was known. -/
theorem predeclare_clean (env : Env) : ∀ (ss : List Stmt) (sigs : List FnSig) (f : Facts),
    (predeclare env ss sigs f).ds = [] →
    (predeclare env ss sigs f).sigs.map sigKey = sigs.map sigKey ++ fnDefs ss ∧
    (∀ name ∈ fnNames ss, findFn sigs name = none) ∧ (fnNames ss).Nodup
  | [], sigs, f, _ => by simp [predeclare, fnDefs, fnNames]
  | .fnDef name nsp ps body _ _ _ :: rest, sigs, f, h => by
      simp only [predeclare] at h ⊢
      split at h
      · simp at h
      · next hnone =>
        simp only [List.append_eq_nil_iff] at h
        obtain ⟨h1, h2, h3⟩ := predeclare_clean env rest _ _ h.2
        refine ⟨?_, ?_, ?_⟩
        · rw [h1]; simp [fnDefs, sigKey]
        · intro n hn
          simp only [fnNames, List.mem_cons] at hn
          rcases hn with rfl | hn
          · exact hnone
          · exact (findFn_none_of_append (h2 n hn)).1
        · simp only [fnNames, List.nodup_cons]
          refine ⟨?_, h3⟩
          intro hn
          exact (findFn_none_of_append (h2 name hn)).2 rfl
  | .assign .. :: rest, sigs, f, h => by pre_skip (predeclare_clean env rest sigs f (by simpa only [predeclare] using h))
  | .assignExisting .. :: rest, sigs, f, h => by pre_skip (predeclare_clean env rest sigs f (by simpa only [predeclare] using h))
  | .assignIndex .. :: rest, sigs, f, h => by pre_skip (predeclare_clean env rest sigs f (by simpa only [predeclare] using h))
  | .ifS .. :: rest, sigs, f, h => by pre_skip (predeclare_clean env rest sigs f (by simpa only [predeclare] using h))
  | .loop .. :: rest, sigs, f, h => by pre_skip (predeclare_clean env rest sigs f (by simpa only [predeclare] using h))
  | .block .. :: rest, sigs, f, h => by pre_skip (predeclare_clean env rest sigs f (by simpa only [predeclare] using h))
  | .ret .. :: rest, sigs, f, h => by pre_skip (predeclare_clean env rest sigs f (by simpa only [predeclare] using h))
  | .brk .. :: rest, sigs, f, h => by pre_skip (predeclare_clean env rest sigs f (by simpa only [predeclare] using h))
  | .cont .. :: rest, sigs, f, h => by pre_skip (predeclare_clean env rest sigs f (by simpa only [predeclare] using h))
  | .expr .. :: rest, sigs, f, h => by pre_skip (predeclare_clean env rest sigs f (by simpa only [predeclare] using h))

/-! ### `declareParams` -/

/-- The `LocalId`s the annotated parameters carry. -/
def paramBinds (ps : List Param) : List Nat := ps.filterMap (·.bind)

theorem declareParams_spec (sl : Bool) (owner scope : Nat) : ∀ (ps : List Param) (sc : Scope) (f : Facts),
    fkey (declareParams sl owner scope ps sc f).2.2 = ((fkey f).1 + ps.length, (fkey f).2) ∧
    (declareParams sl owner scope ps sc f).1.all (fun p => p.bind.isSome) = true ∧
    (declareParams sl owner scope ps sc f).1.length = ps.length ∧
    (∀ l ∈ paramBinds (declareParams sl owner scope ps sc f).1,
        f.locals.length ≤ l ∧ l < f.locals.length + ps.length) ∧
    (∀ e ∈ (declareParams sl owner scope ps sc f).2.1,
        e ∈ sc ∨ e.id ∈ paramBinds (declareParams sl owner scope ps sc f).1)
  | [], sc, f => by simp [declareParams, paramBinds]
  | p :: ps, sc, f => by
      obtain ⟨h1, h2, h3, h4, h5⟩ := declareParams_spec sl owner scope ps (⟨p.name, .dynamic, f.locals.length⟩ :: sc)
        (pushLocal f sl p.name owner scope none .parameter)
      have hl : (pushLocal f sl p.name owner scope none .parameter).locals.length = f.locals.length + 1 := by
        simp [pushLocal]
      simp only [declareParams]
      refine ⟨?_, ?_, ?_, ?_, ?_⟩
      · rw [h1, fkey_pushLocal]; simp only [List.length_cons]; refine Prod.ext ?_ rfl; simp only; omega
      · simp only [List.all_cons, Option.isSome_some, Bool.true_and]; exact h2
      · simp only [List.length_cons, h3]
      · intro l hl'
        simp only [paramBinds, List.filterMap_cons] at hl'
        rcases List.mem_cons.1 hl' with rfl | hl'
        · simp only [List.length_cons]; omega
        · have := h4 l hl'
          rw [hl] at this
          simp only [List.length_cons]; omega
      · intro e he
        rcases h5 e he with hm | hm
        · rcases List.mem_cons.1 hm with rfl | hm
          · right; simp [paramBinds]
          · exact Or.inl hm
        · right
          simp only [paramBinds, List.filterMap_cons]
          exact List.mem_cons_of_mem _ hm

/-! ### `updateTy` keeps the entries' ids -/

theorem updateTy_ids : ∀ (s : Scope) (x : Bytes) (t : VType), (updateTy s x t).map (·.id) = s.map (·.id)
  | [], _, _ => rfl
  | e :: es, x, t => by
      simp only [updateTy]
      split
      · rfl
      · simp [updateTy_ids es x t]

theorem updateTy_mem_id {s : Scope} {x : Bytes} {t : VType} {e : VarEntry} (h : e ∈ updateTy s x t) :
    ∃ e' ∈ s, e'.id = e.id := by
  have : e.id ∈ (updateTy s x t).map (·.id) := List.mem_map_of_mem h
  rw [updateTy_ids] at this
  obtain ⟨e', h1, h2⟩ := List.mem_map.1 this
  exact ⟨e', h1, h2⟩

end NaijaVerif.Resolve
