import NaijaVerif.Model.Eval
/-
Inversion lemmas for the combinators the evaluator is written with (`Res.bind`, `Res.ofExcept`,
`trap`): what a successful result tells about the parts.
-/
namespace NaijaVerif.Eval
open NaijaVerif

variable {N : Type}

theorem Res.bind_eq_ok {α β : Type} {r : Res N α} {k : α → State N → Res N β} {b : β} {st' : State N}
    (h : r.bind k = .ok b st') : ∃ a st1, r = .ok a st1 ∧ k a st1 = .ok b st' := by
  cases r with
  | ok a st1 => exact ⟨a, st1, rfl, h⟩
  | err => simp [Res.bind] at h
  | panic => simp [Res.bind] at h
  | fuel => simp [Res.bind] at h

theorem Res.bind_ok {α β : Type} (a : α) (st : State N) (k : α → State N → Res N β) :
    (Res.ok a st : Res N α).bind k = k a st := rfl

theorem trap_ne_ok {α : Type} (cfg : RunCfg) (site : PanicSite) (sp : Span) (st : State N) (a : α)
    (st' : State N) : (trap cfg site sp st : Res N α) ≠ .ok a st' := by
  unfold trap; split <;> simp

theorem Res.ofFault_ne_ok {α : Type} (cfg : RunCfg) (flt : Fault) (sp : Span) (st : State N) (a : α)
    (st' : State N) : (Res.ofFault cfg flt sp st : Res N α) ≠ .ok a st' := by
  unfold Res.ofFault
  cases flt with
  | rt => simp
  | panic => exact trap_ne_ok cfg _ sp st a st'

theorem Res.ofExcept_eq_ok {α : Type} {cfg : RunCfg} {x : Except Fault α} {sp : Span} {st : State N}
    {a : α} {st' : State N} (h : Res.ofExcept cfg x sp st = .ok a st') : x = .ok a ∧ st' = st := by
  unfold Res.ofExcept at h
  cases x with
  | ok b => simp at h; exact ⟨by rw [h.1], h.2.symm⟩
  | error flt => exact absurd h (Res.ofFault_ne_ok cfg flt sp st a st')

/-- With `panics := true` a pure step that does not panic never makes the run panic. -/
theorem Res.ofExcept_panic {α : Type} {cfg : RunCfg} {x : Except Fault α} {sp : Span} {st : State N}
    {site : PanicSite} {st' : State N} (h : Res.ofExcept cfg x sp st = .panic site st') :
    x = .error (.panic site) := by
  unfold Res.ofExcept at h
  cases x with
  | ok b => simp at h
  | error flt =>
    cases flt with
    | rt k s => simp [Res.ofFault] at h
    | panic s =>
      simp only [Res.ofFault, trap] at h
      split at h
      · simp at h; rw [h.1]
      · simp at h

end NaijaVerif.Eval
