import NaijaVerif.Lemmas.ResolveStruct
/-
`rootOkB` conjunct by conjunct: the statement-by-statement conditions `lokB` / `lokListB`
(`Lemmas/AnalysisLiveOk.lean`) with their ATOMIC conditions made a parameter (`Atoms`, `lokG`).

* `lokB_eq_lokG` — `lokB L` is `lokG L (atomsOf L)`;
* `lokG_and` — `lokG` of the pointwise conjunction of two atom sets is the conjunction of the two walks.
So any way of writing every atom of `atomsOf L` as `proved && rest` splits `rootOkB` into a proved and a
remaining walk (`rootG_split`).
-/
namespace NaijaVerif.ResolveStruct
open NaijaVerif NaijaVerif.Analysis NaijaVerif.AEval NaijaVerif.C03

/-- The atomic conditions of `lokB`. -/
structure Atoms where
  /-- `baseB f σ i es` -/
  base : Nat → List (Option Nat) → Nat → List Expr → Bool
  /-- `writesOkB i` -/
  wok : Nat → Bool
  /-- `otherB i` -/
  other : Nat → Bool
  /-- `blockOkB f σ b` -/
  blk : Nat → List (Option Nat) → List Stmt → Bool
  /-- the target of a `make` belongs to the function: `owner l == some f` -/
  own : Nat → Nat → Bool
  /-- `ownStoreB f σ i isDecl l e st rest` -/
  store : Nat → List (Option Nat) → Nat → Bool → Nat → Expr → LS → List Stmt → Bool
  /-- a store to a captured variable: `writes i` empty, `l` among the transitive writes, not in the chain -/
  cap : Nat → List (Option Nat) → Nat → Nat → Bool
  /-- the loop fixpoint converged -/
  fix : Nat → Nat → List Stmt → LS → Bool
  /-- parameter scope and body scope of a definition, pure summaries backed by pure bodies -/
  fnh : Nat → List Param → List Stmt → Bool

def Atoms.and (A B : Atoms) : Atoms where
  base := fun f σ i es => A.base f σ i es && B.base f σ i es
  wok := fun i => A.wok i && B.wok i
  other := fun i => A.other i && B.other i
  blk := fun f σ b => A.blk f σ b && B.blk f σ b
  own := fun l f => A.own l f && B.own l f
  store := fun f σ i d l e st rest => A.store f σ i d l e st rest && B.store f σ i d l e st rest
  cap := fun f σ i l => A.cap f σ i l && B.cap f σ i l
  fix := fun f i b st => A.fix f i b st && B.fix f i b st
  fnh := fun g ps body => A.fnh g ps body && B.fnh g ps body

/-- The loop head of `lokB`. -/
def loopX (L : LSetup) (f i : Nat) (b : List Stmt) (st : LS) : List Nat :=
  let bl := L.c.scopeLocalsOf b
  let a := st.live
  let head (x : List Nat) : List Nat :=
    (L.c.transfer f i (boundary (uni
      (lvStmts L.c f L.nl { brk := some a, cont := some x, kills := bl } b (boundary (dif x bl))).1.live a))).live
  lfp head (L.nl + 1) []

def atomsOf (L : LSetup) : Atoms where
  base := L.baseB
  wok := L.writesOkB
  other := L.otherB
  blk := L.blockOkB
  own := fun l f => L.c.owner l == some f
  store := L.ownStoreB
  cap := fun f σ i l => (L.c.writes i).isEmpty && (L.c.transWrites f).contains l && !L.inTags σ l
  fix := fun f i b st =>
    let bl := L.c.scopeLocalsOf b
    let a := st.live
    let x := loopX L f i b st
    subset ((L.c.transfer f i (boundary (uni
      (lvStmts L.c f L.nl { brk := some a, cont := some x, kills := bl } b (boundary (dif x bl))).1.live a))).live) x
  fnh := fun g ps body =>
    L.blockOkB g [paramTag L.ds ps] body &&
    (match paramTag L.ds ps with | some tg => L.scopeOwner tg == some g | none => true) && L.pureFnB g ps body

mutual
  def lokG (L : LSetup) (A : Atoms) (f : Nat) (σ : List (Option Nat)) (lc : LoopCtx) : Stmt → LS → List Stmt → Bool
    | .assign _ _ e b (some i) _, st, rest =>
        A.base f σ i [e] &&
        (match b with
         | some l => A.own l f && A.store f σ i true l e st rest
         | none => A.other i)
    | .assignExisting _ _ e b (some i) _, st, rest =>
        A.base f σ i [e] &&
        (match b with
         | some l =>
            if L.c.owner l == some f then A.store f σ i false l e st rest
            else A.cap f σ i l && A.other i
         | none => A.other i)
    | .assignIndex t e (some i) _, _, _ => A.base f σ i [t, e] && A.wok i && A.other i
    | .ifS c (.mk t _) none (some i) _, st, _ =>
        A.base f σ i [c] && A.wok i && A.other i && A.blk f σ t &&
        lokListG L A f (blockTag L.ss t :: σ) { lc with kills := uni (L.c.scopeLocalsOf t) lc.kills } t
          (boundary (dif st.live (L.c.scopeLocalsOf t)))
    | .ifS c (.mk t _) (some (.mk e _)) (some i) _, st, _ =>
        A.base f σ i [c] && A.wok i && A.other i && A.blk f σ t && A.blk f σ e &&
        lokListG L A f (blockTag L.ss t :: σ) { lc with kills := uni (L.c.scopeLocalsOf t) lc.kills } t
          (boundary (dif st.live (L.c.scopeLocalsOf t))) &&
        lokListG L A f (blockTag L.ss e :: σ) { lc with kills := uni (L.c.scopeLocalsOf e) lc.kills } e
          (boundary (dif st.live (L.c.scopeLocalsOf e)))
    | .loop c (.mk b _) (some i) _, st, _ =>
        A.base f σ i [c] && A.wok i && A.other i && A.blk f σ b && A.fix f i b st &&
        lokListG L A f (blockTag L.ss b :: σ)
          { brk := some st.live, cont := some (loopX L f i b st), kills := L.c.scopeLocalsOf b } b
          (boundary (dif (loopX L f i b st) (L.c.scopeLocalsOf b)))
    | .block (.mk b _) (some i) _, st, _ =>
        A.base f σ i [] && A.wok i && A.other i && A.blk f σ b &&
        lokListG L A f (blockTag L.ss b :: σ) { lc with kills := uni (L.c.scopeLocalsOf b) lc.kills } b
          { live := uni (inter st.gen (L.c.scopeLocalsOf b)) (dif st.live (L.c.scopeLocalsOf b)), gen := st.gen }
    | .fnDef _ _ ps (.mk body _) (some g) (some i) _, _, _ =>
        A.base f σ i [] && A.wok i && A.other i && A.fnh g ps body &&
        lokListG L A g [blockTag L.ss body, paramTag L.ds ps] { brk := none, cont := none, kills := [] } body (boundary [])
    | .fnDef _ _ _ (.mk _ _) none (some i) _, _, _ => A.base f σ i [] && A.wok i && A.other i
    | .ret (some e) (some i) _, _, _ => A.base f σ i [e] && A.wok i && A.other i
    | .ret none (some i) _, _, _ => A.base f σ i [] && A.wok i && A.other i
    | .brk (some i) _, _, _ => A.base f σ i [] && A.wok i && A.other i
    | .cont (some i) _, _, _ => A.base f σ i [] && A.wok i && A.other i
    | .expr e (some i) _, _, _ => A.base f σ i [e] && A.wok i && A.other i
    | .fnDef _ _ ps (.mk body _) (some g) none _, _, _ =>
        A.fnh g ps body &&
        lokListG L A g [blockTag L.ss body, paramTag L.ds ps] { brk := none, cont := none, kills := [] } body (boundary [])
    | .assign _ _ _ _ none _, _, _ | .assignExisting _ _ _ _ none _, _, _ | .assignIndex _ _ none _, _, _
    | .ifS _ (.mk _ _) none none _, _, _ | .ifS _ (.mk _ _) (some (.mk _ _)) none _, _, _ | .loop _ (.mk _ _) none _, _, _
    | .block (.mk _ _) none _, _, _ | .fnDef _ _ _ (.mk _ _) none none _, _, _ | .ret _ none _, _, _ | .brk none _, _, _
    | .cont none _, _, _ | .expr _ none _, _, _ => true
  def lokListG (L : LSetup) (A : Atoms) (f : Nat) (σ : List (Option Nat)) (lc : LoopCtx) : List Stmt → LS → Bool
    | [], _ => true
    | s :: ss, post => lokG L A f σ lc s (lvStmts L.c f L.nl lc ss post).1 ss && lokListG L A f σ lc ss post
end

theorem atomsOf_base (L : LSetup) : (atomsOf L).base = L.baseB := rfl
theorem atomsOf_wok (L : LSetup) : (atomsOf L).wok = L.writesOkB := rfl
theorem atomsOf_other (L : LSetup) : (atomsOf L).other = L.otherB := rfl
theorem atomsOf_blk (L : LSetup) : (atomsOf L).blk = L.blockOkB := rfl
theorem atomsOf_own (L : LSetup) (l f : Nat) : (atomsOf L).own l f = (L.c.owner l == some f) := rfl
theorem atomsOf_store (L : LSetup) : (atomsOf L).store = L.ownStoreB := rfl
theorem atomsOf_cap (L : LSetup) (f : Nat) (σ : List (Option Nat)) (i l : Nat) :
    (atomsOf L).cap f σ i l = ((L.c.writes i).isEmpty && (L.c.transWrites f).contains l && !L.inTags σ l) := rfl
theorem atomsOf_fix (L : LSetup) (f i : Nat) (b : List Stmt) (st : LS) :
    (atomsOf L).fix f i b st =
      subset ((L.c.transfer f i (boundary (uni
        (lvStmts L.c f L.nl { brk := some st.live, cont := some (loopX L f i b st), kills := L.c.scopeLocalsOf b } b
          (boundary (dif (loopX L f i b st) (L.c.scopeLocalsOf b)))).1.live st.live))).live) (loopX L f i b st) := rfl
theorem atomsOf_fnh (L : LSetup) (g : Nat) (ps : List Param) (body : List Stmt) :
    (atomsOf L).fnh g ps body =
      (L.blockOkB g [paramTag L.ds ps] body &&
      (match paramTag L.ds ps with | some tg => L.scopeOwner tg == some g | none => true) && L.pureFnB g ps body) := rfl

set_option linter.unusedSimpArgs false in
mutual
  theorem lokB_eq_lokG (L : LSetup) (f : Nat) (σ : List (Option Nat)) (lc : LoopCtx) : ∀ (s : Stmt) (st : LS) (rest : List Stmt),
      lokB L f σ lc s st rest = lokG L (atomsOf L) f σ lc s st rest
    | .assign _ _ e b (some i) _, st, rest => by cases b <;> simp only [lokB, lokG, atomsOf_base, atomsOf_own, atomsOf_store, atomsOf_other]
    | .assignExisting _ _ e b (some i) _, st, rest => by
        cases b with
        | none => simp only [lokB, lokG, atomsOf_base, atomsOf_other]
        | some l => simp only [lokB, lokG, atomsOf_base, atomsOf_store, atomsOf_cap, atomsOf_other, Bool.and_assoc]
    | .assignIndex t e (some i) _, _, _ => by simp only [lokB, lokG, atomsOf_base, atomsOf_wok, atomsOf_other]
    | .ifS c (.mk t _) none (some i) _, st, _ => by
        simp only [lokB, lokG, atomsOf_base, atomsOf_wok, atomsOf_other, atomsOf_blk, lokListB_eq_lokListG L f]
    | .ifS c (.mk t _) (some (.mk e _)) (some i) _, st, _ => by
        simp only [lokB, lokG, atomsOf_base, atomsOf_wok, atomsOf_other, atomsOf_blk, lokListB_eq_lokListG L f]
    | .loop c (.mk b _) (some i) _, st, _ => by
        simp only [lokB, lokG, atomsOf_base, atomsOf_wok, atomsOf_other, atomsOf_blk, atomsOf_fix, lokListB_eq_lokListG L f]
        rfl
    | .block (.mk b _) (some i) _, st, _ => by
        simp only [lokB, lokG, atomsOf_base, atomsOf_wok, atomsOf_other, atomsOf_blk, lokListB_eq_lokListG L f]
    | .fnDef _ _ ps (.mk body _) (some g) (some i) _, _, _ => by
        simp only [lokB, lokG, atomsOf_base, atomsOf_wok, atomsOf_other, atomsOf_fnh, lokListB_eq_lokListG L g, Bool.and_assoc]
        rfl
    | .fnDef _ _ _ (.mk _ _) none (some i) _, _, _ => by simp only [lokB, lokG, atomsOf_base, atomsOf_wok, atomsOf_other]
    | .ret (some e) (some i) _, _, _ => by simp only [lokB, lokG, atomsOf_base, atomsOf_wok, atomsOf_other]
    | .ret none (some i) _, _, _ => by simp only [lokB, lokG, atomsOf_base, atomsOf_wok, atomsOf_other]
    | .brk (some i) _, _, _ => by simp only [lokB, lokG, atomsOf_base, atomsOf_wok, atomsOf_other]
    | .cont (some i) _, _, _ => by simp only [lokB, lokG, atomsOf_base, atomsOf_wok, atomsOf_other]
    | .expr e (some i) _, _, _ => by simp only [lokB, lokG, atomsOf_base, atomsOf_wok, atomsOf_other]
    | .fnDef _ _ ps (.mk body _) (some g) none _, _, _ => by
        simp only [lokB, lokG, atomsOf_base, atomsOf_wok, atomsOf_other, atomsOf_fnh, lokListB_eq_lokListG L g, Bool.and_assoc]
        rfl
    | .assign _ _ _ _ none _, _, _ => by simp only [lokB, lokG]
    | .assignExisting _ _ _ _ none _, _, _ => by simp only [lokB, lokG]
    | .assignIndex _ _ none _, _, _ => by simp only [lokB, lokG]
    | .ifS _ (.mk _ _) none none _, _, _ => by simp only [lokB, lokG]
    | .ifS _ (.mk _ _) (some (.mk _ _)) none _, _, _ => by simp only [lokB, lokG]
    | .loop _ (.mk _ _) none _, _, _ => by simp only [lokB, lokG]
    | .block (.mk _ _) none _, _, _ => by simp only [lokB, lokG]
    | .fnDef _ _ _ (.mk _ _) none none _, _, _ => by simp only [lokB, lokG]
    | .ret (some _) none _, _, _ => by simp only [lokB, lokG]
    | .ret none none _, _, _ => by simp only [lokB, lokG]
    | .brk none _, _, _ => by simp only [lokB, lokG]
    | .cont none _, _, _ => by simp only [lokB, lokG]
    | .expr _ none _, _, _ => by simp only [lokB, lokG]
  theorem lokListB_eq_lokListG (L : LSetup) (f : Nat) (σ : List (Option Nat)) (lc : LoopCtx) : ∀ (ss : List Stmt) (post : LS),
      lokListB L f σ lc ss post = lokListG L (atomsOf L) f σ lc ss post
    | [], _ => by simp only [lokListB, lokListG]
    | s :: ss, post => by
        simp only [lokListB, lokListG, lokB_eq_lokG L f σ lc s, lokListB_eq_lokListG L f σ lc ss]
end

theorem and_base (A B : Atoms) (f : Nat) (σ : List (Option Nat)) (i : Nat) (es : List Expr) :
    (A.and B).base f σ i es = (A.base f σ i es && B.base f σ i es) := rfl
theorem and_wok (A B : Atoms) (i : Nat) : (A.and B).wok i = (A.wok i && B.wok i) := rfl
theorem and_other (A B : Atoms) (i : Nat) : (A.and B).other i = (A.other i && B.other i) := rfl
theorem and_blk (A B : Atoms) (f : Nat) (σ : List (Option Nat)) (b : List Stmt) :
    (A.and B).blk f σ b = (A.blk f σ b && B.blk f σ b) := rfl
theorem and_own (A B : Atoms) (l f : Nat) : (A.and B).own l f = (A.own l f && B.own l f) := rfl
theorem and_store (A B : Atoms) (f : Nat) (σ : List (Option Nat)) (i : Nat) (d : Bool) (l : Nat) (e : Expr) (st : LS)
    (rest : List Stmt) : (A.and B).store f σ i d l e st rest = (A.store f σ i d l e st rest && B.store f σ i d l e st rest) := rfl
theorem and_cap (A B : Atoms) (f : Nat) (σ : List (Option Nat)) (i l : Nat) :
    (A.and B).cap f σ i l = (A.cap f σ i l && B.cap f σ i l) := rfl
theorem and_fix (A B : Atoms) (f i : Nat) (b : List Stmt) (st : LS) :
    (A.and B).fix f i b st = (A.fix f i b st && B.fix f i b st) := rfl
theorem and_fnh (A B : Atoms) (g : Nat) (ps : List Param) (body : List Stmt) :
    (A.and B).fnh g ps body = (A.fnh g ps body && B.fnh g ps body) := rfl

/-- Close a goal `x = (y && z)` between conjunctions of the same Booleans. -/
macro "bool_ac" : tactic => `(tactic| (simp only [Bool.and_assoc, Bool.and_left_comm, Bool.and_comm, Bool.and_self] <;> try ac_rfl))

mutual
  theorem lokG_and (L : LSetup) (A B : Atoms) (f : Nat) (σ : List (Option Nat)) (lc : LoopCtx) :
      ∀ (s : Stmt) (st : LS) (rest : List Stmt),
      lokG L (A.and B) f σ lc s st rest = (lokG L A f σ lc s st rest && lokG L B f σ lc s st rest)
    | .assign _ _ e b (some i) _, st, rest => by
        cases b <;> simp only [lokG, and_base, and_own, and_store, and_other] <;> ac_rfl
    | .assignExisting _ _ e b (some i) _, st, rest => by
        cases b with
        | none => simp only [lokG, and_base, and_other]; ac_rfl
        | some l =>
          simp only [lokG, and_base, and_store, and_cap, and_other]
          split <;> ac_rfl
    | .assignIndex t e (some i) _, _, _ => by simp only [lokG, and_base, and_wok, and_other]; ac_rfl
    | .ifS c (.mk t _) none (some i) _, st, _ => by
        simp only [lokG, and_base, and_wok, and_other, and_blk, lokListG_and L A B f]; ac_rfl
    | .ifS c (.mk t _) (some (.mk e _)) (some i) _, st, _ => by
        simp only [lokG, and_base, and_wok, and_other, and_blk, lokListG_and L A B f]; ac_rfl
    | .loop c (.mk b _) (some i) _, st, _ => by
        simp only [lokG, and_base, and_wok, and_other, and_blk, and_fix, lokListG_and L A B f]; ac_rfl
    | .block (.mk b _) (some i) _, st, _ => by
        simp only [lokG, and_base, and_wok, and_other, and_blk, lokListG_and L A B f]; ac_rfl
    | .fnDef _ _ ps (.mk body _) (some g) (some i) _, _, _ => by
        simp only [lokG, and_base, and_wok, and_other, and_fnh, lokListG_and L A B g]; ac_rfl
    | .fnDef _ _ _ (.mk _ _) none (some i) _, _, _ => by simp only [lokG, and_base, and_wok, and_other]; ac_rfl
    | .ret (some e) (some i) _, _, _ => by simp only [lokG, and_base, and_wok, and_other]; ac_rfl
    | .ret none (some i) _, _, _ => by simp only [lokG, and_base, and_wok, and_other]; ac_rfl
    | .brk (some i) _, _, _ => by simp only [lokG, and_base, and_wok, and_other]; ac_rfl
    | .cont (some i) _, _, _ => by simp only [lokG, and_base, and_wok, and_other]; ac_rfl
    | .expr e (some i) _, _, _ => by simp only [lokG, and_base, and_wok, and_other]; ac_rfl
    | .fnDef _ _ ps (.mk body _) (some g) none _, _, _ => by
        simp only [lokG, and_fnh, lokListG_and L A B g]; ac_rfl
    | .assign _ _ _ _ none _, _, _ => by simp only [lokG, Bool.and_self]
    | .assignExisting _ _ _ _ none _, _, _ => by simp only [lokG, Bool.and_self]
    | .assignIndex _ _ none _, _, _ => by simp only [lokG, Bool.and_self]
    | .ifS _ (.mk _ _) none none _, _, _ => by simp only [lokG, Bool.and_self]
    | .ifS _ (.mk _ _) (some (.mk _ _)) none _, _, _ => by simp only [lokG, Bool.and_self]
    | .loop _ (.mk _ _) none _, _, _ => by simp only [lokG, Bool.and_self]
    | .block (.mk _ _) none _, _, _ => by simp only [lokG, Bool.and_self]
    | .fnDef _ _ _ (.mk _ _) none none _, _, _ => by simp only [lokG, Bool.and_self]
    | .ret (some _) none _, _, _ => by simp only [lokG, Bool.and_self]
    | .ret none none _, _, _ => by simp only [lokG, Bool.and_self]
    | .brk none _, _, _ => by simp only [lokG, Bool.and_self]
    | .cont none _, _, _ => by simp only [lokG, Bool.and_self]
    | .expr _ none _, _, _ => by simp only [lokG, Bool.and_self]
  theorem lokListG_and (L : LSetup) (A B : Atoms) (f : Nat) (σ : List (Option Nat)) (lc : LoopCtx) :
      ∀ (ss : List Stmt) (post : LS),
      lokListG L (A.and B) f σ lc ss post = (lokListG L A f σ lc ss post && lokListG L B f σ lc ss post)
    | [], _ => by simp only [lokListG, Bool.and_self]
    | s :: ss, post => by
        simp only [lokListG, lokG_and L A B f σ lc s, lokListG_and L A B f σ lc ss]; ac_rfl
end

/-! ### Splitting `efitList`: callees and variables -/

mutual
  theorem eOk_split (X D : Nat → Bool) : ∀ e : Expr,
      eOk X D e = (eOk X (fun _ => false) e && eOk (fun _ => true) D e)
    | .var _ (some id) _ => by simp [eOk]
    | .var _ none _ => by simp [eOk]
    | .str (.interp segs) _ => by simp only [eOk, ResolveFacts.segsOk_noD, Bool.true_and]
    | .str (.static _) _ | .num _ _ | .bool _ _ | .null _ => by simp [eOk]
    | .call (.var _ _ _) args fn _ => by
        simp only [eOk]
        rw [eOkList_split X D args]
        cases fn <;> simp only [Bool.true_and] <;> ac_rfl
    | .call (.member o _ _ _) args _ _ => by
        simp only [eOk]
        rw [eOk_split X D o, eOkList_split X D args]; ac_rfl
    | .call (.index _ _ _ _) args _ _ | .call (.str _ _) args _ _ | .call (.num _ _) args _ _
    | .call (.binary _ _ _ _) args _ _ | .call (.call _ _ _ _) args _ _
    | .call (.array _ _) args _ _ | .call (.unary _ _ _) args _ _
    | .call (.bool _ _) args _ _ | .call (.null _) args _ _ => by
        simp only [eOk]
        exact eOkList_split X D args
    | .binary _ l r _ => by
        simp only [eOk]
        rw [eOk_split X D l, eOk_split X D r]; ac_rfl
    | .index a i _ _ => by
        simp only [eOk]
        rw [eOk_split X D a, eOk_split X D i]; ac_rfl
    | .array es _ => by simp only [eOk]; exact eOkList_split X D es
    | .unary _ e _ => by simp only [eOk]; exact eOk_split X D e
    | .member o _ _ _ => by simp only [eOk]; exact eOk_split X D o
  theorem eOkList_split (X D : Nat → Bool) : ∀ es : List Expr,
      eOkList X D es = (eOkList X (fun _ => false) es && eOkList (fun _ => true) D es)
    | [] => by simp [eOkList]
    | e :: es => by
        simp only [eOkList]
        rw [eOk_split X D e, eOkList_split X D es]; ac_rfl
end

/-! ### The part of the walk that `ownOkB` proves -/

/-- Proved atoms: the facts of a statement name its function and cover the user calls of its own
expressions (`ownOkB`); every other atom is left to the rest. -/
def ownAtoms (L : LSetup) : Atoms where
  base := fun f _ i es => L.c.fnOf i == f && eOkList (fun g => (L.c.callees i).contains g) (fun _ => false) es
  wok := fun _ => true
  other := fun _ => true
  blk := fun _ _ _ => true
  own := fun _ _ => true
  store := fun _ _ _ _ _ _ _ _ => true
  cap := fun _ _ _ _ => true
  fix := fun _ _ _ _ => true
  fnh := fun _ _ _ => true

/-- Remaining atoms: of `baseB` only the VARIABLE part of `efitList` (reads recorded, declaring scope in
the chain / capture reads in the summary), and every other atom of `lokB`. -/
def restAtoms (L : LSetup) : Atoms :=
  { atomsOf L with base := fun f σ i es => eOkList (fun _ => true) (fun x => !L.varFit f σ i x) es }

theorem atomsOf_split (L : LSetup) : atomsOf L = (ownAtoms L).and (restAtoms L) := by
  have hb : (atomsOf L).base = ((ownAtoms L).and (restAtoms L)).base := by
    funext f σ i es
    show L.baseB f σ i es = _
    simp only [LSetup.baseB, LSetup.efitList, Atoms.and, ownAtoms, restAtoms]
    rw [eOkList_split (fun g => (L.c.callees i).contains g) (fun x => !L.varFit f σ i x) es]
    ac_rfl
  cases hA : atomsOf L with
  | mk b w o k n s c x h =>
    rw [hA] at hb
    simp only [Atoms.and, ownAtoms, restAtoms, hA, Bool.true_and] at hb ⊢
    rw [hb]

theorem own_base (L : LSetup) {f i : Nat} {es : List Expr} (σ : List (Option Nat)) (ha : (L.c.fnOf i == f) = true)
    (hb : eOkList (fun g => (L.c.callees i).contains g) (fun _ => false) es = true) : (ownAtoms L).base f σ i es = true := by
  simp only [ownAtoms, ha, hb, Bool.and_self]
theorem own_wok (L : LSetup) (i : Nat) : (ownAtoms L).wok i = true := rfl
theorem own_other (L : LSetup) (i : Nat) : (ownAtoms L).other i = true := rfl
theorem own_blk (L : LSetup) (f : Nat) (σ : List (Option Nat)) (b : List Stmt) : (ownAtoms L).blk f σ b = true := rfl
theorem own_own (L : LSetup) (l f : Nat) : (ownAtoms L).own l f = true := rfl
theorem own_store (L : LSetup) (f : Nat) (σ : List (Option Nat)) (i : Nat) (d : Bool) (l : Nat) (e : Expr) (st : LS)
    (rest : List Stmt) : (ownAtoms L).store f σ i d l e st rest = true := rfl
theorem own_cap (L : LSetup) (f : Nat) (σ : List (Option Nat)) (i l : Nat) : (ownAtoms L).cap f σ i l = true := rfl
theorem own_fix (L : LSetup) (f i : Nat) (b : List Stmt) (st : LS) : (ownAtoms L).fix f i b st = true := rfl
theorem own_fnh (L : LSetup) (g : Nat) (ps : List Param) (body : List Stmt) : (ownAtoms L).fnh g ps body = true := rfl

set_option linter.unusedSimpArgs false in
mutual
  theorem lokG_own_of_sok (L : LSetup) {S : Setup} (q : Nat → Expr → Bool) (h1 : S.fnOf = L.c.fnOf)
      (h2 : S.callees = L.c.callees) (h3 : S.D2 = fun _ => false) (f : Nat) (σ : List (Option Nat)) (lc : LoopCtx) :
      ∀ (s : Stmt) (st : LS) (rest : List Stmt), sokB S q f s = true → lokG L (ownAtoms L) f σ lc s st rest = true
    | .assign _ _ e b (some i) _, st, rest, h => by
        simp only [sokB, Setup.baseB, h1, h2, h3, Bool.and_eq_true] at h
        cases b <;> simp only [lokG, own_wok, own_other, own_blk, own_own, own_store, own_cap, own_fix, own_fnh, Bool.and_self, Bool.and_true, Bool.true_and, ite_self, own_base L σ h.1.1 h.1.2]
    | .assignExisting _ _ e b (some i) _, st, rest, h => by
        simp only [sokB, Setup.baseB, h1, h2, h3, Bool.and_eq_true] at h
        cases b <;> simp only [lokG, own_wok, own_other, own_blk, own_own, own_store, own_cap, own_fix, own_fnh, Bool.and_self, Bool.and_true, Bool.true_and, ite_self, own_base L σ h.1.1 h.1.2]
    | .assignIndex t e (some i) _, _, _, h => by
        simp only [sokB, Setup.baseB, h1, h2, h3, Bool.and_eq_true] at h
        simp only [lokG, own_wok, own_other, own_blk, own_own, own_store, own_cap, own_fix, own_fnh, Bool.and_self, Bool.and_true, Bool.true_and, ite_self, own_base L σ h.1.1 h.1.2]
    | .ifS c (.mk t _) none (some i) _, st, _, h => by
        simp only [sokB, Setup.baseB, h1, h2, h3, Bool.and_eq_true] at h
        simp only [lokG, own_wok, own_other, own_blk, own_own, own_store, own_cap, own_fix, own_fnh, Bool.and_self, Bool.and_true, Bool.true_and, ite_self, own_base L σ h.1.1.1 h.1.1.2, lokListG_own_of_sok L q h1 h2 h3 f _ _ t _ h.2]
    | .ifS c (.mk t _) (some (.mk e _)) (some i) _, st, _, h => by
        simp only [sokB, Setup.baseB, h1, h2, h3, Bool.and_eq_true] at h
        simp only [lokG, own_wok, own_other, own_blk, own_own, own_store, own_cap, own_fix, own_fnh, Bool.and_self, Bool.and_true, Bool.true_and, ite_self, own_base L σ h.1.1.1.1 h.1.1.1.2, lokListG_own_of_sok L q h1 h2 h3 f _ _ t _ h.1.2,
          lokListG_own_of_sok L q h1 h2 h3 f _ _ e _ h.2]
    | .loop c (.mk b _) (some i) _, st, _, h => by
        simp only [sokB, Setup.baseB, h1, h2, h3, Bool.and_eq_true] at h
        simp only [lokG, own_wok, own_other, own_blk, own_own, own_store, own_cap, own_fix, own_fnh, Bool.and_self, Bool.and_true, Bool.true_and, ite_self, own_base L σ h.1.1.1 h.1.1.2, lokListG_own_of_sok L q h1 h2 h3 f _ _ b _ h.2]
    | .block (.mk b _) (some i) _, st, _, h => by
        simp only [sokB, Setup.baseB, h1, h2, h3, Bool.and_eq_true] at h
        simp only [lokG, own_wok, own_other, own_blk, own_own, own_store, own_cap, own_fix, own_fnh, Bool.and_self, Bool.and_true, Bool.true_and, ite_self, own_base L σ h.1.1.1 h.1.1.2, lokListG_own_of_sok L q h1 h2 h3 f _ _ b _ h.2]
    | .fnDef _ _ ps (.mk body _) (some g) (some i) _, _, _, h => by
        simp only [sokB, Setup.baseB, h1, h2, h3, Bool.and_eq_true] at h
        simp only [lokG, own_wok, own_other, own_blk, own_own, own_store, own_cap, own_fix, own_fnh, Bool.and_self, Bool.and_true, Bool.true_and, ite_self, own_base L σ h.1.1.1 h.1.1.2, lokListG_own_of_sok L q h1 h2 h3 g _ _ body _ h.2]
    | .fnDef _ _ _ (.mk _ _) none (some i) _, _, _, h => by
        simp only [sokB, Setup.baseB, h1, h2, h3, Bool.and_eq_true] at h
        simp only [lokG, own_wok, own_other, own_blk, own_own, own_store, own_cap, own_fix, own_fnh, Bool.and_self, Bool.and_true, Bool.true_and, ite_self, own_base L σ h.1.1 h.1.2]
    | .ret (some e) (some i) _, _, _, h => by
        simp only [sokB, Setup.baseB, h1, h2, h3, Bool.and_eq_true] at h
        simp only [lokG, own_wok, own_other, own_blk, own_own, own_store, own_cap, own_fix, own_fnh, Bool.and_self, Bool.and_true, Bool.true_and, ite_self, own_base L σ h.1.1 h.1.2]
    | .ret none (some i) _, _, _, h => by
        simp only [sokB, Setup.baseB, h1, h2, h3, Bool.and_eq_true] at h
        simp only [lokG, own_wok, own_other, own_blk, own_own, own_store, own_cap, own_fix, own_fnh, Bool.and_self, Bool.and_true, Bool.true_and, ite_self, own_base L σ h.1.1 h.1.2]
    | .brk (some i) _, _, _, h => by
        simp only [sokB, Setup.baseB, h1, h2, h3, Bool.and_eq_true] at h
        simp only [lokG, own_wok, own_other, own_blk, own_own, own_store, own_cap, own_fix, own_fnh, Bool.and_self, Bool.and_true, Bool.true_and, ite_self, own_base L σ h.1.1 h.1.2]
    | .cont (some i) _, _, _, h => by
        simp only [sokB, Setup.baseB, h1, h2, h3, Bool.and_eq_true] at h
        simp only [lokG, own_wok, own_other, own_blk, own_own, own_store, own_cap, own_fix, own_fnh, Bool.and_self, Bool.and_true, Bool.true_and, ite_self, own_base L σ h.1.1 h.1.2]
    | .expr e (some i) _, _, _, h => by
        simp only [sokB, Setup.baseB, h1, h2, h3, Bool.and_eq_true] at h
        simp only [lokG, own_wok, own_other, own_blk, own_own, own_store, own_cap, own_fix, own_fnh, Bool.and_self, Bool.and_true, Bool.true_and, ite_self, own_base L σ h.1.1 h.1.2]
    | .fnDef _ _ ps (.mk body _) (some g) none _, _, _, h => by
        simp only [sokB] at h
        simp only [lokG, own_wok, own_other, own_blk, own_own, own_store, own_cap, own_fix, own_fnh, Bool.and_self, Bool.and_true, Bool.true_and, ite_self, lokListG_own_of_sok L q h1 h2 h3 g _ _ body _ h]
    | .assign _ _ _ _ none _, _, _, _ => by simp only [lokG]
    | .assignExisting _ _ _ _ none _, _, _, _ => by simp only [lokG]
    | .assignIndex _ _ none _, _, _, _ => by simp only [lokG]
    | .ifS _ (.mk _ _) none none _, _, _, _ => by simp only [lokG]
    | .ifS _ (.mk _ _) (some (.mk _ _)) none _, _, _, _ => by simp only [lokG]
    | .loop _ (.mk _ _) none _, _, _, _ => by simp only [lokG]
    | .block (.mk _ _) none _, _, _, _ => by simp only [lokG]
    | .fnDef _ _ _ (.mk _ _) none none _, _, _, _ => by simp only [lokG]
    | .ret (some _) none _, _, _, _ => by simp only [lokG]
    | .ret none none _, _, _, _ => by simp only [lokG]
    | .brk none _, _, _, _ => by simp only [lokG]
    | .cont none _, _, _, _ => by simp only [lokG]
    | .expr _ none _, _, _, _ => by simp only [lokG]
  theorem lokListG_own_of_sok (L : LSetup) {S : Setup} (q : Nat → Expr → Bool) (h1 : S.fnOf = L.c.fnOf)
      (h2 : S.callees = L.c.callees) (h3 : S.D2 = fun _ => false) (f : Nat) (σ : List (Option Nat)) (lc : LoopCtx) :
      ∀ (ss : List Stmt) (post : LS), sokListB S q f ss = true → lokListG L (ownAtoms L) f σ lc ss post = true
    | [], _, _ => by simp only [lokListG]
    | s :: ss, post, h => by
        simp only [sokListB, Bool.and_eq_true] at h
        simp only [lokListG, Bool.and_eq_true]
        exact ⟨lokG_own_of_sok L q h1 h2 h3 f σ lc s _ ss h.1, lokListG_own_of_sok L q h1 h2 h3 f σ lc ss post h.2⟩
end

/-! ### `structRestB`, split once more -/

/-- The setting of `structOkB`'s walk. -/
abbrev L0 (root : Block) (facts : Facts) : LSetup := lsetupOf root facts none (safe2B (mkCtx root facts))

/-- The walk over the proved atoms. -/
def ownWalkB (root : Block) (facts : Facts) : Bool :=
  lokListG (L0 root facts) (ownAtoms (L0 root facts)) 0 [blockTag (L0 root facts).ss root.stmts, none]
    { brk := none, cont := none, kills := [] } root.stmts (boundary [])

/-- What remains of `structOkB` after everything proved of the resolver model is taken out: the scope of
the top-level block, and the walk over the remaining atoms (`restAtoms`). -/
def structRest2B (root : Block) (facts : Facts) : Bool :=
  (L0 root facts).blockOkB 0 [none] root.stmts &&
  lokListG (L0 root facts) (restAtoms (L0 root facts)) 0 [blockTag (L0 root facts).ss root.stmts, none]
    { brk := none, cont := none, kills := [] } root.stmts (boundary [])

theorem structRestB_split (root : Block) (facts : Facts) :
    structRestB root facts = (ownWalkB root facts && structRest2B root facts) := by
  simp only [structRestB, rootOkB, ownWalkB, structRest2B]
  rw [lokListB_eq_lokListG, atomsOf_split, lokListG_and]
  ac_rfl

/-- **The walk over the proved atoms succeeds on every output of the resolver model** (`ownOkB`). -/
theorem resolveWith_ownWalk (spanLen : Bool) (q : Block) :
    ownWalkB (Resolve.resolveWith spanLen q).root (Resolve.resolveWith spanLen q).facts = true :=
  lokListG_own_of_sok _ (fun _ _ => false) rfl rfl rfl 0 _ _ _ _ (ResolveFacts.resolveWith_ownOk spanLen q)

/-- **`structOkB` of an accepted output of the resolver model** from `structRest2B` alone. -/
theorem resolveWith_structOk2 (spanLen : Bool) (q : Block) (h : (Resolve.resolveWith spanLen q).rdiags = [])
    (hrest : structRest2B (Resolve.resolveWith spanLen q).root (Resolve.resolveWith spanLen q).facts = true) :
    structOkB (Resolve.resolveWith spanLen q).root (Resolve.resolveWith spanLen q).facts = true := by
  apply resolveWith_structOk spanLen q h
  rw [structRestB_split, resolveWith_ownWalk, hrest]
  rfl

end NaijaVerif.ResolveStruct
