import NaijaVerif.Lemmas.AnalysisRel
/-
The time-varying agreement relation of the liveness simulation (T5, `c03_full`).

The environments of the pruned and of the plain run have the same shape (same scope tags).  Every
runtime scope has a *frame*: a set `A` of locals on which the two scopes agree (the locals live at
the current program point of the activation the scope belongs to) and a set `M` of locals whose
declaration the pruned run skipped in this scope instance (their slots may be missing; nothing
refers to them any more).  Only the locals declared by the resolver scope the runtime scope is an
instance of (`ds x = tag`) are ever looked for in it, so only those are constrained.
-/
namespace NaijaVerif.C03
open NaijaVerif NaijaVerif.Analysis NaijaVerif.AEval

variable {V : Type}

structure Frame where
  tag : Option Nat
  /-- locals whose values agree -/
  A : Nat → Prop
  /-- locals whose slots may be missing on the pruned side -/
  M : Nat → Prop

/-- Agreement of one pair of scopes. -/
def ScopeAgree (ds : Nat → Option Nat) (fr : Frame) (sa sb : List (Slot V)) : Prop :=
  ∀ x tg, ds x = some tg → fr.tag = some tg → ¬ fr.M x →
    ((findSlot x sa).isSome = (findSlot x sb).isSome) ∧ (fr.A x → findSlot x sa = findSlot x sb)

def ERel (ds : Nat → Option Nat) : List Frame → List (Scope V) → List (Scope V) → Prop
  | [], [], [] => True
  | fr :: Γ, sa :: a, sb :: b =>
      sa.tag = fr.tag ∧ sb.tag = fr.tag ∧ ScopeAgree ds fr sa.slots sb.slots ∧ ERel ds Γ a b
  | _, _, _ => False

/-- First frame that is an instance of scope `tg`. -/
def findFrame (tg : Nat) : List Frame → Option Frame
  | [] => none
  | fr :: Γ => if fr.tag == some tg then some fr else findFrame tg Γ

/-- `fr'` claims no more than `fr`. -/
def FLe (ds : Nat → Option Nat) (fr' fr : Frame) : Prop :=
  fr'.tag = fr.tag ∧ ∀ y tg, ds y = some tg → fr.tag = some tg → (fr'.A y → fr.A y) ∧ (fr.M y → fr'.M y)

def GLe (ds : Nat → Option Nat) : List Frame → List Frame → Prop
  | [], [] => True
  | f' :: Γ', f :: Γ => FLe ds f' f ∧ GLe ds Γ' Γ
  | _, _ => False

theorem FLe.refl (ds : Nat → Option Nat) (fr : Frame) : FLe ds fr fr :=
  ⟨rfl, fun _ _ _ _ => ⟨id, id⟩⟩

theorem GLe.refl (ds : Nat → Option Nat) : ∀ Γ : List Frame, GLe ds Γ Γ
  | [] => trivial
  | fr :: Γ => ⟨FLe.refl ds fr, GLe.refl ds Γ⟩

theorem GLe.append {ds : Nat → Option Nat} : ∀ {Γ1' Γ1 Γ2' Γ2 : List Frame}, GLe ds Γ1' Γ1 → GLe ds Γ2' Γ2 →
    GLe ds (Γ1' ++ Γ2') (Γ1 ++ Γ2)
  | [], [], _, _, _, h2 => h2
  | [], _ :: _, _, _, h1, _ => by cases h1
  | _ :: _, [], _, _, h1, _ => by cases h1
  | _ :: _, _ :: _, _, _, h1, h2 => ⟨h1.1, GLe.append h1.2 h2⟩

theorem scopeAgree_mono {ds : Nat → Option Nat} {fr' fr : Frame} (h : FLe ds fr' fr) {sa sb : List (Slot V)}
    (hs : ScopeAgree ds fr sa sb) : ScopeAgree ds fr' sa sb := by
  intro x tg hx ht hm
  have ht' : fr.tag = some tg := by rw [← h.1]; exact ht
  have hk := h.2 x tg hx ht'
  have := hs x tg hx ht' (fun hM => hm (hk.2 hM))
  exact ⟨this.1, fun ha => this.2 (hk.1 ha)⟩

theorem erel_mono {ds : Nat → Option Nat} : ∀ {Γ' Γ : List Frame} {a b : List (Scope V)}, GLe ds Γ' Γ →
    ERel ds Γ a b → ERel ds Γ' a b
  | [], [], _, _, _, h => h
  | [], _ :: _, _, _, hg, _ => by cases hg
  | _ :: _, [], _, _, hg, _ => by cases hg
  | f' :: Γ', f :: Γ, [], _, _, h => by cases h
  | f' :: Γ', f :: Γ, _ :: _, [], _, h => by cases h
  | f' :: Γ', f :: Γ, sa :: a, sb :: b, hg, h => by
      obtain ⟨h1, h2, h3, h4⟩ := h
      exact ⟨by rw [h1, hg.1.1], by rw [h2, hg.1.1], scopeAgree_mono hg.1 h3, erel_mono hg.2 h4⟩

/-! ### Lookup -/

theorem erel_findScope {ds : Nat → Option Nat} (tg : Nat) : ∀ {Γ : List Frame} {a b : List (Scope V)}, ERel ds Γ a b →
    (findFrame tg Γ = none ∧ findScope tg a = none ∧ findScope tg b = none) ∨
    (∃ fr sa sb, findFrame tg Γ = some fr ∧ findScope tg a = some sa ∧ findScope tg b = some sb ∧
      fr.tag = some tg ∧ ScopeAgree ds fr sa.slots sb.slots)
  | [], [], [], _ => Or.inl ⟨rfl, rfl, rfl⟩
  | [], [], _ :: _, h | [], _ :: _, _, h | _ :: _, [], _, h | _ :: _, _ :: _, [], h => by cases h
  | fr :: Γ, sa :: a, sb :: b, h => by
      obtain ⟨h1, h2, h3, h4⟩ := h
      simp only [findFrame, findScope, h1, h2]
      by_cases ht : fr.tag = some tg
      · simp only [ht, beq_self_eq_true, ↓reduceIte]
        exact Or.inr ⟨fr, sa, sb, rfl, rfl, rfl, ht, h3⟩
      · have : (fr.tag == some tg) = false := by simpa using ht
        simp only [this, Bool.false_eq_true, ↓reduceIte]
        exact erel_findScope tg h4

theorem erel_lookup {ds : Nat → Option Nat} {Γ : List Frame} {a b : List (Scope V)} (h : ERel ds Γ a b) {x tg : Nat}
    (hx : ds x = some tg) (hf : ∀ fr, findFrame tg Γ = some fr → fr.A x ∧ ¬ fr.M x) :
    lookupEnv ds x a = lookupEnv ds x b := by
  simp only [lookupEnv, hx]
  rcases erel_findScope tg h with ⟨_, ha, hb⟩ | ⟨fr, sa, sb, hfr, ha, hb, ht, hs⟩
  · simp [ha, hb]
  · simp only [ha, hb]
    have := hf fr hfr
    exact (hs x tg hx ht this.2).2 this.1

theorem erel_readAll {ds : Nat → Option Nat} {Γ : List Frame} {a b : List (Scope V)} (h : ERel ds Γ a b) :
    ∀ ids : List (Option Nat),
      (∀ x, some x ∈ ids → ∀ tg, ds x = some tg → ∀ fr, findFrame tg Γ = some fr → fr.A x ∧ ¬ fr.M x) →
      readAll ds a ids = readAll ds b ids
  | [], _ => rfl
  | none :: _, _ => rfl
  | some x :: ids, hh => by
      have e2 := erel_readAll h ids (fun y hy => hh y (List.mem_cons_of_mem _ hy))
      have e1 : lookupEnv ds x a = lookupEnv ds x b := by
        cases hx : ds x with
        | none => simp [lookupEnv, hx]
        | some tg => exact erel_lookup h hx (hh x (by simp) tg hx)
      simp only [readAll, e1, e2]

/-! ### Stores -/

/-- Apply `g` to the first frame that is an instance of `tg`. -/
def updFrame (tg : Nat) (g : Frame → Frame) : List Frame → List Frame
  | [] => []
  | fr :: Γ => if fr.tag == some tg then g fr :: Γ else fr :: updFrame tg g Γ

def Frame.addA (x : Nat) (fr : Frame) : Frame := { fr with A := fun y => fr.A y ∨ y = x }
def Frame.delA (x : Nat) (fr : Frame) : Frame := { fr with A := fun y => fr.A y ∧ y ≠ x }
def Frame.addM (x : Nat) (fr : Frame) : Frame := { fr with M := fun y => fr.M y ∨ y = x }

theorem findSlot_setSlot_ne {x y : Nat} {v : V} (hne : y ≠ x) : ∀ (s s' : List (Slot V)), setSlot x v s = some s' →
    findSlot y s' = findSlot y s
  | [], _, h => by simp [setSlot] at h
  | p :: ps, s', h => by
      simp only [setSlot] at h
      by_cases hp : p.id = x
      · simp only [hp, beq_self_eq_true, ↓reduceIte, Option.some.injEq] at h
        subst h
        have : (x == y) = false := by simpa using fun e => hne e.symm
        simp [findSlot, hp, this]
      · have hpx : (p.id == x) = false := by simpa using hp
        simp only [hpx, Bool.false_eq_true, ↓reduceIte] at h
        cases e : setSlot x v ps with
        | none => simp [e] at h
        | some t =>
          simp only [e, Option.map_some, Option.some.injEq] at h
          subst h
          simp only [findSlot, findSlot_setSlot_ne hne ps t e]

theorem findSlot_setSlot_eq {x : Nat} {v : V} : ∀ (s s' : List (Slot V)), setSlot x v s = some s' →
    findSlot x s' = some v
  | [], _, h => by simp [setSlot] at h
  | p :: ps, s', h => by
      simp only [setSlot] at h
      by_cases hp : p.id = x
      · simp only [hp, beq_self_eq_true, ↓reduceIte, Option.some.injEq] at h
        subst h
        simp [findSlot]
      · have hpx : (p.id == x) = false := by simpa using hp
        simp only [hpx, Bool.false_eq_true, ↓reduceIte] at h
        cases e : setSlot x v ps with
        | none => simp [e] at h
        | some t =>
          simp only [e, Option.map_some, Option.some.injEq] at h
          subst h
          simp only [findSlot, hpx, Bool.false_eq_true, ↓reduceIte, findSlot_setSlot_eq ps t e]

theorem setSlot_isSome {x : Nat} {v : V} : ∀ (s : List (Slot V)), (setSlot x v s).isSome = (findSlot x s).isSome
  | [] => rfl
  | p :: ps => by
      simp only [setSlot, findSlot]
      by_cases hp : p.id = x
      · simp [hp]
      · have hpx : (p.id == x) = false := by simpa using hp
        simp only [hpx, Bool.false_eq_true, ↓reduceIte, Option.isSome_map, setSlot_isSome ps]

theorem findSlot_isSome_of_setSlot {x : Nat} {v : V} {s s' : List (Slot V)} (h : setSlot x v s = some s') :
    (findSlot x s).isSome = true := by
  rw [← setSlot_isSome (v := v), h]; rfl

/-- Both runs store the same value into `x`. -/
theorem scopeAgree_set {ds : Nat → Option Nat} {fr : Frame} {x : Nat} {v : V} {sa sb sa' sb' : List (Slot V)}
    (hs : ScopeAgree ds fr sa sb) (ha : setSlot x v sa = some sa') (hb : setSlot x v sb = some sb') :
    ScopeAgree ds (fr.addA x) sa' sb' := by
  intro y tg hy ht hm
  by_cases hyx : y = x
  · subst hyx
    rw [findSlot_setSlot_eq _ _ ha, findSlot_setSlot_eq _ _ hb]
    exact ⟨rfl, fun _ => rfl⟩
  · rw [findSlot_setSlot_ne hyx _ _ ha, findSlot_setSlot_ne hyx _ _ hb]
    have := hs y tg hy ht hm
    refine ⟨this.1, fun hA => this.2 ?_⟩
    rcases hA with hA | hA
    · exact hA
    · exact absurd hA hyx

theorem erel_setIn {ds : Nat → Option Nat} {x tg : Nat} {v : V} (hx : ds x = some tg) :
    ∀ {Γ : List Frame} {a b : List (Scope V)}, ERel ds Γ a b → (∀ fr, findFrame tg Γ = some fr → ¬ fr.M x) →
    ORel (ERel ds (updFrame tg (Frame.addA x) Γ)) (setIn tg x v a) (setIn tg x v b)
  | [], [], [], _, _ => by simp [setIn, ORel]
  | [], [], _ :: _, h, _ | [], _ :: _, _, h, _ | _ :: _, [], _, h, _ | _ :: _, _ :: _, [], h, _ => by cases h
  | fr :: Γ, sa :: a, sb :: b, h, hf => by
      obtain ⟨h1, h2, h3, h4⟩ := h
      simp only [setIn, updFrame, h1, h2]
      by_cases ht : fr.tag = some tg
      · simp only [ht, beq_self_eq_true, ↓reduceIte]
        have hm : ¬ fr.M x := hf fr (by simp [findFrame, ht])
        have hsome := (h3 x tg hx ht hm).1
        rw [← setSlot_isSome (v := v), ← setSlot_isSome (v := v)] at hsome
        cases ea : setSlot x v sa.slots with
        | none =>
          cases eb : setSlot x v sb.slots with
          | none => simp [ORel]
          | some _ => simp [ea, eb] at hsome
        | some sa' =>
          cases eb : setSlot x v sb.slots with
          | none => simp [ea, eb] at hsome
          | some sb' =>
            simp only [Option.map_some, ORel]
            exact ⟨ht.symm, ht.symm, scopeAgree_set h3 ea eb, h4⟩
      · have hne : (fr.tag == some tg) = false := by simpa using ht
        simp only [hne, Bool.false_eq_true, ↓reduceIte]
        have ih := erel_setIn (v := v) hx h4 (fun fr' hfr' => hf fr' (by simpa [findFrame, hne] using hfr'))
        cases ea : setIn tg x v a <;> cases eb : setIn tg x v b <;> simp only [ea, eb, ORel, Option.map_some, Option.map_none] at ih ⊢
        exact ⟨h1, h2, h3, ih⟩

theorem erel_assign {ds : Nat → Option Nat} {x tg : Nat} {v : V} (hx : ds x = some tg)
    {Γ : List Frame} {a b : List (Scope V)} (h : ERel ds Γ a b) (hf : ∀ fr, findFrame tg Γ = some fr → ¬ fr.M x) :
    ORel (ERel ds (updFrame tg (Frame.addA x) Γ)) (assignEnv ds x v a) (assignEnv ds x v b) := by
  simp only [assignEnv, hx]
  exact erel_setIn hx h hf

/-- A store only the plain run performs. -/
theorem scopeAgree_set_plain {ds : Nat → Option Nat} {fr : Frame} {x : Nat} {v : V} {sa sb sb' : List (Slot V)}
    (hs : ScopeAgree ds fr sa sb) (hb : setSlot x v sb = some sb') :
    ScopeAgree ds (fr.delA x) sa sb' := by
  intro y tg hy ht hm
  by_cases hyx : y = x
  · subst hyx
    have := hs y tg hy ht hm
    refine ⟨?_, fun hA => absurd rfl hA.2⟩
    rw [this.1, findSlot_isSome_of_setSlot hb, findSlot_setSlot_eq _ _ hb]; rfl
  · rw [findSlot_setSlot_ne hyx _ _ hb]
    have := hs y tg hy ht hm
    exact ⟨this.1, fun hA => this.2 hA.1⟩

theorem erel_setIn_plain {ds : Nat → Option Nat} {x tg : Nat} {v : V} :
    ∀ {Γ : List Frame} {a b b' : List (Scope V)}, ERel ds Γ a b → setIn tg x v b = some b' →
    ERel ds (updFrame tg (Frame.delA x) Γ) a b'
  | [], [], [], _, _, h => by simp [setIn] at h
  | [], [], _ :: _, _, h, _ | [], _ :: _, _, _, h, _ | _ :: _, [], _, _, h, _ | _ :: _, _ :: _, [], _, h, _ => by cases h
  | fr :: Γ, sa :: a, sb :: b, b', h, hb => by
      obtain ⟨h1, h2, h3, h4⟩ := h
      simp only [setIn, h2] at hb
      simp only [updFrame]
      by_cases ht : fr.tag = some tg
      · simp only [ht, beq_self_eq_true, ↓reduceIte] at hb ⊢
        cases eb : setSlot x v sb.slots with
        | none => simp [eb] at hb
        | some sb' =>
          simp only [eb, Option.map_some, Option.some.injEq] at hb
          subst hb
          exact ⟨h1, ht.symm, scopeAgree_set_plain h3 eb, h4⟩
      · have hne : (fr.tag == some tg) = false := by simpa using ht
        simp only [hne, Bool.false_eq_true, ↓reduceIte] at hb ⊢
        cases eb : setIn tg x v b with
        | none => simp [eb] at hb
        | some t =>
          simp only [eb, Option.map_some, Option.some.injEq] at hb
          subst hb
          exact ⟨h1, h2, h3, erel_setIn_plain h4 eb⟩

theorem erel_assign_plain {ds : Nat → Option Nat} {x tg : Nat} {v : V} (hx : ds x = some tg)
    {Γ : List Frame} {a b b' : List (Scope V)} (h : ERel ds Γ a b) (hb : assignEnv ds x v b = some b') :
    ERel ds (updFrame tg (Frame.delA x) Γ) a b' := by
  simp only [assignEnv, hx] at hb
  exact erel_setIn_plain h hb

/-- Both runs declare `x` (a new slot in the innermost scope) with the same value. -/
theorem erel_define {ds : Nat → Option Nat} {x : Nat} {v : V} {fr : Frame} {Γ : List Frame} :
    ∀ {a b : List (Scope V)}, ERel ds (fr :: Γ) a b → ERel ds (fr.addA x :: Γ) (defineEnv x v a) (defineEnv x v b)
  | [], _, h => by cases h
  | _ :: _, [], h => by cases h
  | sa :: a, sb :: b, h => by
      obtain ⟨h1, h2, h3, h4⟩ := h
      refine ⟨h1, h2, ?_, h4⟩
      intro y tg hy ht hm
      simp only [findSlot]
      by_cases hyx : x = y
      · subst hyx
        simp
      · have hne : (x == y) = false := by simpa using hyx
        simp only [hne, Bool.false_eq_true, ↓reduceIte]
        have := h3 y tg hy ht hm
        refine ⟨this.1, fun hA => this.2 ?_⟩
        rcases hA with hA | hA
        · exact hA
        · exact absurd hA.symm hyx

/-- Only the plain run declares `x`. -/
theorem erel_define_plain {ds : Nat → Option Nat} {x : Nat} {v : V} {fr : Frame} {Γ : List Frame} :
    ∀ {a b : List (Scope V)}, ERel ds (fr :: Γ) a b → ERel ds (fr.addM x :: Γ) a (defineEnv x v b)
  | [], _, h => by cases h
  | _ :: _, [], h => by cases h
  | sa :: a, sb :: b, h => by
      obtain ⟨h1, h2, h3, h4⟩ := h
      refine ⟨h1, h2, ?_, h4⟩
      intro y tg hy ht hm
      have hyx : ¬ y = x := fun e => hm (Or.inr e)
      have hm' : ¬ fr.M y := fun e => hm (Or.inl e)
      simp only [findSlot]
      have hne : (x == y) = false := by simpa using fun e => hyx e.symm
      simp only [hne, Bool.false_eq_true, ↓reduceIte]
      exact h3 y tg hy ht hm'

theorem erel_push {ds : Nat → Option Nat} {Γ : List Frame} {a b : List (Scope V)} (h : ERel ds Γ a b)
    (tg : Option Nat) (A M : Nat → Prop) (sl : List (Slot V)) :
    ERel ds (⟨tg, A, M⟩ :: Γ) (⟨tg, sl⟩ :: a) (⟨tg, sl⟩ :: b) :=
  ⟨rfl, rfl, fun _ _ _ _ _ => ⟨rfl, fun _ => rfl⟩, h⟩

theorem erel_pop {ds : Nat → Option Nat} {fr : Frame} {Γ : List Frame} : ∀ {a b : List (Scope V)},
    ERel ds (fr :: Γ) a b → ERel ds Γ (a.drop 1) (b.drop 1)
  | [], _, h => by cases h
  | _ :: _, [], h => by cases h
  | _ :: _, _ :: _, h => h.2.2.2

/-! ### The frames of the running activation -/

/-- Frames of one activation: its scope tags with their `M` sets, all with the agreement set `A`. -/
def mkTop (A : Nat → Prop) (σ : List (Option Nat × (Nat → Prop))) : List Frame :=
  σ.map fun p => ⟨p.1, A, p.2⟩

def tagsOf (σ : List (Option Nat × (Nat → Prop))) : List (Option Nat) := σ.map (·.1)

/-- No resolver scope is instantiated twice in the activation. -/
def TagsNodup : List (Option Nat) → Prop
  | [] => True
  | t :: ts => (∀ tg, t = some tg → some tg ∉ ts) ∧ TagsNodup ts

theorem findFrame_top {A : Nat → Prop} {tg : Nat} : ∀ {σ : List (Option Nat × (Nat → Prop))} {Γr : List Frame},
    some tg ∈ tagsOf σ → ∃ M, (some tg, M) ∈ σ ∧ findFrame tg (mkTop A σ ++ Γr) = some ⟨some tg, A, M⟩
  | [], _, h => by simp [tagsOf] at h
  | p :: σ, Γr, h => by
      simp only [mkTop, List.map_cons, List.cons_append, findFrame]
      by_cases ht : p.1 = some tg
      · refine ⟨p.2, ?_, ?_⟩
        · rw [← ht]; simp
        · simp [ht]
      · have hne : (p.1 == some tg) = false := by simpa using ht
        simp only [hne, Bool.false_eq_true, ↓reduceIte]
        have h' : some tg ∈ tagsOf σ := by
          simp only [tagsOf, List.map_cons, List.mem_cons] at h
          rcases h with h | h
          · exact absurd h.symm ht
          · exact h
        obtain ⟨M, hM, hf⟩ := findFrame_top (A := A) (Γr := Γr) h'
        exact ⟨M, List.mem_cons_of_mem _ hM, hf⟩

theorem findFrame_rest {A : Nat → Prop} {tg : Nat} : ∀ {σ : List (Option Nat × (Nat → Prop))} {Γr : List Frame},
    some tg ∉ tagsOf σ → findFrame tg (mkTop A σ ++ Γr) = findFrame tg Γr
  | [], _, _ => rfl
  | p :: σ, Γr, h => by
      simp only [tagsOf, List.map_cons, List.mem_cons, not_or] at h
      have hne : (p.1 == some tg) = false := by simpa using fun e => h.1 e.symm
      simp only [mkTop, List.map_cons, List.cons_append, findFrame, hne, Bool.false_eq_true, ↓reduceIte]
      exact findFrame_rest (A := A) (Γr := Γr) h.2

theorem updFrame_rest {A : Nat → Prop} {tg : Nat} {g : Frame → Frame} : ∀ {σ : List (Option Nat × (Nat → Prop))}
    {Γr : List Frame}, some tg ∉ tagsOf σ → updFrame tg g (mkTop A σ ++ Γr) = mkTop A σ ++ updFrame tg g Γr
  | [], _, _ => rfl
  | p :: σ, Γr, h => by
      simp only [tagsOf, List.map_cons, List.mem_cons, not_or] at h
      have hne : (p.1 == some tg) = false := by simpa using fun e => h.1 e.symm
      simp only [mkTop, List.map_cons, List.cons_append, updFrame, hne, Bool.false_eq_true, ↓reduceIte]
      exact congrArg _ (updFrame_rest (A := A) (Γr := Γr) h.2)

/-- Changing the agreement set of the running activation to anything that is no larger on the
locals its scopes declare. -/
theorem gle_top {ds : Nat → Option Nat} {A A' : Nat → Prop} : ∀ (σ : List (Option Nat × (Nat → Prop))),
    (∀ y tg, ds y = some tg → some tg ∈ tagsOf σ → A' y → A y) → GLe ds (mkTop A' σ) (mkTop A σ)
  | [], _ => trivial
  | p :: σ, h => by
      refine ⟨⟨rfl, fun y tg hy ht => ⟨?_, id⟩⟩, gle_top σ (fun y tg hy ht => h y tg hy (List.mem_cons_of_mem _ ht))⟩
      exact h y tg hy (by simp only [tagsOf, List.map_cons, List.mem_cons]; exact Or.inl ht.symm)

theorem erel_top_weaken {ds : Nat → Option Nat} {A A' : Nat → Prop} {σ : List (Option Nat × (Nat → Prop))}
    {Γr : List Frame} {a b : List (Scope V)} (h : ERel ds (mkTop A σ ++ Γr) a b)
    (hA : ∀ y tg, ds y = some tg → some tg ∈ tagsOf σ → A' y → A y) : ERel ds (mkTop A' σ ++ Γr) a b :=
  erel_mono (GLe.append (gle_top σ hA) (GLe.refl ds Γr)) h

/-- After `updFrame tg g` on a stack whose running activation instantiates `tg` exactly once. -/
theorem gle_upd_top {ds : Nat → Option Nat} {A A' : Nat → Prop} {tg : Nat} {g : Frame → Frame}
    (hg : ∀ fr, (g fr).tag = fr.tag ∧ (g fr).M = fr.M)
    (hgA : ∀ fr y, ds y = some tg → fr.A = A → A' y → (g fr).A y) :
    ∀ (σ : List (Option Nat × (Nat → Prop))) (Γr : List Frame), TagsNodup (tagsOf σ) → some tg ∈ tagsOf σ →
    (∀ y tg', ds y = some tg' → tg' ≠ tg → A' y → A y) →
    GLe ds (mkTop A' σ ++ Γr) (updFrame tg g (mkTop A σ ++ Γr))
  | [], _, _, h, _ => by simp [tagsOf] at h
  | p :: σ, Γr, hnd, hin, hA => by
      simp only [mkTop, List.map_cons, List.cons_append, updFrame]
      by_cases ht : p.1 = some tg
      · simp only [ht, beq_self_eq_true, ↓reduceIte]
        refine ⟨⟨by rw [(hg _).1], fun y tg' hy ht' => ⟨?_, ?_⟩⟩, ?_⟩
        · have : tg' = tg := by
            rw [(hg _).1] at ht'; simpa using ht'.symm
          subst this
          exact fun h => hgA _ y hy rfl h
        · rw [(hg _).2]; exact id
        · -- the remaining frames of the activation have other tags
          have hrest : some tg ∉ tagsOf σ := hnd.1 tg ht
          refine GLe.append (gle_top σ ?_) (GLe.refl ds Γr)
          intro y tg' hy ht' hA'
          exact hA y tg' hy (fun e => hrest (e ▸ ht')) hA'
      · have hne : (p.1 == some tg) = false := by simpa using ht
        simp only [hne, Bool.false_eq_true, ↓reduceIte]
        have hin' : some tg ∈ tagsOf σ := by
          simp only [tagsOf, List.map_cons, List.mem_cons] at hin
          rcases hin with h | h
          · exact absurd h.symm ht
          · exact h
        refine ⟨⟨rfl, fun y tg' hy ht' => ⟨?_, id⟩⟩, gle_upd_top hg hgA σ Γr hnd.2 hin' hA⟩
        exact hA y tg' hy (fun e => ht (e ▸ ht'))

end NaijaVerif.C03
