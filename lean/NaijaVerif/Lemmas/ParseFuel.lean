import NaijaVerif.Model.Parse
/-
Fuel lemmas for the parser model: more fuel never changes a result (`*_mono`), and
`3 * μ st + c` fuel is always enough, where `μ st` = tokens left (`*_adequate`).  Every loop
iteration of the parser, including every recovery path, consumes a token or exits: that is what the
adequacy proof checks branch by branch (a `bump` with a non-EOF current token strictly decreases `μ`;
nothing ever increases it).
-/
namespace NaijaVerif.Parse
open NaijaVerif

/-- Split a hypothesis `h` along every `match` / `if` of the unfolded parser function (zeta-reducing the
    `let`s in between). -/
macro "psplit" h:ident : tactic =>
  `(tactic| repeat' (first | split at $h:ident | simp only [] at $h:ident))

/-! ### Monotonicity -/

theorem expr_mono : ∀ f,
    (∀ bp st r, parseExpr f bp st = some r → parseExpr (f+1) bp st = some r) ∧
    (∀ bp l st r, parseCont f bp l st = some r → parseCont (f+1) bp l st = some r) ∧
    (∀ c st r, parseElems f c st = some r → parseElems (f+1) c st = some r) := by
  intro f
  induction f with
  | zero => simp [parseExpr, parseCont, parseElems]
  | succ f ih =>
    obtain ⟨ihe, ihc, ihl⟩ := ih
    refine ⟨?_, ?_, ?_⟩
    · intro bp st ⟨r1, r2⟩ h
      rw [parseExpr] at h ⊢
      psplit h
      all_goals grind
    · intro bp l st ⟨r1, r2⟩ h
      rw [parseCont] at h ⊢
      psplit h
      all_goals grind
    · intro c st ⟨r1, r2⟩ h
      rw [parseElems] at h ⊢
      psplit h
      all_goals grind

theorem parseExpr_mono {f bp st r} (k : Nat) (h : parseExpr f bp st = some r) :
    parseExpr (f + k) bp st = some r := by
  induction k with
  | zero => exact h
  | succ k ih => exact (expr_mono (f + k)).1 _ _ _ ih

theorem parseCont_mono {f bp l st r} (k : Nat) (h : parseCont f bp l st = some r) :
    parseCont (f + k) bp l st = some r := by
  induction k with
  | zero => exact h
  | succ k ih => exact (expr_mono (f + k)).2.1 _ _ _ _ ih

theorem parseElems_mono {f c st r} (k : Nat) (h : parseElems f c st = some r) :
    parseElems (f + k) c st = some r := by
  induction k with
  | zero => exact h
  | succ k ih => exact (expr_mono (f + k)).2.2 _ _ _ ih

theorem parseExpr_mono_le {f g bp st r} (hfg : f ≤ g) (h : parseExpr f bp st = some r) :
    parseExpr g bp st = some r := by
  obtain ⟨k, rfl⟩ := Nat.exists_eq_add_of_le hfg; exact parseExpr_mono k h

theorem parseCont_mono_le {f g bp l st r} (hfg : f ≤ g) (h : parseCont f bp l st = some r) :
    parseCont g bp l st = some r := by
  obtain ⟨k, rfl⟩ := Nat.exists_eq_add_of_le hfg; exact parseCont_mono k h

theorem parseElems_mono_le {f g c st r} (hfg : f ≤ g) (h : parseElems f c st = some r) :
    parseElems g c st = some r := by
  obtain ⟨k, rfl⟩ := Nat.exists_eq_add_of_le hfg; exact parseElems_mono k h

theorem stmt_mono : ∀ f,
    (∀ st r, parseStmt f st = some r → parseStmt (f+1) st = some r) ∧
    (∀ st r, parseStmts f st = some r → parseStmts (f+1) st = some r) ∧
    (∀ st r, parseBlock f st = some r → parseBlock (f+1) st = some r) := by
  intro f
  induction f with
  | zero => simp [parseStmt, parseStmts, parseBlock]
  | succ f ih =>
    obtain ⟨ihs, ihl, ihb⟩ := ih
    have he := (expr_mono f).1
    have hc := (expr_mono f).2.1
    refine ⟨?_, ?_, ?_⟩
    · intro st ⟨r1, r2⟩ h
      rw [parseStmt] at h ⊢
      psplit h
      all_goals grind
    · intro st ⟨r1, r2⟩ h
      rw [parseStmts] at h ⊢
      psplit h
      all_goals grind
    · intro st ⟨r1, r2⟩ h
      rw [parseBlock] at h ⊢
      psplit h
      all_goals grind

theorem parseStmt_mono {f st r} (k : Nat) (h : parseStmt f st = some r) :
    parseStmt (f + k) st = some r := by
  induction k with
  | zero => exact h
  | succ k ih => exact (stmt_mono (f + k)).1 _ _ ih

theorem parseTopStmts_mono1 : ∀ f st r, parseTopStmts f st = some r → parseTopStmts (f+1) st = some r := by
  intro f
  induction f with
  | zero => simp [parseTopStmts]
  | succ f ih =>
    intro st ⟨r1, r2⟩ h
    have hs := (stmt_mono f).1
    rw [parseTopStmts] at h ⊢
    psplit h
    all_goals grind

theorem parseTopStmts_mono {f st r} (k : Nat) (h : parseTopStmts f st = some r) :
    parseTopStmts (f + k) st = some r := by
  induction k with
  | zero => exact h
  | succ k ih => exact parseTopStmts_mono1 _ _ _ ih

theorem parseProgramFuel_mono {f toks r} (k : Nat) (h : parseProgramFuel f toks = some r) :
    parseProgramFuel (f + k) toks = some r := by
  unfold parseProgramFuel at h ⊢
  simp only [] at h ⊢
  cases heq : parseTopStmts f (PState.init toks) with
  | none => simp [heq] at h
  | some q =>
    obtain ⟨ss, st1⟩ := q
    simp only [heq] at h
    simp only [parseTopStmts_mono k heq]
    exact h

/-! ### The measure -/

/-- Tokens left: the unread tokens plus the current one unless it is `EOF`. -/
def μ (st : PState) : Nat := st.rest.length + (if st.cur.tok = .eof then 0 else 1)

theorem μ_bump_le (st : PState) : μ st.bump ≤ μ st := by
  unfold μ PState.bump
  cases h : st.rest with
  | nil => simp [eofAt]
  | cons t ts => simp; split <;> split <;> omega

theorem μ_bump_lt (st : PState) (h : st.cur.tok ≠ .eof) : μ st.bump + 1 ≤ μ st := by
  unfold μ PState.bump
  cases hr : st.rest with
  | nil => simp [eofAt, h]
  | cons t ts => simp [h]; split <;> omega

@[simp] theorem μ_err (st : PState) (k sp l) : μ (st.err k sp l) = μ st := rfl
@[simp] theorem μ_err1 (st : PState) (k sp) : μ (st.err1 k sp) = μ st := rfl

theorem μ_take_le (st : PState) : μ st.take ≤ μ st := by
  unfold μ PState.take; simp

theorem syncGo_le : ∀ (rest : List SpTok) (cur : SpTok),
    (syncGo cur rest).2.length + (if (syncGo cur rest).1.tok = .eof then 0 else 1)
      ≤ rest.length + (if cur.tok = .eof then 0 else 1) := by
  intro rest
  induction rest with
  | nil => intro cur; simp only [syncGo]; split <;> simp [eofAt]
  | cons t ts ih =>
    intro cur
    simp only [syncGo]
    split
    · simp
    · have := ih t
      have hb : (if t.tok = Tok.eof then 0 else 1) ≤ 1 := by split <;> omega
      simp only [List.length_cons]
      omega

theorem μ_sync_le (st : PState) : μ st.sync ≤ μ st := by
  unfold μ PState.sync
  exact syncGo_le st.rest st.cur

theorem μ_expect_le (st : PState) (t k sp) : μ (st.expect t k sp) ≤ μ st := by
  unfold PState.expect
  split
  · exact μ_bump_le st
  · simp

theorem beq_tok {a b : Tok} (h : (a == b) = true) : a = b := by simpa using h

theorem μ_expect_lt (st : PState) (t k sp) (h : (st.cur.tok == t) = true) (ht : t ≠ .eof) :
    μ (st.expect t k sp) + 1 ≤ μ st := by
  unfold PState.expect
  simp only [h, if_true]
  exact μ_bump_lt st (by rw [beq_tok h]; exact ht)

theorem atomOf_ne_eof {t : SpTok} {e : Expr} (h : atomOf t = some e) : t.tok ≠ .eof := by
  intro he; simp [atomOf, he] at h

theorem unaryInfo_ne_eof {t : Tok} {r} (h : unaryInfo t = some r) : t ≠ .eof := by
  intro he; rw [he, show unaryInfo Tok.eof = none by decide] at h; cases h

theorem binInfo_ne_eof {t : Tok} {r} (h : binInfo t = some r) : t ≠ .eof := by
  intro he; rw [he, show binInfo Tok.eof = none by decide] at h; cases h

theorem μ_parseField_le (st : PState) : μ (parseField st).2.2 ≤ μ st := by
  unfold parseField
  split
  · exact μ_bump_le st
  · split
    · exact Nat.le_trans (μ_bump_le _) (by simp)
    · exact Nat.le_trans (μ_bump_le _) (by simp)

theorem μ_closeBracket_le (st : PState) : μ (closeBracket st).2 ≤ μ st := by
  unfold closeBracket
  split
  · exact μ_bump_le st
  · simp

/-! ### Adequacy: expressions -/

theorem expr_adequate : ∀ f,
    (∀ bp st, 3 * μ st + 2 ≤ f → ∃ e st', parseExpr f bp st = some (e, st') ∧ μ st' ≤ μ st) ∧
    (∀ bp l st, 3 * μ st + 1 ≤ f → ∃ e st', parseCont f bp l st = some (e, st') ∧ μ st' ≤ μ st) ∧
    (∀ c st, 3 * μ st + 3 ≤ f → ∃ es st', parseElems f c st = some (es, st') ∧ μ st' ≤ μ st) := by
  intro f
  induction f with
  | zero => refine ⟨?_, ?_, ?_⟩ <;> intros <;> omega
  | succ f ih =>
    obtain ⟨ihe, ihc, ihl⟩ := ih
    refine ⟨?_, ?_, ?_⟩
    · intro bp st hf
      rw [parseExpr]
      simp only []
      split
      · -- atom
        rename_i e heq
        have hb := μ_bump_lt st (atomOf_ne_eof heq)
        obtain ⟨e', st', h', hm⟩ := ihc bp e st.bump (by omega)
        exact ⟨e', st', h', by omega⟩
      · split
        · -- prefix operator
          rename_i op ubp heq
          have hb := μ_bump_lt st (unaryInfo_ne_eof heq)
          obtain ⟨e1, st1, h1, hm1⟩ := ihe ubp st.bump (by omega)
          simp only [h1]
          obtain ⟨e', st', h', hm⟩ := ihc bp (.unary op e1 ⟨st.cur.span.lo, st1.cur.span.hi⟩) st1 (by omega)
          exact ⟨e', st', h', by omega⟩
        · split
          · -- parenthesis
            rename_i hlp
            have hb := μ_bump_lt st (by rw [beq_tok hlp]; decide)
            obtain ⟨e1, st1, h1, hm1⟩ := ihe 0 st.bump (by omega)
            simp only [h1]
            have hx := μ_expect_le st1 .rparen .expectedNumberOrVariableOrLParen st1.cur.span
            obtain ⟨e', st', h', hm⟩ := ihc bp e1 _ (by omega : 3 * μ (st1.expect .rparen .expectedNumberOrVariableOrLParen st1.cur.span) + 1 ≤ f)
            exact ⟨e', st', h', by omega⟩
          · split
            · -- array literal
              rename_i hlb
              have hb := μ_bump_lt st (by rw [beq_tok hlb]; decide)
              have hel : ∃ es st2, (if (st.bump.cur.tok == Tok.rbracket) = true then some ([], st.bump)
                  else parseElems f Tok.rbracket st.bump) = some (es, st2) ∧ μ st2 ≤ μ st.bump := by
                split
                · exact ⟨[], st.bump, rfl, Nat.le_refl _⟩
                · exact ihl .rbracket st.bump (by omega)
              obtain ⟨es, st2, h2, hm2⟩ := hel
              simp only [h2]
              have hcb := μ_closeBracket_le st2
              obtain ⟨e', st', h', hm⟩ := ihc bp (.array es ⟨st.cur.span.lo, (closeBracket st2).1⟩) (closeBracket st2).2 (by omega)
              exact ⟨e', st', h', by omega⟩
            · -- fallback
              have h1 : μ (st.take.err1 .expectedNumberOrVariableOrLParen st.cur.span).sync ≤ μ st :=
                Nat.le_trans (μ_sync_le _) (by simpa using μ_take_le st)
              obtain ⟨e', st', h', hm⟩ := ihc bp (.num [48] (st.take.err1 .expectedNumberOrVariableOrLParen st.cur.span).sync.cur.span) _ (by omega : 3 * μ (st.take.err1 .expectedNumberOrVariableOrLParen st.cur.span).sync + 1 ≤ f)
              exact ⟨e', st', h', by omega⟩
    · intro bp l st hf
      rw [parseCont]
      simp only []
      split
      · -- member
        rename_i hd
        have hb := μ_bump_lt st (by rw [beq_tok hd]; decide)
        have hp := μ_parseField_le st.bump
        obtain ⟨e', st', h', hm⟩ := ihc bp (.member l (parseField st.bump).1 (parseField st.bump).2.1
          ⟨l.span.lo, (parseField st.bump).2.2.cur.span.hi⟩) (parseField st.bump).2.2 (by omega)
        exact ⟨e', st', h', by omega⟩
      · split
        · -- call
          rename_i hlp
          have hb := μ_bump_lt st (by rw [beq_tok hlp]; decide)
          have hel : ∃ es st2, (if (st.bump.cur.tok == Tok.rparen) = true then some ([], st.bump)
              else parseElems f Tok.rparen st.bump) = some (es, st2) ∧ μ st2 ≤ μ st.bump := by
            split
            · exact ⟨[], st.bump, rfl, Nat.le_refl _⟩
            · exact ihl .rparen st.bump (by omega)
          obtain ⟨es, st2, h2, hm2⟩ := hel
          simp only [h2]
          have hx := μ_expect_le st2 .rparen .expectedRParen st2.cur.span
          obtain ⟨e', st', h', hm⟩ := ihc bp (.call l es none ⟨l.span.lo, (st2.expect .rparen .expectedRParen st2.cur.span).cur.span.hi⟩) (st2.expect .rparen .expectedRParen st2.cur.span) (by omega)
          exact ⟨e', st', h', by omega⟩
        · split
          · -- index
            rename_i hlb
            have hb := μ_bump_lt st (by rw [beq_tok hlb]; decide)
            obtain ⟨e1, st1, h1, hm1⟩ := ihe 0 st.bump (by omega)
            simp only [h1]
            have hcb := μ_closeBracket_le st1
            obtain ⟨e', st', h', hm⟩ := ihc bp (.index l e1 ⟨st.cur.span.lo, (closeBracket st1).1⟩ ⟨l.span.lo, (closeBracket st1).1⟩) (closeBracket st1).2 (by omega)
            exact ⟨e', st', h', by omega⟩
          · split
            · exact ⟨l, st, rfl, Nat.le_refl _⟩
            · rename_i op lbp rbp heq
              split
              · exact ⟨l, st, rfl, Nat.le_refl _⟩
              · have hb := μ_bump_lt st (binInfo_ne_eof heq)
                obtain ⟨e1, st1, h1, hm1⟩ := ihe rbp st.bump (by omega)
                simp only [h1]
                obtain ⟨e', st', h', hm⟩ := ihc bp (.binary op l e1 ⟨l.span.lo, st1.cur.span.hi⟩) st1 (by omega)
                exact ⟨e', st', h', by omega⟩
    · intro c st hf
      rw [parseElems]
      obtain ⟨e1, st1, h1, hm1⟩ := ihe 0 st (by omega)
      simp only [h1]
      split
      · rename_i hc
        have hb := μ_bump_lt st1 (by rw [beq_tok hc]; decide)
        split
        · exact ⟨[e1], st1.bump, rfl, by omega⟩
        · obtain ⟨es, st3, h3, hm3⟩ := ihl c st1.bump (by omega)
          simp only [h3]
          exact ⟨e1 :: es, st3, rfl, by omega⟩
      · exact ⟨[e1], st1, rfl, hm1⟩

/-! ### Statement-level helpers -/

theorem μ_nameOrPlaceholder (st : PState) (sp) : μ (nameOrPlaceholder st sp).2 = μ st := by
  unfold nameOrPlaceholder
  split
  · rfl
  · split <;> rfl

theorem paramStep_some {st : PState} {p st'} (h : paramStep st = some (p, st')) :
    st.cur.tok ≠ .eof ∧ st'.cur = st.cur ∧ st'.rest = st.rest := by
  unfold paramStep at h
  split at h
  · rename_i heq; simp at h; obtain ⟨_, rfl⟩ := h; simp [heq]
  · split at h
    · rename_i hr
      simp at h; obtain ⟨_, rfl⟩ := h
      refine ⟨?_, rfl, rfl⟩
      intro he; rw [he] at hr; simp [Tok.isReserved] at hr
    · simp at h

theorem μ_congr {a b : PState} (hc : a.cur = b.cur) (hr : a.rest = b.rest) : μ a = μ b := by
  simp [μ, hc, hr]

theorem μ_paramsGo_le (cur : SpTok) (errs : List Diag) (rest : List SpTok) :
    μ (paramsGo cur errs rest).2 ≤ μ ⟨cur, rest, errs⟩ := by
  fun_induction paramsGo cur errs rest with
  | case1 cur errs h => exact Nat.le_refl _
  | case2 cur errs p st h =>
    obtain ⟨hne, hc, hr⟩ := paramStep_some h
    rw [← μ_congr hc hr]; exact μ_bump_le st
  | case3 cur errs t h => exact Nat.le_refl _
  | case4 cur errs t p st h st1 hcomma =>
    obtain ⟨hne, hc, hr⟩ := paramStep_some h
    rw [← μ_congr hc hr]; exact Nat.le_trans (μ_bump_le _) (μ_bump_le st)
  | case5 cur errs t p st h st1 hcomma =>
    obtain ⟨hne, hc, hr⟩ := paramStep_some h
    rw [← μ_congr hc hr]; exact μ_bump_le st
  | case6 cur errs t u us h => exact Nat.le_refl _
  | case7 cur errs t u us p st h hcomma r ih =>
    refine Nat.le_trans ih ?_
    simp only [μ, List.length_cons]
    have hb : (if u.tok = Tok.eof then 0 else 1) ≤ 1 := by split <;> omega
    omega
  | case8 cur errs t u us p st h hcomma =>
    obtain ⟨hne, hc, hr⟩ := paramStep_some h
    rw [← μ_congr hc hr]; exact μ_bump_le st

theorem μ_parseParams_le (st : PState) : μ (parseParams st).2 ≤ μ st :=
  μ_paramsGo_le st.cur st.errs st.rest

theorem μ_parseFnHeader_lt (start : Nat) (st : PState) (h : st.cur.tok ≠ .eof) :
    μ (parseFnHeader start st).2 + 1 ≤ μ st := by
  unfold parseFnHeader
  simp only []
  have h1 := μ_bump_lt st h
  have h2 := μ_nameOrPlaceholder st.bump st.cur.span
  have h3 := μ_bump_le (nameOrPlaceholder st.bump st.cur.span).2
  generalize (nameOrPlaceholder st.bump st.cur.span).2.bump = s3 at *
  have h4 := μ_expect_le s3 .lparen .expectedLParen ⟨start, st.bump.cur.span.hi⟩
  generalize s3.expect .lparen .expectedLParen ⟨start, st.bump.cur.span.hi⟩ = s4 at *
  have h5 := μ_parseParams_le s4
  generalize parseParams s4 = pp at *
  refine Nat.le_trans (Nat.add_le_add_right (Nat.le_trans (μ_expect_le _ _ _ _) (μ_expect_le _ _ _ _)) 1) ?_
  omega

theorem μ_parseMakeHeader_lt (st : PState) (h : st.cur.tok ≠ .eof) :
    μ (parseMakeHeader st).2.2 + 1 ≤ μ st := by
  unfold parseMakeHeader
  simp only []
  have h1 := μ_bump_lt st h
  split
  · have := μ_bump_le st.bump; dsimp only; omega
  · split
    · have := μ_bump_le (st.bump.err1 .synReservedKeyword st.bump.cur.span); simp at this; dsimp only; omega
    · have := μ_bump_le (st.bump.err1 .expectedIdentifier st.cur.span); simp at this; dsimp only; omega

theorem μ_openCond_le (sp : Span) (st : PState) : μ (openCond sp st) ≤ μ st := μ_expect_le _ _ _ _

theorem μ_closeCond_le (start : Nat) (c : Expr) (st : PState) : μ (closeCond start c st).2 ≤ μ st := by
  unfold closeCond
  exact Nat.le_trans (μ_expect_le _ _ _ _) (μ_expect_le _ _ _ _)

theorem μ_finishAssign (start : Nat) (t v : Expr) (st : PState) : μ (finishAssign start t v st).2 = μ st := by
  unfold finishAssign
  split <;> rfl

theorem blockStop_ne_eof {t : Tok} (h : isBlockStop t = false) : t ≠ .eof := by
  intro he; rw [he] at h; revert h; decide

theorem stmtStart_ne_eof {t : Tok} (h : isStmtStart t = true) : t ≠ .eof := by
  intro he; rw [he] at h; revert h; decide

/-! ### Adequacy: statements -/

theorem stmt_adequate : ∀ f,
    (∀ st, 3 * μ st + 2 ≤ f → ∃ s st', parseStmt f st = some (s, st') ∧ μ st' ≤ μ st ∧
        (st.cur.tok ≠ .eof → μ st' + 1 ≤ μ st)) ∧
    (∀ st, 3 * μ st + 3 ≤ f → ∃ ss st', parseStmts f st = some (ss, st') ∧ μ st' ≤ μ st) ∧
    (∀ st, 3 * μ st + 4 ≤ f → ∃ b st', parseBlock f st = some (b, st') ∧ μ st' ≤ μ st) := by
  intro f
  induction f with
  | zero => refine ⟨?_, ?_, ?_⟩ <;> intros <;> omega
  | succ f ih =>
    obtain ⟨ihs, ihl, ihb⟩ := ih
    have ihe := (expr_adequate f).1
    have ihc := (expr_adequate f).2.1
    refine ⟨?_, ?_, ?_⟩
    · intro st hf
      rw [parseStmt]
      simp only []
      split
      · -- do
        rename_i heq
        have hne : st.cur.tok ≠ .eof := by rw [heq]; decide
        have h1 := μ_parseFnHeader_lt st.cur.span.lo st hne
        obtain ⟨b, st2, h2, hm2⟩ := ihb (parseFnHeader st.cur.span.lo st).2 (by omega)
        simp only [h2]
        have hx := μ_expect_le st2 .end .unterminatedBlock ⟨st.cur.span.lo, (parseFnHeader st.cur.span.lo st).1.startSpan.hi⟩
        exact ⟨_, _, rfl, by omega, fun _ => by omega⟩
      · -- return
        rename_i heq
        have hne : st.cur.tok ≠ .eof := by rw [heq]; decide
        have h1 := μ_bump_lt st hne
        split
        · exact ⟨_, _, rfl, by omega, fun _ => by omega⟩
        · obtain ⟨e, st2, h2, hm2⟩ := ihe 0 st.bump (by omega)
          simp only [h2]
          exact ⟨_, _, rfl, by omega, fun _ => by omega⟩
      · -- make
        rename_i heq
        have hne : st.cur.tok ≠ .eof := by rw [heq]; decide
        have h1 := μ_parseMakeHeader_lt st hne
        generalize parseMakeHeader st = q at *
        obtain ⟨name, nsp, st1⟩ := q
        dsimp only at h1 ⊢
        split
        · have hb := μ_bump_le st1
          obtain ⟨e, st2, h2, hm2⟩ := ihe 0 st1.bump (by omega)
          simp only [h2]
          exact ⟨_, _, rfl, by omega, fun _ => by omega⟩
        · exact ⟨_, _, rfl, by omega, fun _ => by omega⟩
      · -- if to say
        rename_i heq
        have hne : st.cur.tok ≠ .eof := by rw [heq]; decide
        have h1 := μ_bump_lt st hne
        have h1' := μ_openCond_le st.cur.span st.bump
        obtain ⟨c, st2, h2, hm2⟩ := ihe 0 (openCond st.cur.span st.bump) (by omega)
        simp only [h2]
        have h3 := μ_closeCond_le st.cur.span.lo c st2
        obtain ⟨tb, st4, h4, hm4⟩ := ihb (closeCond st.cur.span.lo c st2).2 (by omega)
        simp only [h4]
        have h5 := μ_expect_le st4 .end .unterminatedBlock st4.cur.span
        generalize st4.expect .end .unterminatedBlock st4.cur.span = st5 at *
        split
        · have h6 := μ_bump_le st5
          have h7 := μ_expect_le st5.bump .start .expectedStartBlock st5.cur.span
          obtain ⟨eb, st8, h8, hm8⟩ := ihb (st5.bump.expect .start .expectedStartBlock st5.cur.span) (by omega)
          simp only [h8]
          have h9 := μ_expect_le st8 .end .unterminatedBlock ⟨st5.cur.span.lo, st5.bump.cur.span.hi⟩
          exact ⟨_, _, rfl, by omega, fun _ => by omega⟩
        · exact ⟨_, _, rfl, by omega, fun _ => by omega⟩
      · -- jasi
        rename_i heq
        have hne : st.cur.tok ≠ .eof := by rw [heq]; decide
        have h1 := μ_bump_lt st hne
        have h1' := μ_openCond_le st.cur.span st.bump
        obtain ⟨c, st2, h2, hm2⟩ := ihe 0 (openCond st.cur.span st.bump) (by omega)
        simp only [h2]
        have h3 := μ_closeCond_le st.cur.span.lo c st2
        obtain ⟨tb, st4, h4, hm4⟩ := ihb (closeCond st.cur.span.lo c st2).2 (by omega)
        simp only [h4]
        have h5 := μ_expect_le st4 .end .unterminatedBlock ⟨st.cur.span.lo, (closeCond st.cur.span.lo c st2).1.hi⟩
        exact ⟨_, _, rfl, by omega, fun _ => by omega⟩
      · -- comot
        rename_i heq
        have hne : st.cur.tok ≠ .eof := by rw [heq]; decide
        have h1 := μ_bump_lt st hne
        exact ⟨_, _, rfl, by omega, fun _ => by omega⟩
      · -- next
        rename_i heq
        have hne : st.cur.tok ≠ .eof := by rw [heq]; decide
        have h1 := μ_bump_lt st hne
        exact ⟨_, _, rfl, by omega, fun _ => by omega⟩
      · -- start
        rename_i heq
        have hne : st.cur.tok ≠ .eof := by rw [heq]; decide
        have h1 := μ_bump_lt st hne
        obtain ⟨b, st1, h2, hm2⟩ := ihb st.bump (by omega)
        simp only [h2]
        have hx := μ_expect_le st1 .end .unterminatedBlock st1.cur.span
        exact ⟨_, _, rfl, by omega, fun _ => by omega⟩
      · -- identifier
        rename_i v heq
        have hne : st.cur.tok ≠ .eof := by rw [heq]; simp
        have h1 := μ_bump_lt st hne
        obtain ⟨t, st1, h2, hm2⟩ := ihc 0 (.var v none st.cur.span) st.bump (by omega)
        simp only [h2]
        split
        · have hb := μ_bump_le st1
          obtain ⟨e, st2, h3, hm3⟩ := ihe 0 st1.bump (by omega)
          simp only [h3]
          have hfa := μ_finishAssign st.cur.span.lo t e st2
          generalize finishAssign st.cur.span.lo t e st2 = q at *
          obtain ⟨s', st'⟩ := q
          exact ⟨_, _, rfl, by dsimp only at hfa; omega, fun _ => by dsimp only at hfa; omega⟩
        · exact ⟨_, _, rfl, by omega, fun _ => by omega⟩
      · -- recovery
        have hs := μ_sync_le (st.err1 .expectedStatement st.cur.span).bump
        have hb := μ_bump_le (st.err1 .expectedStatement st.cur.span)
        simp only [μ_err1] at hb
        refine ⟨_, _, rfl, by omega, fun hne => ?_⟩
        have hb' := μ_bump_lt (st.err1 .expectedStatement st.cur.span) hne
        simp only [μ_err1] at hb'
        omega
    · intro st hf
      rw [parseStmts]
      split
      · exact ⟨_, _, rfl, Nat.le_refl _⟩
      · rename_i hstop
        have hne := blockStop_ne_eof (by simpa using hstop)
        obtain ⟨s, st1, h1, hm1, hlt⟩ := ihs st (by omega)
        have := hlt hne
        simp only [h1]
        obtain ⟨ss, st2, h2, hm2⟩ := ihl st1 (by omega)
        simp only [h2]
        exact ⟨_, _, rfl, by omega⟩
    · intro st hf
      rw [parseBlock]
      obtain ⟨ss, st1, h1, hm1⟩ := ihl st (by omega)
      simp only [h1]
      exact ⟨_, _, rfl, hm1⟩

theorem top_adequate : ∀ f st, 3 * μ st + 3 ≤ f → ∃ ss st', parseTopStmts f st = some (ss, st') := by
  intro f
  induction f with
  | zero => intros; omega
  | succ f ih =>
    intro st hf
    rw [parseTopStmts]
    split
    · rename_i hstart
      obtain ⟨s, st1, h1, hm1, hlt⟩ := (stmt_adequate f).1 st (by omega)
      have := hlt (stmtStart_ne_eof hstart)
      simp only [h1]
      obtain ⟨ss, st2, h2⟩ := ih st1 (by omega)
      simp only [h2]
      exact ⟨_, _, rfl⟩
    · exact ⟨_, _, rfl⟩

theorem μ_init_le (toks : List SpTok) : μ (PState.init toks) ≤ toks.length := by
  cases toks with
  | nil => simp [PState.init, μ]
  | cons t ts =>
    by_cases h : t.tok = Tok.eof <;> simp [PState.init, μ, h]

/-- `fuelFor` is enough: the parser terminates on every token list. -/
theorem parseProgramFuel_adequate (toks : List SpTok) :
    ∃ r, parseProgramFuel (fuelFor toks) toks = some r := by
  have hm := μ_init_le toks
  obtain ⟨ss, st', h⟩ := top_adequate (fuelFor toks) (PState.init toks) (by unfold fuelFor; omega)
  unfold parseProgramFuel
  simp only [h]
  exact ⟨_, rfl⟩

/-- With at least `fuelFor toks` fuel the result does not depend on the fuel. -/
theorem parseProgramFuel_stable (toks : List SpTok) (f : Nat) (hf : fuelFor toks ≤ f) :
    parseProgramFuel f toks = some (parseProgram toks) := by
  obtain ⟨r, hr⟩ := parseProgramFuel_adequate toks
  obtain ⟨k, rfl⟩ := Nat.exists_eq_add_of_le hf
  rw [parseProgramFuel_mono k hr]
  simp [parseProgram, hr]

end NaijaVerif.Parse
