import NaijaVerif.Lemmas.Render
/-
`line_col_from_span` against a declarative description of lines: a *line start* is position 0 or a
position right after a line terminator (`"\r\n"` counted once, `'\n'`, lone `'\r'`); the line number of
`start` is the number of line starts `≤ start`; the line of `start` begins at the last line start
`≤ start` and ends in front of the terminator that produces the next line start (or at the end).
-/
set_option linter.unusedSimpArgs false
set_option linter.unusedVariables false

namespace NaijaVerif.Render
open NaijaVerif NaijaVerif.Utf8
open NaijaVerif.Bytes (isCont isBoundary)

/-- a line terminator ends right before position `p`: `src[p-1]` is `'\n'`, or it is a `'\r'` and
`src[p]` is not `'\n'` (so the position between the two bytes of `"\r\n"` is NOT a line start) -/
def termEndsAt (src : Bytes) : Nat → Bool
  | 0 => false
  | k + 1 => src[k]? == some nl || (src[k]? == some cr && src[k + 1]? != some nl)

/-- the declarative notion of a line start -/
def isLineStart (src : Bytes) (p : Nat) : Bool := p == 0 || termEndsAt src p

theorem isLineStart_iff (src : Bytes) (p : Nat) :
    isLineStart src p = true ↔ p ∈ computeLineStarts src := by
  rw [mem_computeLineStarts]
  cases p with
  | zero => simp [isLineStart]
  | succ k =>
    simp only [isLineStart, termEndsAt, TermAt, Nat.add_eq_zero_iff, Nat.add_right_cancel_iff]
    simp

/-- two strictly increasing lists with the same elements are equal -/
theorem sorted_ext : ∀ (l₁ l₂ : List Nat), l₁.Pairwise (· < ·) → l₂.Pairwise (· < ·) →
    (∀ p, p ∈ l₁ ↔ p ∈ l₂) → l₁ = l₂ := by
  intro l₁
  induction l₁ with
  | nil =>
    intro l₂ _ _ h
    cases l₂ with
    | nil => rfl
    | cons b l₂ => have := (h b).mpr (by simp); simp at this
  | cons a l₁ ih =>
    intro l₂ h1 h2 h
    cases l₂ with
    | nil => have := (h a).mp (by simp); simp at this
    | cons b l₂ =>
      have p1 := List.pairwise_cons.mp h1
      have p2 := List.pairwise_cons.mp h2
      have hab : a = b := by
        have ha := (h a).mp (by simp)
        have hb := (h b).mpr (by simp)
        rcases List.mem_cons.mp ha with e | ha
        · exact e
        · rcases List.mem_cons.mp hb with e | hb
          · exact e.symm
          · have := p2.1 a ha; have := p1.1 b hb; omega
      subst hab
      congr 1
      apply ih l₂ p1.2 p2.2
      intro p
      constructor
      · intro hp
        have := (h p).mp (by simp [hp])
        rcases List.mem_cons.mp this with e | hp'
        · have := p1.1 p hp; omega
        · exact hp'
      · intro hp
        have := (h p).mpr (by simp [hp])
        rcases List.mem_cons.mp this with e | hp'
        · have := p2.1 p hp; omega
        · exact hp'

/-- **the vector of line starts is the increasing enumeration of the declared line starts** -/
theorem computeLineStarts_eq (src : Bytes) :
    computeLineStarts src = (List.range (src.length + 1)).filter (isLineStart src) := by
  apply sorted_ext _ _ (computeLineStarts_sorted src) (List.Pairwise.filter _ List.pairwise_lt_range)
  intro p
  simp only [List.mem_filter, List.mem_range, isLineStart_iff]
  constructor
  · intro h; exact ⟨by have := lineStart_bound h; omega, h⟩
  · intro h; exact h.2

/-- the number of line starts `≤ t` -/
theorem cntLE_lineStarts (src : Bytes) (t : Nat) :
    cntLE (computeLineStarts src) t = ((List.range (t + 1)).filter (isLineStart src)).length := by
  unfold cntLE
  congr 1
  apply sorted_ext _ _ (List.Pairwise.filter _ (computeLineStarts_sorted src))
    (List.Pairwise.filter _ List.pairwise_lt_range)
  intro p
  simp only [List.mem_filter, List.mem_range, isLineStart_iff, decide_eq_true_eq]
  constructor
  · intro h; exact ⟨by omega, h.1⟩
  · intro h; exact ⟨h.2, by omega⟩

theorem sorted_index_mono {xs : List Nat} (hp : xs.Pairwise (· < ·)) {i j a b : Nat}
    (hi : xs[i]? = some a) (hj : xs[j]? = some b) (hij : i ≤ j) : a ≤ b := by
  obtain ⟨hi1, hi2⟩ := List.getElem?_eq_some_iff.mp hi
  obtain ⟨hj1, hj2⟩ := List.getElem?_eq_some_iff.mp hj
  subst hi2 hj2
  rcases Nat.lt_or_eq_of_le hij with h | h
  · exact Nat.le_of_lt ((List.pairwise_iff_getElem.mp hp) i j hi1 hj1 h)
  · subst h; exact Nat.le_refl _

theorem LineColOk.ls_idx {src : Bytes} {start : Nat} {lc : LineCol} (ok : LineColOk src start lc) :
    (computeLineStarts src)[lc.line - 1]? = some lc.lineStart := by
  have h := ok.bounds
  unfold lineBounds at h
  split at h
  · cases h
  · next ls hls =>
    split at h
    · split at h
      · cases h
      · split at h
        · cases h
        · simp at h; rw [hls, h.1]
    · simp at h; rw [hls, h.1]

/-- no line start strictly between the line start and `start` (inclusive) -/
theorem LineColOk.no_start_before {src : Bytes} {start : Nat} {lc : LineCol} (ok : LineColOk src start lc)
    (p : Nat) (h1 : lc.lineStart < p) (h2 : p ≤ start) : isLineStart src p = false := by
  cases hc : isLineStart src p with
  | false => rfl
  | true =>
    exfalso
    have hm := (isLineStart_iff src p).mp hc
    obtain ⟨j, hj⟩ := List.getElem?_of_mem hm
    have hlt := (sorted_le_iff _ (computeLineStarts_sorted src) start j p hj).mp h2
    rw [← ok.line_eq] at hlt
    have := sorted_index_mono (computeLineStarts_sorted src) hj ok.ls_idx (by omega)
    omega

/-- no line start between `start` (exclusive) and the line end (inclusive); after the line end comes a
line start, or the line end is the end of the text -/
theorem LineColOk.no_start_after {src : Bytes} {start : Nat} {lc : LineCol} (ok : LineColOk src start lc)
    (p : Nat) (h1 : start < p) (h2 : p ≤ lc.lineEnd) : isLineStart src p = false := by
  cases hc : isLineStart src p with
  | false => rfl
  | true =>
    exfalso
    have hm := (isLineStart_iff src p).mp hc
    obtain ⟨j, hj⟩ := List.getElem?_of_mem hm
    have hnlt := mt (sorted_le_iff _ (computeLineStarts_sorted src) start j p hj).mpr (by omega)
    rw [← ok.line_eq] at hnlt
    rcases ok.le_eq with ⟨_, hnx⟩ | ⟨hlast, _⟩
    · have := sorted_index_mono (computeLineStarts_sorted src) hnx hj (by omega)
      omega
    · have := (List.getElem?_eq_some_iff.mp hj).1; omega

theorem LineColOk.line_end {src : Bytes} {start : Nat} {lc : LineCol} (ok : LineColOk src start lc) :
    (isLineStart src (lc.lineEnd + 1) = true) ∨
      (lc.lineEnd = src.length ∧ ∀ p, start < p → isLineStart src p = false) := by
  rcases ok.le_eq with ⟨_, hnx⟩ | ⟨hlast, hend⟩
  · left; exact (isLineStart_iff src _).mpr (List.mem_of_getElem? hnx)
  · right
    refine ⟨hend, ?_⟩
    intro p hp
    cases hc : isLineStart src p with
    | false => rfl
    | true =>
      exfalso
      have hm := (isLineStart_iff src p).mp hc
      obtain ⟨j, hj⟩ := List.getElem?_of_mem hm
      have hnlt := mt (sorted_le_iff _ (computeLineStarts_sorted src) start j p hj).mpr (by omega)
      rw [← ok.line_eq] at hnlt
      have := (List.getElem?_eq_some_iff.mp hj).1; omega

end NaijaVerif.Render
