import NaijaVerif.Lemmas.ResolveStructScopeWalk
import NaijaVerif.Lemmas.BridgeSource
/-
The bridge condition of `c03_eval` — `okBlock (orcOf numOk facts) root` — for every accepted output
of the resolver model.

`C03.okBlock o` (`Lemmas/AnalysisRefineOk.lean`) asks two kinds of things of the annotated program:
* ANNOTATIONS: every reference, interpolated variable, assignment target and parameter carries its
  `LocalId`, every statement its `StmtId`, every call of a user function its `FunctionId`, every
  number lexeme is accepted by `o.num`.  These follow, by a lemma about the AST alone
  (`okBlock_of_parts`), from what the bridge resolver → evaluator already proved of an accepted output:
  `Eval.wsBlock` (`resolve_wellScoped`), `Bridge.numBlock` (`resolve_num`), `Bridge.okBlock`
  (`resolve_ok`, the number lexemes from the scanner's guarantee `srcBlock`);
* ORACLES: `o.blk` of every block and `o.par` of every parameter list (`orcBlock`), proved of the
  oracle computed from the facts in `Lemmas/ResolveStructScopeWalk.lean`.
-/
namespace NaijaVerif.ResolveStruct
open NaijaVerif NaijaVerif.Resolve NaijaVerif.C03

theorem okSegs_of (Γ : List Eval.Binder) : ∀ segs : List Seg, segs.all (Eval.wsSeg Γ) = true → segs.all okSeg = true
  | [], _ => rfl
  | .lit _ :: rest, h => by
      simp only [List.all_cons, Eval.wsSeg, Bool.true_and] at h
      simp only [List.all_cons, okSeg, Bool.true_and]
      exact okSegs_of Γ rest h
  | .var _ b :: rest, h => by
      simp only [List.all_cons, Eval.wsSeg, Bool.and_eq_true] at h
      simp only [List.all_cons, okSeg, Bool.and_eq_true]
      refine ⟨?_, okSegs_of Γ rest h.2⟩
      cases b with
      | none => simp [Eval.boundIn] at h
      | some _ => rfl

theorem isSome_of_headDecl {Γ : List Eval.Binder} {b : Option Nat} (h : Eval.headDecl Γ b = true) : b.isSome = true := by
  cases b with
  | none => cases Γ <;> simp [Eval.headDecl] at h
  | some _ => rfl

theorem isSome_of_boundIn {Γ : List Eval.Binder} {b : Option Nat} (h : Eval.boundIn Γ b = true) : b.isSome = true := by
  cases b with
  | none => simp [Eval.boundIn] at h
  | some _ => rfl

section parts
variable (o : Orc) (C : Bridge.SCfg) (hnum : ∀ lex, C.numOk lex = true → o.num lex = true) (hm : o.members = true)
include hnum hm

set_option linter.unusedSectionVars false in
mutual
  theorem okExpr_of (Γ : List Eval.Binder) : ∀ e : Expr, Bridge.okExpr C e = true → Eval.wsExpr Γ e = true →
      C03.okExpr o e = true
    | .num lex _, h, _ => by simp only [Bridge.okExpr] at h; simp only [C03.okExpr]; exact hnum lex h
    | .bool _ _, _, _ | .null _, _, _ | .str (.static _) _, _, _ => by simp [C03.okExpr]
    | .str (.interp segs) _, _, hw => by
        simp only [Eval.wsExpr] at hw
        simp only [C03.okExpr]
        exact okSegs_of Γ segs hw
    | .var _ b _, _, hw => by
        simp only [Eval.wsExpr] at hw
        simp only [C03.okExpr]
        cases b with
        | none => simp [Eval.boundIn] at hw
        | some _ => rfl
    | .binary _ l r _, h, hw => by
        simp only [Bridge.okExpr, Bool.and_eq_true] at h
        simp only [Eval.wsExpr, Bool.and_eq_true] at hw
        simp only [C03.okExpr, Bool.and_eq_true]
        exact ⟨okExpr_of Γ l h.1 hw.1, okExpr_of Γ r h.2 hw.2⟩
    | .unary _ x _, h, hw => by
        simp only [Bridge.okExpr] at h
        simp only [Eval.wsExpr] at hw
        simp only [C03.okExpr]
        exact okExpr_of Γ x h hw
    | .array es _, h, hw => by
        simp only [Bridge.okExpr] at h
        simp only [Eval.wsExpr] at hw
        simp only [C03.okExpr]
        exact okExprs_of Γ es h hw
    | .index a i _ _, h, hw => by
        simp only [Bridge.okExpr, Bool.and_eq_true] at h
        simp only [Eval.wsExpr, Bool.and_eq_true] at hw
        simp only [C03.okExpr, Bool.and_eq_true]
        exact ⟨okExpr_of Γ a h.1 hw.1, okExpr_of Γ i h.2 hw.2⟩
    | .member _ _ _ _, _, _ => by simp [C03.okExpr]
    | .call (.member obj _ _ _) args _ _, h, hw => by
        simp only [Bridge.okExpr, Bool.and_eq_true] at h
        simp only [Eval.wsExpr, Bool.and_eq_true] at hw
        simp only [C03.okExpr, Bool.and_eq_true]
        exact ⟨⟨hm, okExpr_of Γ obj h.1 hw.1⟩, okExprs_of Γ args h.2 hw.2⟩
    | .call (.var name _ _) args fn _, h, hw => by
        simp only [Bridge.okExpr, Bool.and_eq_true] at h
        simp only [Eval.wsExpr, Bool.and_eq_true, Bool.or_eq_true] at hw
        simp only [C03.okExpr, Bool.and_eq_true, Bool.or_eq_true]
        refine ⟨okExprs_of Γ args h.1 hw.1, ?_⟩
        rcases hw.2 with hg | hf
        · exact Or.inl hg
        · right
          cases fn with
          | none => simp [Eval.fnBoundIn] at hf
          | some _ => rfl
    | .call (.index _ _ _ _) _ _ _, _, _ | .call (.str _ _) _ _ _, _, _ | .call (.num _ _) _ _ _, _, _
    | .call (.binary _ _ _ _) _ _ _, _, _ | .call (.call _ _ _ _) _ _ _, _, _ | .call (.array _ _) _ _ _, _, _
    | .call (.unary _ _ _) _ _ _, _, _ | .call (.bool _ _) _ _ _, _, _ | .call (.null _) _ _ _, _, _ => by
        simp [C03.okExpr]
  theorem okExprs_of (Γ : List Eval.Binder) : ∀ es : List Expr, Bridge.okExprs C es = true → Eval.wsExprs Γ es = true →
      C03.okExprs o es = true
    | [], _, _ => by simp [C03.okExprs]
    | e :: es, h, hw => by
        simp only [Bridge.okExprs, Bool.and_eq_true] at h
        simp only [Eval.wsExprs, Bool.and_eq_true] at hw
        simp only [C03.okExprs, Bool.and_eq_true]
        exact ⟨okExpr_of Γ e h.1 hw.1, okExprs_of Γ es h.2 hw.2⟩
end

variable (hpl : C.plan = none)
include hpl

set_option linter.unusedSectionVars false in
mutual
  theorem okStmt_of (Γ : List Eval.Binder) (d : Bool) : ∀ s : Stmt, Bridge.okStmt C d s = true → Eval.wsStmt Γ s = true →
      Bridge.numStmt s = true → orcStmt o s = true → C03.okStmt o s = true
    | .assign _ _ e b sid _, h, hw, hn, _ => by
        simp only [Bridge.okStmt] at h
        simp only [Eval.wsStmt, Bool.and_eq_true] at hw
        simp only [Bridge.numStmt] at hn
        simp only [C03.okStmt, Bool.and_eq_true]
        exact ⟨⟨okExpr_of o C hnum hm Γ e h hw.1, isSome_of_headDecl hw.2⟩, hn⟩
    | .assignExisting _ _ e b sid _, h, hw, hn, _ => by
        simp only [Bridge.okStmt] at h
        simp only [Eval.wsStmt, Bool.and_eq_true] at hw
        simp only [Bridge.numStmt] at hn
        simp only [C03.okStmt, Bool.and_eq_true]
        exact ⟨⟨okExpr_of o C hnum hm Γ e h hw.1, isSome_of_boundIn hw.2⟩, hn⟩
    | .assignIndex t e sid _, h, hw, hn, _ => by
        simp only [Bridge.okStmt, Bool.and_eq_true] at h
        simp only [Eval.wsStmt, Bool.and_eq_true] at hw
        simp only [Bridge.numStmt] at hn
        simp only [C03.okStmt, Bool.and_eq_true]
        exact ⟨⟨⟨hm, okExpr_of o C hnum hm Γ t h.1.1 hw.1⟩, okExpr_of o C hnum hm Γ e h.1.2 hw.2⟩, hn⟩
    | .ifS c t e sid _, h, hw, hn, ho => by
        simp only [Bridge.okStmt, Bool.and_eq_true] at h
        simp only [Eval.wsStmt, Bool.and_eq_true] at hw
        simp only [Bridge.numStmt, Bool.and_eq_true] at hn
        simp only [orcStmt, Bool.and_eq_true] at ho
        simp only [C03.okStmt, Bool.and_eq_true]
        exact ⟨⟨⟨okExpr_of o C hnum hm Γ c h.1.1 hw.1.1, okBlock_of Γ d t h.1.2 hw.1.2 hn.1.2 ho.1⟩,
          okOptBlock_of Γ d e h.2 hw.2 hn.2 ho.2⟩, hn.1.1⟩
    | .loop c b sid _, h, hw, hn, ho => by
        simp only [Bridge.okStmt, Bool.and_eq_true] at h
        simp only [Eval.wsStmt, Bool.and_eq_true] at hw
        simp only [Bridge.numStmt, Bool.and_eq_true] at hn
        simp only [orcStmt] at ho
        simp only [C03.okStmt, Bool.and_eq_true]
        exact ⟨⟨okExpr_of o C hnum hm Γ c h.1 hw.1, okBlock_of Γ true b h.2 hw.2 hn.2 ho⟩, hn.1⟩
    | .block b sid _, h, hw, hn, ho => by
        simp only [Bridge.okStmt] at h
        simp only [Eval.wsStmt] at hw
        simp only [Bridge.numStmt, Bool.and_eq_true] at hn
        simp only [orcStmt] at ho
        simp only [C03.okStmt, Bool.and_eq_true]
        exact ⟨okBlock_of Γ d b h hw hn.2 ho, hn.1⟩
    | .fnDef _ _ ps body fn sid _, h, hw, hn, ho => by
        simp only [Bridge.okStmt, Bool.and_eq_true, hpl, Eval.Plan.prunesFn, Bool.false_or] at h
        simp only [Eval.wsStmt, Bool.and_eq_true] at hw
        simp only [Bridge.numStmt, Bool.and_eq_true] at hn
        simp only [orcStmt, Bool.and_eq_true] at ho
        simp only [C03.okStmt, Bool.and_eq_true]
        exact ⟨⟨ho.1, okBlock_of (.ofParams ps :: Γ) false body h.2 hw.2 hn.2 ho.2⟩, hn.1.2⟩
    | .ret (some e) sid _, h, hw, hn, _ => by
        simp only [Bridge.okStmt] at h
        simp only [Eval.wsStmt] at hw
        simp only [Bridge.numStmt] at hn
        simp only [C03.okStmt, Bool.and_eq_true]
        exact ⟨okExpr_of o C hnum hm Γ e h hw, hn⟩
    | .ret none sid _, _, _, hn, _ => by
        simp only [Bridge.numStmt] at hn
        simp only [C03.okStmt]; exact hn
    | .brk sid _, _, _, hn, _ => by
        simp only [Bridge.numStmt] at hn
        simp only [C03.okStmt]; exact hn
    | .cont sid _, _, _, hn, _ => by
        simp only [Bridge.numStmt] at hn
        simp only [C03.okStmt]; exact hn
    | .expr e sid _, h, hw, hn, _ => by
        simp only [Bridge.okStmt] at h
        simp only [Eval.wsStmt] at hw
        simp only [Bridge.numStmt] at hn
        simp only [C03.okStmt, Bool.and_eq_true]
        exact ⟨okExpr_of o C hnum hm Γ e h hw, hn⟩
  theorem okStmts_of (Γ : List Eval.Binder) (d : Bool) : ∀ ss : List Stmt, Bridge.okStmts C d ss = true →
      Eval.wsStmts Γ ss = true → Bridge.numStmts ss = true → orcStmts o ss = true → C03.okStmts o ss = true
    | [], _, _, _, _ => by simp [C03.okStmts]
    | s :: rest, h, hw, hn, ho => by
        simp only [Bridge.okStmts, Bool.and_eq_true, hpl, Bridge.stmtSkipped_none, Bool.false_or] at h
        simp only [Eval.wsStmts, Bool.and_eq_true] at hw
        simp only [Bridge.numStmts, Bool.and_eq_true] at hn
        simp only [orcStmts, Bool.and_eq_true] at ho
        simp only [C03.okStmts, Bool.and_eq_true]
        exact ⟨okStmt_of Γ d s h.1 hw.1 hn.1 ho.1, okStmts_of Γ d rest h.2 hw.2 hn.2 ho.2⟩
  theorem okBlock_of (Γ : List Eval.Binder) (d : Bool) : ∀ b : Block, Bridge.okBlock C d b = true →
      Eval.wsBlock Γ b = true → Bridge.numBlock b = true → orcBlock o b = true → C03.okBlock o b = true
    | .mk ss _, h, hw, hn, ho => by
        simp only [Bridge.okBlock] at h
        simp only [Eval.wsBlock, Bool.and_eq_true] at hw
        simp only [Bridge.numBlock] at hn
        simp only [orcBlock, Bool.and_eq_true] at ho
        simp only [C03.okBlock, Bool.and_eq_true]
        exact ⟨ho.1, okStmts_of (.ofStmts ss :: Γ) d ss h hw.2 hn ho.2⟩
  theorem okOptBlock_of (Γ : List Eval.Binder) (d : Bool) : ∀ b : Option Block, Bridge.okOptBlock C d b = true →
      Eval.wsOptBlock Γ b = true → Bridge.numOptBlock b = true → orcOptBlock o b = true → C03.okOptBlock o b = true
    | none, _, _, _, _ => by simp [C03.okOptBlock]
    | some b, h, hw, hn, ho => by
        simp only [Bridge.okOptBlock] at h
        simp only [Eval.wsOptBlock] at hw
        simp only [Bridge.numOptBlock] at hn
        simp only [orcOptBlock] at ho
        simp only [C03.okOptBlock]
        exact okBlock_of Γ d b h hw hn ho
end

end parts

/-! ### The resolver model -/

theorem dslt_root : DSLt rootFacts := by
  intro l sc h
  simp [declScopeOf, rootFacts] at h

theorem soInv_root : SOInv rootFacts := by
  intro l li h
  simp [rootFacts] at h

/-- **`scOwnB`** (last conjunct of `globalOkB`) for every accepted output of the resolver model. -/
theorem resolveWith_scOwn (spanLen : Bool) (q : Block) (h : (resolveWith spanLen q).rdiags = []) :
    scOwnB (resolveWith spanLen q).facts = true := by
  have hb := checkBlock_scope (fun _ => true) (rootEnv spanLen) none q rootFacts dslt_root soInv_root
    (Bridge.resolve_num spanLen q h)
  have hso : SOInv (resolveWith spanLen q).facts := hb.so
  simp only [scOwnB, List.all_eq_true, beq_iff_eq]
  intro li hli
  obtain ⟨l, hl⟩ := List.getElem?_of_mem hli
  obtain ⟨si, h1, h2⟩ := hso l li hl
  rw [h1]; simp [h2]

/-- **The oracle part of the bridge condition** for every accepted output of the resolver model. -/
theorem resolveWith_orc (numOk : Bytes → Bool) (spanLen : Bool) (q : Block) (h : (resolveWith spanLen q).rdiags = []) :
    orcBlock (orcOf numOk (resolveWith spanLen q).facts) (resolveWith spanLen q).root = true := by
  have hb := checkBlock_scope numOk (rootEnv spanLen) none q rootFacts dslt_root soInv_root
    (Bridge.resolve_num spanLen q h)
  exact hb.orc _ (Pre.refl _) (After.self _ _ _)

/-- **The bridge condition of `c03_eval`** — `okBlock (orcOf numOk facts) root` — for every accepted
output of the resolver model whose input has number lexemes accepted by `numOk` (the scanner's
guarantee, `srcBlock`). -/
theorem resolveWith_okBlock (numOk : Bytes → Bool) (spanLen : Bool) (q : Block)
    (hsrc : Bridge.srcBlock ⟨[], numOk, false, none⟩ q = true) (h : (resolveWith spanLen q).rdiags = []) :
    C03.okBlock (orcOf numOk (resolveWith spanLen q).facts) (resolveWith spanLen q).root = true :=
  okBlock_of (orcOf numOk (resolveWith spanLen q).facts) ⟨Bridge.arityTable (resolveWith spanLen q), numOk, false, none⟩
    (fun _ hl => hl) rfl rfl [Eval.Binder.root] false _ (Bridge.resolve_ok spanLen numOk false q hsrc h)
    (resolve_wellScoped spanLen q h) (Bridge.resolve_num spanLen q h) (resolveWith_orc numOk spanLen q h)

end NaijaVerif.ResolveStruct
