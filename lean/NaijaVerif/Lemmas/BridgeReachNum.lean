import NaijaVerif.Lemmas.BridgeReach
/-
Bridge resolver → evaluator, part 5d: the resolver NUMBERS what it accepts.

`numBlock` (`Lemmas/BridgeReach.lean`: every statement carries a `StmtId`, every definition a
`FunctionId`) is the first of the three conditions of `FactsCoverCalls` (`Props/C06Accepted.lean`,
`c06_pipeline_reach`).  It holds of the output of the resolver model whenever the resolver reports
nothing: `check_stmt` allocates the next `StmtId` for every statement it visits, and a definition
gets the `FunctionId` predeclared for it unless its name was defined before in the same block — which
is reported (`DuplicateIdentifier`, `predeclare`).  One more walk over `checkStmt … checkOptBlock`,
next to `checkStmt_ok` (`Lemmas/BridgeOk.lean`).
-/
namespace NaijaVerif.Bridge
open NaijaVerif NaijaVerif.Resolve

mutual
  theorem checkStmt_num (env : Env) (cur : Cur) : ∀ (s : Stmt) (f : Facts), DefsOK env cur.seenFns [s] →
      (checkStmt env cur s f).ds = [] → numStmt (checkStmt env cur s f).val = true
    | .assign x xs e _ _ sp, f, _, _ => by
        simp only [checkStmt]
        split <;> simp [numStmt]
    | .assignExisting x xs e _ _ sp, f, _, h => by
        cases hl : lookupVar env cur.vars x with
        | some ent => simp only [checkStmt, hl]; simp [numStmt]
        | none => simp [checkStmt, hl] at h
    | .assignIndex t e _ sp, f, _, _ => by simp only [checkStmt]; simp [numStmt]
    | .ifS c t e _ sp, f, _, h => by
        simp only [checkStmt, List.append_eq_nil_iff] at h ⊢
        simp only [numStmt, Option.isSome_some, Bool.true_and, Bool.and_eq_true]
        exact ⟨checkBlock_num _ _ t _ h.1.2, checkOptBlock_num _ _ e _ h.2⟩
    | .loop c b _ sp, f, _, h => by
        simp only [checkStmt, List.append_eq_nil_iff] at h ⊢
        simp only [numStmt, Option.isSome_some, Bool.true_and]
        exact checkBlock_num _ _ b _ h.2
    | .block b _ sp, f, _, h => by
        simp only [checkStmt] at h ⊢
        simp only [numStmt, Option.isSome_some, Bool.true_and]
        exact checkBlock_num _ _ b _ h
    | .fnDef name nsp ps body a b sp, f, hd, h => by
        have hu : name ∉ cur.seenFns := hd.unseen name (by simp [fnNames])
        have ho := hd.own name (by simp [fnNames])
        unfold ownHas at ho
        split at ho
        · next own rest heq =>
          cases hg : findFn own name with
          | none => simp [hg] at ho
          | some g =>
            obtain ⟨f3, pscope, envB, _, _, _, _, _, hshape⟩ :=
              checkStmt_fnDef_eq env cur name nsp ps body a b sp f heq hg hu
            rw [hshape] at h ⊢
            simp only at h
            simp only [numStmt, Option.isSome_some, Bool.true_and]
            exact checkBlock_num envB (some pscope) body _ h
        · simp at ho
    | .ret e _ sp, f, _, _ => by
        cases e with
        | some e => simp only [checkStmt]; simp [numStmt]
        | none => simp [checkStmt, numStmt]
    | .brk _ sp, f, _, _ => by simp [checkStmt, numStmt]
    | .cont _ sp, f, _, _ => by simp [checkStmt, numStmt]
    | .expr e _ sp, f, _, _ => by simp only [checkStmt]; simp [numStmt]
  theorem checkStmts_num (env : Env) : ∀ (ss : List Stmt) (cur : Cur) (f : Facts), DefsOK env cur.seenFns ss →
      (checkStmts env cur ss f).ds = [] → numStmts (checkStmts env cur ss f).val = true
    | [], cur, f, _, _ => by simp [checkStmts, numStmts]
    | s :: ss, cur, f, hd, h => by
        simp only [checkStmts, List.append_eq_nil_iff] at h ⊢
        simp only [numStmts, Bool.and_eq_true]
        exact ⟨checkStmt_num env cur s f hd.head h.1, checkStmts_num env ss _ _ (hd.tail f) h.2⟩
  theorem checkBlock_num (env : Env) (parent : Option Nat) : ∀ (b : Block) (f : Facts),
      (checkBlock env parent b f).ds = [] → numBlock (checkBlock env parent b f).val = true
    | .mk ss sp, f, h => by
        obtain ⟨f2, sigs, env1, _, _, _, _, hsig, heq⟩ := checkBlock_eq env parent ss sp f
        rw [heq] at h ⊢
        simp only [List.append_eq_nil_iff] at h
        obtain ⟨hn, hnd⟩ := own_names hsig h.1
        simp only [numBlock]
        exact checkStmts_num { env1 with fns := sigs :: env.fns } ss {} (predeclare env1 ss [] f2).facts
          (defsOK_block rfl hn hnd) h.2
  theorem checkOptBlock_num (env : Env) (parent : Option Nat) : ∀ (b : Option Block) (f : Facts),
      (checkOptBlock env parent b f).ds = [] → numOptBlock (checkOptBlock env parent b f).val = true
    | none, f, _ => by simp [checkOptBlock, numOptBlock]
    | some b, f, h => by
        simp only [checkOptBlock] at h ⊢
        simp only [numOptBlock]
        exact checkBlock_num env parent b f h
end

/-- **An accepted program comes out of the resolver model numbered**: every statement carries a
`StmtId`, every definition a `FunctionId`. -/
theorem resolve_num (spanLen : Bool) (q : Block) (h : (resolveWith spanLen q).rdiags = []) :
    numBlock (resolveWith spanLen q).root = true :=
  checkBlock_num (rootEnv spanLen) none q rootFacts h

end NaijaVerif.Bridge
