import NaijaVerif.Lemmas.EvalScope
/-
C04, dynamic half — the lookup lemmas: under the invariant `MR` the search the code performs
(`dynamic`: most recent instance of the declaring scope for a `LocalId`, whole stack for a
`FunctionId`) and the lexically scoped search (`lexical`: the scopes of the static chain only) find
the same slot position / the same function entry, for every well-scoped reference.
-/
namespace NaijaVerif.Eval
open NaijaVerif

variable {N : Type}

/-- The two configurations compared by C04. -/
def RunCfg.dyn (cfg : RunCfg) : RunCfg := { cfg with lookup := .dynamic }
def RunCfg.lex (cfg : RunCfg) : RunCfg := { cfg with lookup := .lexical }

@[simp] theorem dyn_plan (cfg : RunCfg) : cfg.dyn.plan = cfg.plan := rfl
@[simp] theorem lex_plan (cfg : RunCfg) : cfg.lex.plan = cfg.plan := rfl
@[simp] theorem dyn_std (cfg : RunCfg) : cfg.dyn.std = cfg.std := rfl
@[simp] theorem lex_std (cfg : RunCfg) : cfg.lex.std = cfg.std := rfl

/-! ### Small facts about contexts -/

theorem declared_cons (β : Binder) (Γ : List Binder) (l : Nat) :
    declared (β :: Γ) l = (β.decls.contains l || declared Γ l) := by
  simp [declared]

theorem fnDeclared_cons (β : Binder) (Γ : List Binder) (i : Nat) :
    fnDeclared (β :: Γ) i = (β.fnIds.contains i || fnDeclared Γ i) := by
  simp [fnDeclared]

theorem freshIn_decl {Γ : List Binder} {β : Binder} (h : freshIn Γ β = true) {l : Nat}
    (hl : l ∈ β.decls) : declared Γ l = false := by
  simp only [freshIn, Bool.and_eq_true, List.all_eq_true] at h
  simpa using h.1 l hl

theorem freshIn_fn {Γ : List Binder} {β : Binder} (h : freshIn Γ β = true) {i : Nat}
    (hi : i ∈ β.fnIds) : fnDeclared Γ i = false := by
  simp only [freshIn, Bool.and_eq_true, List.all_eq_true] at h
  simpa using h.2 i hi

theorem CtxOK.drop {Γ : List Binder} (h : CtxOK Γ) : ∀ j, CtxOK (Γ.drop j) := by
  intro j
  induction j generalizing Γ with
  | zero => simpa using h
  | succ j ih =>
    cases Γ with
    | nil => simp [CtxOK]
    | cons β Γ => simpa using ih h.2

/-! ### Structure of `Link` -/

theorem Link.chain_sub {cfg : RunCfg} {Γ : List Binder} {chain : List Nat} {env : List (Scope N)}
    (h : Link cfg Γ chain env) : ∀ u ∈ chain, ∃ T ∈ env, T.uid = u := by
  induction h with
  | nil => intro u hu; cases hu
  | skip S _ _ _ _ ih =>
    intro u hu
    obtain ⟨T, hT, e⟩ := ih u hu
    exact ⟨T, List.mem_cons_of_mem _ hT, e⟩
  | take S β _ _ _ _ ih =>
    intro u hu
    rcases List.mem_cons.1 hu with rfl | hu
    · exact ⟨S, List.mem_cons_self, rfl⟩
    · obtain ⟨T, hT, e⟩ := ih u hu
      exact ⟨T, List.mem_cons_of_mem _ hT, e⟩

theorem Link.length_eq {cfg : RunCfg} {Γ : List Binder} {chain : List Nat} {env : List (Scope N)}
    (h : Link cfg Γ chain env) : chain.length = Γ.length := by
  induction h with
  | nil => rfl
  | skip _ _ _ _ _ ih => exact ih
  | take _ _ _ _ _ _ ih => simp [ih]

/-- A scope above all scopes of `env` is not on a chain linked to `env`. -/
theorem Link.not_on_chain {cfg : RunCfg} {Γ : List Binder} {chain : List Nat} {env : List (Scope N)}
    (h : Link cfg Γ chain env) {u : Nat} (hu : ∀ T ∈ env, T.uid < u) : chain.contains u = false := by
  cases hc : chain.contains u with
  | false => rfl
  | true =>
    obtain ⟨T, hT, e⟩ := h.chain_sub u (by simpa using hc)
    have := hu T hT
    omega

/-- No scope holds a pruned function. -/
theorem Link.unpruned {cfg : RunCfg} {Γ : List Binder} {chain : List Nat} {env : List (Scope N)}
    (h : Link cfg Γ chain env) :
    ∀ T ∈ env, ∀ fd ∈ T.fns, ∃ i, fd.id = some i ∧ Plan.prunesFn cfg.plan (some i) = false := by
  induction h with
  | nil => intro T hT; cases hT
  | skip S _ _ hf _ ih =>
    intro T hT fd hfd
    rcases List.mem_cons.1 hT with rfl | hT
    · obtain ⟨i, h1, _, h3⟩ := hf fd hfd; exact ⟨i, h1, h3⟩
    · exact ih T hT fd hfd
  | take S β _ _ hf _ ih =>
    intro T hT fd hfd
    rcases List.mem_cons.1 hT with rfl | hT
    · obtain ⟨i, h1, _, h3, _⟩ := hf.1 fd hfd; exact ⟨i, h1, h3⟩
    · exact ih T hT fd hfd

/-- The skeleton decides `Link`. -/
theorem Link.congr {cfg : RunCfg} {Γ : List Binder} {chain : List Nat} {env : List (Scope N)}
    (h : Link cfg Γ chain env) : ∀ {env' : List (Scope N)}, env'.map Scope.skel = env.map Scope.skel →
      Link cfg Γ chain env' := by
  induction h with
  | nil =>
    intro env' he
    cases env' with
    | nil => exact .nil
    | cons _ _ => simp at he
  | @skip Γ chain env S hu hd hf _ ih =>
    intro env' he
    cases env' with
    | nil => simp at he
    | cons S' r' =>
      simp only [List.map_cons, List.cons.injEq] at he
      obtain ⟨hS, hr⟩ := he
      have e1 : S'.uid = S.uid := congrArg Skel.uid hS
      have e2 : S'.decls = S.decls := congrArg Skel.decls hS
      have e3 : S'.fns = S.fns := congrArg Skel.fns hS
      refine .skip S' ?_ (by rw [e2]; exact hd) (by rw [e3]; exact hf) (ih hr)
      intro T hT
      have hm : T.skel ∈ r'.map Scope.skel := List.mem_map_of_mem hT
      rw [hr] at hm
      obtain ⟨T0, hT0, e⟩ := List.mem_map.1 hm
      have : T.uid = T0.uid := (congrArg Skel.uid e).symm
      rw [this, e1]; exact hu T0 hT0
  | @take Γ chain env S β hu hd hf _ ih =>
    intro env' he
    cases env' with
    | nil => simp at he
    | cons S' r' =>
      simp only [List.map_cons, List.cons.injEq] at he
      obtain ⟨hS, hr⟩ := he
      have e1 : S'.uid = S.uid := congrArg Skel.uid hS
      have e2 : S'.decls = S.decls := congrArg Skel.decls hS
      have e3 : S'.fns = S.fns := congrArg Skel.fns hS
      rw [← e1]
      refine .take S' β ?_ (by rw [e2]; exact hd) (by rw [e3, e1]; exact hf) (ih hr)
      intro T hT
      have hm : T.skel ∈ r'.map Scope.skel := List.mem_map_of_mem hT
      rw [hr] at hm
      obtain ⟨T0, hT0, e⟩ := List.mem_map.1 hm
      have : T.uid = T0.uid := (congrArg Skel.uid e).symm
      rw [this, e1]; exact hu T0 hT0

/-- Leaving the innermost binder of the context: its scope becomes an ordinary stack entry. -/
theorem Link.demote {cfg : RunCfg} {Γ0 : List Binder} {chain0 : List Nat} {env : List (Scope N)}
    (h : Link cfg Γ0 chain0 env) : ∀ {β : Binder} {Γ : List Binder} {u : Nat} {chain : List Nat},
      Γ0 = β :: Γ → chain0 = u :: chain → freshIn Γ β = true → Link cfg Γ chain env := by
  induction h with
  | nil => intro β Γ u chain h1; cases h1
  | @skip Γ1 chain1 env S hu hd hf _ ih =>
    intro β Γ u chain h1 h2 hfr
    subst h1; subst h2
    refine .skip S hu ?_ ?_ (ih rfl rfl hfr)
    · intro l hl
      have := hd l hl
      rw [declared_cons] at this
      simp only [Bool.or_eq_false_iff] at this
      exact this.2
    · intro fd hfd
      obtain ⟨i, a, b, c⟩ := hf fd hfd
      rw [fnDeclared_cons] at b
      simp only [Bool.or_eq_false_iff] at b
      exact ⟨i, a, b.2, c⟩
  | @take Γ1 chain1 env S β1 hu hd hf hl _ =>
    intro β Γ u chain h1 h2 hfr
    cases h1; cases h2
    refine .skip S hu ?_ ?_ hl
    · intro l hl'
      rw [hd] at hl'
      exact freshIn_decl hfr hl'
    · intro fd hfd
      obtain ⟨i, a, b, c, _⟩ := hf.1 fd hfd
      exact ⟨i, a, freshIn_fn hfr b, c⟩

/-- Cutting the static chain at its `j`-th scope (what a call does: the callee's chain is the
caller's chain from the callee's defining scope down). -/
theorem Link.cut {cfg : RunCfg} : ∀ (j : Nat) {Γ : List Binder} {chain : List Nat} {env : List (Scope N)},
    Link cfg Γ chain env → CtxOK Γ → Link cfg (Γ.drop j) (chain.drop j) env
  | 0, _, _, _, h, _ => by simpa using h
  | j + 1, Γ, chain, env, h, hc => by
    have hlen := h.length_eq
    cases Γ with
    | nil =>
      cases chain with
      | nil => simpa using h
      | cons _ _ => simp at hlen
    | cons β Γ =>
      cases chain with
      | nil => simp at hlen
      | cons u chain =>
        simp only [List.drop_succ_cons]
        exact Link.cut j (h.demote rfl rfl hc.1) hc.2

/-! ### Visibility -/

theorem visible_lex (cfg : RunCfg) (chain : List Nat) (s : Scope N) :
    visible cfg.lex chain s = chain.contains s.uid := by
  simp [visible, RunCfg.lex]

theorem visible_dyn (cfg : RunCfg) (chain : List Nat) (s : Scope N) :
    visible cfg.dyn chain s = true := by
  simp [visible, RunCfg.dyn]

theorem findPos_congr {vis vis' : Scope N → Bool} (p : Slot N → Bool) :
    ∀ (env : List (Scope N)), (∀ T ∈ env, vis T = vis' T) → findPos vis p env = findPos vis' p env
  | [], _ => rfl
  | S :: r, h => by
    simp only [findPos, h S List.mem_cons_self,
      findPos_congr p r (fun T hT => h T (List.mem_cons_of_mem _ hT))]

theorem findFn_congr {vis vis' : Scope N → Bool} (p : FnEntry → Bool) :
    ∀ (env : List (Scope N)), (∀ T ∈ env, vis T = vis' T) → findFn vis p env = findFn vis' p env
  | [], _ => rfl
  | S :: r, h => by
    simp only [findFn, h S List.mem_cons_self,
      findFn_congr p r (fun T hT => h T (List.mem_cons_of_mem _ hT))]

/-- Below the scope `S` the chain `S.uid :: chain` and `chain` see the same scopes. -/
theorem vis_tail {u : Nat} {chain : List Nat} {env : List (Scope N)} (hu : ∀ T ∈ env, T.uid < u) :
    ∀ T ∈ env, (fun s : Scope N => (u :: chain).contains s.uid) T = (fun s : Scope N => chain.contains s.uid) T := by
  intro T hT
  have := hu T hT
  have hne : (T.uid == u) = false := by simp; omega
  show (u :: chain).contains T.uid = chain.contains T.uid
  rw [List.contains_cons, hne, Bool.false_or]

theorem findPos_cons_vis {vis : Scope N → Bool} {p : Slot N → Bool} {S : Scope N} {r : List (Scope N)}
    (h : vis S = true) : findPos vis p (S :: r) =
      match S.slots.findIdx? p with
      | some j => some (0, j)
      | none => (findPos vis p r).map (fun q => (q.1 + 1, q.2)) := by
  simp only [findPos, h, if_true]
  cases List.findIdx? p S.slots <;> rfl

theorem findPos_cons_invis {vis : Scope N → Bool} {p : Slot N → Bool} {S : Scope N} {r : List (Scope N)}
    (h : vis S = false) : findPos vis p (S :: r) = (findPos vis p r).map (fun q => (q.1 + 1, q.2)) := by
  simp only [findPos, h]; rfl

theorem findFn_cons_vis {vis : Scope N → Bool} {p : FnEntry → Bool} {S : Scope N} {r : List (Scope N)}
    (h : vis S = true) : findFn vis p (S :: r) =
      match S.fns.find? p with
      | some fd => some fd
      | none => findFn vis p r := by
  simp only [findFn, h, if_true]
  cases List.find? p S.fns <;> rfl

theorem findFn_cons_invis {vis : Scope N → Bool} {p : FnEntry → Bool} {S : Scope N} {r : List (Scope N)}
    (h : vis S = false) : findFn vis p (S :: r) = findFn vis p r := by
  simp only [findFn, h]; rfl

theorem head_on_chain (u : Nat) (chain : List Nat) : (u :: chain).contains u = true := by
  simp

/-! ### Variables -/

/-- No chain scope holds a local that no binder of the context declares. -/
theorem findPos_lex_none {cfg : RunCfg} {Γ : List Binder} {chain : List Nat} {env : List (Scope N)}
    (h : Link cfg Γ chain env) (hs : SlotsOK env) {l : Nat} (hl : declared Γ l = false) :
    findPos (fun s : Scope N => chain.contains s.uid) (fun sl : Slot N => sl.id == some l) env = none := by
  induction h with
  | nil => rfl
  | @skip Γ chain env S hu _ _ hk ih =>
    have hnc := hk.not_on_chain hu
    rw [findPos_cons_invis (by exact hnc), ih (fun T hT => hs T (List.mem_cons_of_mem _ hT)) hl]; rfl
  | @take Γ chain env S β hu hd _ hk ih =>
    rw [declared_cons] at hl
    simp only [Bool.or_eq_false_iff] at hl
    have hno : S.slots.findIdx? (fun sl : Slot N => sl.id == some l) = none := by
      rw [List.findIdx?_eq_none_iff]
      intro sl hsl
      obtain ⟨l', e, hm⟩ := hs S List.mem_cons_self sl hsl
      rw [e]
      cases hq : (some l' == some l) with
      | false => rfl
      | true =>
        have : l' = l := by simpa using hq
        subst this
        rw [hd] at hm
        have : β.decls.contains l' = true := by simpa using hm
        rw [this] at hl; cases hl.1
    rw [findPos_cons_vis (by exact head_on_chain _ _), hno]
    simp only
    rw [findPos_congr _ env (vis_tail hu),
      ih (fun T hT => hs T (List.mem_cons_of_mem _ hT)) hl.2]; rfl

/-- **Variables**: the most recent instance of the declaring scope is the instance on the static
chain, and no other chain scope holds the local. -/
theorem findOwned_eq_findPos {cfg : RunCfg} {Γ : List Binder} {chain : List Nat} {env : List (Scope N)}
    (h : Link cfg Γ chain env) (hc : CtxOK Γ) (hs : SlotsOK env) {l : Nat} (hl : declared Γ l = true) :
    findOwned l env =
      findPos (fun s : Scope N => chain.contains s.uid) (fun sl : Slot N => sl.id == some l) env := by
  induction h with
  | nil => simp [declared] at hl
  | @skip Γ chain env S hu hd _ hk ih =>
    have hnc := hk.not_on_chain hu
    have hnot : S.decls.contains l = false := by
      cases hq : S.decls.contains l with
      | false => rfl
      | true =>
        have := hd l (by simpa using hq)
        rw [hl] at this; cases this
    rw [findPos_cons_invis (by exact hnc)]
    simp only [findOwned, hnot]
    rw [ih hc (fun T hT => hs T (List.mem_cons_of_mem _ hT)) hl]; rfl
  | @take Γ chain env S β hu hd _ hk ih =>
    have hs' : SlotsOK env := fun T hT => hs T (List.mem_cons_of_mem _ hT)
    cases hq : β.decls.contains l with
    | true =>
      have hdl : declared Γ l = false := freshIn_decl hc.1 (by simpa using hq)
      have hown : S.decls.contains l = true := by rw [hd]; exact hq
      rw [findPos_cons_vis (by exact head_on_chain _ _)]
      simp only [findOwned, hown, if_true]
      cases hj : S.slots.findIdx? (fun sl : Slot N => sl.id == some l) with
      | some j => rfl
      | none =>
        simp only [Option.map_none]
        rw [findPos_congr _ env (vis_tail hu), findPos_lex_none hk hs' hdl]; rfl
    | false =>
      rw [declared_cons, hq] at hl
      simp only [Bool.false_or] at hl
      have hown : S.decls.contains l = false := by rw [hd]; exact hq
      have hno : S.slots.findIdx? (fun sl : Slot N => sl.id == some l) = none := by
        rw [List.findIdx?_eq_none_iff]
        intro sl hsl
        obtain ⟨l', e, hm⟩ := hs S List.mem_cons_self sl hsl
        rw [e]
        cases hq' : (some l' == some l) with
        | false => rfl
        | true =>
          have : l' = l := by simpa using hq'
          subst this
          have : S.decls.contains l' = true := by simpa using hm
          rw [this] at hown; cases hown
      rw [findPos_cons_vis (by exact head_on_chain _ _), hno]
      simp only [findOwned, hown]
      rw [findPos_congr _ env (vis_tail hu), ih hc.2 hs' hl]; rfl

/-! ### Functions -/

theorem findFn_none {vis : Scope N → Bool} {p : FnEntry → Bool} :
    ∀ (env : List (Scope N)), (∀ T ∈ env, ∀ fd ∈ T.fns, p fd = false) → findFn vis p env = none
  | [], _ => rfl
  | S :: r, h => by
    have h1 : S.fns.find? p = none := by
      rw [List.find?_eq_none]; intro fd hfd; simp [h S List.mem_cons_self fd hfd]
    have h2 := findFn_none (vis := vis) r (fun T hT => h T (List.mem_cons_of_mem _ hT))
    simp only [findFn, h1, h2]; split <;> rfl

/-- **Functions**: the whole-stack search by `FunctionId` finds the entry of the defining scope on
the static chain (functions are hoisted at block entry, so the most recent instance of the defining
block has them; no scope above it defines the same id). -/
theorem findFn_agree {cfg : RunCfg} {Γ : List Binder} {chain : List Nat} {env : List (Scope N)}
    (h : Link cfg Γ chain env) (hc : CtxOK Γ) {i : Nat} (hi : fnDeclared Γ i = true) :
    findFn (fun _ : Scope N => true) (fun fd => fd.id == some i) env =
      findFn (fun s : Scope N => chain.contains s.uid) (fun fd => fd.id == some i) env := by
  induction h with
  | nil => simp [fnDeclared] at hi
  | @skip Γ chain env S hu _ hf hk ih =>
    have hnc := hk.not_on_chain hu
    have hno : S.fns.find? (fun fd => fd.id == some i) = none := by
      rw [List.find?_eq_none]
      intro fd hfd
      obtain ⟨i', e, hnd, _⟩ := hf fd hfd
      rw [e]
      intro hq
      have : i' = i := by simpa using hq
      subst this
      rw [hi] at hnd; cases hnd
    rw [findFn_cons_vis (vis := fun _ : Scope N => true) rfl,
      findFn_cons_invis (vis := fun s : Scope N => chain.contains s.uid) hnc, hno]
    exact ih hc hi
  | @take Γ chain env S β hu _ hf hk ih =>
    rw [findFn_cons_vis (vis := fun _ : Scope N => true) rfl,
      findFn_cons_vis (vis := fun s : Scope N => (S.uid :: chain).contains s.uid) (head_on_chain _ _)]
    cases hfind : S.fns.find? (fun fd => fd.id == some i) with
    | some fd => rfl
    | none =>
      simp only
      rw [findFn_congr _ env (vis_tail hu)]
      cases hq : β.fnIds.contains i with
      | true =>
        -- the defining scope lacks the function: it is pruned, so no scope has it
        have hpr : Plan.prunesFn cfg.plan (some i) = true := by
          cases hp : Plan.prunesFn cfg.plan (some i) with
          | true => rfl
          | false =>
            obtain ⟨fd, hfd, e⟩ := hf.2 i (by simpa using hq) hp
            rw [List.find?_eq_none] at hfind
            exact absurd (by rw [e]; simp) (hfind fd hfd)
        have hall : ∀ T ∈ env, ∀ fd ∈ T.fns, (fun fd : FnEntry => fd.id == some i) fd = false := by
          intro T hT fd hfd
          obtain ⟨i', e, hnp⟩ := hk.unpruned T hT fd hfd
          simp only [e]
          cases hq' : (some i' == some i) with
          | false => rfl
          | true =>
            have : i' = i := by simpa using hq'
            subst this
            rw [hpr] at hnp; cases hnp
        rw [findFn_none env hall, findFn_none env hall]
      | false =>
        rw [fnDeclared_cons, hq] at hi
        simp only [Bool.false_or] at hi
        exact ih hc.2 hi

/-- What a call finds (I4): the callee records the caller's chain cut at its defining scope, and
is well scoped in the context cut at the same place. -/
theorem findFn_lex_spec {cfg : RunCfg} {Γ : List Binder} {chain : List Nat} {env : List (Scope N)}
    (h : Link cfg Γ chain env) {p : FnEntry → Bool} {fd : FnEntry}
    (hf : findFn (fun s : Scope N => chain.contains s.uid) p env = some fd) :
    ∃ j, fd.chain = chain.drop j ∧ WSFn (Γ.drop j) fd := by
  induction h with
  | nil => simp [findFn] at hf
  | @skip Γ chain env S hu _ _ hk ih =>
    have hnc := hk.not_on_chain hu
    rw [findFn_cons_invis (by exact hnc)] at hf
    exact ih hf
  | @take Γ chain env S β hu _ hfn hk ih =>
    rw [findFn_cons_vis (by exact head_on_chain _ _)] at hf
    cases hfind : S.fns.find? p with
    | some fd' =>
      rw [hfind] at hf
      have e : fd' = fd := by simpa using hf
      rw [← e]
      obtain ⟨i, _, _, _, hch, hws⟩ := hfn.1 fd' (List.mem_of_find?_eq_some hfind)
      exact ⟨0, by simpa using hch, by simpa using hws⟩
    | none =>
      rw [hfind] at hf
      simp only at hf
      rw [findFn_congr _ env (vis_tail hu)] at hf
      obtain ⟨j, h1, h2⟩ := ih hf
      exact ⟨j + 1, by simpa using h1, by simpa using h2⟩

/-- A position found by a restricted search lies in a scope the restriction admits. -/
theorem findPos_some_vis {vis : Scope N → Bool} {p : Slot N → Bool} :
    ∀ {env : List (Scope N)} {pos : Nat × Nat}, findPos vis p env = some pos →
      ∃ S, env[pos.1]? = some S ∧ vis S = true
  | [], _, h => by simp [findPos] at h
  | S :: r, pos, h => by
    cases hv : vis S with
    | true =>
      rw [findPos_cons_vis hv] at h
      cases hj : S.slots.findIdx? p with
      | some j =>
        rw [hj] at h
        cases h
        exact ⟨S, rfl, hv⟩
      | none =>
        rw [hj] at h
        simp only [Option.map_eq_some_iff] at h
        obtain ⟨q, hq, rfl⟩ := h
        obtain ⟨S', h1, h2⟩ := findPos_some_vis hq
        exact ⟨S', by simpa using h1, h2⟩
    | false =>
      rw [findPos_cons_invis hv] at h
      simp only [Option.map_eq_some_iff] at h
      obtain ⟨q, hq, rfl⟩ := h
      obtain ⟨S', h1, h2⟩ := findPos_some_vis hq
      exact ⟨S', by simpa using h1, h2⟩

end NaijaVerif.Eval
