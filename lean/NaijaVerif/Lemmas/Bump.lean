/-
Helper lemmas for C11 (bump arena): rounding up, the word-level mask formula, list bookkeeping.
-/
import NaijaVerif.Model.Bump

namespace NaijaVerif.Bump

/-! ### `alignUp` -/

theorem le_alignUp (x a : Nat) (h : 0 < a) : x ≤ alignUp x a := by
  unfold alignUp
  have h1 := Nat.div_add_mod (x + a - 1) a
  have h2 := Nat.mod_lt (x + a - 1) h
  rw [Nat.mul_comm] at h1
  generalize (x + a - 1) / a * a = q at *
  omega

theorem alignUp_lt (x a : Nat) (h : 0 < a) : alignUp x a < x + a := by
  unfold alignUp
  have h1 := Nat.div_add_mod (x + a - 1) a
  rw [Nat.mul_comm] at h1
  generalize (x + a - 1) / a * a = q at *
  omega

theorem dvd_alignUp (x a : Nat) : a ∣ alignUp x a := Nat.dvd_mul_left a _

theorem alignUp_of_dvd (x a : Nat) (h : 0 < a) (hd : a ∣ x) : alignUp x a = x := by
  obtain ⟨t, rfl⟩ := hd
  unfold alignUp
  have : (a * t + a - 1) / a = t := by
    rw [Nat.div_eq_iff h]
    constructor
    · rw [Nat.mul_comm]; omega
    · rw [Nat.mul_comm t a]; omega
  rw [this, Nat.mul_comm]

theorem alignUp_one (x : Nat) : alignUp x 1 = x := by
  simp [alignUp]

/-- Rounding up does not cross a multiple of `a`. -/
theorem alignUp_le_iff (x a c : Nat) (h : 0 < a) (hc : a ∣ c) : alignUp x a ≤ c ↔ x ≤ c := by
  constructor
  · intro hle; exact Nat.le_trans (le_alignUp x a h) hle
  · intro hle
    obtain ⟨t, rfl⟩ := hc
    unfold alignUp
    have : (x + a - 1) / a ≤ t := by
      have : (x + a - 1) / a < t + 1 := by
        apply Nat.div_lt_of_lt_mul
        rw [Nat.mul_add]; omega
      omega
    calc (x + a - 1) / a * a ≤ t * a := Nat.mul_le_mul_right a this
      _ = a * t := Nat.mul_comm _ _

theorem alignUp_mono (x y a : Nat) (h : x ≤ y) : alignUp x a ≤ alignUp y a := by
  unfold alignUp
  apply Nat.mul_le_mul_right
  apply Nat.div_le_div_right
  omega

/-- Closed form of the block start of the fixed code: it depends on `base` only through
`(base + off) % a`. -/
theorem alignUp_sub (base off a : Nat) (h : 0 < a) :
    alignUp (base + off) a - base = off + (a - (base + off) % a) % a := by
  have hd := dvd_alignUp (base + off) a
  have hl := le_alignUp (base + off) a h
  have hu := alignUp_lt (base + off) a h
  generalize alignUp (base + off) a = r at *
  obtain ⟨t, rfl⟩ := hd
  have h1 := Nat.div_add_mod (base + off) a
  have h2 := Nat.mod_lt (base + off) h
  generalize hq : (base + off) / a = q at *
  generalize hm : (base + off) % a = m at *
  by_cases hm0 : m = 0
  · subst hm0
    have : t = q := by
      have h3 : a * t < a * (q + 1) := by rw [Nat.mul_add]; omega
      have h4 : a * q ≤ a * t := by omega
      have := Nat.lt_of_mul_lt_mul_left h3
      have := Nat.le_of_mul_le_mul_left h4 h
      omega
    subst this
    simp; omega
  · have : t = q + 1 := by
      have h3 : a * t < a * (q + 2) := by rw [Nat.mul_add]; omega
      have h4 : a * q < a * t := by omega
      have := Nat.lt_of_mul_lt_mul_left h3
      have := Nat.lt_of_mul_lt_mul_left h4
      omega
    subst this
    rw [Nat.mul_add] at *
    have : (a - m) % a = a - m := Nat.mod_eq_of_lt (by omega)
    rw [this]; omega

/-! ### The mask formula on 64-bit words -/

theorem testBit_hiMask (k i : Nat) (hk : k ≤ 64) :
    (2 ^ 64 - 2 ^ k).testBit i = (decide (k ≤ i) && decide (i < 64)) := by
  have e : 2 ^ 64 - 2 ^ k = (2 ^ (64 - k) - 1) <<< k := by
    rw [Nat.shiftLeft_eq, Nat.sub_mul, ← Nat.pow_add]
    have : 64 - k + k = 64 := by omega
    rw [this]; simp
  rw [e, Nat.testBit_shiftLeft, Nat.testBit_two_pow_sub_one]
  by_cases h1 : k ≤ i <;> simp [h1]
  omega

/-- `x & !(2^k - 1)` clears the low `k` bits. -/
theorem and_hiMask (x k : Nat) (hk : k ≤ 64) (hx : x < 2 ^ 64) :
    x &&& (2 ^ 64 - 2 ^ k) = x / 2 ^ k * 2 ^ k := by
  apply Nat.eq_of_testBit_eq
  intro i
  rw [Nat.testBit_and, testBit_hiMask k i hk, ← Nat.shiftRight_eq_div_pow, ← Nat.shiftLeft_eq,
    Nat.testBit_shiftLeft, Nat.testBit_shiftRight]
  by_cases h1 : k ≤ i
  · have e : k + (i - k) = i := by omega
    by_cases h2 : i < 64
    · simp [h1, h2, e]
    · have : x.testBit i = false := by
        apply Nat.testBit_lt_two_pow
        calc x < 2 ^ 64 := hx
          _ ≤ 2 ^ i := Nat.pow_le_pow_right (by decide) (by omega)
      simp [h1, h2, e, this]
  · simp [h1]

/-! ### List bookkeeping for the ghost list of live blocks -/

theorem findBlk_mem {live : List Block} {id : Nat} {b : Block} (h : findBlk live id = some b) :
    b ∈ live := List.mem_of_find?_eq_some h

theorem mem_dropBlk {live : List Block} {id : Nat} {c : Block} (h : c ∈ dropBlk live id) : c ∈ live :=
  (List.eraseP_sublist).subset h

theorem mem_below {live : List Block} {m : Nat} {c : Block} :
    c ∈ below live m ↔ c ∈ live ∧ c.beg + c.len ≤ m := by
  simp [below]

theorem pairwise_dropBlk {R : Block → Block → Prop} {live : List Block} (id : Nat)
    (h : live.Pairwise R) : (dropBlk live id).Pairwise R :=
  h.sublist List.eraseP_sublist

theorem pairwise_below {R : Block → Block → Prop} {live : List Block} (m : Nat)
    (h : live.Pairwise R) : (below live m).Pairwise R :=
  h.sublist List.filter_sublist

/-- The block found by `findBlk` is related to every block that remains after `dropBlk`. -/
theorem rel_found_dropped {R : Block → Block → Prop} (hs : ∀ x y, R x y → R y x) :
    ∀ {live : List Block} {id : Nat} {b c : Block},
      live.Pairwise R → findBlk live id = some b → c ∈ dropBlk live id → R b c := by
  intro live
  induction live with
  | nil => intro id b c _ hf _; simp [findBlk] at hf
  | cons x xs ih =>
    intro id b c hp hf hc
    rw [List.pairwise_cons] at hp
    unfold findBlk at hf
    unfold dropBlk at hc
    rw [List.find?_cons] at hf
    rw [List.eraseP_cons] at hc
    by_cases hx : (x.id == id) = true
    · simp [hx] at hf hc
      subst hf
      exact hp.1 c hc
    · simp [hx] at hf hc
      rcases hc with rfl | hc
      · exact hs _ _ (hp.1 b (List.mem_of_find?_eq_some hf))
      · exact ih hp.2 hf hc

theorem disj_symm (x y : Block) (h : Disj x y) : Disj y x := by
  unfold Disj at *; omega

/-! ### Strings: byte lists, the ghost record of a string buffer, `str::find` -/

theorem getD_map_range (f : Nat → Nat) (n k : Nat) (hk : k < n) : ((List.range n).map f).getD k 0 = f k := by
  simp [List.getD_eq_getElem?_getD, hk]

theorem list_eq_of_getD (l1 l2 : List Nat) (hl : l1.length = l2.length)
    (h : ∀ k, k < l1.length → l1.getD k 0 = l2.getD k 0) : l1 = l2 := by
  apply List.ext_getElem hl
  intro k h1 h2
  have := h k h1
  simpa [List.getD_eq_getElem?_getD, h1, h2] using this

theorem content_length (b : Block) : b.content.length = b.used := by simp [Block.content]

theorem content_getD (b : Block) (k : Nat) (hk : k < b.used) : b.content.getD k 0 = b.data k :=
  getD_map_range _ _ _ hk

theorem replaceBytes_length (c : List Nat) (off del : Nat) (src : List Nat) (h : off + del ≤ c.length) :
    (replaceBytes c off del src).length = c.length - del + src.length := by
  simp [replaceBytes]; omega

theorem replaceBytes_getD (c : List Nat) (off del : Nat) (src : List Nat) (h : off + del ≤ c.length) (k : Nat) :
    (replaceBytes c off del src).getD k 0 =
      if k < off then c.getD k 0
      else if k < off + src.length then src.getD (k - off) 0
      else c.getD (k - src.length + del) 0 := by
  have h1 : (c.take off).length = off := by simp; omega
  unfold replaceBytes
  simp only [List.getD_eq_getElem?_getD, List.append_assoc]
  by_cases c1 : k < off
  · rw [List.getElem?_append_left (by omega)]
    simp [c1]
  · rw [List.getElem?_append_right (by omega), h1]
    by_cases c2 : k < off + src.length
    · rw [List.getElem?_append_left (by omega)]
      simp [c1, c2]
    · rw [List.getElem?_append_right (by omega)]
      simp only [c1, c2, if_false, List.getElem?_drop]
      congr 2
      omega

theorem findBlk_cons_self (x : Block) (l : List Block) : findBlk (x :: l) x.id = some x := by
  simp [findBlk]

theorem strDims_of (s : St) (id : Nat) (b : Block) (h : findBlk s.live id = some b) :
    strDims s id = (b.len, b.used) := by simp [strDims, h]

theorem strDims_none (s : St) (id : Nat) (h : findBlk s.live id = none) : strDims s id = (0, 0) := by
  simp [strDims, h]

theorem strContent_of (s : St) (id : Nat) (b : Block) (h : findBlk s.live id = some b) :
    strContent s id = b.content := by simp [strContent, h]

theorem strContent_length (s : St) (id : Nat) : (strContent s id).length = (strDims s id).2 := by
  unfold strContent strDims
  split <;> simp [content_length]

theorem getD_append (l1 l2 : List Nat) (k : Nat) :
    (l1 ++ l2).getD k 0 = if k < l1.length then l1.getD k 0 else l2.getD (k - l1.length) 0 := by
  simp only [List.getD_eq_getElem?_getD, List.getElem?_append]
  split <;> rfl

theorem srcAt_toArray (src : List Nat) (k : Nat) : srcAt src.toArray k = src.getD k 0 := by
  simp [srcAt, List.getD_eq_getElem?_getD, Array.getD_eq_getD_getElem?]

theorem content_eq_of (b b1 : Block) (hu : b1.used = b.used) (hd : ∀ k, k < b.used → b1.data k = b.data k) :
    b1.content = b.content := by
  apply list_eq_of_getD
  · rw [content_length, content_length, hu]
  · intro k hk
    rw [content_length] at hk
    rw [content_getD b1 k hk, content_getD b k (by omega), hd k (by omega)]

theorem findSubFrom_some (needle : List Nat) : ∀ (hay : List Nat) (i r : Nat),
    findSubFrom needle hay i = some r →
      i ≤ r ∧ needle <+: hay.drop (r - i) ∧ ∀ j, j < r - i → ¬ needle <+: hay.drop j := by
  intro hay
  induction hay with
  | nil =>
    intro i r h
    simp only [findSubFrom] at h
    split at h
    · rename_i he
      cases h
      refine ⟨Nat.le_refl _, ?_, fun j hj => by omega⟩
      have : needle = [] := by simpa using he
      simp [this]
    · cases h
  | cons x t ih =>
    intro i r h
    simp only [findSubFrom] at h
    split at h
    · rename_i hp
      cases h
      refine ⟨Nat.le_refl _, ?_, fun j hj => by omega⟩
      simpa [List.isPrefixOf_iff_prefix] using hp
    · rename_i hp
      obtain ⟨h1, h2, h3⟩ := ih (i + 1) r h
      refine ⟨by omega, ?_, ?_⟩
      · have e : r - i = (r - (i + 1)) + 1 := by omega
        rw [e, List.drop_succ_cons]; exact h2
      · intro j hj
        cases j with
        | zero =>
          simpa [List.isPrefixOf_iff_prefix] using hp
        | succ j => rw [List.drop_succ_cons]; exact h3 j (by omega)

theorem findSubFrom_none (needle : List Nat) : ∀ (hay : List Nat) (i : Nat),
    findSubFrom needle hay i = none → ∀ j, ¬ needle <+: hay.drop j := by
  intro hay
  induction hay with
  | nil =>
    intro i h j
    simp only [findSubFrom] at h
    split at h
    · cases h
    · rename_i he
      intro hp
      apply he
      have : needle = [] := by simpa using hp
      simp [this]
  | cons x t ih =>
    intro i h j
    simp only [findSubFrom] at h
    split at h
    · cases h
    · rename_i hp
      cases j with
      | zero => simpa [List.isPrefixOf_iff_prefix] using hp
      | succ j => rw [List.drop_succ_cons]; exact ih (i + 1) h j

/-- What the string is after a raw write. -/
theorem strWrite_blk (s : St) (id : Nat) (w : Nat → Mem → Mem) (used' : Nat) (b : Block)
    (hf : findBlk s.live id = some b) :
    findBlk (strWrite s id w used').live id =
      some { b with used := used', data := fun k => w b.beg s.a.mem (b.beg + k) } := by
  have hid : b.id = id := by
    have := List.find?_some hf
    simpa using this
  unfold strWrite
  rw [hf]
  simp [findBlk, hid]

theorem strWrite_none (s : St) (id : Nat) (w : Nat → Mem → Mem) (used' : Nat)
    (hf : findBlk s.live id = none) : strWrite s id w used' = s := by
  unfold strWrite; rw [hf]

end NaijaVerif.Bump
