import NaijaVerif.Lemmas.LexUtf8
/-
Invariants of the lexer model (C07, lexer part): every function takes a cursor that stands on a
character boundary of a valid UTF-8 text to such a cursor further right; every diagnostic span and
token span is built from such positions; string contents stay valid UTF-8.
-/
namespace NaijaVerif.Lex
open NaijaVerif NaijaVerif.Utf8
open NaijaVerif.Bytes (isCont isBoundary)

/-! ## positions and cursors -/

/-- `p` is inside `src` and what follows it is valid UTF-8 (so `p` is a character boundary). -/
def Bnd (src : Bytes) (p : Nat) : Prop := p ≤ src.length ∧ validUtf8 (src.drop p) = true

/-- the cursor really is a cursor into `src`, on a boundary -/
def Cur.Ok (src : Bytes) (c : Cur) : Prop := c.rest = src.drop c.pos ∧ Bnd src c.pos

def SpanOk (src : Bytes) (s : Span) : Prop := s.lo ≤ s.hi ∧ Bnd src s.lo ∧ Bnd src s.hi

def DiagOk (src : Bytes) (d : Diag) : Prop := SpanOk src d.span ∧ ∀ l ∈ d.labels, SpanOk src l

def DiagsOk (src : Bytes) (ds : List Diag) : Prop := ∀ d ∈ ds, DiagOk src d

theorem Bnd.isBoundary {src : Bytes} {p : Nat} (h : Bnd src p) : isBoundary src p = true := by
  obtain ⟨hle, hv⟩ := h
  simp only [Bytes.isBoundary, Bool.or_eq_true, beq_iff_eq]
  by_cases hp : p = src.length
  · exact Or.inl (Or.inr hp)
  · right
    have hlt : p < src.length := by omega
    rw [List.drop_eq_getElem_cons hlt] at hv
    have := valid_head_not_cont hv
    simp [List.getElem?_eq_getElem hlt, this]

theorem Cur.Ok.len {src : Bytes} {c : Cur} (h : c.Ok src) : c.pos + c.rest.length = src.length := by
  obtain ⟨h1, h2, _⟩ := h
  rw [h1, List.length_drop]; omega

theorem Cur.Ok.valid {src : Bytes} {c : Cur} (h : c.Ok src) : validUtf8 c.rest = true := by
  rw [h.1]; exact h.2.2

theorem Cur.Ok.bnd {src : Bytes} {c : Cur} (h : c.Ok src) : Bnd src c.pos := h.2

theorem ok_start {src : Bytes} (h : validUtf8 src = true) : (⟨0, src⟩ : Cur).Ok src :=
  ⟨by simp, by simp [Bnd, h]⟩

theorem DiagsOk.nil {src : Bytes} : DiagsOk src [] := by intro d hd; cases hd

theorem DiagsOk.append {src : Bytes} {a b : List Diag} (ha : DiagsOk src a) (hb : DiagsOk src b) :
    DiagsOk src (a ++ b) := by
  intro d hd
  rcases List.mem_append.mp hd with h | h
  · exact ha d h
  · exact hb d h

theorem mkDiag_ok {src : Bytes} (k : DiagKind) {lo hi : Nat} (h : lo ≤ hi) (hl : Bnd src lo) (hh : Bnd src hi) :
    DiagOk src (mkDiag k lo hi) := by
  refine ⟨⟨h, hl, hh⟩, ?_⟩
  intro l hl'
  simp [mkDiag] at hl'
  subst hl'
  exact ⟨h, hl, hh⟩

theorem DiagsOk.single {src : Bytes} (k : DiagKind) {lo hi : Nat} (h : lo ≤ hi) (hl : Bnd src lo) (hh : Bnd src hi) :
    DiagsOk src [mkDiag k lo hi] := by
  intro d hd; simp at hd; subst hd; exact mkDiag_ok k h hl hh

theorem dropWhile_eq_drop {α} (p : α → Bool) (l : List α) : l.dropWhile p = l.drop (l.takeWhile p).length := by
  induction l with
  | nil => simp
  | cons a r ih => simp only [List.dropWhile_cons, List.takeWhile_cons]; split <;> simp [ih]

theorem takeWhile_length_le {α} (p : α → Bool) (l : List α) : (l.takeWhile p).length ≤ l.length := by
  induction l with
  | nil => simp
  | cons a r ih => simp only [List.takeWhile_cons]; split <;> simp <;> omega

/-- `self.pos += k` over `k` bytes that end on a boundary -/
theorem Cur.Ok.adv {src : Bytes} {c : Cur} (h : c.Ok src) {k : Nat} (hk : k ≤ c.rest.length)
    (hv : validUtf8 (c.rest.drop k) = true) : (c.adv k).Ok src ∧ c.pos ≤ (c.adv k).pos := by
  have hl := h.len
  refine ⟨⟨?_, ?_, ?_⟩, by simp [Cur.adv]⟩
  · simp only [Cur.adv]; rw [h.1, List.drop_drop]
  · simp only [Cur.adv]; omega
  · simp only [Cur.adv]; rw [← List.drop_drop, ← h.1]; exact hv

theorem skipWhile_eq_adv (p : Nat → Bool) (c : Cur) : c.skipWhile p = c.adv (c.rest.takeWhile p).length := by
  simp [Cur.skipWhile, Cur.adv, dropWhile_eq_drop]

/-- skipping bytes of an ASCII class -/
theorem Cur.Ok.skipAscii {src : Bytes} {c : Cur} (h : c.Ok src) (p : Nat → Bool) (hp : ∀ b, p b = true → b < 128) :
    (c.skipWhile p).Ok src ∧ c.pos ≤ (c.skipWhile p).pos := by
  rw [skipWhile_eq_adv]
  apply h.adv (takeWhile_length_le _ _)
  rw [← dropWhile_eq_drop]
  exact valid_dropWhile_ascii p h.valid hp

/-- skipping up to the first byte of an ASCII stop set -/
theorem Cur.Ok.skipTo {src : Bytes} {c : Cur} (h : c.Ok src) (p : Nat → Bool)
    (hp : ∀ b, p b = false → isCont b = false) :
    (c.skipWhile p).Ok src ∧ c.pos ≤ (c.skipWhile p).pos := by
  rw [skipWhile_eq_adv]
  apply h.adv (takeWhile_length_le _ _)
  rw [← dropWhile_eq_drop]
  exact (valid_takeWhile_dropWhile p h.valid hp).2

/-- one ASCII byte -/
theorem Cur.Ok.cons {src : Bytes} {p b : Nat} {r : Bytes} (h : (⟨p, b :: r⟩ : Cur).Ok src) (hb : b < 128) :
    (⟨p + 1, r⟩ : Cur).Ok src := by
  have := (h.adv (k := 1) (by simp) (by simpa using valid_tail_ascii h.valid hb)).1
  simpa [Cur.adv] using this

/-- one whole character -/
theorem Cur.Ok.char {src : Bytes} {p b : Nat} {r : Bytes} (h : (⟨p, b :: r⟩ : Cur).Ok src) :
    (⟨p + charLen b, (b :: r).drop (charLen b)⟩ : Cur).Ok src := by
  have hc := valid_char h.valid
  exact (h.adv (k := charLen b) hc.1 hc.2.2).1

theorem ascii_not_cont {b : Nat} (h : b < 128) : isCont b = false := by
  simp [isCont]; omega

theorem isWs_ascii {b : Nat} (h : isWs b = true) : b < 128 := by
  simp [isWs] at h; omega
theorem isDigit_ascii {b : Nat} (h : isDigit b = true) : b < 128 := by
  simp [isDigit] at h; omega
theorem isAlpha_ascii {b : Nat} (h : isAlpha b = true) : b < 128 := by
  simp [isAlpha] at h; omega
theorem isWordCh_ascii {b : Nat} (h : isWordCh b = true) : b < 128 := by
  simp only [isWordCh, Bool.or_eq_true] at h
  rcases h with h | h
  · exact isAlpha_ascii h
  · exact isDigit_ascii h
theorem notNl_stop {b : Nat} (h : notNl b = false) : isCont b = false := by
  apply ascii_not_cont; simp [notNl] at h; omega
theorem notQuoteEsc_stop {q b : Nat} (hq : q < 128) (h : notQuoteEsc q b = false) : b < 128 := by
  simp [notQuoteEsc] at h; omega

theorem skipWs_ok {src : Bytes} {c : Cur} (h : c.Ok src) : (skipWs c).Ok src ∧ c.pos ≤ (skipWs c).pos :=
  h.skipAscii isWs (fun _ => isWs_ascii)

theorem skipComment_ok {src : Bytes} {c : Cur} (h : c.Ok src) :
    (skipComment c).Ok src ∧ c.pos ≤ (skipComment c).pos := by
  have h1 := h.skipTo notNl (fun _ => notNl_stop)
  simp only [skipComment]
  split
  · exact h1
  next b r hr =>
    have hb : notNl b = false := by
      have := List.head?_dropWhile_not notNl c.rest
      have e : (c.rest.dropWhile notNl) = b :: r := by simpa [Cur.skipWhile] using hr
      simp [e] at this; simpa using this
    have hb' : b < 128 := by simp [notNl] at hb; omega
    have hok : (⟨(c.skipWhile notNl).pos, b :: r⟩ : Cur).Ok src := by rw [← hr]; exact h1.1
    have := hok.cons hb'
    refine ⟨by simpa [Cur.adv, hr] using this, by simp [Cur.adv]; omega⟩

/-! ## strings -/

theorem escapeOf_some {q e y : Nat} (h : escapeOf q e = some y) : e < 128 ∧ y < 128 := by
  simp only [escapeOf, escTable, List.find?] at h
  repeat' split at h
  all_goals (simp at *)
  all_goals omega

theorem scanStrLoop_ok {src : Bytes} {start quote : Nat} (hq : quote < 128) (hs : Bnd src start) :
    ∀ (f : Nat) (c : Cur) (buf : Bytes) (esc : Bool) (ds : List Diag),
      c.Ok src → start ≤ c.pos → validUtf8 buf = true → DiagsOk src ds →
      (scanStrLoop start quote f c buf esc ds).cur.Ok src ∧
      c.pos ≤ (scanStrLoop start quote f c buf esc ds).cur.pos ∧
      validUtf8 (scanStrLoop start quote f c buf esc ds).content = true ∧
      DiagsOk src (scanStrLoop start quote f c buf esc ds).diags := by
  intro f
  induction f with
  | zero => intro c buf esc ds hc _ hb hd; exact ⟨hc, Nat.le_refl _, hb, hd⟩
  | succ f ih =>
    intro c buf esc ds hc hsc hb hd
    have hqs : ∀ b, notQuoteEsc quote b = false → isCont b = false :=
      fun b h => ascii_not_cont (notQuoteEsc_stop hq h)
    have hqe := valid_takeWhile_dropWhile (notQuoteEsc quote) hc.valid hqs
    have hnl := valid_takeWhile_dropWhile notNl hc.valid (fun _ => notNl_stop)
    simp only [scanStrLoop]
    split
    · -- line end first
      have ha := hc.adv (takeWhile_length_le notNl c.rest) (by rw [← dropWhile_eq_drop]; exact hnl.2)
      refine ⟨ha.1, ha.2, ?_, ?_⟩
      · split
        · exact hb
        · exact hnl.1
      · exact hd.append (DiagsOk.single _ (Nat.le_trans hsc ha.2) hs ha.1.bnd)
    · split
      next hdw =>
        refine ⟨hc, Nat.le_refl _, ?_, hd.append (DiagsOk.single _ hsc hs hc.bnd)⟩
        split
        · exact hb
        · exact valid_nil
      next q after hdw =>
        -- cursor on the quote / backslash
        have hcq0 := hc.adv (takeWhile_length_le (notQuoteEsc quote) c.rest)
          (by rw [← dropWhile_eq_drop]; exact hqe.2)
        have hcq : (⟨c.pos + (c.rest.takeWhile (notQuoteEsc quote)).length, q :: after⟩ : Cur).Ok src := by
          have := hcq0.1
          simpa [Cur.adv, ← dropWhile_eq_drop, hdw] using this
        have hqst : notQuoteEsc quote q = false := by
          have := List.head?_dropWhile_not (notQuoteEsc quote) c.rest
          simp [hdw] at this; simpa using this
        have hq128 : q < 128 := notQuoteEsc_stop hq hqst
        have hafter := hcq.cons hq128
        split
        · -- closing quote
          refine ⟨hafter, by simp; omega, ?_, hd⟩
          split
          · exact valid_append _ hb _ hqe.1
          · exact hqe.1
        · -- backslash
          have hbuf' := valid_append _ hb _ hqe.1
          split
          · exact ⟨hc, Nat.le_refl _, hbuf', hd.append (DiagsOk.single _ hsc hs hc.bnd)⟩
          next e tl =>
            split
            next y hy =>
              have he := escapeOf_some hy
              have h2 := hafter.cons he.1
              have hy1 : validUtf8 [y] = true := by rw [valid_cons_ascii he.2]; exact valid_nil
              have := ih ⟨c.pos + (c.rest.takeWhile (notQuoteEsc quote)).length + 2, (e :: tl).drop 1⟩
                (buf ++ c.rest.takeWhile (notQuoteEsc quote) ++ [y]) true ds
                (by simpa using h2) (by simp; omega) (valid_append _ hbuf' _ hy1) hd
              exact ⟨this.1, Nat.le_trans (by show c.pos ≤ _ + 2; omega) this.2.1, this.2.2.1, this.2.2.2⟩
            next hnone =>
              have hch := hafter.char
              have hvc := valid_char hafter.valid
              have := ih ⟨c.pos + (c.rest.takeWhile (notQuoteEsc quote)).length + 1 + charLen e, (e :: tl).drop (charLen e)⟩
                (buf ++ c.rest.takeWhile (notQuoteEsc quote) ++ (e :: tl).take (charLen e)) true
                (ds ++ [mkDiag .invalidStringEscape (c.pos + (c.rest.takeWhile (notQuoteEsc quote)).length)
                  (c.pos + (c.rest.takeWhile (notQuoteEsc quote)).length + 1 + charLen e)])
                hch (by simp; omega) (valid_append _ hbuf' _ hvc.2.1)
                (hd.append (DiagsOk.single _ (by omega) hcq.bnd hch.bnd))
              exact ⟨this.1, Nat.le_trans (by show c.pos ≤ _ + 1 + charLen e; omega) this.2.1, this.2.2.1, this.2.2.2⟩

theorem scanString_ok {src : Bytes} {start quote : Nat} {c : Cur} (hq : quote < 128) (hs : Bnd src start)
    (hc : c.Ok src) (hsc : start ≤ c.pos) :
    (scanString start quote c).cur.Ok src ∧ c.pos ≤ (scanString start quote c).cur.pos ∧
    validUtf8 (scanString start quote c).content = true ∧ DiagsOk src (scanString start quote c).diags :=
  scanStrLoop_ok hq hs _ c [] false [] hc hsc valid_nil DiagsOk.nil


/-! ## numbers -/

def NumRes.cur : NumRes → Cur
  | .ok _ c _ => c
  | .invalid c _ => c

def NumRes.diags : NumRes → List Diag
  | .ok _ _ ds => ds
  | .invalid _ ds => ds

theorem numFinish_ok {src : Bytes} {start : Nat} {lx : Bytes} {c : Cur} (hs : Bnd src start) (hc : c.Ok src)
    (hsc : start ≤ c.pos) :
    (numFinish start lx c).cur.Ok src ∧ c.pos ≤ (numFinish start lx c).cur.pos ∧
      DiagsOk src (numFinish start lx c).diags := by
  simp only [numFinish]
  split
  · exact ⟨hc, Nat.le_refl _, DiagsOk.nil⟩
  · split
    · have h := hc.skipAscii isWordCh (fun _ => isWordCh_ascii)
      exact ⟨h.1, h.2, DiagsOk.single _ (Nat.le_trans hsc h.2) hs h.1.bnd⟩
    · exact ⟨hc, Nat.le_refl _, DiagsOk.nil⟩

theorem takeWhile_pos {p : Nat → Bool} {b : Nat} {r : Bytes} (h : p b = true) :
    0 < ((b :: r).takeWhile p).length := by
  simp [h]

theorem scanNumber_ok {src : Bytes} {start : Nat} {c : Cur} {b : Nat} {r : Bytes} (hs : Bnd src start)
    (hc : c.Ok src) (hsc : start ≤ c.pos) (hr : c.rest = b :: r) (hb : isDigit b = true) :
    (scanNumber start c).cur.Ok src ∧ c.pos < (scanNumber start c).cur.pos ∧
      DiagsOk src (scanNumber start c).diags := by
  have h1 := hc.skipAscii isDigit (fun _ => isDigit_ascii)
  have hlt : c.pos < (c.skipWhile isDigit).pos := by
    have := takeWhile_pos (p := isDigit) (r := r) hb
    simp only [Cur.skipWhile, hr]; omega
  simp only [scanNumber]
  split
  next r2 h46 =>
    have hc1 : (⟨(c.skipWhile isDigit).pos, 46 :: r2⟩ : Cur).Ok src := by rw [← h46]; exact h1.1
    have hc2 := hc1.cons (by omega : 46 < 128)
    split
    · exact ⟨hc2, by simp only [NumRes.cur]; omega, DiagsOk.single _ (by omega) hs hc2.bnd⟩
    next d tl =>
      split
      · have h3 := hc2.skipAscii isDigit (fun _ => isDigit_ascii)
        have h4 := numFinish_ok (lx := c.rest.takeWhile isDigit ++ 46 :: (d :: tl).takeWhile isDigit) hs h3.1
          (by have := h3.2; simp only [] at this; omega)
        refine ⟨h4.1, ?_, h4.2.2⟩
        have := h4.2.1; have := h3.2; simp only [] at this; omega
      · have h3 := hc2.char
        refine ⟨h3, ?_, DiagsOk.single _ (by omega) hs hc2.bnd⟩
        simp only [NumRes.cur, Cur.adv]; omega
  · have h4 := numFinish_ok (lx := c.rest.takeWhile isDigit) hs h1.1 (by omega)
    exact ⟨h4.1, by omega, h4.2.2⟩

/-! ## words -/

theorem valid_drop_ascii : ∀ (w t : Bytes), (∀ b ∈ w, b < 128) → validUtf8 (w ++ t) = true → validUtf8 t = true := by
  intro w
  induction w with
  | nil => intro t _ h; simpa using h
  | cons x w ih =>
    intro t hw h
    exact ih t (fun b hb => hw b (by simp [hb])) (valid_tail_ascii h (hw x (by simp)))

theorem tryWord_ok {src : Bytes} {w : Bytes} {c c' : Cur} (hw : ∀ b ∈ w, b < 128) (hc : c.Ok src)
    (h : tryWord w c = some c') : c'.Ok src ∧ c.pos ≤ c'.pos := by
  have h1 := skipWs_ok hc
  simp only [tryWord] at h
  split at h
  next hpre =>
    have hp : w <+: (skipWs c).rest := List.isPrefixOf_iff_prefix.mp hpre
    have he := List.prefix_iff_eq_append.mp hp
    have hv : validUtf8 ((skipWs c).rest.drop w.length) = true :=
      valid_drop_ascii w _ hw (by rw [he]; exact h1.1.valid)
    have h2 := h1.1.adv (k := w.length) (by have := hp.length_le; omega) hv
    split at h
    · simp at h; subst h; exact ⟨h2.1, by omega⟩
    · split at h
      · simp at h
      · simp at h; subst h; exact ⟨h2.1, by omega⟩
  · simp at h

theorem tryWords_ok {src : Bytes} : ∀ (ws : List Bytes) (c : Cur), (∀ w ∈ ws, ∀ b ∈ w, b < 128) → c.Ok src →
    (tryWords ws c).2.Ok src ∧ c.pos ≤ (tryWords ws c).2.pos := by
  intro ws
  induction ws with
  | nil => intro c _ hc; exact ⟨hc, Nat.le_refl _⟩
  | cons w ws ih =>
    intro c hw hc
    simp only [tryWords]
    split
    next c' h =>
      have h1 := tryWord_ok (hw w (by simp)) hc h
      have h2 := ih c' (fun w' hw' => hw w' (by simp [hw'])) h1.1
      exact ⟨h2.1, by omega⟩
    · exact ⟨hc, Nat.le_refl _⟩

theorem tryAlts_ok {src : Bytes} : ∀ (alts : List (List Bytes × Tok)) (c : Cur),
    (∀ a ∈ alts, ∀ w ∈ a.1, ∀ b ∈ w, b < 128) → c.Ok src →
    ∀ t c', tryAlts alts c = some (t, c') → c'.Ok src ∧ c.pos ≤ c'.pos := by
  intro alts
  induction alts with
  | nil => intro c _ _ t c' h; simp [tryAlts] at h
  | cons a alts ih =>
    intro c ha hc t c' h
    obtain ⟨ws, tk⟩ := a
    have h1 := tryWords_ok ws c (ha (ws, tk) (by simp)) hc
    simp only [tryAlts] at h
    split at h
    next c1 he =>
      simp at h; obtain ⟨_, rfl⟩ := h
      rw [he] at h1; exact h1
    next c1 he =>
      rw [he] at h1
      have := ih c1 (fun a' ha' => ha a' (by simp [ha'])) h1.1 t c' h
      exact ⟨this.1, by have := h1.2; simp only [] at this; omega⟩

theorem multiWord_ascii : ∀ e ∈ multiWord, ∀ a ∈ e.2, ∀ w ∈ a.1, ∀ b ∈ w, b < 128 := by decide

theorem lookup_mem {α β} [BEq α] [LawfulBEq α] : ∀ (l : List (α × β)) (k : α) (v : β), l.lookup k = some v → (k, v) ∈ l := by
  intro l
  induction l with
  | nil => intro k v h; simp at h
  | cons x l ih =>
    intro k v h
    obtain ⟨k', v'⟩ := x
    simp only [List.lookup_cons] at h
    split at h
    next heq => simp at h; subst h; have := eq_of_beq heq; subst this; simp
    next => exact List.mem_cons_of_mem _ (ih k v h)

def _root_.NaijaVerif.Tok.isStr : Tok → Bool
  | .str _ _ => true
  | _ => false

/-- what C07 asks of a token payload: string contents are valid UTF-8 -/
def TokOk : Tok → Prop
  | .str content _ => validUtf8 content = true
  | _ => True

theorem tokOk_of_not_str {t : Tok} (h : t.isStr = false) : TokOk t := by
  cases t <;> simp_all [Tok.isStr, TokOk]

theorem kwTable_not_str : ∀ e ∈ kwTable, e.2.isStr = false := by decide
theorem multiWord_not_str : ∀ e ∈ multiWord, ∀ a ∈ e.2, a.2.isStr = false := by decide
theorem punctTable_not_str : ∀ e ∈ punctTable, e.2.isStr = false := by decide

theorem tryAlts_tok : ∀ (alts : List (List Bytes × Tok)) (c : Cur) (t : Tok) (c' : Cur),
    tryAlts alts c = some (t, c') → ∃ a ∈ alts, a.2 = t := by
  intro alts
  induction alts with
  | nil => intro c t c' h; simp [tryAlts] at h
  | cons a alts ih =>
    intro c t c' h
    obtain ⟨ws, tk⟩ := a
    simp only [tryAlts] at h
    split at h
    · simp at h; exact ⟨(ws, tk), by simp, h.1⟩
    next c1 _ =>
      obtain ⟨a', ha', he⟩ := ih c1 t c' h
      exact ⟨a', by simp [ha'], he⟩

theorem scanWord_tokOk (c : Cur) : TokOk (scanWord c).1 := by
  simp only [scanWord]
  split
  next alts hl =>
    have hm := lookup_mem _ _ _ hl
    split
    next t c' ha =>
      obtain ⟨a, haa, rfl⟩ := tryAlts_tok _ _ _ _ ha
      exact tokOk_of_not_str (multiWord_not_str _ hm a haa)
    · trivial
  · split
    next t hk => exact tokOk_of_not_str (kwTable_not_str _ (lookup_mem _ _ _ hk))
    · trivial

theorem scanWord_ok {src : Bytes} {c : Cur} {b : Nat} {r : Bytes} (hc : c.Ok src) (hr : c.rest = b :: r)
    (hb : isAlpha b = true) : (scanWord c).2.Ok src ∧ c.pos < (scanWord c).2.pos := by
  have h1 := hc.skipAscii isWordCh (fun _ => isWordCh_ascii)
  have hlt : c.pos < (c.skipWhile isWordCh).pos := by
    have := takeWhile_pos (p := isWordCh) (b := b) (r := r) (by simp [isWordCh, hb])
    simp only [Cur.skipWhile, hr]; omega
  simp only [scanWord]
  split
  next alts hl =>
    have hm := lookup_mem _ _ _ hl
    split
    next t c' ha =>
      have := tryAlts_ok alts _ (multiWord_ascii _ hm) h1.1 t c' ha
      exact ⟨this.1, by show c.pos < c'.pos; omega⟩
    · exact ⟨h1.1, hlt⟩
  · split <;> exact ⟨h1.1, hlt⟩

/-! ## `next_token` and the whole loop -/

def StepOk (src : Bytes) (c0 : Cur) : Step → Prop
  | .eof p => Bnd src p
  | .skip c' ds => c'.Ok src ∧ c0.pos < c'.pos ∧ DiagsOk src ds
  | .tok t c' ds => c'.Ok src ∧ c0.pos < c'.pos ∧ DiagsOk src ds ∧ SpanOk src t.span ∧ c0.pos ≤ t.span.lo ∧
      t.span.hi = c'.pos ∧ TokOk t.tok

theorem step_ok {src : Bytes} {c0 : Cur} (hc0 : c0.Ok src) : StepOk src c0 (step c0) := by
  have hw := skipWs_ok hc0
  simp only [step]
  split
  · exact hw.1.bnd
  next b r hr =>
    have hc : (⟨(skipWs c0).pos, b :: r⟩ : Cur).Ok src := by rw [← hr]; exact hw.1
    split
    next hcm =>
      have := skipComment_ok hw.1
      have hb : b = 35 := by simpa [commentChar] using hcm
      refine ⟨this.1, ?_, DiagsOk.nil⟩
      -- the `#` itself is consumed
      have h2 : (skipWs c0).pos < (skipComment (skipWs c0)).pos := by
        simp only [skipComment, Cur.skipWhile, hr, hb]
        have : 0 < ((35 :: r).takeWhile notNl).length := takeWhile_pos (by decide)
        split <;> simp only [Cur.adv] <;> omega
      omega
    · split
      next hqc =>
        have hq : b < 128 := by
          simp [quoteChars] at hqc; omega
        have hc1 := hc.cons hq
        have := scanString_ok (start := (skipWs c0).pos) hq hw.1.bnd hc1 (by simp)
        refine ⟨this.1, ?_, this.2.2.2, ⟨?_, hw.1.bnd, this.1.bnd⟩, hw.2, rfl, this.2.2.1⟩
        · have := this.2.1; simp only [] at this; omega
        · have := this.2.1; simp only [] at this; simp only []; omega
      · split
        next t hp =>
          have hq : b < 128 := by
            have := lookup_mem _ _ _ hp
            simp [punctTable] at this; omega
          have hc1 := hc.cons hq
          exact ⟨hc1, by simp only []; omega, DiagsOk.nil, ⟨by simp, hw.1.bnd, hc1.bnd⟩, hw.2, rfl,
            tokOk_of_not_str (punctTable_not_str _ (lookup_mem _ _ _ hp))⟩
        · split
          next hd =>
            have := scanNumber_ok (start := (skipWs c0).pos) hw.1.bnd hw.1 (Nat.le_refl _) hr hd
            split
            next lx c' ds he =>
              rw [he] at this; simp only [NumRes.cur, NumRes.diags] at this
              exact ⟨this.1, by omega, this.2.2, ⟨by simp only []; omega, hw.1.bnd, this.1.bnd⟩, hw.2, rfl, trivial⟩
            next c' ds he =>
              rw [he] at this; simp only [NumRes.cur, NumRes.diags] at this
              exact ⟨this.1, by omega, this.2.2⟩
          · split
            next ha =>
              have := scanWord_ok hw.1 hr ha
              exact ⟨this.1, by omega, DiagsOk.nil, ⟨by simp only []; omega, hw.1.bnd, this.1.bnd⟩, hw.2, rfl,
                scanWord_tokOk _⟩
            · split
              · have h3 := hc.char
                have hlen := charLen_pos b
                have h3' : ((skipWs c0).adv (charLen b)).Ok src := by
                  simpa [Cur.adv, hr] using h3
                exact ⟨h3', by simp only [Cur.adv]; omega,
                  DiagsOk.single _ (by omega) hw.1.bnd (by simpa [Cur.adv] using h3'.bnd)⟩
              · have hq : b < 128 := by omega
                have hc1 := hc.cons hq
                exact ⟨hc1, by simp only []; omega, DiagsOk.single _ (Nat.le_refl _) hw.1.bnd hw.1.bnd⟩


/-- token spans start at or after `p`, each after the end of its predecessor -/
def Chain : Nat → List SpTok → Prop
  | _, [] => True
  | p, t :: r => p ≤ t.span.lo ∧ t.span.lo ≤ t.span.hi ∧ Chain t.span.hi r

theorem Chain.mono {p q : Nat} (h : p ≤ q) : ∀ {ts : List SpTok}, Chain q ts → Chain p ts
  | [], _ => trivial
  | _ :: _, hc => ⟨Nat.le_trans h hc.1, hc.2⟩

theorem lexGo_ok {src : Bytes} : ∀ (f : Nat) (c : Cur), c.Ok src →
    (∀ t ∈ (lexGo f c).1, SpanOk src t.span ∧ TokOk t.tok) ∧ DiagsOk src (lexGo f c).2.1 ∧
      Chain c.pos (lexGo f c).1 := by
  intro f
  induction f with
  | zero => intro c _; simp [lexGo, DiagsOk.nil, Chain]
  | succ f ih =>
    intro c hc
    have hs := step_ok hc
    simp only [lexGo]
    split
    · simp [DiagsOk.nil, Chain]
    next c' ds he =>
      rw [he] at hs
      obtain ⟨h1, h2, h3⟩ := hs
      have := ih c' h1
      exact ⟨this.1, h3.append this.2.1, Chain.mono (Nat.le_of_lt h2) this.2.2⟩
    next t c' ds he =>
      rw [he] at hs
      obtain ⟨h1, h2, h3, h4, h5, h6, h7⟩ := hs
      have := ih c' h1
      refine ⟨?_, h3.append this.2.1, h5, h4.1, ?_⟩
      · intro t' ht'
        simp only [List.mem_cons] at ht'
        rcases ht' with rfl | ht'
        · exact ⟨h4, h7⟩
        · exact this.1 t' ht'
      · rw [h6]; exact this.2.2

/-- **Fuel adequacy of the main loop**: with more fuel than bytes left the loop reaches EOF … -/
theorem lexGo_fuel {src : Bytes} : ∀ (f : Nat) (c : Cur), c.Ok src → src.length - c.pos < f →
    (lexGo f c).2.2 = false := by
  intro f
  induction f with
  | zero => intro c _ h; omega
  | succ f ih =>
    intro c hc hf
    have hs := step_ok hc
    simp only [lexGo]
    split
    · rfl
    next c' ds he =>
      rw [he] at hs
      have := hs.1.len
      exact ih c' hs.1 (by have := hs.2.1; omega)
    next t c' ds he =>
      rw [he] at hs
      have := hs.1.len
      exact ih c' hs.1 (by have := hs.2.1; omega)

/-- … and additional fuel changes nothing. -/
theorem lexGo_fuel_stable {src : Bytes} : ∀ (f : Nat) (c : Cur), c.Ok src → src.length - c.pos < f →
    lexGo (f + 1) c = lexGo f c := by
  intro f
  induction f with
  | zero => intro c _ h; omega
  | succ f ih =>
    intro c hc hf
    have hs := step_ok hc
    rw [lexGo, lexGo.eq_def (f + 1)]
    simp only []
    split
    · rfl
    next c' ds he =>
      rw [he] at hs
      have := hs.1.len
      rw [ih c' hs.1 (by have := hs.2.1; omega)]
    next t c' ds he =>
      rw [he] at hs
      have := hs.1.len
      rw [ih c' hs.1 (by have := hs.2.1; omega)]

theorem lexGo_fuel_any {src : Bytes} (c : Cur) (hc : c.Ok src) (f k : Nat) (hf : src.length - c.pos < f) :
    lexGo (f + k) c = lexGo f c := by
  induction k with
  | zero => rfl
  | succ k ih => rw [← Nat.add_assoc, lexGo_fuel_stable (f + k) c hc (by omega), ih]

/-- fuel adequacy of the string loop: it never runs out with more fuel than bytes left -/
theorem scanStrLoop_fuel_stable (start quote : Nat) : ∀ (f : Nat) (c : Cur) (buf : Bytes) (esc : Bool) (ds : List Diag),
    c.rest.length < f → scanStrLoop start quote (f + 1) c buf esc ds = scanStrLoop start quote f c buf esc ds := by
  intro f
  induction f with
  | zero => intro c _ _ _ h; omega
  | succ f ih =>
    intro c buf esc ds hf
    rw [scanStrLoop, scanStrLoop.eq_def start quote (f + 1)]
    simp only []
    split
    · rfl
    · split
      · rfl
      next q after hdw =>
        have hlen : after.length < c.rest.length := by
          have := congrArg List.length (dropWhile_eq_drop (notQuoteEsc quote) c.rest)
          rw [hdw, List.length_drop] at this
          simp at this; omega
        split
        · rfl
        · split
          · rfl
          next e tl =>
            split
            · rw [ih]; simp only [List.length_drop, List.length_cons] at hlen ⊢; omega
            · rw [ih]; simp only [List.length_drop, List.length_cons] at hlen ⊢; omega

end NaijaVerif.Lex
