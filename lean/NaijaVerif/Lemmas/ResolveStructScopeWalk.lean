import NaijaVerif.Lemmas.ResolveStructScope
/-
Scopes of the resolver model, part 2: the walk.

For every accepted program the output of the resolver model and its facts satisfy
* `scOwnB facts` (last conjunct of `C03.globalOkB`): a local's declaring scope belongs to its owner;
* the ORACLE part of the bridge condition `okBlock (orcOf numOk facts)`: the scope tag of every block
  (`blockTag`: the facts' scope of its first statement) is the declaring scope of exactly the targets
  of its own `make` statements, the definitions of a block carry distinct `FunctionId`s, every
  parameter is bound, to distinct locals, and the tag of the parameter scope is the declaring scope of
  exactly the parameters.
The argument: a block / parameter list takes the NEXT scope id (`scopes.length`), every local pushed
while the block's own statements are checked is declared by that scope and written on a `make`, every
local pushed below it is declared by a scope allocated later, and no local pushed after the block is
declared by a scope allocated inside it (`NewS`, `After`).
-/
namespace NaijaVerif.ResolveStruct
open NaijaVerif NaijaVerif.Resolve NaijaVerif.ResolveFacts NaijaVerif.Analysis NaijaVerif.C03 NaijaVerif.Bridge

/-! ### Parameters -/

theorem declareParams_scope (sl : Bool) (owner scope : Nat) : ∀ (ps : List Param) (sc : Scope) (f : Facts),
    ScOwn f scope owner → DSLt f → SOInv f →
    DSLt (declareParams sl owner scope ps sc f).2.2 ∧ SOInv (declareParams sl owner scope ps sc f).2.2 ∧
    (declareParams sl owner scope ps sc f).2.2.scopes = f.scopes ∧
    (declareParams sl owner scope ps sc f).2.2.locals.length = f.locals.length + ps.length ∧
    paramBinds (declareParams sl owner scope ps sc f).1 = List.range' f.locals.length ps.length ∧
    (∀ l, f.locals.length ≤ l → l < f.locals.length + ps.length →
      declScopeOf (declareParams sl owner scope ps sc f).2.2 l = some scope) ∧
    (declareParams sl owner scope ps sc f).1.all (fun p => p.bind.isSome) = true ∧
    (∀ p0 rest, (declareParams sl owner scope ps sc f).1 = p0 :: rest → p0.bind = some f.locals.length)
  | [], sc, f, _, hd, hso => by
      simp only [declareParams, List.length_nil, Nat.add_zero, paramBinds, List.filterMap_nil, List.range'_zero,
        List.all_nil]
      refine ⟨hd, hso, ?_, ?_, ?_, ?_, ?_, ?_⟩ <;> first | trivial | rfl | (intro l h1 h2; omega) | (intro p0 rest h; cases h)
  | p :: ps, sc, f, hs, hd, hso => by
      have hs1 : ScOwn (pushLocal f sl p.name owner scope none .parameter) scope owner := hs.congr rfl
      obtain ⟨h1, h2, h3, h4, h5, h6, h7, _⟩ := declareParams_scope sl owner scope ps (⟨p.name, .dynamic, f.locals.length⟩ :: sc)
        (pushLocal f sl p.name owner scope none .parameter) hs1 (hd.pushLocal hs sl p.name none .parameter)
        (hso.pushLocal hs sl p.name none .parameter)
      have hl : (pushLocal f sl p.name owner scope none .parameter).locals.length = f.locals.length + 1 := by simp
      simp only [declareParams]
      refine ⟨h1, h2, by rw [h3]; rfl, ?_, ?_, ?_, ?_, ?_⟩
      · rw [h4, hl]; simp only [List.length_cons]; omega
      · simp only [paramBinds, List.filterMap_cons, List.length_cons]
        rw [show ps.length + 1 = 1 + ps.length from Nat.add_comm _ _, ← List.range'_append_1]
        have := h5
        simp only [paramBinds] at this
        rw [this, hl]
        rfl
      · intro l hl1 hl2
        simp only [List.length_cons] at hl2
        rcases Nat.lt_or_ge l (f.locals.length + 1) with hlt | hge
        · have : l = f.locals.length := by omega
          subst this
          have hpre : Pre (pushLocal f sl p.name owner scope none .parameter)
              (declareParams sl owner scope ps (⟨p.name, .dynamic, f.locals.length⟩ :: sc)
                (pushLocal f sl p.name owner scope none .parameter)).2.2 := (declareParams_steps _ _ _ _ _ _).pre
          exact declScopeOf_mono hpre (declScopeOf_pushLocal_new f sl p.name owner scope none .parameter)
        · exact h6 l (by rw [hl]; exact hge) (by rw [hl]; omega)
      · simp only [List.all_cons, Option.isSome_some, Bool.true_and]; exact h7
      · intro p0 rest h
        simp only [List.cons.injEq] at h
        rw [← h.1]

/-! ### The definitions of a block carry distinct ids -/

theorem fnIdsOf_single (s : Stmt) : Eval.fnIdsOf [s] = (match s with | .fnDef _ _ _ _ (some i) _ _ => [i] | _ => []) := by
  cases s with
  | fnDef _ _ _ _ fn _ _ => cases fn <;> rfl
  | _ => rfl

/-- A statement is either no annotated definition and leaves the names passed as they are, or it is
annotated with the id of a signature of the own function scope whose name was not passed before. -/
theorem checkStmt_fnIds_one (env : Env) (own : List FnSig) (rest : List (List FnSig)) (henv : env.fns = own :: rest)
    (cur : Cur) (s : Stmt) (f : Facts) :
    (Eval.fnIdsOf [(checkStmt env cur s f).val] = [] ∧ (checkStmt env cur s f).cur.seenFns = cur.seenFns) ∨
    ∃ g ∈ own, g.name ∉ cur.seenFns ∧ Eval.fnIdsOf [(checkStmt env cur s f).val] = [g.id] ∧
      (checkStmt env cur s f).cur.seenFns = g.name :: cur.seenFns := by
  cases s with
  | fnDef name nsp ps body a b sp =>
    rw [checkStmt_fnDef]
    cases hsig : sigOf env cur name with
    | none => left; exact ⟨rfl, rfl⟩
    | some g =>
      right
      simp only [sigOf, henv] at hsig
      split at hsig
      · cases hsig
      · next hns =>
        have hn := findFn_name hsig
        refine ⟨g, findFn_mem hsig, ?_, rfl, ?_⟩
        · rw [hn]; simpa using hns
        · simp only; rw [hn]
  | assign x xs e b sid sp => left; simp only [checkStmt]; split <;> (constructor <;> first | rfl | trivial)
  | assignExisting x xs e b sid sp => left; simp only [checkStmt]; split <;> (constructor <;> first | rfl | trivial)
  | ret e sid sp => left; simp only [checkStmt]; split <;> (constructor <;> first | rfl | trivial)
  | assignIndex _ _ _ _ => left; simp only [checkStmt]; constructor <;> first | rfl | trivial
  | ifS _ _ _ _ _ => left; simp only [checkStmt]; constructor <;> first | rfl | trivial
  | loop _ _ _ _ => left; simp only [checkStmt]; constructor <;> first | rfl | trivial
  | block _ _ _ => left; simp only [checkStmt]; constructor <;> first | rfl | trivial
  | brk _ _ => left; simp only [checkStmt]; constructor <;> first | rfl | trivial
  | cont _ _ => left; simp only [checkStmt]; constructor <;> first | rfl | trivial
  | expr _ _ _ => left; simp only [checkStmt]; constructor <;> first | rfl | trivial

theorem checkStmts_fnIds_nodup (env : Env) (own : List FnSig) (rest : List (List FnSig)) (henv : env.fns = own :: rest)
    (hinj : (own.map (·.id)).Nodup) : ∀ (ss : List Stmt) (cur : Cur) (f : Facts),
    (Eval.fnIdsOf (checkStmts env cur ss f).val).Nodup ∧
    ∀ i ∈ Eval.fnIdsOf (checkStmts env cur ss f).val, ∃ g ∈ own, g.id = i ∧ g.name ∉ cur.seenFns
  | [], cur, f => by simp [checkStmts, Eval.fnIdsOf]
  | s :: ss, cur, f => by
      simp only [checkStmts]
      rw [fnIdsOf_cons]
      obtain ⟨ih1, ih2⟩ := checkStmts_fnIds_nodup env own rest henv hinj ss (checkStmt env cur s f).cur (checkStmt env cur s f).facts
      rcases checkStmt_fnIds_one env own rest henv cur s f with ⟨h1, h2⟩ | ⟨g, hg, hgn, h1, h2⟩
      · rw [h1, List.nil_append]
        rw [h2] at ih2
        exact ⟨ih1, ih2⟩
      · rw [h1]
        rw [h2] at ih2
        refine ⟨?_, ?_⟩
        · simp only [List.singleton_append, List.nodup_cons]
          refine ⟨?_, ih1⟩
          intro hmem
          obtain ⟨g', hg', hid, hn'⟩ := ih2 g.id hmem
          have : g' = g := eq_of_nodup_map hinj g' hg' g hg hid
          subst this
          exact hn' List.mem_cons_self
        · intro i hi
          simp only [List.singleton_append, List.mem_cons] at hi
          rcases hi with rfl | hi
          · exact ⟨g, hg, rfl, hgn⟩
          · obtain ⟨g', hg', hid, hn'⟩ := ih2 i hi
            exact ⟨g', hg', hid, fun h => hn' (List.mem_cons_of_mem _ h)⟩

/-- `predeclare` hands out the next function ids, in order. -/
theorem predeclare_ids (env : Env) : ∀ (ss : List Stmt) (sigs : List FnSig) (f : Facts),
    ∃ k, (predeclare env ss sigs f).sigs.map (·.id) = sigs.map (·.id) ++ List.range' f.functions.length k
  | [], sigs, f => ⟨0, by simp [predeclare]⟩
  | .fnDef name nsp ps body _ _ _ :: rest, sigs, f => by
      simp only [predeclare]
      split
      · exact predeclare_ids env rest sigs f
      · obtain ⟨k, hk⟩ := predeclare_ids env rest (sigs ++ [⟨name, f.functions.length, ps.length, nsp, .dynamic⟩])
          (pushFunction f name ps.length env.owner env.scope)
        refine ⟨1 + k, ?_⟩
        simp only at hk ⊢
        rw [hk, ← List.range'_append_1]
        simp [pushFunction]
  | .assign .. :: rest, sigs, f => by simp only [predeclare]; exact predeclare_ids env rest sigs f
  | .assignExisting .. :: rest, sigs, f => by simp only [predeclare]; exact predeclare_ids env rest sigs f
  | .assignIndex .. :: rest, sigs, f => by simp only [predeclare]; exact predeclare_ids env rest sigs f
  | .ifS .. :: rest, sigs, f => by simp only [predeclare]; exact predeclare_ids env rest sigs f
  | .loop .. :: rest, sigs, f => by simp only [predeclare]; exact predeclare_ids env rest sigs f
  | .block .. :: rest, sigs, f => by simp only [predeclare]; exact predeclare_ids env rest sigs f
  | .ret .. :: rest, sigs, f => by simp only [predeclare]; exact predeclare_ids env rest sigs f
  | .brk .. :: rest, sigs, f => by simp only [predeclare]; exact predeclare_ids env rest sigs f
  | .cont .. :: rest, sigs, f => by simp only [predeclare]; exact predeclare_ids env rest sigs f
  | .expr .. :: rest, sigs, f => by simp only [predeclare]; exact predeclare_ids env rest sigs f

theorem keys3_ids {l l' : List FnSig} (h : l'.map sigKey3 = l.map sigKey3) : l'.map (·.id) = l.map (·.id) := by
  have := congrArg (List.map (fun p : Bytes × Nat × Nat => p.2.1)) h
  simpa [List.map_map, Function.comp_def, sigKey3] using this

/-- The own function scope of a block has pairwise different ids. -/
theorem block_sigs_nodup (env1 : Env) (makes : List Bytes) (ss : List Stmt) (f2 : Facts) (n : Nat) :
    ((retIter env1 makes (predeclare env1 ss [] f2).bodies n (predeclare env1 ss [] f2).sigs).map (·.id)).Nodup := by
  rw [keys3_ids (retIter_keys3 env1 makes _ n _)]
  obtain ⟨k, hk⟩ := predeclare_ids env1 ss [] f2
  rw [hk]
  simp only [List.map_nil, List.nil_append]
  exact List.nodup_range'

/-! ### The walk -/

theorem sImm_push (f : Facts) (o s : Nat) : (sImm (pushStmt f o s))[f.stmtEffects.length]? = some (o, s) := by
  simp [sImm, pushStmt]

theorem stmtScopeOf_of_sImm {F : Facts} {i o sc : Nat} (h : (sImm F)[i]? = some (o, sc)) : stmtScopeOf F i = some sc := by
  simp only [sImm, List.getElem?_map, Option.map_eq_some_iff] at h
  obtain ⟨e, he, heq⟩ := h
  simp only [stmtScopeOf, he, Option.map_some]
  cases heq; rfl

section walk
variable (numOk : Bytes → Bool)

/-- The scope context of a statement: the current scope exists and belongs to the current owner; the
facts are consistent so far; the entries of the block's own variable scope are declared by it. -/
structure SCx (env : Env) (cur : Cur) (f : Facts) : Prop where
  scope : ScOwn f env.scope env.owner
  dslt : DSLt f
  so : SOInv f
  cur : ∀ e ∈ cur.vars, declScopeOf f e.id = some env.scope

/-- What checking the statements `val` (output) from `f` to `f'` establishes. -/
structure SRes (env : Env) (f : Facts) (val : List Stmt) (cur' : Cur) (f' : Facts) : Prop where
  cx : SCx env cur' f'
  new : NewS f' f.locals.length f'.locals.length env.scope (Eval.declIds val) f.scopes.length f'.scopes.length
  decl : ∀ l ∈ Eval.declIds val, declScopeOf f' l = some env.scope
  tag : ∀ s ∈ val, ∃ i, s.sid = some i ∧ (sImm f')[i]? = some (env.owner, env.scope)
  orc : ∀ F, Pre f' F → After F f'.locals.length f.scopes.length f'.scopes.length →
    orcStmts (orcOf numOk F) val = true

/-- … and a piece below a statement (a block, an optional block, parameters and body of a definition):
`P` is the oracle condition of the piece. -/
structure PRes (f : Facts) (P : Orc → Bool) (f' : Facts) : Prop where
  dslt : DSLt f'
  so : SOInv f'
  new : NewS f' f.locals.length f'.locals.length 0 [] f.scopes.length f'.scopes.length
  orc : ∀ F, Pre f' F → After F f'.locals.length f.scopes.length f'.scopes.length → P (orcOf numOk F) = true

abbrev BRes (f : Facts) (val : Block) (f' : Facts) : Prop := PRes numOk f (fun o => orcBlock o val) f'
abbrev ORes (f : Facts) (val : Option Block) (f' : Facts) : Prop := PRes numOk f (fun o => orcOptBlock o val) f'

theorem PRes.nil {f : Facts} (hd : DSLt f) (hso : SOInv f) : PRes numOk f (fun _ => true) f :=
  ⟨hd, hso, NewS.empty _ _ _ _ _ _, fun _ _ _ => rfl⟩

/-- Two pieces in sequence. -/
theorem PRes.seq {f f1 f' : Facts} {P Q : Orc → Bool} (h1 : PRes numOk f P f1) (h2 : PRes numOk f1 Q f')
    (hp1 : Pre f f1) (hp2 : Pre f1 f') (hpos : 0 < f.scopes.length) : PRes numOk f (fun o => P o && Q o) f' where
  dslt := h2.dslt
  so := h2.so
  new := by
    intro l hlo hhi
    rcases Nat.lt_or_ge l f1.locals.length with hlt | hge
    · rcases h1.new l hlo hlt with ⟨ha, _⟩ | ⟨sc, ha, hb, hc⟩
      · cases ha
      · exact Or.inr ⟨sc, declScopeOf_mono hp2 ha, hb, Nat.lt_of_lt_of_le hc hp2.nsc⟩
    · rcases h2.new l hge hhi with ⟨ha, _⟩ | ⟨sc, ha, hb, hc⟩
      · cases ha
      · exact Or.inr ⟨sc, ha, Nat.le_trans hp1.nsc hb, hc⟩
  orc := by
    intro F hpF hA
    simp only [Bool.and_eq_true]
    exact ⟨h1.orc F (hp2.trans hpF) (After.of_new hpF rfl h2.new hpos hA hp2.nsc),
      h2.orc F hpF (hA.mono (Nat.le_refl _) hp1.nsc (Nat.le_refl _))⟩

/-- A statement with a piece below it. -/
theorem SRes.ofPiece {env : Env} {cur cur' : Cur} {f f2 f' : Facts} {val : Stmt} {P : Orc → Bool} (hcx : SCx env cur f)
    (hv : cur'.vars = cur.vars) (hpre : Pre (pushStmt f env.owner env.scope) f2) (hl : f2.locals = f.locals) (hs : f2.scopes = f.scopes)
    (hp : PRes numOk f2 P f') (hp2 : Pre f2 f') (hd : Eval.declIds [val] = [])
    (hsid : val.sid = some f.stmtEffects.length) (horc : ∀ o, orcStmt o val = P o) :
    SRes numOk env f [val] cur' f' where
  cx := by
    have hpf : Pre f f' := ((primS_pre (.pushStmt f env.owner env.scope)).trans hpre).trans hp2
    exact ⟨hcx.scope.mono hpf, hp.dslt, hp.so, fun e he => declScopeOf_mono hpf (hcx.cur e (hv ▸ he))⟩
  new := by
    intro l hlo hhi
    rw [← hl] at hlo
    rcases hp.new l hlo hhi with ⟨ha, _⟩ | ⟨sc, ha, hb, hc⟩
    · cases ha
    · exact Or.inr ⟨sc, ha, by rw [← hs]; exact hb, hc⟩
  decl := by rw [hd]; intro l hl'; cases hl'
  tag := by
    intro s hs'
    simp only [List.mem_singleton] at hs'
    subst hs'
    exact ⟨_, hsid, (hpre.trans hp2).stmt (sImm_push f env.owner env.scope)⟩
  orc := by
    intro F hpF hA
    simp only [orcStmts, horc, Bool.and_true]
    exact hp.orc F hpF (by rw [hs]; exact hA)

/-- A statement that allocates no local and no scope and has no block below it. -/
theorem SRes.simple {env : Env} {cur : Cur} {f f' : Facts} {val : Stmt} (hcx : SCx env cur f)
    (hpre : Pre (pushStmt f env.owner env.scope) f') (hl : f'.locals = f.locals) (hs : f'.scopes = f.scopes)
    (hd : Eval.declIds [val] = []) (hsid : val.sid = some f.stmtEffects.length)
    (horc : ∀ o, orcStmt o val = true) : SRes numOk env f [val] cur f' where
  cx := ⟨hcx.scope.congr hs, hcx.dslt.congr hl hs, hcx.so.congr hl hs,
    fun e he => by rw [declScopeOf_congr hl]; exact hcx.cur e he⟩
  new := by rw [hl]; exact NewS.empty _ _ _ _ _ _
  decl := by rw [hd]; intro l hl'; cases hl'
  tag := by
    intro s hs'
    simp only [List.mem_singleton] at hs'
    subst hs'
    exact ⟨_, hsid, hpre.stmt (sImm_push f env.owner env.scope)⟩
  orc := by
    intro F _ _
    simp only [orcStmts, horc, Bool.and_self]

theorem SRes.nil {env : Env} {cur : Cur} {f : Facts} (hcx : SCx env cur f) : SRes numOk env f [] cur f where
  cx := hcx
  new := NewS.empty _ _ _ _ _ _
  decl := by intro l hl; cases hl
  tag := by intro s hs; cases hs
  orc := by intro F _ _; rfl

theorem SRes.cons {env : Env} {f f1 f' : Facts} {v : Stmt} {vs : List Stmt} {cur1 cur' : Cur}
    (hsc : env.scope < f.scopes.length) (h1 : SRes numOk env f [v] cur1 f1) (h2 : SRes numOk env f1 vs cur' f')
    (hp1 : Pre f f1) (hp2 : Pre f1 f') : SRes numOk env f (v :: vs) cur' f' where
  cx := h2.cx
  new := by
    intro l hlo hhi
    rw [declIds_cons]
    rcases Nat.lt_or_ge l f1.locals.length with hlt | hge
    · rcases h1.new l hlo hlt with ⟨ha, hb⟩ | ⟨sc, ha, hb, hc⟩
      · exact Or.inl ⟨List.mem_append_left _ ha, declScopeOf_mono hp2 hb⟩
      · exact Or.inr ⟨sc, declScopeOf_mono hp2 ha, hb, Nat.lt_of_lt_of_le hc hp2.nsc⟩
    · rcases h2.new l hge hhi with ⟨ha, hb⟩ | ⟨sc, ha, hb, hc⟩
      · exact Or.inl ⟨List.mem_append_right _ ha, hb⟩
      · exact Or.inr ⟨sc, ha, Nat.le_trans hp1.nsc hb, hc⟩
  decl := by
    intro l hl
    rw [declIds_cons] at hl
    rcases List.mem_append.1 hl with hl | hl
    · exact declScopeOf_mono hp2 (h1.decl l hl)
    · exact h2.decl l hl
  tag := by
    intro s hs
    rcases List.mem_cons.1 hs with rfl | hs
    · obtain ⟨i, hi, ht⟩ := h1.tag s List.mem_cons_self
      exact ⟨i, hi, hp2.stmt ht⟩
    · exact h2.tag s hs
  orc := by
    intro F hpF hA
    simp only [orcStmts, Bool.and_eq_true]
    refine ⟨?_, h2.orc F hpF (hA.mono (Nat.le_refl _) hp1.nsc (Nat.le_refl _))⟩
    have := h1.orc F (hp2.trans hpF) (After.of_new hpF rfl h2.new hsc hA hp2.nsc)
    simpa [orcStmts] using this

/-- The oracle `blk` of a block whose statements were checked in scope `sc`. -/
theorem blk_ok {env : Env} {f0 f f' F : Facts} {out : List Stmt} {cur' : Cur} (hres : SRes numOk env f out cur' f')
    (hsc : env.scope = f0.scopes.length) (hf : f.scopes.length = f0.scopes.length + 1) (hfl : f.locals = f0.locals)
    (hd0 : DSLt f0) (hpF : Pre f' F) (hA : After F f'.locals.length f0.scopes.length f'.scopes.length)
    (hpf : Pre f f') (hnd : (Eval.fnIdsOf out).Nodup) : (orcOf numOk F).blk out = true := by
  simp only [orcOf, Bool.and_eq_true, decide_eq_true_eq]
  refine ⟨?_, hnd⟩
  -- the tag of a non-empty block
  have htag : ∀ s rest, out = s :: rest → AEval.blockTag (stmtScopeOf F) out = some env.scope := by
    intro s rest he
    obtain ⟨i, hi, ht⟩ := hres.tag s (by rw [he]; exact List.mem_cons_self)
    rw [he]
    simp only [AEval.blockTag, hi, Option.bind_some]
    exact stmtScopeOf_of_sImm (hpF.stmt ht)
  apply tagOkB_of
  · intro l hl
    cases hout : out with
    | nil => rw [hout] at hl; simp [Eval.declIds] at hl
    | cons s rest =>
      rw [← hout]
      exact ⟨env.scope, htag s rest hout, declScopeOf_mono hpF (hres.decl l hl)⟩
  · intro l tg hl htg hdl
    cases hout : out with
    | nil => rw [hout] at htg; simp [AEval.blockTag] at htg
    | cons s rest =>
      rw [htag s rest hout] at htg
      cases htg
      rcases Nat.lt_or_ge l f.locals.length with hlt | hge
      · -- an old local is declared by an older scope
        exfalso
        have h1 : declScopeOf F l = declScopeOf f0 l := by
          rw [declScopeOf_old (hpf.trans hpF) hlt]; exact declScopeOf_congr hfl l
        rw [h1] at hdl
        have := hd0 l _ hdl
        omega
      · rcases Nat.lt_or_ge l f'.locals.length with hlt' | hge'
        · rw [declScopeOf_old hpF hlt'] at hdl
          rcases hres.new l hge hlt' with ⟨ha, _⟩ | ⟨sc, ha, hb, _⟩
          · rw [← hout]; exact ha
          · rw [ha] at hdl; cases hdl; omega
        · exfalso
          exact hA l _ hge' hdl ⟨by omega, by have := hpf.nsc; omega⟩

theorem locals_blkF2 (env : Env) (parent : Option Nat) (f : Facts) : (blkF2 env parent f).locals = f.locals := by
  unfold blkF2; split <;> rfl
theorem scopes_blkF2 (env : Env) (parent : Option Nat) (f : Facts) :
    (blkF2 env parent f).scopes = f.scopes ++ [⟨parent, env.owner⟩] := by
  unfold blkF2; split <;> rfl
theorem pre_blkF2 (env : Env) (parent : Option Nat) (f : Facts) : Pre f (blkF2 env parent f) := by
  unfold blkF2; split
  · exact (primS_pre (.pushScope f parent env.owner)).trans (primS_pre (.setRootScope _ _))
  · exact primS_pre (.pushScope f parent env.owner)

theorem orcStmts_single (o : Orc) (s : Stmt) : orcStmts o [s] = orcStmt o s := by simp [orcStmts]

/-- The parameters and the body of a definition, as one piece below the definition statement. -/
theorem fnDef_piece {env : Env} {cur : Cur} {f : Facts} {g : FnSig} {ps : List Param} {bval : Block} {f' : Facts}
    (hcx : SCx env cur f)
    (hb : BRes numOk (fnPr env f g ps).2.2 bval f') (hpb : Pre (fnPr env f g ps).2.2 f') :
    PRes numOk (fnF1 env f) (fun o => o.par (fnPr env f g ps).1 && orcBlock o bval) f' := by
  have hl1 : (fnF1 env f).locals = f.locals := rfl
  have hs1 : (fnF1 env f).scopes = f.scopes := rfl
  have hl3 : (fnF3 env f g).locals = f.locals := rfl
  have hs3 : (fnF3 env f g).scopes = f.scopes ++ [⟨some env.scope, g.id⟩] := rfl
  have hsc3 : ScOwn (fnF3 env f g) (fnPscope f) g.id := ⟨⟨some env.scope, g.id⟩, by rw [hs3]; simp [fnPscope], rfl⟩
  have hd3 : DSLt (fnF3 env f g) := by
    intro l sc hd
    rw [declScopeOf_congr hl3] at hd
    have := hcx.dslt l sc hd
    rw [hs3]; simp only [List.length_append, List.length_singleton]; omega
  have hso3 : SOInv (fnF3 env f g) := by
    intro l li hli
    rw [hl3] at hli
    obtain ⟨si, h1, h2⟩ := hcx.so l li hli
    refine ⟨si, ?_, h2⟩
    rw [hs3, List.getElem?_append_left (List.getElem?_eq_some_iff.1 h1).1]
    exact h1
  obtain ⟨_, _, k3, k4, k5, k6, k7, k8⟩ := declareParams_scope env.spanLen g.id (fnPscope f) ps [] (fnF3 env f g) hsc3 hd3 hso3
  have k3' : (fnPr env f g ps).2.2.scopes.length = f.scopes.length + 1 := by
    show (declareParams env.spanLen g.id (fnPscope f) ps [] (fnF3 env f g)).2.2.scopes.length = _
    rw [k3, hs3]; simp
  have k4' : (fnPr env f g ps).2.2.locals.length = f.locals.length + ps.length := by
    show (declareParams env.spanLen g.id (fnPscope f) ps [] (fnF3 env f g)).2.2.locals.length = _
    rw [k4, hl3]
  have k5' : paramBinds (fnPr env f g ps).1 = List.range' f.locals.length ps.length := by
    show paramBinds (declareParams env.spanLen g.id (fnPscope f) ps [] (fnF3 env f g)).1 = _
    rw [k5, hl3]
  have k6' : ∀ l, f.locals.length ≤ l → l < f.locals.length + ps.length →
      declScopeOf (fnPr env f g ps).2.2 l = some f.scopes.length := by
    intro l h1 h2
    exact k6 l (by rw [hl3]; exact h1) (by rw [hl3]; exact h2)
  have k8' : ∀ p0 rest, (fnPr env f g ps).1 = p0 :: rest → p0.bind = some f.locals.length := by
    intro p0 rest h
    have := k8 p0 rest h
    rw [hl3] at this; exact this
  have hnsc' : (fnPr env f g ps).2.2.scopes.length ≤ f'.scopes.length := hpb.nsc
  refine ⟨hb.dslt, hb.so, ?_, ?_⟩
  · intro l hlo hhi
    rw [hl1] at hlo
    rw [hs1]
    rcases Nat.lt_or_ge l (fnPr env f g ps).2.2.locals.length with hlt | hge
    · exact Or.inr ⟨f.scopes.length, declScopeOf_mono hpb (k6' l hlo (by rw [← k4']; exact hlt)), Nat.le_refl _, by omega⟩
    · rcases hb.new l hge hhi with ⟨ha, _⟩ | ⟨sc, ha, hb', hc⟩
      · cases ha
      · exact Or.inr ⟨sc, ha, by omega, hc⟩
  · intro F hpF hA
    rw [hs1] at hA
    simp only [Bool.and_eq_true]
    refine ⟨?_, hb.orc F hpF (hA.mono (Nat.le_refl _) (by omega) (Nat.le_refl _))⟩
    -- the oracle `par`
    simp only [orcOf, Bool.and_eq_true, decide_eq_true_eq]
    have hbinds : (fnPr env f g ps).1.filterMap (·.bind) = List.range' f.locals.length ps.length := k5'
    refine ⟨⟨k7, by rw [hbinds]; exact List.nodup_range'⟩, ?_⟩
    rw [hbinds]
    have htag : ∀ p0 rest, (fnPr env f g ps).1 = p0 :: rest →
        AEval.paramTag (declScopeOf F) (fnPr env f g ps).1 = some f.scopes.length ∧ 0 < ps.length := by
      intro p0 rest he
      have hb0 := k8' p0 rest he
      have hpos : 0 < ps.length := by
        rcases Nat.eq_zero_or_pos ps.length with h0 | h0
        · rw [he, h0] at hbinds
          simp [List.filterMap_cons, hb0] at hbinds
        · exact h0
      refine ⟨?_, hpos⟩
      rw [he]
      simp only [AEval.paramTag, hb0, Option.bind_some]
      exact declScopeOf_mono (hpb.trans hpF) (k6' _ (Nat.le_refl _) (by omega))
    apply tagOkB_of
    · intro l hl
      have hr := List.mem_range'_1.1 hl
      cases hps : (fnPr env f g ps).1 with
      | nil => exfalso; rw [hps] at hbinds; simp at hbinds; subst hbinds; simp at hl
      | cons p0 rest =>
        rw [← hps]
        exact ⟨f.scopes.length, (htag p0 rest hps).1, declScopeOf_mono (hpb.trans hpF) (k6' l hr.1 hr.2)⟩
    · intro l tg hl htg hdl
      cases hps : (fnPr env f g ps).1 with
      | nil => rw [hps] at htg; simp [AEval.paramTag] at htg
      | cons p0 rest =>
        rw [(htag p0 rest hps).1] at htg
        cases htg
        apply List.mem_range'_1.2
        rcases Nat.lt_or_ge l f.locals.length with hlt | hge
        · exfalso
          have hpf : Pre f F := (((primS_pre (.pushStmt f env.owner env.scope)).trans
            (primS_pre (.e (.joinClass _ f.stmtEffects.length .impure)))).trans
              ((Steps.step (.setDefStmt _ _ _) (.step (.pushScope _ _ _) (declareParams_steps _ _ _ _ _ _))).pre)).trans
                (hpb.trans hpF)
          rw [declScopeOf_old hpf hlt] at hdl
          have := hcx.dslt l _ hdl
          omega
        · refine ⟨hge, ?_⟩
          rcases Nat.lt_or_ge l (fnPr env f g ps).2.2.locals.length with hlt | hge2
          · omega
          · exfalso
            rcases Nat.lt_or_ge l f'.locals.length with hlt' | hge'
            · rw [declScopeOf_old hpF hlt'] at hdl
              rcases hb.new l hge2 hlt' with ⟨ha, _⟩ | ⟨sc, ha, hb', _⟩
              · cases ha
              · rw [ha] at hdl; cases hdl; omega
            · exact hA l _ hge' hdl ⟨Nat.le_refl _, by omega⟩

mutual
  theorem checkStmt_scope (env : Env) (cur : Cur) : ∀ (s : Stmt) (f : Facts), SCx env cur f →
      numStmt (checkStmt env cur s f).val = true →
      SRes numOk env f [(checkStmt env cur s f).val] (checkStmt env cur s f).cur (checkStmt env cur s f).facts
    | .assign x xs e a b sp, f, hcx, _ => by
        have hpre := (checkStmt_steps' env cur (.assign x xs e a b sp) f).pre
        have hpf : Pre f (checkStmt env cur (.assign x xs e a b sp) f).facts :=
          (primS_pre (.pushStmt f env.owner env.scope)).trans hpre
        cases hfv : findVar cur.vars x with
        | some ent =>
          simp only [checkStmt, hfv] at hpre hpf ⊢
          refine ⟨⟨hcx.scope.congr (by simp), hcx.dslt.congr (by simp) (by simp), hcx.so.congr (by simp) (by simp), ?_⟩,
            ?_, ?_, ?_, ?_⟩
          · intro e' he'
            obtain ⟨e0, h0, hid⟩ := updateTy_mem_id he'
            rw [← hid]
            exact declScopeOf_mono hpf (hcx.cur e0 h0)
          · simp only [locals_recStmtWrite, locals_joinClass, locals_checkExpr, locals_pushStmt]
            exact NewS.empty _ _ _ _ _ _
          · intro l hl
            simp only [Eval.declIds, List.mem_singleton] at hl
            subst hl
            exact declScopeOf_mono hpf (hcx.cur ent (findVar_mem hfv))
          · intro s hs
            simp only [List.mem_singleton] at hs
            subst hs
            exact ⟨_, rfl, hpre.stmt (sImm_push f env.owner env.scope)⟩
          · intro F _ _; rfl
        | none =>
          simp only [checkStmt, hfv] at hpre hpf ⊢
          have hsc2 : ScOwn (joinClass (checkExpr env cur.vars f.stmtEffects.length e (pushStmt f env.owner env.scope)).facts
              f.stmtEffects.length (classifyExpr env cur.vars
                (checkExpr env cur.vars f.stmtEffects.length e (pushStmt f env.owner env.scope)).facts e))
              env.scope env.owner := hcx.scope.congr (by simp)
          have hnew := declScopeOf_pushLocal_new
            (joinClass (checkExpr env cur.vars f.stmtEffects.length e (pushStmt f env.owner env.scope)).facts
              f.stmtEffects.length (classifyExpr env cur.vars
                (checkExpr env cur.vars f.stmtEffects.length e (pushStmt f env.owner env.scope)).facts e))
            env.spanLen x env.owner env.scope (some f.stmtEffects.length) .variable
          rw [← declScopeOf_congr (locals_recStmtWrite _ env.owner f.stmtEffects.length _)] at hnew
          have hlen : (joinClass (checkExpr env cur.vars f.stmtEffects.length e (pushStmt f env.owner env.scope)).facts
              f.stmtEffects.length (classifyExpr env cur.vars
                (checkExpr env cur.vars f.stmtEffects.length e (pushStmt f env.owner env.scope)).facts e)).locals.length =
              f.locals.length := by simp
          refine ⟨⟨hcx.scope.congr (by simp), ?_, ?_, ?_⟩, ?_, ?_, ?_, ?_⟩
          · exact ((hcx.dslt.congr (by simp) (by simp)).pushLocal hsc2 env.spanLen x (some f.stmtEffects.length) .variable).congr (by simp) (by simp)
          · exact ((hcx.so.congr (by simp) (by simp)).pushLocal hsc2 env.spanLen x (some f.stmtEffects.length) .variable).congr (by simp) (by simp)
          · intro e' he'
            rcases List.mem_cons.1 he' with rfl | he'
            · exact hnew
            · exact declScopeOf_mono hpf (hcx.cur e' he')
          · intro l hlo hhi
            simp only [locals_recStmtWrite, locals_pushLocal, locals_joinClass, locals_checkExpr, locals_pushStmt,
              List.length_append, List.length_singleton] at hhi
            have : l = f.locals.length := by omega
            subst this
            left
            rw [hlen] at hnew ⊢
            exact ⟨by simp [Eval.declIds], hnew⟩
          · intro l hl
            simp only [Eval.declIds, List.mem_singleton] at hl
            subst hl
            exact hnew
          · intro s hs
            simp only [List.mem_singleton] at hs
            subst hs
            exact ⟨_, rfl, hpre.stmt (sImm_push f env.owner env.scope)⟩
          · intro F _ _; rfl
    | .assignExisting x xs e a b sp, f, hcx, _ => by
        have hpre := (checkStmt_steps' env cur (.assignExisting x xs e a b sp) f).pre
        cases hl : lookupVar env cur.vars x with
        | some ent =>
          simp only [checkStmt, hl] at hpre ⊢
          exact SRes.simple numOk hcx hpre (by simp) (by simp) rfl rfl (fun _ => rfl)
        | none =>
          simp only [checkStmt, hl] at hpre ⊢
          exact SRes.simple numOk hcx hpre (by simp) (by simp) rfl rfl (fun _ => rfl)
    | .assignIndex t e b sp, f, hcx, _ => by
        have hpre := (checkStmt_steps' env cur (.assignIndex t e b sp) f).pre
        simp only [checkStmt] at hpre ⊢
        exact SRes.simple numOk hcx hpre (by split <;> simp) (by split <;> simp) rfl rfl (fun _ => rfl)
    | .ifS c t e b sp, f, hcx, hn => by
        simp only [checkStmt, numStmt, Bool.and_eq_true] at hn
        simp only [checkStmt]
        have hd2 : DSLt (joinClass (checkExpr env cur.vars f.stmtEffects.length c (pushStmt f env.owner env.scope)).facts
            f.stmtEffects.length (condClass env cur.vars
              (checkExpr env cur.vars f.stmtEffects.length c (pushStmt f env.owner env.scope)).facts c)) :=
          hcx.dslt.congr (by simp) (by simp)
        have hso2 : SOInv (joinClass (checkExpr env cur.vars f.stmtEffects.length c (pushStmt f env.owner env.scope)).facts
            f.stmtEffects.length (condClass env cur.vars
              (checkExpr env cur.vars f.stmtEffects.length c (pushStmt f env.owner env.scope)).facts c)) :=
          hcx.so.congr (by simp) (by simp)
        have ht := checkBlock_scope { env with vars := cur.vars :: env.vars } (some env.scope) t _ hd2 hso2 hn.1.2
        have he := checkOptBlock_scope { env with vars := cur.vars :: env.vars } (some env.scope) e _ ht.dslt ht.so hn.2
        have hpt := (checkBlock_steps { env with vars := cur.vars :: env.vars } (some env.scope) t
          (joinClass (checkExpr env cur.vars f.stmtEffects.length c (pushStmt f env.owner env.scope)).facts
            f.stmtEffects.length (condClass env cur.vars
              (checkExpr env cur.vars f.stmtEffects.length c (pushStmt f env.owner env.scope)).facts c))).pre
        have hpe := (checkOptBlock_steps { env with vars := cur.vars :: env.vars } (some env.scope) e
          (checkBlock { env with vars := cur.vars :: env.vars } (some env.scope) t
            (joinClass (checkExpr env cur.vars f.stmtEffects.length c (pushStmt f env.owner env.scope)).facts
              f.stmtEffects.length (condClass env cur.vars
                (checkExpr env cur.vars f.stmtEffects.length c (pushStmt f env.owner env.scope)).facts c))).facts).pre
        have hpos : 0 < (joinClass (checkExpr env cur.vars f.stmtEffects.length c (pushStmt f env.owner env.scope)).facts
            f.stmtEffects.length (condClass env cur.vars
              (checkExpr env cur.vars f.stmtEffects.length c (pushStmt f env.owner env.scope)).facts c)).scopes.length := by
          have := hcx.scope.lt
          simp only [scopes_joinClass, scopes_checkExpr, scopes_pushStmt]; omega
        refine SRes.ofPiece numOk hcx rfl ?_ (by simp) (by simp) (PRes.seq numOk ht he hpt hpe hpos) (hpt.trans hpe) rfl rfl
          (fun o => by simp [orcStmt])
        exact ((checkExpr_steps env cur.vars f.stmtEffects.length c _).toS.trans (joinClass_steps _ _ _)).pre
    | .loop c bl b sp, f, hcx, hn => by
        simp only [checkStmt, numStmt, Bool.and_eq_true] at hn
        simp only [checkStmt]
        have hd2 : DSLt (joinClass (checkExpr env cur.vars f.stmtEffects.length c (pushStmt f env.owner env.scope)).facts
            f.stmtEffects.length (condClass env cur.vars
              (checkExpr env cur.vars f.stmtEffects.length c (pushStmt f env.owner env.scope)).facts c)) :=
          hcx.dslt.congr (by simp) (by simp)
        have hso2 : SOInv (joinClass (checkExpr env cur.vars f.stmtEffects.length c (pushStmt f env.owner env.scope)).facts
            f.stmtEffects.length (condClass env cur.vars
              (checkExpr env cur.vars f.stmtEffects.length c (pushStmt f env.owner env.scope)).facts c)) :=
          hcx.so.congr (by simp) (by simp)
        have hb := checkBlock_scope { env with vars := cur.vars :: env.vars, inLoop := env.inLoop + 1 } (some env.scope) bl _
          hd2 hso2 hn.2
        have hpb := (checkBlock_steps { env with vars := cur.vars :: env.vars, inLoop := env.inLoop + 1 } (some env.scope) bl
          (joinClass (checkExpr env cur.vars f.stmtEffects.length c (pushStmt f env.owner env.scope)).facts
            f.stmtEffects.length (condClass env cur.vars
              (checkExpr env cur.vars f.stmtEffects.length c (pushStmt f env.owner env.scope)).facts c))).pre
        refine SRes.ofPiece numOk hcx rfl ?_ (by simp) (by simp) hb hpb rfl rfl (fun o => by simp [orcStmt])
        exact ((checkExpr_steps env cur.vars f.stmtEffects.length c _).toS.trans (joinClass_steps _ _ _)).pre
    | .block bl b sp, f, hcx, hn => by
        simp only [checkStmt, numStmt, Bool.and_eq_true] at hn
        simp only [checkStmt]
        have hb := checkBlock_scope { env with vars := cur.vars :: env.vars } (some env.scope) bl
          (pushStmt f env.owner env.scope) (hcx.dslt.congr rfl rfl) (hcx.so.congr rfl rfl) hn.2
        have hpb := (checkBlock_steps { env with vars := cur.vars :: env.vars } (some env.scope) bl
          (pushStmt f env.owner env.scope)).pre
        exact SRes.ofPiece numOk hcx rfl (Pre.refl _) rfl rfl hb hpb rfl rfl (fun o => by simp [orcStmt])
    | .fnDef name nsp ps body a b sp, f, hcx, hn => by
        rw [checkStmt_fnDef] at hn ⊢
        cases hsig : sigOf env cur name with
        | none => simp [hsig, numStmt] at hn
        | some g =>
          simp only [hsig, numStmt, Bool.and_eq_true] at hn
          simp only
          obtain ⟨hd3, hso3⟩ : DSLt (fnPr env f g ps).2.2 ∧ SOInv (fnPr env f g ps).2.2 := by
            have hl3 : (fnF3 env f g).locals = f.locals := rfl
            have hs3 : (fnF3 env f g).scopes = f.scopes ++ [⟨some env.scope, g.id⟩] := rfl
            have hsc3 : ScOwn (fnF3 env f g) (fnPscope f) g.id :=
              ⟨⟨some env.scope, g.id⟩, by rw [hs3]; simp [fnPscope], rfl⟩
            have hd3 : DSLt (fnF3 env f g) := by
              intro l sc hd
              rw [declScopeOf_congr hl3] at hd
              have := hcx.dslt l sc hd
              rw [hs3]; simp only [List.length_append, List.length_singleton]; omega
            have hso3 : SOInv (fnF3 env f g) := by
              intro l li hli
              rw [hl3] at hli
              obtain ⟨si, h1, h2⟩ := hcx.so l li hli
              refine ⟨si, ?_, h2⟩
              rw [hs3, List.getElem?_append_left (List.getElem?_eq_some_iff.1 h1).1]
              exact h1
            obtain ⟨k1, k2, _⟩ := declareParams_scope env.spanLen g.id (fnPscope f) ps [] (fnF3 env f g) hsc3 hd3 hso3
            exact ⟨k1, k2⟩
          have hb := checkBlock_scope (fnEnvB env cur f g ps) (some (fnPscope f)) body (fnPr env f g ps).2.2 hd3 hso3 hn.2
          have hpb := (checkBlock_steps (fnEnvB env cur f g ps) (some (fnPscope f)) body (fnPr env f g ps).2.2).pre
          have hp13 : Pre (fnF1 env f) (fnPr env f g ps).2.2 :=
            (Steps.step (.setDefStmt _ _ _) (.step (.pushScope _ _ _) (declareParams_steps _ _ _ _ _ _))).pre
          exact SRes.ofPiece numOk hcx rfl (primS_pre (.e (.joinClass _ f.stmtEffects.length .impure))) rfl rfl
            (fnDef_piece numOk hcx hb hpb) (hp13.trans hpb) rfl rfl (fun o => by simp [orcStmt])
    | .ret e b sp, f, hcx, _ => by
        have hpre := (checkStmt_steps' env cur (.ret e b sp) f).pre
        cases e with
        | some e =>
          simp only [checkStmt] at hpre ⊢
          exact SRes.simple numOk hcx hpre (by simp) (by simp) rfl rfl (fun _ => rfl)
        | none =>
          simp only [checkStmt] at hpre ⊢
          exact SRes.simple numOk hcx hpre (by simp) (by simp) rfl rfl (fun _ => rfl)
    | .brk b sp, f, hcx, _ => by
        simp only [checkStmt]
        exact SRes.simple numOk hcx (Pre.refl _) rfl rfl rfl rfl (fun _ => rfl)
    | .cont b sp, f, hcx, _ => by
        simp only [checkStmt]
        exact SRes.simple numOk hcx (Pre.refl _) rfl rfl rfl rfl (fun _ => rfl)
    | .expr e b sp, f, hcx, _ => by
        have hpre := (checkStmt_steps' env cur (.expr e b sp) f).pre
        simp only [checkStmt] at hpre ⊢
        exact SRes.simple numOk hcx hpre (by simp) (by simp) rfl rfl (fun _ => rfl)
  theorem checkStmts_scope (env : Env) : ∀ (ss : List Stmt) (cur : Cur) (f : Facts), SCx env cur f →
      numStmts (checkStmts env cur ss f).val = true →
      SRes numOk env f (checkStmts env cur ss f).val (checkStmts env cur ss f).cur (checkStmts env cur ss f).facts
    | [], cur, f, hcx, _ => by simp only [checkStmts]; exact SRes.nil numOk hcx
    | s :: ss, cur, f, hcx, hn => by
        simp only [checkStmts, numStmts, Bool.and_eq_true] at hn
        simp only [checkStmts]
        have h1 := checkStmt_scope env cur s f hcx hn.1
        have h2 := checkStmts_scope env ss _ _ h1.cx hn.2
        exact SRes.cons numOk hcx.scope.lt h1 h2 (checkStmt_steps env cur s f).pre (checkStmts_steps env ss _ _).pre
  theorem checkBlock_scope (env : Env) (parent : Option Nat) : ∀ (b : Block) (f : Facts), DSLt f → SOInv f →
      numBlock (checkBlock env parent b f).val = true →
      BRes numOk f (checkBlock env parent b f).val (checkBlock env parent b f).facts
    | .mk ss sp, f, hd, hso, hn => by
        rw [checkBlock_mk] at hn ⊢
        simp only [numBlock] at hn
        simp only
        have hlp : (blkPre env parent ss f).facts.locals = f.locals := by
          simp only [blkPre, locals_predeclare, locals_blkF2]
        have hsp : (blkPre env parent ss f).facts.scopes = f.scopes ++ [⟨parent, env.owner⟩] := by
          simp only [blkPre, scopes_predeclare, scopes_blkF2]
        have hcx : SCx (blkEnv2 env parent ss f) {} (blkPre env parent ss f).facts := by
          refine ⟨⟨⟨parent, env.owner⟩, ?_, rfl⟩, ?_, ?_, fun e he => by cases he⟩
          · rw [hsp]; simp [blkEnv2, blkEnv1]
          · intro l sc hdl
            rw [declScopeOf_congr hlp] at hdl
            have := hd l sc hdl
            rw [hsp]; simp only [List.length_append, List.length_singleton]; omega
          · intro l li hli
            rw [hlp] at hli
            obtain ⟨si, h1, h2⟩ := hso l li hli
            refine ⟨si, ?_, h2⟩
            rw [hsp, List.getElem?_append_left (List.getElem?_eq_some_iff.1 h1).1]
            exact h1
        have hres := checkStmts_scope (blkEnv2 env parent ss f) ss {} (blkPre env parent ss f).facts hcx hn
        have hpf := (checkStmts_steps (blkEnv2 env parent ss f) ss {} (blkPre env parent ss f).facts).pre
        have hnsc : (blkPre env parent ss f).facts.scopes.length = f.scopes.length + 1 := by rw [hsp]; simp
        have hnsc' := hpf.nsc
        refine ⟨hres.cx.dslt, hres.cx.so, ?_, ?_⟩
        · intro l hlo hhi
          rw [← hlp] at hlo
          rcases hres.new l hlo hhi with ⟨_, hb⟩ | ⟨sc, ha, hb, hc⟩
          · exact Or.inr ⟨f.scopes.length, hb, Nat.le_refl _, by omega⟩
          · exact Or.inr ⟨sc, ha, by omega, hc⟩
        · intro F hpF hA
          simp only [orcBlock, Bool.and_eq_true]
          refine ⟨?_, hres.orc F hpF (hA.mono (Nat.le_refl _) (by omega) (Nat.le_refl _))⟩
          exact blk_ok numOk hres rfl hnsc hlp hd hpF hA hpf
            (checkStmts_fnIds_nodup (blkEnv2 env parent ss f) (blkSigs env parent ss f) env.fns rfl
              (block_sigs_nodup _ _ _ _ _) ss {} _).1
  theorem checkOptBlock_scope (env : Env) (parent : Option Nat) : ∀ (b : Option Block) (f : Facts), DSLt f → SOInv f →
      numOptBlock (checkOptBlock env parent b f).val = true →
      ORes numOk f (checkOptBlock env parent b f).val (checkOptBlock env parent b f).facts
    | none, f, hd, hso, _ => by simp only [checkOptBlock]; exact PRes.nil numOk hd hso
    | some b, f, hd, hso, hn => by
        simp only [checkOptBlock, numOptBlock] at hn
        simp only [checkOptBlock]
        exact checkBlock_scope env parent b f hd hso hn
end

end walk

end NaijaVerif.ResolveStruct
