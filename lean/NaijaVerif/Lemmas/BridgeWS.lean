import NaijaVerif.Lemmas.BridgeWalk
/-
Bridge resolver → evaluator, part 4: an output of the checker that carries no diagnostic is WELL
SCOPED (`Eval.wsBlock`, the hypothesis of C04's dynamic theorem).

One walk over `checkExpr … checkOptBlock`.  The lexical context `Γ` of the evaluator side
(`Eval.Binder`s: the `LocalId`s / `FunctionId`s each enclosing block or parameter list of the OUTPUT
declares — including those of statements that come later in the text) is related to the checker's
environment by
* `VarsIn`: every entry of every variable scope is declared by `Γ`; `FnsIn`: every signature of
  every function scope is declared by `Γ`  (⇒ `boundIn`, `fnBoundIn` of an annotation that a
  successful lookup wrote);
* freshness: an id declared by `Γ` was allocated before the piece being checked
  (`< locals.length` at its start), or is allocated after it (`≥ locals.length` at its end), or — for
  the innermost binder — is the annotation of one of the piece's own `make` statements
  (⇒ `freshIn` for every nested block and parameter list, ⇒ `headDecl`).
-/
namespace NaijaVerif.Resolve
open NaijaVerif

/-- Every entry of the variable scopes is declared by the context. -/
def VarsIn (ss : List Scope) (Γ : List Eval.Binder) : Prop :=
  ∀ s ∈ ss, ∀ e ∈ s, Eval.declared Γ e.id = true

/-- Every signature of the function scopes is declared by the context. -/
def FnsIn (fs : List (List FnSig)) (Γ : List Eval.Binder) : Prop :=
  ∀ s ∈ fs, ∀ g ∈ s, Eval.fnDeclared Γ g.id = true

theorem declared_cons' (β : Eval.Binder) (Γ : List Eval.Binder) (l : Nat) :
    Eval.declared (β :: Γ) l = (β.decls.contains l || Eval.declared Γ l) := by
  simp [Eval.declared]

theorem fnDeclared_cons' (β : Eval.Binder) (Γ : List Eval.Binder) (i : Nat) :
    Eval.fnDeclared (β :: Γ) i = (β.fnIds.contains i || Eval.fnDeclared Γ i) := by
  simp [Eval.fnDeclared]

theorem VarsIn.weaken {ss : List Scope} {Γ : List Eval.Binder} (h : VarsIn ss Γ) (β : Eval.Binder) :
    VarsIn ss (β :: Γ) := by
  intro s hs e he
  rw [declared_cons', h s hs e he, Bool.or_true]

theorem FnsIn.weaken {fs : List (List FnSig)} {Γ : List Eval.Binder} (h : FnsIn fs Γ) (β : Eval.Binder) :
    FnsIn fs (β :: Γ) := by
  intro s hs g hg
  rw [fnDeclared_cons', h s hs g hg, Bool.or_true]

theorem VarsIn.cons {s : Scope} {ss : List Scope} {Γ : List Eval.Binder}
    (h1 : ∀ e ∈ s, Eval.declared Γ e.id = true) (h2 : VarsIn ss Γ) : VarsIn (s :: ss) Γ := by
  intro s' hs'
  rcases List.mem_cons.1 hs' with rfl | hs'
  · exact h1
  · exact h2 s' hs'

theorem VarsIn.lookup {env : Env} {cur : Scope} {Γ : List Eval.Binder} (h : VarsIn (cur :: env.vars) Γ)
    {x : Bytes} {e : VarEntry} (hl : lookupVar env cur x = some e) : Eval.boundIn Γ (some e.id) = true := by
  obtain ⟨s, hs, he⟩ := lookupScopes_mem hl
  exact h s hs e he

theorem FnsIn.lookup {env : Env} {Γ : List Eval.Binder} (h : FnsIn env.fns Γ)
    {x : Bytes} {g : FnSig} (hl : lookupFn env x = some g) : Eval.fnBoundIn Γ (some g.id) = true := by
  obtain ⟨s, hs, hg⟩ := lookupFns_mem hl
  exact h s hs g hg

/-! ### Expressions -/

theorem checkSegs_ws (env : Env) (cur : Scope) (sid : Nat) (span : Span) (Γ : List Eval.Binder)
    (hv : VarsIn (cur :: env.vars) Γ) :
    ∀ (segs : List Seg) (f : Facts), (checkSegs env cur sid span segs f).ds = [] →
      (checkSegs env cur sid span segs f).val.all (Eval.wsSeg Γ) = true
  | [], f, _ => by simp [checkSegs]
  | .lit _ :: rest, f, h => by
      simp only [checkSegs] at h ⊢
      simp only [List.all_cons, Eval.wsSeg, Bool.true_and]
      exact checkSegs_ws env cur sid span Γ hv rest f h
  | .var n _ :: rest, f, h => by
      cases hl : lookupVar env cur n with
      | some e =>
        simp only [checkSegs, hl] at h ⊢
        simp only [List.all_cons, Eval.wsSeg, Bool.and_eq_true]
        exact ⟨hv.lookup hl, checkSegs_ws env cur sid span Γ hv rest _ h⟩
      | none => simp [checkSegs, hl] at h

mutual
  theorem checkExpr_ws (env : Env) (cur : Scope) (sid : Nat) (Γ : List Eval.Binder)
      (hv : VarsIn (cur :: env.vars) Γ) (hf : FnsIn env.fns Γ) :
      ∀ (e : Expr) (f : Facts), (checkExpr env cur sid e f).ds = [] →
        Eval.wsExpr Γ (checkExpr env cur sid e f).val = true
    | .num _ _, f, _ => by simp [checkExpr, Eval.wsExpr]
    | .bool _ _, f, _ => by simp [checkExpr, Eval.wsExpr]
    | .null _, f, _ => by simp [checkExpr, Eval.wsExpr]
    | .str (.static _) _, f, _ => by simp [checkExpr, Eval.wsExpr]
    | .str (.interp segs) s, f, h => by
        simp only [checkExpr] at h ⊢
        simp only [Eval.wsExpr]
        exact checkSegs_ws env cur sid s Γ hv segs f h
    | .array es _, f, h => by
        simp only [checkExpr] at h ⊢
        simp only [Eval.wsExpr]
        exact checkExprs_ws env cur sid Γ hv hf es f h
    | .index a i _ _, f, h => by
        simp only [checkExpr, List.append_eq_nil_iff] at h ⊢
        simp only [Eval.wsExpr, Bool.and_eq_true]
        exact ⟨checkExpr_ws env cur sid Γ hv hf a f h.1.1.1, checkExpr_ws env cur sid Γ hv hf i _ h.1.1.2⟩
    | .var v _ s, f, h => by
        cases hl : lookupVar env cur v with
        | some e =>
          simp only [checkExpr, hl]
          simp only [Eval.wsExpr]
          exact hv.lookup hl
        | none => simp [checkExpr, hl] at h
    | .binary _ l r _, f, h => by
        simp only [checkExpr, List.append_eq_nil_iff] at h ⊢
        simp only [Eval.wsExpr, Bool.and_eq_true]
        exact ⟨checkExpr_ws env cur sid Γ hv hf l f h.1.1, checkExpr_ws env cur sid Γ hv hf r _ h.1.2⟩
    | .unary _ e _, f, h => by
        simp only [checkExpr, List.append_eq_nil_iff] at h ⊢
        simp only [Eval.wsExpr]
        exact checkExpr_ws env cur sid Γ hv hf e f h.1
    | .member o _ _ _, f, h => by simp [checkExpr] at h
    | .call callee args _ s, f, h => by
        cases callee with
        | var fname vb vs =>
          cases hg : GlobalB.ofName fname with
          | some g =>
            simp only [checkExpr, hg, List.append_eq_nil_iff] at h ⊢
            have hg' : (Eval.GlobalB.ofName fname).isSome = true := by
              rw [← global_tables_agree, hg]; rfl
            simp only [Eval.wsExpr, hg', Bool.true_or, Bool.and_true]
            exact checkExprs_ws env cur sid Γ hv hf args f h.2
          | none =>
            cases hl : lookupFn env fname with
            | some g =>
              simp only [checkExpr, hg, hl, List.append_eq_nil_iff] at h ⊢
              simp only [Eval.wsExpr, Bool.and_eq_true, Bool.or_eq_true]
              exact ⟨checkExprs_ws env cur sid Γ hv hf args _ h.2, Or.inr (hf.lookup hl)⟩
            | none => simp [checkExpr, hg, hl] at h
        | member obj field fs ms =>
          simp only [checkExpr, List.append_eq_nil_iff] at h ⊢
          simp only [Eval.wsExpr, Bool.and_eq_true]
          exact ⟨checkExpr_ws env cur sid Γ hv hf obj f h.1.1, checkExprs_ws env cur sid Γ hv hf args _ h.2⟩
        | num _ _ => simp [checkExpr] at h
        | bool _ _ => simp [checkExpr] at h
        | null _ => simp [checkExpr] at h
        | str _ _ => rw [checkExpr.eq_def] at h; simp at h
        | array _ _ => rw [checkExpr.eq_def] at h; simp at h
        | index _ _ _ _ => rw [checkExpr.eq_def] at h; simp at h
        | binary _ _ _ _ => rw [checkExpr.eq_def] at h; simp at h
        | unary _ _ _ => rw [checkExpr.eq_def] at h; simp at h
        | call _ _ _ _ => rw [checkExpr.eq_def] at h; simp at h
  theorem checkExprs_ws (env : Env) (cur : Scope) (sid : Nat) (Γ : List Eval.Binder)
      (hv : VarsIn (cur :: env.vars) Γ) (hf : FnsIn env.fns Γ) :
      ∀ (es : List Expr) (f : Facts), (checkExprs env cur sid es f).ds = [] →
        Eval.wsExprs Γ (checkExprs env cur sid es f).val = true
    | [], f, _ => by simp [checkExprs, Eval.wsExprs]
    | e :: es, f, h => by
        simp only [checkExprs, List.append_eq_nil_iff] at h ⊢
        simp only [Eval.wsExprs, Bool.and_eq_true]
        exact ⟨checkExpr_ws env cur sid Γ hv hf e f h.1, checkExprs_ws env cur sid Γ hv hf es _ h.2⟩
end

/-! ### The shape of `checkBlock` -/

theorem checkBlock_eq (env : Env) (parent : Option Nat) (ss : List Stmt) (sp : Span) (f : Facts) :
    ∃ (f2 : Facts) (sigs : List FnSig) (env1 : Env), fkey f2 = fkey f ∧ env1.vars = env.vars ∧
      env1.inLoop = env.inLoop ∧ env1.curFn = env.curFn ∧
      sigs.map sigKey3 = (predeclare env1 ss [] f2).sigs.map sigKey3 ∧
      checkBlock env parent (.mk ss sp) f =
        ⟨.mk (checkStmts { env1 with fns := sigs :: env.fns } {} ss (predeclare env1 ss [] f2).facts).val sp,
         (predeclare env1 ss [] f2).ds ++
           (checkStmts { env1 with fns := sigs :: env.fns } {} ss (predeclare env1 ss [] f2).facts).ds,
         (checkStmts { env1 with fns := sigs :: env.fns } {} ss (predeclare env1 ss [] f2).facts).facts⟩ := by
  refine ⟨_, _, { env with scope := f.scopes.length }, ?_, rfl, rfl, rfl, retIter_keys3 _ _ _ _ _, rfl⟩
  split <;> simp

/-- What a clean `predeclare` says about the own function scope of the block. -/
theorem own_names {env1 : Env} {ss : List Stmt} {f2 : Facts} {sigs : List FnSig}
    (hsig : sigs.map sigKey3 = (predeclare env1 ss [] f2).sigs.map sigKey3)
    (hds : (predeclare env1 ss [] f2).ds = []) :
    sigs.map (·.name) = fnNames ss ∧ (fnNames ss).Nodup := by
  obtain ⟨h1, _, h3⟩ := predeclare_clean env1 ss [] f2 hds
  refine ⟨?_, h3⟩
  rw [keys3_names hsig, ← fnDefs_names]
  have := congrArg (List.map Prod.fst) h1
  simpa [List.map_map, Function.comp_def, sigKey] using this

theorem defsOK_block {env2 : Env} {sigs : List FnSig} {rest : List (List FnSig)} (henv : env2.fns = sigs :: rest)
    {ss : List Stmt} (hn : sigs.map (·.name) = fnNames ss) (hnd : (fnNames ss).Nodup) :
    DefsOK env2 [] ss := by
  refine ⟨fun _ _ h => (by cases h), hnd, ?_⟩
  intro name hname
  rw [← hn] at hname
  obtain ⟨g, hg, rfl⟩ := List.mem_map.1 hname
  simp only [ownHas, henv]
  rw [findFn_of_mem_nodup (by rw [hn]; exact hnd) hg]; rfl

/-- Every signature of the own function scope is written on a definition of the block. -/
theorem sigs_annotated {env2 : Env} {sigs : List FnSig} {rest : List (List FnSig)} (henv : env2.fns = sigs :: rest)
    {ss : List Stmt} (hn : sigs.map (·.name) = fnNames ss) (hnd : (fnNames ss).Nodup) (f : Facts) :
    ∀ g ∈ sigs, g.id ∈ Eval.fnIdsOf (checkStmts env2 {} ss f).val := by
  intro g hg
  have hname : g.name ∈ fnNames ss := by rw [← hn]; exact List.mem_map_of_mem hg
  exact checkStmts_annotates env2 sigs rest henv ss {} f (defsOK_block henv hn hnd) g.name hname g
    (findFn_of_mem_nodup (by rw [hn]; exact hnd) hg)

/-! ### Statements and blocks -/

/-- An id the context declares lies outside `[lo, hi)` or is one of `own`. -/
def FreshL (Γ : List Eval.Binder) (lo hi : Nat) (own : List Nat) : Prop :=
  ∀ l, Eval.declared Γ l = true → l < lo ∨ hi ≤ l ∨ l ∈ own

def FreshF (Γ : List Eval.Binder) (lo hi : Nat) : Prop :=
  ∀ i, Eval.fnDeclared Γ i = true → i < lo ∨ hi ≤ i

theorem FreshL.mono {Γ : List Eval.Binder} {lo hi lo2 hi2 : Nat} {own own2 : List Nat} (h : FreshL Γ lo hi own)
    (h1 : lo ≤ lo2) (h2 : hi2 ≤ hi) (h3 : ∀ l ∈ own, l ∈ own2) : FreshL Γ lo2 hi2 own2 := by
  intro l hl
  rcases h l hl with a | a | a
  · exact Or.inl (Nat.lt_of_lt_of_le a h1)
  · exact Or.inr (Or.inl (Nat.le_trans h2 a))
  · exact Or.inr (Or.inr (h3 l a))

theorem FreshF.mono {Γ : List Eval.Binder} {lo hi lo2 hi2 : Nat} (h : FreshF Γ lo hi)
    (h1 : lo ≤ lo2) (h2 : hi2 ≤ hi) : FreshF Γ lo2 hi2 := by
  intro l hl
  rcases h l hl with a | a
  · exact Or.inl (Nat.lt_of_lt_of_le a h1)
  · exact Or.inr (Nat.le_trans h2 a)

/-- A binder whose ids were allocated inside `[lo, hi)` is fresh in a context that is. -/
theorem freshIn_of_range {Γ : List Eval.Binder} {β : Eval.Binder} {lo hi lo' hi' : Nat}
    (hL : FreshL Γ lo hi []) (hF : FreshF Γ lo' hi')
    (h1 : ∀ l ∈ β.decls, lo ≤ l ∧ l < hi) (h2 : ∀ i ∈ β.fnIds, lo' ≤ i ∧ i < hi') :
    Eval.freshIn Γ β = true := by
  simp only [Eval.freshIn, Bool.and_eq_true, List.all_eq_true, Bool.not_eq_true']
  refine ⟨?_, ?_⟩
  · intro l hl
    cases hd : Eval.declared Γ l with
    | false => rfl
    | true =>
      have := h1 l hl
      rcases hL l hd with a | a | a
      · omega
      · omega
      · cases a
  · intro i hi
    cases hd : Eval.fnDeclared Γ i with
    | false => rfl
    | true =>
      have := h2 i hi
      rcases hF i hd with a | a <;> omega

/-- The context of the statements of a block whose binder is `B`. -/
structure SCtx (env : Env) (cur : Cur) (f : Facts) (B : Eval.Binder) (Γ0 : List Eval.Binder) : Prop where
  vars : VarsIn env.vars (B :: Γ0)
  curIn : ∀ e ∈ cur.vars, e.id ∈ B.decls
  curLt : ∀ e ∈ cur.vars, e.id < f.locals.length
  fns : FnsIn env.fns (B :: Γ0)

theorem SCtx.curDeclared {env : Env} {cur : Cur} {f : Facts} {B : Eval.Binder} {Γ0 : List Eval.Binder}
    (h : SCtx env cur f B Γ0) : ∀ e ∈ cur.vars, Eval.declared (B :: Γ0) e.id = true := by
  intro e he
  rw [declared_cons']
  have := h.curIn e he
  simp [this]

theorem SCtx.exprVars {env : Env} {cur : Cur} {f : Facts} {B : Eval.Binder} {Γ0 : List Eval.Binder}
    (h : SCtx env cur f B Γ0) : VarsIn (cur.vars :: env.vars) (B :: Γ0) :=
  VarsIn.cons h.curDeclared h.vars

macro "fk" : tactic => `(tactic| simp [checkExpr_fkey])

/-- The shape of `checkStmt` on a definition that gets its signature. -/
theorem checkStmt_fnDef_eq (env : Env) (cur : Cur) (name : Bytes) (nsp : Span) (ps : List Param) (body : Block)
    (a b : Option Nat) (sp : Span) (f : Facts) {own : List FnSig} {rest : List (List FnSig)} {g : FnSig}
    (heq : env.fns = own :: rest) (hg : findFn own name = some g) (hu : name ∉ cur.seenFns) :
    ∃ (f3 : Facts) (pscope : Nat) (envB : Env), fkey f3 = fkey f ∧
      envB.vars = (declareParams env.spanLen g.id pscope ps [] f3).2.1 :: cur.vars :: env.vars ∧
      envB.fns = env.fns ∧ envB.inLoop = 0 ∧ envB.curFn = some g.id ∧
      checkStmt env cur (.fnDef name nsp ps body a b sp) f =
        ⟨.fnDef name nsp (declareParams env.spanLen g.id pscope ps [] f3).1
            (checkBlock envB (some pscope) body (declareParams env.spanLen g.id pscope ps [] f3).2.2).val
            (some g.id) (some f.stmtEffects.length) sp,
          (checkBlock envB (some pscope) body (declareParams env.spanLen g.id pscope ps [] f3).2.2).ds,
          (checkBlock envB (some pscope) body (declareParams env.spanLen g.id pscope ps [] f3).2.2).facts,
          { cur with seenFns := name :: cur.seenFns }⟩ := by
  have hu' : cur.seenFns.contains name = false := by simpa using hu
  refine ⟨pushScope (setDefStmt (joinClass (pushStmt f env.owner env.scope) f.stmtEffects.length .impure) g.id
      f.stmtEffects.length) (some env.scope) g.id,
    (setDefStmt (joinClass (pushStmt f env.owner env.scope) f.stmtEffects.length .impure) g.id
      f.stmtEffects.length).scopes.length,
    { env with
      vars := (declareParams env.spanLen g.id (setDefStmt (joinClass (pushStmt f env.owner env.scope)
          f.stmtEffects.length .impure) g.id f.stmtEffects.length).scopes.length ps []
          (pushScope (setDefStmt (joinClass (pushStmt f env.owner env.scope) f.stmtEffects.length .impure) g.id
            f.stmtEffects.length) (some env.scope) g.id)).2.1 :: cur.vars :: env.vars,
      curFn := some g.id, owner := g.id, inLoop := 0,
      scope := (setDefStmt (joinClass (pushStmt f env.owner env.scope) f.stmtEffects.length .impure) g.id
        f.stmtEffects.length).scopes.length },
    by simp, rfl, rfl, rfl, rfl, ?_⟩
  simp only [checkStmt, heq, hg, hu', Bool.false_eq_true, ↓reduceIte]

mutual
  theorem checkStmt_ws (env : Env) (cur : Cur) (B : Eval.Binder) (Γ0 : List Eval.Binder) :
      ∀ (s : Stmt) (f : Facts), SCtx env cur f B Γ0 → DefsOK env cur.seenFns [s] →
        (∀ l ∈ Eval.declIds [(checkStmt env cur s f).val], l ∈ B.decls) →
        (∀ i ∈ Eval.fnIdsOf [(checkStmt env cur s f).val], i ∈ B.fnIds) →
        FreshL (B :: Γ0) f.locals.length (checkStmt env cur s f).facts.locals.length
          (Eval.declIds [(checkStmt env cur s f).val]) →
        FreshF (B :: Γ0) f.functions.length (checkStmt env cur s f).facts.functions.length →
        (checkStmt env cur s f).ds = [] → Eval.wsStmt (B :: Γ0) (checkStmt env cur s f).val = true
    | .assign x xs e _ _ sp, f, hc, _, hB1, _, _, _, h => by
        have hx := checkExpr_ws env cur.vars f.stmtEffects.length (B :: Γ0) hc.exprVars hc.fns e
          (pushStmt f env.owner env.scope)
        cases hfv : findVar cur.vars x with
        | some ent =>
          simp only [checkStmt, hfv, List.append_eq_nil_iff] at h hB1 ⊢
          simp only [Eval.wsStmt, Bool.and_eq_true, Eval.headDecl]
          exact ⟨hx h.2, by simpa [Eval.declIds] using hB1⟩
        | none =>
          simp only [checkStmt, hfv, List.append_eq_nil_iff] at h hB1 ⊢
          simp only [Eval.wsStmt, Bool.and_eq_true, Eval.headDecl]
          exact ⟨hx h.2, by simpa [Eval.declIds] using hB1⟩
    | .assignExisting x xs e _ _ sp, f, hc, _, _, _, _, _, h => by
        cases hl : lookupVar env cur.vars x with
        | some ent =>
          simp only [checkStmt, hl] at h ⊢
          simp only [Eval.wsStmt, Bool.and_eq_true]
          exact ⟨checkExpr_ws env cur.vars _ (B :: Γ0) hc.exprVars hc.fns e _ h, hc.exprVars.lookup hl⟩
        | none => simp [checkStmt, hl] at h
    | .assignIndex t e _ sp, f, hc, _, _, _, _, _, h => by
        simp only [checkStmt, List.append_eq_nil_iff] at h ⊢
        simp only [Eval.wsStmt, Bool.and_eq_true]
        exact ⟨checkExpr_ws env cur.vars _ (B :: Γ0) hc.exprVars hc.fns t _ h.1.1,
               checkExpr_ws env cur.vars _ (B :: Γ0) hc.exprVars hc.fns e _ h.1.2⟩
    | .ifS c t e _ sp, f, hc, _, _, _, hfr, hfrF, h => by
        simp only [checkStmt, List.append_eq_nil_iff, Eval.declIds] at h hfr hfrF ⊢
        simp only [Eval.wsStmt, Bool.and_eq_true]
        refine ⟨⟨checkExpr_ws env cur.vars _ (B :: Γ0) hc.exprVars hc.fns c _ h.1.1.1, ?_⟩, ?_⟩
        · refine checkBlock_ws { env with vars := cur.vars :: env.vars } _ (B :: Γ0) hc.exprVars hc.fns t _
            (hfr.mono ?_ ?_ (fun _ h => h)) (hfrF.mono ?_ ?_) h.1.2
          · exact Nat.le_of_eq (nl_eq (by fk)).symm
          · exact (checkOptBlock_grow _ _ _ _).nl
          · exact Nat.le_of_eq (nf_eq (by fk)).symm
          · exact (checkOptBlock_grow _ _ _ _).nf
        · refine checkOptBlock_ws { env with vars := cur.vars :: env.vars } _ (B :: Γ0) hc.exprVars hc.fns e _
            (hfr.mono ?_ (Nat.le_refl _) (fun _ h => h)) (hfrF.mono ?_ (Nat.le_refl _)) h.2
          · exact Nat.le_trans (Nat.le_of_eq (nl_eq (by fk)).symm) (checkBlock_grow _ _ _ _).nl
          · exact Nat.le_trans (Nat.le_of_eq (nf_eq (by fk)).symm) (checkBlock_grow _ _ _ _).nf
    | .loop c b _ sp, f, hc, _, _, _, hfr, hfrF, h => by
        simp only [checkStmt, List.append_eq_nil_iff, Eval.declIds] at h hfr hfrF ⊢
        simp only [Eval.wsStmt, Bool.and_eq_true]
        refine ⟨checkExpr_ws env cur.vars _ (B :: Γ0) hc.exprVars hc.fns c _ h.1.1, ?_⟩
        refine checkBlock_ws { env with vars := cur.vars :: env.vars, inLoop := env.inLoop + 1 } _ (B :: Γ0)
            hc.exprVars hc.fns b _
            (hfr.mono ?_ (Nat.le_refl _) (fun _ h => h)) (hfrF.mono ?_ (Nat.le_refl _)) h.2
        · exact Nat.le_of_eq (nl_eq (by fk)).symm
        · exact Nat.le_of_eq (nf_eq (by fk)).symm
    | .block b _ sp, f, hc, _, _, _, hfr, hfrF, h => by
        simp only [checkStmt, Eval.declIds] at h hfr hfrF ⊢
        simp only [Eval.wsStmt]
        refine checkBlock_ws { env with vars := cur.vars :: env.vars } _ (B :: Γ0) hc.exprVars hc.fns b _
            (hfr.mono ?_ (Nat.le_refl _) (fun _ h => h)) (hfrF.mono ?_ (Nat.le_refl _)) h
        · exact Nat.le_of_eq (nl_eq (by fk)).symm
        · exact Nat.le_of_eq (nf_eq (by fk)).symm
    | .fnDef name nsp ps body a b sp, f, hc, hd, _, hB2, hfr, hfrF, h => by
        have hu : name ∉ cur.seenFns := hd.unseen name (by simp [fnNames])
        have ho := hd.own name (by simp [fnNames])
        unfold ownHas at ho
        split at ho
        · next own rest heq =>
          cases hg : findFn own name with
          | none => simp [hg] at ho
          | some g =>
            obtain ⟨f3, pscope, envB, hk, hvB, hfB, _, _, hshape⟩ :=
              checkStmt_fnDef_eq env cur name nsp ps body a b sp f heq hg hu
            rw [hshape] at h hB2 hfr hfrF ⊢
            simp only [Eval.declIds, Eval.fnIdsOf] at h hB2 hfr hfrF ⊢
            obtain ⟨hp1, hp2, _, hp4, hp5⟩ := declareParams_spec env.spanLen g.id pscope ps [] f3
            have hgrow := checkBlock_grow envB (some pscope) body (declareParams env.spanLen g.id pscope ps [] f3).2.2
            have hnl3 : f3.locals.length = f.locals.length := nl_eq hk
            have hnf3 : f3.functions.length = f.functions.length := nf_eq hk
            have hnlp : (declareParams env.spanLen g.id pscope ps [] f3).2.2.locals.length
                = f.locals.length + ps.length := by
              have := congrArg Prod.fst hp1
              simp only [fkey] at this
              rw [this, hnl3]
            have hnfp : (declareParams env.spanLen g.id pscope ps [] f3).2.2.functions.length
                = f.functions.length := by
              rw [← hnf3]
              have := congrArg (fun k => k.2.length) hp1
              simpa [fkey_nf] using this
            simp only [Eval.wsStmt, Bool.and_eq_true, Eval.headFn]
            refine ⟨⟨⟨by simpa using hB2, hp2⟩, ?_⟩, ?_⟩
            · refine freshIn_of_range hfr hfrF ?_ (by intro i hi; cases hi)
              intro l hl
              have := hp4 l hl
              have := hgrow.nl
              omega
            · refine checkBlock_ws envB (some pscope) _ ?_ ?_ body _ ?_ ?_ h
              · rw [hvB]
                refine VarsIn.cons ?_ (hc.exprVars.weaken _)
                intro e he
                rcases hp5 e he with hm | hm
                · cases hm
                · rw [declared_cons']
                  have : e.id ∈ (Eval.Binder.ofParams (declareParams env.spanLen g.id pscope ps [] f3).1).decls := hm
                  simp [this]
              · rw [hfB]; exact hc.fns.weaken _
              · intro l hl
                rw [declared_cons'] at hl
                simp only [Bool.or_eq_true] at hl
                rcases hl with hl | hl
                · have : l ∈ paramBinds (declareParams env.spanLen g.id pscope ps [] f3).1 := by
                    simpa [Eval.Binder.ofParams, paramBinds] using hl
                  have := hp4 l this
                  left; omega
                · rcases hfr l hl with a | a | a
                  · left; omega
                  · right; left; exact a
                  · cases a
              · intro i hi
                rw [fnDeclared_cons'] at hi
                have hi' : Eval.fnDeclared (B :: Γ0) i = true := by
                  simpa [Eval.Binder.ofParams] using hi
                rcases hfrF i hi' with a | a
                · left; omega
                · right; exact a
        · simp at ho
    | .ret e _ sp, f, hc, _, _, _, _, _, h => by
        cases e with
        | some e =>
          simp only [checkStmt, List.append_eq_nil_iff] at h ⊢
          simp only [Eval.wsStmt]
          exact checkExpr_ws env cur.vars _ (B :: Γ0) hc.exprVars hc.fns e _ h.2
        | none => simp [checkStmt, Eval.wsStmt]
    | .brk _ sp, f, _, _, _, _, _, _, _ => by simp [checkStmt, Eval.wsStmt]
    | .cont _ sp, f, _, _, _, _, _, _, _ => by simp [checkStmt, Eval.wsStmt]
    | .expr e _ sp, f, hc, _, _, _, _, _, h => by
        simp only [checkStmt] at h ⊢
        simp only [Eval.wsStmt]
        exact checkExpr_ws env cur.vars _ (B :: Γ0) hc.exprVars hc.fns e _ h
  theorem checkStmts_ws (env : Env) (B : Eval.Binder) (Γ0 : List Eval.Binder) :
      ∀ (ss : List Stmt) (cur : Cur) (f : Facts), SCtx env cur f B Γ0 → DefsOK env cur.seenFns ss →
        (∀ l ∈ Eval.declIds (checkStmts env cur ss f).val, l ∈ B.decls) →
        (∀ i ∈ Eval.fnIdsOf (checkStmts env cur ss f).val, i ∈ B.fnIds) →
        FreshL (B :: Γ0) f.locals.length (checkStmts env cur ss f).facts.locals.length
          (Eval.declIds (checkStmts env cur ss f).val) →
        FreshF (B :: Γ0) f.functions.length (checkStmts env cur ss f).facts.functions.length →
        (checkStmts env cur ss f).ds = [] → Eval.wsStmts (B :: Γ0) (checkStmts env cur ss f).val = true
    | [], cur, f, _, _, _, _, _, _, _ => by simp [checkStmts, Eval.wsStmts]
    | s :: ss, cur, f, hc, hd, hB1, hB2, hfr, hfrF, h => by
        simp only [checkStmts, List.append_eq_nil_iff] at h hB1 hB2 hfr hfrF ⊢
        rw [declIds_cons] at hB1 hfr
        rw [fnIdsOf_cons] at hB2
        have hdecl := checkStmt_decl env cur s f
        have hg1 := checkStmt_grow env cur s f
        have hg2 := checkStmts_grow env ss (checkStmt env cur s f).cur (checkStmt env cur s f).facts
        have hrest := checkStmts_decl env ss (checkStmt env cur s f).cur (checkStmt env cur s f).facts
        simp only [Eval.wsStmts, Bool.and_eq_true]
        refine ⟨?_, ?_⟩
        · refine checkStmt_ws env cur B Γ0 s f hc hd.head (fun l hl => hB1 l (List.mem_append_left _ hl))
            (fun i hi => hB2 i (List.mem_append_left _ hi)) ?_ (hfrF.mono (Nat.le_refl _) hg2.nf) h.1
          intro l hl
          rcases hfr l hl with a | a | a
          · exact Or.inl a
          · exact Or.inr (Or.inl (Nat.le_trans hg2.nl a))
          · rcases List.mem_append.1 a with a | a
            · exact Or.inr (Or.inr a)
            · rcases hrest l a with ⟨e, he, rfl⟩ | a
              · rcases hdecl.2 e he with ⟨e', he', hid⟩ | a
                · left; rw [← hid]; exact hc.curLt e' he'
                · exact Or.inr (Or.inr a.1)
              · exact Or.inr (Or.inl a.1)
        · refine checkStmts_ws env B Γ0 ss _ _ ⟨hc.vars, ?_, ?_, hc.fns⟩ (hd.tail f)
            (fun l hl => hB1 l (List.mem_append_right _ hl))
            (fun i hi => hB2 i (List.mem_append_right _ hi)) ?_ (hfrF.mono hg1.nf (Nat.le_refl _)) h.2
          · intro e he
            rcases hdecl.2 e he with ⟨e', he', hid⟩ | a
            · rw [← hid]; exact hc.curIn e' he'
            · exact hB1 _ (List.mem_append_left _ a.1)
          · intro e he
            rcases hdecl.2 e he with ⟨e', he', hid⟩ | a
            · rw [← hid]; exact Nat.lt_of_lt_of_le (hc.curLt e' he') hg1.nl
            · exact a.2.2
          · intro l hl
            rcases hfr l hl with a | a | a
            · exact Or.inl (Nat.lt_of_lt_of_le a hg1.nl)
            · exact Or.inr (Or.inl a)
            · rcases List.mem_append.1 a with a | a
              · left
                rcases hdecl.1 l a with ⟨e, he, rfl⟩ | a
                · exact Nat.lt_of_lt_of_le (hc.curLt e he) hg1.nl
                · exact a.2
              · exact Or.inr (Or.inr a)
  theorem checkBlock_ws (env : Env) (parent : Option Nat) (Γ : List Eval.Binder)
      (hv : VarsIn env.vars Γ) (hf : FnsIn env.fns Γ) :
      ∀ (b : Block) (f : Facts),
        FreshL Γ f.locals.length (checkBlock env parent b f).facts.locals.length [] →
        FreshF Γ f.functions.length (checkBlock env parent b f).facts.functions.length →
        (checkBlock env parent b f).ds = [] → Eval.wsBlock Γ (checkBlock env parent b f).val = true
    | .mk ss sp, f, hfr, hfrF, h => by
        obtain ⟨f2, sigs, env1, hk, hvars, _, _, hsig, heq⟩ := checkBlock_eq env parent ss sp f
        rw [heq] at h hfr hfrF ⊢
        simp only [List.append_eq_nil_iff] at h hfr hfrF
        obtain ⟨hpg, hpnl, hpsig⟩ := predeclare_grow env1 ss [] f2
        obtain ⟨hn, hnd⟩ := own_names hsig h.1
        have hnl2 : f2.locals.length = f.locals.length := nl_eq hk
        have hnf2 : f2.functions.length = f.functions.length := nf_eq hk
        have hsgrow := checkStmts_grow { env1 with fns := sigs :: env.fns } ss {} (predeclare env1 ss [] f2).facts
        -- the ids of the own signatures were allocated by `predeclare`
        have hsigR : ∀ g ∈ sigs, f.functions.length ≤ g.id ∧
            g.id < (predeclare env1 ss [] f2).facts.functions.length := by
          intro g hg
          obtain ⟨g0, hg0, hkey⟩ := keys3_mem hsig hg
          have hid : g0.id = g.id := by
            have := congrArg (fun k => k.2.1) hkey; simpa [sigKey3] using this
          rcases hpsig g0 hg0 with hm | ⟨a, b, _⟩
          · cases hm
          · rw [← hid]; omega
        have hdeclR := checkStmts_decl { env1 with fns := sigs :: env.fns } ss {} (predeclare env1 ss [] f2).facts
        have hfnR := checkStmts_fnIds { env1 with fns := sigs :: env.fns } ss {} (predeclare env1 ss [] f2).facts
        have hfnR' : ∀ i ∈ Eval.fnIdsOf (checkStmts { env1 with fns := sigs :: env.fns } {} ss
            (predeclare env1 ss [] f2).facts).val, f.functions.length ≤ i ∧
            i < (predeclare env1 ss [] f2).facts.functions.length := by
          intro i hi
          obtain ⟨own, rest, g, he, hg, rfl⟩ := hfnR i hi
          cases he
          exact hsigR g hg
        have hdeclR' : ∀ l ∈ Eval.declIds (checkStmts { env1 with fns := sigs :: env.fns } {} ss
            (predeclare env1 ss [] f2).facts).val, f.locals.length ≤ l ∧
            l < (checkStmts { env1 with fns := sigs :: env.fns } {} ss
              (predeclare env1 ss [] f2).facts).facts.locals.length := by
          intro l hl
          rcases hdeclR l hl with ⟨e, he, _⟩ | a
          · cases he
          · rw [hpnl, hnl2] at a; exact a
        simp only [Eval.wsBlock, Bool.and_eq_true]
        refine ⟨?_, ?_⟩
        · refine freshIn_of_range hfr hfrF hdeclR' ?_
          intro i hi
          have h1 := hfnR' i hi
          have h2 := hsgrow.nf
          exact ⟨h1.1, by omega⟩
        · refine checkStmts_ws _ _ Γ ss {} _ ⟨?_, ?_, ?_, ?_⟩ (defsOK_block rfl hn hnd)
            (fun l hl => hl) (fun i hi => hi) ?_ ?_ h.2
          · show VarsIn env1.vars _
            rw [hvars]; exact hv.weaken _
          · intro e he; cases he
          · intro e he; cases he
          · intro s hs g hg
            rcases List.mem_cons.1 hs with hs | hs
            · rw [hs] at hg
              rw [fnDeclared_cons']
              have : g.id ∈ (Eval.Binder.ofStmts (checkStmts { env1 with fns := sigs :: env.fns } {} ss
                  (predeclare env1 ss [] f2).facts).val).fnIds :=
                sigs_annotated rfl hn hnd _ g hg
              simp [this]
            · exact (hf.weaken _) s hs g hg
          · intro l hl
            rw [declared_cons'] at hl
            simp only [Bool.or_eq_true] at hl
            rcases hl with hl | hl
            · exact Or.inr (Or.inr (by simpa [Eval.Binder.ofStmts] using hl))
            · rcases hfr l hl with a | a | a
              · left; rw [hpnl, hnl2]; exact a
              · exact Or.inr (Or.inl a)
              · cases a
          · intro i hi
            rw [fnDeclared_cons'] at hi
            simp only [Bool.or_eq_true] at hi
            rcases hi with hi | hi
            · left
              exact (hfnR' i (by simpa [Eval.Binder.ofStmts] using hi)).2
            · rcases hfrF i hi with a | a
              · left; have := hpg.nf; omega
              · exact Or.inr a
  theorem checkOptBlock_ws (env : Env) (parent : Option Nat) (Γ : List Eval.Binder)
      (hv : VarsIn env.vars Γ) (hf : FnsIn env.fns Γ) :
      ∀ (b : Option Block) (f : Facts),
        FreshL Γ f.locals.length (checkOptBlock env parent b f).facts.locals.length [] →
        FreshF Γ f.functions.length (checkOptBlock env parent b f).facts.functions.length →
        (checkOptBlock env parent b f).ds = [] → Eval.wsOptBlock Γ (checkOptBlock env parent b f).val = true
    | none, f, _, _, _ => by simp [checkOptBlock, Eval.wsOptBlock]
    | some b, f, hfr, hfrF, h => by
        simp only [checkOptBlock] at h hfr hfrF ⊢
        simp only [Eval.wsOptBlock]
        exact checkBlock_ws env parent Γ hv hf b f hfr hfrF h
end

/-- **An accepted program is well scoped**: if the checker reports nothing, its output passes the
evaluator-side check `WellScoped`. -/
theorem resolve_wellScoped (spanLen : Bool) (q : Block) (h : (resolveWith spanLen q).rdiags = []) :
    Eval.WellScoped (resolveWith spanLen q).root := by
  unfold Eval.WellScoped
  refine checkBlock_ws (rootEnv spanLen) none [Eval.Binder.root] ?_ ?_ q rootFacts ?_ ?_ h
  · intro s hs; cases hs
  · intro s hs; cases hs
  · intro l hl; simp [Eval.declared, Eval.Binder.root] at hl
  · intro i hi; simp [Eval.fnDeclared, Eval.Binder.root] at hi

end NaijaVerif.Resolve
