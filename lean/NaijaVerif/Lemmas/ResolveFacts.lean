import NaijaVerif.Lemmas.BridgeWalk
/-
What the resolver model records about CALLS in the per-statement facts, part 1: the bookkeeping.

`skey f` is the projection of `Facts.stmtEffects` the call-graph reachability of the analyses reads:
for every `StmtId` the owning function and the direct callees.  Of all bookkeeping primitives of
`Model/Resolve.lean` only `pushStmt` (appends an entry `(owner, [])`) and `recStmtCallee` (adds a
callee to an entry) change it; so `checkSegs`, `checkMethod`, `declareParams`, `predeclare` leave it
alone, and the walk `checkExpr … checkOptBlock` only EXTENDS it (`SLe`: entries are appended, the
owner of an entry never changes, its callee list only grows).  Every statement starts by pushing its
own entry (`checkStmt_sle`).
-/
namespace NaijaVerif.ResolveFacts
open NaijaVerif NaijaVerif.Resolve

/-! ### `modifyAt` -/

theorem getElem?_modifyAt {α : Type} (g : α → α) : ∀ (l : List α) (i j : Nat),
    (modifyAt l i g)[j]? = if j = i then l[j]?.map g else l[j]?
  | [], _, _ => by simp [modifyAt]
  | _ :: _, 0, 0 => by simp [modifyAt]
  | _ :: _, 0, _ + 1 => by simp [modifyAt]
  | _ :: _, _ + 1, 0 => by simp [modifyAt]
  | _ :: as, i + 1, j + 1 => by simp [modifyAt, getElem?_modifyAt g as i j]

theorem modifyAt_map {α β : Type} (k : α → β) (g : α → α) (g' : β → β) (h : ∀ a, k (g a) = g' (k a)) :
    ∀ (l : List α) (i : Nat), (modifyAt l i g).map k = modifyAt (l.map k) i g'
  | [], _ => by simp [modifyAt]
  | _ :: _, 0 => by simp [modifyAt, h]
  | _ :: as, n + 1 => by simp [modifyAt, modifyAt_map k g g' h as n]

theorem mem_modifyAt {α : Type} {g : α → α} {x : α} : ∀ {l : List α} {i : Nat},
    x ∈ modifyAt l i g → x ∈ l ∨ ∃ a ∈ l, x = g a
  | [], _, h => by simp [modifyAt] at h
  | a :: as, 0, h => by
      simp only [modifyAt, List.mem_cons] at h
      rcases h with rfl | h
      · exact Or.inr ⟨a, List.mem_cons_self, rfl⟩
      · exact Or.inl (List.mem_cons_of_mem _ h)
  | a :: as, n + 1, h => by
      simp only [modifyAt, List.mem_cons] at h
      rcases h with rfl | h
      · exact Or.inl List.mem_cons_self
      · rcases mem_modifyAt h with h | ⟨b, hb, rfl⟩
        · exact Or.inl (List.mem_cons_of_mem _ h)
        · exact Or.inr ⟨b, List.mem_cons_of_mem _ hb, rfl⟩

theorem mem_addNew {l : List Nat} {x y : Nat} : y ∈ addNew l x ↔ y ∈ l ∨ y = x := by
  simp only [addNew]
  split
  · next h =>
    have : x ∈ l := by simpa using h
    constructor
    · exact Or.inl
    · rintro (h | rfl) <;> assumption
  · simp

/-! ### The key -/

/-- Owning function and direct callees of every `StmtId` allocated so far. -/
def skey (f : Facts) : List (Nat × List Nat) := f.stmtEffects.map (fun e => (e.function, e.directCallees))

theorem skey_length (f : Facts) : (skey f).length = f.stmtEffects.length := by simp [skey]

theorem skey_modify (f : Facts) (sid : Nat) (g : StmtEffect → StmtEffect)
    (hg : ∀ e, ((g e).function, (g e).directCallees) = (e.function, e.directCallees)) :
    (modifyAt f.stmtEffects sid g).map (fun e => (e.function, e.directCallees)) = skey f :=
  modifyAt_map_key _ g hg _ _

@[simp] theorem skey_joinClass (f : Facts) (sid : Nat) (c : ExprClass) : skey (joinClass f sid c) = skey f := by
  simp only [skey, joinClass]; exact skey_modify f sid _ (fun _ => rfl)
@[simp] theorem skey_pushScope (f : Facts) (p : Option Nat) (o : Nat) : skey (pushScope f p o) = skey f := rfl
@[simp] theorem skey_recDirectCallee (f : Facts) (a b : Nat) : skey (recDirectCallee f a b) = skey f := rfl
@[simp] theorem skey_recUserCall (f : Facts) (a b : Nat) : skey (recUserCall f a b) = skey f := rfl
@[simp] theorem skey_setDefStmt (f : Facts) (fn sid : Nat) : skey (setDefStmt f fn sid) = skey f := rfl
@[simp] theorem skey_setRootScope (f : Facts) (s : Nat) : skey (setRootScope f s) = skey f := rfl
@[simp] theorem skey_pushLocal (f : Facts) (sl : Bool) (name : Bytes) (o s : Nat) (d : Option Nat) (k : LocalKind) :
    skey (pushLocal f sl name o s d k) = skey f := rfl
@[simp] theorem skey_pushFunction (f : Facts) (name : Bytes) (np parent scope : Nat) :
    skey (pushFunction f name np parent scope) = skey f := rfl

@[simp] theorem skey_recStmtRead (f : Facts) (a b c : Nat) : skey (recStmtRead f a b c) = skey f := by
  unfold recStmtRead; split
  · simp only [skey]; exact skey_modify f b _ (fun _ => rfl)
  · rfl
@[simp] theorem skey_recStmtWrite (f : Facts) (a b c : Nat) : skey (recStmtWrite f a b c) = skey f := by
  unfold recStmtWrite; split
  · simp only [skey]; exact skey_modify f b _ (fun _ => rfl)
  · rfl
@[simp] theorem skey_recCapRead (f : Facts) (a b : Nat) : skey (recCapRead f a b) = skey f := by
  unfold recCapRead; split
  · rfl
  · split <;> rfl
@[simp] theorem skey_recCapWrite (f : Facts) (a b : Nat) : skey (recCapWrite f a b) = skey f := by
  unfold recCapWrite; split
  · rfl
  · split <;> rfl
@[simp] theorem skey_recUse (f : Facts) (a b c : Nat) : skey (recUse f a b c) = skey f := by simp [recUse]
@[simp] theorem skey_recReadWrite (f : Facts) (a b c : Nat) : skey (recReadWrite f a b c) = skey f := by
  simp [recReadWrite]

theorem skey_pushStmt (f : Facts) (o s : Nat) : skey (pushStmt f o s) = skey f ++ [(o, [])] := by
  simp [skey, pushStmt]

theorem skey_recStmtCallee (f : Facts) (sid g : Nat) :
    skey (recStmtCallee f sid g) = modifyAt (skey f) sid (fun p => (p.1, addNew p.2 g)) := by
  simp only [skey, recStmtCallee]
  exact modifyAt_map (fun e : StmtEffect => (e.function, e.directCallees)) _ (fun p => (p.1, addNew p.2 g)) (fun _ => rfl) _ _

@[simp] theorem len_pushStmt (f : Facts) (o s : Nat) : (pushStmt f o s).stmtEffects.length = f.stmtEffects.length + 1 := by
  simp [pushStmt]

/-! ### The key only grows -/

def KLe (k k' : List (Nat × List Nat)) : Prop :=
  ∀ (i : Nat) (p : Nat × List Nat), k[i]? = some p → ∃ p' : Nat × List Nat, k'[i]? = some p' ∧ p'.1 = p.1 ∧ ∀ g ∈ p.2, g ∈ p'.2

/-- Entries are appended; the owner of an entry stays, its callee list only grows. -/
def SLe (f f' : Facts) : Prop := KLe (skey f) (skey f')

theorem SLe.refl (f : Facts) : SLe f f := fun _ p h => ⟨p, h, rfl, fun _ hg => hg⟩

theorem SLe.of_eq {f f' : Facts} (h : skey f' = skey f) : SLe f f' := by
  unfold SLe; rw [h]; exact fun _ p h => ⟨p, h, rfl, fun _ hg => hg⟩

theorem SLe.trans {a b c : Facts} (h1 : SLe a b) (h2 : SLe b c) : SLe a c := by
  intro i p hp
  obtain ⟨p1, hp1, ho1, hc1⟩ := h1 i p hp
  obtain ⟨p2, hp2, ho2, hc2⟩ := h2 i p1 hp1
  exact ⟨p2, hp2, ho2.trans ho1, fun g hg => hc2 g (hc1 g hg)⟩

theorem SLe.len {f f' : Facts} (h : SLe f f') : f.stmtEffects.length ≤ f'.stmtEffects.length := by
  rw [← skey_length, ← skey_length]
  cases hn : (skey f).length with
  | zero => exact Nat.zero_le _
  | succ n =>
    have hlt : n < (skey f).length := by omega
    obtain ⟨p', hp', _⟩ := h n _ (List.getElem?_eq_getElem hlt)
    have := (List.getElem?_eq_some_iff.1 hp').1
    omega

theorem SLe.push (f : Facts) (o s : Nat) : SLe f (pushStmt f o s) := by
  intro i p hp
  refine ⟨p, ?_, rfl, fun _ hg => hg⟩
  rw [skey_pushStmt, List.getElem?_append_left (List.getElem?_eq_some_iff.1 hp).1]
  exact hp

theorem SLe.addCallee (f : Facts) (sid g : Nat) : SLe f (recStmtCallee f sid g) := by
  intro i p hp
  rw [skey_recStmtCallee, getElem?_modifyAt]
  split
  · exact ⟨(p.1, addNew p.2 g), by simp [hp], rfl, fun x hx => mem_addNew.2 (Or.inl hx)⟩
  · exact ⟨p, hp, rfl, fun _ hg => hg⟩

/-- The entry a statement pushes is there for ever, with its owner. -/
theorem SLe.head {f F : Facts} {o s : Nat} (h : SLe (pushStmt f o s) F) :
    ∃ p, (skey F)[f.stmtEffects.length]? = some p ∧ p.1 = o := by
  have : (skey (pushStmt f o s))[f.stmtEffects.length]? = some (o, []) := by
    rw [skey_pushStmt, List.getElem?_append_right (by rw [skey_length]; exact Nat.le_refl _)]
    simp [skey_length]
  obtain ⟨p', hp', ho, _⟩ := h _ _ this
  exact ⟨p', hp', ho⟩

/-- A callee recorded for a statement is there for ever. -/
theorem SLe.callee {f F : Facts} {sid g : Nat} {p : Nat × List Nat} (hs : sid < f.stmtEffects.length)
    (h : SLe (Resolve.recStmtCallee f sid g) F) (hp : (skey F)[sid]? = some p) : g ∈ p.2 := by
  have hlt : sid < (skey f).length := by rw [skey_length]; exact hs
  have : (skey (Resolve.recStmtCallee f sid g))[sid]? = some ((skey f)[sid].1, addNew (skey f)[sid].2 g) := by
    rw [skey_recStmtCallee, getElem?_modifyAt]
    simp [List.getElem?_eq_getElem hlt]
  obtain ⟨p', hp', _, hc⟩ := h _ _ this
  rw [hp] at hp'
  cases hp'
  exact hc g (mem_addNew.2 (Or.inr rfl))

/-! ### Expressions -/

theorem checkSegs_skey (env : Env) (cur : Scope) (sid : Nat) (span : Span) :
    ∀ (segs : List Seg) (f : Facts), skey (checkSegs env cur sid span segs f).facts = skey f
  | [], f => rfl
  | .lit _ :: rest, f => by simp only [checkSegs]; exact checkSegs_skey env cur sid span rest f
  | .var n _ :: rest, f => by
      simp only [checkSegs]
      split
      · simp only; rw [checkSegs_skey env cur sid span rest]; simp
      · simp only; exact checkSegs_skey env cur sid span rest f

theorem checkMethod_skey (env : Env) (cur : Scope) (sid : Nat) (rt : VType) (obj : Expr) (field : Bytes)
    (args : List Expr) (ms : Span) (f : Facts) :
    skey (checkMethod env cur sid rt obj field args ms f).2 = skey f := by
  unfold checkMethod
  split
  · simp only
    split
    · split <;> simp
    · rfl
  · rfl

/-- The callee of a call that is neither a name nor a method. -/
def otherCallee : Expr → Bool
  | .var _ _ _ | .member _ _ _ _ => false
  | _ => true

theorem checkExpr_call_other (env : Env) (cur : Scope) (sid : Nat) (c : Expr) (args : List Expr) (fn : Option Nat)
    (s : Span) (f : Facts) (hc : otherCallee c = true) :
    checkExpr env cur sid (.call c args fn s) f =
      ⟨.call (checkExpr env cur sid c f).val (checkExprs env cur sid args (checkExpr env cur sid c f).facts).val none s,
       (checkExpr env cur sid c f).ds ++ [RDiag.at .badCallee s] ++
         (checkExprs env cur sid args (checkExpr env cur sid c f).facts).ds,
       (checkExprs env cur sid args (checkExpr env cur sid c f).facts).facts⟩ := by
  cases c with
  | var => cases hc
  | member => cases hc
  | _ => rw [checkExpr.eq_def]

mutual
  theorem checkExpr_sle (env : Env) (cur : Scope) (sid : Nat) :
      ∀ (e : Expr) (f : Facts), SLe f (checkExpr env cur sid e f).facts
    | .num _ _, f => by simp only [checkExpr]; exact SLe.refl f
    | .bool _ _, f => by simp only [checkExpr]; exact SLe.refl f
    | .null _, f => by simp only [checkExpr]; exact SLe.refl f
    | .str (.static _) _, f => by simp only [checkExpr]; exact SLe.refl f
    | .str (.interp segs) s, f => by simp only [checkExpr]; exact SLe.of_eq (checkSegs_skey env cur sid s segs f)
    | .array es _, f => by simp only [checkExpr]; exact checkExprs_sle env cur sid es f
    | .index a i _ _, f => by
        simp only [checkExpr]
        exact (checkExpr_sle env cur sid a f).trans (checkExpr_sle env cur sid i _)
    | .var v _ s, f => by
        simp only [checkExpr]
        split
        · exact SLe.of_eq (by simp)
        · exact SLe.refl f
    | .binary _ l r _, f => by
        simp only [checkExpr]
        exact (checkExpr_sle env cur sid l f).trans (checkExpr_sle env cur sid r _)
    | .unary _ e _, f => by simp only [checkExpr]; exact checkExpr_sle env cur sid e f
    | .member o _ _ _, f => by simp only [checkExpr]; exact checkExpr_sle env cur sid o f
    | .call callee args fn s, f => by
        have hc := checkExpr_sle env cur sid callee
        cases callee with
        | var fname vb vs =>
          simp only [checkExpr]
          split
          · exact checkExprs_sle env cur sid args f
          · split
            · refine SLe.trans ?_ (checkExprs_sle env cur sid args _)
              exact SLe.trans (SLe.of_eq (by simp)) (SLe.addCallee _ _ _)
            · exact checkExprs_sle env cur sid args f
        | member obj field fs ms =>
          simp only [checkExpr]
          refine SLe.trans ?_ (checkExprs_sle env cur sid args _)
          split
          · exact (checkExpr_sle env cur sid obj f).trans (SLe.of_eq (checkMethod_skey ..))
          · exact checkExpr_sle env cur sid obj f
        | num _ _ => rw [checkExpr_call_other _ _ _ _ _ _ _ _ rfl]; exact (hc f).trans (checkExprs_sle env cur sid args _)
        | bool _ _ => rw [checkExpr_call_other _ _ _ _ _ _ _ _ rfl]; exact (hc f).trans (checkExprs_sle env cur sid args _)
        | null _ => rw [checkExpr_call_other _ _ _ _ _ _ _ _ rfl]; exact (hc f).trans (checkExprs_sle env cur sid args _)
        | str _ _ => rw [checkExpr_call_other _ _ _ _ _ _ _ _ rfl]; exact (hc f).trans (checkExprs_sle env cur sid args _)
        | array _ _ => rw [checkExpr_call_other _ _ _ _ _ _ _ _ rfl]; exact (hc f).trans (checkExprs_sle env cur sid args _)
        | index _ _ _ _ => rw [checkExpr_call_other _ _ _ _ _ _ _ _ rfl]; exact (hc f).trans (checkExprs_sle env cur sid args _)
        | binary _ _ _ _ => rw [checkExpr_call_other _ _ _ _ _ _ _ _ rfl]; exact (hc f).trans (checkExprs_sle env cur sid args _)
        | unary _ _ _ => rw [checkExpr_call_other _ _ _ _ _ _ _ _ rfl]; exact (hc f).trans (checkExprs_sle env cur sid args _)
        | call _ _ _ _ => rw [checkExpr_call_other _ _ _ _ _ _ _ _ rfl]; exact (hc f).trans (checkExprs_sle env cur sid args _)
  theorem checkExprs_sle (env : Env) (cur : Scope) (sid : Nat) :
      ∀ (es : List Expr) (f : Facts), SLe f (checkExprs env cur sid es f).facts
    | [], f => SLe.refl f
    | e :: es, f => by
        simp only [checkExprs]
        exact (checkExpr_sle env cur sid e f).trans (checkExprs_sle env cur sid es _)
end

/-! ### `declareParams`, `predeclare` -/

theorem declareParams_skey (sl : Bool) (owner scope : Nat) : ∀ (ps : List Param) (sc : Scope) (f : Facts),
    skey (declareParams sl owner scope ps sc f).2.2 = skey f
  | [], _, _ => rfl
  | p :: ps, sc, f => by
      simp only [declareParams]
      rw [declareParams_skey sl owner scope ps]; simp

theorem predeclare_skey (env : Env) : ∀ (ss : List Stmt) (sigs : List FnSig) (f : Facts),
    skey (predeclare env ss sigs f).facts = skey f
  | [], _, _ => rfl
  | .fnDef name nsp ps body _ _ _ :: rest, sigs, f => by
      simp only [predeclare]
      split
      · exact predeclare_skey env rest sigs f
      · simp only; rw [predeclare_skey env rest]; simp
  | .assign .. :: rest, sigs, f => by simp only [predeclare]; exact predeclare_skey env rest sigs f
  | .assignExisting .. :: rest, sigs, f => by simp only [predeclare]; exact predeclare_skey env rest sigs f
  | .assignIndex .. :: rest, sigs, f => by simp only [predeclare]; exact predeclare_skey env rest sigs f
  | .ifS .. :: rest, sigs, f => by simp only [predeclare]; exact predeclare_skey env rest sigs f
  | .loop .. :: rest, sigs, f => by simp only [predeclare]; exact predeclare_skey env rest sigs f
  | .block .. :: rest, sigs, f => by simp only [predeclare]; exact predeclare_skey env rest sigs f
  | .ret .. :: rest, sigs, f => by simp only [predeclare]; exact predeclare_skey env rest sigs f
  | .brk .. :: rest, sigs, f => by simp only [predeclare]; exact predeclare_skey env rest sigs f
  | .cont .. :: rest, sigs, f => by simp only [predeclare]; exact predeclare_skey env rest sigs f
  | .expr .. :: rest, sigs, f => by simp only [predeclare]; exact predeclare_skey env rest sigs f

/-! ### Statements and blocks -/

mutual
  /-- Every statement first pushes its own entry, and what follows only extends the key. -/
  theorem checkStmt_sle (env : Env) (cur : Cur) :
      ∀ (s : Stmt) (f : Facts), SLe (pushStmt f env.owner env.scope) (checkStmt env cur s f).facts
    | .assign x xs e _ _ sp, f => by
        simp only [checkStmt]
        split
        · exact (checkExpr_sle env cur.vars f.stmtEffects.length e _).trans (SLe.of_eq (by simp))
        · exact (checkExpr_sle env cur.vars f.stmtEffects.length e _).trans (SLe.of_eq (by simp))
    | .assignExisting x xs e _ _ sp, f => by
        simp only [checkStmt]
        split
        · next ent _ =>
          have h1 : SLe (pushStmt f env.owner env.scope)
              (recCapWrite (recStmtWrite (pushStmt f env.owner env.scope) env.owner f.stmtEffects.length ent.id)
                env.owner ent.id) := SLe.of_eq (by simp)
          exact (h1.trans (checkExpr_sle env cur.vars f.stmtEffects.length e _)).trans (SLe.of_eq (by simp))
        · exact (checkExpr_sle env cur.vars f.stmtEffects.length e _).trans (SLe.of_eq (by simp))
    | .assignIndex t e _ sp, f => by
        simp only [checkStmt]
        refine ((checkExpr_sle env cur.vars f.stmtEffects.length t _).trans (checkExpr_sle env cur.vars f.stmtEffects.length e _)).trans (SLe.of_eq ?_)
        split <;> simp
    | .ifS c t e _ sp, f => by
        simp only [checkStmt]
        exact (((checkExpr_sle env cur.vars f.stmtEffects.length c _).trans (SLe.of_eq (by simp))).trans
          (checkBlock_sle _ _ t _)).trans (checkOptBlock_sle _ _ e _)
    | .loop c b _ sp, f => by
        simp only [checkStmt]
        exact ((checkExpr_sle env cur.vars f.stmtEffects.length c _).trans (SLe.of_eq (by simp))).trans (checkBlock_sle _ _ b _)
    | .block b _ sp, f => by
        simp only [checkStmt]
        exact checkBlock_sle _ _ b _
    | .fnDef name nsp ps body _ _ sp, f => by
        simp only [checkStmt]
        split
        · exact SLe.of_eq (by simp)
        · refine SLe.trans (SLe.of_eq ?_) (checkBlock_sle _ _ body _)
          rw [declareParams_skey]; simp
    | .ret e _ sp, f => by
        simp only [checkStmt]
        split
        · next e => exact (checkExpr_sle env cur.vars f.stmtEffects.length e _).trans (SLe.of_eq (by simp))
        · exact SLe.of_eq (by simp)
    | .brk _ sp, f => by simp only [checkStmt]; exact SLe.refl _
    | .cont _ sp, f => by simp only [checkStmt]; exact SLe.refl _
    | .expr e _ sp, f => by
        simp only [checkStmt]
        exact (checkExpr_sle env cur.vars f.stmtEffects.length e _).trans (SLe.of_eq (by simp))
  theorem checkStmts_sle (env : Env) :
      ∀ (ss : List Stmt) (cur : Cur) (f : Facts), SLe f (checkStmts env cur ss f).facts
    | [], cur, f => by simp only [checkStmts]; exact SLe.refl f
    | s :: ss, cur, f => by
        simp only [checkStmts]
        exact ((SLe.push f _ _).trans (checkStmt_sle env cur s f)).trans (checkStmts_sle env ss _ _)
  theorem checkBlock_sle (env : Env) (parent : Option Nat) :
      ∀ (b : Block) (f : Facts), SLe f (checkBlock env parent b f).facts
    | .mk ss sp, f => by
        simp only [checkBlock]
        refine SLe.trans (SLe.of_eq ?_) (checkStmts_sle _ ss _ _)
        rw [predeclare_skey]
        split <;> simp
  theorem checkOptBlock_sle (env : Env) (parent : Option Nat) :
      ∀ (b : Option Block) (f : Facts), SLe f (checkOptBlock env parent b f).facts
    | none, f => by simp only [checkOptBlock]; exact SLe.refl f
    | some b, f => by simp only [checkOptBlock]; exact checkBlock_sle env parent b f
end

/-- … hence the facts before a statement are below the facts after it. -/
theorem checkStmt_sle' (env : Env) (cur : Cur) (s : Stmt) (f : Facts) : SLe f (checkStmt env cur s f).facts :=
  (SLe.push f _ _).trans (checkStmt_sle env cur s f)

end NaijaVerif.ResolveFacts
