import NaijaVerif.Lemmas.BridgeReach
import NaijaVerif.Lemmas.AnalysisLiveModel
/-
Bridge resolver → evaluator, part 5c: THE PLAN OF THE ANALYSIS MODEL keeps what reachable code calls.

For `a := Analysis.analyse root facts` and `K := (mkCtx root facts).bodyReachable` (diagnostics.rs
`compute_function_reachability`: the functions reachable through the calls of reachable statements,
starting at the root), the plan `⟨a.plan.stmts, a.plan.fns⟩` satisfies `Bridge.KeptReach K`
(`Lemmas/BridgeReach.lean`) — the hypothesis on the plan of `Props/C06Accepted.lean`:

  (i)  `a.plan.fns` are the ids of `unusedFns`, which are outside `bodyReachable` by definition;
  (ii) a statement of the top-level code or of the body of a body-reachable function is either
       recorded unreachable — then `a.plan.stmts` contains it and the evaluator skips it — or
       reachable, and then the calls of its own expressions are among its `directCallees` (the facts
       cover the expressions: `baseB`), which lie in `bodyReachable` because the set is closed.

The hypotheses are decidable conditions on the annotated program and its facts ONLY (no plan), all of
the C03 unit except the first:
* `numBlock root`            every statement carries a `StmtId`, every definition a `FunctionId`;
* `C03.ownOkB root facts`    per statement: `stmtEffects[i].function` is the function whose body the
                             statement belongs to, and every user call of its own expressions is in
                             `stmtEffects[i].directCallees` (hypothesis of C03's T3; the `plan` driver
                             answers `malformed own` when it fails on the real resolver's output);
* `(mkCtx root facts).brClosed`  the fixpoint iteration of `bodyReachable` has converged (likewise
                             `malformed brclosed`).
`analysis_plan_reach_struct` states it under C03's `structOkB` (which contains `brClosed` and, walk
for walk, the `baseB` conditions) instead of the last two.
-/
namespace NaijaVerif.Bridge
open NaijaVerif NaijaVerif.Analysis NaijaVerif.C03

/-- The plan the analyses hand to the runtime (`Pipeline.frontEnd`: `planOf`). -/
def modelPlan (root : Block) (facts : Facts) : Option Eval.Plan :=
  some { stmts := (analyse root facts).plan.stmts, fns := (analyse root facts).plan.fns }

/-- `bodyReachable` as a predicate. -/
def brK (root : Block) (facts : Facts) : Nat → Bool := fun g => (mkCtx root facts).bodyReachable.contains g

mutual
  /-- `eOk X D e` (every user call of `e` is bound to a function of `X`) gives `reachExpr`. -/
  theorem reach_of_eOk {X D K : Nat → Bool} (h : ∀ g, X g = true → K g = true) : ∀ e : Expr,
      eOk X D e = true → reachExpr K e = true
    | .var _ _ _, _ | .str _ _, _ | .num _ _, _ | .bool _ _, _ | .null _, _ => by simp [reachExpr]
    | .call (.var _ _ _) args fn _, he => by
        simp only [eOk, Bool.and_eq_true] at he
        simp only [reachExpr, Bool.and_eq_true, Bool.or_eq_true]
        refine ⟨reach_of_eOkList h args he.2, Or.inr ?_⟩
        cases fn with
        | none => rfl
        | some f => exact h f he.1
    | .call (.member o _ _ _) args _ _, he => by
        simp only [eOk, Bool.and_eq_true] at he
        simp only [reachExpr, Bool.and_eq_true]
        exact ⟨reach_of_eOk h o he.1, reach_of_eOkList h args he.2⟩
    | .call (.index _ _ _ _) args _ _, he | .call (.str _ _) args _ _, he | .call (.num _ _) args _ _, he
    | .call (.binary _ _ _ _) args _ _, he | .call (.call _ _ _ _) args _ _, he
    | .call (.array _ _) args _ _, he | .call (.unary _ _ _) args _ _, he
    | .call (.bool _ _) args _ _, he | .call (.null _) args _ _, he => by
        simp only [eOk] at he
        simp only [reachExpr]
        exact reach_of_eOkList h args he
    | .binary _ l r _, he => by
        simp only [eOk, Bool.and_eq_true] at he
        simp only [reachExpr, Bool.and_eq_true]
        exact ⟨reach_of_eOk h l he.1, reach_of_eOk h r he.2⟩
    | .index a i _ _, he => by
        simp only [eOk, Bool.and_eq_true] at he
        simp only [reachExpr, Bool.and_eq_true]
        exact ⟨reach_of_eOk h a he.1, reach_of_eOk h i he.2⟩
    | .array es _, he => by simp only [eOk] at he; simp only [reachExpr]; exact reach_of_eOkList h es he
    | .unary _ e _, he => by simp only [eOk] at he; simp only [reachExpr]; exact reach_of_eOk h e he
    | .member o _ _ _, he => by simp only [eOk] at he; simp only [reachExpr]; exact reach_of_eOk h o he
  theorem reach_of_eOkList {X D K : Nat → Bool} (h : ∀ g, X g = true → K g = true) : ∀ es : List Expr,
      eOkList X D es = true → reachExprs K es = true
    | [], _ => by simp [reachExprs]
    | e :: es, he => by
        simp only [eOkList, Bool.and_eq_true] at he
        simp only [reachExprs, Bool.and_eq_true]
        exact ⟨reach_of_eOk h e he.1, reach_of_eOkList h es he.2⟩
end

section
variable (root : Block) (facts : Facts)

/-- (i): the plan removes no body-reachable function. -/
theorem modelPlan_keeps {g : Nat} (h : brK root facts g = true) :
    Eval.Plan.prunesFn (modelPlan root facts) (some g) = false := by
  cases hc : (analyse root facts).plan.fns.contains g with
  | false => simpa [modelPlan, Eval.Plan.prunesFn] using hc
  | true =>
    have hm : g ∈ (mkCtx root facts).unusedFns.map (·.2) := by
      have : g ∈ (analyse root facts).plan.fns := by simpa using hc
      exact this
    have := unused_not_reachable _ hm
    simp only [brK] at h
    rw [this] at h; cases h

/-- A statement the analysis records unreachable is removed by the plan. -/
theorem modelPlan_skips {i : Nat} (h : (i, false) ∈ tbl root) :
    Eval.Plan.prunesStmt (modelPlan root facts) (some i) = true := by
  have hm : i ∈ (analyse root facts).plan.stmts := by
    show i ∈ uni (unreachable root) _
    exact mem_uni_iff.2 (Or.inl (mem_unreachable.2 h))
  simpa [modelPlan, Eval.Plan.prunesStmt] using hm

/-- The setting of `ownOkB`. -/
abbrev S0 : Setup := setupOf root facts none (fun _ => false) (fun _ => false)

/-- One statement `i` of a body-reachable function `f`, recorded with the flag `live`: skipped by the
plan, or the user calls of its own expressions go to body-reachable functions. -/
theorem own_case (hcl : BRClosed root facts) {f i : Nat} {live : Bool} {es : List Expr}
    (hK : brK root facts f = true) (hT : (i, live) ∈ tbl root) (hb : (S0 root facts).baseB f i es = true) :
    Eval.Plan.prunesStmt (modelPlan root facts) (some i) = true ∨ reachExprs (brK root facts) es = true := by
  cases live with
  | false => exact Or.inl (modelPlan_skips root facts hT)
  | true =>
    right
    simp only [Setup.baseB, Bool.and_eq_true, beq_iff_eq] at hb
    have hf : (mkCtx root facts).fnOf i = f := hb.1
    have hc := hcl i hT (by rw [hf]; exact hK)
    refine reach_of_eOkList (X := fun g => ((mkCtx root facts).callees i).contains g) ?_ es hb.2
    intro g hg
    exact hc g (by simpa using hg)

theorem skipped_or {plan : Option Eval.Plan} {K : Nat → Bool} {s : Stmt} (hs : stmtSkipped plan s = Eval.Plan.prunesStmt plan s.sid)
    (h : Eval.Plan.prunesStmt plan s.sid = true ∨ reachStmt K plan s = true) :
    (stmtSkipped plan s || reachStmt K plan s) = true := by
  rcases h with h | h
  · rw [hs, h]; rfl
  · rw [h]; exact Bool.or_true _

mutual
  theorem reach_stmt (hcl : BRClosed root facts) : ∀ (f : Nat) (live : Bool) (s : Stmt),
      brK root facts f = true → ConsStmt (tbl root) live s →
      sokB (S0 root facts) (fun _ _ => false) f s = true → numStmt s = true →
      (stmtSkipped (modelPlan root facts) s || reachStmt (brK root facts) (modelPlan root facts) s) = true
    | f, live, .assign v vs e b sid sp, hK, hc, hs, hn => by
        cases sid with
        | none => simp [numStmt] at hn
        | some i =>
          simp only [ConsStmt] at hc
          simp only [sokB, Bool.and_eq_true] at hs
          refine skipped_or rfl ?_
          rcases own_case root facts hcl hK (hc i rfl) hs.1 with h | h
          · exact Or.inl h
          · simp only [reachExprs, Bool.and_true] at h
            exact Or.inr (by simpa [reachStmt] using h)
    | f, live, .assignExisting v vs e b sid sp, hK, hc, hs, hn => by
        cases sid with
        | none => simp [numStmt] at hn
        | some i =>
          simp only [ConsStmt] at hc
          simp only [sokB, Bool.and_eq_true] at hs
          refine skipped_or rfl ?_
          rcases own_case root facts hcl hK (hc i rfl) hs.1 with h | h
          · exact Or.inl h
          · simp only [reachExprs, Bool.and_true] at h
            exact Or.inr (by simpa [reachStmt] using h)
    | f, live, .assignIndex t e sid sp, hK, hc, hs, hn => by
        cases sid with
        | none => simp [numStmt] at hn
        | some i =>
          simp only [ConsStmt] at hc
          simp only [sokB, Bool.and_eq_true] at hs
          refine skipped_or rfl ?_
          rcases own_case root facts hcl hK (hc i rfl) hs.1 with h | h
          · exact Or.inl h
          · simp only [reachExprs, Bool.and_true, Bool.and_eq_true] at h
            exact Or.inr (by simp only [reachStmt, Bool.and_eq_true]; exact h)
    | f, live, .ifS c (.mk t ts) none sid sp, hK, hc, hs, hn => by
        cases sid with
        | none => simp [numStmt] at hn
        | some i =>
          simp only [ConsStmt] at hc
          simp only [sokB, Bool.and_eq_true] at hs
          simp only [numStmt, numBlock, numOptBlock, Bool.and_eq_true, Bool.and_true] at hn
          have ih := reach_stmts hcl f live t hK hc.2 hs.2 hn.2
          refine skipped_or rfl ?_
          rcases own_case root facts hcl hK (hc.1 i rfl) hs.1.1 with h | h
          · exact Or.inl h
          · simp only [reachExprs, Bool.and_true] at h
            exact Or.inr (by simp only [reachStmt, reachBlock, reachOptBlock, Bool.and_eq_true, Bool.and_true]; exact ⟨h, ih⟩)
    | f, live, .ifS c (.mk t ts) (some (.mk e es)) sid sp, hK, hc, hs, hn => by
        cases sid with
        | none => simp [numStmt] at hn
        | some i =>
          simp only [ConsStmt] at hc
          simp only [sokB, Bool.and_eq_true] at hs
          simp only [numStmt, numBlock, numOptBlock, Bool.and_eq_true] at hn
          have ih1 := reach_stmts hcl f live t hK hc.2.1 hs.1.2 hn.1.2
          have ih2 := reach_stmts hcl f live e hK hc.2.2 hs.2 hn.2
          refine skipped_or rfl ?_
          rcases own_case root facts hcl hK (hc.1 i rfl) hs.1.1.1 with h | h
          · exact Or.inl h
          · simp only [reachExprs, Bool.and_true] at h
            exact Or.inr (by simp only [reachStmt, reachBlock, reachOptBlock, Bool.and_eq_true]; exact ⟨⟨h, ih1⟩, ih2⟩)
    | f, live, .loop c (.mk b bs) sid sp, hK, hc, hs, hn => by
        cases sid with
        | none => simp [numStmt] at hn
        | some i =>
          simp only [ConsStmt] at hc
          simp only [sokB, Bool.and_eq_true] at hs
          simp only [numStmt, numBlock, Bool.and_eq_true] at hn
          have ih := reach_stmts hcl f live b hK hc.2 hs.2 hn.2
          refine skipped_or rfl ?_
          rcases own_case root facts hcl hK (hc.1 i rfl) hs.1.1 with h | h
          · exact Or.inl h
          · simp only [reachExprs, Bool.and_true] at h
            exact Or.inr (by simp only [reachStmt, reachBlock, Bool.and_eq_true]; exact ⟨h, ih⟩)
    | f, live, .block (.mk b bs) sid sp, hK, hc, hs, hn => by
        cases sid with
        | none => simp [numStmt] at hn
        | some i =>
          simp only [ConsStmt] at hc
          simp only [sokB, Bool.and_eq_true] at hs
          simp only [numStmt, numBlock, Bool.and_eq_true] at hn
          have ih := reach_stmts hcl f live b hK hc.2 hs.2 hn.2
          refine skipped_or rfl (Or.inr ?_)
          simp only [reachStmt, reachBlock]; exact ih
    | f, live, .fnDef n ns ps (.mk body bs) fn sid sp, hK, hc, hs, hn => by
        cases sid with
        | none => simp [numStmt] at hn
        | some i =>
          cases fn with
          | none => simp [numStmt] at hn
          | some g =>
            simp only [ConsStmt] at hc
            simp only [sokB, Bool.and_eq_true] at hs
            simp only [numStmt, numBlock, Bool.and_eq_true] at hn
            have hr : reachStmt (brK root facts) (modelPlan root facts) (.fnDef n ns ps (.mk body bs) (some g) (some i) sp) = true := by
              simp only [reachStmt, reachBlock, inK, Bool.or_eq_true, Bool.not_eq_true']
              cases hg : brK root facts g with
              | false => exact Or.inl rfl
              | true => exact Or.inr (reach_stmts hcl g true body hg hc.2 hs.2 hn.2)
            rw [hr]; exact Bool.or_true _
    | f, live, .ret (some e) sid sp, hK, hc, hs, hn => by
        cases sid with
        | none => simp [numStmt] at hn
        | some i =>
          simp only [ConsStmt] at hc
          simp only [sokB, Bool.and_eq_true] at hs
          refine skipped_or rfl ?_
          rcases own_case root facts hcl hK (hc i rfl) hs.1 with h | h
          · exact Or.inl h
          · simp only [reachExprs, Bool.and_true] at h
            exact Or.inr (by simpa [reachStmt] using h)
    | _, _, .ret none _ _, _, _, _, _ => by simp [reachStmt]
    | _, _, .brk _ _, _, _, _, _ => by simp [reachStmt]
    | _, _, .cont _ _, _, _, _, _ => by simp [reachStmt]
    | f, live, .expr e sid sp, hK, hc, hs, hn => by
        cases sid with
        | none => simp [numStmt] at hn
        | some i =>
          simp only [ConsStmt] at hc
          simp only [sokB, Bool.and_eq_true] at hs
          refine skipped_or rfl ?_
          rcases own_case root facts hcl hK (hc i rfl) hs.1 with h | h
          · exact Or.inl h
          · simp only [reachExprs, Bool.and_true] at h
            exact Or.inr (by simpa [reachStmt] using h)
  theorem reach_stmts (hcl : BRClosed root facts) : ∀ (f : Nat) (live : Bool) (ss : List Stmt),
      brK root facts f = true → ConsStmts (tbl root) live ss →
      sokListB (S0 root facts) (fun _ _ => false) f ss = true → numStmts ss = true →
      reachStmts (brK root facts) (modelPlan root facts) ss = true
    | _, _, [], _, _, _, _ => by simp [reachStmts]
    | f, live, s :: ss, hK, hc, hs, hn => by
        simp only [sokListB, Bool.and_eq_true] at hs
        simp only [numStmts, Bool.and_eq_true] at hn
        simp only [reachStmts, Bool.and_eq_true]
        exact ⟨reach_stmt hcl f live s hK hc.1 hs.1 hn.1, reach_stmts hcl f (afterStmt live s) ss hK hc.2 hs.2 hn.2⟩
end

/-- **The plan of the analysis model keeps what reachable code calls**: `K := bodyReachable`. -/
theorem analysis_plan_reach (hnum : numBlock root = true) (hown : ownOkB root facts = true)
    (hcl : (mkCtx root facts).brClosed = true) :
    KeptReach (brK root facts) (modelPlan root facts) root := by
  refine ⟨fun g hg => modelPlan_keeps root facts hg, ?_⟩
  cases root with
  | mk ss sp =>
    simp only [reachBlock]
    exact reach_stmts (.mk ss sp) facts (brClosed_of_check _ facts hcl) 0 true ss (root_bodyReachable _)
      (cons_root (.mk ss sp)) hown hnum

/-- The decidable form: `keptReach` of the finite set `bodyReachable`. -/
theorem analysis_plan_keptReach (hnum : numBlock root = true) (hown : ownOkB root facts = true)
    (hcl : (mkCtx root facts).brClosed = true) :
    keptReach (mkCtx root facts).bodyReachable (modelPlan root facts) root = true :=
  keptReach_of (analysis_plan_reach root facts hnum hown hcl)

/-! ### Under C03's hypothesis `structOkB`

`structOkB root facts` (the decidable, plan-free hypothesis of `c03_full_holds`) contains `brClosed`
(`globalOkB`) and, statement by statement along the liveness walk `lokListB`, the very `baseB`
conditions `ownOkB` asks for (with more: the variables are covered too). -/

theorem store_rule_none (q : Expr → Bool) (i : Nat) (isDecl : Bool) (b : Option Nat) (e : Expr) :
    (S0 root facts).storeRuleB q i isDecl b e = true := by
  cases b <;> simp [Setup.storeRuleB, setupOf, AEval.Cfg.ofPlan]

theorem other_rule_none (i : Nat) : (S0 root facts).otherRuleB i = true := by
  simp [Setup.otherRuleB, setupOf, AEval.Cfg.ofPlan]

theorem base_of_L {L : LSetup} (hc : L.c = mkCtx root facts) {f i : Nat} {σ : List (Option Nat)} {es : List Expr}
    (h : L.baseB f σ i es = true) : (S0 root facts).baseB f i es = true := by
  simp only [LSetup.baseB, LSetup.efitList, Bool.and_eq_true, hc] at h
  simp only [Setup.baseB, Bool.and_eq_true]
  exact ⟨h.1, eOkList_mono2 (fun _ hg => hg) (fun _ hx => by cases hx) es h.2⟩

mutual
  theorem sok_of_lok {L : LSetup} (hc : L.c = mkCtx root facts) : ∀ (f : Nat) (σ : List (Option Nat)) (lc : LoopCtx)
      (s : Stmt) (st : LS) (rest : List Stmt), lokB L f σ lc s st rest = true →
      sokB (S0 root facts) (fun _ _ => false) f s = true
    | f, σ, lc, .assign _ _ e b (some i) _, st, rest, h => by
        simp only [lokB, Bool.and_eq_true] at h
        simp only [sokB, Bool.and_eq_true]
        exact ⟨base_of_L root facts hc h.1, store_rule_none root facts _ _ _ _ _⟩
    | f, σ, lc, .assignExisting _ _ e b (some i) _, st, rest, h => by
        simp only [lokB, Bool.and_eq_true] at h
        simp only [sokB, Bool.and_eq_true]
        exact ⟨base_of_L root facts hc h.1, store_rule_none root facts _ _ _ _ _⟩
    | f, σ, lc, .assignIndex t e (some i) _, _, _, h => by
        simp only [lokB, Bool.and_eq_true] at h
        simp only [sokB, Bool.and_eq_true]
        exact ⟨base_of_L root facts hc h.1.1, other_rule_none root facts _⟩
    | f, σ, lc, .ifS c (.mk t _) none (some i) _, st, _, h => by
        simp only [lokB, Bool.and_eq_true] at h
        simp only [sokB, Bool.and_eq_true]
        exact ⟨⟨base_of_L root facts hc h.1.1.1.1, other_rule_none root facts _⟩, sokList_of_lok hc f _ _ t _ h.2⟩
    | f, σ, lc, .ifS c (.mk t _) (some (.mk e _)) (some i) _, st, _, h => by
        simp only [lokB, Bool.and_eq_true] at h
        simp only [sokB, Bool.and_eq_true]
        exact ⟨⟨⟨base_of_L root facts hc h.1.1.1.1.1.1, other_rule_none root facts _⟩, sokList_of_lok hc f _ _ t _ h.1.2⟩,
          sokList_of_lok hc f _ _ e _ h.2⟩
    | f, σ, lc, .loop c (.mk b _) (some i) _, st, _, h => by
        simp only [lokB, Bool.and_eq_true] at h
        simp only [sokB, Bool.and_eq_true]
        exact ⟨⟨base_of_L root facts hc h.1.1.1.1.1, other_rule_none root facts _⟩, sokList_of_lok hc f _ _ b _ h.2⟩
    | f, σ, lc, .block (.mk b _) (some i) _, st, _, h => by
        simp only [lokB, Bool.and_eq_true] at h
        simp only [sokB, Bool.and_eq_true]
        exact ⟨⟨base_of_L root facts hc h.1.1.1.1, other_rule_none root facts _⟩, sokList_of_lok hc f _ _ b _ h.2⟩
    | f, σ, lc, .fnDef _ _ ps (.mk body _) (some g) (some i) _, _, _, h => by
        simp only [lokB, Bool.and_eq_true] at h
        simp only [sokB, Bool.and_eq_true]
        exact ⟨⟨base_of_L root facts hc h.1.1.1.1.1.1, other_rule_none root facts _⟩, sokList_of_lok hc g _ _ body _ h.2⟩
    | f, σ, lc, .fnDef _ _ _ (.mk _ _) none (some i) _, _, _, h => by
        simp only [lokB, Bool.and_eq_true] at h
        simp only [sokB, Bool.and_eq_true]
        exact ⟨base_of_L root facts hc h.1.1, other_rule_none root facts _⟩
    | f, σ, lc, .ret (some e) (some i) _, _, _, h => by
        simp only [lokB, Bool.and_eq_true] at h
        simp only [sokB, Bool.and_eq_true]
        exact ⟨base_of_L root facts hc h.1.1, other_rule_none root facts _⟩
    | f, σ, lc, .ret none (some i) _, _, _, h => by
        simp only [lokB, Bool.and_eq_true] at h
        simp only [sokB, Bool.and_eq_true]
        exact ⟨base_of_L root facts hc h.1.1, other_rule_none root facts _⟩
    | f, σ, lc, .brk (some i) _, _, _, h => by
        simp only [lokB, Bool.and_eq_true] at h
        simp only [sokB, Bool.and_eq_true]
        exact ⟨base_of_L root facts hc h.1.1, other_rule_none root facts _⟩
    | f, σ, lc, .cont (some i) _, _, _, h => by
        simp only [lokB, Bool.and_eq_true] at h
        simp only [sokB, Bool.and_eq_true]
        exact ⟨base_of_L root facts hc h.1.1, other_rule_none root facts _⟩
    | f, σ, lc, .expr e (some i) _, _, _, h => by
        simp only [lokB, Bool.and_eq_true] at h
        simp only [sokB, Bool.and_eq_true]
        exact ⟨base_of_L root facts hc h.1.1, other_rule_none root facts _⟩
    | f, σ, lc, .fnDef _ _ ps (.mk body _) (some g) none _, _, _, h => by
        simp only [lokB, Bool.and_eq_true] at h
        simp only [sokB]
        exact sokList_of_lok hc g _ _ body _ h.2
    | _, _, _, .assign _ _ _ _ none _, _, _, _ => by simp only [sokB]
    | _, _, _, .assignExisting _ _ _ _ none _, _, _, _ => by simp only [sokB]
    | _, _, _, .assignIndex _ _ none _, _, _, _ => by simp only [sokB]
    | _, _, _, .ifS _ (.mk _ _) none none _, _, _, _ => by simp only [sokB]
    | _, _, _, .ifS _ (.mk _ _) (some (.mk _ _)) none _, _, _, _ => by simp only [sokB]
    | _, _, _, .loop _ (.mk _ _) none _, _, _, _ => by simp only [sokB]
    | _, _, _, .block (.mk _ _) none _, _, _, _ => by simp only [sokB]
    | _, _, _, .fnDef _ _ _ (.mk _ _) none none _, _, _, _ => by simp only [sokB]
    | _, _, _, .ret (some _) none _, _, _, _ => by simp only [sokB]
    | _, _, _, .ret none none _, _, _, _ => by simp only [sokB]
    | _, _, _, .brk none _, _, _, _ => by simp only [sokB]
    | _, _, _, .cont none _, _, _, _ => by simp only [sokB]
    | _, _, _, .expr _ none _, _, _, _ => by simp only [sokB]
  theorem sokList_of_lok {L : LSetup} (hc : L.c = mkCtx root facts) : ∀ (f : Nat) (σ : List (Option Nat)) (lc : LoopCtx)
      (ss : List Stmt) (post : LS), lokListB L f σ lc ss post = true →
      sokListB (S0 root facts) (fun _ _ => false) f ss = true
    | _, _, _, [], _, _ => by simp [sokListB]
    | f, σ, lc, s :: ss, post, h => by
        simp only [lokListB, Bool.and_eq_true] at h
        simp only [sokListB, Bool.and_eq_true]
        exact ⟨sok_of_lok hc f σ lc s _ ss h.1, sokList_of_lok hc f σ lc ss post h.2⟩
end

/-- `structOkB` contains the two facts conditions of `analysis_plan_reach`. -/
theorem own_of_struct (h : structOkB root facts = true) :
    ownOkB root facts = true ∧ (mkCtx root facts).brClosed = true := by
  simp only [structOkB, globalOkB, rootOkB, Bool.and_eq_true] at h
  exact ⟨sokList_of_lok root facts rfl 0 _ _ root.stmts _ h.2.2, h.1.2.1.1.1.1⟩

/-- **The plan of the analysis model keeps what reachable code calls**, under the hypothesis of C03's
`c03_full_holds`. -/
theorem analysis_plan_reach_struct (hnum : numBlock root = true) (h : structOkB root facts = true) :
    KeptReach (brK root facts) (modelPlan root facts) root :=
  analysis_plan_reach root facts hnum (own_of_struct root facts h).1 (own_of_struct root facts h).2

end

end NaijaVerif.Bridge
