/-
Lemmas for C13, part 1: occurrences, the reference search, `memchr`, and the loops of `tw::find`.
-/
import NaijaVerif.Model.Strs
import NaijaVerif.Spec.Strs

namespace NaijaVerif.Strs
open NaijaVerif

/-! ### occurrences -/

theorem occ_getElem {h n : Bytes} {s c : Nat} (ho : OccAt h n s) (hc : c < n.length) :
    h[s + c]? = n[c]? := by
  obtain ⟨t, ht⟩ := ho
  have : (h.drop s)[c]? = (n ++ t)[c]? := by rw [ht]
  rw [List.getElem?_drop] at this
  rw [this, List.getElem?_append_left hc]

theorem occ_len {h n : Bytes} {s : Nat} (ho : OccAt h n s) (hn : n ≠ []) :
    s + n.length ≤ h.length := by
  have h1 : n.length ≤ (h.drop s).length := ho.length_le
  have h2 : 0 < n.length := List.length_pos_iff.mpr hn
  simp at h1; omega

theorem occ_iff_take {h n : Bytes} {s : Nat} :
    OccAt h n s ↔ (h.drop s).take n.length = n := by
  unfold OccAt
  rw [List.prefix_iff_eq_take]
  exact eq_comm

theorem occ_zero_nil (h : Bytes) : OccAt h [] 0 := by simp [OccAt]

/-! ### the reference search meets its specification -/

theorem firstOcc_isFirst (h n : Bytes) : IsFirstOcc h n (firstOcc h n) := by
  induction h with
  | nil =>
    unfold firstOcc
    split
    · next he =>
      have : n = [] := by simpa using he
      subst this
      exact ⟨by simp [OccAt], by intro j hj; omega⟩
    · next he =>
      intro j ho
      have : n = [] := by simpa [OccAt] using ho
      simp [this] at he
  | cons a h ih =>
    unfold firstOcc
    split
    · next hp =>
      refine ⟨?_, by intro j hj; omega⟩
      simpa [OccAt] using hp
    · next hp =>
      have h0 : ¬ OccAt (a :: h) n 0 := by simpa [OccAt] using hp
      cases hf : firstOcc h n with
      | none =>
        rw [hf] at ih
        intro j
        cases j with
        | zero => exact h0
        | succ j => simpa [OccAt] using ih j
      | some i =>
        rw [hf] at ih
        refine ⟨by simpa [OccAt] using ih.1, ?_⟩
        intro j hj
        cases j with
        | zero => exact h0
        | succ j =>
          have := ih.2 j (by simp at hj; omega)
          simpa [OccAt] using this

theorem isFirstOcc_unique {h n : Bytes} {r r' : Option Nat}
    (h1 : IsFirstOcc h n r) (h2 : IsFirstOcc h n r') : r = r' := by
  cases r with
  | none =>
    cases r' with
    | none => rfl
    | some i => exact absurd h2.1 (h1 i)
  | some i =>
    cases r' with
    | none => exact absurd h1.1 (h2 i)
    | some j =>
      have a : ¬ j < i := fun hlt => h1.2 j hlt h2.1
      have b : ¬ i < j := fun hlt => h2.2 i hlt h1.1
      have : i = j := by omega
      rw [this]

theorem isFirstOcc_eq {h n : Bytes} {r : Option Nat} (h1 : IsFirstOcc h n r) : r = firstOcc h n :=
  isFirstOcc_unique h1 (firstOcc_isFirst h n)

theorem firstOcc_bound {h n : Bytes} {i : Nat} (hn : n ≠ []) (hf : firstOcc h n = some i) :
    i + n.length ≤ h.length := by
  have := firstOcc_isFirst h n
  rw [hf] at this
  exact occ_len this.1 hn

/-! ### `memchrRef` satisfies `MemchrSpec` -/

theorem memchrRef_spec : MemchrSpec memchrRef := by
  constructor
  · intro b h o
    unfold memchrRef
    split
    · next k hk =>
      have := List.findIdx?_eq_some_iff_getElem.mp hk
      obtain ⟨hlt, _⟩ := this
      simp at hlt; omega
    · omega
  · intro b h o ho
    unfold memchrRef
    split <;> omega
  · intro b h o hlt
    unfold memchrRef at hlt ⊢
    split
    · next k hk =>
      obtain ⟨hk1, hk2, _⟩ := List.findIdx?_eq_some_iff_getElem.mp hk
      have : (h.drop o)[k]? = some b := by
        rw [List.getElem?_eq_getElem hk1]
        simp at hk2
        simp [hk2]
      rwa [List.getElem?_drop] at this
    · next hk => rw [hk] at hlt; simp at hlt
  · intro b h o i hoi hlt
    unfold memchrRef at hlt
    split at hlt
    · next k hk =>
      obtain ⟨hk1, _, hk3⟩ := List.findIdx?_eq_some_iff_getElem.mp hk
      have hik : i - o < k := by omega
      have := hk3 (i - o) hik
      intro hc
      have h2 : (h.drop o)[i - o]? = some b := by
        rw [List.getElem?_drop]
        have : o + (i - o) = i := by omega
        rw [this]; exact hc
      have hlt' : i - o < (h.drop o).length := by omega
      rw [List.getElem?_eq_getElem hlt'] at h2
      simp at h2
      simp [h2] at this
    · next hk =>
      have := List.findIdx?_eq_none_iff.mp hk
      intro hc
      have h2 : (h.drop o)[i - o]? = some b := by
        rw [List.getElem?_drop]
        have : o + (i - o) = i := by omega
        rw [this]; exact hc
      have hmem : b ∈ h.drop o := List.mem_of_getElem? h2
      have := this b hmem
      simp at this

/-! ### slices -/

theorem slice?_ok {h : Bytes} {i j : Nat} (hij : i ≤ j) (hj : j ≤ h.length) :
    slice? h i j = .ok ((h.drop i).take (j - i)) := by
  simp [slice?, hij, hj]

/-- The guarded comparison `index + nlen <= hlen && &h[index..index + nlen] == n` is the
occurrence test. -/
theorem slice_cmp_iff {h n : Bytes} {s : Nat} (_hs : s + n.length ≤ h.length) :
    (((h.drop s).take (s + n.length - s)) == n) = true ↔ OccAt h n s := by
  have : s + n.length - s = n.length := by omega
  rw [this, occ_iff_take]
  simp

/-! ### the short tiers -/

/-- What a search loop must return. -/
def Correct (h n : Bytes) (r : Except Fail (Option Nat)) : Prop :=
  ∃ o, r = .ok o ∧ IsFirstOcc h n o

theorem occ_first {h n : Bytes} {s first : Nat} (hfirst : n[0]? = some first) (ho : OccAt h n s) :
    h[s]? = some first := by
  have hl : 0 < n.length := by
    cases n with
    | nil => simp at hfirst
    | cons => simp
  have := occ_getElem ho hl
  simpa [hfirst] using this

theorem no_occ_between {mc : Nat → Bytes → Nat → Nat} (hmc : MemchrSpec mc) {h n : Bytes}
    {first offset j : Nat} (hfirst : n[0]? = some first) (h1 : offset ≤ j)
    (h2 : j < mc first h offset) : ¬ OccAt h n j := by
  intro ho
  exact hmc.least first h offset j h1 h2 (occ_first hfirst ho)

theorem scanLoop_correct {mc : Nat → Bytes → Nat → Nat} (hmc : MemchrSpec mc) (h n : Bytes)
    (first : Nat) (hfirst : n[0]? = some first) :
    ∀ (fuel offset : Nat), offset ≤ h.length → (∀ s, s < offset → ¬ OccAt h n s) →
      h.length + 1 ≤ fuel + offset → Correct h n (scanLoop mc h n first fuel offset) := by
  have hn : n ≠ [] := by intro hc; simp [hc] at hfirst
  have hnl : 0 < n.length := List.length_pos_iff.mpr hn
  intro fuel
  induction fuel with
  | zero => intro offset hle inv hfuel; omega
  | succ fuel ih =>
    intro offset hle inv hfuel
    rw [scanLoop]
    by_cases hlt : offset < h.length
    · simp only [hlt, if_true]
      have hge := hmc.ge_off first h offset hle
      by_cases hidx : mc first h offset ≥ h.length
      · simp only [hidx, if_true]
        refine ⟨none, rfl, ?_⟩
        intro j ho
        by_cases hj : j < offset
        · exact inv j hj ho
        · have := occ_len ho hn
          have h2 : j < mc first h offset := by omega
          exact no_occ_between hmc hfirst (Nat.le_of_not_lt hj) h2 ho
      · simp only [hidx, if_false]
        have minimal : ∀ j, j < mc first h offset → ¬ OccAt h n j := by
          intro j hj
          by_cases hj' : j < offset
          · exact inv j hj'
          · exact no_occ_between hmc hfirst (Nat.le_of_not_lt hj') hj
        by_cases hfit : mc first h offset + n.length ≤ h.length
        · simp only [hfit, if_true]
          rw [slice?_ok (by omega) hfit]
          simp only
          by_cases hcmp : (((h.drop (mc first h offset)).take
              (mc first h offset + n.length - mc first h offset)) == n) = true
          · simp only [hcmp, if_true]
            exact ⟨some _, rfl, (slice_cmp_iff hfit).mp hcmp, minimal⟩
          · simp only [hcmp]
            apply ih (mc first h offset + 1) (by omega) _ (by omega)
            intro s hs
            by_cases hs' : s < mc first h offset
            · exact minimal s hs'
            · have : s = mc first h offset := by omega
              subst this
              exact fun ho => hcmp ((slice_cmp_iff hfit).mpr ho)
        · simp only [hfit, if_false]
          apply ih (mc first h offset + 1) (by omega) _ (by omega)
          intro s hs
          by_cases hs' : s < mc first h offset
          · exact minimal s hs'
          · have : s = mc first h offset := by omega
            subst this
            exact fun ho => hfit (occ_len ho hn)
    · simp only [hlt, if_false]
      refine ⟨none, rfl, ?_⟩
      intro j ho
      by_cases hj : j < offset
      · exact inv j hj ho
      · have := occ_len ho hn
        omega

/-! ### the long tier -/

theorem occ_anchor {h n : Bytes} {s crit anchor : Nat} (hanchor : n[crit]? = some anchor)
    (ho : OccAt h n s) : h[s + crit]? = some anchor := by
  have hl : crit < n.length := by
    by_cases hc : crit < n.length
    · exact hc
    · rw [List.getElem?_eq_none (by omega)] at hanchor; cases hanchor
  rw [occ_getElem ho hl, hanchor]

theorem longLoop_correct {mc : Nat → Bytes → Nat → Nat} (hmc : MemchrSpec mc) (h n : Bytes)
    (crit anchor : Nat) (hanchor : n[crit]? = some anchor) :
    ∀ (fuel offset : Nat), offset ≤ h.length → (∀ s, s + crit < offset → ¬ OccAt h n s) →
      h.length + 1 ≤ fuel + offset → Correct h n (longLoop mc h n crit anchor fuel offset) := by
  have hcrit : crit < n.length := by
    by_cases hc : crit < n.length
    · exact hc
    · rw [List.getElem?_eq_none (by omega)] at hanchor; cases hanchor
  have hn : n ≠ [] := by intro hc; simp [hc] at hcrit
  intro fuel
  induction fuel with
  | zero => intro offset hle inv hfuel; omega
  | succ fuel ih =>
    intro offset hle inv hfuel
    rw [longLoop]
    have hnc : ¬ n.length < crit := by omega
    simp only [hnc, if_false]
    by_cases hcond : offset + (n.length - crit) ≤ h.length
    · simp only [hcond, if_true]
      have hge := hmc.ge_off anchor h offset hle
      -- no occurrence has its anchor strictly between `offset` and the memchr result
      have between : ∀ s, offset ≤ s + crit → s + crit < mc anchor h offset → ¬ OccAt h n s := by
        intro s h1 h2 ho
        exact hmc.least anchor h offset (s + crit) h1 h2 (occ_anchor hanchor ho)
      have before : ∀ s, s + crit < mc anchor h offset → ¬ OccAt h n s := by
        intro s hs
        by_cases hs' : s + crit < offset
        · exact inv s hs'
        · exact between s (Nat.le_of_not_lt hs') hs
      by_cases hidx : mc anchor h offset ≥ h.length
      · simp only [hidx, if_true]
        refine ⟨none, rfl, ?_⟩
        intro s ho
        have := occ_len ho hn
        exact before s (by omega) ho
      · simp only [hidx, if_false]
        by_cases hlow : mc anchor h offset < crit
        · simp only [hlow, if_true]
          apply ih (mc anchor h offset + 1) (by omega) _ (by omega)
          intro s hs; omega
        · simp only [hlow, if_false]
          have hstart : mc anchor h offset - crit + crit = mc anchor h offset := by omega
          by_cases hfit : mc anchor h offset - crit + n.length ≤ h.length
          · simp only [hfit, if_true]
            rw [slice?_ok (by omega) hfit]
            simp only
            by_cases hcmp : (((h.drop (mc anchor h offset - crit)).take
                (mc anchor h offset - crit + n.length - (mc anchor h offset - crit))) == n) = true
            · simp only [hcmp, if_true]
              refine ⟨some _, rfl, (slice_cmp_iff hfit).mp hcmp, ?_⟩
              intro j hj
              exact before j (by omega)
            · simp only [hcmp]
              apply ih (mc anchor h offset + 1) (by omega) _ (by omega)
              intro s hs
              by_cases hs' : s + crit < mc anchor h offset
              · exact before s hs'
              · have : s = mc anchor h offset - crit := by omega
                subst this
                exact fun ho => hcmp ((slice_cmp_iff hfit).mpr ho)
          · simp only [hfit, if_false]
            apply ih (mc anchor h offset + 1) (by omega) _ (by omega)
            intro s hs
            by_cases hs' : s + crit < mc anchor h offset
            · exact before s hs'
            · have : s = mc anchor h offset - crit := by omega
              subst this
              exact fun ho => hfit (occ_len ho hn)
    · simp only [hcond, if_false]
      refine ⟨none, rfl, ?_⟩
      intro s ho
      have := occ_len ho hn
      exact inv s (by omega) ho

/-! ### `maximal_suffix`: in-range reads, no underflow, termination, `crit < |x|` -/

/-- Loop invariant of `maximal_suffix`. -/
structure MsInv (x : Bytes) (i j k p : Nat) : Prop where
  ij : i < j
  k1 : 1 ≤ k
  kp : k ≤ p
  pj : p ≤ j - i
  jk : j + k ≤ x.length + 1

/-- `maximal_suffix` never reads out of range, never underflows, terminates within the fuel
(`2i + j + k` strictly increases and is below `3|x|`), and returns a position inside `x` and a
period `≥ 1`. -/
theorem maxSufLoop_ok (x : Bytes) (rev : Bool) :
    ∀ (fuel i j k p : Nat), MsInv x i j k p → 3 * x.length + 3 ≤ fuel + (2 * i + j + k) →
      ∃ c q, maxSufLoop x rev fuel i j k p = .ok (c, q) ∧ c < x.length ∧ 1 ≤ q := by
  intro fuel
  induction fuel with
  | zero =>
    intro i j k p inv hf
    have := inv.ij; have := inv.kp; have := inv.pj; have := inv.jk; have := inv.k1
    omega
  | succ fuel ih =>
    intro i j k p inv hf
    have h1 := inv.ij; have h2 := inv.kp; have h3 := inv.pj; have h4 := inv.jk; have h5 := inv.k1
    rw [maxSufLoop]
    by_cases hcond : j + k ≤ x.length
    · simp only [hcond, if_true]
      have hu : ¬ (i + k < 1 ∨ j + k < 1) := by omega
      simp only [hu, if_false]
      have hri : i + k - 1 < x.length := by omega
      have hrj : j + k - 1 < x.length := by omega
      rw [List.getElem?_eq_getElem hri, List.getElem?_eq_getElem hrj]
      simp only
      split
      · have hu2 : ¬ (j + k < i) := by omega
        simp only [hu2, if_false]
        exact ih i (j + k) 1 (j + k - i) ⟨by omega, by omega, by omega, by omega, by omega⟩ (by omega)
      · split
        · split
          · next hkp =>
            have : k = p := by simpa using hkp
            exact ih i (j + p) 1 p ⟨by omega, by omega, by omega, by omega, by omega⟩ (by omega)
          · next hkp =>
            have : k ≠ p := by simpa using hkp
            exact ih i j (k + 1) p ⟨by omega, by omega, by omega, by omega, by omega⟩ (by omega)
        · exact ih j (j + 1) 1 1 ⟨by omega, by omega, by omega, by omega, by omega⟩ (by omega)
    · simp only [hcond, if_false]
      exact ⟨i, p, rfl, by omega, by omega⟩

theorem maximalSuffix_ok (x : Bytes) (rev : Bool) (hx : x ≠ []) :
    ∃ c q, maximalSuffix x rev = .ok (c, q) ∧ c < x.length ∧ 1 ≤ q := by
  have hl : 0 < x.length := List.length_pos_iff.mpr hx
  unfold maximalSuffix maxSufFuel
  exact maxSufLoop_ok x rev _ 0 1 1 1 ⟨by omega, by omega, by omega, by omega, by omega⟩ (by omega)

theorem critPeriod_ok (x : Bytes) (hx : x ≠ []) :
    ∃ c q, critPeriod x = .ok (c, q) ∧ c < x.length ∧ 1 ≤ q := by
  obtain ⟨c1, q1, e1, hc1, hq1⟩ := maximalSuffix_ok x false hx
  obtain ⟨c2, q2, e2, hc2, hq2⟩ := maximalSuffix_ok x true hx
  unfold critPeriod
  rw [e1, e2]
  simp only
  split
  · exact ⟨c1, q1, rfl, hc1, hq1⟩
  · exact ⟨c2, q2, rfl, hc2, hq2⟩

/-! ### `find` -/

theorem findWith_correct {mc : Nat → Bytes → Nat → Nat} (hmc : MemchrSpec mc) (T : Nat)
    (h n : Bytes) : Correct h n (findWith mc T h n) := by
  unfold findWith
  simp only
  by_cases h0 : n.length = 0
  · have : n = [] := List.length_eq_zero_iff.mp h0
    subst this
    simp only [List.length_nil, beq_self_eq_true, if_true]
    exact ⟨some 0, rfl, occ_zero_nil h, by intro j hj; omega⟩
  · have hn : n ≠ [] := by intro hc; simp [hc] at h0
    have hb0 : (n.length == 0) = false := by simpa using h0
    simp only [hb0, Bool.false_eq_true, if_false]
    by_cases hgt : n.length > h.length
    · simp only [hgt, if_true]
      refine ⟨none, rfl, ?_⟩
      intro j ho
      have := occ_len ho hn
      omega
    · simp only [hgt, if_false]
      obtain ⟨first, rest, hnr⟩ : ∃ a r, n = a :: r := by
        cases n with
        | nil => exact absurd rfl hn
        | cons a r => exact ⟨a, r, rfl⟩
      have hfirst : n[0]? = some first := by simp [hnr]
      have hidx0 : idx? n 0 = .ok first := by simp [idx?, hfirst]
      have scan : Correct h n (scanLoop mc h n first (h.length + 1) 0) :=
        scanLoop_correct hmc h n first hfirst (h.length + 1) 0 (by omega)
          (by intro s hs; omega) (by omega)
      by_cases h1 : n.length = 1
      · have hb1 : (n.length == 1) = true := by simpa using h1
        simp only [hb1, if_true, hidx0]
        have hle := hmc.le_len first h 0
        by_cases hlt : mc first h 0 < h.length
        · simp only [hlt, if_true]
          refine ⟨some _, rfl, ?_, ?_⟩
          · have hhit := hmc.hit first h 0 hlt
            have hr : rest = [] := by
              rw [hnr] at h1; simpa using h1
            rw [occ_iff_take, hnr, hr]
            simp only [List.length_cons, List.length_nil, Nat.zero_add]
            rw [List.drop_eq_getElem_cons hlt]
            rw [List.getElem?_eq_getElem hlt] at hhit
            simp at hhit
            simp [hhit]
          · intro j hj
            exact no_occ_between hmc hfirst (Nat.zero_le j) hj
        · simp only [hlt, if_false]
          refine ⟨none, rfl, ?_⟩
          intro j ho
          have := occ_len ho hn
          have h2 : j < mc first h 0 := by omega
          exact no_occ_between hmc hfirst (Nat.zero_le j) h2 ho
      · have hb1 : (n.length == 1) = false := by simpa using h1
        simp only [hb1, Bool.false_eq_true, if_false]
        by_cases h2 : n.length = 2
        · have hb2 : (n.length == 2) = true := by simpa using h2
          simp only [hb2, if_true, hidx0]
          exact scan
        · have hb2 : (n.length == 2) = false := by simpa using h2
          simp only [hb2, Bool.false_eq_true, if_false]
          by_cases hT : n.length ≤ T
          · simp only [hT, if_true, hidx0]
            exact scan
          · simp only [hT, if_false]
            obtain ⟨crit, q, hcp, hcrit, _⟩ := critPeriod_ok n hn
            rw [hcp]
            simp only
            have hanchor : n[crit]? = some n[crit] := List.getElem?_eq_getElem hcrit
            have : idx? n crit = .ok n[crit] := by simp [idx?, hanchor]
            rw [this]
            simp only
            exact longLoop_correct hmc h n crit n[crit] hanchor (h.length + 1) 0 (by omega)
              (by intro s hs; omega) (by omega)

end NaijaVerif.Strs
