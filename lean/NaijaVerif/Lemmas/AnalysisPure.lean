import NaijaVerif.Model.Analysis
import NaijaVerif.Model.AnalysisEval
/-
T2, state half: an expression without user calls, `shout` and mutating methods leaves the state
exactly as it found it, whatever its value or error.
-/
namespace NaijaVerif.C03
open NaijaVerif NaijaVerif.Analysis NaijaVerif.AEval

variable {V : Type}

mutual
  /-- No user call, no `shout`, no mutating method anywhere in the expression. -/
  def effectFree (P : Prims V) : Expr → Bool
    | .call (.var name _ _) args _ _ => P.isGlobal name && !P.isShout name && effectFreeList P args
    | .call (.member o field _ _) args _ _ => !P.isMut field && effectFree P o && effectFreeList P args
    | .call _ args _ _ => effectFreeList P args
    | .binary _ l r _ => effectFree P l && effectFree P r
    | .index a i _ _ => effectFree P a && effectFree P i
    | .array es _ => effectFreeList P es
    | .unary _ e _ => effectFree P e
    | .member o _ _ _ => effectFree P o
    | .str _ _ | .num _ _ | .var _ _ _ | .bool _ _ | .null _ => true
  def effectFreeList (P : Prims V) : List Expr → Bool
    | [] => true
    | e :: es => effectFree P e && effectFreeList P es
end

structure Pure (P : Prims V) (cfg : Cfg) (n : Nat) : Prop where
  expr : ∀ (e : Expr) (st : St V), effectFree P e = true → (evalExpr P cfg n e st).2 = st
  list : ∀ (es : List Expr) (st : St V), effectFreeList P es = true → (evalList P cfg n es st).2 = st

theorem finishNode_state (P : Prims V) (e : Expr) : ∀ r : R V (List V), (finishNode P e r).2 = r.2
  | (.error _, _) => rfl
  | (.ok vs, st1) => by
      simp only [finishNode]
      split <;> rfl

section
variable {P : Prims V} {cfg : Cfg} {n : Nat}

theorem pure_list (ih : Pure P cfg n) : ∀ (es : List Expr) (st : St V), effectFreeList P es = true →
    (evalList P cfg (n + 1) es st).2 = st
  | [], st, _ => by simp [evalList]
  | e :: es, st, h => by
      simp only [effectFreeList, Bool.and_eq_true] at h
      have h1 := ih.expr e st h.1
      simp only [evalList]
      generalize evalExpr P cfg n e st = r at h1 ⊢
      obtain ⟨r1, st1⟩ := r
      simp only at h1
      subst h1
      cases r1 with
      | error er => rfl
      | ok v =>
        have h2 := ih.list es st1 h.2
        simp only []
        generalize evalList P cfg n es st1 = r2 at h2 ⊢
        obtain ⟨r21, st2⟩ := r2
        simp only at h2
        subst h2
        cases r21 <;> rfl

theorem pure_generic (ih : Pure P cfg n) (e : Expr) (st : St V) (h : effectFreeList P (children e) = true) :
    (finishNode P e (evalList P cfg n (children e) st)).2 = st := by
  rw [finishNode_state]
  exact ih.list _ st h

theorem pure_logic (ih : Pure P cfg n) (l r : Expr) (st : St V) (hl : effectFree P l = true)
    (hr : effectFree P r = true) (stop : V → Bool) (short : V) :
    (match evalExpr P cfg n l st with
      | (.error e, st1) => ((.error e, st1) : R V V)
      | (.ok lv, st1) =>
          if stop lv then (.ok short, st1) else
          match evalExpr P cfg n r st1 with
          | (.error e, st2) => (.error e, st2)
          | (.ok rv, st2) => (P.logicRhs rv, st2)).2 = st := by
  have h1 := ih.expr l st hl
  generalize evalExpr P cfg n l st = r1 at h1 ⊢
  obtain ⟨r11, st1⟩ := r1
  simp only at h1
  subst h1
  cases r11 with
  | error er => rfl
  | ok lv =>
    simp only []
    cases stop lv with
    | true => rfl
    | false =>
      have h2 := ih.expr r st1 hr
      simp only [Bool.false_eq_true, ↓reduceIte]
      generalize evalExpr P cfg n r st1 = r2 at h2 ⊢
      obtain ⟨r21, st2⟩ := r2
      simp only at h2
      subst h2
      cases r21 <;> rfl

theorem effectFree_mem : ∀ (es : List Expr), effectFreeList P es = true → ∀ e ∈ es, effectFree P e = true
  | [], _, _, he => by cases he
  | x :: xs, h, e, he => by
      simp only [effectFreeList, Bool.and_eq_true] at h
      rcases List.mem_cons.mp he with rfl | he
      · exact h.1
      · exact effectFree_mem xs h.2 e he

/-- Evaluating selected, effect-free expressions with checks leaves the state alone. -/
theorem pure_checked (ih : Pure P cfg n) (miss : Err) : ∀ (items : List (Option Expr × (V → Except Err V))) (st : St V),
    (∀ e chk, (some e, chk) ∈ items → effectFree P e = true) →
    (evalChecked (evalExpr P cfg n) miss items st).2 = st
  | [], st, _ => rfl
  | (none, _) :: _, st, _ => rfl
  | (some e, chk) :: rest, st, h => by
      simp only [evalChecked]
      have h1 := ih.expr e st (h e chk (by simp))
      generalize evalExpr P cfg n e st = r at h1 ⊢
      obtain ⟨x, st1⟩ := r
      simp only at h1
      subst h1
      cases x with
      | error er => rfl
      | ok v =>
        simp only []
        cases chk v with
        | error er => rfl
        | ok v' =>
          simp only []
          have h2 := pure_checked ih miss rest st1 (fun e' c' hm => h e' c' (List.mem_cons_of_mem _ hm))
          generalize evalChecked (evalExpr P cfg n) miss rest st1 = r2 at h2 ⊢
          obtain ⟨y, st2⟩ := r2
          simp only at h2
          subst h2
          cases y <;> rfl

theorem selArgs_mem {args : List Expr} {idx : List Nat} {e : Expr} {chk : V → Except Err V}
    (h : (some e, chk) ∈ selArgs (V := V) args idx) : e ∈ args := by
  simp only [selArgs, List.mem_map, Prod.mk.injEq] at h
  obtain ⟨i, _, hi, _⟩ := h
  exact List.mem_of_getElem? hi

theorem pure_expr (ih : Pure P cfg n) : ∀ (e : Expr) (st : St V), effectFree P e = true →
    (evalExpr P cfg (n + 1) e st).2 = st
  | .var _ b _, st, _ => by
      simp only [evalExpr]
      split <;> rfl
  | .binary .and l r _, st, h => by
      simp only [effectFree, Bool.and_eq_true] at h
      simp only [evalExpr]
      exact pure_logic ih l r st h.1 h.2 P.falsy (P.logicShort .and)
  | .binary .or l r _, st, h => by
      simp only [effectFree, Bool.and_eq_true] at h
      simp only [evalExpr]
      exact pure_logic ih l r st h.1 h.2 P.truthy (P.logicShort .or)
  | .binary .add l r sp, st, h | .binary .minus l r sp, st, h | .binary .times l r sp, st, h
  | .binary .divide l r sp, st, h | .binary .mod l r sp, st, h | .binary .eq l r sp, st, h
  | .binary .gt l r sp, st, h | .binary .lt l r sp, st, h => by
      simp only [effectFree, Bool.and_eq_true] at h
      simp only [evalExpr]
      exact pure_generic ih _ st (by simp [children, effectFreeList, h.1, h.2])
  | .index a i s1 s2, st, h => by
      simp only [effectFree, Bool.and_eq_true] at h
      simp only [evalExpr]
      exact pure_generic ih _ st (by simp [children, effectFreeList, h.1, h.2])
  | .str p sp, st, _ => by simp only [evalExpr]; exact pure_generic ih _ st (by simp [children, effectFreeList])
  | .num l sp, st, _ => by simp only [evalExpr]; exact pure_generic ih _ st (by simp [children, effectFreeList])
  | .bool b sp, st, _ => by simp only [evalExpr]; exact pure_generic ih _ st (by simp [children, effectFreeList])
  | .null sp, st, _ => by simp only [evalExpr]; exact pure_generic ih _ st (by simp [children, effectFreeList])
  | .array es sp, st, h => by
      simp only [effectFree] at h
      simp only [evalExpr]
      exact pure_generic ih _ st (by simpa [children] using h)
  | .unary op x sp, st, h => by
      simp only [effectFree] at h
      simp only [evalExpr]
      exact pure_generic ih _ st (by simp [children, effectFreeList, h])
  | .member o f s1 s2, st, _ => by
      simp only [evalExpr]
      exact pure_generic ih _ st (by simp [children, effectFreeList])
  | .call (.var name _ _) args fn _, st, h => by
      simp only [effectFree, Bool.and_eq_true, Bool.not_eq_true'] at h
      simp only [evalExpr, h.1.1, h.1.2, ↓reduceIte]
      have h1 := ih.list args st h.2
      generalize evalList P cfg n args st = r at h1 ⊢
      obtain ⟨r1, st1⟩ := r
      simp only at h1
      subst h1
      cases r1 <;> simp
  | .call (.member o field fs sp) args fn sp2, st, h => by
      simp only [effectFree, Bool.and_eq_true, Bool.not_eq_true'] at h
      simp only [evalExpr, h.1.1, Bool.false_eq_true, ↓reduceIte]
      have h1 := ih.expr o st h.1.2
      generalize evalExpr P cfg n o st = r at h1 ⊢
      obtain ⟨r1, st1⟩ := r
      simp only at h1
      subst h1
      cases r1 with
      | error er => rfl
      | ok recv =>
        simp only []
        cases P.memberSel field recv with
        | error er => rfl
        | ok idx =>
          simp only []
          have h2 := pure_checked ih P.argMissing (selArgs args idx) st1
            (fun e chk hm => effectFree_mem args h.2 e (selArgs_mem hm))
          generalize evalChecked (evalExpr P cfg n) P.argMissing (selArgs args idx) st1 = r2 at h2 ⊢
          obtain ⟨r21, st2⟩ := r2
          simp only at h2
          subst h2
          cases r21 <;> rfl
  | .call (.index a i s1 s2) args fn sp, st, _ | .call (.str _ _) args fn sp, st, _
  | .call (.num _ _) args fn sp, st, _ | .call (.binary _ _ _ _) args fn sp, st, _
  | .call (.call _ _ _ _) args fn sp, st, _ | .call (.array _ _) args fn sp, st, _
  | .call (.unary _ _ _) args fn sp, st, _ | .call (.bool _ _) args fn sp, st, _
  | .call (.null _) args fn sp, st, _ => by
      simp only [evalExpr]
      exact pure_generic ih _ st (by simp [children, effectFreeList])

end

theorem pure_all (P : Prims V) (cfg : Cfg) : ∀ n, Pure P cfg n
  | 0 => ⟨fun e st _ => by simp [evalExpr], fun es st _ => by simp [evalList]⟩
  | n + 1 => ⟨pure_expr (pure_all P cfg n), pure_list (pure_all P cfg n)⟩


/-! ### From the effect class to effect freedom -/

mutual
  /-- No call of a user function (the class of those is joined per statement from the summaries). -/
  def noUserCall : Expr → Bool
    | .call (.var _ _ _) args fn _ => fn.isNone && noUserCallList args
    | .call (.member o _ _ _) args _ _ => noUserCall o && noUserCallList args
    | .call _ args _ _ => noUserCallList args
    | .binary _ l r _ => noUserCall l && noUserCall r
    | .index a i _ _ => noUserCall a && noUserCall i
    | .array es _ => noUserCallList es
    | .unary _ e _ => noUserCall e
    | .member o _ _ _ => noUserCall o
    | .str _ _ | .num _ _ | .var _ _ _ | .bool _ _ | .null _ => true
  def noUserCallList : List Expr → Bool
    | [] => true
    | e :: es => noUserCall e && noUserCallList es
end

/-- The primitive semantics dispatches builtins as the effect tables of the analysis assume:
global builtins are exactly the named ones, `shout` and the mutating methods are `Impure`. -/
structure TablesAgree (P : Prims V) : Prop where
  global_iff : ∀ name, P.isGlobal name = (globalClass name).isSome
  shout_impure : ∀ name, P.isShout name = true → globalClass name = some .impure
  mut_impure : ∀ f, P.isMut f = true → memberClass f = some .impure

theorem join_ne_impure {a b : ExprClass} (h : a.join b ≠ .impure) : a ≠ .impure ∧ b ≠ .impure := by
  cases a <;> cases b <;> simp_all [ExprClass.join]

theorem ite_join_ne {c : Prop} [Decidable c] {a : ExprClass}
    (h : (if c then a.join .pureMayTrap else a) ≠ .impure) : a ≠ .impure := by
  split at h
  · exact (join_ne_impure h).1
  · exact h

mutual
  theorem effectFree_of_class {P : Prims V} (ha : TablesAgree P) (capt : Nat → Bool) : ∀ e : Expr,
      classify capt e ≠ .impure → noUserCall e = true → effectFree P e = true
    | .str _ _, _, _ | .num _ _, _, _ | .var _ _ _, _, _ | .bool _ _, _, _ | .null _, _, _ => by simp [effectFree]
    | .array es _, hc, hn => by
        simp only [classify] at hc
        simp only [noUserCall] at hn
        simpa [effectFree] using effectFreeList_of_class ha capt es hc hn
    | .index a i _ _, hc, hn => by
        simp only [classify] at hc
        simp only [noUserCall, Bool.and_eq_true] at hn
        have h1 := join_ne_impure (join_ne_impure hc).1
        simp [effectFree, effectFree_of_class ha capt a h1.1 hn.1, effectFree_of_class ha capt i h1.2 hn.2]
    | .binary op l r s, hc, hn => by
        simp only [classify] at hc
        simp only [noUserCall, Bool.and_eq_true] at hn
        have h1 := join_ne_impure (ite_join_ne hc)
        simp [effectFree, effectFree_of_class ha capt l h1.1 hn.1, effectFree_of_class ha capt r h1.2 hn.2]
    | .unary op x s, hc, hn => by
        simp only [classify] at hc
        simp only [noUserCall] at hn
        simp [effectFree, effectFree_of_class ha capt x (ite_join_ne hc) hn]
    | .member o _ _ _, hc, hn => by
        simp only [classify] at hc
        simp only [noUserCall] at hn
        simp [effectFree, effectFree_of_class ha capt o (join_ne_impure hc).1 hn]
    | .call (.var name _ _) args fn _, hc, hn => by
        simp only [classify] at hc
        simp only [noUserCall, Bool.and_eq_true] at hn
        cases hg : globalClass name with
        | none =>
          rw [hg] at hc
          simp only [Option.isSome] at hc
          cases fn with
          | none => simp [ExprClass.join] at hc; cases h : classifyList capt args <;> simp_all
          | some f => simp at hn
        | some gc =>
          rw [hg] at hc
          have h1 := join_ne_impure (ite_join_ne hc)
          have hgl : P.isGlobal name = true := by rw [ha.global_iff, hg]; rfl
          have hsh : P.isShout name = false := by
            cases hs : P.isShout name with
            | false => rfl
            | true =>
              have := ha.shout_impure name hs
              rw [hg] at this
              cases this
              exact absurd rfl h1.2
          simp [effectFree, hgl, hsh, effectFreeList_of_class ha capt args h1.1 hn.2]
    | .call (.member o field _ _) args _ _, hc, hn => by
        simp only [classify] at hc
        simp only [noUserCall, Bool.and_eq_true] at hn
        cases hm : memberClass field with
        | none =>
          rw [hm] at hc
          exact absurd rfl (join_ne_impure hc).2
        | some mc =>
          rw [hm] at hc
          have h1 := join_ne_impure hc
          have h2 := join_ne_impure (join_ne_impure h1.1).1
          have hmu : P.isMut field = false := by
            cases hs : P.isMut field with
            | false => rfl
            | true =>
              have := ha.mut_impure field hs
              rw [hm] at this
              cases this
              exact absurd rfl h1.2
          simp [effectFree, hmu, effectFree_of_class ha capt o h2.2 hn.1, effectFreeList_of_class ha capt args h2.1 hn.2]
    | .call (.index _ _ _ _) args _ _, hc, _ | .call (.str _ _) args _ _, hc, _ | .call (.num _ _) args _ _, hc, _
    | .call (.binary _ _ _ _) args _ _, hc, _ | .call (.call _ _ _ _) args _ _, hc, _
    | .call (.array _ _) args _ _, hc, _ | .call (.unary _ _ _) args _ _, hc, _
    | .call (.bool _ _) args _ _, hc, _ | .call (.null _) args _ _, hc, _ => by
        simp only [classify] at hc
        exact absurd rfl (join_ne_impure hc).2
  theorem effectFreeList_of_class {P : Prims V} (ha : TablesAgree P) (capt : Nat → Bool) : ∀ es : List Expr,
      classifyList capt es ≠ .impure → noUserCallList es = true → effectFreeList P es = true
    | [], _, _ => by simp [effectFreeList]
    | e :: es, hc, hn => by
        simp only [classifyList] at hc
        simp only [noUserCallList, Bool.and_eq_true] at hn
        have h1 := join_ne_impure hc
        simp [effectFreeList, effectFree_of_class ha capt e h1.1 hn.1, effectFreeList_of_class ha capt es h1.2 hn.2]
end

end NaijaVerif.C03
