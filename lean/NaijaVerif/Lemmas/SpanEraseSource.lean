import NaijaVerif.Lemmas.BridgeOk
import NaijaVerif.Lemmas.SpanEraseEval
import NaijaVerif.Lemmas.AnalysisBridge
/-
Two small span-independence facts used to compose C01 (text ↔ tree) with C03 (plan ↔ no plan):

* the guarantees of scanner and parser about the checker's input (`Bridge.srcBlock`: the shape of the
  number lexemes, index assignments have an index) do not read spans (`srcBlock_erase`);
* the observation `C03.evalObs` of a run (printed values, ending, runtime-error kind) is what
  `SpanErase.eraseOutcome` keeps: two outcomes equal up to the position of a runtime error have the same
  observation (`evalObs_eraseOutcome`, `evalObs_congr`).
-/
namespace NaijaVerif.SpanErase
open NaijaVerif NaijaVerif.Parse NaijaVerif.Bridge

theorem isIndexExpr_erase : ∀ e : Expr, isIndexExpr (eraseExpr e) = isIndexExpr e
  | .index _ _ _ _ => by simp [eraseExpr, isIndexExpr]
  | .str _ _ | .num _ _ | .var _ _ _ | .binary _ _ _ _ | .call _ _ _ _ | .array _ _ | .unary _ _ _
  | .bool _ _ | .member _ _ _ _ | .null _ => by simp [eraseExpr, isIndexExpr]

mutual
  theorem srcExpr_erase (C : SCfg) : ∀ e : Expr, srcExpr C (eraseExpr e) = srcExpr C e
    | .num _ _ | .bool _ _ | .null _ | .str _ _ | .var _ _ _ => by simp [eraseExpr, srcExpr]
    | .binary _ l r _ => by simp [eraseExpr, srcExpr, srcExpr_erase C l, srcExpr_erase C r]
    | .unary _ x _ => by simp [eraseExpr, srcExpr, srcExpr_erase C x]
    | .array es _ => by simp [eraseExpr, srcExpr, srcExprs_erase C es]
    | .index a i _ _ => by simp [eraseExpr, srcExpr, srcExpr_erase C a, srcExpr_erase C i]
    | .member o _ _ _ => by simp [eraseExpr, srcExpr, srcExpr_erase C o]
    | .call c args _ _ => by simp [eraseExpr, srcExpr, srcExpr_erase C c, srcExprs_erase C args]
  theorem srcExprs_erase (C : SCfg) : ∀ es : List Expr, srcExprs C (eraseExprs es) = srcExprs C es
    | [] => by simp [eraseExprs, srcExprs]
    | e :: es => by simp [eraseExprs, srcExprs, srcExpr_erase C e, srcExprs_erase C es]
end

mutual
  theorem srcStmt_erase (C : SCfg) : ∀ s : Stmt, srcStmt C (eraseStmt s) = srcStmt C s
    | .assign _ _ e _ _ _ => by simp [eraseStmt, srcStmt, srcExpr_erase C e]
    | .assignExisting _ _ e _ _ _ => by simp [eraseStmt, srcStmt, srcExpr_erase C e]
    | .assignIndex t e _ _ => by
        simp [eraseStmt, srcStmt, srcExpr_erase C t, srcExpr_erase C e, isIndexExpr_erase t]
    | .ifS c t none _ _ => by simp [eraseStmt, srcStmt, srcOptBlock, srcExpr_erase C c, srcBlock_erase C t]
    | .ifS c t (some e) _ _ => by
        simp [eraseStmt, srcStmt, srcOptBlock, srcExpr_erase C c, srcBlock_erase C t, srcBlock_erase C e]
    | .loop c b _ _ => by simp [eraseStmt, srcStmt, srcExpr_erase C c, srcBlock_erase C b]
    | .block b _ _ => by simp [eraseStmt, srcStmt, srcBlock_erase C b]
    | .fnDef _ _ _ body _ _ _ => by simp [eraseStmt, srcStmt, srcBlock_erase C body]
    | .ret (some e) _ _ => by simp [eraseStmt, srcStmt, srcExpr_erase C e]
    | .ret none _ _ => by simp [eraseStmt, srcStmt]
    | .brk _ _ => by simp [eraseStmt, srcStmt]
    | .cont _ _ => by simp [eraseStmt, srcStmt]
    | .expr e _ _ => by simp [eraseStmt, srcStmt, srcExpr_erase C e]
  theorem srcStmts_erase (C : SCfg) : ∀ ss : List Stmt, srcStmts C (eraseStmts ss) = srcStmts C ss
    | [] => by simp [eraseStmts, srcStmts]
    | s :: rest => by simp [eraseStmts, srcStmts, srcStmt_erase C s, srcStmts_erase C rest]
  /-- **The scanner / parser guarantees do not read spans.** -/
  theorem srcBlock_erase (C : SCfg) : ∀ b : Block, srcBlock C (eraseBlock b) = srcBlock C b
    | .mk ss _ => by simp [eraseBlock, srcBlock, srcStmts_erase C ss]
end

/-- Two trees equal up to spans satisfy the scanner / parser guarantees alike. -/
theorem srcBlock_congr_erase (C : SCfg) {b b' : Block} (h : eraseSpans b = eraseSpans b') :
    srcBlock C b = srcBlock C b' := by
  rw [← srcBlock_erase C b, ← srcBlock_erase C b']
  exact congrArg _ h

section Obs
variable {N : Type}

/-- The observation of a run is what `eraseOutcome` keeps. -/
theorem evalObs_eraseOutcome (o : Eval.Outcome N) : C03.evalObs (eraseOutcome o) = C03.evalObs o := by
  cases o <;> rfl

/-- Outcomes equal up to the position of a runtime error have the same observation. -/
theorem evalObs_congr {o o' : Eval.Outcome N} (h : eraseOutcome o = eraseOutcome o') :
    C03.evalObs o = C03.evalObs o' := by
  rw [← evalObs_eraseOutcome o, ← evalObs_eraseOutcome o', h]

theorem isPanic_eraseOutcome (o : Eval.Outcome N) : (eraseOutcome o).isPanic = o.isPanic := by
  cases o <;> rfl

end Obs

end NaijaVerif.SpanErase
