import NaijaVerif.Lemmas.BridgeOk
import NaijaVerif.Model.Lex
import NaijaVerif.Model.Parse
/-
Bridge resolver → evaluator, part 7: the two guarantees of scanner and parser that the evaluator's
residual sites `numLit` and `assignIndexEmpty` rely on, proved from the lexer and parser MODELS.

* Scanner: the lexeme of every `Token::Number` the lexer model emits is `digits` or `digits.digits`
  (`isNumLexeme`) — `lex_numbers`.
* Parser: every number node of the parser model's output carries the lexeme of a number token of
  its input, or the placeholder `0` of the error recovery; and an index-assignment statement is only
  built for a target that is an index expression (`finishAssign`) — `parse_source_ok`.
Hence `Bridge.srcBlock ⟨_, isNumLexeme, true, _⟩` holds of `parseProgram (lex src).1` for every text.
-/
namespace NaijaVerif.Bridge
open NaijaVerif

/-- `digits` or `digits.digits`, both parts non-empty: what `scan_number` validates. -/
def isNumLexeme (lx : Bytes) : Bool :=
  !(lx.takeWhile Lex.isDigit).isEmpty &&
    (match lx.dropWhile Lex.isDigit with
     | [] => true
     | 46 :: fp => !fp.isEmpty && fp.all Lex.isDigit
     | _ => false)

/-- A number token carries a lexeme satisfying `P`. -/
def TokOk (P : Bytes → Bool) : Tok → Prop
  | .num lx => P lx = true
  | _ => True

def isNumTok : Tok → Bool
  | .num _ => true
  | _ => false

theorem tokOk_of_not_num {P : Bytes → Bool} {t : Tok} (h : isNumTok t = false) : TokOk P t := by
  cases t <;> first | trivial | (simp [isNumTok] at h)

/-! ### The scanner -/

theorem takeWhile_all {p : Nat → Bool} : ∀ (l : List Nat), ∀ x ∈ l.takeWhile p, p x = true
  | [], _, h => by cases h
  | a :: l, x, h => by
      simp only [List.takeWhile_cons] at h
      split at h
      · rcases List.mem_cons.1 h with rfl | h
        · assumption
        · exact takeWhile_all l x h
      · cases h

theorem takeWhile_app {p : Nat → Bool} : ∀ (l r : List Nat), (∀ x ∈ l, p x = true) →
    (l ++ r).takeWhile p = l ++ r.takeWhile p ∧ (l ++ r).dropWhile p = r.dropWhile p
  | [], r, _ => ⟨rfl, rfl⟩
  | a :: l, r, h => by
      have ha : p a = true := h a List.mem_cons_self
      have ih := takeWhile_app l r (fun x hx => h x (List.mem_cons_of_mem _ hx))
      simp only [List.cons_append, List.takeWhile_cons, List.dropWhile_cons, ha, if_true]
      exact ⟨by rw [ih.1], ih.2⟩

theorem isNumLexeme_int {d : Bytes} (hne : d ≠ []) (hd : ∀ x ∈ d, Lex.isDigit x = true) : isNumLexeme d = true := by
  have h := takeWhile_app d [] hd
  simp only [List.append_nil, List.takeWhile_nil, List.dropWhile_nil] at h
  simp only [isNumLexeme, h.1, h.2]
  cases d with
  | nil => exact absurd rfl hne
  | cons _ _ => rfl

theorem isNumLexeme_frac {d e : Bytes} (hne : d ≠ []) (hd : ∀ x ∈ d, Lex.isDigit x = true)
    (hne' : e ≠ []) (he : ∀ x ∈ e, Lex.isDigit x = true) : isNumLexeme (d ++ 46 :: e) = true := by
  have h := takeWhile_app d (46 :: e) hd
  have h46 : Lex.isDigit 46 = false := by decide
  simp only [List.takeWhile_cons, List.dropWhile_cons, h46, Bool.false_eq_true, if_false, List.append_nil] at h
  simp only [isNumLexeme, h.1, h.2]
  cases d with
  | nil => exact absurd rfl hne
  | cons _ _ =>
    cases e with
    | nil => exact absurd rfl hne'
    | cons a e' =>
      simp only [List.isEmpty_cons, Bool.not_false, Bool.true_and]
      exact List.all_eq_true.2 he

theorem numFinish_lexeme (start : Nat) (lx : Bytes) (c : Lex.Cur) :
    ∃ c' ds, Lex.numFinish start lx c = .ok lx c' ds := by
  unfold Lex.numFinish
  split
  · exact ⟨_, _, rfl⟩
  · split <;> exact ⟨_, _, rfl⟩

/-- `scan_number` on a cursor that stands on a digit yields a well-formed lexeme. -/
theorem scanNumber_lexeme (start : Nat) (c : Lex.Cur) {b : Nat} {r : Bytes} (hc : c.rest = b :: r)
    (hb : Lex.isDigit b = true) {lx : Bytes} {c' : Lex.Cur} {ds : List Diag}
    (h : Lex.scanNumber start c = .ok lx c' ds) : isNumLexeme lx = true := by
  have hip : c.rest.takeWhile Lex.isDigit ≠ [] := by
    rw [hc]; simp [hb]
  have hipd := takeWhile_all (p := Lex.isDigit) c.rest
  unfold Lex.scanNumber at h
  simp only at h
  split at h
  · next r2 _ =>
    split at h
    · cases h
    · next d tl _ =>
      split at h
      · next hd =>
        obtain ⟨c2, ds2, e⟩ := numFinish_lexeme start
          (c.rest.takeWhile Lex.isDigit ++ 46 :: (d :: tl).takeWhile Lex.isDigit)
          (Lex.Cur.skipWhile Lex.isDigit ⟨(c.skipWhile Lex.isDigit).pos + 1, d :: tl⟩)
        rw [e] at h
        cases h
        exact isNumLexeme_frac hip hipd (by simp [hd]) (takeWhile_all _)
      · cases h
  · obtain ⟨c2, ds2, e⟩ := numFinish_lexeme start (c.rest.takeWhile Lex.isDigit) (c.skipWhile Lex.isDigit)
    rw [e] at h
    cases h
    exact isNumLexeme_int hip hipd

theorem lookup_mem {α β : Type} [BEq α] : ∀ {l : List (α × β)} {k : α} {v : β}, l.lookup k = some v →
    v ∈ l.map (·.2)
  | [], _, _, h => by simp [List.lookup] at h
  | (a, b) :: l, k, v, h => by
      simp only [List.lookup] at h
      split at h
      · cases h; simp
      · simp only [List.map_cons, List.mem_cons]
        exact Or.inr (lookup_mem h)

theorem punct_not_num {b : Nat} {t : Tok} (h : Lex.punct b = some t) : isNumTok t = false := by
  have hm := lookup_mem h
  have : ∀ t ∈ Lex.punctTable.map (·.2), isNumTok t = false := by decide
  exact this t hm

theorem tryAlts_mem : ∀ {alts : List (List Bytes × Tok)} {c : Lex.Cur} {t : Tok} {c' : Lex.Cur},
    Lex.tryAlts alts c = some (t, c') → t ∈ alts.map (·.2)
  | [], _, _, _, h => by simp [Lex.tryAlts] at h
  | (ws, t0) :: alts, c, t, c', h => by
      simp only [Lex.tryAlts] at h
      split at h
      · cases h; simp
      · simp only [List.map_cons, List.mem_cons]
        exact Or.inr (tryAlts_mem h)

theorem scanWord_not_num (c : Lex.Cur) : isNumTok (Lex.scanWord c).1 = false := by
  unfold Lex.scanWord
  simp only
  split
  · next alts halts =>
    split
    · next t c' ht =>
      have h1 := lookup_mem halts
      have h2 := tryAlts_mem ht
      have : ∀ alts ∈ Lex.multiWord.map (·.2), ∀ t ∈ alts.map (·.2), isNumTok t = false := by decide
      exact this alts h1 t h2
    · rfl
  · split
    · next t ht =>
      have h1 := lookup_mem ht
      have : ∀ t ∈ Lex.kwTable.map (·.2), isNumTok t = false := by decide
      exact this t h1
    · rfl

/-- Every token a turn of `next_token` yields is fine. -/
theorem step_tok {c0 : Lex.Cur} {t : SpTok} {c' : Lex.Cur} {ds : List Diag} (h : Lex.step c0 = .tok t c' ds) :
    TokOk isNumLexeme t.tok := by
  unfold Lex.step at h
  simp only at h
  split at h
  · cases h
  · next b r hrest =>
    split at h
    · cases h
    · split at h
      · cases h; trivial
      · split at h
        · next t0 ht0 => cases h; exact tokOk_of_not_num (punct_not_num ht0)
        · split at h
          · next hb =>
            split at h
            · next lx c2 ds2 hsn =>
              cases h
              exact scanNumber_lexeme _ _ hrest hb hsn
            · cases h
          · split at h
            · cases h
              exact tokOk_of_not_num (scanWord_not_num _)
            · split at h <;> cases h

theorem lexGo_numbers : ∀ (f : Nat) (c : Lex.Cur), ∀ t ∈ (Lex.lexGo f c).1, TokOk isNumLexeme t.tok
  | 0, _, _, h => by simp [Lex.lexGo] at h
  | f + 1, c, t, h => by
      simp only [Lex.lexGo] at h
      split at h
      · cases h
      · exact lexGo_numbers f _ t h
      · next t0 c' ds hs =>
        rcases List.mem_cons.1 h with rfl | h
        · exact step_tok hs
        · exact lexGo_numbers f _ t h

/-- **Scanner**: every number token of `lex src` has a lexeme `digits` or `digits.digits`. -/
theorem lex_numbers (src : Bytes) : ∀ t ∈ (Lex.lex src).1, TokOk isNumLexeme t.tok := by
  intro t ht
  simp only [Lex.lex, Lex.lexIter, List.mem_append, List.mem_singleton] at ht
  rcases ht with ht | rfl
  · exact lexGo_numbers _ _ t ht
  · unfold Lex.eofTok; split <;> trivial

/-! ### The parser -/

open Parse

/-- Every token the parser can still see is fine. -/
def StOk (P : Bytes → Bool) (st : PState) : Prop := TokOk P st.cur.tok ∧ ∀ t ∈ st.rest, TokOk P t.tok

section
variable {P : Bytes → Bool}

theorem StOk.init {toks : List SpTok} (h : ∀ t ∈ toks, TokOk P t.tok) : StOk P (PState.init toks) := by
  cases toks with
  | nil => exact ⟨trivial, fun t ht => by cases ht⟩
  | cons t ts => exact ⟨h t List.mem_cons_self, fun u hu => h u (List.mem_cons_of_mem _ hu)⟩

theorem StOk.bump {st : PState} (h : StOk P st) : StOk P st.bump := by
  unfold PState.bump
  split
  · next hr => exact ⟨trivial, by simp only; rw [hr]; intro t ht; cases ht⟩
  · next t ts hr =>
    have := h.2
    rw [hr] at this
    exact ⟨this t List.mem_cons_self, fun u hu => this u (List.mem_cons_of_mem _ hu)⟩

theorem StOk.err {st : PState} (h : StOk P st) (k : DiagKind) (sp : Span) (ls : List Span) :
    StOk P (st.err k sp ls) := h

theorem StOk.err1 {st : PState} (h : StOk P st) (k : DiagKind) (sp : Span) : StOk P (st.err1 k sp) := h

theorem StOk.take {st : PState} (h : StOk P st) : StOk P st.take := ⟨trivial, h.2⟩

theorem StOk.expect {st : PState} (h : StOk P st) (t : Tok) (k : DiagKind) (sp : Span) :
    StOk P (st.expect t k sp) := by
  unfold PState.expect; split
  · exact h.bump
  · exact h.err1 _ _

theorem syncGo_ok : ∀ (rest : List SpTok) (cur : SpTok), TokOk P cur.tok → (∀ t ∈ rest, TokOk P t.tok) →
    TokOk P (syncGo cur rest).1.tok ∧ ∀ t ∈ (syncGo cur rest).2, TokOk P t.tok
  | [], cur, hc, _ => by
      simp only [syncGo]; split
      · exact ⟨hc, fun t ht => by cases ht⟩
      · exact ⟨trivial, fun t ht => by cases ht⟩
  | t :: ts, cur, hc, hr => by
      simp only [syncGo]; split
      · exact ⟨hc, hr⟩
      · exact syncGo_ok ts t (hr t List.mem_cons_self) (fun u hu => hr u (List.mem_cons_of_mem _ hu))

theorem StOk.sync {st : PState} (h : StOk P st) : StOk P st.sync := syncGo_ok st.rest st.cur h.1 h.2

theorem parseField_ok {st : PState} (h : StOk P st) : StOk P (parseField st).2.2 := by
  unfold parseField
  split
  · exact h.bump
  · split
    · exact (h.err1 _ _).bump
    · exact (h.err1 _ _).bump

theorem closeBracket_ok {st : PState} (h : StOk P st) : StOk P (closeBracket st).2 := by
  unfold closeBracket; split
  · exact h.bump
  · exact h.err1 _ _

theorem nameOrPlaceholder_ok {st : PState} (h : StOk P st) (sp : Span) : StOk P (nameOrPlaceholder st sp).2 := by
  unfold nameOrPlaceholder
  split
  · exact h
  · split <;> exact h.err1 _ _

theorem paramStep_ok {st : PState} (h : StOk P st) {p : Param} {st' : PState} (hs : paramStep st = some (p, st')) :
    StOk P st' := by
  unfold paramStep at hs
  split at hs
  · cases hs; exact h
  · split at hs
    · cases hs; exact h.err1 _ _
    · cases hs

theorem paramsGo_ok : ∀ (rest : List SpTok) (cur : SpTok) (errs : List Diag), TokOk P cur.tok →
    (∀ t ∈ rest, TokOk P t.tok) → StOk P (paramsGo cur errs rest).2
  | [], cur, errs, hc, hr => by
      have h0 : StOk P ⟨cur, [], errs⟩ := ⟨hc, hr⟩
      simp only [paramsGo]
      split
      · exact h0
      · next p st hs => exact (paramStep_ok h0 hs).bump
  | [t], cur, errs, hc, hr => by
      have h0 : StOk P ⟨cur, [t], errs⟩ := ⟨hc, hr⟩
      simp only [paramsGo]
      split
      · exact h0
      · next p st hs =>
        split
        · exact (paramStep_ok h0 hs).bump.bump
        · exact (paramStep_ok h0 hs).bump
  | t :: u :: us, cur, errs, hc, hr => by
      have h0 : StOk P ⟨cur, t :: u :: us, errs⟩ := ⟨hc, hr⟩
      simp only [paramsGo]
      split
      · exact h0
      · next p st hs =>
        split
        · exact paramsGo_ok us u st.errs (hr u (by simp)) (fun v hv => hr v (by simp [hv]))
        · exact (paramStep_ok h0 hs).bump

theorem parseParams_ok {st : PState} (h : StOk P st) : StOk P (parseParams st).2 :=
  paramsGo_ok st.rest st.cur st.errs h.1 h.2

theorem parseFnHeader_ok (start : Nat) {st : PState} (h : StOk P st) : StOk P (parseFnHeader start st).2 := by
  unfold parseFnHeader
  simp only
  exact ((parseParams_ok (((nameOrPlaceholder_ok h.bump _).bump).expect _ _ _)).expect _ _ _).expect _ _ _

theorem parseMakeHeader_ok {st : PState} (h : StOk P st) : StOk P (parseMakeHeader st).2.2 := by
  unfold parseMakeHeader
  simp only
  split
  · exact h.bump.bump
  · split
    · exact (h.bump.err1 _ _).bump
    · exact (h.bump.err1 _ _).bump

theorem openCond_ok (sp : Span) {st : PState} (h : StOk P st) : StOk P (openCond sp st) := h.expect _ _ _

theorem closeCond_ok (start : Nat) (c : Expr) {st : PState} (h : StOk P st) : StOk P (closeCond start c st).2 := by
  unfold closeCond
  exact (h.expect _ _ _).expect _ _ _

end

theorem atomOf_src (C : SCfg) {t : SpTok} {e : Expr} (h : atomOf t = some e) (ht : TokOk C.numOk t.tok) :
    srcExpr C e = true := by
  unfold atomOf at h
  split at h
  · next n hn => cases h; rw [hn] at ht; simp only [srcExpr]; exact ht
  · cases h; rfl
  · cases h; rfl
  · cases h; rfl
  · cases h; rfl
  · cases h; rfl
  · cases h

/-- The expression parser at fuel `f`: number nodes carry accepted lexemes, the state stays fine. -/
structure PExprAll (C : SCfg) (f : Nat) : Prop where
  expr : ∀ (minBp : Nat) (st : PState) (e : Expr) (st' : PState), StOk C.numOk st →
    parseExpr f minBp st = some (e, st') → srcExpr C e = true ∧ StOk C.numOk st'
  cont : ∀ (minBp : Nat) (lhs : Expr) (st : PState) (e : Expr) (st' : PState), srcExpr C lhs = true →
    StOk C.numOk st → parseCont f minBp lhs st = some (e, st') → srcExpr C e = true ∧ StOk C.numOk st'
  elems : ∀ (close : Tok) (st : PState) (es : List Expr) (st' : PState), StOk C.numOk st →
    parseElems f close st = some (es, st') → srcExprs C es = true ∧ StOk C.numOk st'

theorem pexpr_zero (C : SCfg) : PExprAll C 0 :=
  ⟨fun _ _ _ _ _ h => by simp [parseExpr] at h, fun _ _ _ _ _ _ _ h => by simp [parseCont] at h,
   fun _ _ _ _ _ h => by simp [parseElems] at h⟩

theorem pexpr_step {C : SCfg} (h0 : C.numOk [48] = true) {f : Nat} (ih : PExprAll C f) : PExprAll C (f + 1) := by
  refine ⟨?_, ?_, ?_⟩
  · intro minBp st e st' hst h
    simp only [parseExpr] at h
    split at h
    · next e0 ha => exact ih.cont _ _ _ _ _ (atomOf_src C ha hst.1) hst.bump h
    · split at h
      · next op bp hu =>
        split at h
        · cases h
        · next e1 st1 h1 =>
          obtain ⟨a, b⟩ := ih.expr _ _ _ _ hst.bump h1
          exact ih.cont _ _ _ _ _ (by simpa [srcExpr] using a) b h
      · split at h
        · split at h
          · cases h
          · next e1 st1 h1 =>
            obtain ⟨a, b⟩ := ih.expr _ _ _ _ hst.bump h1
            exact ih.cont _ _ _ _ _ a (b.expect _ _ _) h
        · split at h
          · split at h
            · cases h
            · next es st2 h2 =>
              have hes : srcExprs C es = true ∧ StOk C.numOk st2 := by
                split at h2
                · cases h2; exact ⟨rfl, hst.bump⟩
                · exact ih.elems _ _ _ _ hst.bump h2
              exact ih.cont _ _ _ _ _ (by simpa [srcExpr] using hes.1) (closeBracket_ok hes.2) h
          · exact ih.cont _ _ _ _ _ (by simpa [srcExpr] using h0) ((hst.take.err1 _ _).sync) h
  · intro minBp lhs st e st' hl hst h
    simp only [parseCont] at h
    split at h
    · exact ih.cont _ _ _ _ _ (by simpa [srcExpr] using hl) (parseField_ok hst.bump) h
    · split at h
      · split at h
        · cases h
        · next args st2 h2 =>
          have hes : srcExprs C args = true ∧ StOk C.numOk st2 := by
            split at h2
            · cases h2; exact ⟨rfl, hst.bump⟩
            · exact ih.elems _ _ _ _ hst.bump h2
          exact ih.cont _ _ _ _ _ (by simp [srcExpr, hl, hes.1]) (hes.2.expect _ _ _) h
      · split at h
        · split at h
          · cases h
          · next ix st1 h1 =>
            obtain ⟨a, b⟩ := ih.expr _ _ _ _ hst.bump h1
            exact ih.cont _ _ _ _ _ (by simp [srcExpr, hl, a]) (closeBracket_ok b) h
        · split at h
          · cases h; exact ⟨hl, hst⟩
          · split at h
            · cases h; exact ⟨hl, hst⟩
            · split at h
              · cases h
              · next rhs st1 h1 =>
                obtain ⟨a, b⟩ := ih.expr _ _ _ _ hst.bump h1
                exact ih.cont _ _ _ _ _ (by simp [srcExpr, hl, a]) b h
  · intro close st es st' hst h
    simp only [parseElems] at h
    split at h
    · cases h
    · next e st1 h1 =>
      obtain ⟨a, b⟩ := ih.expr _ _ _ _ hst h1
      split at h
      · split at h
        · cases h; exact ⟨by simp [srcExprs, a], b.bump⟩
        · split at h
          · cases h
          · next es' st3 h3 =>
            obtain ⟨a', b'⟩ := ih.elems _ _ _ _ b.bump h3
            cases h
            exact ⟨by simp [srcExprs, a, a'], b'⟩
      · cases h; exact ⟨by simp [srcExprs, a], b⟩

theorem pexpr_all {C : SCfg} (h0 : C.numOk [48] = true) : ∀ f, PExprAll C f
  | 0 => pexpr_zero C
  | f + 1 => pexpr_step h0 (pexpr_all h0 f)

theorem finishAssign_src (C : SCfg) (start : Nat) (target value : Expr) {st : PState}
    (ht : srcExpr C target = true) (hv : srcExpr C value = true) (hst : StOk C.numOk st) :
    srcStmt C (finishAssign start target value st).1 = true ∧ StOk C.numOk (finishAssign start target value st).2 := by
  unfold finishAssign
  simp only
  split
  · exact ⟨by simpa [srcStmt] using hv, hst⟩
  · exact ⟨by simp [srcStmt, ht, hv, isIndexExpr], hst⟩
  · exact ⟨by simp [srcStmt, srcExpr], hst.err1 _ _⟩

/-- The statement parser at fuel `f`. -/
structure PStmtAll (C : SCfg) (f : Nat) : Prop where
  stmt : ∀ (st : PState) (s : Stmt) (st' : PState), StOk C.numOk st → parseStmt f st = some (s, st') →
    srcStmt C s = true ∧ StOk C.numOk st'
  stmts : ∀ (st : PState) (ss : List Stmt) (st' : PState), StOk C.numOk st → parseStmts f st = some (ss, st') →
    srcStmts C ss = true ∧ StOk C.numOk st'
  block : ∀ (st : PState) (b : Block) (st' : PState), StOk C.numOk st → parseBlock f st = some (b, st') →
    srcBlock C b = true ∧ StOk C.numOk st'

theorem pstmt_zero (C : SCfg) : PStmtAll C 0 :=
  ⟨fun _ _ _ _ h => by simp [parseStmt] at h, fun _ _ _ _ h => by simp [parseStmts] at h,
   fun _ _ _ _ h => by simp [parseBlock] at h⟩

theorem pstmt_step {C : SCfg} (h0 : C.numOk [48] = true) {f : Nat} (ih : PStmtAll C f) : PStmtAll C (f + 1) := by
  have hE := pexpr_all h0 f
  refine ⟨?_, ?_, ?_⟩
  · intro st s st' hst h
    simp only [parseStmt] at h
    split at h
    · -- do
      split at h
      · cases h
      · next body st2 hb =>
        obtain ⟨a, b⟩ := ih.block _ _ _ (parseFnHeader_ok _ hst) hb
        cases h
        exact ⟨by simpa [srcStmt] using a, b.expect _ _ _⟩
    · -- return
      split at h
      · cases h; exact ⟨by simp [srcStmt], hst.bump⟩
      · split at h
        · cases h
        · next e st2 he =>
          obtain ⟨a, b⟩ := hE.expr _ _ _ _ hst.bump he
          cases h
          exact ⟨by simpa [srcStmt] using a, b⟩
    · -- make
      split at h
      · split at h
        · cases h
        · next e st2 he =>
          obtain ⟨a, b⟩ := hE.expr _ _ _ _ (parseMakeHeader_ok hst).bump he
          cases h
          exact ⟨by simpa [srcStmt] using a, b⟩
      · cases h
        exact ⟨by simp [srcStmt, srcExpr], parseMakeHeader_ok hst⟩
    · -- if to say
      split at h
      · cases h
      · next cond st2 hc =>
        obtain ⟨a, b⟩ := hE.expr _ _ _ _ (openCond_ok _ hst.bump) hc
        split at h
        · cases h
        · next thenB st4 ht =>
          obtain ⟨a2, b2⟩ := ih.block _ _ _ (closeCond_ok _ _ b) ht
          split at h
          · split at h
            · cases h
            · next elseB st8 he =>
              obtain ⟨a3, b3⟩ := ih.block _ _ _ (((b2.expect _ _ _).bump).expect _ _ _) he
              cases h
              exact ⟨by simp [srcStmt, srcOptBlock, a, a2, a3], b3.expect _ _ _⟩
          · cases h
            exact ⟨by simp [srcStmt, srcOptBlock, a, a2], b2.expect _ _ _⟩
    · -- jasi
      split at h
      · cases h
      · next cond st2 hc =>
        obtain ⟨a, b⟩ := hE.expr _ _ _ _ (openCond_ok _ hst.bump) hc
        split at h
        · cases h
        · next body st4 hb =>
          obtain ⟨a2, b2⟩ := ih.block _ _ _ (closeCond_ok _ _ b) hb
          cases h
          exact ⟨by simp [srcStmt, a, a2], b2.expect _ _ _⟩
    · cases h; exact ⟨by simp [srcStmt], hst.bump⟩
    · cases h; exact ⟨by simp [srcStmt], hst.bump⟩
    · -- start
      split at h
      · cases h
      · next b st1 hb =>
        obtain ⟨a, b'⟩ := ih.block _ _ _ hst.bump hb
        cases h
        exact ⟨by simpa [srcStmt] using a, b'.expect _ _ _⟩
    · -- identifier-led
      split at h
      · cases h
      · next target st1 hc =>
        obtain ⟨a, b⟩ := hE.cont _ _ _ _ _ (by simp [srcExpr]) hst.bump hc
        split at h
        · split at h
          · cases h
          · next value st2 hv =>
            obtain ⟨a2, b2⟩ := hE.expr _ _ _ _ b.bump hv
            have hfa := finishAssign_src C st.cur.span.lo target value a a2 b2
            have e : finishAssign st.cur.span.lo target value st2 = (s, st') := Option.some.inj h
            rw [e] at hfa
            exact hfa
        · cases h
          exact ⟨by simpa [srcStmt] using a, b⟩
    · cases h
      exact ⟨by simp [srcStmt, srcExpr], ((hst.err1 _ _).bump).sync⟩
  · intro st ss st' hst h
    simp only [parseStmts] at h
    split at h
    · cases h; exact ⟨rfl, hst⟩
    · split at h
      · cases h
      · next s st1 hs =>
        obtain ⟨a, b⟩ := ih.stmt _ _ _ hst hs
        split at h
        · cases h
        · next ss' st2 hss =>
          obtain ⟨a2, b2⟩ := ih.stmts _ _ _ b hss
          cases h
          exact ⟨by simp [srcStmts, a, a2], b2⟩
  · intro st b st' hst h
    simp only [parseBlock] at h
    split at h
    · cases h
    · next ss st1 hss =>
      obtain ⟨a, b'⟩ := ih.stmts _ _ _ hst hss
      cases h
      exact ⟨by simpa [srcBlock] using a, b'⟩

theorem pstmt_all {C : SCfg} (h0 : C.numOk [48] = true) : ∀ f, PStmtAll C f
  | 0 => pstmt_zero C
  | f + 1 => pstmt_step h0 (pstmt_all h0 f)

theorem parseTopStmts_src {C : SCfg} (h0 : C.numOk [48] = true) : ∀ (f : Nat) (st : PState) (ss : List Stmt)
    (st' : PState), StOk C.numOk st → parseTopStmts f st = some (ss, st') → srcStmts C ss = true
  | 0, _, _, _, _, h => by simp [parseTopStmts] at h
  | f + 1, st, ss, st', hst, h => by
      simp only [parseTopStmts] at h
      split at h
      · split at h
        · cases h
        · next s st1 hs =>
          obtain ⟨a, b⟩ := (pstmt_all h0 f).stmt _ _ _ hst hs
          split at h
          · cases h
          · next ss' st2 hss =>
            have a2 := parseTopStmts_src h0 f _ _ _ b hss
            cases h
            simp [srcStmts, a, a2]
      · cases h; rfl

/-- **Parser**: if every number token carries a lexeme `numOk` accepts (and so does the recovery
placeholder `0`), every number node of the parsed program does, and every index assignment has an
index. -/
theorem parse_source_ok (C : SCfg) (h0 : C.numOk [48] = true) (toks : List SpTok)
    (ht : ∀ t ∈ toks, TokOk C.numOk t.tok) : srcBlock C (parseProgram toks).1 = true := by
  unfold parseProgram
  split
  · next r hr =>
    unfold parseProgramFuel at hr
    simp only at hr
    split at hr
    · cases hr
    · next ss st1 hss =>
      cases hr
      simp only [srcBlock]
      exact parseTopStmts_src h0 _ _ _ _ (StOk.init ht) hss
  · rfl

theorem isNumLexeme_zero : isNumLexeme [48] = true := by decide

/-- **Scanner and parser together**: the program the front end hands to the resolver has the two
guarantees, for every source text. -/
theorem frontEnd_source_ok (src : Bytes) (T : List Nat) (plan : Option Eval.Plan) :
    srcBlock ⟨T, isNumLexeme, true, plan⟩ (parseProgram (Lex.lex src).1).1 = true :=
  parse_source_ok ⟨T, isNumLexeme, true, plan⟩ isNumLexeme_zero _ (lex_numbers src)

end NaijaVerif.Bridge
