import NaijaVerif.Lemmas.SpanEraseAnalysis
import NaijaVerif.Lemmas.SpanEraseResolve
import NaijaVerif.Model.Eval
/-
C10, downstream of the parser (3): the evaluator commutes with span erasure.

Running the span-erased program in the span-erased state (the hoisted function bodies in the state
are ASTs; the ghost `ScopeKind.block span` tag is a span) yields the span-erased result: the same
value, the same printed output, the same ending class, the same runtime-error kind / panic site —
only the span a runtime error is reported at becomes `0..0`.  By induction on the fuel, all eight
mutually recursive functions of `Model/Eval.lean` at once.
-/
namespace NaijaVerif.SpanErase
open NaijaVerif NaijaVerif.Parse NaijaVerif.Eval

set_option linter.unusedSectionVars false

variable {N : Type}

/-! ### Erasure of the run-time data that holds syntax -/

def eraseFn (fd : FnEntry) : FnEntry :=
  { fd with params := fd.params.map eraseParam, body := eraseBlock fd.body }

def eraseKind : ScopeKind → ScopeKind
  | .root => .root
  | .block _ => .block zspan
  | .params fn => .params fn

def eraseScope (s : Scope N) : Scope N := { s with kind := eraseKind s.kind, fns := s.fns.map eraseFn }

def eraseState (st : State N) : State N := { st with env := st.env.map eraseScope }

def eraseFault : Fault → Fault
  | .rt k _ => .rt k zspan
  | .panic s => .panic s

def eraseEx {α : Type} : Except Fault α → Except Fault α
  | .ok a => .ok a
  | .error flt => .error (eraseFault flt)

def eraseRes {α : Type} (g : α → α) : Res N α → Res N α
  | .ok a st => .ok (g a) (eraseState st)
  | .err k _ st => .err k zspan (eraseState st)
  | .panic site st => .panic site (eraseState st)
  | .fuel => .fuel

/-- Evaluated index paths carry the span of each index expression. -/
def erasePath (p : List (Nat × Span)) : List (Nat × Span) := p.map fun q => (q.1, zspan)

def eraseIdx (q : Expr × Span) : Expr × Span := (eraseExpr q.1, zspan)

def eraseSelE : Except (PanicSite × Span) Expr → Except (PanicSite × Span) Expr
  | .ok e => .ok (eraseExpr e)
  | .error q => .error (q.1, zspan)

@[simp] theorem eraseState_out (st : State N) : (eraseState st).out = st.out := rfl
@[simp] theorem eraseState_chain (st : State N) : (eraseState st).chain = st.chain := rfl
@[simp] theorem eraseState_next (st : State N) : (eraseState st).next = st.next := rfl
@[simp] theorem eraseState_input (st : State N) : (eraseState st).input = st.input := rfl
@[simp] theorem eraseState_env (st : State N) : (eraseState st).env = st.env.map eraseScope := rfl
@[simp] theorem eraseScope_slots (s : Scope N) : (eraseScope s).slots = s.slots := rfl
@[simp] theorem eraseScope_uid (s : Scope N) : (eraseScope s).uid = s.uid := rfl
@[simp] theorem eraseScope_decls (s : Scope N) : (eraseScope s).decls = s.decls := rfl
@[simp] theorem eraseScope_fns (s : Scope N) : (eraseScope s).fns = s.fns.map eraseFn := rfl

/-! ### Scopes and lookup -/

@[simp] theorem visible_erase (cfg : RunCfg) (chain : List Nat) (s : Scope N) :
    visible cfg chain (eraseScope s) = visible cfg chain s := rfl

theorem findPos_erase (cfg : RunCfg) (chain : List Nat) (p : Slot N → Bool) : ∀ env : List (Scope N),
    findPos (visible cfg chain) p (env.map eraseScope) = findPos (visible cfg chain) p env
  | [] => rfl
  | s :: r => by
    simp only [List.map_cons, findPos, visible_erase, eraseScope_slots, findPos_erase cfg chain p r]

theorem findOwned_erase (l : Nat) : ∀ env : List (Scope N),
    findOwned l (env.map eraseScope) = findOwned l env
  | [] => rfl
  | s :: r => by
    simp only [List.map_cons, findOwned, eraseScope_decls, eraseScope_slots, findOwned_erase l r]

@[simp] theorem slotOf_erase (cfg : RunCfg) (st : State N) (bind : Option Nat) (name : Bytes) :
    slotOf cfg (eraseState st) bind name = slotOf cfg st bind name := by
  unfold slotOf
  simp only [eraseState_env, eraseState_chain, findOwned_erase, findPos_erase]

@[simp] theorem getAt_erase (env : List (Scope N)) (pos : Nat × Nat) :
    getAt (env.map eraseScope) pos = getAt env pos := by
  simp only [getAt, List.getElem?_map]
  cases env[pos.1]? <;> rfl

@[simp] theorem lookupVal_erase (cfg : RunCfg) (st : State N) (bind : Option Nat) (name : Bytes) :
    lookupVal cfg (eraseState st) bind name = lookupVal cfg st bind name := by
  simp only [lookupVal, slotOf_erase, eraseState_env]
  cases slotOf cfg st bind name <;> simp

theorem modify_map_eraseScope (env : List (Scope N)) (i : Nat) (h : List (Slot N) → List (Slot N)) :
    (env.map eraseScope).modify i (fun s => { s with slots := h s.slots })
      = (env.modify i (fun s => { s with slots := h s.slots })).map eraseScope := by
  induction env generalizing i with
  | nil => simp
  | cons s r ih =>
    cases i with
    | zero => rfl
    | succ i => simp only [List.map_cons, List.modify_succ_cons, ih]

@[simp] theorem updateAt_erase (env : List (Scope N)) (pos : Nat × Nat) (f : Value N → Value N) :
    updateAt (env.map eraseScope) pos f = (updateAt env pos f).map eraseScope := by
  unfold updateAt
  exact modify_map_eraseScope env pos.1 _

@[simp] theorem define_erase (st : State N) (bind : Option Nat) (name : Bytes) (v : Value N) :
    define (eraseState st) bind name v = eraseState (define st bind name v) := by
  unfold define
  cases h : st.env with
  | nil => simp only [eraseState_env, h, List.map_nil]
  | cons s r =>
    simp only [eraseState_env, h, List.map_cons, eraseScope_slots]
    cases s.slots.findIdx? (Slot.matches bind name) <;> rfl

@[simp] theorem assign_erase (cfg : RunCfg) (st : State N) (bind : Option Nat) (name : Bytes) (v : Value N) :
    assign cfg (eraseState st) bind name v = (assign cfg st bind name v).map eraseState := by
  simp only [assign, slotOf_erase]
  cases slotOf cfg st bind name with
  | none => rfl
  | some pos => simp only [eraseState_env, updateAt_erase, Option.map_some]; rfl

theorem find?_eraseFn (fns : List FnEntry) (p : FnEntry → Bool) (hp : ∀ fd, p (eraseFn fd) = p fd) :
    (fns.map eraseFn).find? p = (fns.find? p).map eraseFn := by
  simp only [List.find?_map, Function.comp_def, hp]

theorem findFn_erase (cfg : RunCfg) (chain : List Nat) (p : FnEntry → Bool)
    (hp : ∀ fd, p (eraseFn fd) = p fd) : ∀ env : List (Scope N),
    Eval.findFn (visible cfg chain) p (env.map eraseScope) = (Eval.findFn (visible cfg chain) p env).map eraseFn
  | [] => rfl
  | s :: r => by
    simp only [List.map_cons, Eval.findFn, visible_erase, eraseScope_fns, find?_eraseFn _ _ hp,
      findFn_erase cfg chain p hp r]
    cases visible cfg chain s with
    | false => simp
    | true =>
      simp only [if_true]
      cases s.fns.find? p <;> simp

@[simp] theorem lookupFn_erase (cfg : RunCfg) (st : State N) (fnAnn : Option Nat) (name : Bytes) :
    Eval.lookupFn cfg (eraseState st) fnAnn name = (Eval.lookupFn cfg st fnAnn name).map eraseFn := by
  cases fnAnn with
  | none => exact findFn_erase cfg st.chain _ (fun _ => rfl) st.env
  | some i => exact findFn_erase cfg st.chain _ (fun _ => rfl) st.env

@[simp] theorem pushScope_erase (st : State N) (kind : ScopeKind) (chain : List Nat) (slots : List (Slot N))
    (decls : List Nat) :
    pushScope (eraseState st) (eraseKind kind) chain slots decls
      = eraseState (pushScope st kind chain slots decls) := rfl

theorem pushScope_erase_block (st : State N) (sp : Span) (chain : List Nat) (slots : List (Slot N))
    (decls : List Nat) :
    pushScope (eraseState st) (.block zspan) chain slots decls
      = eraseState (pushScope st (.block sp) chain slots decls) := rfl

theorem pushScope_erase_params (st : State N) (fn : Option Nat) (chain : List Nat) (slots : List (Slot N))
    (decls : List Nat) :
    pushScope (eraseState st) (.params fn) chain slots decls
      = eraseState (pushScope st (.params fn) chain slots decls) := rfl

@[simp] theorem popScope_erase (st : State N) (chain : List Nat) :
    popScope (eraseState st) chain = eraseState (popScope st chain) := by
  simp only [popScope, eraseState, List.map_tail]

theorem declIds_erase : ∀ ss : List Stmt, declIds (eraseStmts ss) = declIds ss
  | [] => rfl
  | .assign _ _ _ (some l) _ _ :: rest => by simp [eraseStmts, eraseStmt, declIds, declIds_erase rest]
  | .assign _ _ _ none _ _ :: rest => by simp [eraseStmts, eraseStmt, declIds, declIds_erase rest]
  | .fnDef _ _ _ _ _ _ _ :: rest => by simp [eraseStmts, eraseStmt, declIds, declIds_erase rest]
  | .assignExisting _ _ _ _ _ _ :: rest => by simp [eraseStmts, eraseStmt, declIds, declIds_erase rest]
  | .assignIndex _ _ _ _ :: rest => by simp [eraseStmts, eraseStmt, declIds, declIds_erase rest]
  | .ifS _ _ none _ _ :: rest => by simp [eraseStmts, eraseStmt, declIds, declIds_erase rest]
  | .ifS _ _ (some _) _ _ :: rest => by simp [eraseStmts, eraseStmt, declIds, declIds_erase rest]
  | .loop _ _ _ _ :: rest => by simp [eraseStmts, eraseStmt, declIds, declIds_erase rest]
  | .block _ _ _ :: rest => by simp [eraseStmts, eraseStmt, declIds, declIds_erase rest]
  | .ret none _ _ :: rest => by simp [eraseStmts, eraseStmt, declIds, declIds_erase rest]
  | .ret (some _) _ _ :: rest => by simp [eraseStmts, eraseStmt, declIds, declIds_erase rest]
  | .brk _ _ :: rest => by simp [eraseStmts, eraseStmt, declIds, declIds_erase rest]
  | .cont _ _ :: rest => by simp [eraseStmts, eraseStmt, declIds, declIds_erase rest]
  | .expr _ _ _ :: rest => by simp [eraseStmts, eraseStmt, declIds, declIds_erase rest]

theorem hoist_erase (cfg : RunCfg) : ∀ (ss : List Stmt) (st : State N),
    hoist cfg (eraseStmts ss) (eraseState st) = eraseState (hoist cfg ss st)
  | [], st => rfl
  | .fnDef name _ params body fn _ _ :: rest, st => by
    simp only [eraseStmts, eraseStmt, hoist]
    split
    · exact hoist_erase cfg rest st
    · cases h : st.env with
      | nil =>
        simp only [eraseState_env, h, List.map_nil]
        exact hoist_erase cfg rest st
      | cons s r =>
        simp only [eraseState_env, h, List.map_cons, eraseState_chain]
        exact hoist_erase cfg rest
          { st with env := { s with fns := { id := fn, name := name, params := params, body := body,
                                             chain := st.chain } :: s.fns } :: r }
  | .assign _ _ _ _ _ _ :: rest, st => by simp only [eraseStmts, eraseStmt, hoist, hoist_erase cfg rest st]
  | .assignExisting _ _ _ _ _ _ :: rest, st => by
    simp only [eraseStmts, eraseStmt, hoist, hoist_erase cfg rest st]
  | .assignIndex _ _ _ _ :: rest, st => by simp only [eraseStmts, eraseStmt, hoist, hoist_erase cfg rest st]
  | .ifS _ _ none _ _ :: rest, st => by simp only [eraseStmts, eraseStmt, hoist, hoist_erase cfg rest st]
  | .ifS _ _ (some _) _ _ :: rest, st => by simp only [eraseStmts, eraseStmt, hoist, hoist_erase cfg rest st]
  | .loop _ _ _ _ :: rest, st => by simp only [eraseStmts, eraseStmt, hoist, hoist_erase cfg rest st]
  | .block _ _ _ :: rest, st => by simp only [eraseStmts, eraseStmt, hoist, hoist_erase cfg rest st]
  | .ret none _ _ :: rest, st => by simp only [eraseStmts, eraseStmt, hoist, hoist_erase cfg rest st]
  | .ret (some _) _ _ :: rest, st => by simp only [eraseStmts, eraseStmt, hoist, hoist_erase cfg rest st]
  | .brk _ _ :: rest, st => by simp only [eraseStmts, eraseStmt, hoist, hoist_erase cfg rest st]
  | .cont _ _ :: rest, st => by simp only [eraseStmts, eraseStmt, hoist, hoist_erase cfg rest st]
  | .expr _ _ _ :: rest, st => by simp only [eraseStmts, eraseStmt, hoist, hoist_erase cfg rest st]

@[simp] theorem paramIds_erase (fd : FnEntry) : paramIds (eraseFn fd) = paramIds fd := by
  simp only [paramIds, eraseFn, List.all_map, List.map_map, Function.comp_def, eraseParam]

@[simp] theorem paramSlots_erase (params : List Param) (ids : List (Option Nat)) (vs : List (Value N)) :
    paramSlots (params.map eraseParam) ids vs = paramSlots params ids vs := by
  unfold paramSlots
  congr 1
  induction params generalizing ids vs with
  | nil => rfl
  | cons p ps ih =>
    cases ids with
    | nil => rfl
    | cons i is =>
      cases vs with
      | nil => rfl
      | cons v vs =>
        simp only [List.map_cons, List.zip_cons_cons, ih is vs]
        rfl

@[simp] theorem eraseFn_params_length (fd : FnEntry) : (eraseFn fd).params.length = fd.params.length := by
  simp [eraseFn]


theorem eraseExprs_eq_map' (es : List Expr) : eraseExprs es = es.map eraseExpr := by
  induction es with
  | nil => rfl
  | cons e es ih => simp [eraseExprs, ih]

/-! ### L-value shapes -/

def eraseLv : Lv → Lv
  | .path n b idxs => .path n b (idxs.map eraseIdx)
  | .badRoot => .badRoot
  | .other => .other

theorem flattenIdx_erase : ∀ (e : Expr) (acc : List (Expr × Span)),
    flattenIdx (eraseExpr e) (acc.map eraseIdx)
      = (eraseExpr (flattenIdx e acc).1, (flattenIdx e acc).2.map eraseIdx)
  | .index a i isp _, acc => by
    have := flattenIdx_erase a ((i, isp) :: acc)
    simp only [List.map_cons, eraseIdx] at this
    simp only [eraseExpr, flattenIdx, this]
  | .num _ _, acc => by simp [eraseExpr, flattenIdx]
  | .str _ _, acc => by simp [eraseExpr, flattenIdx]
  | .bool _ _, acc => by simp [eraseExpr, flattenIdx]
  | .null _, acc => by simp [eraseExpr, flattenIdx]
  | .var _ _ _, acc => by simp [eraseExpr, flattenIdx]
  | .array _ _, acc => by simp [eraseExpr, flattenIdx]
  | .unary _ _ _, acc => by simp [eraseExpr, flattenIdx]
  | .binary _ _ _ _, acc => by simp [eraseExpr, flattenIdx]
  | .member _ _ _ _, acc => by simp [eraseExpr, flattenIdx]
  | .call _ _ _ _, acc => by simp [eraseExpr, flattenIdx]

theorem lvOf_erase (e : Expr) : lvOf (eraseExpr e) = eraseLv (lvOf e) := by
  cases e with
  | index a i isp sp =>
    have h := flattenIdx_erase (.index a i isp sp) []
    simp only [List.map_nil, eraseExpr] at h
    simp only [eraseExpr, lvOf, h]
    generalize flattenIdx (.index a i isp sp) [] = q
    obtain ⟨r, idxs⟩ := q
    cases r <;> simp [eraseExpr, eraseLv]
  | var n b sp => simp [eraseExpr, lvOf, eraseLv]
  | num _ _ => simp [eraseExpr, lvOf, eraseLv]
  | str _ _ => simp [eraseExpr, lvOf, eraseLv]
  | bool _ _ => simp [eraseExpr, lvOf, eraseLv]
  | null _ => simp [eraseExpr, lvOf, eraseLv]
  | array _ _ => simp [eraseExpr, lvOf, eraseLv]
  | unary _ _ _ => simp [eraseExpr, lvOf, eraseLv]
  | binary _ _ _ _ => simp [eraseExpr, lvOf, eraseLv]
  | member _ _ _ _ => simp [eraseExpr, lvOf, eraseLv]
  | call _ _ _ _ => simp [eraseExpr, lvOf, eraseLv]


/-! ### The pure steps: a span only ever ends up in a `Fault.rt` -/

section Pure
variable [NumOps N]

theorem arith_erase (op : ArithOp) (l r : Value N) (sp : Span) :
    arith op l r zspan = eraseEx (arith op l r sp) := by
  unfold arith
  cases l <;> cases r <;> cases op <;> simp only [eraseEx, eraseFault] <;> split <;> rfl

theorem logicRhs_erase (site : PanicSite) (v : Value N) : logicRhs site v = eraseEx (logicRhs site v) := by
  cases v <;> rfl

theorem unary_erase (op : UnOp) (v : Value N) : unary op v = eraseEx (unary op v) := by
  cases op <;> cases v <;> rfl

theorem truthy_erase (site : PanicSite) (v : Value N) : truthy site v = eraseEx (truthy site v) := by
  cases v <;> rfl

theorem indexRead_erase (b i : Value N) (sp : Span) : indexRead b i zspan = eraseEx (indexRead b i sp) := by
  unfold indexRead
  cases b <;> try rfl
  cases i <;> try rfl
  simp only []
  split
  · rfl
  · split
    · rfl
    · split <;> rfl

theorem indexValue_erase (v : Value N) (sp : Span) : indexValue v zspan = eraseEx (indexValue v sp) := by
  unfold indexValue
  cases v <;> try rfl
  simp only []
  split
  · rfl
  · split <;> rfl

theorem eraseEx_of_noRt {α : Type} (x : Except Fault α) (h : ∀ k sp, x ≠ .error (.rt k sp)) :
    x = eraseEx x := by
  cases x with
  | ok a => rfl
  | error flt =>
    cases flt with
    | rt k sp => exact absurd rfl (h k sp)
    | panic s => rfl

theorem strMethod_erase (std : StdOps) (m : StrM) (s : Bytes) (args : List (Value N)) :
    strMethod std m s args = eraseEx (strMethod std m s args) := by
  apply eraseEx_of_noRt
  intro k sp
  unfold strMethod
  cases m <;> simp only [] <;> (repeat' split) <;> simp

theorem requiredString_erase (v : Value N) (sp : Span) :
    requiredString v zspan = eraseEx (requiredString v sp) := by
  cases v <;> rfl

theorem timeoutMs_erase (v : Value N) (sp : Span) : timeoutMs v zspan = eraseEx (timeoutMs v sp) := by
  unfold timeoutMs
  cases v <;> try rfl
  simp only []
  split <;> rfl

@[simp] theorem erasePath_map_fst (p : List (Nat × Span)) : (erasePath p).map (·.1) = p.map (·.1) := by
  simp [erasePath, List.map_map, Function.comp_def]

@[simp] theorem erasePath_isEmpty (p : List (Nat × Span)) : (erasePath p).isEmpty = p.isEmpty := by
  cases p <;> rfl

theorem walkMut_erase : ∀ (v : Value N) (p : List (Nat × Span)),
    walkMut v (erasePath p) = eraseEx (walkMut v p)
  | v, [] => by cases v <;> rfl
  | .arr xs, (i, sp) :: p => by
    simp only [erasePath, List.map_cons, walkMut]
    cases xs[i]? with
    | none => rfl
    | some x => exact walkMut_erase x p
  | .num _, (_, sp) :: _ => rfl
  | .str _, (_, sp) :: _ => rfl
  | .bool _, (_, sp) :: _ => rfl
  | .host _, (_, sp) :: _ => rfl
  | .null, (_, sp) :: _ => rfl

theorem walkAssign_erase (ssp : Span) : ∀ (v : Value N) (p : List (Nat × Span)),
    walkAssign zspan v (erasePath p) = eraseEx (walkAssign ssp v p)
  | v, [] => by cases v <;> rfl
  | .arr xs, [(i, sp)] => by
    simp only [erasePath, List.map_cons, List.map_nil, walkAssign]
    split <;> rfl
  | .arr xs, (i, sp) :: q :: p => by
    simp only [erasePath, List.map_cons, walkAssign]
    cases xs[i]? with
    | none => rfl
    | some x => exact walkAssign_erase ssp x (q :: p)
  | .num _, (_, _) :: p => by cases p <;> rfl
  | .str _, (_, _) :: p => by cases p <;> rfl
  | .bool _, (_, _) :: p => by cases p <;> rfl
  | .host _, (_, _) :: p => by cases p <;> rfl
  | .null, (_, _) :: p => by cases p <;> rfl

theorem mutApply_erase (op : MutOp N) (cell : Value N) (sp : Span) :
    op.apply cell zspan = eraseEx (op.apply cell sp) := by
  unfold MutOp.apply
  split <;> rfl

end Pure

/-! ### `Res`-level steps -/

section ResLevel
variable [NumOps N]

theorem trap_erase {α : Type} (g : α → α) (cfg : RunCfg) (site : PanicSite) (sp : Span) (st : State N) :
    (trap cfg site zspan (eraseState st) : Res N α) = eraseRes g (trap cfg site sp st) := by
  unfold trap
  split <;> rfl

theorem ofFault_erase {α : Type} (g : α → α) (cfg : RunCfg) (flt : Fault) (sp : Span) (st : State N) :
    (Res.ofFault cfg (eraseFault flt) zspan (eraseState st) : Res N α)
      = eraseRes g (Res.ofFault cfg flt sp st) := by
  cases flt with
  | rt k s => rfl
  | panic site => exact trap_erase g cfg site sp st

theorem ofExcept_erase {α : Type} (cfg : RunCfg) (x' x : Except Fault α) (sp : Span) (st : State N)
    (hx : x' = eraseEx x) :
    Res.ofExcept cfg x' zspan (eraseState st) = eraseRes id (Res.ofExcept cfg x sp st) := by
  subst hx
  cases x with
  | ok a => rfl
  | error flt => exact ofFault_erase id cfg flt sp st

theorem bind_erase {α β : Type} (g : α → α) (h : β → β) (r : Res N α) (k k' : α → State N → Res N β)
    (hk : ∀ a st, k' (g a) (eraseState st) = eraseRes h (k a st)) :
    (eraseRes g r).bind k' = eraseRes h (r.bind k) := by
  cases r with
  | ok a st => exact hk a st
  | err kd sp st => rfl
  | panic site st => rfl
  | fuel => rfl

theorem bind_erase_id {α β : Type} (h : β → β) (r : Res N α) (k k' : α → State N → Res N β)
    (hk : ∀ a st, k' a (eraseState st) = eraseRes h (k a st)) :
    (eraseRes id r).bind k' = eraseRes h (r.bind k) :=
  bind_erase id h r k k' hk

theorem interp_erase (cfg : RunCfg) (st : State N) : ∀ (segs : List Seg) (acc : Bytes),
    interp cfg (eraseState st) segs acc = interp cfg st segs acc
  | [], acc => rfl
  | .lit s :: rest, acc => by simp only [interp, interp_erase cfg st rest]
  | .var name bind :: rest, acc => by
    simp only [interp, lookupVal_erase]
    cases lookupVal cfg st bind name with
    | none => rfl
    | some v => exact interp_erase cfg st rest _

theorem applyMut_erase (cfg : RunCfg) (st : State N) (name : Bytes) (bind : Option Nat)
    (path : List (Nat × Span)) (op : MutOp N) (sp : Span) :
    applyMut cfg (eraseState st) name bind (erasePath path) op zspan
      = eraseRes id (applyMut cfg st name bind path op sp) := by
  unfold applyMut
  simp only [slotOf_erase, erasePath_isEmpty, eraseState_env, getAt_erase, erasePath_map_fst]
  cases slotOf cfg st bind name with
  | none => exact trap_erase id cfg _ sp st
  | some pos =>
    simp only []
    cases getAt st.env pos with
    | none => exact trap_erase id cfg _ sp st
    | some root =>
      simp only [walkMut_erase]
      cases walkMut root path with
      | error flt => exact ofFault_erase id cfg flt sp st
      | ok cell =>
        simp only [eraseEx, mutApply_erase op cell sp]
        cases op.apply cell sp with
        | error flt => exact ofFault_erase id cfg flt sp st
        | ok r => simp only [updateAt_erase]; rfl

theorem assignIndex_erase (cfg : RunCfg) (st : State N) (name : Bytes) (bind : Option Nat)
    (path : List (Nat × Span)) (v : Value N) (sp : Span) :
    Eval.assignIndex cfg (eraseState st) name bind (erasePath path) v zspan
      = eraseRes id (Eval.assignIndex cfg st name bind path v sp) := by
  unfold Eval.assignIndex
  simp only [slotOf_erase, eraseState_env, getAt_erase, erasePath_map_fst]
  cases slotOf cfg st bind name with
  | none => exact trap_erase id cfg _ sp st
  | some pos =>
    simp only []
    cases getAt st.env pos with
    | none => exact trap_erase id cfg _ sp st
    | some root =>
      simp only [walkAssign_erase sp]
      cases walkAssign sp root path with
      | error flt => exact ofFault_erase id cfg flt sp st
      | ok u => simp only [eraseEx, updateAt_erase]; rfl

theorem runCommand_erase (cfg : RunCfg) (c : Proc.Cmd) (sp : Span) (st : State N) :
    runCommand cfg c zspan (eraseState st) = eraseRes id (runCommand cfg c sp st) := by
  unfold runCommand
  split
  · rfl
  · cases Proc.validate c cfg.policy.caps with
    | error e => rfl
    | ok spec =>
      simp only []
      cases cfg.runProc spec <;> rfl

theorem globalCall_erase (cfg : RunCfg) (b : Eval.GlobalB) (v : Value N) (sp : Span) (st : State N) :
    globalCall cfg b v zspan (eraseState st) = eraseRes id (globalCall cfg b v sp st) := by
  cases b with
  | shout => rfl
  | typeOf => rfl
  | readLine =>
    simp only [globalCall, eraseState_input]
    cases st.input <;> rfl
  | toString => rfl
  | command =>
    cases v <;> first | rfl | exact trap_erase id cfg _ sp st

theorem pick_erase (args : List Expr) (idx : List (Nat × PanicSite)) (sp : Span) :
    pick (eraseExprs args) idx zspan = (pick args idx sp).map eraseSelE := by
  simp only [pick, List.map_map, eraseExprs_eq_map']
  apply List.map_congr_left
  intro q _
  simp only [Function.comp, List.getElem?_map]
  cases args[q.1]? <;> rfl

end ResLevel


/-! ### The evaluator, by induction on the fuel -/

section Evaluator
variable [NumOps N]

/-- All eight functions at fuel `f` commute with span erasure. -/
structure AllErase (cfg : RunCfg) (f : Nat) : Prop where
  expr : ∀ (e : Expr) (st : State N),
    evalExpr cfg f (eraseExpr e) (eraseState st) = eraseRes id (evalExpr cfg f e st)
  sel : ∀ (es : List (Except (PanicSite × Span) Expr)) (st : State N),
    evalSel cfg f (es.map eraseSelE) (eraseState st) = eraseRes id (evalSel cfg f es st)
  idxs : ∀ (is : List (Expr × Span)) (st : State N),
    evalIdxs cfg f (is.map eraseIdx) (eraseState st) = eraseRes erasePath (evalIdxs cfg f is st)
  mutOp : ∀ (m : MutM) (args : List Expr) (sp : Span) (st : State N),
    evalMutOp cfg f m (eraseExprs args) zspan (eraseState st) = eraseRes id (evalMutOp cfg f m args sp st)
  stmt : ∀ (s : Stmt) (st : State N),
    execStmt cfg f (eraseStmt s) (eraseState st) = eraseRes id (execStmt cfg f s st)
  stmts : ∀ (ss : List Stmt) (st : State N),
    execStmts cfg f (eraseStmts ss) (eraseState st) = eraseRes id (execStmts cfg f ss st)
  block : ∀ (b : Block) (st : State N),
    execBlock cfg f (eraseBlock b) (eraseState st) = eraseRes id (execBlock cfg f b st)
  loop : ∀ (c : Expr) (b : Block) (sp : Span) (st : State N),
    loopW cfg f (eraseExpr c) (eraseBlock b) zspan (eraseState st) = eraseRes id (loopW cfg f c b sp st)

theorem allErase_zero (cfg : RunCfg) : AllErase (N := N) cfg 0 :=
  ⟨fun _ _ => by simp only [evalExpr]; rfl,
   fun _ _ => by simp only [evalSel]; rfl,
   fun _ _ => by simp only [evalIdxs]; rfl,
   fun _ _ _ _ => by simp only [evalMutOp]; rfl,
   fun _ _ => by simp only [execStmt]; rfl,
   fun _ _ => by simp only [execStmts]; rfl,
   fun _ _ => by simp only [execBlock]; rfl,
   fun _ _ _ _ => by simp only [loopW]; rfl⟩

/-- The pure step at a leaf. -/
macro "erase_pure" : tactic => `(tactic| (
  first
    | rfl
    | exact trap_erase _ _ _ _ _
    | exact ofExcept_erase _ _ _ _ _ (arith_erase _ _ _ _)
    | exact ofExcept_erase _ _ _ _ _ (logicRhs_erase _ _)
    | exact ofExcept_erase _ _ _ _ _ (unary_erase _ _)
    | exact ofExcept_erase _ _ _ _ _ (truthy_erase _ _)
    | exact ofExcept_erase _ _ _ _ _ (indexRead_erase _ _ _)
    | exact ofExcept_erase _ _ _ _ _ (indexValue_erase _ _)
    | exact ofExcept_erase _ _ _ _ _ (strMethod_erase _ _ _ _)
    | exact ofExcept_erase _ _ _ _ _ (requiredString_erase _ _)
    | exact ofExcept_erase _ _ _ _ _ (timeoutMs_erase _ _)
    | exact applyMut_erase _ _ _ _ _ _ _
    | exact assignIndex_erase _ _ _ _ _ _ _
    | exact runCommand_erase _ _ _ _
    | exact globalCall_erase _ _ _ _ _))

theorem sel_step {cfg : RunCfg} {f : Nat} (ih : AllErase (N := N) cfg f)
    (es : List (Except (PanicSite × Span) Expr)) (st : State N) :
    evalSel cfg (f + 1) (es.map eraseSelE) (eraseState st) = eraseRes id (evalSel cfg (f + 1) es st) := by
  cases es with
  | nil => simp only [List.map_nil, evalSel]; rfl
  | cons e rest =>
    cases e with
    | error s => simp only [List.map_cons, eraseSelE, evalSel]; erase_pure
    | ok e =>
      simp only [List.map_cons, eraseSelE, evalSel, ih.expr]
      refine bind_erase_id _ _ _ _ (fun v st1 => ?_)
      rw [ih.sel]
      refine bind_erase_id _ _ _ _ (fun vs st2 => ?_)
      rfl

theorem idxs_step {cfg : RunCfg} {f : Nat} (ih : AllErase (N := N) cfg f)
    (is : List (Expr × Span)) (st : State N) :
    evalIdxs cfg (f + 1) (is.map eraseIdx) (eraseState st)
      = eraseRes erasePath (evalIdxs cfg (f + 1) is st) := by
  cases is with
  | nil => simp only [List.map_nil, evalIdxs]; rfl
  | cons q rest =>
    obtain ⟨e, isp⟩ := q
    simp only [List.map_cons, eraseIdx, evalIdxs, ih.expr]
    refine bind_erase_id _ _ _ _ (fun v st1 => ?_)
    rw [ofExcept_erase cfg _ _ isp st1 (indexValue_erase v isp)]
    refine bind_erase_id _ _ _ _ (fun i st1' => ?_)
    rw [ih.idxs]
    refine bind_erase _ _ _ _ _ (fun is st2 => ?_)
    rfl

theorem stmts_step {cfg : RunCfg} {f : Nat} (ih : AllErase (N := N) cfg f)
    (ss : List Stmt) (st : State N) :
    execStmts cfg (f + 1) (eraseStmts ss) (eraseState st) = eraseRes id (execStmts cfg (f + 1) ss st) := by
  cases ss with
  | nil => simp only [eraseStmts, execStmts]; rfl
  | cons s rest =>
    simp only [eraseStmts, execStmts, eraseStmt_sid]
    split
    · exact ih.stmts rest st
    · rw [ih.stmt]
      refine bind_erase_id _ _ _ _ (fun flow st1 => ?_)
      cases flow with
      | cont => exact ih.stmts rest st1
      | ret v => rfl
      | brk => rfl
      | next => rfl

theorem block_step {cfg : RunCfg} {f : Nat} (ih : AllErase (N := N) cfg f) (b : Block) (st : State N) :
    execBlock cfg (f + 1) (eraseBlock b) (eraseState st) = eraseRes id (execBlock cfg (f + 1) b st) := by
  simp only [execBlock, eraseBlock_stmts, eraseBlock_span, declIds_erase, eraseState_chain,
    pushScope_erase_block st b.span, hoist_erase, ih.stmts]
  refine bind_erase_id _ _ _ _ (fun flow st2 => ?_)
  simp only [popScope_erase]
  rfl

theorem loop_step {cfg : RunCfg} {f : Nat} (ih : AllErase (N := N) cfg f) (c : Expr) (b : Block) (sp : Span)
    (st : State N) :
    loopW cfg (f + 1) (eraseExpr c) (eraseBlock b) zspan (eraseState st)
      = eraseRes id (loopW cfg (f + 1) c b sp st) := by
  simp only [loopW, ih.expr]
  refine bind_erase_id _ _ _ _ (fun v st1 => ?_)
  rw [ofExcept_erase cfg _ _ sp st1 (truthy_erase .loopCond v)]
  refine bind_erase_id _ _ _ _ (fun cnd st1' => ?_)
  cases cnd with
  | false => rfl
  | true =>
    simp only [if_true, ih.block]
    refine bind_erase_id _ _ _ _ (fun flow st2 => ?_)
    cases flow with
    | brk => rfl
    | ret v => rfl
    | cont => exact ih.loop c b sp st2
    | next => exact ih.loop c b sp st2


theorem stmt_step {cfg : RunCfg} {f : Nat} (ih : AllErase (N := N) cfg f) (s : Stmt) (st : State N) :
    execStmt cfg (f + 1) (eraseStmt s) (eraseState st) = eraseRes id (execStmt cfg (f + 1) s st) := by
  cases s with
  | assign var vsp e bind sid sp =>
    simp only [eraseStmt, execStmt, ih.expr]
    refine bind_erase_id _ _ _ _ (fun v st1 => ?_)
    simp only [define_erase]
    rfl
  | assignExisting var vsp e bind sid sp =>
    simp only [eraseStmt, execStmt, ih.expr]
    refine bind_erase_id _ _ _ _ (fun v st1 => ?_)
    simp only [assign_erase]
    cases assign cfg st1 bind var v with
    | some st2 => rfl
    | none => exact trap_erase _ _ _ vsp _
  | assignIndex target e sid sp =>
    simp only [eraseStmt, execStmt, ih.expr]
    refine bind_erase_id _ _ _ _ (fun v st1 => ?_)
    rw [lvOf_erase]
    cases lvOf target with
    | other => exact trap_erase _ _ _ sp _
    | badRoot => exact trap_erase _ _ _ sp _
    | path name bind idxs =>
      simp only [eraseLv]
      rw [ih.idxs]
      refine bind_erase _ _ _ _ _ (fun path st2 => ?_)
      rw [assignIndex_erase cfg st2 name bind path v sp]
      refine bind_erase_id _ _ _ _ (fun _ st3 => ?_)
      rfl
  | ifS cond thenB elseB sid sp =>
    cases elseB with
    | none =>
      simp only [eraseStmt, execStmt, ih.expr, eraseExpr_span]
      refine bind_erase_id _ _ _ _ (fun v st1 => ?_)
      rw [ofExcept_erase cfg _ _ cond.span st1 (truthy_erase .ifCond v)]
      refine bind_erase_id _ _ _ _ (fun c st1' => ?_)
      cases c with
      | true => exact ih.block thenB st1'
      | false => rfl
    | some eb =>
      simp only [eraseStmt, execStmt, ih.expr, eraseExpr_span]
      refine bind_erase_id _ _ _ _ (fun v st1 => ?_)
      rw [ofExcept_erase cfg _ _ cond.span st1 (truthy_erase .ifCond v)]
      refine bind_erase_id _ _ _ _ (fun c st1' => ?_)
      cases c with
      | true => exact ih.block thenB st1'
      | false => exact ih.block eb st1'
  | loop cond body sid sp =>
    simp only [eraseStmt, execStmt, eraseExpr_span]
    exact ih.loop cond body cond.span st
  | block b sid sp =>
    simp only [eraseStmt, execStmt]
    exact ih.block b st
  | fnDef name nsp ps body fn sid sp => simp only [eraseStmt, execStmt]; rfl
  | ret e sid sp =>
    cases e with
    | none => simp only [eraseStmt, execStmt]; rfl
    | some e =>
      simp only [eraseStmt, execStmt, ih.expr]
      refine bind_erase_id _ _ _ _ (fun v st1 => ?_)
      rfl
  | brk sid sp => simp only [eraseStmt, execStmt]; rfl
  | cont sid sp => simp only [eraseStmt, execStmt]; rfl
  | expr e sid sp =>
    simp only [eraseStmt, execStmt, ih.expr]
    refine bind_erase_id _ _ _ _ (fun v st1 => ?_)
    rfl


theorem mutOp_step {cfg : RunCfg} {f : Nat} (ih : AllErase (N := N) cfg f) (m : MutM) (args : List Expr)
    (sp : Span) (st : State N) :
    evalMutOp cfg (f + 1) m (eraseExprs args) zspan (eraseState st)
      = eraseRes id (evalMutOp cfg (f + 1) m args sp st) := by
  cases m with
  | push =>
    simp only [evalMutOp, pick_erase args _ sp, ih.sel]
    refine bind_erase_id _ _ _ _ (fun vs st1 => ?_)
    rcases vs with _ | ⟨v, _ | ⟨w, t⟩⟩
    · exact trap_erase _ _ _ sp _
    · rfl
    · exact trap_erase _ _ _ sp _
  | pop => simp only [evalMutOp]; rfl
  | reverse => simp only [evalMutOp]; rfl
  | cmd c =>
    cases c with
    | arg =>
      simp only [evalMutOp, pick_erase args _ sp, ih.sel]
      refine bind_erase_id _ _ _ _ (fun vs st1 => ?_)
      rcases vs with _ | ⟨v, _ | ⟨w, t⟩⟩
      · exact trap_erase _ _ _ sp _
      · rfl
      · exact trap_erase _ _ _ sp _
    | cwd =>
      simp only [evalMutOp, pick_erase args _ sp, ih.sel]
      refine bind_erase_id _ _ _ _ (fun vs st1 => ?_)
      rcases vs with _ | ⟨v, _ | ⟨w, t⟩⟩
      · exact trap_erase _ _ _ sp _
      · simp only []
        rw [ofExcept_erase cfg _ _ sp st1 (requiredString_erase v sp)]
        refine bind_erase_id _ _ _ _ (fun s st2 => ?_)
        rfl
      · exact trap_erase _ _ _ sp _
    | env =>
      simp only [evalMutOp, pick_erase args _ sp, ih.sel]
      refine bind_erase_id _ _ _ _ (fun vs st1 => ?_)
      rcases vs with _ | ⟨kv, _ | ⟨w, t⟩⟩
      · exact trap_erase _ _ _ sp _
      · simp only []
        rw [ofExcept_erase cfg _ _ sp st1 (requiredString_erase kv sp)]
        refine bind_erase_id _ _ _ _ (fun key st1' => ?_)
        rw [ih.sel]
        refine bind_erase_id _ _ _ _ (fun ws st2 => ?_)
        rcases ws with _ | ⟨v, _ | ⟨w, t⟩⟩
        · exact trap_erase _ _ _ sp _
        · rfl
        · exact trap_erase _ _ _ sp _
      · exact trap_erase _ _ _ sp _
    | stdinText =>
      simp only [evalMutOp, pick_erase args _ sp, ih.sel]
      refine bind_erase_id _ _ _ _ (fun vs st1 => ?_)
      rcases vs with _ | ⟨v, _ | ⟨w, t⟩⟩
      · exact trap_erase _ _ _ sp _
      · rfl
      · exact trap_erase _ _ _ sp _
    | timeoutMs =>
      simp only [evalMutOp, pick_erase args _ sp, ih.sel]
      refine bind_erase_id _ _ _ _ (fun vs st1 => ?_)
      rcases vs with _ | ⟨v, _ | ⟨w, t⟩⟩
      · exact trap_erase _ _ _ sp _
      · simp only []
        rw [ofExcept_erase cfg _ _ sp st1 (timeoutMs_erase v sp)]
        refine bind_erase_id _ _ _ _ (fun ms st2 => ?_)
        rfl
      · exact trap_erase _ _ _ sp _
    | stdinInherit => simp only [evalMutOp]; rfl
    | stdinNull => simp only [evalMutOp]; rfl
    | stdoutCapture => simp only [evalMutOp]; rfl
    | stdoutInherit => simp only [evalMutOp]; rfl
    | stdoutNull => simp only [evalMutOp]; rfl
    | stderrCapture => simp only [evalMutOp]; rfl
    | stderrInherit => simp only [evalMutOp]; rfl
    | stderrNull => simp only [evalMutOp]; rfl
    | run => simp only [evalMutOp]; rfl


theorem map_ok_erase (es : List Expr) :
    (eraseExprs es).map (Except.ok : Expr → Except (PanicSite × Span) Expr)
      = (es.map Except.ok).map eraseSelE := by
  simp [eraseExprs_eq_map', List.map_map, Function.comp_def, eraseSelE]

theorem expr_step {cfg : RunCfg} {f : Nat} (ih : AllErase (N := N) cfg f) (e : Expr) (st : State N) :
    evalExpr cfg (f + 1) (eraseExpr e) (eraseState st) = eraseRes id (evalExpr cfg (f + 1) e st) := by
  cases e with
  | num lex sp =>
    simp only [eraseExpr, evalExpr]
    cases NumOps.ofLit (N := N) lex with
    | some n => rfl
    | none => exact trap_erase _ _ _ sp _
  | str parts sp =>
    cases parts with
    | static s => simp only [eraseExpr, evalExpr]; rfl
    | interp segs =>
      simp only [eraseExpr, evalExpr, interp_erase]
      cases interp cfg st segs [] with
      | some s => rfl
      | none => exact trap_erase _ _ _ sp _
  | bool b sp => simp only [eraseExpr, evalExpr]; rfl
  | null sp => simp only [eraseExpr, evalExpr]; rfl
  | var name bind sp =>
    simp only [eraseExpr, evalExpr, lookupVal_erase]
    cases lookupVal cfg st bind name with
    | some v => rfl
    | none => exact trap_erase _ _ _ sp _
  | binary op l r sp =>
    simp only [eraseExpr, evalExpr, ih.expr, eraseExpr_span]
    refine bind_erase_id _ _ _ _ (fun lv st1 => ?_)
    cases op with
    | and =>
      simp only []
      cases h : andStops lv with
      | true => rfl
      | false =>
        simp only [Bool.false_eq_true, if_false, ih.expr]
        refine bind_erase_id _ _ _ _ (fun rv st2 => ?_)
        exact ofExcept_erase cfg _ _ r.span st2 (logicRhs_erase _ rv)
    | or =>
      simp only []
      cases h : orStops lv with
      | true => rfl
      | false =>
        simp only [Bool.false_eq_true, if_false, ih.expr]
        refine bind_erase_id _ _ _ _ (fun rv st2 => ?_)
        exact ofExcept_erase cfg _ _ r.span st2 (logicRhs_erase _ rv)
    | add => simp only [ih.expr]; exact bind_erase_id _ _ _ _ (fun rv st2 => ofExcept_erase cfg _ _ sp st2 (arith_erase _ lv rv sp))
    | minus => simp only [ih.expr]; exact bind_erase_id _ _ _ _ (fun rv st2 => ofExcept_erase cfg _ _ sp st2 (arith_erase _ lv rv sp))
    | times => simp only [ih.expr]; exact bind_erase_id _ _ _ _ (fun rv st2 => ofExcept_erase cfg _ _ sp st2 (arith_erase _ lv rv sp))
    | divide => simp only [ih.expr]; exact bind_erase_id _ _ _ _ (fun rv st2 => ofExcept_erase cfg _ _ sp st2 (arith_erase _ lv rv sp))
    | mod => simp only [ih.expr]; exact bind_erase_id _ _ _ _ (fun rv st2 => ofExcept_erase cfg _ _ sp st2 (arith_erase _ lv rv sp))
    | eq => simp only [ih.expr]; exact bind_erase_id _ _ _ _ (fun rv st2 => ofExcept_erase cfg _ _ sp st2 (arith_erase _ lv rv sp))
    | gt => simp only [ih.expr]; exact bind_erase_id _ _ _ _ (fun rv st2 => ofExcept_erase cfg _ _ sp st2 (arith_erase _ lv rv sp))
    | lt => simp only [ih.expr]; exact bind_erase_id _ _ _ _ (fun rv st2 => ofExcept_erase cfg _ _ sp st2 (arith_erase _ lv rv sp))
  | unary op x sp =>
    simp only [eraseExpr, evalExpr, ih.expr]
    exact bind_erase_id _ _ _ _ (fun v st1 => ofExcept_erase cfg _ _ sp st1 (unary_erase op v))
  | array es sp =>
    simp only [eraseExpr, evalExpr, map_ok_erase, ih.sel]
    refine bind_erase_id _ _ _ _ (fun vs st1 => ?_)
    rfl
  | index a i isp sp =>
    simp only [eraseExpr, evalExpr, ih.expr]
    refine bind_erase_id _ _ _ _ (fun av st1 => ?_)
    rw [ih.expr]
    exact bind_erase_id _ _ _ _ (fun iv st2 => ofExcept_erase cfg _ _ sp st2 (indexRead_erase av iv isp))
  | member o fld fs sp =>
    simp only [eraseExpr, evalExpr]
    exact trap_erase _ _ _ sp _
  | call callee args fnAnn sp =>
    cases callee with
    | member obj field fs ms =>
      simp only [eraseExpr, evalExpr]
      cases MutM.ofName field with
      | some m =>
        simp only [ih.mutOp m args sp st]
        refine bind_erase_id _ _ _ _ (fun op st1 => ?_)
        rw [lvOf_erase]
        cases lvOf obj with
        | other => rfl
        | badRoot => exact trap_erase _ _ _ sp _
        | path name bind idxs =>
          simp only [eraseLv]
          rw [ih.idxs]
          exact bind_erase _ _ _ _ _ (fun path st2 => applyMut_erase cfg st2 name bind path op sp)
      | none =>
        simp only [ih.expr]
        refine bind_erase_id _ _ _ _ (fun recv st1 => ?_)
        cases recv with
        | str s =>
          simp only []
          cases StrM.ofName field with
          | none => rfl
          | some m =>
            simp only [pick_erase args _ sp, ih.sel]
            exact bind_erase_id _ _ _ _ (fun vs st2 => ofExcept_erase cfg _ _ sp st2 (strMethod_erase cfg.std m s vs))
        | num n =>
          simp only []
          cases NumM.ofName field <;> rfl
        | arr xs =>
          simp only []
          cases ArrM.ofName field with
          | none => rfl
          | some a =>
            cases a with
            | len => rfl
            | join =>
              simp only [pick_erase args _ sp, ih.sel]
              refine bind_erase_id _ _ _ _ (fun vs st2 => ?_)
              rcases vs with _ | ⟨v, _ | ⟨w, t⟩⟩ <;> (try cases v) <;>
                first | rfl | exact trap_erase _ _ _ sp _
            | push => rfl
            | pop => rfl
            | reverse => rfl
        | host h =>
          cases h with
          | command c =>
            simp only []
            cases CmdM.ofName field with
            | none => rfl
            | some m => cases m <;> first | rfl | exact runCommand_erase cfg c sp st1
          | result r =>
            simp only []
            cases ResM.ofName field <;> rfl
        | bool b => exact trap_erase _ _ _ sp _
        | null => rfl
    | var name vb vsp =>
      simp only [eraseExpr, evalExpr]
      cases Eval.GlobalB.ofName name with
      | some b =>
        simp only [map_ok_erase, ih.sel]
        refine bind_erase_id _ _ _ _ (fun vs st1 => ?_)
        rcases vs with _ | ⟨v, _ | ⟨w, t⟩⟩
        · exact trap_erase _ _ _ sp _
        · exact globalCall_erase cfg b v sp st1
        · exact trap_erase _ _ _ sp _
      | none =>
        simp only [lookupFn_erase]
        cases Eval.lookupFn cfg st fnAnn name with
        | none => exact trap_erase _ _ _ sp _
        | some fd =>
          simp only [Option.map_some, map_ok_erase, ih.sel]
          refine bind_erase_id _ _ _ _ (fun vs st1 => ?_)
          simp only [eraseFn_params_length, paramIds_erase]
          by_cases hlen : vs.length ≠ fd.params.length
          · simp only [if_pos hlen]
            exact trap_erase _ _ _ sp _
          · simp only [if_neg hlen]
            cases paramIds fd with
            | none => exact trap_erase _ _ _ sp _
            | some ids =>
              have hb : (eraseFn fd).body = eraseBlock fd.body := rfl
              have hi : (eraseFn fd).id = fd.id := rfl
              have hc : (eraseFn fd).chain = fd.chain := rfl
              have hp : (eraseFn fd).params = fd.params.map eraseParam := rfl
              simp only [hb, hi, hc, hp, paramSlots_erase, pushScope_erase_params, ih.block]
              refine bind_erase_id _ _ _ _ (fun flow st3 => ?_)
              simp only [eraseState_chain, popScope_erase]
              cases flow with
              | cont => rfl
              | ret v => rfl
              | brk => exact trap_erase _ _ _ sp _
              | next => exact trap_erase _ _ _ sp _
    | num _ _ => simp only [eraseExpr, evalExpr]; exact trap_erase _ _ _ sp _
    | str _ _ => simp only [eraseExpr, evalExpr]; exact trap_erase _ _ _ sp _
    | bool _ _ => simp only [eraseExpr, evalExpr]; exact trap_erase _ _ _ sp _
    | null _ => simp only [eraseExpr, evalExpr]; exact trap_erase _ _ _ sp _
    | array _ _ => simp only [eraseExpr, evalExpr]; exact trap_erase _ _ _ sp _
    | index _ _ _ _ => simp only [eraseExpr, evalExpr]; exact trap_erase _ _ _ sp _
    | unary _ _ _ => simp only [eraseExpr, evalExpr]; exact trap_erase _ _ _ sp _
    | binary _ _ _ _ => simp only [eraseExpr, evalExpr]; exact trap_erase _ _ _ sp _
    | call _ _ _ _ => simp only [eraseExpr, evalExpr]; exact trap_erase _ _ _ sp _


theorem allErase_succ {cfg : RunCfg} {f : Nat} (ih : AllErase (N := N) cfg f) : AllErase (N := N) cfg (f + 1) :=
  ⟨expr_step ih, sel_step ih, idxs_step ih, mutOp_step ih, stmt_step ih, stmts_step ih, block_step ih,
   loop_step ih⟩

theorem allErase (cfg : RunCfg) : ∀ f : Nat, AllErase (N := N) cfg f
  | 0 => allErase_zero cfg
  | f + 1 => allErase_succ (allErase cfg f)

/-- What a run shows of a runtime error is its kind; the span it is reported at is dropped. -/
def eraseOutcome : Outcome N → Outcome N
  | .ok out => .ok out
  | .rt k _ out => .rt k zspan out
  | .panic site out => .panic site out
  | .fuelOut => .fuelOut

theorem eraseState_init (cfg : RunCfg) : eraseState (State.init cfg : State N) = State.init cfg := rfl

/-- **The evaluator does not read spans**: running the span-erased program gives the same printed
values, the same ending class, the same runtime-error kind and the same panic site, for every
configuration, plan and amount of fuel; only the span of the runtime error is erased. -/
theorem run_erase (cfg : RunCfg) (fuel : Nat) (prog : Block) :
    (run cfg fuel (eraseBlock prog) : Outcome N) = eraseOutcome (run cfg fuel prog) := by
  have h := (allErase (N := N) cfg fuel).block prog (State.init cfg)
  rw [eraseState_init] at h
  simp only [run, h]
  cases execBlock cfg fuel prog (State.init cfg : State N) <;> rfl

end Evaluator

end NaijaVerif.SpanErase
