import NaijaVerif.Lemmas.AnalysisRelStep
import NaijaVerif.Lemmas.AnalysisNoTrap
/-
Decidable versions of the side conditions of the relational simulation (`SOkList`), so that they
can be evaluated by the driver on every case and discharged by `decide` in examples.
-/
namespace NaijaVerif.C03
open NaijaVerif NaijaVerif.Analysis NaijaVerif.AEval

variable {V : Type}

def Setup.baseB (S : Setup) (f i : Nat) (es : List Expr) : Bool :=
  S.fnOf i == f && eOkList (fun g => (S.callees i).contains g) S.D2 es

def Setup.deadB (S : Setup) (i : Nat) : Bool := S.T.contains (i, false)

/-- `q` decides (soundly) that an initialiser is quiet. -/
def Setup.storeRuleB (S : Setup) (q : Expr → Bool) (i : Nat) (isDecl : Bool) (b : Option Nat) (e : Expr) : Bool :=
  if S.cfg.skip i then
    S.deadB i || (match b with | some l => (if isDecl then S.D1 l else S.D2 l) && q e | none => false)
  else (match b with | some l => !S.D1 l | none => true)

def Setup.otherRuleB (S : Setup) (i : Nat) : Bool := !S.cfg.skip i || S.deadB i

mutual
  def sokB (S : Setup) (q : Nat → Expr → Bool) (f : Nat) : Stmt → Bool
    | .assign _ _ e b (some i) _ => S.baseB f i [e] && S.storeRuleB (q f) i true b e
    | .assignExisting _ _ e b (some i) _ => S.baseB f i [e] && S.storeRuleB (q f) i false b e
    | .assignIndex t e (some i) _ => S.baseB f i [t, e] && S.otherRuleB i
    | .ifS c (.mk t _) none (some i) _ => S.baseB f i [c] && S.otherRuleB i && sokListB S q f t
    | .ifS c (.mk t _) (some (.mk e _)) (some i) _ =>
        S.baseB f i [c] && S.otherRuleB i && sokListB S q f t && sokListB S q f e
    | .loop c (.mk b _) (some i) _ => S.baseB f i [c] && S.otherRuleB i && sokListB S q f b
    | .block (.mk b _) (some i) _ => S.baseB f i [] && S.otherRuleB i && sokListB S q f b
    | .fnDef _ _ _ (.mk body _) (some g) (some i) _ => S.baseB f i [] && S.otherRuleB i && sokListB S q g body
    | .fnDef _ _ _ (.mk _ _) none (some i) _ => S.baseB f i [] && S.otherRuleB i
    | .ret (some e) (some i) _ => S.baseB f i [e] && S.otherRuleB i
    | .ret none (some i) _ => S.baseB f i [] && S.otherRuleB i
    | .brk (some i) _ => S.baseB f i [] && S.otherRuleB i
    | .cont (some i) _ => S.baseB f i [] && S.otherRuleB i
    | .expr e (some i) _ => S.baseB f i [e] && S.otherRuleB i
    | .fnDef _ _ _ (.mk body _) (some g) none _ => sokListB S q g body
    | .assign _ _ _ _ none _ | .assignExisting _ _ _ _ none _ | .assignIndex _ _ none _
    | .ifS _ (.mk _ _) none none _ | .ifS _ (.mk _ _) (some (.mk _ _)) none _ | .loop _ (.mk _ _) none _
    | .block (.mk _ _) none _ | .fnDef _ _ _ (.mk _ _) none none _ | .ret _ none _ | .brk none _ | .cont none _
    | .expr _ none _ => true
  def sokListB (S : Setup) (q : Nat → Expr → Bool) (f : Nat) : List Stmt → Bool
    | [] => true
    | s :: ss => sokB S q f s && sokListB S q f ss
end

section
variable {P : Prims V} {S : Setup} {q : Nat → Expr → Bool}

theorem base_of_B {f i : Nat} {es : List Expr} (h : S.baseB f i es = true) : S.base f i es := by
  simp only [Setup.baseB, Bool.and_eq_true, beq_iff_eq] at h
  exact h

theorem other_of_B {i : Nat} (h : S.otherRuleB i = true) : S.otherRule i := by
  intro hsk
  simp only [Setup.otherRuleB, hsk, Bool.not_true, Bool.false_or, Setup.deadB] at h
  simpa using h

theorem store_of_B (hq : ∀ e, q' e = true → Quiet P e) {i : Nat} {isDecl : Bool} {b : Option Nat} {e : Expr}
    (h : S.storeRuleB q' i isDecl b e = true) : S.storeRule P i isDecl b e := by
  constructor
  · intro hsk
    simp only [Setup.storeRuleB, hsk, ↓reduceIte, Bool.or_eq_true, Setup.deadB] at h
    rcases h with h | h
    · exact Or.inl (by simpa using h)
    · cases b with
      | none => simp at h
      | some l =>
        simp only [Bool.and_eq_true] at h
        refine Or.inr ⟨l, rfl, ?_, hq e h.2⟩
        cases isDecl <;> simpa using h.1
  · intro hsk l hl
    subst hl
    simpa [Setup.storeRuleB, hsk] using h

mutual
  theorem sok_of_B (hq : ∀ f e, q f e = true → Quiet P e) : ∀ (f : Nat) (s : Stmt), sokB S q f s = true → SOk P S f s
    | f, .assign _ _ e b (some i) _, h => by
        simp only [sokB, Bool.and_eq_true] at h
        simp only [SOk]
        exact ⟨base_of_B h.1, store_of_B (hq f) h.2⟩
    | f, .assignExisting _ _ e b (some i) _, h => by
        simp only [sokB, Bool.and_eq_true] at h
        simp only [SOk]
        exact ⟨base_of_B h.1, store_of_B (hq f) h.2⟩
    | f, .assignIndex t e (some i) _, h | f, .fnDef _ _ _ (.mk _ _) none (some i) _, h
    | f, .ret (some e) (some i) _, h | f, .ret none (some i) _, h | f, .brk (some i) _, h
    | f, .cont (some i) _, h | f, .expr e (some i) _, h => by
        simp only [sokB, Bool.and_eq_true] at h
        simp only [SOk]
        exact ⟨base_of_B h.1, other_of_B h.2⟩
    | f, .ifS c (.mk t _) none (some i) _, h => by
        simp only [sokB, Bool.and_eq_true] at h
        simp only [SOk]
        exact ⟨base_of_B h.1.1, other_of_B h.1.2, sokList_of_B hq f t h.2⟩
    | f, .ifS c (.mk t _) (some (.mk e _)) (some i) _, h => by
        simp only [sokB, Bool.and_eq_true] at h
        simp only [SOk]
        exact ⟨base_of_B h.1.1.1, other_of_B h.1.1.2, sokList_of_B hq f t h.1.2, sokList_of_B hq f e h.2⟩
    | f, .loop c (.mk b _) (some i) _, h => by
        simp only [sokB, Bool.and_eq_true] at h
        simp only [SOk]
        exact ⟨base_of_B h.1.1, other_of_B h.1.2, sokList_of_B hq f b h.2⟩
    | f, .block (.mk b _) (some i) _, h => by
        simp only [sokB, Bool.and_eq_true] at h
        simp only [SOk]
        exact ⟨base_of_B h.1.1, other_of_B h.1.2, sokList_of_B hq f b h.2⟩
    | f, .fnDef _ _ _ (.mk body _) (some g) (some i) _, h => by
        simp only [sokB, Bool.and_eq_true] at h
        simp only [SOk]
        exact ⟨base_of_B h.1.1, other_of_B h.1.2, sokList_of_B hq g body h.2⟩
    | f, .fnDef _ _ _ (.mk body _) (some g) none _, h => by
        simp only [sokB] at h
        simp only [SOk]
        exact sokList_of_B hq g body h
    | _, .assign _ _ _ _ none _, _ => by simp only [SOk]
    | _, .assignExisting _ _ _ _ none _, _ => by simp only [SOk]
    | _, .assignIndex _ _ none _, _ => by simp only [SOk]
    | _, .ifS _ (.mk _ _) none none _, _ => by simp only [SOk]
    | _, .ifS _ (.mk _ _) (some (.mk _ _)) none _, _ => by simp only [SOk]
    | _, .loop _ (.mk _ _) none _, _ => by simp only [SOk]
    | _, .block (.mk _ _) none _, _ => by simp only [SOk]
    | _, .fnDef _ _ _ (.mk _ _) none none _, _ => by simp only [SOk]
    | _, .ret (some _) none _, _ => by simp only [SOk]
    | _, .ret none none _, _ => by simp only [SOk]
    | _, .brk none _, _ => by simp only [SOk]
    | _, .cont none _, _ => by simp only [SOk]
    | _, .expr _ none _, _ => by simp only [SOk]
  theorem sokList_of_B (hq : ∀ f e, q f e = true → Quiet P e) : ∀ (f : Nat) (ss : List Stmt),
      sokListB S q f ss = true → SOkList P S f ss
    | _, [], _ => trivial
    | f, s :: ss, h => by
        simp only [sokListB, Bool.and_eq_true] at h
        exact ⟨sok_of_B hq f s h.1, sokList_of_B hq f ss h.2⟩
end

end

/-- The decidable "safe initialiser" test for a statement of function `f`: `PureNoTrap` by the fixed
classification (reads of captured variables excluded), no user call, builtin arities respected. -/
def safeB (facts : Facts) (f : Nat) (e : Expr) : Bool :=
  decide (classify (fun l => ownerFn facts l != some f) e = .pureNoTrap) && noUserCall e && arityOk e

theorem quiet_of_safeB {P : Prims V} {ty : V → LTy → Prop} (L : Lawful P ty) (facts : Facts) (f : Nat) (e : Expr)
    (h : safeB facts f e = true) : Quiet P e := by
  simp only [safeB, Bool.and_eq_true, decide_eq_true_eq] at h
  exact quiet_of_class L _ e ⟨h.1.1, h.1.2, h.2⟩


/-- The setting of the simulation for a program, its facts, a plan and two sets of locals:
`D2` never read, `D1 ⊆ D2` with all stores removed. -/
def setupOf (root : Block) (facts : Facts) (plan : Option Plan) (D1 D2 : Nat → Bool) : Setup :=
  let c := mkCtx root facts
  { T := tbl root, fnOf := c.fnOf, callees := c.callees, BR := fun g => c.bodyReachable.contains g,
    D1 := D1, D2 := D2, cfg := Cfg.ofPlan plan }

/-- Ownership and callee consistency of the facts w.r.t. the annotated AST (hypothesis of T3), decidable. -/
def ownOkB (root : Block) (facts : Facts) : Bool :=
  sokListB (setupOf root facts none (fun _ => false) (fun _ => false)) (fun _ _ => false) 0 root.stmts

/-! ### How much of a plan the proved theorem covers (executable, used by the check for a statistic) -/

def segReads : List Seg → List Nat
  | [] => []
  | .lit _ :: ss => segReads ss
  | .var _ (some id) :: ss => id :: segReads ss
  | .var _ none :: ss => segReads ss

mutual
  /-- Every local an expression reads (variable occurrences and interpolated segments). -/
  def exprReads : Expr → List Nat
    | .var _ (some id) _ => [id]
    | .var _ none _ => []
    | .str (.interp segs) _ => segReads segs
    | .str (.static _) _ | .num _ _ | .bool _ _ | .null _ => []
    | .call c args _ _ => exprReads c ++ exprsReads args
    | .binary _ l r _ => exprReads l ++ exprReads r
    | .index a i _ _ => exprReads a ++ exprReads i
    | .array es _ => exprsReads es
    | .unary _ e _ => exprReads e
    | .member o _ _ _ => exprReads o
  def exprsReads : List Expr → List Nat
    | [] => []
    | e :: es => exprReads e ++ exprsReads es
end

/-- A store site: statement id, local, is it a declaration, initialiser. -/
structure StoreSite where
  sid : Nat
  loc : Nat
  isDecl : Bool
  init : Expr

mutual
  def stmtReads : Stmt → List Nat
    | .assign _ _ e _ _ _ | .assignExisting _ _ e _ _ _ | .expr e _ _ | .ret (some e) _ _ => exprReads e
    | .assignIndex t e _ _ => exprReads t ++ exprReads e
    | .ifS c (.mk t _) none _ _ => exprReads c ++ stmtsReads t
    | .ifS c (.mk t _) (some (.mk e _)) _ _ => exprReads c ++ stmtsReads t ++ stmtsReads e
    | .loop c (.mk b _) _ _ => exprReads c ++ stmtsReads b
    | .block (.mk b _) _ _ => stmtsReads b
    | .fnDef _ _ _ (.mk b _) _ _ _ => stmtsReads b
    | .ret none _ _ | .brk _ _ | .cont _ _ => []
  def stmtsReads : List Stmt → List Nat
    | [] => []
    | s :: ss => stmtReads s ++ stmtsReads ss
end

mutual
  def stmtStores : Stmt → List StoreSite
    | .assign _ _ e (some l) (some i) _ => [⟨i, l, true, e⟩]
    | .assignExisting _ _ e (some l) (some i) _ => [⟨i, l, false, e⟩]
    | .ifS _ (.mk t _) none _ _ => stmtsStores t
    | .ifS _ (.mk t _) (some (.mk e _)) _ _ => stmtsStores t ++ stmtsStores e
    | .loop _ (.mk b _) _ _ => stmtsStores b
    | .block (.mk b _) _ _ => stmtsStores b
    | .fnDef _ _ _ (.mk b _) _ _ _ => stmtsStores b
    | _ => []
  def stmtsStores : List Stmt → List StoreSite
    | [] => []
    | s :: ss => stmtStores s ++ stmtsStores ss
end

/-- The part of `plan` the proved theorem (`c03_partial_checked`) applies to, with its `D1`/`D2`, and
whether all decidable hypotheses hold for it. -/
def coveredPlan (root : Block) (facts : Facts) (plan : Plan) : Plan × Bool :=
  let c := mkCtx root facts
  let reads := stmtsReads root.stmts
  let D2 : Nat → Bool := fun l => !reads.contains l
  let unr := unreachable root
  let stores := stmtsStores root.stmts
  let cand := stores.filter fun s =>
    plan.stmts.contains s.sid && !unr.contains s.sid && D2 s.loc && safeB facts (c.fnOf s.sid) s.init
  let D1 : Nat → Bool := fun l =>
    D2 l && stores.all (fun s => s.loc != l || unr.contains s.sid || cand.any (fun k => k.sid == s.sid))
  let kept := cand.filter fun s => !s.isDecl || D1 s.loc
  -- a declaration that cannot go keeps its variable out of D1; recompute D1 against what is really removed
  let D1' : Nat → Bool := fun l =>
    D2 l && stores.all (fun s => s.loc != l || unr.contains s.sid || kept.any (fun k => k.sid == s.sid))
  let kept' := kept.filter fun s => !s.isDecl || D1' s.loc
  let p' : Plan := { stmts := plan.stmts.filter (fun i => unr.contains i) ++ kept'.map (·.sid), fns := plan.fns }
  let unused := c.unusedFns.map (·.2)
  let ok := sokListB (setupOf root facts (some p') D1' D2) (safeB facts) 0 root.stmts && c.brClosed &&
    p'.fns.all (fun g => unused.contains g)
  (p', ok)

end NaijaVerif.C03
