import NaijaVerif.Model.Eval
/-
A toy instance of `NumOps` over `Int` (kernel-reducible, so `decide` / `rfl` evaluate the model)
and a toy configuration, used ONLY for the non-vacuity examples and concrete witnesses in `Props/`.
No theorem about the evaluator depends on it.
-/
namespace NaijaVerif.Eval.Toy
open NaijaVerif NaijaVerif.Eval

def digitsVal? : Bytes → Option Nat
  | [] => some 0
  | d :: rest =>
    if 48 ≤ d ∧ d ≤ 57 then
      match digitsVal? rest with
      | some _ => some (rest.foldl (fun acc x => acc * 10 + (x - 48)) (d - 48))
      | none => none
    else none

def ofLit (l : Bytes) : Option Int :=
  if l.isEmpty then none else (digitsVal? l).map Int.ofNat

instance : NumOps Int where
  ofLit := ofLit
  add := (· + ·)
  sub := (· - ·)
  mul := (· * ·)
  div := Int.tdiv
  fmod := Int.tmod
  neg a := -a
  lt a b := decide (a < b)
  gt a b := decide (a > b)
  approxEq a b := a == b
  isZero a := a == 0
  isFinite _ := true
  fractIsZero _ := true
  toIsize a := a
  toUsize a := a.toNat
  toU32 a := a.toNat
  ofInt i := i
  fmt := intDec
  abs a := a.natAbs
  sqrt a := (Nat.sqrt a.toNat : Nat)
  floor a := a
  ceil a := a
  round a := a
  parseNumber s := ((ofLit s).getD 0)

def caps : Proc.Caps :=
  { maxProgram := 4096, maxCwd := 4096, maxArgs := 256, maxArg := 65536, maxTotalArg := 262144,
    maxEnvPairs := 128, maxEnvKey := 256, maxEnvValue := 16384, maxTotalEnv := 131072,
    maxStdin := 1048576, maxCapture := 1048576, defaultTimeout := 900000, maxTimeout := 3600000,
    waitPoll := 10 }

/-- The implementation configuration: dynamic lookup, no plan, the current code (`panics := false`),
process denied. -/
def cfg : RunCfg :=
  { lookup := .dynamic, plan := none, panics := false, policy := { allow := false, caps := caps },
    runProc := fun _ => .error .processUnsupported,
    std := { trim := id, upper := id, lower := id }, input := [] }

/-- Display texts of the printed values. -/
def texts (vs : List (Value Int)) : List Bytes := vs.map Value.display

/-- Printed texts and the kind of ending of an outcome (for `decide`). -/
def summary : Outcome Int → List Bytes × Nat
  | .ok out => (texts out, 0)
  | .rt _ _ out => (texts out, 1)
  | .panic _ out => (texts out, 2)
  | .fuelOut => ([], 3)

def panicSite : Outcome Int → Option PanicSite
  | .panic s _ => some s
  | _ => none

def rtKind : Outcome Int → Option RtKind
  | .rt k _ _ => some k
  | _ => none

end NaijaVerif.Eval.Toy
